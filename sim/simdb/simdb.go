// Package simdb is the simulated disk: an implementation of linkchain's
// libs/db.DB over an in-memory ordered map with a numbered write log, crash
// points (freeze the durable image at write boundary k), an optional write
// gate (park concurrent writers and release them in a tape-decided order) and
// read faults. Semantics follow the production backend (goleveldb with
// db_counts=1): Load of a missing key returns leveldb's ErrNotFound, nil
// values are stored as empty, iterators see a snapshot taken at creation, a
// batch is one atomic write.
package simdb

import (
	"bytes"
	"fmt"
	"os"
	"path/filepath"
	"sort"
	"sync"

	dbm "github.com/lianxiangcloud/linkchain/libs/db"
	lerrors "github.com/syndtr/goleveldb/leveldb/errors"
)

// Disk is the set of databases of one simulated node.
type Disk struct {
	mu   sync.Mutex
	dbs  map[string]*DB
	dir  string // scratch directory returned by Dir() (kvState.wal lives there)
	seq  int    // number of completed write boundaries
	log  []WriteRec
	keep bool // keep the write log

	// FreezeAt > 0: when write boundary number FreezeAt has completed, the
	// durable image is snapshotted (Frozen) and OnFreeze is called. Later
	// writes still go to the live maps (zombie) but not to the snapshot.
	FreezeAt int
	Frozen   *Image
	OnFreeze func()

	// Gate, when non-nil, is called before every write boundary with no lock
	// held; it may block (park) until the scheduler releases the writer.
	Gate func(db string, op string)

	// MissingRead, when non-nil, makes Get/Load of matching keys read as absent.
	MissingRead func(db string, key []byte) bool
}

// WriteRec is one write boundary.
type WriteRec struct {
	Seq  int
	DB   string
	Op   string // set, delete, batch
	Keys int
}

// Image is a durable snapshot of all databases of a disk.
type Image struct {
	Seq int
	DBs map[string]map[string][]byte
}

// NewDisk returns an empty disk whose databases report dir as their directory.
func NewDisk(dir string) *Disk {
	return &Disk{dbs: map[string]*DB{}, dir: dir}
}

// KeepLog switches recording of the write log on.
func (d *Disk) KeepLog(on bool) { d.keep = on }

// Seq returns the number of completed write boundaries.
func (d *Disk) Seq() int {
	d.mu.Lock()
	defer d.mu.Unlock()
	return d.seq
}

// Log returns the write log recorded so far.
func (d *Disk) Log() []WriteRec {
	d.mu.Lock()
	defer d.mu.Unlock()
	return append([]WriteRec(nil), d.log...)
}

// Dir returns the scratch directory of the disk.
func (d *Disk) Dir() string { return d.dir }

// DB returns (creating if needed) the named database.
func (d *Disk) DB(name string) *DB {
	d.mu.Lock()
	defer d.mu.Unlock()
	db, ok := d.dbs[name]
	if !ok {
		db = &DB{disk: d, name: name, data: map[string][]byte{}}
		d.dbs[name] = db
	}
	return db
}

// Names returns the sorted database names.
func (d *Disk) Names() []string {
	d.mu.Lock()
	defer d.mu.Unlock()
	ns := make([]string, 0, len(d.dbs))
	for n := range d.dbs {
		ns = append(ns, n)
	}
	sort.Strings(ns)
	return ns
}

// Snapshot returns a deep copy of the current content.
func (d *Disk) Snapshot() *Image {
	d.mu.Lock()
	defer d.mu.Unlock()
	return d.snapshotLocked()
}

func (d *Disk) snapshotLocked() *Image {
	im := &Image{Seq: d.seq, DBs: map[string]map[string][]byte{}}
	for n, db := range d.dbs {
		m := make(map[string][]byte, len(db.data))
		for k, v := range db.data {
			m[k] = v // values are never mutated in place
		}
		im.DBs[n] = m
	}
	return im
}

// NewDiskFromImage builds a fresh disk holding a copy of im.
func NewDiskFromImage(im *Image, dir string) *Disk {
	d := NewDisk(dir)
	for n, m := range im.DBs {
		db := &DB{disk: d, name: n, data: make(map[string][]byte, len(m))}
		for k, v := range m {
			db.data[k] = v
		}
		d.dbs[n] = db
	}
	return d
}

// boundary is called with d.mu held after a write has been applied.
func (d *Disk) boundaryLocked(db, op string, keys int) {
	d.seq++
	if d.keep {
		d.log = append(d.log, WriteRec{d.seq, db, op, keys})
	}
	if d.FreezeAt > 0 && d.seq == d.FreezeAt && d.Frozen == nil {
		d.Frozen = d.snapshotLocked()
		if d.OnFreeze != nil {
			d.OnFreeze()
		}
	}
}

// DB is one simulated database.
type DB struct {
	disk *Disk
	name string
	data map[string][]byte
}

var _ dbm.DB = (*DB)(nil)

func nn(b []byte) []byte {
	if b == nil {
		return []byte{}
	}
	return b
}

func cp(b []byte) []byte {
	out := make([]byte, len(b))
	copy(out, b)
	return out
}

func (db *DB) gate(op string) {
	if g := db.disk.Gate; g != nil {
		g(db.name, op)
	}
}

func (db *DB) missing(key []byte) bool {
	if f := db.disk.MissingRead; f != nil {
		return f(db.name, key)
	}
	return false
}

// Name returns the database name.
func (db *DB) Name() string { return db.name }

// Len returns the number of keys.
func (db *DB) Len() int {
	db.disk.mu.Lock()
	defer db.disk.mu.Unlock()
	return len(db.data)
}

func (db *DB) Get(key []byte) []byte {
	key = nn(key)
	if db.missing(key) {
		return nil
	}
	db.disk.mu.Lock()
	defer db.disk.mu.Unlock()
	v, ok := db.data[string(key)]
	if !ok {
		return nil
	}
	return cp(v)
}

func (db *DB) Load(key []byte) ([]byte, error) {
	key = nn(key)
	if db.missing(key) {
		return nil, lerrors.ErrNotFound
	}
	db.disk.mu.Lock()
	defer db.disk.mu.Unlock()
	v, ok := db.data[string(key)]
	if !ok {
		return nil, lerrors.ErrNotFound
	}
	return cp(v), nil
}

func (db *DB) Has(key []byte) bool { return db.Get(key) != nil }

func (db *DB) Exist(key []byte) (bool, error) {
	v, err := db.Load(key)
	return v != nil, err
}

func (db *DB) set(key, value []byte) {
	db.gate("set")
	key, value = nn(key), nn(value)
	db.disk.mu.Lock()
	db.data[string(key)] = cp(value)
	db.disk.boundaryLocked(db.name, "set", 1)
	db.disk.mu.Unlock()
}

func (db *DB) del(key []byte) {
	db.gate("delete")
	key = nn(key)
	db.disk.mu.Lock()
	delete(db.data, string(key))
	db.disk.boundaryLocked(db.name, "delete", 1)
	db.disk.mu.Unlock()
}

func (db *DB) Set(key, value []byte)       { db.set(key, value) }
func (db *DB) Put(key, value []byte) error { db.set(key, value); return nil }
func (db *DB) SetSync(key, value []byte)   { db.set(key, value) }
func (db *DB) Delete(key []byte)           { db.del(key) }
func (db *DB) Del(key []byte) error        { db.del(key); return nil }
func (db *DB) DeleteSync(key []byte)       { db.del(key) }

func (db *DB) Dir() string {
	if db.disk.dir != "" {
		os.MkdirAll(db.disk.dir, 0755)
	}
	return db.disk.dir
}

// Path returns a per-database path under the disk directory.
func (db *DB) Path() string { return filepath.Join(db.disk.dir, db.name) }

func (db *DB) Close() {}

func (db *DB) Print() {}

func (db *DB) Stats() map[string]string {
	return map[string]string{"database.type": "simdb", "database.size": fmt.Sprint(db.Len())}
}

// ---------------------------------------------------------------- batch

type op struct {
	del   bool
	key   []byte
	value []byte
}

type batch struct {
	db   *DB
	ops  []op
	size int
}

func (db *DB) NewBatch() dbm.Batch { return &batch{db: db} }

func (b *batch) Set(key, value []byte) {
	b.ops = append(b.ops, op{false, cp(nn(key)), cp(nn(value))})
	b.size += len(value)
}

func (b *batch) Delete(key []byte) {
	b.ops = append(b.ops, op{true, cp(nn(key)), nil})
	b.size++
}

func (b *batch) write() {
	b.db.gate("batch")
	d := b.db.disk
	d.mu.Lock()
	for _, o := range b.ops {
		if o.del {
			delete(b.db.data, string(o.key))
		} else {
			b.db.data[string(o.key)] = o.value
		}
	}
	d.boundaryLocked(b.db.name, "batch", len(b.ops))
	d.mu.Unlock()
}

func (b *batch) Write()         { b.write() }
func (b *batch) Commit() error  { b.write(); return nil }
func (b *batch) WriteSync()     { b.write() }
func (b *batch) ValueSize() int { return b.size }
func (b *batch) Reset()         { b.ops = b.ops[:0]; b.size = 0 }

// ---------------------------------------------------------------- iterator

type kv struct{ k, v []byte }

type iter struct {
	items      []kv // in iteration order, already restricted to the domain
	cur        int
	start, end []byte
	reverse    bool
	all        []kv // full sorted snapshot for Seek
}

func (db *DB) sortedSnapshot() []kv {
	db.disk.mu.Lock()
	all := make([]kv, 0, len(db.data))
	for k, v := range db.data {
		all = append(all, kv{[]byte(k), v})
	}
	db.disk.mu.Unlock()
	sort.Slice(all, func(i, j int) bool { return bytes.Compare(all[i].k, all[j].k) < 0 })
	return all
}

func restrict(all []kv, start, end []byte, reverse bool) []kv {
	out := make([]kv, 0, len(all))
	if !reverse {
		for _, it := range all {
			if dbm.IsKeyInDomain(it.k, start, end, false) {
				out = append(out, it)
			}
		}
		return out
	}
	for i := len(all) - 1; i >= 0; i-- {
		if dbm.IsKeyInDomain(all[i].k, start, end, true) {
			out = append(out, all[i])
		}
	}
	return out
}

func (db *DB) Iterator(start, end []byte) dbm.Iterator {
	all := db.sortedSnapshot()
	return &iter{items: restrict(all, start, end, false), start: start, end: end, all: all}
}

func (db *DB) ReverseIterator(start, end []byte) dbm.Iterator {
	all := db.sortedSnapshot()
	return &iter{items: restrict(all, start, end, true), start: start, end: end, reverse: true, all: all}
}

func (db *DB) NewIteratorWithPrefix(prefix []byte) dbm.Iterator {
	return db.Iterator(prefix, dbm.PrefixToEnd(prefix))
}

func (it *iter) Domain() ([]byte, []byte) { return it.start, it.end }
func (it *iter) Valid() bool              { return it.cur >= 0 && it.cur < len(it.items) }
func (it *iter) Next() bool {
	if !it.Valid() {
		return false
	}
	it.cur++
	return it.Valid()
}
func (it *iter) Seek(key []byte) bool {
	it.items = restrict(it.all, key, it.end, it.reverse)
	it.cur = 0
	it.start = key
	return it.Valid()
}
func (it *iter) Key() []byte {
	if !it.Valid() {
		panic("simdb iterator is invalid")
	}
	return cp(it.items[it.cur].k)
}
func (it *iter) Value() []byte {
	if !it.Valid() {
		panic("simdb iterator is invalid")
	}
	return cp(it.items[it.cur].v)
}
func (it *iter) Close() {}
