// Package c02rig registers the C02 check: honest validators vote only for
// fully valid blocks; committed blocks apply; no wedge.
package c02rig

import (
	"time"

	"verif/sim/cluster"
	"verif/sim/kernel"
)

func init() {
	kernel.Register(&kernel.Rig{
		Property: "C02", Name: "R-cluster/validation", Level: "exploration",
		Rule: "one run = one seeded cluster configuration x one schedule x a Byzantine validator (<1/3 power) that at each of its proposer turns proposes an application-valid block corrupted by one entry of a 22-entry catalogue (chain id, totals, previous block id, validator/params hashes, internal hash consistency, previous-commit defects, evidence defects) and votes for it; plus equivocating voters; non-trivial = honest nodes committed >= 2 heights; distinct = committed chain + event count + final virtual time",
		Real: []string{"consensus.ConsensusState (real receiveRoutine, handlers)", "ConsensusReactor.Receive", "FilePV", "WAL (when configured)", "LinkApplication.CheckBlock/CommitBlock", "BlockExecutor.ApplyBlock/validateBlock", "stores", "evidence pool"},
		Stub: []string{"timeout ticker (simulator-controlled)", "gossip routines (anti-entropy stand-in incl. maj23 claims)", "p2p switch", "storage engine (SimDB)", "libxcrypto (pure-Go model)"},
		Assumptions: []string{"catalogue blocks are invalid by construction against the statement's list; the implementation's validateBlock is not the oracle", "liveness is demanded only >= 90 s of fault-free virtual time after the Byzantine turn"},
		QuickRuns: 200, QuickBudget: 75 * time.Second, ThoroughRuns: 8000, ThoroughBudget: 25 * time.Minute,
		RunsPerProcess: 40, RunTimeout: 600 * time.Second,
		Run: func(c *kernel.Ctx) { cluster.RunMode(c, cluster.ModeValidation) },
	})
}
