// Package c17rig is the composite C17 check: the library/history part
// (valsetrig: path independence over all compositions, proportionality,
// hash/update-order independence, saturation) and the cluster part
// (c17cluster: correct nodes at the same height and round agree on the
// proposer however they got there). The first draw of stream "part" selects
// which part a run executes.
package c17rig

import (
	"verif/sim/kernel"
	"verif/sim/rigs/c17cluster"
	"verif/sim/rigs/valsetrig"
)

// Rig returns the composite rig.
func Rig() *kernel.Rig {
	r := valsetrig.Describe()
	lib := r.Run
	r.Name = "valset+R-cluster/proposer"
	r.Rule = "part A (39 of 40 runs) " + r.Rule + " || part B (1 of 40 runs): cluster runs as in C01 (4-7 validators, message/partition/crash faults, Byzantine validators); after every event every pair of correct nodes at the same (height, round) is compared on the proposer it expects, and a correct proposer's FaultValidatorsEvidence must be accepted by every correct node"
	r.Real = append(r.Real, "cluster part: real ConsensusState/reactor/FilePV/app/stores (see C01)")
	r.Stub = append(r.Stub, "cluster part: ticker, gossip routines, switch, SimDB (see C01)")
	if r.RunsPerProcess == 0 || r.RunsPerProcess > 2000 {
		r.RunsPerProcess = 2000
	}
	r.Run = func(c *kernel.Ctx) {
		if c.Tape.Fork("part").Int(40) == 0 {
			c.Finger("cluster")
			c17cluster.Run(c)
			return
		}
		lib(c)
	}
	return r
}
