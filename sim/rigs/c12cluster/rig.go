// Package c12cluster is the node-level part of C12: the C01 cluster with an
// equivocating proposer (two different valid blocks for one round, sent to
// different nodes), so that nodes holding one block completely see a polka for
// the other, re-target their part set and assemble the other block from parts
// arriving in network order, with duplicates. After every event: the block a
// correct node holds as its proposal block is the block its completed part set
// encodes (same hash after a fresh decode; Block.Hash() equals the hash of the
// block's own header).
package c12cluster

import (
	"time"

	"verif/sim/cluster"
	"verif/sim/kernel"
)

// Run performs one cluster run in parts mode.
func Run(c *kernel.Ctx) { cluster.RunMode(c, cluster.ModeParts) }

// Standalone is the node-level part as a rig of its own (development aid:
// checks/c12x); the registered C12 check is rigs/c12rig.
func Standalone() *kernel.Rig {
	return &kernel.Rig{
		Property: "C12", Name: "R-cluster/parts", Level: "exploration",
		Rule:      "node-level part of C12 only",
		QuickRuns: 200, QuickBudget: 75 * time.Second, ThoroughRuns: 4000, ThoroughBudget: 20 * time.Minute,
		RunsPerProcess: 40, RunTimeout: 600 * time.Second,
		Run: Run,
	}
}
