package signrig

import (
	"fmt"
	"math/big"
	"strconv"

	"github.com/lianxiangcloud/linkchain/types"
)

// verdict is what the statement allows the chain to do with one wire
// transaction, decided from the bytes alone.
type verdict struct {
	// ok: the signatures authorise the transaction; the chain may accept it
	// and then charges exactly chargee.
	ok      bool
	chargee addr20
	// nobody: authorised, and no account is charged (ring-signed UTXO spend)
	nobody bool
	// reason says why it is not authorised (stable, used in violation keys).
	reason string
	// unbound: V names another chain or no chain. The chain may refuse it or
	// treat it as sent by somebody else, but it must never charge alt — the
	// key that signed these fields for that other chain / for no chain.
	unbound bool
	alt     addr20
	altOK   bool
	legacy  bool
}

func (w *world) judge(wt *wireTx) verdict {
	if wt == nil || !wt.wellFormed() {
		return verdict{reason: "shape"}
	}
	switch wt.kind {
	case kTx, kCreate, kTxt:
		sg, _ := getSig(wt, 0)
		signer, st, alt, altOK := indepSender(wt.signedFields(), sg, w.p)
		switch st {
		case sigOK:
			return verdict{ok: true, chargee: signer}
		case sigWrongChain:
			return verdict{reason: "wrong-chain", unbound: true, alt: alt, altOK: altOK, legacy: sg.v.Cmp(big.NewInt(28)) <= 0}
		default:
			return verdict{reason: st.String()}
		}
	case kCut:
		return w.judgeCut(wt)
	case kMst:
		return w.judgeMst(wt)
	case kUtx:
		return w.judgeUtx(wt)
	}
	return verdict{reason: "kind"}
}

func (w *world) judgeCut(wt *wireTx) verdict {
	main := wt.body.kids[0]
	if len(main.kids[0].str) != 20 {
		return verdict{reason: "shape"}
	}
	var from addr20
	copy(from[:], main.kids[0].str)
	m := w.signers[int(types.TxContractCreateType)]
	if m == nil {
		return verdict{reason: "no-signer-list"}
	}
	seen := map[addr20]bool{}
	var power int64
	fromSigned := false
	var v verdict
	for i := 0; i < nSigs(wt); i++ {
		sg, _ := getSig(wt, i)
		signer, st, alt, altOK := indepSender(wt.signedFields(), sg, w.p)
		if st == sigWrongChain && altOK {
			// remember one chain-unbound signature for the "must not count" rule
			if alt == from || m.entries[alt] > 0 {
				v.unbound, v.alt, v.altOK, v.legacy = true, alt, true, sg.v.Cmp(big.NewInt(28)) <= 0
			}
		}
		if st != sigOK || seen[signer] {
			continue // only in-range, non-malleable signatures bound to this chain count, once per key
		}
		seen[signer] = true
		power += m.entries[signer]
		if signer == from {
			fromSigned = true
		}
	}
	switch {
	case !fromSigned:
		v.reason = "sender-did-not-sign"
	case power < m.min:
		v.reason = "insufficient-signer-power"
	default:
		return verdict{ok: true, chargee: from}
	}
	return v
}

func parseHexInt(b []byte) (int64, bool) {
	v, err := strconv.ParseInt(string(b), 16, 64)
	return v, err == nil
}

func hexInt(v int64) *item { return bstr([]byte(strconv.FormatInt(v, 16))) }

// mstMessage re-derives the bytes the validators sign: the main info
// [nonce, txType, [minPower, [[power, addr]...]]] with signed integers in the
// codec's text form, canonicalised.
func mstMessage(main *item) ([]byte, *signersModel, int, bool) {
	if main == nil || !main.list || len(main.kids) != 3 || main.kids[0].list || main.kids[1].list {
		return nil, nil, 0, false
	}
	typ, ok := parseHexInt(main.kids[1].str)
	if !ok {
		return nil, nil, 0, false
	}
	si := main.kids[2]
	if !si.list || len(si.kids) != 2 || si.kids[0].list || !si.kids[1].list {
		return nil, nil, 0, false
	}
	min, ok := parseHexInt(si.kids[0].str)
	if !ok {
		return nil, nil, 0, false
	}
	model := &signersModel{min: min, entries: map[addr20]int64{}}
	ents := &item{list: true}
	for _, e := range si.kids[1].kids {
		if !e.list || len(e.kids) != 2 || e.kids[0].list || e.kids[1].list || len(e.kids[1].str) != 20 {
			return nil, nil, 0, false
		}
		pw, ok := parseHexInt(e.kids[0].str)
		if !ok {
			return nil, nil, 0, false
		}
		var a addr20
		copy(a[:], e.kids[1].str)
		model.entries[a] += pw
		ents.kids = append(ents.kids, blist(hexInt(pw), bstr(a[:])))
	}
	msg := blist(bnum(main.kids[0].num()), hexInt(typ), blist(hexInt(min), ents))
	return msg.enc(), model, int(typ), true
}

func (w *world) judgeMst(wt *wireTx) verdict {
	msg, _, _, ok := mstMessage(wt.body.kids[0])
	if !ok {
		return verdict{reason: "shape"}
	}
	seen := map[string]bool{}
	var power int64
	for _, e := range wt.body.kids[1].kids {
		ad := string(e.kids[0].str)
		v := w.valByAd[ad]
		if v == nil || seen[ad] {
			continue
		}
		sb := e.kids[1].str
		if len(sb) < 64 {
			continue
		}
		if !edVerify(v.pub, msg, sb[len(sb)-64:]) {
			continue
		}
		seen[ad] = true
		power += v.power
	}
	// strictly more than two thirds of the total power
	if new(big.Int).Mul(big.NewInt(3), big.NewInt(power)).Cmp(new(big.Int).Mul(big.NewInt(2), big.NewInt(w.totalVP))) <= 0 {
		return verdict{reason: "insufficient-validator-power"}
	}
	return verdict{ok: true, chargee: addr20(types.MultiSignNonceAddr)}
}

// ---------------------------------------------------------------- violations

func (v verdict) key(kind txKind) (class, key string) {
	switch {
	case v.unbound && v.legacy:
		return "unbound-chain", "unbound-chain/legacy-v-no-chain-parameter"
	case v.unbound:
		return "unbound-chain", "unbound-chain/other-chain-v"
	case kind == kCut:
		return "unauthorised-upgrade", "unauthorised-upgrade/" + v.reason
	case kind == kMst:
		return "unauthorised-multisign", "unauthorised-multisign/" + v.reason
	default:
		return "signature-values", fmt.Sprintf("signature-values/%s/%s", v.reason, kind)
	}
}
