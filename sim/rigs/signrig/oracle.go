package signrig

import (
	"fmt"
	"math/big"
	"strconv"

	"github.com/lianxiangcloud/linkchain/types"
)

// verdict is what the statement allows the chain to do with one wire
// transaction, decided from the bytes alone.
type verdict struct {
	// ok: the signatures authorise the transaction; the chain may accept it
	// and then charges exactly chargee.
	ok      bool
	chargee addr20
	// nobody: authorised, and no account is charged (ring-signed UTXO spend)
	nobody bool
	// reason says why it is not authorised (stable, used in violation keys).
	reason string
	// unbound: V names another chain or no chain. The chain may refuse it or
	// treat it as sent by somebody else, but it must never charge alt — the
	// key that signed these fields for that other chain / for no chain.
	unbound bool
	alt     addr20
	altOK   bool
	legacy  bool
	// sigClass, when set, names the signature-value rule the transaction breaks
	// (malleable / malleable-legacy-v / ...): it takes precedence in the
	// violation key.
	sigClass string
}

// judgeSingle is the verdict of a kind authorised by exactly one account
// signature.
func (w *world) judgeSingle(wt *wireTx) verdict {
	sg, _ := getSig(wt, 0)
	rd := readSig(wt.signedFields(), sg, w.p)
	switch rd.st {
	case sigOK:
		return verdict{ok: true, chargee: rd.signer}
	case sigWrongChain:
		return verdict{reason: "wrong-chain", unbound: true, alt: rd.alt, altOK: rd.altOK, legacy: sg.v.Cmp(big.NewInt(28)) <= 0}
	case sigMalleable:
		return verdict{reason: rd.reason(), sigClass: rd.reason()}
	}
	return verdict{reason: rd.reason()}
}

func (w *world) judge(wt *wireTx) verdict {
	if wt == nil || !wt.wellFormed() {
		return verdict{reason: "shape"}
	}
	switch wt.kind {
	case kTx, kCreate, kTxt:
		return w.judgeSingle(wt)
	case kCut:
		return w.judgeCut(wt)
	case kMst:
		return w.judgeMst(wt)
	case kUtx:
		return w.judgeUtx(wt)
	}
	return verdict{reason: "kind"}
}

func (w *world) judgeCut(wt *wireTx) verdict {
	main := wt.body.kids[0]
	if len(main.kids[0].str) != 20 {
		return verdict{reason: "shape"}
	}
	var from addr20
	copy(from[:], main.kids[0].str)
	m := w.signers[int(types.TxContractCreateType)]
	if m == nil {
		return verdict{reason: "no-signer-list"}
	}
	// Three tallies over the signature list, each counting a key once:
	//   strict  — in-range, non-malleable signatures bound to this chain: the
	//             only ones that authorise anything;
	//   unbound — plus low-s signatures for another chain / for no chain;
	//   mall    — plus malleable (high-s) encodings of any V class.
	// The verdict comes from the strict tally alone. The other two only say
	// which rule an acceptance of an unauthorised upgrade must have broken.
	type tally struct {
		seen       map[addr20]bool
		power      int64
		fromSigned bool
	}
	newTally := func() *tally { return &tally{seen: map[addr20]bool{}} }
	strict, unb, mall := newTally(), newTally(), newTally()
	count := func(t *tally, a addr20) {
		if t.seen[a] {
			return
		}
		t.seen[a] = true
		t.power += m.entries[a]
		if a == from {
			t.fromSigned = true
		}
	}
	pass := func(t *tally) bool { return t.fromSigned && t.power >= m.min }
	var v verdict
	mallClass := ""
	for i := 0; i < nSigs(wt); i++ {
		sg, _ := getSig(wt, i)
		rd := readSig(wt.signedFields(), sg, w.p)
		switch {
		case rd.st == sigOK:
			count(strict, rd.signer)
			count(unb, rd.signer)
			count(mall, rd.signer)
		case rd.st == sigWrongChain && rd.altOK:
			count(unb, rd.alt)
			count(mall, rd.alt)
			if rd.alt == from || m.entries[rd.alt] > 0 {
				v.alt, v.altOK = rd.alt, true
				if sg.v.Cmp(big.NewInt(28)) <= 0 {
					v.legacy = true
				}
			}
		case rd.st == sigMalleable && rd.twinOK:
			count(mall, rd.twin)
			if rd.twin == from || m.entries[rd.twin] > 0 {
				mallClass = rd.reason()
			}
		}
	}
	switch {
	case !strict.fromSigned:
		v.reason = "sender-did-not-sign"
	case strict.power < m.min:
		v.reason = "insufficient-signer-power"
	default:
		return verdict{ok: true, chargee: from}
	}
	switch {
	case pass(unb):
		v.unbound = true
	case pass(mall) && mallClass != "":
		v.sigClass = mallClass
		v.alt, v.altOK, v.legacy = addr20{}, false, false
	default:
		v.alt, v.altOK, v.legacy = addr20{}, false, false
	}
	return v
}

func parseHexInt(b []byte) (int64, bool) {
	v, err := strconv.ParseInt(string(b), 16, 64)
	return v, err == nil
}

func hexInt(v int64) *item { return bstr([]byte(strconv.FormatInt(v, 16))) }

// mstMessage re-derives the bytes the validators sign: the main info
// [nonce, txType, [minPower, [[power, addr]...]]] with signed integers in the
// codec's text form, canonicalised.
func mstMessage(main *item) ([]byte, *signersModel, int, bool) {
	if main == nil || !main.list || len(main.kids) != 3 || main.kids[0].list || main.kids[1].list {
		return nil, nil, 0, false
	}
	typ, ok := parseHexInt(main.kids[1].str)
	if !ok {
		return nil, nil, 0, false
	}
	si := main.kids[2]
	if !si.list || len(si.kids) != 2 || si.kids[0].list || !si.kids[1].list {
		return nil, nil, 0, false
	}
	min, ok := parseHexInt(si.kids[0].str)
	if !ok {
		return nil, nil, 0, false
	}
	model := &signersModel{min: min, entries: map[addr20]int64{}}
	ents := &item{list: true}
	for _, e := range si.kids[1].kids {
		if !e.list || len(e.kids) != 2 || e.kids[0].list || e.kids[1].list || len(e.kids[1].str) != 20 {
			return nil, nil, 0, false
		}
		pw, ok := parseHexInt(e.kids[0].str)
		if !ok {
			return nil, nil, 0, false
		}
		var a addr20
		copy(a[:], e.kids[1].str)
		model.entries[a] += pw
		ents.kids = append(ents.kids, blist(hexInt(pw), bstr(a[:])))
	}
	msg := blist(bnum(main.kids[0].num()), hexInt(typ), blist(hexInt(min), ents))
	return msg.enc(), model, int(typ), true
}

func (w *world) judgeMst(wt *wireTx) verdict {
	msg, _, _, ok := mstMessage(wt.body.kids[0])
	if !ok {
		return verdict{reason: "shape"}
	}
	seen := map[string]bool{}
	var power int64
	for _, e := range wt.body.kids[1].kids {
		ad := string(e.kids[0].str)
		v := w.valByAd[ad]
		if v == nil || seen[ad] {
			continue
		}
		sb := e.kids[1].str
		if len(sb) < 64 {
			continue
		}
		if !edVerify(v.pub, msg, sb[len(sb)-64:]) {
			continue
		}
		seen[ad] = true
		power += v.power
	}
	// strictly more than two thirds of the total power
	if new(big.Int).Mul(big.NewInt(3), big.NewInt(power)).Cmp(new(big.Int).Mul(big.NewInt(2), big.NewInt(w.totalVP))) <= 0 {
		return verdict{reason: "insufficient-validator-power"}
	}
	return verdict{ok: true, chargee: addr20(types.MultiSignNonceAddr)}
}

// ---------------------------------------------------------------- violations

func (v verdict) key(kind txKind) (class, key string) {
	switch {
	case v.sigClass != "":
		return "signature-values", fmt.Sprintf("signature-values/%s/%s", v.sigClass, kind)
	case v.unbound && v.legacy:
		return "unbound-chain", "unbound-chain/legacy-v-no-chain-parameter"
	case v.unbound:
		return "unbound-chain", "unbound-chain/other-chain-v"
	case kind == kCut:
		return "unauthorised-upgrade", "unauthorised-upgrade/" + v.reason
	case kind == kMst:
		return "unauthorised-multisign", "unauthorised-multisign/" + v.reason
	default:
		return "signature-values", fmt.Sprintf("signature-values/%s/%s", v.reason, kind)
	}
}
