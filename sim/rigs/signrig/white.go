package signrig

import (
	"encoding/binary"

	"verif/sim/kernel"
)

// whiteReader serves tape bytes XORed with a fixed keystream. A shrunk or
// truncated tape serves zeros; key generators that sample by rejection (and
// the rig's own "distinct keys" assumption) must not see a constant stream.
// Still a pure function of the tape.
type whiteReader struct {
	t   *kernel.Tape
	tag string
	ctr uint64
	buf []byte
}

func white(t *kernel.Tape, tag string) *whiteReader { return &whiteReader{t: t, tag: tag} }

func (w *whiteReader) Read(p []byte) (int, error) {
	raw := w.t.Bytes(len(p))
	for i := range p {
		if len(w.buf) == 0 {
			var c [8]byte
			binary.LittleEndian.PutUint64(c[:], w.ctr)
			w.ctr++
			w.buf = keccak([]byte("signrig-white"), []byte(w.tag), c[:])
		}
		p[i] = raw[i] ^ w.buf[0]
		w.buf = w.buf[1:]
	}
	return len(p), nil
}

func (w *whiteReader) Bytes(n int) []byte {
	b := make([]byte, n)
	w.Read(b)
	return b
}
