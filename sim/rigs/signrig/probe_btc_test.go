package signrig

import "github.com/btcsuite/btcd/btcec"

func btcecPriv(secret []byte) (*btcec.PrivateKey, error) {
	p, _ := btcec.PrivKeyFromBytes(btcec.S256(), secret)
	return p, nil
}
func btcecSignCompact(p *btcec.PrivateKey, h []byte) ([]byte, error) {
	return btcec.SignCompact(btcec.S256(), p, h, false)
}
