package signrig

import (
	"errors"
	"math/big"
)

// A minimal, strict RLP item tree written for this rig. It is the oracle's own
// view of the wire bytes: the independent signing hash is computed from items
// taken from here, never from linkchain's ser package or from a decoded
// transaction object.

type item struct {
	list bool
	str  []byte
	kids []*item
	// raw, when set, is the verbatim encoding of this element (used for
	// elements the rig does not look into: lists of typed inputs/outputs, the
	// ring-confidential part of a UTXO transaction)
	raw []byte
}

func bstr(b []byte) *item      { return &item{str: append([]byte{}, b...)} }
func blist(k ...*item) *item   { return &item{list: true, kids: k} }
func bnum(v *big.Int) *item    { return &item{str: v.Bytes()} } // minimal big-endian, zero = empty
func bu64(v uint64) *item      { return bnum(new(big.Int).SetUint64(v)) }
func (it *item) num() *big.Int { return new(big.Int).SetBytes(it.str) }

func (it *item) clone() *item {
	if it == nil {
		return nil
	}
	c := &item{list: it.list, str: append([]byte{}, it.str...)}
	if it.raw != nil {
		c.raw = append([]byte{}, it.raw...)
	}
	for _, k := range it.kids {
		c.kids = append(c.kids, k.clone())
	}
	return c
}

// at walks a path of child indexes.
func (it *item) at(path ...int) *item {
	cur := it
	for _, p := range path {
		if cur == nil || !cur.list || p < 0 || p >= len(cur.kids) {
			return nil
		}
		cur = cur.kids[p]
	}
	return cur
}

func rlpHeader(base byte, n int) []byte {
	if n < 56 {
		return []byte{base + byte(n)}
	}
	var lb []byte
	for x := n; x > 0; x >>= 8 {
		lb = append([]byte{byte(x)}, lb...)
	}
	return append([]byte{base + 55 + byte(len(lb))}, lb...)
}

func (it *item) enc() []byte {
	if it.raw != nil {
		return append([]byte{}, it.raw...)
	}
	if !it.list {
		if len(it.str) == 1 && it.str[0] < 0x80 {
			return []byte{it.str[0]}
		}
		return append(rlpHeader(0x80, len(it.str)), it.str...)
	}
	var body []byte
	for _, k := range it.kids {
		body = append(body, k.enc()...)
	}
	return append(rlpHeader(0xc0, len(body)), body...)
}

var errRLP = errors.New("signrig: malformed rlp")

// rlpDecode parses exactly one canonical item covering all of b.
func rlpDecode(b []byte) (*item, error) {
	it, rest, err := rlpOne(b, 0)
	if err != nil {
		return nil, err
	}
	if len(rest) != 0 {
		return nil, errRLP
	}
	return it, nil
}

func rlpOne(b []byte, depth int) (*item, []byte, error) {
	if len(b) == 0 || depth > 32 {
		return nil, nil, errRLP
	}
	t := b[0]
	switch {
	case t < 0x80:
		return &item{str: []byte{t}}, b[1:], nil
	case t < 0xb8:
		n := int(t - 0x80)
		if len(b) < 1+n {
			return nil, nil, errRLP
		}
		if n == 1 && b[1] < 0x80 {
			return nil, nil, errRLP
		}
		return &item{str: append([]byte{}, b[1:1+n]...)}, b[1+n:], nil
	case t < 0xc0:
		n, hl, err := rlpLong(b, int(t-0xb7))
		if err != nil {
			return nil, nil, err
		}
		return &item{str: append([]byte{}, b[hl:hl+n]...)}, b[hl+n:], nil
	default:
		var n, hl int
		if t < 0xf8 {
			n, hl = int(t-0xc0), 1
			if len(b) < hl+n {
				return nil, nil, errRLP
			}
		} else {
			var err error
			n, hl, err = rlpLong(b, int(t-0xf7))
			if err != nil {
				return nil, nil, err
			}
		}
		body := b[hl : hl+n]
		out := &item{list: true}
		for len(body) > 0 {
			k, rest, err := rlpOne(body, depth+1)
			if err != nil {
				return nil, nil, err
			}
			out.kids = append(out.kids, k)
			body = rest
		}
		return out, b[hl+n:], nil
	}
}

func rlpLong(b []byte, ll int) (n, hl int, err error) {
	if ll > 4 || len(b) < 1+ll || b[1] == 0 {
		return 0, 0, errRLP
	}
	for i := 0; i < ll; i++ {
		n = n<<8 | int(b[1+i])
	}
	if n < 56 || len(b) < 1+ll+n {
		return 0, 0, errRLP
	}
	return n, 1 + ll, nil
}

// rlpExtent returns header length and payload length of the element at the
// start of b, from the header alone.
func rlpExtent(b []byte) (hl, n int, isList bool, err error) {
	if len(b) == 0 {
		return 0, 0, false, errRLP
	}
	t := b[0]
	switch {
	case t < 0x80:
		return 0, 1, false, nil
	case t < 0xb8:
		hl, n = 1, int(t-0x80)
	case t < 0xc0:
		n, hl, err = rlpLong(b, int(t-0xb7))
	case t < 0xf8:
		hl, n, isList = 1, int(t-0xc0), true
	default:
		n, hl, err = rlpLong(b, int(t-0xf7))
		isList = true
	}
	if err != nil || len(b) < hl+n {
		return 0, 0, false, errRLP
	}
	return hl, n, isList, nil
}

// rlpShallow splits a list into its top-level elements without looking into
// them; every element keeps its verbatim bytes.
func rlpShallow(b []byte) (*item, error) {
	hl, n, isList, err := rlpExtent(b)
	if err != nil || !isList || hl+n != len(b) {
		return nil, errRLP
	}
	out := &item{list: true}
	body := b[hl : hl+n]
	for len(body) > 0 {
		h, m, l, err := rlpExtent(body)
		if err != nil {
			return nil, err
		}
		out.kids = append(out.kids, &item{list: l, raw: append([]byte{}, body[:h+m]...)})
		body = body[h+m:]
	}
	return out, nil
}
