package signrig

import (
	"math/big"

	"github.com/lianxiangcloud/linkchain/libs/cryptonote/ringct"
	lk "github.com/lianxiangcloud/linkchain/libs/cryptonote/types"
	"github.com/lianxiangcloud/linkchain/libs/cryptonote/xcrypto"
	"github.com/lianxiangcloud/linkchain/types"
)

// wallet is one confidential key set (main address + sub-addresses).
type wallet struct {
	idx      int
	keys     lk.AccountKey
	keyIndex map[lk.PublicKey]uint64
	subs     []lk.AccountAddress // subs[0] = main address
}

func newWallet(nSub int) *wallet {
	ssk, spk := xcrypto.GenerateKeys(lk.SecretKey{})
	vsk, vpk := xcrypto.GenerateKeys(lk.SecretKey(lk.Key(keccak32(ssk[:]))))
	w := &wallet{
		keys:     lk.AccountKey{Addr: lk.AccountAddress{SpendPublicKey: spk, ViewPublicKey: vpk}, SpendSKey: ssk, ViewSKey: vsk},
		keyIndex: map[lk.PublicKey]uint64{spk: 0},
	}
	w.subs = append(w.subs, w.keys.Addr)
	for i := 1; i <= nSub; i++ {
		sub := xcrypto.GetSubaddress(&w.keys, uint32(i))
		w.keyIndex[sub.SpendPublicKey] = uint64(i)
		w.subs = append(w.subs, sub)
	}
	return w
}

func keccak32(b []byte) (out [32]byte) {
	copy(out[:], keccak(b))
	return
}

// owned is what a wallet learns about one output it recognises.
type owned struct {
	outIndex uint64 // index among the UTXO outputs of the transaction
	sub      uint64 // sub-address index it was addressed to
	rKey     lk.PublicKey
	amount   *big.Int // in wei (units x rate)
	mask     lk.Key
	opens    bool // decoded (amount, mask) open the on-chain commitment
}

// scan plays the receiving wallet with linkchain's own primitives
// (IsOutputBelongToAccount, EcdhDecode): which outputs of tx are mine, and
// what do they hold.
func (w *wallet) scan(tx *types.UTXOTransaction) []owned {
	var res []owned
	rkeys := append([]lk.PublicKey{tx.RKey}, tx.AddKeys...)
	var deriv []lk.KeyDerivation
	var dk []lk.PublicKey
	for _, rk := range rkeys {
		if d, err := xcrypto.GenerateKeyDerivation(rk, w.keys.ViewSKey); err == nil {
			deriv = append(deriv, d)
			dk = append(dk, rk)
		}
	}
	rate := big.NewInt(types.UTXO_COMMITMENT_CHANGE_RATE)
	n := uint64(0)
	for _, out := range tx.Outputs {
		uo, ok := out.(*types.UTXOOutput)
		if !ok {
			continue
		}
		idx := n
		n++
		d, sub, err := types.IsOutputBelongToAccount(&w.keys, w.keyIndex, uo.OTAddr, deriv, idx)
		if err != nil {
			continue
		}
		o := owned{outIndex: idx, sub: sub}
		for i := range deriv {
			if deriv[i] == d {
				o.rKey = dk[i]
			}
		}
		if int(idx) < len(tx.RCTSig.EcdhInfo) && int(idx) < len(tx.RCTSig.OutPk) {
			scalar, err := xcrypto.DerivationToScalar(d, int(idx))
			if err == nil {
				tup := tx.RCTSig.EcdhInfo[idx]
				if xcrypto.EcdhDecode(&tup, lk.Key(scalar), false) {
					o.amount = new(big.Int).Mul(types.Hash2BigInt(tup.Amount), rate)
					o.mask = tup.Mask
					if c, err := ringct.AddKeys2(tup.Mask, tup.Amount, ringct.H); err == nil && c == tx.RCTSig.OutPk[idx].Mask {
						o.opens = true
					}
				}
			}
		}
		if !o.opens {
			continue // a wallet ignores an output whose decoded amount does not open the commitment
		}
		res = append(res, o)
	}
	return res
}

// forgeStandInRange builds a range proof for explicit (amount, mask) pairs in
// the layout of the harness's stand-in prover (xcryptomodel/bulletproof.go,
// 64 bit). With the genuine library an attacker calls bulletproof_PROVE with
// his own masks; the stand-in prover only takes amount keys, so the attacker's
// prover is written out here. Used only to construct forged inputs.
func forgeStandInRange(amounts, masks, commits []lk.Key) *lk.Bulletproof {
	const domain = "verif/xcryptomodel transparent range proof v1"
	n := len(amounts)
	lg := 0
	for (1 << uint(lg)) < n {
		lg++
	}
	size := 6 + lg
	p := &lk.Bulletproof{L: make(lk.KeyV, size), R: make(lk.KeyV, size)}
	fields := [8]*lk.Key{&p.A, &p.S, &p.T1, &p.T2, &p.Taux, &p.Mu, &p.Aa, &p.B}
	v := make(lk.KeyV, n)
	for j := 0; j < n; j++ {
		v[j], _ = ringct.ScalarmultKey(commits[j], ringct.INV_EIGHT)
		copy(fields[j/2][(j%2)*16:(j%2)*16+16], amounts[j][:16])
	}
	buf := append([]byte(domain), byte(64), byte(n))
	for i := range v {
		buf = append(buf, v[i][:]...)
	}
	for _, f := range fields {
		buf = append(buf, f[:]...)
	}
	for i := range masks {
		buf = append(buf, masks[i][:]...)
	}
	digest := keccak(buf)
	slot := func(k int) *lk.Key {
		if k < size {
			return &p.L[k]
		}
		return &p.R[k-size]
	}
	for k := 0; k < 2*size; k++ {
		if k < n {
			*slot(k) = masks[k]
		} else {
			copy(slot(k)[:], keccak([]byte(domain), []byte("pad"), []byte{byte(k)}, digest))
		}
	}
	copy(p.T[:], digest)
	return p
}
