// Package signrig is the C08 check: only the key holder can move funds;
// signatures bind every transaction field.
package signrig

import (
	"math/big"
	"testing/synctest"
	"time"

	"github.com/lianxiangcloud/linkchain/libs/common"
	"github.com/lianxiangcloud/linkchain/libs/crypto"
	"github.com/lianxiangcloud/linkchain/libs/cryptonote/xcrypto"
	"github.com/lianxiangcloud/linkchain/libs/log"
	"github.com/lianxiangcloud/linkchain/types"

	"verif/sim/kernel"
	"verif/sim/simnode"
)

func init() {
	log.Root().SetHandler(log.DiscardHandler())
	kernel.Register(&kernel.Rig{
		Property: "C08", Name: "R-chain/sign", Level: "exploration",
		Rule: "the core is a pure function of the wire bytes (who signed what); simulation contributes only the pipeline position of the tampering (mempool admission, inside a proposed block) and the sender-cache state (transaction cached+BasicChecked in the replica's mempool or not, cache entries expired by virtual time or not). " +
			"One run = one seeded chain (1-4 validators, 4-8 secp256k1 users with coin and two token balances, kv or trie state; in 2/3 of the runs also 3 confidential wallets with 2 sub-addresses each and 2 stranger key sets) with a block producer P and an honest replica R (real LinkApplication + Mempool with the tx cache on), 2-6 blocks. Per block: 2-10 transactions of the kinds transfer / contract call / contract creation / token transfer (LKC and tokens) / contract upgrade (multi-signed) / multi-sign-account (validator-signed) / account->UTXO funding / UTXO->UTXO spend (ring 1 = classic ring signature, ring 2-11 = MLSAG; change to a sub-address) / UTXO->account withdrawal, signed by linkchain's own client code or (transfers, token transfers) by the rig's btcec client; each goes over the wire to P and (warm cache) or not (cold) to R. " +
			"Tamper catalogue on the wire bytes (77 entries: every signed field of every account kind, multi-field, r/s/v = 0, = N, > N, 33-byte, r+N wrapped, r and s swapped, high-s twin with and without flipped recovery id for this chain's V, for the legacy V 27/28 form (the holder signs the bare field list, a third party turns (r,s,v) into (r,N-s,v^1)) and for another chain's V, the out-of-range values again under a legacy V, wrong/out-of-range recovery id, V legacy 27/28, raw recovery id, other chain, +2^64, +256, bit flips, signature from another tx, re-signed by another key / for another chain / for no chain, upgrade signature lists dropped/emptied/duplicated/reversed/all replaced by their twins/sender removed/colluding co-signers naming a victim, validator signatures flipped/truncated/emptied/minority/repeated/duplicated/filed under another validator/made by non-validators/re-signed by a minority; the twin encodings get a fixed 1/6 share of the draws) and on confidential transactions (54 entries: account input nonce/amount, key image, ring member, one-time address, remark, amount field, account output recipient/amount, token, tx key, additional keys, fee, extra, account signature, encrypted amounts, output commitments, range proof, amounts moved to one recipient, pseudo output, MLSAG c/s, classic ring signature, type, fee field; structural edits of the spend authorisation in every combination for short-ring (ring 1, classic signatures in P.Ss) and MLSAG transactions with one and two inputs: P.Ss emptied / last dropped / first dropped / zeroed / swapped / repeated / extended, P.MGs emptied / truncated / extended / rows dropped / last row dropped / commitment column dropped / c zeroed / swapped, both emptied, pseudo outputs dropped / swapped / moved, ring re-declared as short form or grown out of it, input repeated / dropped, commitments / encrypted amounts / range proof dropped or repeated, pairs of these; a spend built with another wallet's keys) plus thefts: spends of existing outputs written from scratch by a key set that owns nothing (9 forms: no signature, no signature and no slot, zero / random signature, classic signature or MLSAG made with the thief's own secret, empty / random MLSAG, two inputs with one unsigned; public parts all consistent), offered (1) to R's mempool, (2) inside a block whose result hashes the producer computed as if the victim had sent it (sender pre-filled) or honestly, to R.CheckBlock, and (3) IN FLIGHT: the forged transaction is submitted to R's mempool on a goroutine of its own, which the simulator parks inside the mempool.App wrapper at CheckTx(tx, BasicCheck) — after Mempool.AddTx has put the entry into the tx cache, before it marks the entry checked or deletes it, no lock held — either before the application's basic check has run or after it has returned (tape), and while it is parked the driver runs R.CheckBlock of a fresh block carrying the same forgery (sometimes instead before the submission or after it has returned), then releases it; 1-3 such flights per round, ring-signed spends/thefts and validator-signed transactions first. OBJECT HISTORY: before every judged call on a tampered or forged object (pool submission, block verification, flight) the rig performs a tape-chosen prefix of 0-3 observer calls on the SAME decoded object — From(), From() twice, String() (log formatting), Hash(), Size(), AsMessage(), the application's basic check once already, a pool submission once already — and asks From() once more after the judged call; every look is judged (From() returns no sender without error for a signature the oracle says recovers nobody and the oracle's signer for an authorised one; a failed recovery is not followed by a successful one on the same object; the sender does not change between looks; a passing basic check / pool admission at any look is an acceptance). In a third of the runs the zero address is a funded account (coin and tokens, nonce 0-2) and is watched by the before/after-balance oracle; in a quarter of the unauthorised block variants the proposer names another funded account (or the funded zero address) as sender in its own execution. One tampered transfer per run is planned before genesis so that the account it recovers to is funded (the different sender is really charged). " +
			"Oracle: the rig's own reading of the wire bytes (own RLP reader, own signing hash keccak(rlp(fields, chainParameter, 0, 0)), pure-Go btcec recovery, stdlib ed25519, range rules 1<=r<N, 1<=s<=N/2 whatever V says, V=35+2p+recid) says whether a transaction is authorised and whom it charges; ring-signed transactions are authorised iff they are byte-for-byte what an owner built (every edit is a forgery by construction); recognition ground truth is what the rig addressed to whom. Violations: accepted+unauthorised; accepted with another believed sender; accepted with an edited field and the original sender; a victim-charging block accepted; after every commit nonce/balance/token movements (own pre/post state reads of users, signers, victims) that differ from the authorised senders; an output missed by its owner, recognised by another key set, or decoded to another amount/sub-address; a re-signed object that keeps its memoised sender. " +
			"non-trivial = >= 2 blocks committed, >= 10 tampered transactions judged at the mempool, >= 3 tampered blocks judged, at least one with a warm cache, at least one block verified while its forged transaction was parked inside AddTx; distinct = committed block hashes + every (tamper, stage, outcome).",
		Real: []string{"types.Transaction / TokenTransaction / ContractUpgradeTx / MultiSignAccountTx / UTXOTransaction (client-side construction and Sign, wire codec, Hash, From, CheckBasic, CheckState, checkRingctSignatures, isOutputBelongToAccount, generateKeyImage, generateOneTimeAddress)", "types STDEIP155Signer, recoverPlain", "libs/crypto secp256k1 (cgo) Sign/Ecrecover/ValidateSignatureValues", "mempool.Mempool incl. tx cache (txHeapManager, CacheSize = default > 0 on the replica), key-image cache and the expiry loops under virtual time; Mempool.AddTx running concurrently with App.CheckBlock at the park points", "app.LinkApplication CheckTx/PreRunBlock/CheckBlock (verifyTxsOnProcess, verifySpecTxSign)/CommitBlock, StateProcessor, state transition, EVM", "txmgr multi-signer records", "BlockStore, UtxoStore, StateDB over SimDB", "block part-set wire round trip"},
		Stub: []string{"consensus (blocks go CheckBlock -> CommitBlock directly, empty LastCommit; SetLastChangedVals called by the rig as updateToStatus would)", "p2p (transactions are decoded from wire bytes and handed to Mempool.AddTx as the reactor does)", "the replica's mempool.App is a pass-through wrapper around the real LinkApplication that parks one designated AddTx call on a channel", "storage engine (SimDB)", "libxcrypto = the harness's pure-Go model: genuine key derivation, sub-addresses, key images, ECDH amount encoding, commitments, MLSAG and classic ring signatures; the range PROVER is a transparent stand-in (sound, not hiding), so nothing is claimed about range-proof forgery resistance", "wallet: the receiving side is the rig's scan() over linkchain's IsOutputBelongToAccount/EcdhDecode, not wallet/wallet"},
		Assumptions: []string{
			"the statement of the scheme the oracle implements (EIP-155 form with the network's parameter types.SignParam, low-s rule, address = keccak(pubkey)[12:]) is the intended one",
			"btcec (pure Go) recovery, x/crypto keccak and stdlib ed25519 are correct",
			"the catalogue emits only canonically encoded integers, so that 'the fields' and 'the wire bytes' coincide",
			"validator set is static (no consensus), so the multi-sign quorum is over the genesis validators",
			"confidential side: the xcrypto model is faithful (validated against C++ vectors by sim/xcryptotest); its randomness is the tape",
			"LKC confidential transactions only (token UTXO needs a token contract answering the change-rate call)",
		},
		QuickRuns: 1024, QuickBudget: 70 * time.Second, ThoroughRuns: 30000, ThoroughBudget: 18 * time.Minute,
		RunsPerProcess: 40, RunTimeout: 150 * time.Second, MaxProcs: 1,
		Run: run,
	})
}

type runCfg struct {
	NVals, NUsers, Rounds int
	IsTrie                bool
	PerRound, MemT, BlkT  int
}

type variantRec struct {
	Round    int    `json:"round"`
	Tamper   string `json:"tamper"`
	Kind     string `json:"kind"`
	Mode     string `json:"mode"`
	Warm     bool   `json:"warm"`
	Verdict  string `json:"oracle"`
	Built    bool   `json:"producer_built"`
	Accepted bool   `json:"replica_accepted"`
}

type roundRec struct {
	Height     uint64         `json:"height"`
	Honest     []string       `json:"honest"`
	MemOffered int            `json:"mempool_tampered"`
	MemOutcome map[string]int `json:"mempool_outcomes"`
	Ghost      bool           `json:"ghost_block_committed,omitempty"`
}

type sample struct {
	Cfg      runCfg       `json:"cfg"`
	Rounds   []roundRec   `json:"rounds"`
	Variants []variantRec `json:"block_variants"`
	Flights  []flightRec  `json:"in_flight,omitempty"`
}

// tampered is one tampered transaction offered to the replica.
type tampered struct {
	src    *sent
	wt     *wireTx
	raw    []byte
	name   string
	v      verdict
	memAcc bool
	sameH  bool // same transaction hash as the original (must never happen; forces a warm block variant)
	ghost  bool
	comp   string // what was edited (component / catalogue entry)
	field  bool   // a signed field / component was edited (not only signature values)
	rct    bool   // only the ring-confidential part of a UTXO transaction was edited
	unused bool   // the edited field takes no part in the authorisation
	// scratch: not an edit of a submitted transaction but a forgery written from
	// scratch (src is a stand-in holding the same bytes)
	scratch bool
}

type runner struct {
	c                                           *kernel.Ctx
	w                                           *world
	cfg                                         runCfg
	wl                                          *kernel.Tape
	tm                                          *kernel.Tape
	nonce                                       map[addr20]uint64
	funded                                      []*userKey
	mstNonce                                    uint64
	smp                                         sample
	memJudged, blkJudged, warmJudged, committed int
	stop                                        bool
	ghost                                       *tampered
	ghostSrc                                    *sent
	ghostBlk                                    *types.Block
	ghostRaws                                   [][]byte
	carry                                       map[types.Tx]*sent // P's mempool objects of earlier rounds -> submission
	forged                                      []*tampered        // forgeries produced while generating the round (foreign-key spends)
	utxo                                        bool               // this run exercises confidential transactions
	fl                                          *kernel.Tape       // in-flight scenarios (stream of its own)
	park                                        *parkApp           // wrapper of the replica's mempool.App
	flightJudged, flightParked                  int
	lk                                          *kernel.Tape // object-history looks (stream of its own)
	zeroFunded                                  bool         // the zero address holds coin and tokens in this run
}

func run(c *kernel.Ctx) {
	simnode.InitGlobals()
	learnPrefixes()
	xcrypto.SetRand(white(c.Tape.Fork("xcrypto"), "xcrypto"))
	defer xcrypto.SetRand(nil)
	kernel.Bubble(c, true, func() {
		r := &runner{c: c, carry: map[types.Tx]*sent{}}
		defer func() {
			if r.w != nil {
				r.w.cleanup()
			}
		}()
		r.main()
	})
}

func (r *runner) trouble(format string, a ...interface{}) {
	r.c.HarnessTrouble(format, a...)
	r.stop = true
}

func (r *runner) violate(class, key, format string, a ...interface{}) {
	if r.c.Violate(class, key, format, a...) {
		r.stop = true
	}
}

func lkc(n int64) *big.Int { return new(big.Int).Mul(big.NewInt(n), big.NewInt(1e18)) }

func (r *runner) main() {
	c := r.c
	ct := c.Tape.Fork("config")
	kt := white(c.Tape.Fork("keys"), "keys")
	r.wl = c.Tape.Fork("workload")
	r.tm = c.Tape.Fork("tamper")
	r.fl = c.Tape.Fork("flight")
	r.lk = c.Tape.Fork("looks")
	deep := c.Tier == kernel.Thorough

	cfg := runCfg{NVals: 1 + ct.Int(4), NUsers: 4 + ct.Int(5), IsTrie: ct.Bool(1, 2)}
	cfg.Rounds = 2 + ct.Int(2)
	cfg.PerRound = 2 + ct.Int(5)
	cfg.MemT = 8 + ct.Int(10)
	cfg.BlkT = 3 + ct.Int(4)
	if deep {
		cfg.Rounds = 3 + ct.Int(4)
		cfg.PerRound = 3 + ct.Int(8)
		cfg.MemT = 16 + ct.Int(24)
		cfg.BlkT = 6 + ct.Int(8)
	}
	r.cfg = cfg
	r.smp.Cfg = cfg

	w := &world{c: c, p: new(big.Int).Set(types.SignParam), byAddr: map[addr20]*userKey{}, valByAd: map[string]*valInfo{}, signers: map[int]*signersModel{}, honestUtx: map[string]bool{}}
	r.utxo = ct.Bool(2, 3)
	if r.utxo {
		for i := 0; i < 3; i++ {
			wl := newWallet(2)
			wl.idx = i
			w.wallets = append(w.wallets, wl)
		}
		for i := 0; i < 2; i++ {
			wl := newWallet(2)
			wl.idx = -1 - i
			w.strangers = append(w.strangers, wl)
		}
	}
	r.w = w
	w.now = 946684800 + 10
	spec := &simnode.GenesisSpec{ChainID: "verif-c08", IsTrie: cfg.IsTrie}
	for i := 0; i < cfg.NVals; i++ {
		priv := crypto.GenPrivKeyEd25519FromSecret(kt.Bytes(16))
		var cb common.Address
		copy(cb[:], kt.Bytes(20))
		cb[0] |= 0x80
		vk := simnode.ValKey{Priv: priv, Power: int64(1 + ct.Int(10)), CoinBase: cb}
		spec.Vals = append(spec.Vals, vk)
		pk := priv.PubKey().(crypto.PubKeyEd25519)
		vi := &valInfo{key: vk, pub: append([]byte{}, pk[:]...), addr: string(priv.PubKey().Address()), power: vk.Power}
		w.vals = append(w.vals, vi)
		w.valByAd[vi.addr] = vi
		w.totalVP += vk.Power
	}
	for i := 0; i < 2; i++ {
		var t common.Address
		copy(t[:], kt.Bytes(20))
		t[0] |= 0x80
		w.tokens = append(w.tokens, t)
	}
	var toks []tokenAlloc
	r.nonce = map[addr20]uint64{}
	for i := 0; i < cfg.NUsers; i++ {
		u := newUserKey(i, kt.Bytes(32))
		w.users = append(w.users, u)
		w.byAddr[u.a20] = u
		if i < cfg.NUsers-1 { // the last user holds a key but no funds
			n0 := uint64(ct.Int(3))
			spec.Alloc = append(spec.Alloc, simnode.Alloc{Addr: u.addr, Balance: lkc(100000), Nonce: n0})
			r.nonce[u.a20] = n0
			for _, t := range w.tokens {
				toks = append(toks, tokenAlloc{u.addr, t, big.NewInt(1000000)})
			}
			r.funded = append(r.funded, u)
		}
	}
	// in a third of the runs the zero address is a funded account, so that a
	// transaction attributed to "no sender" moves real funds
	if zt := c.Tape.Fork("zero"); zt.Bool(1, 3) {
		r.zeroFunded = true
		spec.Alloc = append(spec.Alloc, simnode.Alloc{Addr: common.Address{}, Balance: lkc(100000), Nonce: uint64(zt.Int(3))})
		for _, t := range w.tokens {
			toks = append(toks, tokenAlloc{common.Address{}, t, big.NewInt(1000000)})
		}
		c.Probe("zero-address-funded")
	}
	w.spec = spec

	// round 1 is generated before genesis so that one tampered transaction's
	// recovered account can be funded ("a different sender is then charged")
	first := r.genRound(1)
	if r.wl.Bool(3, 4) {
		r.planGhost(first, &toks)
	}
	if r.stop {
		return
	}
	if err := w.build(toks); err != nil {
		r.trouble("build: %v", err)
		return
	}
	defer func() {
		for _, ch := range []*simnode.Chain{w.P, w.R} {
			ch.Mempool.Stop()
			synctest.Wait()
			ch.Mempool.Stop()
			synctest.Wait()
			releaseCache(ch.Mempool)
		}
	}()

	r.installPark()

	r.objectChecks(first)

	for round := 1; round <= cfg.Rounds && !r.stop; round++ {
		var honest []*sent
		if round == 1 {
			honest = first
		} else {
			honest = r.genRound(round)
		}
		forged := r.forged
		r.forged = nil
		r.round(round, honest, forged)
		// virtual time: mostly short gaps, sometimes past the cache's delayed expiry
		gap := time.Duration(1+r.wl.Int(5)) * time.Second
		if r.wl.Bool(1, 4) {
			gap = 35 * time.Second
			c.Probe("cache-expiry-gap")
		}
		time.Sleep(gap)
		synctest.Wait()
		c.SimTime(gap)
		w.now += uint64(gap / time.Second)
	}
	if r.committed >= 2 && r.memJudged >= 10 && r.blkJudged >= 3 && r.warmJudged >= 1 && r.flightParked >= 1 {
		c.NonTrivial()
	}
	if len(r.smp.Variants) > 12 {
		r.smp.Variants = r.smp.Variants[:12]
	}
	c.Sample(r.smp)
}

// ---------------------------------------------------------------- workload

func (r *runner) genRound(round int) []*sent {
	w, t := r.w, r.wl
	var out []*sent
	add := func(s *sent, err error) bool {
		if err != nil {
			r.trouble("generate: %v", err)
			return false
		}
		out = append(out, s)
		return w.judge(s.w).ok
	}
	// the validators appoint upgrade signers early in the run
	if (round == 1 && t.Bool(3, 4)) || (round > 1 && t.Bool(1, 5)) {
		typ := int(types.TxContractCreateType)
		if t.Bool(1, 5) {
			typ = int(types.TxUpdateValidatorsType)
		}
		n := 1 + t.Int(3)
		var ents []types.SignerEntry
		for i := 0; i < n; i++ {
			ents = append(ents, types.SignerEntry{Power: int32(5 + t.Int(10)), Addr: r.funded[(i+t.Int(2))%len(r.funded)].addr})
		}
		min := int32(5 + t.Int(12))
		signersOf := w.vals
		if t.Bool(1, 4) { // a subset: the oracle decides whether it is still a quorum
			signersOf = nil
			for _, v := range w.vals {
				if t.Bool(2, 3) {
					signersOf = append(signersOf, v)
				}
			}
		}
		if add(w.genMultiSign(t, r.mstNonce, typ, min, ents, signersOf)) {
			r.mstNonce++
		}
	}
	if r.utxo {
		// confidential side: a funding transaction in most rounds, spends once outputs exist
		if round <= 2 || t.Bool(1, 2) {
			u := r.funded[t.Int(len(r.funded))]
			s, err := w.genFund(t, u, r.nonce[u.a20])
			if add(s, err) {
				r.nonce[u.a20]++
			}
			if r.stop {
				return out
			}
		}
		for k := 0; k < 2 && round > 1; k++ {
			s, foreign, err := w.genSpend(t)
			if err != nil {
				r.trouble("generate spend: %v", err)
				return out
			}
			if s == nil {
				break
			}
			out = append(out, s)
			if foreign != nil {
				raw := encodeTx(foreign)
				if wt, err := parseUtxWire(raw); err == nil {
					r.forged = append(r.forged, &tampered{src: s, wt: wt, raw: raw, name: "spend-built-with-another-wallets-keys", comp: "foreign-keys", field: true, v: w.judge(wt)})
				}
			} else {
				r.c.Probe("foreign-key-spend-unbuildable")
			}
		}
	}
	for i := 0; i < r.cfg.PerRound; i++ {
		u := r.funded[t.Int(len(r.funded))]
		n := r.nonce[u.a20]
		indep := t.Bool(1, 4)
		var s *sent
		var err error
		switch t.Pick(5, 2, 5, 3) {
		case 0:
			s, err = w.genTransfer(t, u, n, indep)
		case 1:
			s, err = w.genCreate(t, u, n)
		case 2:
			s, err = w.genToken(t, u, n, indep)
		case 3:
			m := w.signers[int(types.TxContractCreateType)]
			if m == nil {
				s, err = w.genTransfer(t, u, n, indep)
				break
			}
			// co-signers: every listed signer the rig holds a key for
			var cos []*userKey
			for _, k := range w.users {
				if m.entries[k.a20] > 0 {
					cos = append(cos, k)
				}
			}
			s, err = w.genUpgrade(t, u, n, cos)
		}
		if add(s, err) {
			r.nonce[u.a20] = n + 1
		}
		if r.stop {
			return out
		}
	}
	return out
}

// planGhost picks one round-1 transfer/token transaction whose holder sends
// nothing else in the round, tampers one signed field, and funds the account
// the tampered bytes recover to (with the nonce they carry).
func (r *runner) planGhost(first []*sent, toks *[]tokenAlloc) {
	w := r.w
	count := map[*userKey]int{}
	for _, s := range first {
		if s.holder != nil {
			count[s.holder]++
		}
	}
	var cands []*sent
	for _, s := range first {
		if (s.kind == kTx || s.kind == kTxt) && count[s.holder] == 1 {
			cands = append(cands, s)
		}
	}
	if len(cands) == 0 {
		return
	}
	src := cands[r.tm.Int(len(cands))]
	names := []string{"to-other", "value-up", "payload-edit", "nonce-other"}
	if src.kind == kTxt {
		names = append(names, "token-other")
	}
	want := names[r.tm.Int(len(names))]
	x := &tamperCtx{w: w, t: r.tm, orig: src}
	for i := range catalogue {
		e := &catalogue[i]
		if e.name != want || e.kinds&(1<<uint(src.kind)) == 0 {
			continue
		}
		wt := src.w.clone()
		if !e.apply(x, wt) || !wt.wellFormed() {
			return
		}
		v := w.judge(wt)
		if !v.ok {
			return
		}
		if _, isUser := w.byAddr[v.chargee]; isUser {
			return
		}
		n := wt.body.kids[fieldIdx(wt.kind, "nonce")].num().Uint64()
		w.spec.Alloc = append(w.spec.Alloc, simnode.Alloc{Addr: common.Address(v.chargee), Balance: lkc(100), Nonce: n})
		for _, t := range w.tokens {
			*toks = append(*toks, tokenAlloc{common.Address(v.chargee), t, big.NewInt(5000)})
		}
		r.ghost = &tampered{src: src, wt: wt, raw: wt.bytes(), name: e.name, v: v, ghost: true, comp: e.name, field: true}
		r.ghostSrc = src
		return
	}
}
