package signrig

import (
	"crypto/ecdsa"
	"math/big"
	"testing"

	"github.com/btcsuite/btcd/btcec"
	"github.com/lianxiangcloud/linkchain/libs/common"
	"github.com/lianxiangcloud/linkchain/libs/crypto"
	"github.com/lianxiangcloud/linkchain/libs/ser"
	"github.com/lianxiangcloud/linkchain/types"
)

// Direct reproductions against the real code of the two C08 findings.
// Run: cd /verif/sim && go1.26.8 test -tags verif -overlay /verif/build/overlay.json -run TestDefect -v ./rigs/signrig/

func testKey(tag string) *ecdsa.PrivateKey {
	d := new(big.Int).SetBytes(crypto.Keccak256([]byte(tag)))
	k := new(ecdsa.PrivateKey)
	k.PublicKey.Curve = crypto.S256()
	k.D = d
	k.PublicKey.X, k.PublicKey.Y = crypto.S256().ScalarBaseMult(d.Bytes())
	return k
}

// Finding "sender-cache/object-keeps-old-sender".
// Input: a signed Transaction on which From() has been called, then re-signed
// by another key. Expected: From() is the new signer. Actual: the old one.
func TestDefectResignKeepsOldSender(t *testing.T) {
	a, b := testKey("holder-a"), testKey("holder-b")
	addrA, addrB := crypto.PubkeyToAddress(a.PublicKey), crypto.PubkeyToAddress(b.PublicKey)
	tx := types.NewTransaction(0, common.HexToAddress("0x1234"), big.NewInt(1), 0, nil, nil)
	if err := tx.Sign(types.GlobalSTDSigner, a); err != nil {
		t.Fatal(err)
	}
	if f, _ := tx.From(); f != addrA { // memoises A inside tx.data
		t.Fatalf("setup: %x", f)
	}
	sigB, _ := crypto.Sign(tx.SignHash().Bytes(), b)
	tx2, _ := tx.WithSignature(types.GlobalSTDSigner, sigB)
	f2, _ := tx2.From()
	var fresh types.Transaction
	raw, _ := ser.EncodeToBytes(tx2)
	ser.DecodeBytes(raw, &fresh)
	f3, _ := fresh.From()
	t.Logf("WithSignature(sig of B): From()=%x; the same bytes decoded afresh: From()=%x (B=%x, A=%x)", f2, f3, addrB, addrA)
	if f2 != addrB {
		t.Errorf("DEFECT: WithSignature keeps the memoised sender %x, signature is by %x", f2, addrB)
	}
	tx.Sign(types.GlobalSTDSigner, b)
	if f, _ := tx.From(); f != addrB {
		t.Errorf("DEFECT: Transaction.Sign keeps the memoised sender %x, signature is by %x", f, addrB)
	}
	tt := types.NewTokenTransaction(common.EmptyAddress, 0, common.HexToAddress("0x1234"), big.NewInt(1), 0, nil, nil)
	tt.Sign(types.GlobalSTDSigner, a)
	tt.From()
	tt.Sign(types.GlobalSTDSigner, b)
	if f, _ := tt.From(); f != addrB {
		t.Errorf("DEFECT: TokenTransaction.Sign keeps the memoised sender %x, signature is by %x", f, addrB)
	}
}

// Finding "unbound-chain/legacy-v-no-chain-parameter".
// Input: the holder signs keccak(rlp([nonce, price, gas, to, value, data]))
// — no chain parameter — and sends V = 27/28. Expected: refused (or another
// sender). Actual: From() is the holder under the main-net and the test-net
// signer alike, i.e. the same bytes are a valid transaction on both networks.
func TestDefectLegacyVAccepted(t *testing.T) {
	k := testKey("holder-a")
	addr := crypto.PubkeyToAddress(k.PublicKey)
	to := common.HexToAddress("0x1234")
	fields := []*item{bu64(0), bnum(big.NewInt(types.ParGasPrice)), bu64(500000), bstr(to[:]), bnum(big.NewInt(1)), bstr(nil)}
	h := signingHash(fields, nil)
	priv, _ := btcec.PrivKeyFromBytes(btcec.S256(), k.D.Bytes())
	c, _ := btcec.SignCompact(btcec.S256(), priv, h, false)
	body := blist(append(fields, bnum(big.NewInt(int64(c[0]))), bstr(c[1:33]), bstr(c[33:65]))...)
	for _, p := range []int64{types.PubNetSignParam, types.TestNetSignParam} {
		var tx types.Transaction
		if err := ser.DecodeBytes(body.enc(), &tx); err != nil {
			t.Fatal(err)
		}
		f, err := tx.Sender(types.NewSTDEIP155Signer(big.NewInt(p)))
		t.Logf("chain parameter %d: V=%d Sender()=%x err=%v (holder %x)", p, c[0], f, err, addr)
		if err == nil && f == addr {
			t.Errorf("DEFECT: a signature that names no chain is accepted on chain %d and attributed to the holder", p)
		}
	}
}
