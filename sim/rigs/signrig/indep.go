package signrig

import (
	"crypto/ed25519"
	"math/big"

	"github.com/btcsuite/btcd/btcec"
	"golang.org/x/crypto/sha3"
)

// Everything in this file is the oracle's own derivation from the statement of
// the signature scheme (learnt by reading types/sign.go, then written down
// independently):
//
//   account signature  = secp256k1 ECDSA, recoverable, over
//       keccak256( rlp( [ signed fields ... , chainParameter, "", "" ] ) )
//   wire V             = 35 + 2*chainParameter + recoveryId,  recoveryId in {0,1}
//   sender             = last 20 bytes of keccak256( X || Y ) of the recovered key
//   value ranges       = 1 <= r < N, 1 <= s <= N/2 (no malleable twin)
//
// No function of linkchain's libs/crypto, types or ser is used here.

type addr20 [20]byte

func (a addr20) isZero() bool { return a == addr20{} }

func keccak(b ...[]byte) []byte {
	h := sha3.NewLegacyKeccak256()
	for _, x := range b {
		h.Write(x)
	}
	return h.Sum(nil)
}

var (
	curveN     = btcec.S256().Params().N
	curveHalfN = new(big.Int).Rsh(btcec.S256().Params().N, 1)
)

type txKind int

const (
	kTx     txKind = iota // types.Transaction (plain transfer / contract call)
	kCreate               // types.Transaction with an empty recipient
	kTxt                  // types.TokenTransaction
	kCut                  // types.ContractUpgradeTx
	kMst                  // types.MultiSignAccountTx
	kUtx                  // types.UTXOTransaction (account->UTXO funding, UTXO->UTXO spend)
	nKinds
)

func (k txKind) String() string {
	return [...]string{"tx", "create", "txt", "cut", "mst", "utx"}[k]
}

// wireNames are the registered type names; the 7 prefix bytes on the wire are
// derived from them by the codec. The rig learns the prefixes from encodings
// of real objects (see learnPrefixes), not from the codec's tables.
var wireName = [...]string{"tx", "tx", "txt", "cut", "mst", "utx"}

type sigStatus int

const (
	sigOK         sigStatus = iota
	sigWrongChain           // V does not encode this chain's parameter (includes legacy 27/28)
	sigOutOfRange           // r or s outside [1, N-1], or V too large to be a recovery id
	sigMalleable            // s > N/2
	sigNoKey                // no public key recovers
)

func (s sigStatus) String() string {
	return [...]string{"ok", "wrong-chain", "out-of-range", "malleable", "no-key"}[s]
}

// sigTriple is (V, R, S) as unsigned integers read from wire items.
type sigTriple struct{ v, r, s *big.Int }

func tripleOf(l *item) (sigTriple, bool) {
	if l == nil || !l.list || len(l.kids) != 3 {
		return sigTriple{}, false
	}
	for _, k := range l.kids {
		if k.list {
			return sigTriple{}, false
		}
	}
	return sigTriple{l.kids[0].num(), l.kids[1].num(), l.kids[2].num()}, true
}

// signingHash is keccak256(rlp([fields..., chainParam, "", ""])). With
// chainParam == nil it is the legacy hash over the bare field list.
func signingHash(fields []*item, chainParam *big.Int) []byte {
	l := &item{list: true}
	for _, f := range fields {
		l.kids = append(l.kids, f)
	}
	if chainParam != nil {
		l.kids = append(l.kids, bnum(chainParam), bstr(nil), bstr(nil))
	}
	return keccak(l.enc())
}

// recoverWith recovers the address for (r, s, recid) over hash using the
// pure-Go btcec implementation.
func recoverWith(hash []byte, r, s *big.Int, recid int) (addr20, bool) {
	if r.Sign() <= 0 || s.Sign() <= 0 || r.Cmp(curveN) >= 0 || s.Cmp(curveN) >= 0 || recid < 0 || recid > 1 {
		return addr20{}, false
	}
	var sig [65]byte
	sig[0] = byte(27 + recid)
	rb, sb := r.Bytes(), s.Bytes()
	copy(sig[1+32-len(rb):33], rb)
	copy(sig[33+32-len(sb):65], sb)
	pub, _, err := btcec.RecoverCompact(btcec.S256(), sig[:], hash)
	if err != nil || pub == nil || pub.X == nil || pub.Y == nil {
		return addr20{}, false
	}
	if pub.X.Sign() == 0 && pub.Y.Sign() == 0 {
		return addr20{}, false
	}
	un := pub.SerializeUncompressed() // 0x04 || X || Y
	var a addr20
	copy(a[:], keccak(un[1:])[12:])
	return a, true
}

// sigRead is the oracle's reading of one account signature over fields for the
// chain with parameter p.
//
//	st == sigOK:         signer is the only account the chain may charge.
//	st == sigWrongChain: V names another chain or no chain at all (legacy
//	                     27/28); alt is the account that signed the same fields
//	                     for that chain — the one account this chain must NOT
//	                     charge; altOK tells whether it exists.
//	st == sigMalleable:  s is in the upper half of the group order: the
//	                     encoding has a twin (r, N-s, other recovery id) that
//	                     is the same authorisation. The statement demands that
//	                     such values are refused whatever V says; twin is the
//	                     account that authorisation belongs to (in V's class).
//	st == sigOutOfRange: r or s outside [1, N-1], whatever V says.
type sigRead struct {
	st     sigStatus
	signer addr20
	alt    addr20
	altOK  bool
	legacy bool // V is 27 or 28: no chain parameter was signed
	other  bool // V is neither this chain's nor the legacy form
	twin   addr20
	twinOK bool
}

// reason is the stable name of a refusal (used in violation keys).
func (s sigRead) reason() string {
	if s.st == sigMalleable {
		switch {
		case s.legacy:
			return "malleable-legacy-v"
		case s.other:
			return "malleable-other-chain-v"
		}
	}
	return s.st.String()
}

func readSig(fields []*item, sg sigTriple, p *big.Int) (out sigRead) {
	base := new(big.Int).Add(big.NewInt(35), new(big.Int).Lsh(p, 1))
	rec := new(big.Int).Sub(sg.v, base)
	own := rec.Sign() == 0 || rec.Cmp(big.NewInt(1)) == 0
	out.legacy = !own && (sg.v.Cmp(big.NewInt(27)) == 0 || sg.v.Cmp(big.NewInt(28)) == 0)
	out.other = !own && !out.legacy

	// value ranges come first: they do not depend on what V says
	if sg.r.Sign() <= 0 || sg.s.Sign() <= 0 || sg.r.Cmp(curveN) >= 0 || sg.s.Cmp(curveN) >= 0 {
		if own || out.legacy {
			out.st = sigOutOfRange
			return
		}
		out.st = sigWrongChain // nothing recovers for whatever chain V may name
		return
	}
	highS := sg.s.Cmp(curveHalfN) > 0

	// which hash and recovery id does V name?
	var h []byte
	recid := -1
	switch {
	case own:
		h, recid = signingHash(fields, p), int(rec.Int64())
	case out.legacy:
		h, recid = signingHash(fields, nil), int(sg.v.Int64()-27)
	case sg.v.Cmp(big.NewInt(35)) >= 0 && sg.v.BitLen() <= 200:
		q := new(big.Int).Sub(sg.v, big.NewInt(35))
		recid = int(new(big.Int).And(q, big.NewInt(1)).Int64())
		q.Rsh(q, 1)
		h = signingHash(fields, q)
	}
	var a addr20
	ok := false
	if h != nil {
		a, ok = recoverWith(h, sg.r, sg.s, recid)
	}
	switch {
	case highS && (own || out.legacy || h != nil):
		out.st, out.twin, out.twinOK = sigMalleable, a, ok
	case !own:
		out.st, out.alt, out.altOK = sigWrongChain, a, ok
	case !ok:
		out.st = sigNoKey
	default:
		out.st, out.signer = sigOK, a
	}
	return
}

// indepSender is readSig in the form the single-signature kinds use.
func indepSender(fields []*item, sg sigTriple, p *big.Int) (signer addr20, st sigStatus, alt addr20, altOK bool) {
	r := readSig(fields, sg, p)
	if r.st == sigMalleable {
		return r.twin, r.st, addr20{}, false
	}
	return r.signer, r.st, r.alt, r.altOK
}

// indepSign signs per the statement with btcec (RFC 6979, low s) and returns
// the wire triple for chain parameter p.
func indepSign(fields []*item, p *big.Int, secret []byte) sigTriple {
	priv, _ := btcec.PrivKeyFromBytes(btcec.S256(), secret)
	h := signingHash(fields, p)
	c, err := btcec.SignCompact(btcec.S256(), priv, h, false)
	if err != nil {
		panic(err)
	}
	recid := int(c[0]-27) & 1
	var v *big.Int
	if p == nil {
		v = big.NewInt(int64(27 + recid)) // legacy numbering, no chain parameter signed
	} else {
		v = new(big.Int).Add(big.NewInt(35), new(big.Int).Lsh(p, 1))
		v.Add(v, big.NewInt(int64(recid)))
	}
	return sigTriple{v, new(big.Int).SetBytes(c[1:33]), new(big.Int).SetBytes(c[33:65])}
}

func addrOfSecret(secret []byte) addr20 {
	_, pub := btcec.PrivKeyFromBytes(btcec.S256(), secret)
	var a addr20
	copy(a[:], keccak(pub.SerializeUncompressed()[1:])[12:])
	return a
}

// edVerify checks an ed25519 signature with the standard library.
func edVerify(pub, msg, sig []byte) bool {
	if len(pub) != ed25519.PublicKeySize || len(sig) != ed25519.SignatureSize {
		return false
	}
	return ed25519.Verify(ed25519.PublicKey(pub), msg, sig)
}

// ---------------------------------------------------------------- wire views

// wireTx is the oracle's reading of one transaction's wire bytes.
type wireTx struct {
	kind   txKind
	prefix []byte // 7 type bytes
	body   *item  // the rlp list after the prefix
}

// signedFields returns the field items the account signature covers, per kind.
func (w *wireTx) signedFields() []*item {
	switch w.kind {
	case kTx, kCreate:
		return w.body.kids[:6]
	case kTxt:
		return w.body.kids[:7]
	case kCut:
		return []*item{w.body.kids[0]}
	case kUtx:
		return w.body.kids[:7] // inputs, outputs, token, tx key, additional keys, fee, extra
	}
	return nil
}

// sigItems returns the (V,R,S) list items of the transaction.
func (w *wireTx) sigItems() []*item {
	switch w.kind {
	case kTx, kCreate:
		return []*item{{list: true, kids: w.body.kids[6:9]}}
	case kTxt:
		return []*item{w.body.kids[7]}
	case kCut:
		return w.body.kids[1].kids
	case kUtx:
		return []*item{w.body.kids[7]}
	}
	return nil
}

// wellFormed checks the list shape the kind's wire format has (so that the
// accessors above cannot index out of range).
func (w *wireTx) wellFormed() bool {
	b := w.body
	if b == nil || !b.list {
		return false
	}
	flat := func(ks []*item) bool {
		for _, k := range ks {
			if k.list {
				return false
			}
		}
		return true
	}
	switch w.kind {
	case kTx, kCreate:
		return len(b.kids) == 9 && flat(b.kids)
	case kTxt:
		if len(b.kids) != 8 || !flat(b.kids[:7]) {
			return false
		}
		_, ok := tripleOf(b.kids[7])
		return ok
	case kCut:
		if len(b.kids) != 2 || !b.kids[0].list || len(b.kids[0].kids) != 4 || !flat(b.kids[0].kids) || !b.kids[1].list {
			return false
		}
		for _, s := range b.kids[1].kids {
			if _, ok := tripleOf(s); !ok {
				return false
			}
		}
		return true
	case kUtx:
		if len(b.kids) != 9 {
			return false
		}
		_, ok := tripleOf(b.kids[7])
		return ok
	case kMst:
		if len(b.kids) != 2 || !b.kids[0].list || !b.kids[1].list {
			return false
		}
		for _, s := range b.kids[1].kids {
			if !s.list || len(s.kids) != 2 || s.kids[0].list || s.kids[1].list {
				return false
			}
		}
		return true
	}
	return false
}

func (w *wireTx) bytes() []byte { return append(append([]byte{}, w.prefix...), w.body.enc()...) }

func (w *wireTx) clone() *wireTx {
	return &wireTx{kind: w.kind, prefix: append([]byte{}, w.prefix...), body: w.body.clone()}
}
