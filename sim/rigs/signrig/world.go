package signrig

import (
	"crypto/ecdsa"
	"crypto/ed25519"
	"fmt"
	"io"
	"math/big"
	"os"
	"path/filepath"
	"sort"

	bc "github.com/lianxiangcloud/linkchain/blockchain"
	cfg "github.com/lianxiangcloud/linkchain/config"
	cs "github.com/lianxiangcloud/linkchain/consensus"
	"github.com/lianxiangcloud/linkchain/libs/common"
	"github.com/lianxiangcloud/linkchain/libs/crypto"
	"github.com/lianxiangcloud/linkchain/libs/ser"
	"github.com/lianxiangcloud/linkchain/state"
	"github.com/lianxiangcloud/linkchain/types"

	"verif/sim/kernel"
	"verif/sim/simdb"
	"verif/sim/simnode"
)

// userKey is one secp256k1 identity of the workload.
type userKey struct {
	idx    int
	secret []byte            // 32 bytes, the oracle's form of the key
	priv   *ecdsa.PrivateKey // the same key for linkchain's Sign
	addr   common.Address
	a20    addr20 // derived independently with btcec
}

func newUserKey(idx int, raw []byte) *userKey {
	n1 := new(big.Int).Sub(curveN, big.NewInt(1))
	d := new(big.Int).SetBytes(raw)
	d.Mod(d, n1)
	d.Add(d, big.NewInt(1))
	secret := make([]byte, 32)
	db := d.Bytes()
	copy(secret[32-len(db):], db)
	priv := new(ecdsa.PrivateKey)
	priv.PublicKey.Curve = crypto.S256()
	priv.D = d
	priv.PublicKey.X, priv.PublicKey.Y = crypto.S256().ScalarBaseMult(secret)
	u := &userKey{idx: idx, secret: secret, priv: priv, a20: addrOfSecret(secret)}
	u.addr = common.Address(u.a20)
	return u
}

type valInfo struct {
	key   simnode.ValKey
	pub   []byte // raw ed25519 public key (standard library derivation)
	addr  string // validator address bytes as string
	power int64
}

type tokenAlloc struct {
	addr   common.Address
	token  common.Address
	amount *big.Int
}

// installGenesis is simnode.GenesisSpec.Install plus token balances (the
// shared installer has no token allocations; everything else is identical:
// genesis block/state/status as `lkchain init` writes them, white list =
// genesis validators).
func installGenesis(g *simnode.GenesisSpec, disk *simdb.Disk, toks []tokenAlloc) error {
	doc := g.GenesisDoc()
	stateDB := disk.DB(simnode.DBState)
	st, err := state.New(common.EmptyHash, state.NewKeyValueDBWithCache(stateDB, 0, g.IsTrie, 0))
	if err != nil {
		return err
	}
	blockStore := bc.NewBlockStore(disk.DB(simnode.DBBlockStore))
	blockStore.SaveInitHeight(types.BlockHeightZero)

	allocs := append([]simnode.Alloc(nil), g.Alloc...)
	sort.Slice(allocs, func(i, j int) bool { return allocs[i].Addr.String() < allocs[j].Addr.String() })
	for _, a := range allocs {
		st.AddBalance(a.Addr, a.Balance)
		st.SetNonce(a.Addr, a.Nonce)
	}
	for _, t := range toks {
		st.AddTokenBalance(t.addr, t.token, t.amount)
	}
	simnode.WriteWhiteList(st, g.Vals)

	t := g.Time
	if t == 0 {
		t = 946684800
	}
	header := &types.Header{
		ChainID:    g.ChainID,
		Height:     types.BlockHeightZero,
		Coinbase:   common.EmptyAddress,
		Time:       t,
		ParentHash: common.EmptyHash,
		StateHash:  common.EmptyHash,
		GasLimit:   doc.ConsensusParams.BlockSize.MaxGas,
	}
	stateHash := st.IntermediateRoot(false)
	trieRoot, err := st.Commit(false, header.Height)
	if err != nil {
		return err
	}
	st.Database().TrieDB().Commit(trieRoot, false)
	txsResult := types.TxsResult{TrieRoot: trieRoot, StateHash: stateHash}
	header.StateHash = stateHash
	block := &types.Block{Header: header, Data: &types.Data{}, LastCommit: &types.Commit{}}
	blockStore.SaveBlock(block, block.MakePartSet(doc.ConsensusParams.BlockGossip.BlockPartSizeBytes), nil, nil, &txsResult)

	brs := bc.NewBalanceRecordStore(disk.DB(simnode.DBBalanceRecord), false)
	types.BlockBalanceRecordsInstance.SetBlockTime(block.Time())
	types.BlockBalanceRecordsInstance.SetBlockHash(block.Hash())
	brs.Save(block.Height, types.BlockBalanceRecordsInstance)
	types.BlockBalanceRecordsInstance.Reset()

	if _, err := cs.CreateStatusFromGenesisDoc(disk.DB(simnode.DBStatus), doc); err != nil {
		return fmt.Errorf("status: %v", err)
	}
	return nil
}

// world is one run's chain: a block producer P (no tx cache) and the honest
// replica under test R (mempool with the tx cache on).
type world struct {
	c       *kernel.Ctx
	p       *big.Int // this chain's signature parameter
	spec    *simnode.GenesisSpec
	vals    []*valInfo
	valByAd map[string]*valInfo
	totalVP int64
	users   []*userKey
	byAddr  map[addr20]*userKey
	tokens  []common.Address
	P, R    *simnode.Chain
	scratch string
	now     uint64 // block time
	maxGas  uint64
	part    int

	// oracle's model of the multi-signer records (set only by committed MSTs
	// that the oracle itself found authorised)
	signers map[int]*signersModel
	// created contracts (address -> true) usable as call targets
	contracts []common.Address

	// confidential side
	wallets   []*wallet
	strangers []*wallet // key sets nothing is ever addressed to
	outs      []*ownedOut
	utxoNext  uint64          // next global output index (LKC)
	honestUtx map[string]bool // wire bytes of ring-signed transactions built by an owner
}

type signersModel struct {
	min     int64
	entries map[addr20]int64
}

func (w *world) open(disk *simdb.Disk, cache bool) (*simnode.Chain, error) {
	mc := cfg.DefaultMempoolConfig()
	mc.Broadcast = false
	if !cache {
		mc.CacheSize = 0
	}
	ch, err := simnode.OpenChain(disk, simnode.ChainOpts{IsTrie: w.spec.IsTrie, MempoolCfg: mc})
	if err != nil {
		return nil, err
	}
	// what consensus.updateToStatus does for the application
	ch.App.SetLastChangedVals(ch.Status.LastHeightValidatorsChanged, ch.Status.Validators.Copy().Validators)
	return ch, nil
}

func (w *world) build(toks []tokenAlloc) error {
	base := os.Getenv("VERIF_SCRATCH")
	if base == "" {
		base = os.TempDir()
	}
	w.scratch = filepath.Join(base, fmt.Sprintf("c08-%d", w.c.Tape.Seed()))
	os.RemoveAll(w.scratch)
	for _, n := range []string{"p", "r"} {
		if err := os.MkdirAll(filepath.Join(w.scratch, n), 0755); err != nil {
			return err
		}
	}
	dp := simdb.NewDisk(filepath.Join(w.scratch, "p"))
	dr := simdb.NewDisk(filepath.Join(w.scratch, "r"))
	if err := installGenesis(w.spec, dp, toks); err != nil {
		return err
	}
	if err := installGenesis(w.spec, dr, toks); err != nil {
		return err
	}
	var err error
	if w.P, err = w.open(dp, false); err != nil {
		return err
	}
	if w.R, err = w.open(dr, true); err != nil {
		return err
	}
	st := w.P.Status
	w.maxGas = uint64(st.ConsensusParams.BlockSize.MaxGas)
	w.part = st.ConsensusParams.BlockGossip.BlockPartSizeBytes
	return nil
}

func (w *world) cleanup() {
	if w.scratch != "" {
		os.RemoveAll(w.scratch)
	}
}

// ---------------------------------------------------------------- wire

func decodeTx(raw []byte) (tx types.Tx, err error) {
	_, _, panicked := kernel.Try(func() { err = ser.DecodeBytes(raw, &tx) })
	if panicked {
		return nil, fmt.Errorf("decoder panicked")
	}
	if err == nil && tx == nil {
		err = fmt.Errorf("nil tx")
	}
	return
}

func encodeTx(tx types.Tx) []byte {
	b, err := ser.EncodeToBytes(&tx)
	if err != nil {
		panic(err)
	}
	return b
}

// overWire sends a block through its wire form (part set -> bytes -> decode),
// the way a replica receives a proposal: every object is fresh, no cached
// hash, no cached sender.
func overWire(b *types.Block, partSize int) (*types.Block, *types.PartSet, error) {
	parts := b.MakePartSet(partSize)
	bz, err := io.ReadAll(parts.GetReader())
	if err != nil {
		return nil, nil, err
	}
	var nb *types.Block
	if err := ser.DecodeBytes(bz, &nb); err != nil {
		return nil, nil, err
	}
	return nb, parts, nil
}

// ---------------------------------------------------------------- producer

// assemble builds a block at P's next height over txs, the way
// LinkApplication.CreateBlock does, and lets P execute it (PreRunBlock) to
// fill in the result hashes. ok=false: P's own execution refused the list.
func (w *world) assemble(txs types.Txs) (blk *types.Block, ok bool, why string) {
	cur := w.P.App.Block()
	h := cur.Height + 1
	blk = &types.Block{
		Header: &types.Header{
			ChainID:    w.spec.ChainID,
			Height:     h,
			Time:       w.now,
			NumTxs:     uint64(len(txs)),
			TotalTxs:   cur.TotalTxs + uint64(len(txs)),
			ParentHash: cur.Hash(),
			GasLimit:   w.maxGas,
			Coinbase:   w.vals[0].key.CoinBase,
		},
		Data:       &types.Data{Txs: txs},
		LastCommit: &types.Commit{},
	}
	blk.DataHash = blk.Data.Hash()
	w.P.RegisterRate()
	_, msg, panicked := kernel.Try(func() { w.P.App.PreRunBlock(blk) })
	if panicked {
		return nil, false, msg
	}
	return blk, true, ""
}

// commitOn runs CheckBlock + CommitBlock of a wire copy of blk on ch.
func (w *world) checkOn(ch *simnode.Chain, blk *types.Block) (nb *types.Block, parts *types.PartSet, accepted bool, err error) {
	nb, parts, err = overWire(blk, w.part)
	if err != nil {
		return nil, nil, false, err
	}
	ch.RegisterRate()
	accepted = ch.App.CheckBlock(nb)
	return
}

// checkOnLooks is checkOn with a hook between decoding and verification.
func (w *world) checkOnLooks(ch *simnode.Chain, blk *types.Block, pre func(nb *types.Block)) (nb *types.Block, parts *types.PartSet, accepted bool, err error) {
	nb, parts, err = overWire(blk, w.part)
	if err != nil {
		return nil, nil, false, err
	}
	if pre != nil {
		pre(nb)
		if w.c.Failed() {
			return nb, parts, false, nil
		}
	}
	ch.RegisterRate()
	accepted = ch.App.CheckBlock(nb)
	return
}

func (w *world) commitOn(ch *simnode.Chain, nb *types.Block, parts *types.PartSet) error {
	ch.RegisterRate()
	_, err := ch.App.CommitBlock(nb, parts, &types.Commit{}, false)
	return err
}

// ---------------------------------------------------------------- state reads

type acct struct {
	nonce uint64
	bal   *big.Int
	tok   []*big.Int // per w.tokens
}

func (w *world) snapshot(ch *simnode.Chain, addrs []addr20) map[addr20]acct {
	st := ch.App.GetLatestStateDB()
	out := make(map[addr20]acct, len(addrs))
	for _, a := range addrs {
		ca := common.Address(a)
		x := acct{nonce: st.GetNonce(ca), bal: new(big.Int).Set(st.GetBalance(ca))}
		for _, t := range w.tokens {
			x.tok = append(x.tok, new(big.Int).Set(st.GetTokenBalance(ca, t)))
		}
		out[a] = x
	}
	return out
}

func sortedAddrs(m map[addr20]bool) []addr20 {
	out := make([]addr20, 0, len(m))
	for a := range m {
		out = append(out, a)
	}
	sort.Slice(out, func(i, j int) bool { return string(out[i][:]) < string(out[j][:]) })
	return out
}

func stdPub(priv crypto.PrivKeyEd25519) []byte {
	return []byte(ed25519.PrivateKey(priv[:]).Public().(ed25519.PublicKey))
}
