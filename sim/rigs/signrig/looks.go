package signrig

import (
	"fmt"

	"github.com/lianxiangcloud/linkchain/libs/common"
	"github.com/lianxiangcloud/linkchain/types"

	"verif/sim/kernel"
	"verif/sim/simnode"
)

// Object history. A node does not look at a transaction object exactly once:
// it formats it for a log line, asks for its hash and size, asks for its
// sender, checks it, and may check it again (a retried basic check, the same
// object handed to the pool twice, the pool's object met again in a block).
// The statement quantifies over all sender-cache states, so before every
// judged call on a tampered or forged object the rig performs a tape-chosen
// prefix of such observer calls ON THE SAME OBJECT, and one more look after
// the judged call. Every look is judged, not only the last:
//
//   - From() must never return a sender without error for a signature the
//     oracle says recovers nobody (out of range, malleable, no key), and for an
//     authorised signature it returns the oracle's signer;
//   - a signature that did not yield a sender at one look must not yield one
//     at a later look, and the sender must not change between looks;
//   - a basic check or a pool admission that passes at any look is an
//     acceptance and goes through judgeAccept like the judged call itself.

type lookState struct {
	failed bool // From() has failed on this object
	have   bool // From() has returned a sender on this object
	last   addr20
	n      int
	trail  []string
}

var lookNames = [...]string{"From", "String", "Hash", "Size", "From-twice", "AsMessage", "CheckBasic", "AddTx"}

const (
	lkFrom = iota
	lkString
	lkHash
	lkSize
	lkFromTwice
	lkAsMessage
	lkBasic
	lkAddTx
)

// fromLook asks the object for its sender and judges the answer.
func (r *runner) fromLook(stage string, kind txKind, name string, v verdict, obj types.Tx, tm *tampered, st *lookState) {
	var wt *wireTx
	if tm != nil {
		wt = tm.wt
	}
	if !senderKind(kind, wt) || r.stop {
		return
	}
	var from common.Address
	var err error
	if _, msg, p := kernel.Try(func() { from, err = obj.From() }); p {
		r.violate("panic", "panic/From/"+kind.String(), "%s: From() of a %s transaction (%s) panicked: %s", stage, kind, name, msg)
		return
	}
	st.n++
	r.c.Evals(1)
	where := fmt.Sprintf("%s, look %d on the same object (history: %v)", stage, st.n, st.trail)
	if err != nil {
		st.failed = true
		return
	}
	a := addr20(from)
	switch {
	case st.failed:
		r.violate("sender-cache", "sender-cache/failed-recovery-later-succeeds/"+kind.String(),
			"%s: From() of a %s transaction (%s; oracle: %s) now returns %x without error although an earlier From() on this object failed: one failed recovery must not authorise a later look", where, kind, name, verdictText(v), from[:])
		return
	case st.have && st.last != a:
		r.violate("sender-cache", "sender-cache/sender-changes-between-looks/"+kind.String(),
			"%s: From() of a %s transaction (%s) returns %x, an earlier look on this object returned %x", where, kind, name, from[:], st.last[:])
		return
	}
	st.have, st.last = true, a
	switch {
	case v.ok && v.nobody:
	case v.ok:
		if a != v.chargee {
			r.violate("sender-mismatch", "sender-mismatch/"+kind.String(), "%s: From() of a %s transaction (%s) returns %x, the signature recovers %x", where, kind, name, from[:], v.chargee[:])
		}
	case v.unbound:
		if v.altOK && a == v.alt {
			class, key := v.key(kind)
			r.violate(class, key, "%s: From() of a %s transaction (%s) returns %x, the key that signed these fields for %s — not for this chain (parameter %v)",
				where, kind, name, from[:], map[bool]string{true: "no chain at all (legacy V 27/28)", false: "another chain"}[v.legacy], r.w.p)
		}
		// otherwise a different sender: allowed by the statement
	default:
		class, key := v.key(kind)
		r.violate(class, key, "%s: From() of a %s transaction (%s) returns the sender %x without error although the signature recovers nobody: %s", where, kind, name, from[:], v.reason)
	}
}

func verdictText(v verdict) string {
	switch {
	case v.ok && v.nobody:
		return "authorised, ring-signed"
	case v.ok:
		return fmt.Sprintf("authorised by %x", v.chargee[:4])
	}
	return v.reason
}

// history performs 0-3 observer calls on obj. pool: the object may also be
// handed to ch's mempool as an observer call (admitted reports that the pool
// took it then).
func (r *runner) history(stage string, ch *simnode.Chain, obj types.Tx, kind txKind, name string, v verdict, tm *tampered, st *lookState, pool bool) (admitted bool) {
	t := r.lk
	n := t.Pick(5, 3, 2, 1)
	for i := 0; i < n && !r.stop; i++ {
		wAdd := 0
		if pool {
			wAdd = 2
		}
		k := t.Pick(4, 3, 1, 1, 2, 1, 2, wAdd)
		st.trail = append(st.trail, lookNames[k])
		r.c.Probe("look/" + lookNames[k])
		switch k {
		case lkFrom:
			r.fromLook(stage, kind, name, v, obj, tm, st)
		case lkFromTwice:
			r.fromLook(stage, kind, name, v, obj, tm, st)
			r.fromLook(stage, kind, name, v, obj, tm, st)
		case lkString:
			// what a log line does with the object (Transaction.String and
			// TokenTransaction.String ask for the sender)
			kernel.Try(func() {
				if s, ok := obj.(fmt.Stringer); ok {
					_ = s.String()
				}
			})
		case lkHash:
			kernel.Try(func() { _ = obj.Hash() })
		case lkSize:
			kernel.Try(func() {
				if s, ok := obj.(interface{ Size() common.StorageSize }); ok {
					_ = s.Size()
				}
			})
		case lkAsMessage:
			kernel.Try(func() {
				if m, ok := obj.(types.IMessage); ok {
					_, _ = m.AsMessage()
				}
			})
		case lkBasic:
			var err error
			ch.RegisterRate()
			if site, msg, p := kernel.Try(func() { err = ch.App.CheckTx(obj, true) }); p {
				r.violate("panic", "panic/"+site, "%s: basic check panicked: %s", stage, msg)
				return
			}
			r.c.Evals(1)
			if err == nil {
				r.judgeAccept(fmt.Sprintf("%s, basic check as look %d on the same object (history: %v)", stage, len(st.trail), st.trail), kind, name, v, obj, tm)
			}
		case lkAddTx:
			err, _ := r.addTx(ch, obj)
			r.c.Evals(1)
			if err == nil && !r.stop {
				admitted = true
				r.judgeAccept(fmt.Sprintf("%s, pool submission as look %d on the same object (history: %v)", stage, len(st.trail), st.trail), kind, name, v, obj, tm)
			}
		}
	}
	if n > 0 {
		r.c.Probe(fmt.Sprintf("looks-before-judged-call/%d", n))
	}
	return
}
