package signrig

import (
	"errors"
	"math/big"
	mrand "math/rand"
	"testing"

	"github.com/lianxiangcloud/linkchain/libs/common"
	"github.com/lianxiangcloud/linkchain/libs/crypto"
	"github.com/lianxiangcloud/linkchain/libs/cryptonote/ringct"
	lk "github.com/lianxiangcloud/linkchain/libs/cryptonote/types"
	"github.com/lianxiangcloud/linkchain/libs/cryptonote/xcrypto"
	"github.com/lianxiangcloud/linkchain/libs/ser"
	"github.com/lianxiangcloud/linkchain/types"
)

// ---- minimal TxCensor for a direct CheckBasic (as sim/xcryptotest/e2e_test.go)

type dStore struct{ outs []*types.UTXOOutputData }

func (s *dStore) GetUtxoOutput(token common.Address, seq uint64) (*types.UTXOOutputData, error) {
	if seq >= uint64(len(s.outs)) {
		return nil, errors.New("no such output")
	}
	return s.outs[seq], nil
}
func (s *dStore) GetUtxoOutputs(seqs []uint64, token common.Address) ([]*types.UTXOOutputData, error) {
	var res []*types.UTXOOutputData
	for _, q := range seqs {
		o, err := s.GetUtxoOutput(token, q)
		if err != nil {
			return nil, err
		}
		res = append(res, o)
	}
	return res, nil
}
func (s *dStore) HaveTxKeyimgAsSpent(k *lk.Key) bool { return false }

type dState struct{}

func (dState) Exist(common.Address) bool                                { return true }
func (dState) GetNonce(common.Address) uint64                           { return 0 }
func (dState) SetNonce(common.Address, uint64)                          {}
func (dState) GetBalance(common.Address) *big.Int                       { return new(big.Int) }
func (dState) SubBalance(common.Address, *big.Int)                      {}
func (dState) GetTokenBalance(common.Address, common.Address) *big.Int  { return new(big.Int) }
func (dState) SubTokenBalance(common.Address, common.Address, *big.Int) {}
func (dState) IsContract(common.Address) bool                           { return false }

type dChain struct{}

func (dChain) IsTxSpendTimeUnlocked(uint64) bool { return true }

type dCensor struct{ store *dStore }

func (c *dCensor) TxMgr() types.TxMgr                               { return nil }
func (c *dCensor) State() types.State                               { return dState{} }
func (c *dCensor) Block() *types.Block                              { return nil }
func (c *dCensor) GetLastChangedVals() (uint64, []*types.Validator) { return 0, nil }
func (c *dCensor) LockState()                                       {}
func (c *dCensor) UnlockState()                                     {}
func (c *dCensor) IsWasmContract([]byte) bool                       { return false }
func (c *dCensor) BlockChain() types.BlockChain                     { return dChain{} }
func (c *dCensor) UTXOStore() types.UTXOStore                       { return c.store }
func (c *dCensor) Mempool() types.Mempool                           { return nil }
func (c *dCensor) GetUTXOGas() uint64                               { return 500000 }

// Finding "utxo/account-input-rctsig-unsigned".
//
// An account->UTXO transaction (AccountInput, no ring signature) is authorised
// by the account signature alone, and that signature covers Inputs, Outputs,
// TokenID, RKey, AddKeys, Fee, Extra — NOT RCTSig (output commitments OutPk,
// encrypted amounts EcdhInfo, range proof). The confusion factor CF = sum of the
// output masks is public in the AccountInput. Hence:
//  1. anybody relaying the transaction can overwrite EcdhInfo: still valid, the
//     sender is charged, the recipient can no longer decode his output;
//  2. a recipient of one output (who knows his own mask, hence with two outputs
//     also the other mask = CF - own, and every amount) can move the value of
//     the other outputs onto his own: new commitments, new range proof, new
//     EcdhInfo for himself; the account signature stays valid.
func TestDefectAinRctSigUnsigned(t *testing.T) {
	xcrypto.SetRand(mrand.New(mrand.NewSource(5)))
	defer xcrypto.SetRand(nil)
	censor := &dCensor{store: &dStore{}}
	rate := big.NewInt(types.UTXO_COMMITMENT_CHANGE_RATE)
	units := func(n int64) *big.Int { return new(big.Int).Mul(big.NewInt(n), rate) }

	payer := testKey("payer")
	bob, alice := newWallet(0), newWallet(0)
	fee := new(big.Int).Mul(big.NewInt(types.ParGasPrice), big.NewInt(500000))
	total := new(big.Int).Add(units(1000), fee)
	dests := []types.DestEntry{
		&types.UTXODestEntry{Addr: bob.keys.Addr, Amount: units(100)},
		&types.UTXODestEntry{Addr: alice.keys.Addr, Amount: units(900)}, // the payer's own confidential wallet
	}
	tx, _, err := types.NewAinTransaction(&types.AccountSourceEntry{From: crypto.PubkeyToAddress(payer.PublicKey), Nonce: 0, Amount: total}, dests, common.EmptyAddress, nil)
	if err != nil {
		t.Fatal(err)
	}
	if err := tx.Sign(types.GlobalSTDSigner, payer); err != nil {
		t.Fatal(err)
	}
	raw, _ := ser.EncodeToBytes(tx)
	fresh := func(b []byte) *types.UTXOTransaction {
		var x types.UTXOTransaction
		if err := ser.DecodeBytes(b, &x); err != nil {
			t.Fatal(err)
		}
		return &x
	}
	orig := fresh(raw)
	if err := orig.CheckBasic(censor); err != nil {
		t.Fatalf("original refused: %v", err)
	}
	from0, _ := orig.From()
	if got := bob.scan(orig); len(got) != 1 || got[0].amount.Cmp(units(100)) != 0 {
		t.Fatalf("setup: bob %+v", got)
	}
	if got := alice.scan(orig); len(got) != 1 || got[0].amount.Cmp(units(900)) != 0 {
		t.Fatalf("setup: alice %+v", got)
	}

	// 1. relay overwrites the encrypted amount of output 1
	x := fresh(raw)
	x.RCTSig.EcdhInfo[1].Amount[0] ^= 0x55
	raw1, _ := ser.EncodeToBytes(x)
	t1 := fresh(raw1)
	err1 := t1.CheckBasic(censor)
	from1, _ := t1.From()
	t.Logf("ecdh overwritten: CheckBasic=%v sender=%x (original %x) hash changed=%v; alice now decodes %d outputs", err1, from1, from0, t1.Hash() != orig.Hash(), len(alice.scan(t1)))
	if err1 == nil && from1 == from0 {
		t.Errorf("DEFECT: account->UTXO transaction with altered EcdhInfo is still authorised by the untouched account signature")
	}

	// 2. bob moves alice's 900 onto his own output
	d, _ := xcrypto.GenerateKeyDerivation(orig.RKey, bob.keys.ViewSKey)
	sc, _ := xcrypto.DerivationToScalar(d, 0)
	tup := orig.RCTSig.EcdhInfo[0]
	xcrypto.EcdhDecode(&tup, lk.Key(sc), false) // bob's own mask and amount
	ain := orig.Inputs[0].(*types.AccountInput)
	mask0 := tup.Mask
	mask1 := ringct.ScSub(lk.EcScalar(ain.CF), lk.EcScalar(mask0)) // CF is public
	allUnits := new(big.Int).Div(new(big.Int).Sub(ain.Amount, orig.Fee), rate)
	a0, _ := types.BigInt2Hash(allUnits)
	a1 := lk.Key{}
	y := fresh(raw)
	c0, _ := ringct.AddKeys2(mask0, a0, ringct.H)
	c1, _ := ringct.AddKeys2(mask1, a1, ringct.H)
	y.RCTSig.OutPk[0].Mask, y.RCTSig.OutPk[1].Mask = c0, c1
	y.RCTSig.EcdhInfo[0] = lk.EcdhTuple{Mask: mask0, Amount: a0}
	ringct.EcdhEncode(&y.RCTSig.EcdhInfo[0], lk.Key(sc), false)
	proof := forgeStandInRange([]lk.Key{a0, a1}, []lk.Key{mask0, mask1}, []lk.Key{c0, c1})
	y.RCTSig.P.Bulletproofs = []lk.Bulletproof{*proof}
	raw2, _ := ser.EncodeToBytes(y)
	t2 := fresh(raw2)
	err2 := t2.CheckBasic(censor)
	from2, _ := t2.From()
	bg := bob.scan(t2)
	t.Logf("redistributed by bob: CheckBasic=%v sender=%x; bob decodes %v (was 100 units), alice decodes %d outputs", err2, from2, func() interface{} {
		if len(bg) == 1 {
			return new(big.Int).Div(bg[0].amount, rate)
		}
		return len(bg)
	}(), len(alice.scan(t2)))
	if err2 == nil && from2 == from0 && len(bg) == 1 && bg[0].amount.Cmp(units(1000)) == 0 {
		t.Errorf("DEFECT: a recipient rewrote the amounts of an account->UTXO transaction (100 -> 1000 units to himself, the payer's change output emptied); the payer's signature still authorises it")
	}
}
