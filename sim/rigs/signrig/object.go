package signrig

import (
	"math/big"

	"github.com/lianxiangcloud/linkchain/types"
)

// objectChecks: the sender memoised on a transaction object must not outlive
// a changed signature (observe_at: "address returned by From()/Sender()
// before and after each mutation").
func (r *runner) objectChecks(sents []*sent) {
	w := r.w
	done := map[txKind]bool{}
	for _, s := range sents {
		if r.stop {
			return
		}
		if (s.kind != kTx && s.kind != kTxt && s.kind != kCreate) || done[s.kind] || !w.judge(s.w).ok {
			continue
		}
		done[s.kind] = true
		var other *userKey
		for _, u := range w.users {
			if u != s.holder {
				other = u
				break
			}
		}
		if other == nil {
			return
		}
		sg := indepSign(s.w.signedFields(), w.p, other.secret)
		var sig [65]byte
		rb, sb := sg.r.Bytes(), sg.s.Bytes()
		copy(sig[32-len(rb):32], rb)
		copy(sig[64-len(sb):64], sb)
		sig[64] = byte(new(big.Int).Sub(sg.v, vBase(w.p)).Int64())

		obj, err := decodeTx(s.raw)
		if err != nil {
			continue
		}
		first, err := obj.From() // memoises the holder
		if err != nil || addr20(first) != s.holder.a20 {
			continue // judged elsewhere
		}
		r.c.Evals(1)
		switch t := obj.(type) {
		case *types.Transaction:
			if t2, err := t.WithSignature(types.GlobalSTDSigner, sig[:]); err == nil {
				if f, err := t2.From(); err != nil || addr20(f) != other.a20 {
					r.violate("sender-cache", "sender-cache/object-keeps-old-sender",
						"Transaction.WithSignature(signature of %x) after From() had been called: From() of the new object is %x (err=%v), the previous signer", other.a20[:], f[:], err)
				}
			}
			if r.stop {
				return
			}
			if err := t.Sign(types.GlobalSTDSigner, other.priv); err == nil {
				if f, err := t.From(); err != nil || addr20(f) != other.a20 {
					r.violate("sender-cache", "sender-cache/object-keeps-old-sender",
						"Transaction.Sign(key of %x) after From() had been called: From() still says %x (err=%v)", other.a20[:], f[:], err)
				}
			}
		case *types.TokenTransaction:
			if err := t.Sign(types.GlobalSTDSigner, other.priv); err == nil {
				if f, err := t.From(); err != nil || addr20(f) != other.a20 {
					r.violate("sender-cache", "sender-cache/object-keeps-old-sender",
						"TokenTransaction.Sign(key of %x) after From() had been called: From() still says %x (err=%v)", other.a20[:], f[:], err)
				}
			}
		}
	}
}
