package signrig

import (
	"reflect"
	"unsafe"

	mempl "github.com/lianxiangcloud/linkchain/mempool"
)

// releaseCache empties the tx cache of a mempool whose run is over. The
// cache's four expiry goroutines can never be stopped (the bubble is
// abandoned, they sleep forever) and each pins a pre-sized map and heap of
// 100000 entries — ~44 MB per run, which adds up over the hundreds of
// re-executions of a shrink. Nothing of the run is judged after this point;
// the unexported fields are reached by reflection because the package offers
// no way to dispose of a cache. Any surprise in the layout leaves the cache
// alone.
func releaseCache(m *mempl.Mempool) {
	defer func() { recover() }()
	cache := reflect.ValueOf(m).Elem().FieldByName("cache")
	if !cache.IsValid() || cache.IsNil() {
		return
	}
	mgr := cache.Elem() // *txHeapManager
	if mgr.Kind() != reflect.Ptr || mgr.IsNil() {
		return
	}
	hs := mgr.Elem().FieldByName("h")
	if !hs.IsValid() || hs.Kind() != reflect.Slice {
		return
	}
	for i := 0; i < hs.Len(); i++ {
		h := hs.Index(i).Elem() // txHeap
		txMap := h.FieldByName("txMap")
		items := h.FieldByName("items")
		if !txMap.IsValid() || !items.IsValid() {
			continue
		}
		w := reflect.NewAt(txMap.Type(), unsafe.Pointer(txMap.UnsafeAddr())).Elem()
		w.Set(reflect.MakeMap(txMap.Type()))
		if !items.IsNil() {
			sl := reflect.NewAt(items.Type().Elem(), unsafe.Pointer(items.Pointer())).Elem()
			sl.Set(reflect.Zero(sl.Type()))
		}
	}
}
