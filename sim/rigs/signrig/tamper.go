package signrig

import (
	"math/big"

	"github.com/lianxiangcloud/linkchain/libs/crypto"

	"verif/sim/kernel"
)

// The tamper catalogue: edits of signed wire bytes between submitter and
// node. An entry only produces input; what the chain may do with the result is
// decided by the oracle (judge) from the tampered bytes alone.

type tamperCtx struct {
	w      *world
	t      *kernel.Tape
	orig   *sent
	others []*sent // other submitted transactions of the run (signature donors)
	// dynUnused is set by an entry whose edit, for this particular transaction,
	// touches data that takes no part in the authorisation (e.g. the classic
	// ring-signature slots of an MLSAG-signed transaction)
	dynUnused bool
}

type tamper struct {
	name  string
	kinds uint // bit set of txKind
	sig   bool // edits signature values (else: a signed field)
	apply func(x *tamperCtx, wt *wireTx) bool
}

// hotTamper: entries drawn more often than their share of the catalogue (the
// twin encodings of a valid authorisation: the edits a third party can make
// without any key and that leave the signer unchanged unless refused).
var hotTamper = map[string]bool{"high-s-twin": true, "high-s-same-v": true}

const (
	mAcc  = 1<<kTx | 1<<kCreate | 1<<kTxt
	mTx   = 1<<kTx | 1<<kCreate
	mTxt  = 1 << kTxt
	mCut  = 1 << kCut
	mMst  = 1 << kMst
	mUtx  = 1 << kUtx
	mECDS = mAcc | mCut | mUtx
)

// field positions inside the body list
func fieldIdx(k txKind, name string) int {
	base := map[string]int{"nonce": 0, "price": 1, "gas": 2, "to": 3, "value": 4, "payload": 5}
	if k == kTxt {
		if name == "token" {
			return 0
		}
		return base[name] + 1
	}
	return base[name]
}

func getSig(wt *wireTx, i int) (sigTriple, bool) {
	ss := wt.sigItems()
	if i < 0 || i >= len(ss) {
		return sigTriple{}, false
	}
	return tripleOf(ss[i])
}

func setSig(wt *wireTx, i int, sg sigTriple) {
	switch wt.kind {
	case kTx, kCreate:
		wt.body.kids[6], wt.body.kids[7], wt.body.kids[8] = bnum(sg.v), bnum(sg.r), bnum(sg.s)
	case kTxt:
		wt.body.kids[7] = blist(bnum(sg.v), bnum(sg.r), bnum(sg.s))
	case kCut:
		wt.body.kids[1].kids[i] = blist(bnum(sg.v), bnum(sg.r), bnum(sg.s))
	case kUtx:
		wt.body.kids[7] = blist(bnum(sg.v), bnum(sg.r), bnum(sg.s))
	}
}

func nSigs(wt *wireTx) int { return len(wt.sigItems()) }

func vBase(p *big.Int) *big.Int {
	return new(big.Int).Add(big.NewInt(35), new(big.Int).Lsh(p, 1))
}

func flipRec(v, p *big.Int) *big.Int {
	b := vBase(p)
	if v.Cmp(b) == 0 {
		return new(big.Int).Add(b, big.NewInt(1))
	}
	return b
}

func numEdit(f func(x *tamperCtx, v *big.Int) *big.Int, field string) func(x *tamperCtx, wt *wireTx) bool {
	return func(x *tamperCtx, wt *wireTx) bool {
		i := fieldIdx(wt.kind, field)
		old := wt.body.kids[i].num()
		nv := f(x, new(big.Int).Set(old))
		if nv == nil || nv.Sign() < 0 || nv.Cmp(old) == 0 {
			return false
		}
		wt.body.kids[i] = bnum(nv)
		return true
	}
}

func sigEdit(f func(x *tamperCtx, wt *wireTx, sg sigTriple) (sigTriple, bool)) func(x *tamperCtx, wt *wireTx) bool {
	return func(x *tamperCtx, wt *wireTx) bool {
		n := nSigs(wt)
		if n == 0 {
			return false
		}
		i := x.t.Int(n)
		sg, ok := getSig(wt, i)
		if !ok {
			return false
		}
		ns, ok := f(x, wt, sg)
		if !ok {
			return false
		}
		setSig(wt, i, ns)
		return true
	}
}

func (x *tamperCtx) otherUser(not *userKey) *userKey {
	us := x.w.users
	for tries := 0; tries < 8; tries++ {
		u := us[x.t.Int(len(us))]
		if u != not {
			return u
		}
	}
	return nil
}

var two256 = new(big.Int).Lsh(big.NewInt(1), 256)

var catalogue = []tamper{
	// ------------------------------------------------ signed fields: tx / create / txt
	{"nonce+1", mAcc, false, numEdit(func(x *tamperCtx, v *big.Int) *big.Int { return v.Add(v, big.NewInt(1)) }, "nonce")},
	{"nonce-other", mAcc, false, numEdit(func(x *tamperCtx, v *big.Int) *big.Int { return big.NewInt(int64(x.t.Int(5))) }, "nonce")},
	{"price-change", mAcc, false, numEdit(func(x *tamperCtx, v *big.Int) *big.Int {
		if x.t.Bool(1, 2) {
			return v.Rsh(v, 1)
		}
		return v.Add(v, big.NewInt(int64(1+x.t.Int(1000))))
	}, "price")},
	{"gas-up", mAcc, false, numEdit(func(x *tamperCtx, v *big.Int) *big.Int { return v.Add(v, big.NewInt(int64(1+x.t.Int(500000)))) }, "gas")},
	{"gas-down", mAcc, false, numEdit(func(x *tamperCtx, v *big.Int) *big.Int {
		// stay above what a creation needs so that the edit is not refused for being too small
		return v.Sub(v, big.NewInt(int64(1+x.t.Int(150000))))
	}, "gas")},
	{"to-other", mAcc, false, func(x *tamperCtx, wt *wireTx) bool {
		i := fieldIdx(wt.kind, "to")
		var na []byte
		if u := x.otherUser(x.orig.holder); u != nil && x.t.Bool(2, 3) {
			na = u.addr[:]
		} else {
			na = x.t.Bytes(20)
			na[0] |= 0x80
		}
		if string(na) == string(wt.body.kids[i].str) {
			return false
		}
		wt.body.kids[i] = bstr(na)
		return true
	}},
	{"to-none", 1 << kTx, false, func(x *tamperCtx, wt *wireTx) bool { // a transfer becomes a creation
		wt.body.kids[3] = bstr(nil)
		return true
	}},
	{"to-set", 1 << kCreate, false, func(x *tamperCtx, wt *wireTx) bool { // a creation becomes a call/transfer
		u := x.otherUser(x.orig.holder)
		if u == nil {
			return false
		}
		wt.body.kids[3] = bstr(u.addr[:])
		return true
	}},
	{"value-up", mAcc, false, numEdit(func(x *tamperCtx, v *big.Int) *big.Int { return v.Add(v, big.NewInt(int64(1+x.t.Int(1000)))) }, "value")},
	{"value-zero", mAcc, false, numEdit(func(x *tamperCtx, v *big.Int) *big.Int { return new(big.Int) }, "value")},
	{"payload-edit", mAcc, false, func(x *tamperCtx, wt *wireTx) bool {
		i := fieldIdx(wt.kind, "payload")
		p := append([]byte{}, wt.body.kids[i].str...)
		switch m := x.t.Int(3); {
		case m == 0 && len(p) > 0:
			p[x.t.Int(len(p))] ^= byte(1 + x.t.Int(255))
		case m == 1 && len(p) > 0:
			p = p[:len(p)-1]
		default:
			p = append(p, byte(1+x.t.Int(255)))
		}
		wt.body.kids[i] = bstr(p)
		return true
	}},
	{"token-other", mTxt, false, func(x *tamperCtx, wt *wireTx) bool {
		cands := [][]byte{make([]byte, 20)}
		for _, t := range x.w.tokens {
			cands = append(cands, t[:])
		}
		n := cands[x.t.Int(len(cands))]
		if string(n) == string(wt.body.kids[0].str) {
			return false
		}
		wt.body.kids[0] = bstr(n)
		return true
	}},
	// ------------------------------------------------ signed fields: contract upgrade
	{"cut-from-victim", mCut, false, func(x *tamperCtx, wt *wireTx) bool {
		u := x.otherUser(x.orig.holder)
		if u == nil {
			return false
		}
		wt.body.kids[0].kids[0] = bstr(u.addr[:])
		return true
	}},
	{"cut-recipient", mCut, false, func(x *tamperCtx, wt *wireTx) bool {
		n := innerTargets[x.t.Int(len(innerTargets))]
		if string(n[:]) == string(wt.body.kids[0].kids[1].str) {
			return false
		}
		wt.body.kids[0].kids[1] = bstr(n[:])
		return true
	}},
	{"cut-nonce+1", mCut, false, func(x *tamperCtx, wt *wireTx) bool {
		v := wt.body.kids[0].kids[2].num()
		wt.body.kids[0].kids[2] = bnum(v.Add(v, big.NewInt(1)))
		return true
	}},
	{"cut-payload", mCut, false, func(x *tamperCtx, wt *wireTx) bool {
		p := append([]byte{}, wt.body.kids[0].kids[3].str...)
		if len(p) <= 5 {
			return false
		}
		p[5+x.t.Int(len(p)-5)] ^= byte(1 + x.t.Int(255))
		wt.body.kids[0].kids[3] = bstr(p)
		return true
	}},
	{"cut-drop-sig", mCut, true, func(x *tamperCtx, wt *wireTx) bool {
		l := wt.body.kids[1]
		if len(l.kids) == 0 {
			return false
		}
		i := x.t.Int(len(l.kids))
		l.kids = append(l.kids[:i:i], l.kids[i+1:]...)
		return true
	}},
	{"cut-dup-sig", mCut, true, func(x *tamperCtx, wt *wireTx) bool {
		l := wt.body.kids[1]
		if len(l.kids) == 0 {
			return false
		}
		l.kids = append(l.kids, l.kids[x.t.Int(len(l.kids))].clone())
		return true
	}},
	{"cut-only-cosigners", mCut, true, func(x *tamperCtx, wt *wireTx) bool { // the sender's own signature removed
		l := wt.body.kids[1]
		if len(l.kids) < 2 {
			return false
		}
		l.kids = l.kids[1:]
		return true
	}},
	// ------------------------------------------------ signed fields: multi-sign account
	{"mst-nonce+1", mMst, false, func(x *tamperCtx, wt *wireTx) bool {
		v := wt.body.kids[0].at(0)
		if v == nil || v.list {
			return false
		}
		n := v.num()
		wt.body.kids[0].kids[0] = bnum(n.Add(n, big.NewInt(1)))
		return true
	}},
	{"mst-type", mMst, false, func(x *tamperCtx, wt *wireTx) bool {
		v := wt.body.kids[0].at(1)
		if v == nil || v.list {
			return false
		}
		if string(v.str) == "1" {
			wt.body.kids[0].kids[1] = bstr([]byte("0"))
		} else {
			wt.body.kids[0].kids[1] = bstr([]byte("1"))
		}
		return true
	}},
	{"mst-min-power", mMst, false, func(x *tamperCtx, wt *wireTx) bool {
		v := wt.body.kids[0].at(2, 0)
		if v == nil || v.list || string(v.str) == "1" {
			return false
		}
		wt.body.kids[0].kids[2].kids[0] = bstr([]byte("1"))
		return true
	}},
	{"mst-signer-addr", mMst, false, func(x *tamperCtx, wt *wireTx) bool { // the attacker appoints himself
		l := wt.body.kids[0].at(2, 1)
		if l == nil || !l.list || len(l.kids) == 0 {
			return false
		}
		e := l.kids[x.t.Int(len(l.kids))]
		if !e.list || len(e.kids) != 2 {
			return false
		}
		na := x.t.Bytes(20)
		e.kids[1] = bstr(na)
		return true
	}},
	{"mst-signer-power", mMst, false, func(x *tamperCtx, wt *wireTx) bool {
		l := wt.body.kids[0].at(2, 1)
		if l == nil || !l.list || len(l.kids) == 0 {
			return false
		}
		e := l.kids[x.t.Int(len(l.kids))]
		if !e.list || len(e.kids) != 2 || string(e.kids[0].str) == "7f" {
			return false
		}
		e.kids[0] = bstr([]byte("7f"))
		return true
	}},
	{"mst-add-signer", mMst, false, func(x *tamperCtx, wt *wireTx) bool {
		l := wt.body.kids[0].at(2, 1)
		if l == nil || !l.list {
			return false
		}
		l.kids = append(l.kids, blist(bstr([]byte("64")), bstr(x.t.Bytes(20))))
		return true
	}},
	{"mst-sig-flip", mMst, true, func(x *tamperCtx, wt *wireTx) bool {
		l := wt.body.kids[1]
		if len(l.kids) == 0 {
			return false
		}
		e := l.kids[x.t.Int(len(l.kids))]
		s := append([]byte{}, e.kids[1].str...)
		if len(s) < 64 {
			return false
		}
		s[len(s)-1-x.t.Int(64)] ^= byte(1 << uint(x.t.Int(8)))
		e.kids[1] = bstr(s)
		return true
	}},
	{"mst-keep-minority", mMst, true, func(x *tamperCtx, wt *wireTx) bool { // only one signature kept
		l := wt.body.kids[1]
		if len(l.kids) < 2 {
			return false
		}
		l.kids = l.kids[:1]
		return true
	}},
	{"mst-sig-repeat", mMst, true, func(x *tamperCtx, wt *wireTx) bool { // one validator's signature repeated under every address
		l := wt.body.kids[1]
		if len(l.kids) < 2 {
			return false
		}
		for i := 1; i < len(l.kids); i++ {
			l.kids[i].kids[1] = l.kids[0].kids[1].clone()
		}
		return true
	}},
	{"mst-dup-entries", mMst, true, func(x *tamperCtx, wt *wireTx) bool { // one validator listed several times
		l := wt.body.kids[1]
		if len(l.kids) < 1 {
			return false
		}
		e := l.kids[0]
		l.kids = []*item{e, e.clone(), e.clone(), e.clone()}
		return true
	}},
	{"cut-cosigners-frame-victim", mCut, false, func(x *tamperCtx, wt *wireTx) bool {
		// the listed signers collude: they name a victim as sender and sign the
		// new main info themselves; the victim signs nothing
		m := x.w.signers[1]
		v := x.otherUser(x.orig.holder)
		if m == nil || v == nil || m.entries[v.a20] > 0 {
			return false
		}
		wt.body.kids[0].kids[0] = bstr(v.addr[:])
		sigs := &item{list: true}
		for _, u := range x.w.users {
			if m.entries[u.a20] > 0 {
				sg := indepSign(wt.signedFields(), x.w.p, u.secret)
				sigs.kids = append(sigs.kids, blist(bnum(sg.v), bnum(sg.r), bnum(sg.s)))
			}
		}
		if len(sigs.kids) == 0 {
			return false
		}
		wt.body.kids[1] = sigs
		return true
	}},
	{"mst-minority-resign", mMst, false, func(x *tamperCtx, wt *wireTx) bool {
		// one validator alone re-signs a main info that appoints the attacker
		if len(x.w.vals) < 2 {
			return false
		}
		l := wt.body.kids[0].at(2, 1)
		if l == nil || !l.list || len(l.kids) == 0 || !l.kids[0].list || len(l.kids[0].kids) != 2 {
			return false
		}
		l.kids[0].kids[1] = bstr(x.t.Bytes(20))
		msg, _, _, ok := mstMessage(wt.body.kids[0])
		if !ok {
			return false
		}
		// the weakest validator
		weak := x.w.vals[0]
		for _, v := range x.w.vals {
			if v.power < weak.power {
				weak = v
			}
		}
		if 3*weak.power > 2*x.w.totalVP {
			return false
		}
		sg, err := weak.key.Priv.Sign(msg)
		if err != nil {
			return false
		}
		wt.body.kids[1] = blist(blist(bstr([]byte(weak.addr)), bstr(sg.Bytes())))
		return true
	}},
	// ------------------------------------------------ signature values (secp256k1)
	{"r-zero", mECDS, true, sigEdit(func(x *tamperCtx, wt *wireTx, sg sigTriple) (sigTriple, bool) { sg.r = new(big.Int); return sg, true })},
	{"s-zero", mECDS, true, sigEdit(func(x *tamperCtx, wt *wireTx, sg sigTriple) (sigTriple, bool) { sg.s = new(big.Int); return sg, true })},
	{"v-zero", mECDS, true, sigEdit(func(x *tamperCtx, wt *wireTx, sg sigTriple) (sigTriple, bool) { sg.v = new(big.Int); return sg, true })},
	{"all-zero", mECDS, true, sigEdit(func(x *tamperCtx, wt *wireTx, sg sigTriple) (sigTriple, bool) {
		return sigTriple{new(big.Int), new(big.Int), new(big.Int)}, true
	})},
	{"r-eq-N", mECDS, true, sigEdit(func(x *tamperCtx, wt *wireTx, sg sigTriple) (sigTriple, bool) {
		sg.r = new(big.Int).Set(curveN)
		return sg, true
	})},
	{"s-eq-N", mECDS, true, sigEdit(func(x *tamperCtx, wt *wireTx, sg sigTriple) (sigTriple, bool) {
		sg.s = new(big.Int).Set(curveN)
		return sg, true
	})},
	{"r-above-N", mECDS, true, sigEdit(func(x *tamperCtx, wt *wireTx, sg sigTriple) (sigTriple, bool) {
		v := new(big.Int).Add(curveN, sg.r)
		if v.Cmp(two256) >= 0 {
			v = new(big.Int).Sub(two256, big.NewInt(1))
		}
		sg.r = v
		return sg, true
	})},
	{"s-above-N", mECDS, true, sigEdit(func(x *tamperCtx, wt *wireTx, sg sigTriple) (sigTriple, bool) {
		v := new(big.Int).Add(curveN, sg.s)
		if v.Cmp(two256) >= 0 {
			v = new(big.Int).Sub(two256, big.NewInt(1))
		}
		sg.s = v
		return sg, true
	})},
	{"rs-33-bytes", mECDS, true, sigEdit(func(x *tamperCtx, wt *wireTx, sg sigTriple) (sigTriple, bool) {
		sg.s = new(big.Int).Add(sg.s, two256) // s + 2^256: same low 32 bytes
		return sg, true
	})},
	{"high-s-twin", mECDS, true, sigEdit(func(x *tamperCtx, wt *wireTx, sg sigTriple) (sigTriple, bool) {
		if sg.s.Sign() <= 0 || sg.s.Cmp(curveN) >= 0 {
			return sg, false
		}
		sg.s = new(big.Int).Sub(curveN, sg.s)
		sg.v = flipRec(sg.v, x.w.p)
		return sg, true
	})},
	{"high-s-same-v", mECDS, true, sigEdit(func(x *tamperCtx, wt *wireTx, sg sigTriple) (sigTriple, bool) {
		if sg.s.Sign() <= 0 || sg.s.Cmp(curveN) >= 0 {
			return sg, false
		}
		sg.s = new(big.Int).Sub(curveN, sg.s)
		return sg, true
	})},
	{"wrong-recid", mECDS, true, sigEdit(func(x *tamperCtx, wt *wireTx, sg sigTriple) (sigTriple, bool) {
		sg.v = flipRec(sg.v, x.w.p)
		return sg, true
	})},
	{"recid-2-3", mECDS, true, sigEdit(func(x *tamperCtx, wt *wireTx, sg sigTriple) (sigTriple, bool) {
		sg.v = new(big.Int).Add(vBase(x.w.p), big.NewInt(int64(2+x.t.Int(2))))
		return sg, true
	})},
	{"v-legacy-27-28", mECDS, true, sigEdit(func(x *tamperCtx, wt *wireTx, sg sigTriple) (sigTriple, bool) {
		sg.v = big.NewInt(int64(27 + x.t.Int(2)))
		return sg, true
	})},
	{"v-raw-recid", mECDS, true, sigEdit(func(x *tamperCtx, wt *wireTx, sg sigTriple) (sigTriple, bool) {
		sg.v = big.NewInt(int64(x.t.Int(2)))
		return sg, true
	})},
	{"v-other-chain", mECDS, true, sigEdit(func(x *tamperCtx, wt *wireTx, sg sigTriple) (sigTriple, bool) {
		q := x.otherChain()
		rec := new(big.Int).Sub(sg.v, vBase(x.w.p))
		sg.v = new(big.Int).Add(vBase(q), rec)
		return sg, true
	})},
	{"v-huge", mECDS, true, sigEdit(func(x *tamperCtx, wt *wireTx, sg sigTriple) (sigTriple, bool) {
		// same low 64 bits as the genuine V
		sg.v = new(big.Int).Add(sg.v, new(big.Int).Lsh(big.NewInt(int64(1+x.t.Int(3))), 64))
		return sg, true
	})},
	{"v-mirrored-below-chain-offset", mECDS, true, sigEdit(func(x *tamperCtx, wt *wireTx, sg sigTriple) (sigTriple, bool) {
		// V - (2p+8) = -(27+recid): a recovery byte taken as an absolute value
		// would come out the same (seeded change C08-7); also the neighbours
		rec := new(big.Int).Sub(sg.v, vBase(x.w.p))
		d := new(big.Int).Mul(big.NewInt(2), new(big.Int).Add(big.NewInt(27), rec))
		sg.v = new(big.Int).Sub(sg.v, d)
		if x.t.Bool(1, 4) {
			sg.v.Add(sg.v, big.NewInt(int64(x.t.Int(3)-1)))
		}
		return sg, true
	})},
	{"v-plus-256", mECDS, true, sigEdit(func(x *tamperCtx, wt *wireTx, sg sigTriple) (sigTriple, bool) {
		// recovery byte computed modulo 256 would come out the same
		sg.v = new(big.Int).Add(sg.v, big.NewInt(256))
		return sg, true
	})},
	{"r-flip-bit", mECDS, true, sigEdit(func(x *tamperCtx, wt *wireTx, sg sigTriple) (sigTriple, bool) {
		sg.r = new(big.Int).Xor(sg.r, new(big.Int).Lsh(big.NewInt(1), uint(x.t.Int(250))))
		return sg, true
	})},
	{"s-flip-bit", mECDS, true, sigEdit(func(x *tamperCtx, wt *wireTx, sg sigTriple) (sigTriple, bool) {
		sg.s = new(big.Int).Xor(sg.s, new(big.Int).Lsh(big.NewInt(1), uint(x.t.Int(250))))
		return sg, true
	})},
	{"sig-from-other-tx", mECDS, true, sigEdit(func(x *tamperCtx, wt *wireTx, sg sigTriple) (sigTriple, bool) {
		for tries := 0; tries < 6 && len(x.others) > 0; tries++ {
			o := x.others[x.t.Int(len(x.others))]
			if o == x.orig || o.kind == kMst {
				continue
			}
			if d, ok := getSig(o.w, 0); ok && d.r.Cmp(sg.r) != 0 {
				return d, true
			}
		}
		return sg, false
	})},
	// ------------------------------------------------ re-signing (the holder's or another key)
	{"resign-other-key", mAcc, true, func(x *tamperCtx, wt *wireTx) bool { // same payload, other signature
		u := x.otherUser(x.orig.holder)
		if u == nil {
			return false
		}
		setSig(wt, 0, indepSign(wt.signedFields(), x.w.p, u.secret))
		return true
	}},
	{"resign-legacy-no-chain", mECDS, true, func(x *tamperCtx, wt *wireTx) bool { // the holder signs the bare field list, V = 27/28
		if x.orig.holder == nil || nSigs(wt) == 0 {
			return false
		}
		sg := indepSign(wt.signedFields(), nil, x.orig.holder.secret)
		setSig(wt, 0, sg)
		return true
	}},
	{"resign-for-other-chain", mECDS, true, func(x *tamperCtx, wt *wireTx) bool { // the holder signs for another chain parameter
		if x.orig.holder == nil || nSigs(wt) == 0 {
			return false
		}
		setSig(wt, 0, indepSign(wt.signedFields(), x.otherChain(), x.orig.holder.secret))
		return true
	}},
}

// keyOfSig finds the rig key that made signature i of wt (by the oracle's own
// recovery), so that an entry can let that holder sign in another form.
func (x *tamperCtx) keyOfSig(wt *wireTx, i int) *userKey {
	sg, ok := getSig(wt, i)
	if !ok {
		return nil
	}
	rd := readSig(wt.signedFields(), sg, x.w.p)
	if rd.st != sigOK {
		return nil
	}
	return x.w.byAddr[rd.signer]
}

// legacyEdit: the holder of signature i signs the bare field list (V = 27/28,
// which this tree accepts: known finding unbound-chain/legacy-v-no-chain-
// parameter); a third party then edits the values with f.
func legacyEdit(f func(x *tamperCtx, sg sigTriple) (sigTriple, bool)) func(x *tamperCtx, wt *wireTx) bool {
	return func(x *tamperCtx, wt *wireTx) bool {
		n := nSigs(wt)
		if n == 0 {
			return false
		}
		i := x.t.Int(n)
		k := x.keyOfSig(wt, i)
		if k == nil {
			return false
		}
		sg, ok := f(x, indepSign(wt.signedFields(), nil, k.secret))
		if !ok {
			return false
		}
		setSig(wt, i, sg)
		return true
	}
}

func flipLegacy(v *big.Int) *big.Int { return new(big.Int).Sub(big.NewInt(55), v) } // 27 <-> 28

func init() {
	type le struct {
		name string
		hot  bool
		f    func(x *tamperCtx, sg sigTriple) (sigTriple, bool)
	}
	for _, e := range []le{
		// the malleable twin of a legacy-form signature: same key, same
		// fields, other bytes
		{"legacy-high-s-twin", true, func(x *tamperCtx, sg sigTriple) (sigTriple, bool) {
			sg.s = new(big.Int).Sub(curveN, sg.s)
			sg.v = flipLegacy(sg.v)
			return sg, true
		}},
		{"legacy-high-s-same-v", true, func(x *tamperCtx, sg sigTriple) (sigTriple, bool) {
			sg.s = new(big.Int).Sub(curveN, sg.s)
			return sg, true
		}},
		{"legacy-wrong-recid", false, func(x *tamperCtx, sg sigTriple) (sigTriple, bool) {
			sg.v = flipLegacy(sg.v)
			return sg, true
		}},
		{"legacy-r-zero", false, func(x *tamperCtx, sg sigTriple) (sigTriple, bool) { sg.r = new(big.Int); return sg, true }},
		{"legacy-s-zero", false, func(x *tamperCtx, sg sigTriple) (sigTriple, bool) { sg.s = new(big.Int); return sg, true }},
		{"legacy-r-eq-N", false, func(x *tamperCtx, sg sigTriple) (sigTriple, bool) { sg.r = new(big.Int).Set(curveN); return sg, true }},
		{"legacy-s-eq-N", false, func(x *tamperCtx, sg sigTriple) (sigTriple, bool) { sg.s = new(big.Int).Set(curveN); return sg, true }},
		{"legacy-s-above-N", false, func(x *tamperCtx, sg sigTriple) (sigTriple, bool) {
			sg.s = new(big.Int).Add(curveN, sg.s) // s + N: the same residue
			return sg, sg.s.Cmp(two256) < 0
		}},
		{"legacy-r-above-N", false, func(x *tamperCtx, sg sigTriple) (sigTriple, bool) {
			sg.r = new(big.Int).Add(curveN, sg.r)
			return sg, sg.r.Cmp(two256) < 0
		}},
		{"legacy-s-33-bytes", false, func(x *tamperCtx, sg sigTriple) (sigTriple, bool) {
			sg.s = new(big.Int).Add(sg.s, two256)
			return sg, true
		}},
		{"legacy-v-plus-256", false, func(x *tamperCtx, sg sigTriple) (sigTriple, bool) {
			sg.v = new(big.Int).Add(sg.v, big.NewInt(256))
			return sg, true
		}},
	} {
		catalogue = append(catalogue, tamper{name: e.name, kinds: mECDS, sig: true, apply: legacyEdit(e.f)})
		if e.hot {
			hotTamper[e.name] = true
		}
	}
	catalogue = append(catalogue,
		// other-chain form of the twin: V names another chain and s is high
		tamper{name: "other-chain-high-s-twin", kinds: mECDS, sig: true, apply: func(x *tamperCtx, wt *wireTx) bool {
			n := nSigs(wt)
			if n == 0 {
				return false
			}
			i := x.t.Int(n)
			k := x.keyOfSig(wt, i)
			if k == nil {
				return false
			}
			q := x.otherChain()
			sg := indepSign(wt.signedFields(), q, k.secret)
			sg.s = new(big.Int).Sub(curveN, sg.s)
			sg.v = flipRec(sg.v, q)
			setSig(wt, i, sg)
			return true
		}},
		tamper{name: "r-s-swapped", kinds: mECDS, sig: true, apply: sigEdit(func(x *tamperCtx, wt *wireTx, sg sigTriple) (sigTriple, bool) {
			sg.r, sg.s = sg.s, sg.r
			return sg, sg.r.Cmp(sg.s) != 0
		})},
		tamper{name: "s-negated-mod-2^256", kinds: mECDS, sig: true, apply: sigEdit(func(x *tamperCtx, wt *wireTx, sg sigTriple) (sigTriple, bool) {
			sg.s = new(big.Int).Sub(two256, sg.s) // the two's complement, not the group negation
			return sg, sg.s.Sign() > 0 && sg.s.Cmp(two256) < 0
		})},
		tamper{name: "r-plus-N-wrapped", kinds: mECDS, sig: true, apply: sigEdit(func(x *tamperCtx, wt *wireTx, sg sigTriple) (sigTriple, bool) {
			// r + N taken modulo 2^256 (a verifier reducing r would see another value)
			sg.r = new(big.Int).Mod(new(big.Int).Add(sg.r, curveN), two256)
			return sg, true
		})},
		// the sender's place in an upgrade's signature list taken by the twin
		// of his own signature while a co-signer's stays: order and count unchanged
		tamper{name: "cut-all-sigs-high-s-twin", kinds: mCut, sig: true, apply: func(x *tamperCtx, wt *wireTx) bool {
			n := nSigs(wt)
			if n == 0 {
				return false
			}
			for i := 0; i < n; i++ {
				sg, ok := getSig(wt, i)
				if !ok || sg.s.Sign() <= 0 || sg.s.Cmp(curveN) >= 0 {
					return false
				}
				sg.s = new(big.Int).Sub(curveN, sg.s)
				sg.v = flipRec(sg.v, x.w.p)
				setSig(wt, i, sg)
			}
			return true
		}},
		tamper{name: "cut-sig-order-reversed", kinds: mCut, sig: true, apply: func(x *tamperCtx, wt *wireTx) bool {
			l := wt.body.kids[1]
			if len(l.kids) < 2 {
				return false
			}
			for i, j := 0, len(l.kids)-1; i < j; i, j = i+1, j-1 {
				l.kids[i], l.kids[j] = l.kids[j], l.kids[i]
			}
			return true
		}},
		tamper{name: "cut-no-sigs", kinds: mCut, sig: true, apply: func(x *tamperCtx, wt *wireTx) bool {
			if len(wt.body.kids[1].kids) == 0 {
				return false
			}
			wt.body.kids[1].kids = nil
			return true
		}},
		tamper{name: "mst-no-sigs", kinds: mMst, sig: true, apply: func(x *tamperCtx, wt *wireTx) bool {
			if len(wt.body.kids[1].kids) == 0 {
				return false
			}
			wt.body.kids[1].kids = nil
			return true
		}},
		tamper{name: "mst-sig-truncated", kinds: mMst, sig: true, apply: func(x *tamperCtx, wt *wireTx) bool {
			l := wt.body.kids[1]
			if len(l.kids) == 0 {
				return false
			}
			e := l.kids[x.t.Int(len(l.kids))]
			if len(e.kids[1].str) < 2 {
				return false
			}
			e.kids[1] = bstr(e.kids[1].str[:len(e.kids[1].str)-1-x.t.Int(len(e.kids[1].str)-1)])
			return true
		}},
		tamper{name: "mst-sig-under-other-validator", kinds: mMst, sig: true, apply: func(x *tamperCtx, wt *wireTx) bool {
			// a genuine signature filed under the address of a validator that did not sign
			l := wt.body.kids[1]
			if len(l.kids) == 0 || len(x.w.vals) < 2 {
				return false
			}
			e := l.kids[x.t.Int(len(l.kids))]
			for _, v := range x.w.vals {
				if v.addr != string(e.kids[0].str) {
					e.kids[0] = bstr([]byte(v.addr))
					return true
				}
			}
			return false
		}},
		tamper{name: "mst-signed-by-strangers", kinds: mMst, sig: true, apply: func(x *tamperCtx, wt *wireTx) bool {
			// valid ed25519 signatures over the right message by keys that are no validators,
			// filed under the validators' addresses
			msg, _, _, ok := mstMessage(wt.body.kids[0])
			if !ok || len(x.w.vals) == 0 {
				return false
			}
			sigs := &item{list: true}
			for _, v := range x.w.vals {
				priv := crypto.GenPrivKeyEd25519FromSecret(x.t.Bytes(16))
				sg, err := priv.Sign(msg)
				if err != nil {
					return false
				}
				sigs.kids = append(sigs.kids, blist(bstr([]byte(v.addr)), bstr(sg.Bytes())))
			}
			wt.body.kids[1] = sigs
			return true
		}},
	)
}

func (x *tamperCtx) otherChain() *big.Int {
	switch x.t.Int(4) {
	case 0:
		return new(big.Int).Add(x.w.p, big.NewInt(1))
	case 1:
		return new(big.Int).Sub(x.w.p, big.NewInt(1))
	case 2:
		return big.NewInt(1) // another network's id
	}
	return big.NewInt(int64(2 + x.t.Int(60000)))
}

func applicable(k txKind) []int {
	var out []int
	for i, e := range catalogue {
		if e.kinds&(1<<uint(k)) != 0 {
			out = append(out, i)
		}
	}
	return out
}

// mutate applies one or (sometimes) two catalogue entries to a copy of s.
func (x *tamperCtx) mutate(idx []int) (*wireTx, string, bool) {
	wt, name, _, ok := x.mutateF(idx)
	return wt, name, ok
}

// mutateF also tells whether a signed field (not a signature value) was edited.
func (x *tamperCtx) mutateF(idx []int) (*wireTx, string, bool, bool) {
	if len(idx) == 0 {
		return nil, "", false, false
	}
	wt := x.orig.w.clone()
	e := &catalogue[idx[x.t.Int(len(idx))]]
	if x.t.Bool(1, 6) {
		// the twin encodings get a fixed share of the draws, whatever the size
		// of the catalogue
		var hot []int
		for _, i := range idx {
			if hotTamper[catalogue[i].name] {
				hot = append(hot, i)
			}
		}
		if len(hot) > 0 {
			e = &catalogue[hot[x.t.Int(len(hot))]]
		}
	}
	if !e.apply(x, wt) {
		return nil, "", false, false
	}
	name := e.name
	if !e.sig && x.t.Bool(1, 6) { // multi-field modification
		e2 := &catalogue[idx[x.t.Int(len(idx))]]
		if !e2.sig && e2 != e && e2.apply(x, wt) {
			name += "+" + e2.name
		}
	}
	if !wt.wellFormed() || string(wt.bytes()) == string(x.orig.raw) {
		return nil, "", false, false
	}
	return wt, name, !e.sig, true
}
