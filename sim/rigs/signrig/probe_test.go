package signrig

import (
	"crypto/ecdsa"
	"encoding/hex"
	"fmt"
	"math/big"
	"testing"

	"github.com/lianxiangcloud/linkchain/libs/common"
	"github.com/lianxiangcloud/linkchain/libs/crypto"
	"github.com/lianxiangcloud/linkchain/libs/ser"
	"github.com/lianxiangcloud/linkchain/types"
)

func pkey(i int) *ecdsa.PrivateKey {
	d := new(big.Int).SetBytes(crypto.Keccak256([]byte(fmt.Sprintf("probe-%d", i))))
	priv := new(ecdsa.PrivateKey)
	priv.PublicKey.Curve = crypto.S256()
	priv.D = d
	priv.PublicKey.X, priv.PublicKey.Y = crypto.S256().ScalarBaseMult(d.Bytes())
	return priv
}

func dump(it *item, ind string) {
	if it.list {
		fmt.Printf("%s[\n", ind)
		for _, k := range it.kids {
			dump(k, ind+"  ")
		}
		fmt.Printf("%s]\n", ind)
		return
	}
	fmt.Printf("%s%x (%d)\n", ind, it.str, len(it.str))
}

func TestProbeShapes(t *testing.T) {
	k := pkey(1)
	to := common.HexToAddress("0x1234")
	tx := types.NewTransaction(7, to, big.NewInt(5), 0, nil, nil)
	if err := tx.Sign(types.GlobalSTDSigner, k); err != nil {
		t.Fatal(err)
	}
	var itx types.Tx = tx
	b, err := ser.EncodeToBytes(&itx)
	if err != nil {
		t.Fatal(err)
	}
	fmt.Println("tx wire", hex.EncodeToString(b[:7]))
	it, err := rlpDecode(b[7:])
	if err != nil {
		t.Fatal(err)
	}
	dump(it, "")
	fmt.Println("signhash", tx.SignHash().Hex())
	from, _ := tx.From()
	fmt.Println("from", from.Hex(), crypto.PubkeyToAddress(k.PublicKey).Hex())

	tt := types.NewTokenTransaction(common.HexToAddress("0x77"), 3, to, big.NewInt(9), 0, nil, []byte("hi"))
	tt.Sign(types.GlobalSTDSigner, k)
	itx = tt
	b, _ = ser.EncodeToBytes(&itx)
	fmt.Println("txt wire", hex.EncodeToString(b[:7]))
	it, err = rlpDecode(b[7:])
	if err != nil {
		t.Fatal(err)
	}
	dump(it, "")

	mi := &types.ContractUpgradeMainInfo{FromAddr: crypto.PubkeyToAddress(k.PublicKey), Recipient: common.HexToAddress("0x99"), AccountNonce: 2, Payload: []byte{0, 'a', 's', 'm', 1}}
	cut := types.UpgradeContractTx(mi, nil)
	cut.Sign(types.GlobalSTDSigner, k)
	cut.Sign(types.GlobalSTDSigner, pkey(2))
	itx = cut
	b, _ = ser.EncodeToBytes(&itx)
	fmt.Println("cut wire", hex.EncodeToString(b[:7]))
	it, err = rlpDecode(b[7:])
	if err != nil {
		t.Fatal(err)
	}
	dump(it, "")
	addrs, err := cut.Senders()
	fmt.Println("cut senders", addrs, err)

	mst := &types.MultiSignAccountTx{MultiSignMainInfo: types.MultiSignMainInfo{AccountNonce: 1, SupportTxType: types.TxContractCreateType,
		SignersInfo: types.SignersInfo{MinSignerPower: 20, Signers: []*types.SignerEntry{{Power: 10, Addr: to}, {Power: 15, Addr: from}}}}}
	pv := crypto.GenPrivKeyEd25519FromSecret([]byte("v1"))
	sb, _ := types.GenMultiSignBytes(mst.MultiSignMainInfo)
	sig, _ := pv.Sign(sb)
	mst.Signatures = append(mst.Signatures, types.ValidatorSign{Addr: pv.PubKey().Address(), Signature: sig.Bytes()})
	itx = mst
	b, _ = ser.EncodeToBytes(&itx)
	fmt.Println("mst wire", hex.EncodeToString(b[:7]))
	it, err = rlpDecode(b[7:])
	if err != nil {
		t.Fatal(err)
	}
	dump(it, "")
	fmt.Println("signbytes", hex.EncodeToString(sb))
	fmt.Println("pub", hex.EncodeToString(pv.PubKey().Bytes()), len(pv.PubKey().Bytes()))
}

func TestProbeIndep(t *testing.T) {
	k := pkey(1)
	p := types.SignParam
	to := common.HexToAddress("0x1234")
	tx := types.NewTransaction(7, to, big.NewInt(5), 0, nil, []byte("x"))
	tx.Sign(types.GlobalSTDSigner, k)
	var itx types.Tx = tx
	b, _ := ser.EncodeToBytes(&itx)
	it, _ := rlpDecode(b[7:])
	w := &wireTx{kind: kTx, prefix: b[:7], body: it}
	sg, _ := tripleOf(w.sigItems()[0])
	a, st, _, _ := indepSender(w.signedFields(), sg, p)
	from, _ := tx.From()
	fmt.Printf("indep %x st=%v real %x hash %x\n", a, st, from, signingHash(w.signedFields(), p))

	// legacy
	secret := k.D.Bytes()
	h := signingHash(w.signedFields(), nil)
	priv, _ := btcecPriv(secret)
	c, _ := btcecSignCompact(priv, h)
	w2 := w.clone()
	w2.body.kids[6] = bnum(big.NewInt(int64(c[0])))
	w2.body.kids[7] = bstr(c[1:33])
	w2.body.kids[8] = bstr(c[33:65])
	var dec types.Tx
	err := ser.DecodeBytes(w2.bytes(), &dec)
	fmt.Println("legacy decode", err)
	f2, err := dec.From()
	fmt.Printf("legacy from %x err=%v (orig %x)\n", f2, err, from)

	// high-s twin
	w3 := w.clone()
	s := w3.body.kids[8].num()
	s.Sub(curveN, s)
	w3.body.kids[8] = bnum(s)
	v := w3.body.kids[6].num()
	if v.Bit(0) == 1 { // 35+2p+recid ; 35 odd => recid0 -> odd
		v.Add(v, big.NewInt(1))
	} else {
		v.Sub(v, big.NewInt(1))
	}
	w3.body.kids[6] = bnum(v)
	dec = nil
	err = ser.DecodeBytes(w3.bytes(), &dec)
	f3, err2 := dec.From()
	fmt.Printf("twin decode=%v from %x err=%v\n", err, f3, err2)
	sg3, _ := tripleOf(w3.sigItems()[0])
	a3, st3, _, _ := indepSender(w3.signedFields(), sg3, p)
	fmt.Printf("twin indep %x %v\n", a3, st3)

	// WithSignature after From cached
	k2 := pkey(2)
	sig2, _ := crypto.Sign(tx.SignHash().Bytes(), k2)
	tx2, _ := tx.WithSignature(types.GlobalSTDSigner, sig2)
	f4, _ := tx2.From()
	fmt.Printf("WithSignature: from %x want %x (old %x)\n", f4, crypto.PubkeyToAddress(k2.PublicKey), from)
	tx.Sign(types.GlobalSTDSigner, k2)
	f5, _ := tx.From()
	fmt.Printf("re-Sign: from %x want %x\n", f5, crypto.PubkeyToAddress(k2.PublicKey))
	fmt.Printf("re-Sign hash %x\n", tx.Hash())
}
