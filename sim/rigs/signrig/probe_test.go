package signrig

import (
	"crypto/ecdsa"
	"encoding/hex"
	"fmt"
	"math/big"
	"testing"

	"github.com/lianxiangcloud/linkchain/libs/common"
	"github.com/lianxiangcloud/linkchain/libs/crypto"
	"github.com/lianxiangcloud/linkchain/libs/ser"
	"github.com/lianxiangcloud/linkchain/types"
)

func pkey(i int) *ecdsa.PrivateKey {
	d := new(big.Int).SetBytes(crypto.Keccak256([]byte(fmt.Sprintf("probe-%d", i))))
	priv := new(ecdsa.PrivateKey)
	priv.PublicKey.Curve = crypto.S256()
	priv.D = d
	priv.PublicKey.X, priv.PublicKey.Y = crypto.S256().ScalarBaseMult(d.Bytes())
	return priv
}

func dump(it *item, ind string) {
	if it.list {
		fmt.Printf("%s[\n", ind)
		for _, k := range it.kids {
			dump(k, ind+"  ")
		}
		fmt.Printf("%s]\n", ind)
		return
	}
	fmt.Printf("%s%x (%d)\n", ind, it.str, len(it.str))
}

func TestProbeShapes(t *testing.T) {
	k := pkey(1)
	to := common.HexToAddress("0x1234")
	tx := types.NewTransaction(7, to, big.NewInt(5), 0, nil, nil)
	if err := tx.Sign(types.GlobalSTDSigner, k); err != nil {
		t.Fatal(err)
	}
	var itx types.Tx = tx
	b, err := ser.EncodeToBytes(&itx)
	if err != nil {
		t.Fatal(err)
	}
	fmt.Println("tx wire", hex.EncodeToString(b[:7]))
	it, err := rlpDecode(b[7:])
	if err != nil {
		t.Fatal(err)
	}
	dump(it, "")
	fmt.Println("signhash", tx.SignHash().Hex())
	from, _ := tx.From()
	fmt.Println("from", from.Hex(), crypto.PubkeyToAddress(k.PublicKey).Hex())

	tt := types.NewTokenTransaction(common.HexToAddress("0x77"), 3, to, big.NewInt(9), 0, nil, []byte("hi"))
	tt.Sign(types.GlobalSTDSigner, k)
	itx = tt
	b, _ = ser.EncodeToBytes(&itx)
	fmt.Println("txt wire", hex.EncodeToString(b[:7]))
	it, err = rlpDecode(b[7:])
	if err != nil {
		t.Fatal(err)
	}
	dump(it, "")

	mi := &types.ContractUpgradeMainInfo{FromAddr: crypto.PubkeyToAddress(k.PublicKey), Recipient: common.HexToAddress("0x99"), AccountNonce: 2, Payload: []byte{0, 'a', 's', 'm', 1}}
	cut := types.UpgradeContractTx(mi, nil)
	cut.Sign(types.GlobalSTDSigner, k)
	cut.Sign(types.GlobalSTDSigner, pkey(2))
	itx = cut
	b, _ = ser.EncodeToBytes(&itx)
	fmt.Println("cut wire", hex.EncodeToString(b[:7]))
	it, err = rlpDecode(b[7:])
	if err != nil {
		t.Fatal(err)
	}
	dump(it, "")
	addrs, err := cut.Senders()
	fmt.Println("cut senders", addrs, err)

	mst := &types.MultiSignAccountTx{MultiSignMainInfo: types.MultiSignMainInfo{AccountNonce: 1, SupportTxType: types.TxContractCreateType,
		SignersInfo: types.SignersInfo{MinSignerPower: 20, Signers: []*types.SignerEntry{{Power: 10, Addr: to}, {Power: 15, Addr: from}}}}}
	pv := crypto.GenPrivKeyEd25519FromSecret([]byte("v1"))
	sb, _ := types.GenMultiSignBytes(mst.MultiSignMainInfo)
	sig, _ := pv.Sign(sb)
	mst.Signatures = append(mst.Signatures, types.ValidatorSign{Addr: pv.PubKey().Address(), Signature: sig.Bytes()})
	itx = mst
	b, _ = ser.EncodeToBytes(&itx)
	fmt.Println("mst wire", hex.EncodeToString(b[:7]))
	it, err = rlpDecode(b[7:])
	if err != nil {
		t.Fatal(err)
	}
	dump(it, "")
	fmt.Println("signbytes", hex.EncodeToString(sb))
	fmt.Println("pub", hex.EncodeToString(pv.PubKey().Bytes()), len(pv.PubKey().Bytes()))
}
