package signrig

import (
	"bytes"
	"fmt"
	"math/big"
	"sort"

	"github.com/lianxiangcloud/linkchain/libs/common"
	"github.com/lianxiangcloud/linkchain/libs/cryptonote/ringct"
	lk "github.com/lianxiangcloud/linkchain/libs/cryptonote/types"
	"github.com/lianxiangcloud/linkchain/libs/cryptonote/xcrypto"
	"github.com/lianxiangcloud/linkchain/types"

	"verif/sim/kernel"
)

// The confidential side. Transactions are built with linkchain's own wallet
// side construction code (NewAinTransaction, NewUinTransaction,
// UInTransWithRctSig) — the submitter is a correct client. Ground truth is by
// construction: the rig knows to which key set and sub-address it addressed
// every output and with which amount, and every edit of a ring-signed
// transaction is a forgery.

var rate = big.NewInt(types.UTXO_COMMITMENT_CHANGE_RATE)

type outTruth struct {
	wallet, sub int
	amount      *big.Int
}

type utxTruth struct {
	ain      bool
	outs     []outTruth  // per UTXO output, in order
	spent    []*ownedOut // the outputs a UTXO->UTXO spend consumes (one or two inputs)
	withdraw bool        // UTXO -> account output (+ confidential change)
	ring     int         // ring size of a spend (1 = short-ring form)
}

type ownedOut struct {
	owned
	wallet  int
	global  uint64
	pending bool
	spent   bool
}

var (
	prefAccountInput []byte
	prefUTXOInput    []byte
)

func learnUtxoPrefixes() {
	if prefAccountInput != nil {
		return
	}
	enc := func(in types.Input) []byte {
		tx := &types.UTXOTransaction{Inputs: []types.Input{in}, Fee: new(big.Int)}
		raw := encodeTx(tx)
		body, err := rlpShallow(raw[7:])
		if err != nil || len(body.kids) == 0 {
			panic("signrig: cannot learn input prefixes")
		}
		e := body.kids[0].raw
		hl, _, _, _ := rlpExtent(e)
		return append([]byte{}, e[hl:hl+7]...)
	}
	prefAccountInput = enc(&types.AccountInput{Amount: new(big.Int)})
	prefUTXOInput = enc(&types.UTXOInput{})
}

func parseUtxWire(raw []byte) (*wireTx, error) {
	if len(raw) < 8 {
		return nil, errRLP
	}
	body, err := rlpShallow(raw[7:])
	if err != nil || len(body.kids) != 9 {
		return nil, errRLP
	}
	sig, err := rlpDecode(body.kids[7].raw)
	if err != nil {
		return nil, err
	}
	body.kids[7] = sig
	w := &wireTx{kind: kUtx, prefix: append([]byte{}, raw[:7]...), body: body}
	if !w.wellFormed() {
		return nil, errRLP
	}
	return w, nil
}

// utxHasAccountInput: does the inputs element start with an AccountInput.
func utxHasAccountInput(wt *wireTx) bool {
	e := wt.body.kids[0].raw
	hl, n, _, err := rlpExtent(e)
	if err != nil || n < 7 {
		return false
	}
	return bytes.Equal(e[hl:hl+7], prefAccountInput)
}

func (w *world) judgeUtx(wt *wireTx) verdict {
	if utxHasAccountInput(wt) {
		return w.judgeSingle(wt)
	}
	// ring-signed: authorised iff these are exactly the bytes an owner built
	if w.honestUtx[string(wt.bytes())] {
		return verdict{ok: true, nobody: true}
	}
	return verdict{reason: "edited-ring-signed-transaction"}
}

func lkcN(n int64) *big.Int { return new(big.Int).Mul(big.NewInt(n), big.NewInt(1e18)) }

// genFund: account -> UTXO outputs for the rig's wallets (main and
// sub-addresses).
func (w *world) genFund(t *kernel.Tape, u *userKey, nonce uint64) (*sent, error) {
	n := 2 + t.Int(3)
	truth := &utxTruth{ain: true}
	var dests []types.DestEntry
	sum := new(big.Int)
	for i := 0; i < n; i++ {
		wi, sub := t.Int(len(w.wallets)), t.Int(3)
		amt := lkcN(int64(100 + t.Int(900)))
		truth.outs = append(truth.outs, outTruth{wi, sub, amt})
		dests = append(dests, &types.UTXODestEntry{Addr: w.wallets[wi].subs[sub], Amount: amt, IsSubaddress: sub > 0})
		sum.Add(sum, amt)
	}
	fee := new(big.Int).Mul(new(big.Int).SetUint64(types.CalNewAmountGas(sum, types.EverLiankeFee)), gasPrice)
	total := new(big.Int).Add(sum, fee)
	var extra []byte
	if t.Bool(1, 2) {
		extra = t.Bytes(1 + t.Int(8))
	}
	tx, _, err := types.NewAinTransaction(&types.AccountSourceEntry{From: u.addr, Nonce: nonce, Amount: total}, dests, common.EmptyAddress, extra)
	if err != nil {
		return nil, fmt.Errorf("NewAinTransaction: %v", err)
	}
	if err := tx.Sign(types.GlobalSTDSigner, u.priv); err != nil {
		return nil, err
	}
	raw := encodeTx(tx)
	wt, err := parseUtxWire(raw)
	if err != nil {
		return nil, err
	}
	return &sent{kind: kUtx, w: wt, raw: raw, holder: u, utx: truth, desc: fmt.Sprintf("fund u%d n=%d outs=%d", u.idx, nonce, n)}, nil
}

// ringFor picks a ring of size m around global index g from the replica's
// store (a wallet asks a node for decoys).
func (w *world) ringFor(t *kernel.Tape, g uint64, m int) ([]types.UTXORingEntry, uint64, bool) {
	idx := map[uint64]bool{g: true}
	for tries := 0; len(idx) < m && tries < 64; tries++ {
		idx[uint64(t.Int(int(w.utxoNext)))] = true
	}
	var all []uint64
	for i := range idx {
		all = append(all, i)
	}
	sort.Slice(all, func(i, j int) bool { return all[i] < all[j] })
	var ring []types.UTXORingEntry
	pos := uint64(0)
	for i, gi := range all {
		o, err := w.R.UtxoStore.GetUtxoOutput(common.EmptyAddress, gi)
		if err != nil || o == nil {
			return nil, 0, false
		}
		ring = append(ring, types.UTXORingEntry{Index: gi, OTAddr: o.OTAddr, Commit: o.Commit})
		if gi == g {
			pos = uint64(i)
		}
	}
	return ring, pos, true
}

// buildSpend builds a UTXO->UTXO transaction spending os with the keys of
// wallet `with` (the owner, or — for the foreign-key check — somebody else).
func (w *world) buildSpend(t *kernel.Tape, os []*ownedOut, with *wallet, rings [][]types.UTXORingEntry, poss []uint64, dests []types.DestEntry, extra []byte) (*types.UTXOTransaction, error) {
	var sources []*types.UTXOSourceEntry
	for i, o := range os {
		sources = append(sources, &types.UTXOSourceEntry{Ring: rings[i], RingIndex: poss[i], RKey: o.rKey, OutIndex: o.outIndex, Amount: o.amount, Mask: o.mask})
	}
	var tx *types.UTXOTransaction
	var err error
	_, msg, panicked := kernel.Try(func() {
		var ephs []*types.UTXOInputEphemeral
		var mKeys lk.KeyV
		tx, ephs, mKeys, _, err = types.NewUinTransaction(&with.keys, with.keyIndex, sources, dests, common.EmptyAddress, common.EmptyAddress, extra)
		if err == nil {
			err = types.UInTransWithRctSig(tx, sources, ephs, dests, mKeys)
		}
	})
	if panicked {
		return nil, fmt.Errorf("panic: %s", msg)
	}
	return tx, err
}

// genSpend: wallet a spends one or two of its outputs to wallet b (main or
// sub-address) with change to one of its own sub-addresses. Also returns a
// forged competitor built with another wallet's keys when the library lets
// one be built.
func (w *world) genSpend(t *kernel.Tape) (*sent, *types.UTXOTransaction, error) {
	var cands []*ownedOut
	for _, o := range w.outs {
		if !o.spent && !o.pending {
			cands = append(cands, o)
		}
	}
	if len(cands) == 0 || w.utxoNext == 0 {
		return nil, nil, nil
	}
	o := cands[t.Int(len(cands))]
	os := []*ownedOut{o}
	if t.Bool(1, 3) { // a second input of the same wallet
		var more []*ownedOut
		for _, c := range cands {
			if c != o && c.wallet == o.wallet {
				more = append(more, c)
			}
		}
		if len(more) > 0 {
			os = append(os, more[t.Int(len(more))])
		}
	}
	total := new(big.Int)
	for _, x := range os {
		total.Add(total, x.amount)
	}
	a := w.wallets[o.wallet]
	fee := new(big.Int).Mul(new(big.Int).SetUint64(w.R.App.GetUTXOGas()), gasPrice)
	withdraw := t.Bool(1, 3) // UTXO -> account output (plus confidential change)
	if withdraw {
		// the transfer-fee part depends on the withdrawn amount; reserve the maximum for what the inputs can hold
		fee.Add(fee, new(big.Int).Mul(new(big.Int).SetUint64(types.CalNewAmountGas(total, types.EverLiankeFee)), gasPrice))
	}
	rest := new(big.Int).Sub(total, fee)
	if rest.Cmp(new(big.Int).Mul(rate, big.NewInt(4))) < 0 {
		return nil, nil, nil
	}
	m := 1
	if t.Bool(3, 4) {
		m = 2 + t.Int(10)
		if uint64(m) > w.utxoNext {
			m = int(w.utxoNext)
		}
	}
	var rings [][]types.UTXORingEntry
	var poss []uint64
	for _, x := range os {
		ring, pos, ok := w.ringFor(t, x.global, m)
		if !ok {
			return nil, nil, fmt.Errorf("ring members not in the replica's store")
		}
		rings, poss = append(rings, ring), append(poss, pos)
	}
	restUnits := new(big.Int).Div(rest, rate)
	toB := new(big.Int).Mul(new(big.Int).Div(new(big.Int).Mul(restUnits, big.NewInt(int64(1+t.Int(8)))), big.NewInt(10)), rate)
	if toB.Sign() == 0 {
		toB = new(big.Int).Set(rate)
	}
	change := new(big.Int).Sub(rest, toB)
	bi, bsub := t.Int(len(w.wallets)), t.Int(3)
	asub := 1 + t.Int(2)
	truth := &utxTruth{spent: os, ring: len(rings[0]), outs: []outTruth{{bi, bsub, toB}}}
	dests := []types.DestEntry{&types.UTXODestEntry{Addr: w.wallets[bi].subs[bsub], Amount: toB, IsSubaddress: bsub > 0}}
	if withdraw {
		if change.Sign() <= 0 {
			return nil, nil, nil
		}
		truth.outs = nil
		truth.withdraw = true
		dests = []types.DestEntry{&types.AccountDestEntry{To: w.users[t.Int(len(w.users))].addr, Amount: toB}}
	}
	if change.Sign() > 0 {
		truth.outs = append(truth.outs, outTruth{o.wallet, asub, change})
		dests = append(dests, &types.UTXODestEntry{Addr: a.subs[asub], Amount: change, IsSubaddress: true, IsChange: true})
	}
	var extra []byte
	if t.Bool(1, 3) {
		extra = t.Bytes(1 + t.Int(8))
	}
	tx, err := w.buildSpend(t, os, a, rings, poss, dests, extra)
	if err != nil {
		return nil, nil, fmt.Errorf("owner cannot build the spend: %v", err)
	}
	raw := encodeTx(tx)
	wt, err := parseUtxWire(raw)
	if err != nil {
		return nil, nil, err
	}
	w.honestUtx[string(raw)] = true
	for _, x := range os {
		x.pending = true
	}
	s := &sent{kind: kUtx, w: wt, raw: raw, utx: truth, desc: fmt.Sprintf("spend w%d out#%d inputs=%d ring=%d withdraw=%v", o.wallet, o.global, len(os), m, withdraw)}

	// the same spend attempted with somebody else's keys
	var foreign *types.UTXOTransaction
	for _, other := range w.wallets {
		if other.idx != o.wallet {
			if ftx, ferr := w.buildSpend(t, os, other, rings, poss, dests, extra); ferr == nil && ftx != nil {
				foreign = ftx
			}
			break
		}
	}
	return s, foreign, nil
}

// checkRecognition: every wallet scans the wire-decoded transaction; exactly
// the addressed wallet recognises each output, under the right sub-address,
// and decodes the right amount.
func (r *runner) checkRecognition(s *sent) {
	w := r.w
	obj, err := decodeTx(s.raw)
	if err != nil {
		return
	}
	tx, ok := obj.(*types.UTXOTransaction)
	if !ok {
		return
	}
	all := append(append([]*wallet{}, w.wallets...), w.strangers...)
	for _, wl := range all {
		var got []owned
		_, msg, panicked := kernel.Try(func() { got = wl.scan(tx) })
		if panicked {
			r.violate("panic", "panic/wallet-scan", "scanning a transaction panicked: %s", msg)
			return
		}
		byIdx := map[uint64]owned{}
		for _, g := range got {
			byIdx[g.outIndex] = g
		}
		for i, tr := range s.utx.outs {
			g, has := byIdx[uint64(i)]
			mine := wl.idx == tr.wallet && wl.idx >= 0
			r.c.Evals(1)
			switch {
			case mine && !has:
				r.violate("utxo-recognition", "utxo-recognition/owner-misses-output", "%s: wallet %d does not recognise/decode output %d addressed to its sub-address %d", s.desc, wl.idx, i, tr.sub)
			case !mine && has:
				r.violate("utxo-recognition", "utxo-recognition/foreign-key-set-recognises", "%s: key set %d recognises and decodes output %d, which is addressed to wallet %d", s.desc, wl.idx, i, tr.wallet)
			case mine && g.amount.Cmp(tr.amount) != 0:
				r.violate("utxo-recognition", "utxo-recognition/wrong-amount", "%s: wallet %d decodes %v from output %d, sent %v", s.desc, wl.idx, g.amount, i, tr.amount)
			case mine && g.sub != uint64(tr.sub):
				r.violate("utxo-recognition", "utxo-recognition/wrong-subaddress", "%s: wallet %d attributes output %d to sub-address %d, addressed to %d", s.desc, wl.idx, i, g.sub, tr.sub)
			}
			if r.stop {
				return
			}
		}
		if len(got) > 0 && wl.idx >= 0 {
			r.c.Probe("utxo-output-recognised")
			for _, g := range got {
				if g.sub > 0 {
					r.c.Probe("utxo-subaddress-output-recognised")
				}
			}
		}
	}
}

// afterCommitUtx: global indexes of the new outputs, wallets pick up what is theirs.
func (r *runner) afterCommitUtx(raw []byte) {
	w := r.w
	obj, err := decodeTx(raw)
	if err != nil {
		return
	}
	tx, ok := obj.(*types.UTXOTransaction)
	if !ok {
		return
	}
	base := w.utxoNext
	n := uint64(0)
	for _, out := range tx.Outputs {
		if uo, ok := out.(*types.UTXOOutput); ok {
			o, err := w.R.UtxoStore.GetUtxoOutput(common.EmptyAddress, base+n)
			if err != nil || o == nil || o.OTAddr != uo.OTAddr {
				r.trouble("output index bookkeeping: global %d is not the output just committed (%v)", base+n, err)
				return
			}
			n++
		}
	}
	w.utxoNext += n
	for _, wl := range w.wallets {
		for _, g := range wl.scan(tx) {
			w.outs = append(w.outs, &ownedOut{owned: g, wallet: wl.idx, global: base + g.outIndex})
		}
	}
}

// ---------------------------------------------------------------- tampering (object level)

type utxTamper struct {
	name string
	comp string // component of the statement's list
	ain  bool   // applies to account-input transactions
	uin  bool   // applies to ring-signed transactions
	// rct: the edit touches only the ring-confidential part (commitments,
	// encrypted amounts, proofs, ring signature)
	rct bool
	// unused: the edited field takes no part in this transaction's
	// authorisation (txid malleability only): recorded, not judged
	unused bool
	// auth: a structural edit of the spend authorisation itself (signature
	// lists, pseudo outputs, ring form); these also get a share of the draws
	// of their own
	auth  bool
	apply func(x *tamperCtx, tx *types.UTXOTransaction, tr *utxTruth) bool
}

func somePoint(x *tamperCtx) lk.Key {
	var k lk.Key
	copy(k[:], x.t.Bytes(31))
	k[0] |= 1
	return ringct.ScalarmultBase(k)
}

func firstUTXOOut(tx *types.UTXOTransaction) *types.UTXOOutput {
	for _, o := range tx.Outputs {
		if u, ok := o.(*types.UTXOOutput); ok {
			return u
		}
	}
	return nil
}

func ainOf(tx *types.UTXOTransaction) *types.AccountInput {
	if len(tx.Inputs) == 1 {
		if a, ok := tx.Inputs[0].(*types.AccountInput); ok {
			return a
		}
	}
	return nil
}

func uinOf(tx *types.UTXOTransaction) *types.UTXOInput {
	if len(tx.Inputs) >= 1 {
		if a, ok := tx.Inputs[0].(*types.UTXOInput); ok {
			return a
		}
	}
	return nil
}

var utxCatalogue = []utxTamper{
	{name: "in-nonce+1", comp: "inputs", ain: true, apply: func(x *tamperCtx, tx *types.UTXOTransaction, tr *utxTruth) bool {
		ainOf(tx).Nonce++
		return true
	}},
	{name: "in-amount-consistent", comp: "inputs", ain: true, apply: func(x *tamperCtx, tx *types.UTXOTransaction, tr *utxTruth) bool {
		// one more unit drawn from the account, declared as fee: every
		// commitment equation still holds, only the signature stands in the way
		a := ainOf(tx)
		a.Amount = new(big.Int).Add(a.Amount, new(big.Int).Mul(rate, big.NewInt(10)))
		a.Commit = types.AmountCommit(new(big.Int).Div(a.Amount, rate), a.CF)
		tx.Fee = new(big.Int).Add(tx.Fee, new(big.Int).Mul(rate, big.NewInt(10)))
		return true
	}},
	{name: "in-key-image", comp: "inputs", uin: true, apply: func(x *tamperCtx, tx *types.UTXOTransaction, tr *utxTruth) bool {
		uinOf(tx).KeyImage = somePoint(x)
		return true
	}},
	{name: "in-ring-member", comp: "inputs", uin: true, apply: func(x *tamperCtx, tx *types.UTXOTransaction, tr *utxTruth) bool {
		in := uinOf(tx)
		if len(in.KeyOffset) == 0 {
			return false
		}
		abs := uint64(0)
		for _, o := range in.KeyOffset {
			abs += o
		}
		if abs+1 >= x.w.utxoNext {
			if in.KeyOffset[0] == 0 {
				return false
			}
			in.KeyOffset[0]-- // another existing output takes the first seat
			if len(in.KeyOffset) > 1 {
				in.KeyOffset[1]++
			}
			return true
		}
		in.KeyOffset[len(in.KeyOffset)-1]++
		return true
	}},
	{name: "out-one-time-address", comp: "outputs", ain: true, uin: true, apply: func(x *tamperCtx, tx *types.UTXOTransaction, tr *utxTruth) bool {
		o := firstUTXOOut(tx)
		if o == nil {
			return false
		}
		o.OTAddr = somePoint(x) // redirect the output
		return true
	}},
	{name: "out-remark", comp: "outputs", ain: true, uin: true, apply: func(x *tamperCtx, tx *types.UTXOTransaction, tr *utxTruth) bool {
		o := firstUTXOOut(tx)
		if o == nil {
			return false
		}
		o.Remark[x.t.Int(32)] ^= byte(1 + x.t.Int(255))
		return true
	}},
	{name: "out-amount-field", comp: "outputs", ain: true, uin: true, apply: func(x *tamperCtx, tx *types.UTXOTransaction, tr *utxTruth) bool {
		o := firstUTXOOut(tx)
		if o == nil {
			return false
		}
		o.Amount = big.NewInt(int64(1 + x.t.Int(1000)))
		return true
	}},
	{name: "out-account-to", comp: "outputs", uin: true, apply: func(x *tamperCtx, tx *types.UTXOTransaction, tr *utxTruth) bool {
		for _, o := range tx.Outputs {
			if a, ok := o.(*types.AccountOutput); ok {
				u := x.w.users[x.t.Int(len(x.w.users))]
				if u.addr == a.To {
					return false
				}
				a.To = u.addr // the withdrawal goes to somebody else
				return true
			}
		}
		return false
	}},
	{name: "out-account-amount-consistent", comp: "outputs", uin: true, apply: func(x *tamperCtx, tx *types.UTXOTransaction, tr *utxTruth) bool {
		for _, o := range tx.Outputs {
			if a, ok := o.(*types.AccountOutput); ok {
				d := new(big.Int).Mul(rate, big.NewInt(10))
				if tx.Fee.Cmp(d) <= 0 {
					return false
				}
				// more for the account, less fee: every commitment equation still holds
				a.Amount = new(big.Int).Add(a.Amount, d)
				k, err := types.BigInt2Hash(new(big.Int).Div(a.Amount, rate))
				if err != nil {
					return false
				}
				a.Commit = ringct.ScalarmultH(k)
				tx.Fee = new(big.Int).Sub(tx.Fee, d)
				return true
			}
		}
		return false
	}},
	{name: "token", comp: "token", ain: true, uin: true, apply: func(x *tamperCtx, tx *types.UTXOTransaction, tr *utxTruth) bool {
		tx.TokenID = x.w.tokens[x.t.Int(len(x.w.tokens))]
		return true
	}},
	{name: "tx-key", comp: "tx-keys", ain: true, uin: true, apply: func(x *tamperCtx, tx *types.UTXOTransaction, tr *utxTruth) bool {
		tx.RKey = lk.PublicKey(somePoint(x))
		return true
	}},
	{name: "additional-keys", comp: "tx-keys", ain: true, uin: true, apply: func(x *tamperCtx, tx *types.UTXOTransaction, tr *utxTruth) bool {
		if len(tx.AddKeys) > 0 && x.t.Bool(1, 2) {
			tx.AddKeys[x.t.Int(len(tx.AddKeys))] = lk.PublicKey(somePoint(x))
		} else {
			tx.AddKeys = append(tx.AddKeys, lk.PublicKey(somePoint(x)))
		}
		return true
	}},
	{name: "fee", comp: "fee", ain: true, uin: true, apply: func(x *tamperCtx, tx *types.UTXOTransaction, tr *utxTruth) bool {
		tx.Fee = new(big.Int).Add(tx.Fee, gasPrice)
		return true
	}},
	{name: "extra", comp: "extra", ain: true, uin: true, apply: func(x *tamperCtx, tx *types.UTXOTransaction, tr *utxTruth) bool {
		tx.Extra = append(append([]byte{}, tx.Extra...), byte(1+x.t.Int(255)))
		return true
	}},
	{name: "account-sig-set", comp: "account-signature", uin: true, apply: func(x *tamperCtx, tx *types.UTXOTransaction, tr *utxTruth) bool {
		// a ring-signed transaction carries an empty account signature that the
		// ring signature's message covers
		sg := indepSign([]*item{bstr([]byte("x"))}, x.w.p, x.w.users[0].secret)
		tx.Sigs.V, tx.Sigs.R, tx.Sigs.S = sg.v, sg.r, sg.s
		return true
	}},
	// ---- ring-confidential part
	{name: "ecdh-amount", comp: "ecdh", ain: true, uin: true, rct: true, apply: func(x *tamperCtx, tx *types.UTXOTransaction, tr *utxTruth) bool {
		if len(tx.RCTSig.EcdhInfo) == 0 {
			return false
		}
		tx.RCTSig.EcdhInfo[x.t.Int(len(tx.RCTSig.EcdhInfo))].Amount[x.t.Int(8)] ^= byte(1 + x.t.Int(255))
		return true
	}},
	{name: "ecdh-mask", comp: "ecdh", ain: true, uin: true, rct: true, apply: func(x *tamperCtx, tx *types.UTXOTransaction, tr *utxTruth) bool {
		if len(tx.RCTSig.EcdhInfo) == 0 {
			return false
		}
		tx.RCTSig.EcdhInfo[x.t.Int(len(tx.RCTSig.EcdhInfo))].Mask[x.t.Int(31)] ^= byte(1 + x.t.Int(255))
		return true
	}},
	{name: "out-commitment", comp: "commitments", ain: true, uin: true, rct: true, apply: func(x *tamperCtx, tx *types.UTXOTransaction, tr *utxTruth) bool {
		if len(tx.RCTSig.OutPk) == 0 {
			return false
		}
		tx.RCTSig.OutPk[x.t.Int(len(tx.RCTSig.OutPk))].Mask = somePoint(x)
		return true
	}},
	{name: "range-proof", comp: "range-proof", ain: true, uin: true, rct: true, apply: func(x *tamperCtx, tx *types.UTXOTransaction, tr *utxTruth) bool {
		if len(tx.RCTSig.P.Bulletproofs) == 0 || len(tx.RCTSig.P.Bulletproofs[0].L) == 0 {
			return false
		}
		bp := &tx.RCTSig.P.Bulletproofs[0]
		bp.L[len(bp.L)-1][x.t.Int(32)] ^= byte(1 + x.t.Int(255))
		return true
	}},
	{name: "amounts-moved-to-one-recipient", comp: "commitments+ecdh+range-proof", ain: true, rct: true, apply: redistribute},
	{name: "pseudo-out", comp: "ring-signature", uin: true, rct: true, apply: func(x *tamperCtx, tx *types.UTXOTransaction, tr *utxTruth) bool {
		if len(tx.RCTSig.P.PseudoOuts) == 0 {
			return false
		}
		tx.RCTSig.P.PseudoOuts[0] = somePoint(x)
		return true
	}},
	{name: "mlsag-c", comp: "ring-signature", uin: true, rct: true, apply: func(x *tamperCtx, tx *types.UTXOTransaction, tr *utxTruth) bool {
		if len(tx.RCTSig.P.MGs) == 0 || len(tx.RCTSig.P.MGs[0].Ss) == 0 {
			return false
		}
		tx.RCTSig.P.MGs[0].Cc[x.t.Int(31)] ^= byte(1 + x.t.Int(255))
		return true
	}},
	{name: "mlsag-s", comp: "ring-signature", uin: true, rct: true, apply: func(x *tamperCtx, tx *types.UTXOTransaction, tr *utxTruth) bool {
		if len(tx.RCTSig.P.MGs) == 0 || len(tx.RCTSig.P.MGs[0].Ss) == 0 {
			return false
		}
		ss := tx.RCTSig.P.MGs[0].Ss
		row := ss[x.t.Int(len(ss))]
		if len(row) == 0 {
			return false
		}
		row[x.t.Int(len(row))][x.t.Int(31)] ^= byte(1 + x.t.Int(255))
		return true
	}},
	{name: "short-ring-signature", comp: "ring-signature", uin: true, rct: true, apply: func(x *tamperCtx, tx *types.UTXOTransaction, tr *utxTruth) bool {
		in := uinOf(tx)
		if in == nil || len(in.KeyOffset) != 1 || len(tx.RCTSig.P.Ss) == 0 {
			return false
		}
		if x.t.Bool(1, 2) {
			tx.RCTSig.P.Ss[0].R[x.t.Int(31)] ^= byte(1 + x.t.Int(255))
		} else {
			tx.RCTSig.P.Ss[0].C[x.t.Int(31)] ^= byte(1 + x.t.Int(255))
		}
		return true
	}},
	{name: "rct-type", comp: "ring-signature", uin: true, rct: true, apply: func(x *tamperCtx, tx *types.UTXOTransaction, tr *utxTruth) bool {
		tx.RCTSig.Type ^= byte(1 + x.t.Int(7))
		return true
	}},
	{name: "rct-fee-field", comp: "ring-signature", uin: true, rct: true, apply: func(x *tamperCtx, tx *types.UTXOTransaction, tr *utxTruth) bool {
		tx.RCTSig.TxnFee += lk.Lk_amount(1 + x.t.Int(1000))
		return true
	}},
	{name: "unused-classic-sig-in-mlsag-tx", comp: "unused", uin: true, rct: true, unused: true, apply: func(x *tamperCtx, tx *types.UTXOTransaction, tr *utxTruth) bool {
		in := uinOf(tx)
		if in == nil || len(in.KeyOffset) < 2 || len(tx.RCTSig.P.Ss) == 0 {
			return false
		}
		tx.RCTSig.P.Ss[0].C[0] ^= 1
		return true
	}},
}

// ringSize of the first confidential input (1 = short-ring form: classic ring
// signatures in P.Ss; otherwise MLSAG in P.MGs).
func ringSize(tx *types.UTXOTransaction) int {
	if in := uinOf(tx); in != nil {
		return len(in.KeyOffset)
	}
	return 0
}

func nUin(tx *types.UTXOTransaction) int {
	n := 0
	for _, in := range tx.Inputs {
		if _, ok := in.(*types.UTXOInput); ok {
			n++
		}
	}
	return n
}

func randScalar(x *tamperCtx) lk.Key {
	var k lk.Key
	copy(k[:], x.t.Bytes(31)) // < 2^248: a reduced scalar
	k[0] |= 1
	return k
}

// Structural edits of the spend authorisation of a ring-signed transaction.
// In the short-ring form the authorisation is P.Ss (one classic ring signature
// per input) and the MLSAG slots are unused; in the MLSAG form it is the
// other way round. Every edit of the used part is a forgery; an edit of the
// unused part changes the transaction id only (dynUnused).
func init() {
	ssEdit := func(name string, f func(x *tamperCtx, tx *types.UTXOTransaction) bool) utxTamper {
		return utxTamper{name: name, comp: "ring-signature", uin: true, rct: true, auth: true, apply: func(x *tamperCtx, tx *types.UTXOTransaction, tr *utxTruth) bool {
			if !f(x, tx) {
				return false
			}
			x.dynUnused = ringSize(tx) != 1
			return true
		}}
	}
	mgEdit := func(name string, lenChange bool, f func(x *tamperCtx, tx *types.UTXOTransaction) bool) utxTamper {
		return utxTamper{name: name, comp: "ring-signature", uin: true, rct: true, auth: true, apply: func(x *tamperCtx, tx *types.UTXOTransaction, tr *utxTruth) bool {
			if !f(x, tx) {
				return false
			}
			// the number of MLSAG slots is part of the format in both forms
			x.dynUnused = ringSize(tx) == 1 && !lenChange
			return true
		}}
	}
	utxCatalogue = append(utxCatalogue,
		ssEdit("ss-dropped-all", func(x *tamperCtx, tx *types.UTXOTransaction) bool {
			if len(tx.RCTSig.P.Ss) == 0 {
				return false
			}
			tx.RCTSig.P.Ss = nil
			return true
		}),
		ssEdit("ss-dropped-last", func(x *tamperCtx, tx *types.UTXOTransaction) bool {
			n := len(tx.RCTSig.P.Ss)
			if n == 0 {
				return false
			}
			tx.RCTSig.P.Ss = tx.RCTSig.P.Ss[:n-1]
			return true
		}),
		ssEdit("ss-dropped-first", func(x *tamperCtx, tx *types.UTXOTransaction) bool {
			if len(tx.RCTSig.P.Ss) == 0 {
				return false
			}
			tx.RCTSig.P.Ss = tx.RCTSig.P.Ss[1:]
			return true
		}),
		ssEdit("ss-zeroed", func(x *tamperCtx, tx *types.UTXOTransaction) bool {
			n := len(tx.RCTSig.P.Ss)
			if n == 0 {
				return false
			}
			i := x.t.Int(n)
			if tx.RCTSig.P.Ss[i] == (lk.Signature{}) {
				tx.RCTSig.P.Ss[i] = lk.Signature{C: lk.EcScalar(randScalar(x)), R: lk.EcScalar(randScalar(x))}
				return true
			}
			tx.RCTSig.P.Ss[i] = lk.Signature{}
			return true
		}),
		ssEdit("ss-swapped", func(x *tamperCtx, tx *types.UTXOTransaction) bool {
			ss := tx.RCTSig.P.Ss
			if len(ss) < 2 || ss[0] == ss[1] {
				return false
			}
			ss[0], ss[1] = ss[1], ss[0]
			return true
		}),
		ssEdit("ss-first-repeated", func(x *tamperCtx, tx *types.UTXOTransaction) bool {
			ss := tx.RCTSig.P.Ss
			if len(ss) < 2 || ss[0] == ss[1] {
				return false
			}
			ss[1] = ss[0]
			return true
		}),
		utxTamper{name: "ss-extra-appended", comp: "unused", uin: true, rct: true, unused: true, apply: func(x *tamperCtx, tx *types.UTXOTransaction, tr *utxTruth) bool {
			// a slot beyond the last input is read by nobody in either form
			tx.RCTSig.P.Ss = append(tx.RCTSig.P.Ss, lk.Signature{C: lk.EcScalar(randScalar(x)), R: lk.EcScalar(randScalar(x))})
			return true
		}},
		mgEdit("mgs-dropped-all", true, func(x *tamperCtx, tx *types.UTXOTransaction) bool {
			if len(tx.RCTSig.P.MGs) == 0 {
				return false
			}
			tx.RCTSig.P.MGs = nil
			return true
		}),
		mgEdit("mgs-dropped-last", true, func(x *tamperCtx, tx *types.UTXOTransaction) bool {
			n := len(tx.RCTSig.P.MGs)
			if n == 0 {
				return false
			}
			tx.RCTSig.P.MGs = tx.RCTSig.P.MGs[:n-1]
			return true
		}),
		mgEdit("mgs-extra-appended", true, func(x *tamperCtx, tx *types.UTXOTransaction) bool {
			n := len(tx.RCTSig.P.MGs)
			if n == 0 {
				return false
			}
			tx.RCTSig.P.MGs = append(tx.RCTSig.P.MGs, tx.RCTSig.P.MGs[n-1])
			return true
		}),
		mgEdit("mgs-rows-dropped", false, func(x *tamperCtx, tx *types.UTXOTransaction) bool {
			n := len(tx.RCTSig.P.MGs)
			if n == 0 {
				return false
			}
			i := x.t.Int(n)
			if len(tx.RCTSig.P.MGs[i].Ss) == 0 {
				// short-ring form: the slot is empty; fill it
				tx.RCTSig.P.MGs[i].Ss = lk.KeyM{lk.KeyV{randScalar(x), randScalar(x)}}
				return true
			}
			tx.RCTSig.P.MGs[i].Ss = nil
			return true
		}),
		mgEdit("mgs-row-dropped-last", false, func(x *tamperCtx, tx *types.UTXOTransaction) bool {
			n := len(tx.RCTSig.P.MGs)
			if n == 0 {
				return false
			}
			i := x.t.Int(n)
			r := len(tx.RCTSig.P.MGs[i].Ss)
			if r == 0 {
				return false
			}
			tx.RCTSig.P.MGs[i].Ss = tx.RCTSig.P.MGs[i].Ss[:r-1]
			return true
		}),
		mgEdit("mgs-column-dropped", false, func(x *tamperCtx, tx *types.UTXOTransaction) bool {
			n := len(tx.RCTSig.P.MGs)
			if n == 0 {
				return false
			}
			i := x.t.Int(n)
			rows := tx.RCTSig.P.MGs[i].Ss
			if len(rows) == 0 || len(rows[0]) < 2 {
				return false
			}
			for k := range rows {
				if len(rows[k]) > 1 {
					rows[k] = rows[k][:1] // the commitment column goes
				}
			}
			return true
		}),
		mgEdit("mgs-cc-zeroed", false, func(x *tamperCtx, tx *types.UTXOTransaction) bool {
			n := len(tx.RCTSig.P.MGs)
			if n == 0 {
				return false
			}
			i := x.t.Int(n)
			if tx.RCTSig.P.MGs[i].Cc == (lk.Key{}) {
				tx.RCTSig.P.MGs[i].Cc = randScalar(x)
				return true
			}
			tx.RCTSig.P.MGs[i].Cc = lk.Key{}
			return true
		}),
		mgEdit("mgs-swapped", false, func(x *tamperCtx, tx *types.UTXOTransaction) bool {
			mg := tx.RCTSig.P.MGs
			if len(mg) < 2 || (len(mg[0].Ss) == 0 && len(mg[1].Ss) == 0) {
				return false
			}
			mg[0], mg[1] = mg[1], mg[0]
			return true
		}),
		utxTamper{name: "mgs-and-ss-dropped", comp: "ring-signature", uin: true, rct: true, auth: true, apply: func(x *tamperCtx, tx *types.UTXOTransaction, tr *utxTruth) bool {
			tx.RCTSig.P.MGs, tx.RCTSig.P.Ss = nil, nil
			return true
		}},
		utxTamper{name: "pseudo-outs-dropped", comp: "ring-signature", uin: true, rct: true, auth: true, apply: func(x *tamperCtx, tx *types.UTXOTransaction, tr *utxTruth) bool {
			if len(tx.RCTSig.P.PseudoOuts) == 0 {
				return false
			}
			tx.RCTSig.P.PseudoOuts = tx.RCTSig.P.PseudoOuts[:len(tx.RCTSig.P.PseudoOuts)-1]
			return true
		}},
		utxTamper{name: "pseudo-outs-swapped", comp: "ring-signature", uin: true, rct: true, auth: true, apply: func(x *tamperCtx, tx *types.UTXOTransaction, tr *utxTruth) bool {
			po := tx.RCTSig.P.PseudoOuts
			if len(po) < 2 || po[0] == po[1] {
				return false
			}
			po[0], po[1] = po[1], po[0] // the sum is unchanged
			// MLSAG form: each signature is made against its own pseudo output.
			// Short-ring form: the pseudo outputs enter the verification only
			// through their sum (the other side of the listed finding
			// inflation/short-ring-pseudo-out-unbound), and the message hash of
			// this signature type does not cover them: a re-split changes the
			// transaction id and nothing else.
			x.dynUnused = ringSize(tx) == 1
			return true
		}},
		utxTamper{name: "pseudo-outs-moved-to-base-part", comp: "ring-signature", uin: true, rct: true, auth: true, apply: func(x *tamperCtx, tx *types.UTXOTransaction, tr *utxTruth) bool {
			if len(tx.RCTSig.P.PseudoOuts) == 0 {
				return false
			}
			tx.RCTSig.RctSigBase.PseudoOuts = tx.RCTSig.P.PseudoOuts
			tx.RCTSig.P.PseudoOuts = nil
			return true
		}},
		utxTamper{name: "ring-shrunk-to-short-form", comp: "inputs", uin: true, auth: true, apply: func(x *tamperCtx, tx *types.UTXOTransaction, tr *utxTruth) bool {
			// an MLSAG-signed input re-declared as a one-member ring: the verifier
			// would look for a classic signature in P.Ss (zero-filled by the builder)
			changed := false
			for _, in := range tx.Inputs {
				u, ok := in.(*types.UTXOInput)
				if !ok || len(u.KeyOffset) < 2 {
					continue
				}
				j := x.t.Int(len(u.KeyOffset))
				abs := uint64(0)
				for k := 0; k <= j; k++ {
					abs += u.KeyOffset[k]
				}
				u.KeyOffset = []uint64{abs}
				changed = true
			}
			return changed
		}},
		utxTamper{name: "ring-grown-from-short-form", comp: "inputs", uin: true, auth: true, apply: func(x *tamperCtx, tx *types.UTXOTransaction, tr *utxTruth) bool {
			changed := false
			for _, in := range tx.Inputs {
				u, ok := in.(*types.UTXOInput)
				if !ok || len(u.KeyOffset) != 1 || x.w.utxoNext < 2 {
					continue
				}
				if u.KeyOffset[0]+1 < x.w.utxoNext {
					u.KeyOffset = append(u.KeyOffset, 1)
				} else {
					u.KeyOffset = []uint64{u.KeyOffset[0] - 1, 1}
				}
				changed = true
			}
			return changed
		}},
		utxTamper{name: "input-repeated", comp: "inputs", uin: true, auth: true, apply: func(x *tamperCtx, tx *types.UTXOTransaction, tr *utxTruth) bool {
			// the same input (and its authorisation) listed twice
			u := uinOf(tx)
			if u == nil {
				return false
			}
			c := *u
			tx.Inputs = append(tx.Inputs, &c)
			if len(tx.RCTSig.P.MGs) > 0 {
				tx.RCTSig.P.MGs = append(tx.RCTSig.P.MGs, tx.RCTSig.P.MGs[0])
			}
			if len(tx.RCTSig.P.Ss) > 0 {
				tx.RCTSig.P.Ss = append(tx.RCTSig.P.Ss, tx.RCTSig.P.Ss[0])
			}
			if len(tx.RCTSig.P.PseudoOuts) > 0 {
				tx.RCTSig.P.PseudoOuts = append(tx.RCTSig.P.PseudoOuts, tx.RCTSig.P.PseudoOuts[0])
			}
			return true
		}},
		utxTamper{name: "input-dropped", comp: "inputs", uin: true, auth: true, apply: func(x *tamperCtx, tx *types.UTXOTransaction, tr *utxTruth) bool {
			if nUin(tx) < 2 {
				return false
			}
			tx.Inputs = tx.Inputs[:len(tx.Inputs)-1]
			if n := len(tx.RCTSig.P.MGs); n > 0 {
				tx.RCTSig.P.MGs = tx.RCTSig.P.MGs[:n-1]
			}
			if n := len(tx.RCTSig.P.Ss); n > 0 {
				tx.RCTSig.P.Ss = tx.RCTSig.P.Ss[:n-1]
			}
			return true
		}},
		utxTamper{name: "outpk-dropped-last", comp: "commitments", uin: true, rct: true, apply: func(x *tamperCtx, tx *types.UTXOTransaction, tr *utxTruth) bool {
			n := len(tx.RCTSig.OutPk)
			if n == 0 {
				return false
			}
			tx.RCTSig.OutPk = tx.RCTSig.OutPk[:n-1]
			return true
		}},
		utxTamper{name: "ecdh-dropped-last", comp: "ecdh", uin: true, rct: true, apply: func(x *tamperCtx, tx *types.UTXOTransaction, tr *utxTruth) bool {
			n := len(tx.RCTSig.EcdhInfo)
			if n == 0 {
				return false
			}
			tx.RCTSig.EcdhInfo = tx.RCTSig.EcdhInfo[:n-1]
			return true
		}},
		utxTamper{name: "range-proof-dropped", comp: "range-proof", uin: true, rct: true, apply: func(x *tamperCtx, tx *types.UTXOTransaction, tr *utxTruth) bool {
			if len(tx.RCTSig.P.Bulletproofs) == 0 {
				return false
			}
			tx.RCTSig.P.Bulletproofs = nil
			return true
		}},
		utxTamper{name: "range-proof-repeated", comp: "range-proof", uin: true, rct: true, apply: func(x *tamperCtx, tx *types.UTXOTransaction, tr *utxTruth) bool {
			if len(tx.RCTSig.P.Bulletproofs) == 0 {
				return false
			}
			tx.RCTSig.P.Bulletproofs = append(tx.RCTSig.P.Bulletproofs, tx.RCTSig.P.Bulletproofs[0])
			return true
		}},
	)
}

// redistribute is what a recipient of output 0 of an account->UTXO
// transaction can compute from public data and his own view of the
// transaction: all value on his output, nothing on the others; commitments,
// his own encrypted amount and the range proof rebuilt; account signature,
// inputs, outputs, keys, fee untouched.
func redistribute(x *tamperCtx, tx *types.UTXOTransaction, tr *utxTruth) bool {
	a := ainOf(tx)
	if a == nil || tr == nil || len(tr.outs) < 2 || len(tx.RCTSig.OutPk) != len(tr.outs) {
		return false
	}
	thief := x.w.wallets[tr.outs[0].wallet]
	got := thief.scan(tx)
	var mine *owned
	for i := range got {
		if got[i].outIndex == 0 {
			mine = &got[i]
		}
	}
	if mine == nil {
		return false
	}
	d, err := xcrypto.GenerateKeyDerivation(mine.rKey, thief.keys.ViewSKey)
	if err != nil {
		return false
	}
	sc, err := xcrypto.DerivationToScalar(d, 0)
	if err != nil {
		return false
	}
	n := len(tr.outs)
	masks := make([]lk.Key, n)
	amounts := make([]lk.Key, n)
	commits := make([]lk.Key, n)
	masks[0] = mine.mask
	restMask := ringct.ScSub(lk.EcScalar(a.CF), lk.EcScalar(masks[0])) // the confusion factor is public
	for i := 1; i < n; i++ {
		if i == n-1 {
			masks[i] = restMask
		} else {
			var m lk.Key
			copy(m[:], x.t.Bytes(31))
			masks[i] = m
			restMask = ringct.ScSub(lk.EcScalar(restMask), lk.EcScalar(m))
		}
	}
	all := new(big.Int).Div(new(big.Int).Sub(a.Amount, tx.Fee), rate)
	amounts[0], err = types.BigInt2Hash(all)
	if err != nil {
		return false
	}
	for i := 0; i < n; i++ {
		commits[i], _ = ringct.AddKeys2(masks[i], amounts[i], ringct.H)
		tx.RCTSig.OutPk[i].Mask = commits[i]
	}
	tx.RCTSig.EcdhInfo[0] = lk.EcdhTuple{Mask: masks[0], Amount: amounts[0]}
	ringct.EcdhEncode(&tx.RCTSig.EcdhInfo[0], lk.Key(sc), false)
	tx.RCTSig.P.Bulletproofs = []lk.Bulletproof{*forgeStandInRange(amounts, masks, commits)}
	return true
}

// mutateUtx applies one object-level edit (or one signature-value edit at
// wire level for account-input transactions).
func (x *tamperCtx) mutateUtx(wireSig []int) (wt *wireTx, name, comp string, rct, unused, ok bool) {
	s := x.orig
	isAin := s.utx != nil && s.utx.ain
	if isAin && x.t.Bool(1, 3) {
		w2, n, ok := x.mutate(wireSig)
		return w2, n, "account-signature", false, false, ok
	}
	obj, err := decodeTx(s.raw)
	if err != nil {
		return nil, "", "", false, false, false
	}
	tx := obj.(*types.UTXOTransaction)
	var cands []*utxTamper
	for i := range utxCatalogue {
		e := &utxCatalogue[i]
		if (isAin && e.ain) || (!isAin && e.uin) {
			cands = append(cands, e)
		}
	}
	e := cands[x.t.Int(len(cands))]
	if !isAin && x.t.Bool(1, 3) {
		var auth []*utxTamper
		for _, c := range cands {
			if c.auth {
				auth = append(auth, c)
			}
		}
		if len(auth) > 0 {
			e = auth[x.t.Int(len(auth))]
		}
	}
	applied := false
	x.dynUnused = false
	_, _, panicked := kernel.Try(func() { applied = e.apply(x, tx, s.utx) })
	if panicked || !applied {
		return nil, "", "", false, false, false
	}
	if x.t.Bool(1, 8) {
		// a second, independent edit of the authorisation data
		var auth []*utxTamper
		for _, c := range cands {
			if c.auth && c != e {
				auth = append(auth, c)
			}
		}
		if len(auth) > 0 && e.auth {
			e2 := auth[x.t.Int(len(auth))]
			first := x.dynUnused
			x.dynUnused = false
			ok2 := false
			if _, _, p2 := kernel.Try(func() { ok2 = e2.apply(x, tx, s.utx) }); p2 {
				return nil, "", "", false, false, false
			}
			if ok2 {
				raw := encodeTx(tx)
				w2, err := parseUtxWire(raw)
				if err != nil || bytes.Equal(raw, s.raw) {
					return nil, "", "", false, false, false
				}
				// both edits must be of unused data for the pair to be unused
				return w2, e.name + "+" + e2.name, e.comp, e.rct && e2.rct, (e.unused || first) && (e2.unused || x.dynUnused), true
			}
			x.dynUnused = first
		}
	}
	raw := encodeTx(tx)
	if bytes.Equal(raw, s.raw) {
		return nil, "", "", false, false, false
	}
	w2, err := parseUtxWire(raw)
	if err != nil {
		return nil, "", "", false, false, false
	}
	return w2, e.name, e.comp, e.rct, e.unused || x.dynUnused, true
}
