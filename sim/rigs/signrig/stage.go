package signrig

import (
	"fmt"

	"github.com/lianxiangcloud/linkchain/libs/common"
	"github.com/lianxiangcloud/linkchain/types"

	"verif/sim/kernel"
	"verif/sim/simnode"
)

func short(a addr20) string { return fmt.Sprintf("%x", a[:4]) }

// addTx hands a decoded transaction to a mempool the way the reactor does.
func (r *runner) addTx(ch *simnode.Chain, tx types.Tx) (err error, panicked bool) {
	ch.RegisterRate()
	site, msg, p := kernel.Try(func() { err = ch.Mempool.AddTx("peer", tx) })
	if p {
		r.violate("panic", "panic/"+site, "Mempool.AddTx panicked: %s", msg)
		return fmt.Errorf("panic"), true
	}
	return err, false
}

// senderKind: kinds whose sender is recovered from a signature.
func senderKind(k txKind, wt *wireTx) bool {
	switch k {
	case kTx, kCreate, kTxt:
		return true
	case kUtx:
		return wt != nil && utxHasAccountInput(wt)
	}
	return false
}

// judgeAccept applies the statement to a transaction the chain has accepted
// (mempool admission, or a block that the replica found valid). tm is nil for
// a transaction as its submitter signed it.
func (r *runner) judgeAccept(stage string, kind txKind, name string, v verdict, obj types.Tx, tm *tampered) {
	from, ferr := obj.From()

	// "changing any signed field yields a different sender or a rejection":
	// the edited transaction is accepted and still attributed to the original
	// signer.
	if tm != nil && tm.field && senderKind(kind, tm.wt) {
		if ov := r.w.judge(tm.src.w); ov.ok && !ov.nobody && ferr == nil && addr20(from) == ov.chargee {
			key := fmt.Sprintf("field-unsigned/%s/%s", kind, tm.comp)
			if kind == kUtx && tm.rct {
				key = "utxo/account-input-rctsig-unsigned"
			}
			r.violate("field-unsigned", key, "%s: %s transaction with %s changed after signing (%s) is accepted and still attributed to the original signer %x: no signature covers that part", stage, kind, tm.comp, name, from[:])
			return
		}
	}
	switch {
	case v.ok && v.nobody:
		// ring-signed, built by the owner: nothing to attribute
	case v.ok:
		if ferr != nil || addr20(from) != v.chargee {
			r.violate("sender-mismatch", "sender-mismatch/"+kind.String(),
				"%s: %s transaction (%s) accepted; the chain takes %x (err=%v) as sender, the signature recovers %x", stage, kind, name, from[:], ferr, v.chargee[:])
		}
	case v.unbound && kind != kCut:
		if v.altOK && ferr == nil && addr20(from) == v.alt {
			class, key := v.key(kind)
			r.violate(class, key, "%s: %s transaction (%s) accepted and attributed to %x, the key that signed these fields for %s — not for this chain (parameter %v)",
				stage, kind, name, from[:], map[bool]string{true: "no chain at all (legacy V 27/28)", false: "another chain"}[v.legacy], r.w.p)
		}
		// otherwise: a different sender, allowed by the statement
	case kind == kUtx && tm != nil && tm.unused:
		// a field that takes no part in the authorisation (transaction id
		// malleability): recorded only
		r.c.Probe("utxo-unused-field-edit-accepted")
	case kind == kUtx && tm != nil && tm.scratch:
		r.violate("utxo-forgery", "utxo-forgery/"+tm.comp, "%s: a confidential spend written without any key of the outputs it consumes (%s; %s) is accepted: the outputs are spent without the destination's keys", stage, name, tm.src.desc)
	case kind == kUtx && v.reason == "edited-ring-signed-transaction":
		comp := "unknown"
		if tm != nil {
			comp = tm.comp
		}
		r.violate("utxo-forgery", "utxo-forgery/"+comp, "%s: ring-signed transaction with %s changed after signing (%s) accepted", stage, comp, name)
	default:
		class, key := v.key(kind)
		r.violate(class, key, "%s: %s transaction (%s) accepted although not authorised: %s (chain's sender %x)", stage, kind, name, v.reason, from[:])
	}
}

func outcome(dec, acc bool) string {
	switch {
	case !dec:
		return "undecodable"
	case acc:
		return "accepted"
	}
	return "refused"
}

func storeFrom(tx types.Tx, a common.Address) bool {
	switch t := tx.(type) {
	case *types.Transaction:
		t.StoreFrom(a)
	case *types.TokenTransaction:
		t.StoreFrom(a)
	case *types.UTXOTransaction:
		t.StoreFrom(a)
	default:
		return false
	}
	return true
}

func warmth(b bool) string {
	if b {
		return "warm"
	}
	return "cold"
}

// round = one height.
func (r *runner) round(round int, honest []*sent, forged []*tampered) {
	c, w := r.c, r.w
	rec := roundRec{MemOutcome: map[string]int{}}
	pSent := map[types.Tx]*sent{} // P's object -> submission
	warm := map[*sent]bool{}      // submitted to (and kept by) R's mempool

	// 1. submissions
	for _, s := range honest {
		v := w.judge(s.w)
		rec.Honest = append(rec.Honest, s.kind.String())
		if s.kind == kUtx {
			r.checkRecognition(s)
			if r.stop {
				return
			}
		}
		obj, err := decodeTx(s.raw)
		if err != nil {
			r.trouble("own transaction does not decode: %v (%s)", err, s.desc)
			return
		}
		err, _ = r.addTx(w.P, obj)
		if r.stop {
			return
		}
		c.Event(1)
		if err == nil {
			pSent[obj] = s
			r.judgeAccept("producer mempool", s.kind, "as signed", v, obj, nil)
			if s.indep {
				c.Probe("indep-client-accepted")
			}
			if s.kind == kUtx {
				c.Probe(map[bool]string{true: "utxo-fund-admitted", false: "utxo-spend-admitted"}[s.utx.ain])
			}
		} else {
			if v.ok {
				c.Probe("authorised-refused-" + s.kind.String())
				if s.kind == kUtx {
					for _, o := range s.utx.spent {
						o.pending = false
					}
				}
			} else {
				c.Probe("unauthorised-submission-refused")
			}
		}
		if r.wl.Bool(1, 2) {
			objR, _ := decodeTx(s.raw)
			errR, _ := r.addTx(w.R, objR)
			if r.stop {
				return
			}
			if errR == nil {
				warm[s] = true
				r.judgeAccept("replica mempool", s.kind, "as signed", v, objR, nil)
			}
		}
		if r.stop {
			return
		}
	}

	// 2. tampering on the way to the replica's mempool
	tams := append([]*tampered{}, forged...)
	if r.utxo && w.utxoNext > 0 {
		for k, n := 0, 1+r.tm.Int(2); k < n; k++ {
			if th := r.genTheft(r.tm); th != nil {
				tams = append(tams, th)
				c.Probe("theft-built")
			}
		}
	}
	idxOf := map[txKind][]int{}
	for k := txKind(0); k < nKinds; k++ {
		idxOf[k] = applicable(k)
	}
	for i := 0; i < r.cfg.MemT && len(honest) > 0 && !r.stop; i++ {
		s := honest[r.tm.Int(len(honest))]
		if s.kind != kUtx && r.hasUtx(honest) && r.tm.Bool(1, 3) { // keep the confidential transactions well covered
			s = r.pickUtx(honest)
		}
		x := &tamperCtx{w: w, t: r.tm, orig: s, others: honest}
		tm := &tampered{src: s}
		var ok bool
		if s.kind == kUtx {
			tm.wt, tm.name, tm.comp, tm.rct, tm.unused, ok = x.mutateUtx(idxOf[kUtx])
			tm.field = ok && tm.comp != "account-signature"
		} else {
			tm.wt, tm.name, tm.field, ok = x.mutateF(idxOf[s.kind])
			tm.comp = tm.name
		}
		if !ok {
			continue
		}
		tm.raw = tm.wt.bytes()
		tm.v = w.judge(tm.wt)
		tams = append(tams, tm)
	}
	for _, tm := range tams {
		if r.stop {
			return
		}
		if tm.ghost {
			continue
		}
		s := tm.src
		obj, derr := decodeTx(tm.raw)
		acc := false
		if derr == nil {
			if o0, e0 := decodeTx(s.raw); !tm.scratch && e0 == nil && o0.Hash() == obj.Hash() {
				tm.sameH = true
				c.Probe("tampered-same-tx-hash")
			}
			st := &lookState{}
			stage := "replica mempool (cache " + warmth(warm[s]) + ")"
			if r.history(stage, w.R, obj, s.kind, tm.name, tm.v, tm, st, true) {
				tm.memAcc = true
			}
			if r.stop {
				return
			}
			err, _ := r.addTx(w.R, obj)
			if r.stop {
				return
			}
			acc = err == nil
			if acc {
				tm.memAcc = true
				r.judgeAccept(stage, s.kind, tm.name, tm.v, obj, tm)
			}
			// and what the object says about its sender afterwards
			st.trail = append(st.trail, "AddTx")
			r.fromLook(stage+" after the submission", s.kind, tm.name, tm.v, obj, tm, st)
			if r.stop {
				return
			}
		}
		c.Evals(1)
		r.memJudged++
		rec.MemOffered++
		oc := outcome(derr == nil, acc)
		rec.MemOutcome[oc]++
		c.Finger("m", tm.name, oc)
		if acc && tm.v.ok {
			c.Probe("tampered-admitted-as-other-sender")
		}
		if hotTamper[tm.name] {
			c.Probe("offered/twin/" + tm.name + "/" + s.kind.String())
		}
		switch {
		case s.kind == kUtx:
			c.Probe("utxo-tampered-judged")
			c.Probe("offered/utxo-" + tm.comp)
			if tm.comp == "ring-signature" && s.utx != nil && s.utx.ring > 0 && !tm.unused {
				c.Probe("offered/utxo-ring-signature/" + map[bool]string{true: "short-ring", false: "mlsag"}[s.utx.ring == 1] + map[bool]string{true: "/two-inputs", false: ""}[len(s.utx.spent) > 1])
			}
		case tm.field:
			c.Probe("offered/field-" + s.kind.String())
		default:
			c.Probe("offered/signature-" + s.kind.String())
		}
	}
	if r.stop {
		return
	}

	// 3. the producer's honest block
	w.P.RegisterRate()
	reaped := w.P.Mempool.Reap(10000)
	var txs types.Txs
	var raws [][]byte
	var subs []*sent
	for _, tx := range reaped {
		s := pSent[tx]
		if s == nil {
			s = r.carry[tx] // left over from an earlier round
		}
		if s == nil {
			r.trouble("producer reaped a transaction the rig did not submit")
			return
		}
		txs = append(txs, tx)
		raws = append(raws, s.raw)
		subs = append(subs, s)
	}
	for tx, s := range pSent {
		r.carry[tx] = s
	}
	honestBlk, ok, why := w.assemble(txs)
	if !ok {
		r.trouble("producer cannot execute its own mempool's block: %s", why)
		return
	}
	rec.Height = honestBlk.Height

	// 4. tampered blocks offered to the replica
	r.variants(round, tams, txs, raws, subs, warm)
	if r.stop {
		return
	}

	// 4b. blocks verified while a forged transaction of theirs is inside the replica's AddTx
	r.inflight(round, tams, honest, txs, subs, warm)
	if r.stop {
		return
	}

	// 5. commit: the ghost block when the replica (correctly) took it, else the honest one
	commitBlk, commitRaws, commitSubs := honestBlk, raws, subs
	if r.ghostBlk != nil {
		commitBlk, commitRaws = r.ghostBlk, r.ghostRaws
		commitSubs = append([]*sent{}, subs...)
		for i := range commitSubs {
			if commitSubs[i] == r.ghostSrc {
				commitSubs[i] = nil
			}
		}
		r.ghostBlk, r.ghostRaws = nil, nil
		rec.Ghost = true
	}
	r.commit(commitBlk, commitRaws, commitSubs)
	r.smp.Rounds = append(r.smp.Rounds, rec)
}

func (r *runner) hasUtx(ss []*sent) bool {
	for _, s := range ss {
		if s.kind == kUtx {
			return true
		}
	}
	return false
}

func (r *runner) pickUtx(ss []*sent) *sent {
	var u []*sent
	for _, s := range ss {
		if s.kind == kUtx {
			u = append(u, s)
		}
	}
	return u[r.tm.Int(len(u))]
}

// variants offers blocks carrying one tampered transaction each.
func (r *runner) variants(round int, tams []*tampered, txs types.Txs, raws [][]byte, subs []*sent, warm map[*sent]bool) {
	c, w := r.c, r.w
	// order: forced ones first (ghost, same-hash), then unauthorised, then the rest
	var pick []*tampered
	if round == 1 && r.ghost != nil {
		pick = append(pick, r.ghost)
	}
	var una, aut []*tampered
	for _, t := range tams {
		switch {
		case t.ghost:
		case t.sameH:
			pick = append(pick, t)
		case !t.v.ok || (t.field && t.rct):
			una = append(una, t)
		default:
			aut = append(aut, t)
		}
	}
	for len(pick) < r.cfg.BlkT && (len(una) > 0 || len(aut) > 0) {
		from := &una
		if len(una) == 0 || (len(aut) > 0 && r.tm.Bool(1, 3)) {
			from = &aut
		}
		i := r.tm.Int(len(*from))
		pick = append(pick, (*from)[i])
		*from = append((*from)[:i:i], (*from)[i+1:]...)
	}

	for _, t := range pick {
		if r.stop {
			return
		}
		// position of the original in the honest list
		pos := -1
		for i, s := range subs {
			if s == t.src {
				pos = i
			}
		}
		obj, err := decodeTx(t.raw)
		if err != nil {
			c.Probe("variant-undecodable")
			continue
		}
		list := append(types.Txs{}, txs...)
		if pos >= 0 {
			list[pos] = obj
		} else {
			list = append(list, obj)
		}
		mode := "honest-result"
		victim := addr20{}
		hasVictim := false
		if !t.ghost && t.src.holder != nil && t.src.kind != kCut && !t.v.ok && r.tm.Bool(1, 4) {
			// the proposer names another funded account (the zero address when
			// it is funded) as the sender in its own execution
			alt := r.funded[r.tm.Int(len(r.funded))].addr
			if r.zeroFunded && r.tm.Bool(1, 2) {
				alt = common.Address{}
			}
			if storeFrom(obj, alt) {
				victim, hasVictim, mode = addr20(alt), true, "other-account-result"
			}
		} else if !t.ghost && t.src.holder != nil {
			if t.src.kind == kCut {
				// the producer's execution does not look at upgrade signatures:
				// the result hashes already charge the address in the from field
				copy(victim[:], t.wt.body.kids[0].kids[0].str)
				hasVictim, mode = true, "victim-result"
			} else if storeFrom(obj, t.src.holder.addr) {
				victim, hasVictim, mode = t.src.holder.a20, true, "victim-result"
			}
		}
		vr := variantRec{Round: round, Tamper: t.name, Kind: t.src.kind.String(), Mode: mode, Warm: warm[t.src], Verdict: "authorised"}
		if !t.v.ok {
			vr.Verdict = t.v.reason
		}
		blk, built, _ := w.assemble(list)
		vr.Built = built
		if !built {
			c.Probe("variant-producer-cannot-execute")
			c.Finger("v", t.name, mode, "unbuilt")
			r.smp.Variants = append(r.smp.Variants, vr)
			continue
		}
		st := &lookState{}
		lookStage := fmt.Sprintf("block at height %d (%s, cache %s) as received", blk.Height, mode, warmth(warm[t.src]))
		pick := func(nb *types.Block) types.Tx {
			if pos >= 0 {
				return nb.Data.Txs[pos]
			}
			return nb.Data.Txs[len(nb.Data.Txs)-1]
		}
		nb, _, accepted, err := w.checkOnLooks(w.R, blk, func(nb *types.Block) {
			// what the receiving node does with the decoded object before it verifies the block
			r.history(lookStage, w.R, pick(nb), t.src.kind, t.name, t.v, t, st, !t.v.ok)
		})
		if r.stop {
			return
		}
		if err != nil {
			c.Probe("variant-block-undecodable")
			continue
		}
		st.trail = append(st.trail, "CheckBlock")
		r.fromLook(lookStage+" after CheckBlock", t.src.kind, t.name, t.v, pick(nb), t, st)
		if r.stop {
			return
		}
		vr.Accepted = accepted
		r.blkJudged++
		if warm[t.src] {
			r.warmJudged++
			c.Probe("variant-warm-cache")
		} else {
			c.Probe("variant-cold-cache")
		}
		if t.src.kind == kUtx {
			c.Probe("utxo-variant-judged")
		}
		if t.scratch {
			c.Probe("theft-variant-judged")
		}
		c.Evals(1)
		c.Finger("v", t.name, mode, accepted)
		r.smp.Variants = append(r.smp.Variants, vr)
		if !accepted {
			continue
		}
		// the replica found the block valid
		stage := fmt.Sprintf("block at height %d (%s, cache %s)", blk.Height, mode, warmth(warm[t.src]))
		var robj types.Tx
		if pos >= 0 {
			robj = nb.Data.Txs[pos]
		} else {
			robj = nb.Data.Txs[len(nb.Data.Txs)-1]
		}
		r.judgeAccept(stage, t.src.kind, t.name, t.v, robj, t)
		if r.stop {
			return
		}
		if t.field && t.rct && t.src.kind == kUtx {
			continue // judged (relational rule); the sender is unchanged by construction
		}
		if hasVictim && (!t.v.ok || t.v.chargee != victim) {
			// the result hashes in this block were computed with the victim as
			// sender; the replica reproduced them, i.e. it charged the victim
			who := "nobody (not authorised: " + t.v.reason + ")"
			if t.v.ok {
				who = fmt.Sprintf("%x", t.v.chargee[:])
			}
			class, key := "charged-not-signer", "charged-not-signer/"+t.src.kind.String()
			if !t.v.ok {
				class, key = t.v.key(t.src.kind)
			}
			r.violate(class, key, "%s: replica accepted a block whose results charge %x for a %s transaction (%s) that %s signed", stage, victim[:], t.src.kind, t.name, who)
			continue
		}
		if !t.v.ok {
			continue
		}
		// authorised and valid: a legitimate block. Commit it instead of the
		// honest one when the producer agrees (keeps P and R together).
		if t.ghost {
			c.Probe("ghost-block-accepted")
			if _, _, pa, _ := w.checkOn(w.P, blk); pa {
				gr := append([][]byte{}, raws...)
				if pos >= 0 {
					gr[pos] = t.raw
				} else {
					gr = append(gr, t.raw)
				}
				r.ghostBlk, r.ghostRaws = blk, gr
			}
		}
	}
}

// commit runs CheckBlock+CommitBlock of blk on R and P and checks the state
// movement against the oracle's senders of the transactions in it.
func (r *runner) commit(blk *types.Block, raws [][]byte, subs []*sent) {
	c, w := r.c, r.w
	nbR, partsR, accR, err := w.checkOn(w.R, blk)
	if err != nil {
		r.trouble("block wire round trip: %v", err)
		return
	}
	nbP, partsP, accP, _ := w.checkOn(w.P, blk)
	if !accP {
		r.trouble("producer refuses its own block at height %d", blk.Height)
		return
	}
	if !accR {
		r.trouble("replica refuses the producer's block at height %d (%d txs)", blk.Height, len(raws))
		return
	}

	// the oracle's senders
	type want struct {
		kind txKind
		v    verdict
		wt   *wireTx
	}
	var wants []want
	watch := map[addr20]bool{addr20(types.MultiSignNonceAddr): true}
	for _, u := range w.users {
		watch[u.a20] = true
	}
	if r.ghost != nil {
		watch[r.ghost.v.chargee] = true
	}
	if r.zeroFunded {
		watch[addr20{}] = true
	}
	expect := map[addr20]uint64{}
	for i, raw := range raws {
		kind, ok := r.kindOf(raw)
		if !ok {
			r.trouble("unknown prefix in own block")
			return
		}
		wt, err := parseWire(kind, raw)
		if err != nil {
			r.trouble("own block tx %d unparsable: %v", i, err)
			return
		}
		v := w.judge(wt)
		wants = append(wants, want{kind, v, wt})
		r.judgeAccept(fmt.Sprintf("committed block %d", blk.Height), kind, "tx "+fmt.Sprint(i), v, nbR.Data.Txs[i], nil)
		if r.stop {
			return
		}
		if v.ok && !v.nobody {
			expect[v.chargee]++
			watch[v.chargee] = true
		}
		if v.altOK {
			watch[v.alt] = true
		}
	}
	addrs := sortedAddrs(watch)
	before := w.snapshot(w.R, addrs)
	if err := w.commitOn(w.R, nbR, partsR); err != nil {
		r.trouble("replica CommitBlock: %v", err)
		return
	}
	if err := w.commitOn(w.P, nbP, partsP); err != nil {
		r.trouble("producer CommitBlock: %v", err)
		return
	}
	after := w.snapshot(w.R, addrs)
	r.committed++
	c.Event(len(raws))
	c.Finger("b", nbR.Hash().Hex(), len(raws))

	for _, a := range addrs {
		b, af := before[a], after[a]
		dn := af.nonce - b.nonce
		if dn != expect[a] {
			r.violate("charged-not-signer", "charged-not-signer/nonce",
				"block %d: nonce of %x moved by %d, but the transactions in the block authorise %d from it (signers per oracle: %v)", blk.Height, a[:], int64(dn), expect[a], func() []string {
					var s []string
					for _, x := range wants {
						s = append(s, x.kind.String()+":"+short(x.v.chargee))
					}
					return s
				}())
			if r.stop {
				return
			}
		}
		if expect[a] == 0 {
			if af.bal.Cmp(b.bal) < 0 {
				r.violate("charged-not-signer", "charged-not-signer/balance", "block %d: balance of %x fell from %v to %v although it signed nothing in the block", blk.Height, a[:], b.bal, af.bal)
			}
			for ti := range w.tokens {
				if af.tok[ti].Cmp(b.tok[ti]) < 0 {
					r.violate("charged-not-signer", "charged-not-signer/token", "block %d: token %d balance of %x fell from %v to %v although it signed nothing in the block", blk.Height, ti, a[:], b.tok[ti], af.tok[ti])
				}
			}
			if r.stop {
				return
			}
		}
	}
	c.Evals(len(addrs))

	// model updates from what was committed
	receipts := w.R.BlockStore.GetReceipts(nbR.Height)
	for i, x := range wants {
		switch x.kind {
		case kMst:
			if x.v.ok {
				if _, model, typ, ok := mstMessage(x.wt.body.kids[0]); ok {
					w.signers[typ] = model
					c.Probe("signer-list-set")
				}
			}
		case kCreate:
			if receipts != nil && i < len(*receipts) {
				rc := (*receipts)[i]
				if rc.Status == types.ReceiptStatusSuccessful && rc.ContractAddress != (common.Address{}) {
					w.contracts = append(w.contracts, rc.ContractAddress)
					c.Probe("contract-created")
				}
			}
		case kCut:
			c.Probe("upgrade-committed")
		case kUtx:
			r.afterCommitUtx(raws[i])
			if r.stop {
				return
			}
			if i < len(subs) && subs[i] != nil && subs[i].utx != nil {
				if sp := subs[i].utx.spent; len(sp) > 0 {
					for _, o := range sp {
						o.spent, o.pending = true, false
					}
					c.Probe("utxo-spend-committed")
					if len(sp) > 1 {
						c.Probe("utxo-two-input-spend-committed")
					}
					if subs[i].utx.withdraw {
						c.Probe("utxo-withdraw-to-account-committed")
					}
				} else {
					c.Probe("utxo-fund-committed")
				}
			}
		}
		if x.v.ok && !x.v.nobody {
			if _, isUser := w.byAddr[x.v.chargee]; !isUser && x.kind != kMst {
				c.Probe("different-sender-charged")
			}
		}
	}
	// resynchronise the generator's nonces with the chain
	for _, u := range w.users {
		r.nonce[u.a20] = after[u.a20].nonce
	}
	r.mstNonce = after[addr20(types.MultiSignNonceAddr)].nonce
	// transactions still pending at the producer keep their nonces reserved
	for _, tx := range w.P.Mempool.Reap(10000) {
		if s := r.carry[tx]; s != nil && w.judge(s.w).ok {
			if s.holder != nil {
				r.nonce[s.holder.a20]++
			} else if s.kind == kMst {
				r.mstNonce++
			}
		}
	}
}

func (r *runner) kindOf(raw []byte) (txKind, bool) {
	if len(raw) < 8 {
		return 0, false
	}
	for k := txKind(0); k < nKinds; k++ {
		if k == kCreate {
			continue
		}
		if string(prefixes[k]) == string(raw[:7]) {
			if k == kTx {
				if body, err := rlpDecode(raw[7:]); err == nil && body.list && len(body.kids) == 9 && len(body.kids[3].str) == 0 {
					return kCreate, true
				}
			}
			return k, true
		}
	}
	return 0, false
}
