package signrig

import (
	"fmt"
	"math/big"
	"sync"
	"testing/synctest"

	"github.com/lianxiangcloud/linkchain/libs/common"
	mempl "github.com/lianxiangcloud/linkchain/mempool"
	"github.com/lianxiangcloud/linkchain/types"

	"verif/sim/kernel"
)

// The in-flight scenario: block verification on the replica while a forged
// transaction of that very block is INSIDE the replica's Mempool.AddTx.
//
// Mempool.AddTx puts the transaction into the seen-cache first, then asks the
// application for the basic check (signatures, ring signatures, multi
// signatures), and only then marks the entry as checked or deletes it. Block
// verification (CheckBlock: verifySpecTxSign, verifyTxsOnProcess) consults the
// same cache to skip work for transactions the pool has already checked. The
// simulator owns the interleaving: the adding goroutine is parked inside the
// mempool.App wrapper at CheckTx(tx, BasicCheck) — after the cache insert,
// before the entry is marked or deleted, and (read off Mempool.AddTx) before
// the pool lock is taken, so the goroutine holds no lock of the mempool and the
// wrapper holds none of its own while waiting. While it is parked the driver
// runs the real CheckBlock of a block that carries the forged transaction.

type parkPoint int

const (
	parkNone   parkPoint = iota // AddTx runs through (block verified after it has returned)
	parkBefore                  // parked before the application's basic check has run
	parkAfter                   // parked after the basic check has returned, before AddTx acts on the result
)

func (p parkPoint) String() string {
	return [...]string{"after-addtx-returned", "parked-before-basic-check", "parked-after-basic-check"}[p]
}

type flight struct {
	tx      types.Tx
	at      parkPoint
	release chan struct{}

	mu      sync.Mutex
	parked  bool
	done    bool
	basic   error // what the application's basic check said
	ran     bool  // the basic check has run
	err     error // what AddTx returned
	paniced string
	site    string
}

func (f *flight) set(fn func()) {
	f.mu.Lock()
	fn()
	f.mu.Unlock()
}

func (f *flight) state() (parked, done bool) {
	f.mu.Lock()
	defer f.mu.Unlock()
	return f.parked, f.done
}

// parkApp wraps the replica's mempool.App. Only the transaction object of the
// current flight is ever parked; everything else passes through.
type parkApp struct {
	inner mempl.App
	mu    sync.Mutex
	cur   *flight
}

var _ mempl.App = (*parkApp)(nil)

func (p *parkApp) GetNonce(a common.Address) uint64     { return p.inner.GetNonce(a) }
func (p *parkApp) GetBalance(a common.Address) *big.Int { return p.inner.GetBalance(a) }

func (p *parkApp) CheckTx(tx types.Tx, basic bool) error {
	p.mu.Lock()
	f := p.cur
	p.mu.Unlock()
	if !basic || f == nil || f.tx != tx {
		return p.inner.CheckTx(tx, basic)
	}
	if f.at == parkBefore {
		f.set(func() { f.parked = true })
		<-f.release
		f.set(func() { f.parked = false })
	}
	err := p.inner.CheckTx(tx, basic)
	f.set(func() { f.basic, f.ran = err, true })
	if f.at == parkAfter {
		f.set(func() { f.parked = true })
		<-f.release
		f.set(func() { f.parked = false })
	}
	return err
}

func (r *runner) installPark() {
	r.park = &parkApp{inner: r.w.R.App}
	r.w.R.Mempool.SetApp(r.park)
}

// launch starts AddTx(tx) on the replica on a goroutine of its own and lets it
// run to its park point (or to completion).
func (r *runner) launch(tx types.Tx, at parkPoint) *flight {
	f := &flight{tx: tx, at: at, release: make(chan struct{})}
	r.park.mu.Lock()
	r.park.cur = f
	r.park.mu.Unlock()
	r.w.R.RegisterRate()
	mem := r.w.R.Mempool
	go func() {
		var err error
		site, msg, p := kernel.Try(func() { err = mem.AddTx("peer", tx) })
		f.set(func() {
			f.err, f.done = err, true
			if p {
				f.paniced, f.site = msg, site
			}
		})
	}()
	synctest.Wait()
	return f
}

// land releases the flight and waits for AddTx to return.
func (r *runner) land(f *flight) {
	for i := 0; i < 3; i++ {
		parked, done := f.state()
		if done {
			break
		}
		if parked {
			f.release <- struct{}{}
		}
		synctest.Wait()
	}
	r.park.mu.Lock()
	r.park.cur = nil
	r.park.mu.Unlock()
}

type flightRec struct {
	Round    int    `json:"round"`
	Tamper   string `json:"tamper"`
	Kind     string `json:"kind"`
	When     string `json:"block_verified"`
	Verdict  string `json:"oracle"`
	Basic    string `json:"basic_check"`
	Accepted bool   `json:"replica_accepted_block"`
}

// inflight runs 1-3 in-flight scenarios of the round. txs/raws/subs is the
// producer's honest list.
func (r *runner) inflight(round int, tams []*tampered, honest []*sent, txs types.Txs, subs []*sent, warm map[*sent]bool) {
	w := r.w
	t := r.fl

	// candidates: forgeries (unauthorised per oracle) that decode. The kinds
	// whose authorisation block verification may take from the pool's cache
	// come first: ring-signed confidential spends and validator-signed
	// multi-sign transactions; then everything else.
	var prime, rest []*tampered
	addCand := func(tm *tampered) {
		if tm.ghost || tm.unused || tm.v.ok || (tm.field && tm.rct && senderKind(tm.src.kind, tm.wt)) {
			return
		}
		if tm.memAcc {
			return // the pool keeps it (a listed known finding): AddTx would only report a duplicate
		}
		switch {
		case tm.src.kind == kMst, tm.src.kind == kUtx && !utxHasAccountInput(tm.wt):
			prime = append(prime, tm)
		default:
			rest = append(rest, tm)
		}
	}
	for _, tm := range tams {
		addCand(tm)
	}
	// make sure the prime kinds are represented when the round has such transactions
	if len(prime) < 2 {
		idx := map[txKind][]int{kMst: applicable(kMst), kUtx: applicable(kUtx)}
		for _, s := range honest {
			if s.kind != kMst && !(s.kind == kUtx && s.utx != nil && !s.utx.ain) {
				continue
			}
			for tries := 0; tries < 4; tries++ {
				x := &tamperCtx{w: w, t: t, orig: s, others: honest}
				tm := &tampered{src: s}
				var ok bool
				if s.kind == kUtx {
					tm.wt, tm.name, tm.comp, tm.rct, tm.unused, ok = x.mutateUtx(idx[kUtx])
					tm.field = ok
				} else {
					tm.wt, tm.name, tm.field, ok = x.mutateF(idx[kMst])
					tm.comp = tm.name
				}
				if !ok {
					continue
				}
				tm.raw = tm.wt.bytes()
				tm.v = w.judge(tm.wt)
				n := len(prime)
				addCand(tm)
				if len(prime) > n {
					break
				}
			}
		}
	}
	n := 1 + t.Int(3)
	for k, tries := 0, 0; k < n && tries < n+4 && !r.stop && (len(prime) > 0 || len(rest) > 0); tries++ {
		from := &prime
		if len(prime) == 0 || (len(rest) > 0 && t.Bool(1, 4)) {
			from = &rest
		}
		i := t.Int(len(*from))
		tm := (*from)[i]
		*from = append((*from)[:i:i], (*from)[i+1:]...)
		if r.oneFlight(round, tries, tm, txs, subs, warm) {
			k++
		}
	}
}

// oneFlight: false when the scenario could not be set up (the producer cannot
// execute a block with this forgery, so there is nothing to offer).
func (r *runner) oneFlight(round, k int, tm *tampered, txs types.Txs, subs []*sent, warm map[*sent]bool) bool {
	c, w, t := r.c, r.w, r.fl
	at := parkPoint(t.Pick(1, 5, 5))
	// when, relative to the flight, the replica verifies the block
	//   0: before AddTx is called at all (the pool has never seen it)
	//   1: while parked (or, with parkNone, after AddTx has returned)
	when := 1
	if t.Bool(1, 10) {
		when = 0
	}

	pos := -1
	for i, s := range subs {
		if s == tm.src {
			pos = i
		}
	}
	blockObj, err := decodeTx(tm.raw)
	if err != nil {
		c.Probe("flight-undecodable")
		return false
	}
	// the proposer is the attacker: its result hashes charge the victim
	if tm.src.holder != nil && tm.src.kind != kCut {
		storeFrom(blockObj, tm.src.holder.addr)
	}
	poolObj, _ := decodeTx(tm.raw) // the pool's copy is an object of its own, as when it arrives from a peer
	list := append(types.Txs{}, txs...)
	if pos >= 0 {
		list[pos] = blockObj
	} else {
		list = append(list, blockObj)
	}
	// a block of its own: the variants of this round may have carried the same
	// transaction list, and the application memoises verdicts per block hash
	w.now += uint64(1 + k)
	blk, built, _ := w.assemble(list)
	w.now -= uint64(1 + k)
	rec := flightRec{Round: round, Tamper: tm.name, Kind: tm.src.kind.String(), Verdict: tm.v.reason}
	if !built {
		c.Probe("flight-producer-cannot-execute")
		return false
	}

	bst := &lookState{}
	verify := func(stage string) bool {
		nb, _, accepted, err := w.checkOnLooks(w.R, blk, func(nb *types.Block) {
			o := nb.Data.Txs[len(nb.Data.Txs)-1]
			if pos >= 0 {
				o = nb.Data.Txs[pos]
			}
			r.history(fmt.Sprintf("block at height %d as received (%s)", blk.Height, stage), w.R, o, tm.src.kind, tm.name, tm.v, tm, bst, false)
		})
		if r.stop {
			return false
		}
		if err != nil {
			c.Probe("flight-block-undecodable")
			return false
		}
		c.Evals(1)
		r.flightJudged++
		rec.Accepted = accepted
		c.Finger("f", tm.name, stage, accepted)
		if !accepted {
			return false
		}
		var robj types.Tx
		if pos >= 0 {
			robj = nb.Data.Txs[pos]
		} else {
			robj = nb.Data.Txs[len(nb.Data.Txs)-1]
		}
		r.judgeAccept(fmt.Sprintf("block at height %d verified %s", blk.Height, stage), tm.src.kind, tm.name, tm.v, robj, tm)
		return true
	}

	if when == 0 {
		rec.When = "before-addtx"
		c.Probe("flight/verified-before-addtx")
		verify("before the transaction reached the replica's pool")
		if r.stop {
			r.smp.Flights = append(r.smp.Flights, rec)
			return true
		}
		// then the submission, uninterrupted
		at = parkNone
	}

	// the pool's object has a history of its own before it is submitted
	pst := &lookState{}
	r.history("replica (object about to be submitted to the pool)", w.R, poolObj, tm.src.kind, tm.name, tm.v, tm, pst, false)
	if r.stop {
		return true
	}
	f := r.launch(poolObj, at)
	parked, done := f.state()
	switch {
	case at != parkNone && !parked:
		// refused before the basic check was reached (e.g. a type the pool does
		// not take): no window
		c.Probe("flight/never-parked")
		if !done {
			r.land(f)
			r.trouble("flight neither parked nor done")
			return true
		}
	case parked:
		r.flightParked++
		c.Fault("block-verified-while-tx-inside-AddTx/" + at.String())
		c.Probe("flight/" + at.String() + "/" + tm.src.kind.String())
	}
	if when == 1 {
		rec.When = at.String()
		if at == parkNone || !parked {
			rec.When = parkNone.String()
		}
		stage := "while the same transaction was inside Mempool.AddTx on this node (" + at.String() + ": cache entry present, basic check not completed)"
		if !parked {
			stage = "after Mempool.AddTx had returned"
		}
		verify(stage)
	}
	r.land(f)
	_, done = f.state()
	if !done {
		r.trouble("flight did not land")
		return true
	}
	f.mu.Lock()
	ran, basic, aerr, pmsg, psite := f.ran, f.basic, f.err, f.paniced, f.site
	f.mu.Unlock()
	if pmsg != "" {
		r.violate("panic", "panic/"+psite, "Mempool.AddTx panicked: %s", pmsg)
		return true
	}
	if ran {
		rec.Basic = "passed"
		if basic != nil {
			rec.Basic = "refused"
		}
	}
	pst.trail = append(pst.trail, "AddTx")
	r.fromLook("replica mempool (submission interleaved with block verification), after the submission", tm.src.kind, tm.name, tm.v, poolObj, tm, pst)
	if aerr == nil && !r.stop {
		// the pool took the forgery
		r.judgeAccept("replica mempool (submission interleaved with block verification)", tm.src.kind, tm.name, tm.v, poolObj, tm)
	}
	c.Evals(1)
	if len(r.smp.Flights) < 6 {
		r.smp.Flights = append(r.smp.Flights, rec)
	}
	return true
}
