package signrig

import (
	"fmt"
	"math/big"

	lcfg "github.com/lianxiangcloud/linkchain/config"
	"github.com/lianxiangcloud/linkchain/libs/common"
	"github.com/lianxiangcloud/linkchain/types"

	"verif/sim/kernel"
)

// sent is one transaction as its submitter produced it.
type sent struct {
	kind   txKind
	w      *wireTx // the oracle's reading of raw
	raw    []byte
	holder *userKey  // the key holder (nil for mst)
	indep  bool      // signed by the rig's own btcec client instead of linkchain's Sign
	utx    *utxTruth // confidential transactions: what was addressed to whom
	desc   string
}

var prefixes [nKinds][]byte

// learnPrefixes records the 7 type bytes of each kind from encodings of real
// objects.
func learnPrefixes() {
	if prefixes[kTx] != nil {
		return
	}
	to := common.Address{1}
	var samples [nKinds]types.Tx
	samples[kTx] = types.NewTransaction(0, to, big.NewInt(0), 0, nil, nil)
	samples[kCreate] = samples[kTx]
	samples[kTxt] = types.NewTokenTransaction(common.EmptyAddress, 0, to, big.NewInt(0), 0, nil, nil)
	samples[kCut] = types.UpgradeContractTx(&types.ContractUpgradeMainInfo{}, nil)
	samples[kMst] = types.NewMultiSignAccountTx(&types.MultiSignMainInfo{}, nil)
	samples[kUtx] = &types.UTXOTransaction{Fee: new(big.Int)}
	for k := txKind(0); k < nKinds; k++ {
		prefixes[k] = append([]byte{}, encodeTx(samples[k])[:7]...)
	}
	learnUtxoPrefixes()
}

func parseWire(kind txKind, raw []byte) (*wireTx, error) {
	if len(raw) < 8 {
		return nil, errRLP
	}
	if kind == kUtx {
		return parseUtxWire(raw)
	}
	body, err := rlpDecode(raw[7:])
	if err != nil {
		return nil, err
	}
	w := &wireTx{kind: kind, prefix: append([]byte{}, raw[:7]...), body: body}
	if !w.wellFormed() {
		return nil, fmt.Errorf("signrig: unexpected wire shape for %v", kind)
	}
	return w, nil
}

func mkSent(kind txKind, tx types.Tx, holder *userKey, desc string) (*sent, error) {
	raw := encodeTx(tx)
	w, err := parseWire(kind, raw)
	if err != nil {
		return nil, err
	}
	return &sent{kind: kind, w: w, raw: raw, holder: holder, desc: desc}, nil
}

var gasPrice = big.NewInt(types.ParGasPrice)

// initCode deploys a one-byte runtime (STOP) followed by filler.
func initCode(fill []byte) []byte {
	code := []byte{0x60, 0x01, 0x60, 0x0c, 0x60, 0x00, 0x39, 0x60, 0x01, 0x60, 0x00, 0xf3, 0x00}
	return append(code, fill...)
}

var innerTargets = []common.Address{lcfg.ContractCandidatesAddr, lcfg.ContractCoefficientAddr, lcfg.ContractPledgeAddr, lcfg.ContractValidatorsAddr, lcfg.ContractFoundationAddr}

// genTransfer: plain transfer or a call of a created contract.
func (w *world) genTransfer(t *kernel.Tape, u *userKey, nonce uint64, indep bool) (*sent, error) {
	var to common.Address
	call := len(w.contracts) > 0 && t.Bool(1, 3)
	if call {
		to = w.contracts[t.Int(len(w.contracts))]
	} else if t.Bool(3, 4) {
		to = w.users[t.Int(len(w.users))].addr
	} else {
		copy(to[:], t.Bytes(20))
		to[0] |= 0x80 // never a precompile or reserved low address
	}
	value := new(big.Int).Mul(big.NewInt(int64(t.Int(3000))), big.NewInt(1e15))
	payload := t.Bytes(t.Int(24))
	var gas uint64
	if call {
		gas = 600000 + uint64(t.Int(4))*100000
		if value.Sign() > 0 {
			gas += types.CalNewAmountGas(value, types.EverContractLiankeFee)
		}
	} else {
		gas = types.CalNewAmountGas(value, types.EverLiankeFee)
	}
	desc := fmt.Sprintf("transfer u%d n=%d call=%v", u.idx, nonce, call)
	if indep {
		body := blist(bu64(nonce), bnum(gasPrice), bu64(gas), bstr(to[:]), bnum(value), bstr(payload))
		sg := indepSign(body.kids, w.p, u.secret)
		body.kids = append(body.kids, bnum(sg.v), bnum(sg.r), bnum(sg.s))
		wt := &wireTx{kind: kTx, prefix: prefixes[kTx], body: body}
		return &sent{kind: kTx, w: wt, raw: wt.bytes(), holder: u, indep: true, desc: desc + " indep-client"}, nil
	}
	tx := types.NewTransaction(nonce, to, value, gas, nil, payload)
	if err := tx.Sign(types.GlobalSTDSigner, u.priv); err != nil {
		return nil, err
	}
	return mkSent(kTx, tx, u, desc)
}

func (w *world) genCreate(t *kernel.Tape, u *userKey, nonce uint64) (*sent, error) {
	gas := uint64(400000 + t.Int(4)*100000)
	tx := types.NewContractCreation(nonce, big.NewInt(0), gas, nil, initCode(t.Bytes(t.Int(8))))
	if err := tx.Sign(types.GlobalSTDSigner, u.priv); err != nil {
		return nil, err
	}
	return mkSent(kCreate, tx, u, fmt.Sprintf("create u%d n=%d", u.idx, nonce))
}

func (w *world) genToken(t *kernel.Tape, u *userKey, nonce uint64, indep bool) (*sent, error) {
	token := common.EmptyAddress
	if len(w.tokens) > 0 && t.Bool(2, 3) {
		token = w.tokens[t.Int(len(w.tokens))]
	}
	to := w.users[t.Int(len(w.users))].addr
	var value *big.Int
	var gas uint64
	if common.IsLKC(token) {
		value = new(big.Int).Mul(big.NewInt(int64(t.Int(3000))), big.NewInt(1e15))
		gas = types.CalNewAmountGas(value, types.EverLiankeFee)
	} else {
		value = big.NewInt(int64(1 + t.Int(1000)))
		gas = uint64(types.MinGasLimit)
	}
	payload := t.Bytes(t.Int(12))
	desc := fmt.Sprintf("token u%d n=%d lkc=%v", u.idx, nonce, common.IsLKC(token))
	if indep {
		body := blist(bstr(token[:]), bu64(nonce), bnum(gasPrice), bu64(gas), bstr(to[:]), bnum(value), bstr(payload))
		sg := indepSign(body.kids, w.p, u.secret)
		body.kids = append(body.kids, blist(bnum(sg.v), bnum(sg.r), bnum(sg.s)))
		wt := &wireTx{kind: kTxt, prefix: prefixes[kTxt], body: body}
		return &sent{kind: kTxt, w: wt, raw: wt.bytes(), holder: u, indep: true, desc: desc + " indep-client"}, nil
	}
	tx := types.NewTokenTransaction(token, nonce, to, value, gas, nil, payload)
	if err := tx.Sign(types.GlobalSTDSigner, u.priv); err != nil {
		return nil, err
	}
	return mkSent(kTxt, tx, u, desc)
}

// genUpgrade: a contract upgrade sent by from and co-signed by the listed
// signers (the oracle's model says which signatures are needed).
func (w *world) genUpgrade(t *kernel.Tape, from *userKey, nonce uint64, cosign []*userKey) (*sent, error) {
	mi := &types.ContractUpgradeMainInfo{
		FromAddr:     from.addr,
		Recipient:    innerTargets[t.Int(len(innerTargets))],
		AccountNonce: nonce,
		Payload:      append([]byte{0x00, 0x61, 0x73, 0x6d, 0x01}, t.Bytes(1+t.Int(12))...),
	}
	tx := types.UpgradeContractTx(mi, nil)
	if tx == nil {
		return nil, fmt.Errorf("UpgradeContractTx returned nil")
	}
	if err := tx.Sign(types.GlobalSTDSigner, from.priv); err != nil {
		return nil, err
	}
	for _, k := range cosign {
		if k == from {
			continue
		}
		if err := tx.Sign(types.GlobalSTDSigner, k.priv); err != nil {
			return nil, err
		}
	}
	return mkSent(kCut, tx, from, fmt.Sprintf("upgrade u%d n=%d sigs=%d", from.idx, nonce, len(tx.Signatures)))
}

// genMultiSign: the validators set the signer list for a transaction type.
func (w *world) genMultiSign(t *kernel.Tape, nonce uint64, typ int, min int32, entries []types.SignerEntry, signersOf []*valInfo) (*sent, error) {
	mi := &types.MultiSignMainInfo{AccountNonce: nonce, SupportTxType: types.SupportType(typ)}
	mi.MinSignerPower = min
	for i := range entries {
		e := entries[i]
		mi.Signers = append(mi.Signers, &e)
	}
	msg, err := types.GenMultiSignBytes(*mi)
	if err != nil {
		return nil, err
	}
	var sigs []types.ValidatorSign
	for _, v := range signersOf {
		sg, err := v.key.Priv.Sign(msg)
		if err != nil {
			return nil, err
		}
		sigs = append(sigs, types.ValidatorSign{Addr: []byte(v.addr), Signature: sg.Bytes()})
	}
	tx := types.NewMultiSignAccountTx(mi, sigs)
	return mkSent(kMst, tx, nil, fmt.Sprintf("multisign n=%d type=%d signers=%d sigs=%d", nonce, typ, len(entries), len(sigs)))
}
