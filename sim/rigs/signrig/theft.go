package signrig

import (
	"fmt"
	"math/big"
	"sort"

	"github.com/lianxiangcloud/linkchain/libs/common"
	"github.com/lianxiangcloud/linkchain/libs/cryptonote/ringct"
	lk "github.com/lianxiangcloud/linkchain/libs/cryptonote/types"
	"github.com/lianxiangcloud/linkchain/libs/cryptonote/xcrypto"
	"github.com/lianxiangcloud/linkchain/types"

	"verif/sim/kernel"
)

// Thefts: spends of somebody else's confidential output written from scratch
// by a party that holds none of the destination's keys. Everything public is
// right (the referenced output exists, the key image is a point of the
// prime-order group, the pseudo output commits openly to output + fee, the fee
// follows the gas rule, the withdrawal goes to the thief's account); what is
// missing is the one thing only the owner can produce. By construction no
// owner key took part, so the statement demands a refusal at every stage.

var theftAuth = []string{
	"no-signature",            // P.Ss empty, one empty MLSAG slot
	"no-signature-no-slot",    // P.Ss and P.MGs empty
	"zero-signature",          // an all-zero classic signature
	"random-signature",        // random scalars
	"signed-with-thiefs-key",  // a classic ring signature made with the thief's own secret over the victim's ring
	"mlsag-random",            // ring of 2-4: random MLSAG
	"mlsag-empty",             // ring of 2-4: empty MLSAG slot
	"mlsag-with-thiefs-key",   // ring of 2-4: MLSAG made with the thief's secrets
	"two-inputs-one-unsigned", // two foreign outputs: garbage for the first, nothing for the second
}

func zeroCommit(amount *big.Int) (lk.Key, bool) {
	k, err := types.BigInt2Hash(new(big.Int).Div(amount, rate))
	if err != nil {
		return lk.Key{}, false
	}
	return ringct.ScalarmultH(k), true
}

// genTheft builds one theft. nil when the chain holds no confidential output
// yet (or a library call refuses the construction).
func (r *runner) genTheft(t *kernel.Tape) *tampered {
	w := r.w
	if w.utxoNext == 0 || len(w.strangers) == 0 {
		return nil
	}
	x := &tamperCtx{w: w, t: t}
	mode := theftAuth[t.Int(len(theftAuth))]
	nIn, ringN := 1, 1
	switch mode {
	case "mlsag-random", "mlsag-empty", "mlsag-with-thiefs-key":
		ringN = 2 + t.Int(3)
		if uint64(ringN) > w.utxoNext {
			return nil
		}
	case "two-inputs-one-unsigned":
		nIn = 2
		if w.utxoNext < 2 {
			return nil
		}
	}
	thief := w.strangers[t.Int(len(w.strangers))]
	to := w.users[len(w.users)-1].addr // the account that holds a key but no funds

	// the victims: existing outputs (prefer ones the rig knows the value of)
	known := map[uint64]*ownedOut{}
	for _, o := range w.outs {
		known[o.global] = o
	}
	tx := &types.UTXOTransaction{TokenID: common.EmptyAddress, RKey: lk.PublicKey(somePoint(x))}
	tx.Sigs.V, tx.Sigs.R, tx.Sigs.S = new(big.Int), new(big.Int), new(big.Int)
	var rings lk.CtkeyM
	var firstAbs []uint64
	total := new(big.Int)
	used := map[uint64]bool{}
	for i := 0; i < nIn; i++ {
		g := uint64(t.Int(int(w.utxoNext)))
		for tries := 0; used[g] && tries < 16; tries++ {
			g = uint64(t.Int(int(w.utxoNext)))
		}
		if used[g] {
			return nil
		}
		used[g] = true
		idx := map[uint64]bool{g: true}
		for tries := 0; len(idx) < ringN && tries < 64; tries++ {
			idx[uint64(t.Int(int(w.utxoNext)))] = true
		}
		if len(idx) != ringN {
			return nil
		}
		var abs []uint64
		for k := range idx {
			abs = append(abs, k)
		}
		sort.Slice(abs, func(a, b int) bool { return abs[a] < abs[b] })
		var ring lk.CtkeyV
		for _, gi := range abs {
			o, err := w.R.UtxoStore.GetUtxoOutput(common.EmptyAddress, gi)
			if err != nil || o == nil {
				return nil
			}
			ring = append(ring, lk.Ctkey{Dest: o.OTAddr, Mask: o.Commit})
		}
		rings = append(rings, ring)
		rel := make([]uint64, len(abs))
		for k := range abs {
			rel[k] = abs[k]
			if k > 0 {
				rel[k] = abs[k] - abs[k-1]
			}
		}
		firstAbs = append(firstAbs, g)
		amt := lkcN(int64(1 + t.Int(200)))
		if o := known[g]; o != nil && t.Bool(2, 3) {
			amt = new(big.Int).Set(o.amount) // exactly what the output holds
		}
		total.Add(total, amt)
		tx.Inputs = append(tx.Inputs, &types.UTXOInput{KeyOffset: rel, KeyImage: somePoint(x)})
	}
	// value: everything the inputs are claimed to hold, minus the fee the gas rule asks for
	fee := new(big.Int).Mul(new(big.Int).SetUint64(w.R.App.GetUTXOGas()+types.CalNewAmountGas(total, types.EverLiankeFee)), gasPrice)
	steal := new(big.Int).Sub(total, fee)
	if steal.Cmp(rate) < 0 {
		return nil
	}
	steal.Sub(steal, new(big.Int).Mod(steal, rate))
	fee = new(big.Int).Sub(total, steal)
	if new(big.Int).Mod(fee, gasPrice).Sign() != 0 {
		return nil
	}
	tx.Fee = fee
	oc, ok := zeroCommit(steal)
	if !ok {
		return nil
	}
	tx.Outputs = []types.Output{&types.AccountOutput{To: to, Amount: steal, Commit: oc}}
	// pseudo outputs: openly commit (mask 0) to the claimed amounts; the last one absorbs the rest
	per := new(big.Int).Div(new(big.Int).Div(total, rate), big.NewInt(int64(nIn)))
	left := new(big.Int).Div(total, rate)
	for i := 0; i < nIn; i++ {
		a := per
		if i == nIn-1 {
			a = left
		}
		left = new(big.Int).Sub(left, a)
		pc, ok := zeroCommit(new(big.Int).Mul(a, rate))
		if !ok {
			return nil
		}
		tx.RCTSig.P.PseudoOuts = append(tx.RCTSig.P.PseudoOuts, pc)
	}
	tx.RCTSig.Type = uint8(lk.RCTTypeBulletproof)
	tx.RCTSig.P.MGs = make([]lk.MgSig, nIn)

	// what the verifier will hash
	preHash := func() (lk.Key, bool) {
		tx.RCTSig.Message = tx.PrefixHash()
		tx.RCTSig.MixRing = rings
		h, err := ringct.GetPreMlsagHash(&tx.RCTSig)
		return h, err == nil
	}
	built := true
	_, _, panicked := kernel.Try(func() {
		switch mode {
		case "no-signature":
		case "no-signature-no-slot":
			tx.RCTSig.P.MGs = nil
		case "zero-signature":
			tx.RCTSig.P.Ss = make([]lk.Signature, nIn)
		case "random-signature":
			tx.RCTSig.P.Ss = []lk.Signature{{C: lk.EcScalar(randScalar(x)), R: lk.EcScalar(randScalar(x))}}
		case "signed-with-thiefs-key":
			// key image made of the victim's one-time address and the thief's secret
			pub := lk.PublicKey(rings[0][0].Dest)
			ki, err := xcrypto.GenerateKeyImage(pub, thief.keys.SpendSKey)
			if err != nil {
				built = false
				return
			}
			tx.Inputs[0].(*types.UTXOInput).KeyImage = lk.Key(ki)
			h, ok := preHash()
			if !ok {
				built = false
				return
			}
			sig, err := xcrypto.GenerateRingSignature(lk.Hash(h), ki, []lk.PublicKey{pub}, thief.keys.SpendSKey, 0)
			if err != nil || sig == nil {
				built = false
				return
			}
			tx.RCTSig.P.Ss = []lk.Signature{*sig}
		case "mlsag-random":
			var rows lk.KeyM
			for k := 0; k < ringN; k++ {
				rows = append(rows, lk.KeyV{randScalar(x), randScalar(x)})
			}
			tx.RCTSig.P.MGs[0] = lk.MgSig{Ss: rows, Cc: randScalar(x)}
			tx.RCTSig.P.Ss = make([]lk.Signature, nIn)
		case "mlsag-empty":
			tx.RCTSig.P.Ss = make([]lk.Signature, nIn)
		case "mlsag-with-thiefs-key":
			inSk := lk.Ctkey{Dest: lk.Key(thief.keys.SpendSKey), Mask: randScalar(x)}
			a, at := randScalar(x), uint32(t.Int(ringN))
			// first pass: learn the key image the thief's secret yields at that
			// ring position; second pass: sign the message that names it
			for pass := 0; pass < 2; pass++ {
				h, ok := preHash()
				if !ok {
					built = false
					return
				}
				mg, err := ringct.ProveRctMGSimple(h, rings[0], inSk, a, tx.RCTSig.P.PseudoOuts[0], nil, nil, at)
				if err != nil || mg == nil || len(mg.II) == 0 {
					built = false
					return
				}
				tx.Inputs[0].(*types.UTXOInput).KeyImage = mg.II[0]
				tx.RCTSig.P.MGs[0] = lk.MgSig{Ss: mg.Ss, Cc: mg.Cc}
			}
			tx.RCTSig.P.Ss = make([]lk.Signature, nIn)
		case "two-inputs-one-unsigned":
			tx.RCTSig.P.Ss = []lk.Signature{{C: lk.EcScalar(randScalar(x)), R: lk.EcScalar(randScalar(x))}}
		}
	})
	if panicked || !built {
		r.c.Probe("theft-unbuildable/" + mode)
		return nil
	}
	tx.RCTSig.Message, tx.RCTSig.MixRing = lk.Key{}, nil
	var raw []byte
	if _, _, p := kernel.Try(func() { raw = encodeTx(tx) }); p {
		return nil
	}
	wt, err := parseUtxWire(raw)
	if err != nil {
		return nil
	}
	src := &sent{kind: kUtx, w: wt, raw: raw, utx: &utxTruth{}, desc: fmt.Sprintf("theft of out#%v ring=%d (%s)", firstAbs, ringN, mode)}
	return &tampered{src: src, wt: wt, raw: raw, name: "theft/" + mode, comp: "no-owner-key", field: true, v: w.judge(wt), scratch: true}
}
