// Package c01rig registers the C01 check: consensus agreement and voting
// discipline on the R-cluster rig.
package c01rig

import (
	"time"

	"verif/sim/cluster"
	"verif/sim/kernel"
)

func init() {
	kernel.Register(&kernel.Rig{
		Property: "C01", Name: "R-cluster/agreement", Level: "exploration",
		Rule: "one run = one seeded configuration (4-7 validators with unequal powers, <1/3 Byzantine power, timeouts, part size, storage mode, WAL on/off) x one message schedule (loss, duplication, delay, partition/heal, crash/restart, timeout skew) x one Byzantine behaviour; non-trivial = every honest node committed >= 2 heights; distinct = hash of the committed chain, event count and final virtual time",
		Real: []string{"consensus.ConsensusState (real receiveRoutine, handlers, vote sets)", "consensus.ConsensusReactor.Receive + PeerState", "types.FilePV on a real file", "consensus WAL (real baseWAL when configured)", "app.LinkApplication", "mempool", "blockchain.BlockStore", "utxo store", "evidence pool", "BlockExecutor/validateBlock", "StateDB/trie/kv"},
		Stub: []string{"timeout ticker (simulator-controlled VerifTicker; same replace-if-later rule)", "gossip routines (anti-entropy stand-in reading the peer's real round state)", "p2p switch/connections (message-level simulated network)", "storage engine (SimDB)", "libxcrypto (pure-Go model)"},
		Assumptions: []string{"Go 1.26.8 testing/synctest virtual clock", "validator set static during a run", "I4 (prevote against lock) is evaluated within one incarnation of a node"},
		QuickRuns: 500, QuickBudget: 75 * time.Second, ThoroughRuns: 6000, ThoroughBudget: 25 * time.Minute,
		RunsPerProcess: 40, RunTimeout: 600 * time.Second,
		Run: func(c *kernel.Ctx) { cluster.RunMode(c, cluster.ModeAgreement) },
	})
}
