// Package c04cluster is the node-level part of C04: the whole node (real
// ConsensusState, WAL catch-up replay, FilePV on a real file) under crashes at
// event boundaries, inside write sequences and at signing requests, with the
// consensus WAL found truncated or gone at some restarts. Every call of the
// signing interface (SignVote, SignVoteWithoutSave, SignProposal) is recorded;
// per validator key at most one distinct payload may ever be released per
// (height, round, step), across all incarnations.
package c04cluster

import (
	"time"

	"verif/sim/cluster"
	"verif/sim/kernel"
)

// Run performs one cluster run in signer mode.
func Run(c *kernel.Ctx) { cluster.RunMode(c, cluster.ModeSigner) }

// Standalone is the node-level part as a rig of its own (development aid:
// checks/c04x); the registered C04 check is rigs/c04rig.
func Standalone() *kernel.Rig {
	return &kernel.Rig{
		Property: "C04", Name: "R-cluster/signer", Level: "exploration",
		Rule:      "node-level part of C04 only",
		QuickRuns: 200, QuickBudget: 75 * time.Second, ThoroughRuns: 4000, ThoroughBudget: 20 * time.Minute,
		RunsPerProcess: 40, RunTimeout: 600 * time.Second,
		Run: Run,
	}
}
