// Package privvalrig is the rig of property C04: through SignVote /
// SignProposal a validator key releases at most one distinct signed payload
// per (height, round, step), never goes back below an HRS it has signed, and
// keeps both promises across crashes and restarts at any point, including
// between signing and persisting.
//
// One run = one seeded key + one generated sequence of signing requests. The
// sequence is executed once without faults and then once per fault position:
// a crash-and-reload before every step, a failing persist at every step that
// persists (two ways of making cmn.WriteFileAtomic fail) followed by a reload
// from the last durable file, and a crash after the persist but before the
// signature is handed out. Every execution is judged by the same small model
// of the signatures that left the signer.
package privvalrig

import (
	"bytes"
	stded "crypto/ed25519"
	"crypto/sha256"
	"encoding/hex"
	"fmt"
	"os"
	"path/filepath"
	"strings"
	"time"

	"github.com/lianxiangcloud/linkchain/libs/common"
	"github.com/lianxiangcloud/linkchain/libs/crypto"
	"github.com/lianxiangcloud/linkchain/libs/log"
	"github.com/lianxiangcloud/linkchain/types"

	"verif/sim/kernel"
)

func init() {
	log.Root().SetHandler(log.DiscardHandler())
}

// Describe returns the FilePV-level rig (the composite C04 check combines it
// with the node-level cluster part, see rigs/c04rig).
func Describe() *kernel.Rig {
	return &kernel.Rig{
		Property: "C04",
		Name:     "privval",
		Level:    "fault_enumeration",
		Rule: "seeded ed25519 key in a real FilePV file; sequences of 3..12 (thorough ..16) SignVote/SignProposal requests over heights {h,h+1} x rounds {0,1,2} x steps {propose,prevote,precommit} x block ids {nil,A,B} x 5 timestamps, " +
			"biased 40% same HRS (identical / timestamp-only / conflicting payload), 30% successor HRS, 10% predecessor, 20% uniform; every sequence is executed fault-free and then once per fault position: " +
			"crash+reload before EVERY step, failing persist at EVERY step that persists (key directory renamed away; key path turned into a directory so the final rename fails) followed by reload from the last durable file, " +
			"crash after persist before the signature is handed out at EVERY persisting step; thorough adds every ordered pair (fault at i, crash before j>i). One oracle evaluation = one executed scenario. " +
			"Non-trivial: the fault-free execution released >= 2 signatures and refused or repeated >= 1 request, and >= 1 injected persist failure fired. Fingerprint: requests + per-scenario outcome strings.",
		Real: []string{"types.FilePV (GenFilePV, UpdatePrikey, Save, LoadFilePV, LoadOrGenFilePV, SignVote, SignProposal, checkHRS, saveSigned, save)",
			"cmn.WriteFileAtomic on real files", "ser JSON codec of the key file", "types.Vote/Proposal SignBytes (canonical JSON)", "crypto.PrivKeyEd25519 sign / PubKeyEd25519 verify"},
		Stub: []string{"process crash = dropping the in-memory FilePV and calling LoadFilePV/LoadOrGenFilePV on the file", "disk failure = directory renamed away / key path replaced by a directory around one call (the process runs as root, so permissions cannot be used)"},
		Assumptions: []string{
			"Scope is SignVote and SignProposal only. SignVoteWithoutSave, SignData and SignHeartbeat sign without any last-signed record by design and are outside the generator (design decision, DESIGN.md C04); a clean result says nothing about them.",
			"A failed persist is followed by a restart (the consensus receive routine stops on the panic); continuing to use the same in-memory FilePV after a recovered save() panic is not explored.",
			"File system renames are atomic and a file that WriteFileAtomic reported written is durable (no torn key file is generated).",
			"UpdatePrikey is used once, before the first signature, to install the seeded key; changing the key between signatures is not explored.",
			"Distinct payload = distinct sign-bytes as produced by the real Vote/Proposal.SignBytes of the object after the call (millisecond timestamps; validator index/address and proposal type are not part of the sign-bytes).",
			"A signature counts as released when the Signature field of the request object is non-nil after the call, whatever the call returned (error or panic included).",
		},
		QuickRuns: 3000, QuickBudget: 50 * time.Second,
		ThoroughRuns: 12000, ThoroughBudget: 15 * time.Minute,
		RunsPerProcess: 400,
		Run:            run,
	}
}

// ---------------------------------------------------------------- requests

const (
	kProposal  = 0
	kPrevote   = 1
	kPrecommit = 2
)

var kindName = []string{"proposal", "prevote", "precommit"}

// req is one signing request, described by small integers so that it can be
// printed and compared by the model without looking at the code under test.
type req struct {
	Kind  int // kProposal | kPrevote | kPrecommit
	H     int // 0 | 1 (offset to the base height)
	R     int // 0..2
	Block int // 0 nil, 1 A, 2 B (votes: block id; proposals: parts header A/B, 0 is mapped to A)
	POL   int // proposals: -1 or a lower round
	TS    int // index into tsOffsets
	PType int // proposals: 0 normal, 1 recover (not part of the sign-bytes)
}

func (r req) step() int { return r.Kind + 1 } // propose 1, prevote 2, precommit 3

type hrs struct{ H, R, S int }

func (a hrs) less(b hrs) bool {
	if a.H != b.H {
		return a.H < b.H
	}
	if a.R != b.R {
		return a.R < b.R
	}
	return a.S < b.S
}

func (r req) hrs() hrs { return hrs{r.H, r.R, r.step()} }

var tsOffsets = []time.Duration{0, 400 * time.Microsecond, time.Millisecond, time.Second, time.Hour}
var tsNames = []string{"t0", "t0+400us", "t0+1ms", "t0+1s", "t0+1h"}

func (r req) String() string {
	b := []string{"nil", "A", "B"}[r.Block]
	if r.Kind == kProposal {
		pt := ""
		if r.PType == 1 {
			pt = " recover"
		}
		return fmt.Sprintf("proposal h+%d/r%d parts=%s pol=%d %s%s", r.H, r.R, []string{"A", "A", "B"}[r.Block], r.POL, tsNames[r.TS], pt)
	}
	return fmt.Sprintf("%s h+%d/r%d block=%s %s", kindName[r.Kind], r.H, r.R, b, tsNames[r.TS])
}

func genUniform(t *kernel.Tape) req {
	r := req{Kind: t.Int(3), H: t.Int(2), R: t.Int(3), Block: t.Int(3), TS: t.Int(len(tsOffsets)), POL: -1}
	if r.Kind == kProposal {
		if r.R > 0 && t.Bool(1, 3) {
			r.POL = t.Int(r.R)
		}
		if t.Bool(1, 6) {
			r.PType = 1
		}
	}
	return r
}

func fromHRS(x hrs, like req, t *kernel.Tape) req {
	r := like
	r.H, r.R, r.Kind = x.H, x.R, x.S-1
	if r.Kind != kProposal {
		r.POL, r.PType = -1, 0
	} else if r.POL >= r.R {
		r.POL = -1
	}
	return r
}

func genSeq(t *kernel.Tape, n int) []req {
	seq := make([]req, 0, n)
	prev := genUniform(t)
	// start low so that there is room above
	if t.Bool(2, 3) {
		prev.H, prev.R, prev.POL = 0, 0, -1
	}
	seq = append(seq, prev)
	for len(seq) < n {
		var r req
		switch t.Pick(40, 30, 10, 20) {
		case 0: // same HRS
			r = prev
			switch t.Pick(30, 35, 25, 10) {
			case 0: // identical
			case 1: // timestamp only
				r.TS = (r.TS + 1 + t.Int(len(tsOffsets)-1)) % len(tsOffsets)
			case 2: // conflicting payload, same timestamp
				r.Block = (r.Block + 1 + t.Int(2)) % 3
			case 3: // both
				r.Block = (r.Block + 1 + t.Int(2)) % 3
				r.TS = (r.TS + 1 + t.Int(len(tsOffsets)-1)) % len(tsOffsets)
			}
			if r.Kind == kProposal && t.Bool(1, 5) {
				if r.POL == -1 && r.R > 0 {
					r.POL = t.Int(r.R)
				} else {
					r.POL = -1
				}
			}
		case 1: // successor
			x := prev.hrs()
			switch t.Pick(50, 30, 20) {
			case 0:
				if x.S < 3 {
					x.S++
				} else if x.R < 2 {
					x.R, x.S = x.R+1, 1+t.Int(3)
				} else if x.H < 1 {
					x.H, x.R, x.S = 1, 0, 1+t.Int(3)
				}
			case 1:
				if x.R < 2 {
					x.R, x.S = x.R+1, 1+t.Int(3)
				} else if x.H < 1 {
					x.H, x.R, x.S = 1, 0, 1+t.Int(3)
				}
			case 2:
				if x.H < 1 {
					x.H, x.R, x.S = 1, t.Int(2), 1+t.Int(3)
				} else if x.S < 3 {
					x.S++
				}
			}
			r = fromHRS(x, prev, t)
			r.Block = t.Int(3)
			r.TS = t.Int(len(tsOffsets))
		case 2: // predecessor
			x := prev.hrs()
			switch t.Pick(50, 30, 20) {
			case 0:
				if x.S > 1 {
					x.S--
				} else if x.R > 0 {
					x.R, x.S = x.R-1, 3
				} else if x.H > 0 {
					x.H, x.R, x.S = 0, 2, 3
				}
			case 1:
				if x.R > 0 {
					x.R--
				} else if x.H > 0 {
					x.H, x.R = 0, t.Int(3)
				}
			case 2:
				if x.H > 0 {
					x.H = 0
				} else if x.S > 1 {
					x.S--
				}
			}
			r = fromHRS(x, prev, t)
			if t.Bool(1, 2) {
				r.Block = t.Int(3)
			}
		default:
			r = genUniform(t)
		}
		seq = append(seq, r)
		prev = r
	}
	return seq
}

// ---------------------------------------------------------------- world

type setup struct {
	key     crypto.PrivKeyEd25519
	pub     stded.PublicKey // derived with the standard library, independent of linkchain
	chainID string
	baseH   uint64
	t0      time.Time
	hashA   [32]byte
	hashB   [32]byte
	partsA  types.PartSetHeader
	partsB  types.PartSetHeader
	root    string // per-run scratch directory
	useLoG  bool   // reload with LoadOrGenFilePV instead of LoadFilePV
}

func (s *setup) blockID(b int) types.BlockID {
	switch b {
	case 1:
		return types.BlockID{Hash: common.BytesToHash(s.hashA[:]), PartsHeader: s.partsA}
	case 2:
		return types.BlockID{Hash: common.BytesToHash(s.hashB[:]), PartsHeader: s.partsB}
	}
	return types.BlockID{}
}

// fault kinds of a scenario
const (
	fCrashBefore   = "crash"               // drop the object and reload before the step
	fPersistNoDir  = "persist_fail_nodir"  // key directory renamed away during the step, then reload
	fPersistRename = "persist_fail_rename" // key path is a directory during the step (final rename fails), then reload
	fDropResult    = "crash_after_persist" // step runs, result never leaves the process, then reload
)

type faultSpec struct {
	At   int
	Kind string
}

type release struct {
	signBytes []byte
	sig       []byte
}

type world struct {
	c        *kernel.Ctx
	s        *setup
	dir      string
	file     string
	pv       *types.FilePV
	released map[hrs]release
	max      hrs
	hasMax   bool
	lastCtx  string // which fault preceded (for violation keys)
	trace    []string
	persists []bool // per step: the key file changed during the step
	fired    int
	dropped  bool // a result was lost in a crash: the file may be ahead of the model
	stop     bool
}

func (s *setup) newWorld(c *kernel.Ctx, name string) (*world, error) {
	w := &world{c: c, s: s, released: map[hrs]release{}, lastCtx: "nofault"}
	w.dir = filepath.Join(s.root, name)
	if err := os.MkdirAll(w.dir, 0700); err != nil {
		return nil, err
	}
	w.file = filepath.Join(w.dir, "priv_validator.json")
	// real code path for creating the key file; the random key GenFilePV draws
	// is replaced by the seeded one before anything is saved or signed
	pv := types.GenFilePV(w.file)
	pv.UpdatePrikey(s.key)
	pv.Save()
	w.pv = nil
	w.reload()
	return w, nil
}

func (w *world) reload() {
	// LoadFilePV calls os.Exit on a missing or unreadable file: make sure the
	// harness never asks for that
	if st, err := os.Stat(w.file); err != nil || st.IsDir() {
		panic("privvalrig: key file missing before reload: " + w.file)
	}
	if w.s.useLoG {
		w.pv = types.LoadOrGenFilePV(w.file)
	} else {
		w.pv = types.LoadFilePV(w.file)
	}
}

func fileSig(path string) string {
	b, err := os.ReadFile(path)
	if err != nil {
		return "ERR"
	}
	h := sha256.Sum256(b)
	return hex.EncodeToString(h[:8])
}

// step performs one request against the current FilePV and feeds what left the
// signer to the model. mode: "" normal, or one of the persist/drop fault kinds.
func (w *world) step(i int, rq req, mode string) string {
	s := w.s
	var vote *types.Vote
	var prop *types.Proposal
	ts := s.t0.Add(tsOffsets[rq.TS])
	h := s.baseH + uint64(rq.H)
	if rq.Kind == kProposal {
		parts := s.partsA
		if rq.Block == 2 {
			parts = s.partsB
		}
		polID := types.BlockID{}
		if rq.POL >= 0 {
			polID = s.blockID(1 + (rq.Block+1)%2)
		}
		prop = &types.Proposal{Type: types.ProposalTypeNormal, Height: h, Round: rq.R, Timestamp: ts,
			BlockPartsHeader: parts, POLRound: rq.POL, POLBlockID: polID}
		if rq.PType == 1 {
			prop.Type = types.ProposalTypeRecover
		}
	} else {
		vt := types.VoteTypePrevote
		if rq.Kind == kPrecommit {
			vt = types.VoteTypePrecommit
		}
		vote = &types.Vote{ValidatorAddress: w.pv.GetAddress(), ValidatorIndex: 1, ValidatorSize: 4,
			Height: h, Round: rq.R, Timestamp: ts, Type: vt, BlockID: s.blockID(rq.Block)}
	}

	before := fileSig(w.file)
	// inject the disk failure around exactly this call
	switch mode {
	case fPersistNoDir:
		if err := os.Rename(w.dir, w.dir+".away"); err != nil {
			w.c.HarnessTrouble("rename away: %v", err)
		}
	case fPersistRename:
		if err := os.Rename(w.file, w.file+".durable"); err != nil {
			w.c.HarnessTrouble("move key aside: %v", err)
		}
		if err := os.Mkdir(w.file, 0700); err != nil {
			w.c.HarnessTrouble("mkdir in place of key: %v", err)
		}
	}
	var err error
	site, msg, panicked := kernel.Try(func() {
		if prop != nil {
			err = w.pv.SignProposal(s.chainID, prop)
		} else {
			err = w.pv.SignVote(s.chainID, vote)
		}
	})
	switch mode {
	case fPersistNoDir:
		if e := os.Rename(w.dir+".away", w.dir); e != nil {
			w.c.HarnessTrouble("rename back: %v", e)
		}
	case fPersistRename:
		os.Remove(w.file)
		if e := os.Rename(w.file+".durable", w.file); e != nil {
			w.c.HarnessTrouble("move key back: %v", e)
		}
		if ents, e := os.ReadDir(w.dir); e == nil && len(ents) > 1 {
			w.c.Probe("temp_file_left_after_failed_save")
		}
	}
	after := fileSig(w.file)
	w.c.Event(1)
	if len(w.persists) <= i {
		w.persists = append(w.persists, make([]bool, i+1-len(w.persists))...)
	}
	w.persists[i] = after != before

	var sig crypto.Signature
	var signBytes []byte
	var tsAfter time.Time
	if prop != nil {
		sig, tsAfter = prop.Signature, prop.Timestamp
		if sig != nil {
			signBytes = prop.SignBytes(s.chainID)
		}
	} else {
		sig, tsAfter = vote.Signature, vote.Timestamp
		if sig != nil {
			signBytes = vote.SignBytes(s.chainID)
		}
	}

	out := ""
	switch {
	case panicked:
		out = "panic(" + short(msg) + ")"
		if mode == fPersistNoDir || mode == fPersistRename {
			if strings.Contains(site, "FilePV") {
				w.c.Fault(mode)
				w.fired++
			}
		} else {
			w.c.Probe("panic_without_injected_fault")
		}
	case err != nil:
		out = "refused(" + short(err.Error()) + ")"
	default:
		out = "ok"
	}
	if (mode == fPersistNoDir || mode == fPersistRename) && after != before {
		// the durable file must be the one from before the failed save
		w.c.HarnessTrouble("key file changed although its persist was made to fail (step %d, %s)", i, mode)
	}

	if sig == nil {
		if !panicked && err == nil {
			w.c.Probe("ok_without_signature")
		}
		w.count(out)
		return out + " -> nothing released"
	}
	if mode == fDropResult {
		// the process died before the signature left it
		w.count(out)
		w.dropped = true
		if after != before {
			w.c.Fault(fDropResult)
			w.fired++
		}
		return out + " -> signed, result lost in crash"
	}

	// ---- a signature was released: the model
	kind := "vote"
	if prop != nil {
		kind = "proposal"
	}
	ed, ok := sig.(crypto.SignatureEd25519)
	if !ok {
		if w.c.Violate("bad-signature", "bad-signature/"+kind+"/type", "released signature of %v has type %T", rq, sig) {
			w.stop = true
		}
		return out + " -> released non-ed25519 signature"
	}
	sb := ed[:]
	if !stded.Verify(s.pub, signBytes, sb) {
		if w.c.Violate("bad-signature", "bad-signature/"+kind+"/after-"+w.lastCtx,
			"step %d %v: released signature does not verify under the validator's public key over the sign-bytes of the returned object (%s)", i, rq, string(signBytes)) {
			w.stop = true
		}
	}
	x := rq.hrs()
	res := ""
	if prev, seen := w.released[x]; seen {
		switch {
		case !bytes.Equal(prev.signBytes, signBytes):
			res = "DOUBLE-SIGN"
			if w.c.Violate("double-sign", "double-sign/"+kind+"/after-"+w.lastCtx,
				"step %d %v: second distinct signed payload at height+%d round %d step %d (after %s)\n  first : %s\n  second: %s",
				i, rq, x.H, x.R, x.S, w.lastCtx, string(prev.signBytes), string(signBytes)) {
				w.stop = true
			}
		case !bytes.Equal(prev.sig, sb):
			res = "RESIGNED"
			if w.c.Violate("double-sign", "resigned-same-payload/"+kind+"/after-"+w.lastCtx,
				"step %d %v: same sign-bytes released with a different signature", i, rq) {
				w.stop = true
			}
		default:
			res = "repeat of the original signature"
			if !tsAfter.Equal(ts) {
				res += " with the original timestamp"
				w.c.Probe("repeat_timestamp_restored")
			} else {
				w.c.Probe("repeat_identical")
			}
		}
		if x.less(w.max) {
			res += " BELOW-MAX"
			if w.c.Violate("regression", "regression/"+kind+"/after-"+w.lastCtx,
				"step %d %v: released a signature at height+%d round %d step %d although height+%d round %d step %d had been released (after %s)",
				i, rq, x.H, x.R, x.S, w.max.H, w.max.R, w.max.S, w.lastCtx) {
				w.stop = true
			}
		}
	} else {
		if w.hasMax && x.less(w.max) {
			res = "REGRESSION"
			if w.c.Violate("regression", "regression/"+kind+"/after-"+w.lastCtx,
				"step %d %v: released a signature at height+%d round %d step %d although height+%d round %d step %d had been released (after %s)",
				i, rq, x.H, x.R, x.S, w.max.H, w.max.R, w.max.S, w.lastCtx) {
				w.stop = true
			}
		} else {
			res = "new signature"
			w.c.Probe("released_new")
		}
		w.released[x] = release{signBytes: signBytes, sig: append([]byte(nil), sb...)}
		if !w.hasMax || w.max.less(x) {
			w.max, w.hasMax = x, true
		}
		// persist-before-release: the file must have changed by now
		if after == before && !w.dropped {
			w.c.Probe("new_signature_without_file_change")
		}
	}
	if err != nil || panicked {
		w.c.Probe("released_despite_error")
	}
	return out + " -> " + res
}

func (w *world) count(out string) {
	switch {
	case strings.HasPrefix(out, "refused(Error signing vote: Height regression"), strings.HasPrefix(out, "refused(Error signing proposal: Height regression"):
		w.c.Probe("refused_height_regression")
	case strings.Contains(out, "Round regression"):
		w.c.Probe("refused_round_regression")
	case strings.Contains(out, "Step regression"):
		w.c.Probe("refused_step_regression")
	case strings.Contains(out, "Conflicting data"):
		w.c.Probe("refused_conflicting_data")
	case strings.Contains(out, "No LastSignature"):
		w.c.Probe("refused_no_last_signature")
	case strings.HasPrefix(out, "refused"):
		w.c.Probe("refused_other")
	}
}

func short(s string) string {
	s = strings.ReplaceAll(s, "\n", " ")
	// drop scratch paths (they differ between workers)
	if i := strings.Index(s, "/"); i >= 0 {
		if j := strings.Index(s[i:], ":"); j > 0 {
			s = s[:i] + "<path>" + s[i+j:]
		}
	}
	if len(s) > 90 {
		s = s[:90]
	}
	return s
}

// play executes seq with the given faults in a fresh world and returns the
// outcome strings.
func (s *setup) play(c *kernel.Ctx, name string, seq []req, faults []faultSpec) (*world, []string) {
	w, err := s.newWorld(c, name)
	if err != nil {
		c.HarnessTrouble("scratch: %v", err)
		return nil, nil
	}
	defer os.RemoveAll(w.dir)
	outs := make([]string, 0, len(seq))
	for i, rq := range seq {
		mode := ""
		for _, f := range faults {
			if f.At != i {
				continue
			}
			if f.Kind == fCrashBefore {
				w.reload()
				w.c.Fault(fCrashBefore)
				w.lastCtx = fCrashBefore
			} else {
				mode = f.Kind
			}
		}
		o := w.step(i, rq, mode)
		if mode != "" {
			// the failed / interrupted step ends the process: restart from the durable file
			w.reload()
			w.lastCtx = mode
			o += " ; restart"
		}
		outs = append(outs, o)
		if w.stop || c.Failed() {
			break
		}
	}
	return w, outs
}

func run(c *kernel.Ctx) {
	cfg := c.Tape.Fork("cfg")
	keyT := c.Tape.Fork("key")
	work := c.Tape.Fork("work")

	s := &setup{}
	s.key = crypto.GenPrivKeyEd25519FromSecret(keyT.Bytes(32))
	s.pub = stded.PublicKey(append([]byte(nil), s.key[32:]...))
	s.chainID = []string{"chain-A", "linkchain", "c"}[cfg.Int(3)]
	switch cfg.Pick(6, 2, 1) {
	case 0:
		s.baseH = uint64(1 + cfg.Int(1000))
	case 1:
		s.baseH = uint64(1)<<32 - 1 + uint64(cfg.Int(3))
	default:
		s.baseH = uint64(1)<<62 + uint64(cfg.Int(1000))
	}
	s.t0 = time.Unix(1500000000+int64(cfg.Int(100000000)), int64(cfg.Int(1000))*int64(time.Millisecond)).UTC()
	s.hashA = sha256.Sum256(append([]byte("A"), keyT.Bytes(8)...))
	s.hashB = sha256.Sum256(append([]byte("B"), keyT.Bytes(8)...))
	s.partsA = types.PartSetHeader{Total: 1 + cfg.Int(3), Hash: s.hashA[:20]}
	s.partsB = types.PartSetHeader{Total: 1 + cfg.Int(3), Hash: s.hashB[:20]}
	s.useLoG = cfg.Bool(1, 3)
	maxN := 12
	if c.Tier == kernel.Thorough {
		maxN = 16
	}
	n := cfg.Range(3, maxN)
	seq := genSeq(work, n)

	root, err := runDir("c04", c.Tape.Seed())
	if err != nil {
		c.HarnessTrouble("scratch: %v", err)
		return
	}
	s.root = root
	defer dropRunDir(root)

	for _, r := range seq {
		c.Finger(r.Kind, r.H, r.R, r.Block, r.POL, r.TS, r.PType)
	}

	// ---- fault-free execution
	w0, base := s.play(c, "base", seq, nil)
	if w0 == nil || c.Failed() {
		sample(c, s, seq, base, 0, 0)
		return
	}
	c.Evals(1)
	c.Finger(strings.Join(base, "|"))
	released, other := 0, 0
	for _, o := range base {
		if strings.Contains(o, "new signature") {
			released++
		} else {
			other++
		}
	}
	persists := append([]bool(nil), w0.persists...)

	// ---- enumerate single faults at every position
	var scen [][]faultSpec
	for i := 0; i < len(seq); i++ {
		scen = append(scen, []faultSpec{{i, fCrashBefore}})
	}
	for i := 0; i < len(seq); i++ {
		if i < len(persists) && persists[i] {
			scen = append(scen, []faultSpec{{i, fPersistNoDir}}, []faultSpec{{i, fPersistRename}}, []faultSpec{{i, fDropResult}})
		}
	}
	// a crash after the last step followed by a replay of the last request and
	// of its conflicting twin is what a restarted node does first
	if c.Tier == kernel.Thorough {
		base1 := len(scen)
		for k := 0; k < base1; k++ {
			f := scen[k][0]
			for j := f.At + 1; j < len(seq); j++ {
				scen = append(scen, []faultSpec{f, {j, fCrashBefore}})
			}
		}
	}
	fired := 0
	nScen := 0
	for k, fs := range scen {
		w, outs := s.play(c, fmt.Sprintf("s%d", k), seq, fs)
		if w == nil {
			return
		}
		c.Evals(1)
		nScen++
		fired += w.fired
		c.Finger(k, strings.Join(outs, "|"))
		if c.Failed() {
			// show the failing scenario instead of the base one
			var fd []string
			for _, f := range fs {
				fd = append(fd, fmt.Sprintf("%s@%d", f.Kind, f.At))
			}
			c.Sample(map[string]interface{}{
				"chain_id": s.chainID, "base_height": s.baseH, "reload_with": reloadName(s),
				"faults": strings.Join(fd, ","), "steps": zip(seq, outs),
			})
			return
		}
	}
	if released >= 2 && other >= 1 && fired >= 1 {
		c.NonTrivial()
	}
	sample(c, s, seq, base, nScen, fired)
}

func reloadName(s *setup) string {
	if s.useLoG {
		return "LoadOrGenFilePV"
	}
	return "LoadFilePV"
}

func zip(seq []req, outs []string) []string {
	var l []string
	for i, o := range outs {
		l = append(l, fmt.Sprintf("%d: %v => %s", i, seq[i], o))
	}
	return l
}

func sample(c *kernel.Ctx, s *setup, seq []req, base []string, nScen, fired int) {
	c.Sample(map[string]interface{}{
		"chain_id": s.chainID, "base_height": s.baseH, "reload_with": reloadName(s),
		"fault_free_steps": zip(seq, base), "fault_scenarios": nScen, "persist_failures_fired": fired,
	})
}
