package walrig

// The live phase of the C14 rig: readers that are open WHILE the log is written,
// flushed, rotated and pruned. In the node this is the catch-up replay reading
// through a reader SearchForEndHeight handed out while the receive path appends
// to the same WAL and the group's ticker routine (processTicks ->
// checkHeadSizeLimit -> RotateFile, checkTotalSizeLimit) rotates and prunes.
//
// The whole phase runs inside one testing/synctest bubble with the real
// baseWAL.Start(): the group's own ticker fires on the virtual clock whenever
// the driver sleeps, so rotation and pruning happen through the real
// processTicks path, and every interleaving is decided by the tape.
//
// Oracle (prefix property of the statement): what a reader yields from its
// starting position is exactly the sequence of completely written records from
// there, in order, none skipped. The driver only asks a reader for a record it
// knows to be completely on disk, so each such read must succeed; after the
// final flush every reader must deliver everything up to the end of the log
// and then end-of-log. An error is accepted only when the file the reader has
// to open next was removed by the size pruning.

import (
	"bytes"
	"fmt"
	"io"
	"os"
	"path/filepath"
	"strings"
	"testing/synctest"
	"time"

	cs "github.com/lianxiangcloud/linkchain/consensus"
	auto "github.com/lianxiangcloud/linkchain/libs/autofile"
	"github.com/lianxiangcloud/linkchain/libs/ser"

	"verif/sim/kernel"
)

type liveReader struct {
	id     int
	origin string // "NewReader(3)" | "SearchForEndHeight(7)"
	gr     *auto.GroupReader
	dec    *cs.WALDecoder
	next   int // index of the record it must yield next
	done   bool
	sawEOF bool
}

type live struct {
	c    *kernel.Ctx
	t    *kernel.Tape
	wal  cs.WAL
	grp  *auto.Group
	head string

	recs    []*rec
	written int         // records handed to the WAL so far
	bytes   int         // their framed bytes
	offIdx  map[int]int // offset in the concatenated log -> index of the record that starts there
	flushed int         // records known to be completely on disk (lower bound)

	starts  map[int]int // file index -> offset of its first byte in the concatenated log (when known)
	lastMax int
	pruned  bool
	nPruned int // rotated files found missing so far

	readers []*liveReader
	trace   []string
	stop    bool
}

func (lv *live) violate(key, format string, args ...interface{}) {
	if lv.c.Violate("wal-live", key, format, args...) {
		lv.stop = true
	}
}

func (lv *live) note(s string) {
	if len(lv.trace) < 120 {
		lv.trace = append(lv.trace, s)
	}
}

func (lv *live) path(idx int) string {
	if idx == lv.grp.MaxIndex() {
		return lv.head
	}
	return fmt.Sprintf("%s.%03d", lv.head, idx)
}

func fileSize(p string) (int, bool) {
	st, err := os.Stat(p)
	if err != nil {
		return 0, false
	}
	return int(st.Size()), true
}

// observe brings the model of the file layout up to date with the directory.
func (lv *live) observe() {
	max := lv.grp.MaxIndex()
	for n := lv.lastMax; n < max; n++ {
		// file n was the head and is now rotated (its size no longer changes)
		s, known := lv.starts[n]
		sz, exists := fileSize(fmt.Sprintf("%s.%03d", lv.head, n))
		if known && exists {
			lv.starts[n+1] = s + sz
		}
	}
	lv.lastMax = max
	headSize, _ := fileSize(lv.head) // a head that does not exist yet holds nothing
	if lv.flushed == lv.written {
		// everything handed over is on disk: the head starts where the rest ends
		lv.starts[max] = lv.bytes - headSize
	}
	if s, known := lv.starts[max]; known {
		disk := s + headSize
		n := lv.flushed
		for n < lv.written && lv.recs[n].End <= disk {
			n++
		}
		lv.flushed = n
	}
	gone := 0
	for idx := 0; idx < max; idx++ {
		if _, exists := fileSize(fmt.Sprintf("%s.%03d", lv.head, idx)); !exists {
			gone++
		}
	}
	lv.nPruned, lv.pruned = gone, gone > 0
}

// nextFileGone reports whether the file the reader has to open after its
// current one was removed by the pruning.
func (lv *live) nextFileGone(r *liveReader) bool {
	if !lv.pruned {
		return false
	}
	_, exists := fileSize(lv.path(r.gr.CurIndex() + 1))
	return !exists && r.gr.CurIndex()+1 < lv.grp.MaxIndex()
}

// read asks reader r for one record.
// expectEOF: the reader has consumed everything that was ever written and all of it is on disk.
func (lv *live) read(r *liveReader, expectEOF bool, when string) {
	c := lv.c
	var m *cs.TimedWALMessage
	var err error
	site, msg, panicked := kernel.Try(func() { m, err = r.dec.Decode() })
	c.Event(1)
	if panicked {
		if c.Violate("panic", "panic/"+site, "live reader %s: Decode panicked (%s): %s", r.origin, when, msg) {
			lv.stop = true
		}
		r.done = true
		return
	}
	switch {
	case err == io.EOF && expectEOF:
		r.sawEOF = true
		return
	case err == io.EOF:
		lv.violate("live-reader/premature-end-of-log",
			"%s reports end-of-log %s although record %s is completely on disk and was not yielded: the rest of the log is silently missing from the replay (files now %s; steps: %s)",
			r.origin, when, lv.describe(r.next), lv.files(), strings.Join(lv.trace, " "))
		r.done = true
	case err != nil:
		if lv.nextFileGone(r) {
			c.Probe("live_reader_error_file_pruned_under_it")
			r.done = true
			return
		}
		if expectEOF {
			// everything was delivered; an error instead of end-of-log at the very end
			c.Probe("live_reader_error_instead_of_eof_at_end")
			r.done = true
			return
		}
		lv.violate("live-reader/error-on-written-record/"+errClass(err),
			"%s fails with %q %s although record %s is completely on disk and no file it needs was removed (files now %s; steps: %s)",
			r.origin, strings.ReplaceAll(err.Error(), filepath.Dir(lv.head), "<wal dir>"), when, lv.describe(r.next), lv.files(), strings.Join(lv.trace, " "))
		r.done = true
	default:
		re, e := ser.EncodeToBytes(m)
		if e == nil && r.next < lv.written && bytes.Equal(re, lv.recs[r.next].Body) {
			r.next++
			return
		}
		kind := "unwritten-or-repeated"
		at := -1
		for j := r.next + 1; e == nil && j < lv.written; j++ {
			if bytes.Equal(re, lv.recs[j].Body) {
				kind, at = "records-skipped", j
				break
			}
		}
		lv.violate("live-reader/"+kind,
			"%s yielded %s %s where record %s was due: %d completely written record(s) silently missing from the replay, no error reported (files now %s; steps: %s)",
			r.origin, lv.describe(at), when, lv.describe(r.next), at-r.next, lv.files(), strings.Join(lv.trace, " "))
		r.done = true
	}
}

func (lv *live) describe(i int) string {
	if i < 0 || i >= len(lv.recs) {
		return "(a message that is not in the log)"
	}
	r := lv.recs[i]
	if r.Kind == "endheight" {
		return fmt.Sprintf("#%d endheight(%d)", i, r.Height)
	}
	return fmt.Sprintf("#%d %s", i, r.Kind)
}

func (lv *live) files() string {
	var parts []string
	max := lv.grp.MaxIndex()
	for idx := 0; idx <= max; idx++ {
		if sz, ok := fileSize(lv.path(idx)); ok {
			parts = append(parts, fmt.Sprintf("%d:%dB", idx, sz))
		}
	}
	return "[" + strings.Join(parts, " ") + "]"
}

// write hands the next record to the WAL.
func (lv *live) write() {
	r := lv.recs[lv.written]
	var buf bytes.Buffer
	now := time.Now()
	if err := cs.NewWALEncoder(&buf).Encode(&cs.TimedWALMessage{Time: now, Msg: r.Msg}); err != nil {
		lv.c.HarnessTrouble("encode: %v", err)
		lv.stop = true
		return
	}
	r.Frame = buf.Bytes()
	r.Body = ser.MustEncodeToBytes(&cs.TimedWALMessage{Time: now, Msg: r.Msg})
	r.Off, r.End = lv.bytes, lv.bytes+len(r.Frame)
	lv.offIdx[r.Off] = lv.written
	if r.Own {
		lv.wal.WriteSync(r.Msg)
	} else {
		lv.wal.Write(r.Msg)
	}
	lv.written++
	lv.bytes = r.End
	if r.Own {
		lv.flushed = lv.written
		lv.note("W*")
	} else {
		lv.note("W")
	}
	if len(lv.open()) > 0 {
		lv.c.Fault("live_append_under_open_reader")
	}
	lv.observe()
}

func (lv *live) open() []*liveReader {
	var o []*liveReader
	for _, r := range lv.readers {
		if !r.done {
			o = append(o, r)
		}
	}
	return o
}

func (lv *live) behind() int {
	n := 0
	for _, r := range lv.open() {
		if r.next < lv.written {
			n++
		}
	}
	return n
}

// newReader obtains a reader the way the node does: at the start of a file or
// behind an end-height marker.
func (lv *live) newReader() {
	t := lv.t
	if len(lv.readers) >= 5 {
		return
	}
	_, headExists := fileSize(lv.head)
	max := lv.grp.MaxIndex()
	viaSearch := t.Bool(1, 2)
	if viaSearch {
		// only on a log that ends at a record boundary and has its head file: a torn
		// tail (known finding) or the short window without a head after a rotation
		// are not what this phase is about
		if lv.flushed != lv.written || !headExists {
			return
		}
		var ms []int
		for i := 0; i < lv.written; i++ {
			if lv.recs[i].Kind == "endheight" {
				ms = append(ms, i)
			}
		}
		if len(ms) == 0 {
			return
		}
		mi := ms[t.Int(len(ms))]
		// prefer recent markers (the replay asks for the last height), sometimes any
		if t.Bool(2, 3) {
			mi = ms[len(ms)-1-t.Int(min(2, len(ms)))]
		}
		m := lv.recs[mi]
		ignore := t.Bool(1, 2)
		var gr *auto.GroupReader
		var found bool
		var err error
		site, msg, panicked := kernel.Try(func() {
			gr, found, err = lv.wal.SearchForEndHeight(m.Height, &cs.WALSearchOptions{IgnoreDataCorruptionErrors: ignore})
		})
		lv.c.Event(1)
		if panicked {
			if lv.c.Violate("panic", "panic/"+site, "SearchForEndHeight(%d) on the live log panicked: %s", m.Height, msg) {
				lv.stop = true
			}
			return
		}
		// which file holds the marker, and is it still there?
		mf := -1
		for idx := 0; idx <= max; idx++ {
			s, ok := lv.starts[idx]
			e, ok2 := lv.starts[idx+1]
			if idx == max {
				e, ok2 = lv.bytes, true
			}
			if ok && ok2 && s <= m.Off && m.Off < e {
				mf = idx
			}
		}
		if !found {
			if mf >= 0 {
				if _, exists := fileSize(lv.path(mf)); exists {
					lv.violate("live-search/miss/"+errClass(err),
						"SearchForEndHeight(%d, ignore=%v) on the running log: found=false err=%v although the marker %s is completely on disk in file %d (files now %s; steps: %s)",
						m.Height, ignore, err, lv.describe(mi), mf, lv.files(), strings.Join(lv.trace, " "))
				}
			}
			return
		}
		if gr == nil {
			lv.violate("live-search/found-without-reader", "SearchForEndHeight(%d): found=true with a nil reader", m.Height)
			return
		}
		r := &liveReader{id: len(lv.readers), origin: fmt.Sprintf("the reader SearchForEndHeight(%d) returned", m.Height), gr: gr, dec: cs.NewWALDecoder(gr), next: mi + 1}
		lv.readers = append(lv.readers, r)
		lv.note(fmt.Sprintf("S%d=r%d", m.Height, r.id))
		lv.c.Probe("live_readers_from_search")
		return
	}
	// NewReader(index): a file whose first byte is known to be the start of a record
	var cands []int
	for idx := 0; idx <= max; idx++ {
		s, ok := lv.starts[idx]
		if !ok {
			continue
		}
		if _, isRec := lv.offIdx[s]; !isRec && s != lv.bytes {
			continue
		}
		if _, exists := fileSize(lv.path(idx)); !exists {
			continue
		}
		cands = append(cands, idx)
	}
	if len(cands) == 0 {
		return
	}
	idx := cands[t.Int(len(cands))]
	gr, err := lv.grp.NewReader(idx)
	lv.c.Event(1)
	if err != nil {
		lv.c.Probe("live_newreader_error")
		return
	}
	first, ok := lv.offIdx[lv.starts[idx]]
	if !ok {
		first = lv.written // an empty head: whatever comes next
	}
	r := &liveReader{id: len(lv.readers), origin: fmt.Sprintf("the reader NewReader(%d) returned", idx), gr: gr, dec: cs.NewWALDecoder(gr), next: first}
	lv.readers = append(lv.readers, r)
	lv.note(fmt.Sprintf("N%d=r%d", idx, r.id))
	lv.c.Probe("live_readers_from_newreader")
}

// stepReaders lets some open readers read some of what is safely on disk.
func (lv *live) stepReaders() {
	t := lv.t
	for _, r := range lv.open() {
		if lv.stop {
			return
		}
		if !t.Bool(1, 2) {
			continue
		}
		n := []int{1, 1, 2, 3, 8, 1000}[t.Int(6)]
		got := 0
		for ; n > 0 && r.next < lv.flushed && !r.done && !lv.stop; n-- {
			lv.read(r, false, "while the log was being written")
			got++
		}
		if got > 0 {
			lv.note(fmt.Sprintf("r%d+%d", r.id, got))
		}
		// reached the end of a log that ends at a record boundary: end-of-log now, more later
		if !r.done && !lv.stop && r.next == lv.written && lv.flushed == lv.written && t.Bool(1, 2) {
			if _, headExists := fileSize(lv.head); headExists {
				lv.read(r, true, "at the current end of the log")
				lv.note(fmt.Sprintf("r%d.", r.id))
			}
		}
	}
}

// background lets the group's own ticker routine run: rotation of a head that
// reached the limit and pruning of the oldest files.
func (lv *live) background() {
	d := time.Duration([]int{1, 2, 3, 6, 6, 11}[lv.t.Int(6)]) * time.Second
	before := lv.grp.MaxIndex()
	prunedBefore := lv.nPruned
	time.Sleep(d)
	synctest.Wait()
	lv.c.SimTime(d)
	lv.observe()
	s := fmt.Sprintf("T%ds", int(d/time.Second))
	if rot := lv.grp.MaxIndex() - before; rot > 0 {
		s += fmt.Sprintf("(rot%d)", rot)
		lv.c.ProbeN("live_ticker_rotations", rot)
		if lv.behind() > 0 {
			lv.c.Fault("live_rotation_under_open_reader")
		}
	}
	if p := lv.nPruned - prunedBefore; p > 0 {
		s += fmt.Sprintf("(pruned%d)", p)
		lv.c.ProbeN("live_files_pruned", p)
		if len(lv.open()) > 0 {
			lv.c.Fault("live_pruning_under_open_reader")
		}
	}
	lv.note(s)
}

func (lv *live) foreground() {
	switch lv.t.Pick(3, 3) {
	case 0:
		if err := lv.grp.Flush(); err != nil {
			lv.c.HarnessTrouble("flush: %v", err)
			lv.stop = true
			return
		}
		lv.flushed = lv.written
		lv.note("F")
	case 1:
		// RotateFile as the ticker calls it: only a head that exists and holds something
		if sz, ok := fileSize(lv.head); ok && sz > 0 {
			site, msg, panicked := kernel.Try(func() { lv.grp.RotateFile() })
			if panicked {
				if lv.c.Violate("panic", "panic/"+site, "RotateFile panicked: %s", msg) {
					lv.stop = true
				}
				return
			}
			lv.note("R")
			lv.c.Probe("live_explicit_rotations")
			if lv.behind() > 0 {
				lv.c.Fault("live_rotation_under_open_reader")
			}
		}
	}
	lv.observe()
}

// runLive is the live phase of one run. dir is a fresh directory.
func runLive(c *kernel.Ctx, dir string) *live {
	t := c.Tape.Fork("live")
	maxRec := 36
	if c.Tier == kernel.Thorough {
		maxRec = 90
	}
	n := t.Range(8, maxRec)
	headLimit := int64(t.Range(120, 900))
	var totalLimit int64
	if t.Bool(1, 3) {
		totalLimit = int64(t.Range(500, 3000))
	}
	g := &gen{t: t, h: uint64(1 + t.Int(40))}
	for i := 0; i < 4; i++ {
		g.addr = append(g.addr, t.Bytes(20))
	}
	g.peers = []string{"a1b2c3", hexs(t.Bytes(20)), hexs(t.Bytes(20))}
	recs := []*rec{{Kind: "endheight", Own: true, Height: 0, Msg: cs.EndHeightMessage{Height: 0}}}
	for len(recs) < n {
		r := g.next()
		recs = append(recs, r)
		if r.Kind != "endheight" && t.Bool(1, 6) {
			recs = append(recs, &rec{Kind: "endheight", Own: true, Height: g.h, Msg: cs.EndHeightMessage{Height: g.h}})
			g.h++
			g.round = 0
		}
	}
	for _, r := range recs {
		c.Finger("live", r.Kind, r.Own)
	}

	lv := &live{c: c, t: t, recs: recs, offIdx: map[int]int{}, starts: map[int]int{0: 0}, head: filepath.Join(dir, "wal")}
	kernel.Bubble(c, true, func() {
		// the tickers of the group and of its AutoFile start now and fire on whole
		// seconds; the driver stays half a second (and a bit) away from them, so that
		// a tick never coincides with one of its own steps
		wal, err := cs.NewWAL(lv.head)
		if err != nil {
			c.HarnessTrouble("NewWAL(live): %v", err)
			return
		}
		lv.wal, lv.grp = wal, wal.Group()
		lv.grp.SetHeadSizeLimit(headLimit)
		lv.grp.SetTotalSizeLimit(totalLimit)
		started := false
		defer func() {
			for _, r := range lv.readers {
				if r.gr != nil {
					r.gr.Close()
				}
			}
			kernel.Try(func() {
				if started {
					wal.Stop()
				} else {
					lv.grp.Close()
				}
				lv.grp.Head.Close()
			})
		}()
		time.Sleep(500*time.Millisecond + time.Duration(t.Int(400000))*time.Microsecond)
		synctest.Wait()

		site, msg, panicked := kernel.Try(func() {
			// record 0 is what OnStart writes into an empty head
			r0 := recs[0]
			var buf bytes.Buffer
			now := time.Now()
			if err := cs.NewWALEncoder(&buf).Encode(&cs.TimedWALMessage{Time: now, Msg: r0.Msg}); err != nil {
				panic(err)
			}
			r0.Frame, r0.Body = buf.Bytes(), ser.MustEncodeToBytes(&cs.TimedWALMessage{Time: now, Msg: r0.Msg})
			r0.Off, r0.End = 0, len(r0.Frame)
			lv.offIdx[0] = 0
			if err := wal.Start(); err != nil {
				panic(err)
			}
			started = true
			lv.written, lv.bytes, lv.flushed = 1, r0.End, 1
			lv.observe()

			for lv.written < len(recs) && !lv.stop {
				// between two writes: tape-chosen reader, foreground and background steps
				for k := t.Int(4); k > 0 && !lv.stop; k-- {
					switch t.Pick(3, 4, 2, 2) {
					case 0:
						lv.newReader()
					case 1:
						lv.stepReaders()
					case 2:
						lv.foreground()
					case 3:
						lv.background()
					}
				}
				if lv.stop {
					break
				}
				lv.write()
			}
			if lv.stop {
				return
			}
			// a last reader, a last tick, then everything is flushed and every reader reads to the end
			if t.Bool(1, 2) {
				lv.newReader()
			}
			if t.Bool(1, 3) {
				lv.background()
			}
			if err := lv.grp.Flush(); err != nil {
				panic(err)
			}
			lv.flushed = lv.written
			lv.note("F|")
			lv.observe()
			for _, r := range lv.open() {
				for r.next < lv.written && !r.done && !lv.stop {
					lv.read(r, false, "reading to the end after the final flush")
				}
				if !r.done && !lv.stop {
					lv.read(r, true, "at the end of the log")
				}
				c.Evals(1)
			}
		})
		if panicked && !lv.stop {
			if strings.Contains(site, "walrig") || strings.Contains(site, "kernel") {
				c.HarnessTrouble("live phase: %s: %s", site, msg)
			} else {
				c.Violate("panic", "panic/"+site, "panic in the live phase (steps: %s): %s", strings.Join(lv.trace, " "), msg)
			}
		}
	})
	c.Finger("live-trace", strings.Join(lv.trace, " "))
	c.ProbeN("live_readers", len(lv.readers))
	if lv.pruned {
		c.Probe("live_logs_pruned")
	}
	return lv
}

func (lv *live) summary() map[string]interface{} {
	tr := strings.Join(lv.trace, " ")
	if len(tr) > 400 {
		tr = tr[:400] + "..."
	}
	return map[string]interface{}{"records": lv.written, "readers": len(lv.readers), "steps": tr}
}
