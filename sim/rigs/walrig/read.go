package walrig

import (
	"bytes"
	"fmt"
	"io"
	"os"
	"path/filepath"

	cs "github.com/lianxiangcloud/linkchain/consensus"
	"github.com/lianxiangcloud/linkchain/libs/ser"

	"verif/sim/kernel"
)

// complete returns the number of records that lie entirely before the damage.
func (st *state) complete(d damage) int {
	switch d.kind {
	case "intact":
		return len(st.recs)
	case "bytechange":
		return d.rec
	}
	n := 0
	for n < len(st.recs) && st.recs[n].End <= d.x {
		n++
	}
	return n
}

func (d damage) String() string {
	switch d.kind {
	case "intact":
		return "intact log"
	case "bytechange":
		return fmt.Sprintf("byte at offset %d (%s field of record %d) changed to 0x%02x", d.x, d.field, d.rec, d.val)
	}
	return fmt.Sprintf("%s at offset %d", d.kind, d.x)
}

func (d damage) label() string {
	if d.kind == "bytechange" {
		return "bytechange-" + d.field
	}
	return d.kind
}

func (st *state) violate(class, key, format string, args ...interface{}) {
	if st.c.Violate(class, key, format, args...) {
		st.stop = true
	}
}

func (st *state) describe(i int) string {
	if i < 0 || i >= len(st.recs) {
		return "none"
	}
	r := st.recs[i]
	if r.Kind == "endheight" {
		return fmt.Sprintf("#%d endheight(%d) [%d,%d)", i, r.Height, r.Off, r.End)
	}
	return fmt.Sprintf("#%d %s [%d,%d)", i, r.Kind, r.Off, r.End)
}

// decodeFrom iterates the real decoder over rd and compares what it yields
// with the written records starting at index from. It returns the number of
// records yielded before the first error/EOF and that first terminal.
func (rd *reader) decodeFrom(d damage, r io.Reader, from int, ctx string) (strictK int, strictErr error, okRun bool) {
	st := rd.st
	dec := cs.NewWALDecoder(r)
	i := from
	strictEnded := false
	maxSteps := len(st.lay.concat)/8 + 16
	for step := 0; step < maxSteps; step++ {
		var m *cs.TimedWALMessage
		var err error
		site, msg, panicked := kernel.Try(func() { m, err = dec.Decode() })
		if panicked {
			st.violate("panic", "panic/"+site, "%s: WALDecoder.Decode panicked reading %s: %s", ctx, d, msg)
			return strictK, strictErr, false
		}
		if err == io.EOF {
			if !strictEnded {
				strictK, strictErr = i-from, err
			}
			return strictK, strictErr, true
		}
		if err != nil {
			if !strictEnded {
				strictEnded = true
				strictK, strictErr = i-from, err
			}
			if cs.IsDataCorruptionError(err) {
				// what IgnoreDataCorruptionErrors does: skip the entry, keep reading
				st.stats["continued-after-corruption"]++
				continue
			}
			return strictK, strictErr, true
		}
		if m == nil {
			st.violate("wal-decode", "decode-nil-message/"+d.label(), "%s: Decode returned neither a message nor an error reading %s", ctx, d)
			return strictK, strictErr, false
		}
		re, e := ser.EncodeToBytes(m)
		if e != nil {
			st.violate("wal-decode", "decode-unwritten/"+d.label()+"/unencodable", "%s: decoder yielded a message that cannot be re-encoded (%v) reading %s", ctx, e, d)
			return strictK, strictErr, false
		}
		if !strictEnded {
			if i < len(st.frames) && bytes.Equal(re, st.frames[i]) {
				i++
				continue
			}
			where := "unwritten"
			for j := range st.frames {
				if bytes.Equal(re, st.frames[j]) {
					where = "out-of-order"
					break
				}
			}
			st.violate("wal-decode", "decode-"+where+"/"+d.label(),
				"%s: reading %s the decoder yielded as message %d a %T that is not written record %s (%s; yielded %d bytes re-encoded)",
				ctx, d, i, m.Msg, st.describe(i), where, len(re))
			return strictK, strictErr, false
		}
		// after a skipped corrupted entry: still nothing that was not written, still in order
		j := i
		for j < len(st.frames) && !bytes.Equal(re, st.frames[j]) {
			j++
		}
		if j == len(st.frames) {
			st.violate("wal-decode", "decode-unwritten-after-skip/"+d.label(),
				"%s: reading %s and continuing after a DataCorruptionError the decoder yielded a %T that was not written (or not after record %d)", ctx, d, m.Msg, i)
			return strictK, strictErr, false
		}
		i = j + 1
		st.stats["yielded-after-skip"]++
	}
	st.violate("wal-decode", "decode-endless/"+d.label(), "%s: decoder did not terminate reading %s", ctx, d)
	return strictK, strictErr, false
}

// check reads the (damaged) log back and applies the oracle.
func (rd *reader) check(d damage, full bool) {
	st := rd.st
	c := st.c
	grp := rd.wal.Group()
	complete := st.complete(d)

	// ---- the whole log through GroupReader + WALDecoder
	gr, err := grp.NewReader(grp.MinIndex())
	if err != nil {
		c.HarnessTrouble("NewReader: %v", err)
		st.stop = true
		return
	}
	k, term, ok := rd.decodeFrom(d, gr, 0, "replay from the start")
	gr.Close()
	if !ok {
		return
	}
	st.stats[d.label()+" -> "+errClass(term)]++
	if d.kind == "intact" && (k < complete || term != io.EOF) {
		// the undamaged log does not give back what was written
		st.unreadableFrom = k
		r := st.recs[min(k, len(st.recs)-1)]
		st.violate("wal-decode", "intact-log-unreadable/"+errClass(term),
			"the undamaged log replays only %d of %d written records, then %v; first record not given back: %s (%s written with %s, %d bytes framed; file sizes %v)",
			k, complete, term, st.describe(k), r.Kind, map[bool]string{true: "WriteSync", false: "Write"}[r.Own], len(r.Frame), st.lay.sizes())
		return
	}
	if d.kind == "bytechange" && d.field != "len" && k == complete && term != nil && term != io.EOF && !cs.IsDataCorruptionError(term) {
		// the length field is intact, so the decoder had the whole damaged record in
		// hand: what it reports must be of the corruption class (the class is what
		// IgnoreDataCorruptionErrors and catchupReplay act on)
		st.violate("wal-decode", "decode-corruption-not-classified/"+d.label(),
			"reading %s: the decoder stopped at the damaged record with %T %q, for which consensus.IsDataCorruptionError is false", d, term, term.Error())
		if st.stop {
			return
		}
	}
	if k < complete {
		st.violate("wal-decode", "decode-lost-record/"+d.label()+"/"+errClass(term),
			"reading %s: only %d of the %d records that lie completely before the damage were yielded, then %v; first missing: %s",
			d, k, complete, term, st.describe(k))
		if st.stop {
			return
		}
	}
	// ---- end-height markers
	if !full && st.searchStride > 1 && d.pick%st.searchStride != 0 {
		return
	}
	switch d.kind {
	case "intact", "truncation", "truncation-fresh":
		// nearest markers around the cut
		before, after := -1, -1
		for mi, m := range st.markers {
			if m.End <= d.x {
				before = mi
			} else if after < 0 {
				after = mi
			}
		}
		ign := d.pick%2 == 1
		if full {
			for mi := range st.markers {
				rd.searchWritten(d, mi, ign)
				if mi == before || mi == after {
					rd.searchWritten(d, mi, !ign)
				}
				if st.stop {
					return
				}
			}
			rd.searchAbsent(d, st.absentHeight(d.pick), ign)
			rd.searchAbsent(d, st.markers[len(st.markers)-1].Height+1, !ign)
		} else {
			if before >= 0 {
				rd.searchWritten(d, before, ign)
			}
			if after >= 0 && !st.stop {
				rd.searchWritten(d, after, !ign)
			}
		}
	case "bytechange":
		r := st.recs[d.rec]
		if r.Kind == "endheight" {
			// what would the damaged payload say if the checksum were not looked at?
			pl := append([]byte(nil), r.Frame[8:]...)
			if rel := d.x - r.Off - 8; rel >= 0 && rel < len(pl) {
				pl[rel] = d.val
				var tm cs.TimedWALMessage
				if ser.DecodeBytes(pl, &tm) == nil {
					if eh, isEH := tm.Msg.(cs.EndHeightMessage); isEH && !st.written[eh.Height] {
						rd.searchAbsent(d, eh.Height, false)
						rd.searchAbsent(d, eh.Height, true)
					}
				}
			}
		}
		if d.pick%16 == 0 && !st.stop {
			rd.searchAbsent(d, st.absentHeight(d.pick/16), d.pick%32 == 0)
		}
		if d.field != "len" && !st.stop {
			// The length field is intact, so the stream stays in step behind the
			// damaged record: a search that skips corrupted entries
			// (IgnoreDataCorruptionErrors=true, what catchupReplay passes) must
			// still find every other completely written marker, before and after.
			after, before := -1, -1
			for mi, m := range st.markers {
				if m == r {
					continue
				}
				if m.Off >= r.End && after < 0 {
					after = mi
				}
				if m.End <= r.Off {
					before = mi
				}
			}
			older := -1 // a marker in a file older than the damaged record's: the search passes the damage first
			df := st.lay.fileOf(r.Off)
			for mi, m := range st.markers {
				if m != r && st.lay.fileOf(m.Off) < df {
					older = mi
				}
			}
			switch {
			case d.field == "payload" && d.pick%2 == 1:
				// every second payload change: one of the two far ones
				if older >= 0 && d.pick%4 == 1 {
					rd.searchWritten(d, older, true)
				} else if before >= 0 {
					rd.searchWritten(d, before, true)
				}
			default:
				if after >= 0 {
					rd.searchWritten(d, after, true)
				} else if older >= 0 {
					rd.searchWritten(d, older, true)
				}
			}
		}
		if d.pick%8 == 0 && d.field == "len" && !st.stop {
			// statistics only (a changed length field may hide what follows): a marker upstream of the damage
			up := -1
			for mi, m := range st.markers {
				if m.End <= r.Off {
					up = mi
				}
			}
			if up >= 0 {
				ign := d.pick%16 == 0
				found, _, ok := rd.search(d, st.markers[up].Height, ign)
				if ok {
					if found {
						c.Probe("lenchange_upstream_marker_found")
					} else if ign {
						c.Probe("lenchange_upstream_marker_missed_ignoring_corruption")
					} else {
						c.Probe("lenchange_upstream_marker_missed_strict")
					}
				}
			}
		}
	}
}

// absentHeight returns a height for which no marker was written.
func (st *state) absentHeight(pick int) uint64 {
	last := st.markers[len(st.markers)-1].Height
	cands := []uint64{last + 1, last + 2, last + 1000, 1 << 40}
	for _, m := range st.markers {
		if m.Height > 0 && !st.written[m.Height-1] {
			cands = append(cands, m.Height-1)
		}
	}
	return cands[pick%len(cands)]
}

// affordable accounts for the worst-case number of files a search for a marker
// in file f opens (every file from the newest down to f is read to the end of
// the group) and refuses once the run's allowance is used up. The intact log
// is always searched.
func (rd *reader) affordable(d damage, f int) bool {
	st := rd.st
	n := len(st.lay.names) - f
	est := n * (n + 1) / 2
	if d.kind != "intact" && st.searchCap > 0 && st.searchWork+est > st.searchCap {
		st.c.Probe("searches_skipped_for_cost")
		return false
	}
	st.searchWork += est
	return true
}

func (rd *reader) search(d damage, h uint64, ignore bool) (found bool, err error, ok bool) {
	st := rd.st
	if !rd.affordable(d, 0) {
		return false, nil, false
	}
	var closer interface{ Close() error }
	site, msg, panicked := kernel.Try(func() {
		gr, f, e := rd.wal.SearchForEndHeight(h, &cs.WALSearchOptions{IgnoreDataCorruptionErrors: ignore})
		found, err = f, e
		if gr != nil {
			closer = gr
		}
	})
	if closer != nil {
		closer.Close()
	}
	if panicked {
		st.violate("panic", "panic/"+site, "SearchForEndHeight(%d, ignore=%v) panicked reading %s: %s", h, ignore, d, msg)
		return false, nil, false
	}
	st.c.Event(1)
	return found, err, true
}

// searchWritten: under truncation / on the intact log a marker is found iff it
// lies completely before the cut; when found, the returned reader continues
// with the records written after the marker.
func (rd *reader) searchWritten(d damage, mi int, ignore bool) {
	st := rd.st
	m := st.markers[mi]
	want := m.End <= d.x
	if d.kind == "bytechange" {
		want = true // only asked for changes that leave the stream in step and for markers other than the damaged record
	}
	if !rd.affordable(d, st.lay.fileOf(m.Off)) {
		return
	}
	var gr io.ReadCloser
	var found bool
	var err error
	site, msg, panicked := kernel.Try(func() {
		g, f, e := rd.wal.SearchForEndHeight(m.Height, &cs.WALSearchOptions{IgnoreDataCorruptionErrors: ignore})
		found, err = f, e
		if g != nil {
			gr = g
		}
	})
	if panicked {
		st.violate("panic", "panic/"+site, "SearchForEndHeight(%d, ignore=%v) panicked reading %s: %s", m.Height, ignore, d, msg)
		return
	}
	st.c.Event(1)
	if gr != nil {
		defer gr.Close()
	}
	switch {
	case want && !found && !ignore && err != nil:
		// IgnoreDataCorruptionErrors=false asks to be told about damage: a miss
		// that is reported as an error is "reports corruption", not a wrong answer
		st.stats["search-miss-reported-as-error/"+d.kind+"/"+errClass(err)]++
	case want && !found:
		f := st.lay.fileOf(m.Off)
		newest := st.lay.fileOf(max0(d.x - 1))
		if d.kind == "bytechange" {
			newest = st.lay.fileOf(max0(len(st.lay.concat) - 1))
		}
		where := "marker-in-older-file"
		if f == newest {
			where = "marker-in-newest-file"
		}
		// attribute the miss: the search opens every file from the newest down
		// to the marker's as a fresh stream
		cause := ""
		for j := f; j <= newest && j < len(st.lay.start); j++ {
			if j > 0 && len(st.lay.data[j]) > 0 && !st.isBoundary(st.lay.start[j]) && st.lay.start[j] < d.x {
				cause = "file-starts-mid-record"
			}
		}
		ec := errClass(err)
		if cause == "" && (d.kind == "truncation" || d.kind == "truncation-fresh") && !st.isBoundary(d.x) && (ec == "err-read-length" || ec == "err-read-data") && f < newest {
			cause = "torn-tail-read-error"
		}
		if cause == "" {
			cause = "other/" + d.label() + "/" + where + "/" + ec
		}
		st.stats["search-miss/"+cause]++
		st.violate("wal-search", "search-miss/"+cause,
			"SearchForEndHeight(%d, ignore=%v) on %s: found=false err=%v, although the marker %s was completely written (it is in file %d of %d, file sizes %v; the newest data is in file %d)",
			m.Height, ignore, d, err, st.describe(st.recIndex(m)), f, len(st.lay.names), st.lay.sizes(), newest)
	case !want && found:
		st.violate("wal-search", "search-found-incomplete/"+d.kind,
			"SearchForEndHeight(%d, ignore=%v) on %s: found=true although the marker %s does not lie completely before the cut", m.Height, ignore, d, st.describe(st.recIndex(m)))
	case found:
		if gr == nil {
			st.violate("wal-search", "search-found-without-reader/"+d.kind, "SearchForEndHeight(%d) on %s: found=true with a nil reader", m.Height, d)
			return
		}
		// the reader continues right after the marker
		from := st.recIndex(m) + 1
		k, term, ok := rd.decodeFrom(d, gr, from, fmt.Sprintf("replay after marker %d", m.Height))
		if !ok {
			return
		}
		if c := st.complete(d) - from; k < c {
			st.violate("wal-search", "search-reader-lost-record/"+d.kind+"/"+errClass(term),
				"reading %s from the reader SearchForEndHeight(%d) returned: %d of %d complete records after the marker, then %v", d, m.Height, k, c, term)
		}
	}
}

func (rd *reader) searchAbsent(d damage, h uint64, ignore bool) {
	st := rd.st
	if st.written[h] {
		return
	}
	found, _, ok := rd.search(d, h, ignore)
	if ok && found {
		st.violate("wal-search", "search-found-unwritten/"+d.label(),
			"SearchForEndHeight(%d, ignore=%v) on %s: found=true but no marker of that height was ever written (written: %v)", h, ignore, d, st.heights())
	}
}

func (st *state) recIndex(m *rec) int {
	for i, r := range st.recs {
		if r == m {
			return i
		}
	}
	return -1
}

func (st *state) heights() []uint64 {
	var hs []uint64
	for _, m := range st.markers {
		hs = append(hs, m.Height)
	}
	return hs
}

func (l *layout) sizes() []int {
	var s []int
	for _, d := range l.data {
		s = append(s, len(d))
	}
	return s
}

func (st *state) isBoundary(x int) bool {
	if x == len(st.lay.concat) {
		return true
	}
	return st.bound[x]
}

func max0(x int) int {
	if x < 0 {
		return 0
	}
	return x
}

// freshCuts: the log cut inside a rotated file, the later files absent, read
// through a newly opened group (its index range comes from the directory).
func (st *state) freshCuts(dmg *kernel.Tape, dir string) {
	c := st.c
	lay := st.lay
	var cands []int
	for f := 0; f < len(lay.names)-1; f++ {
		n := len(lay.data[f])
		for _, o := range []int{0, 1, n / 2, n - 1, n} {
			if o >= 0 && o <= n {
				cands = append(cands, lay.start[f]+o)
			}
		}
	}
	for k := 0; k < 5 && len(cands) > 0 && !st.stop; k++ {
		i := dmg.Int(len(cands))
		x := cands[i]
		cands = append(cands[:i], cands[i+1:]...)
		f := lay.fileOf(x)
		if x == lay.start[f] && f > 0 {
			f-- // a cut at a file boundary: the later file is the absent one
		}
		if f >= len(lay.names)-1 {
			continue
		}
		d2 := filepath.Join(dir, fmt.Sprintf("fresh%d", k))
		if err := os.MkdirAll(d2, 0700); err != nil {
			c.HarnessTrouble("mkdir: %v", err)
			return
		}
		for j := 0; j <= f; j++ {
			b := lay.data[j]
			if j == f {
				b = b[:x-lay.start[j]]
			}
			if err := os.WriteFile(filepath.Join(d2, filepath.Base(lay.names[j])), b, 0600); err != nil {
				c.HarnessTrouble("write: %v", err)
				return
			}
		}
		w2, err := cs.NewWAL(filepath.Join(d2, "wal"))
		if err != nil {
			c.HarnessTrouble("NewWAL(fresh): %v", err)
			return
		}
		c.Fault("truncation_later_files_absent")
		(&reader{st: st, wal: w2}).check(damage{kind: "truncation-fresh", x: x, pick: k}, true)
		c.Evals(1)
		w2.Group().Close()
		w2.Group().Head.Close()
		os.RemoveAll(d2)
	}
}
