// Package walrig is the rig of property C14: reading back a consensus
// write-ahead log that was cut at any byte offset, or in which one byte was
// altered, yields a prefix of the messages that were written, then end-of-log
// or an error, and never a message that was not written; an end-of-height
// marker is found if and only if it was completely written, also when the log
// has rotated across files.
//
// One run writes a generated sequence of every record kind the node writes
// through the real baseWAL (real autofile.Group, real files, rotation at the
// drawn head size limit), then enumerates damage on the files on disk and reads
// each damaged log back through the real GroupReader + WALDecoder and through
// the real SearchForEndHeight.
package walrig

import (
	"bytes"
	"fmt"
	"io"
	stdlog "log"
	"os"
	"path/filepath"
	"sort"
	"strconv"
	"strings"
	"testing"
	"testing/synctest"
	"time"

	cs "github.com/lianxiangcloud/linkchain/consensus"
	cstypes "github.com/lianxiangcloud/linkchain/consensus/types"
	"github.com/lianxiangcloud/linkchain/libs/common"
	"github.com/lianxiangcloud/linkchain/libs/crypto"
	"github.com/lianxiangcloud/linkchain/libs/crypto/merkle"
	"github.com/lianxiangcloud/linkchain/libs/log"
	"github.com/lianxiangcloud/linkchain/libs/ser"
	"github.com/lianxiangcloud/linkchain/types"

	"verif/sim/kernel"
)

func init() {
	log.Root().SetHandler(log.DiscardHandler())
	stdlog.SetOutput(io.Discard) // autofile warns through the standard logger
}

// Describe returns the rig (registered by the composite rigs/c14rig; the
// package's own tests register it themselves).
func Describe() *kernel.Rig {
	return &kernel.Rig{
		Property: "C14",
		Name:     "wal",
		Level:    "fault_enumeration",
		Rule: "sequences of 6..120 (thorough ..400) records of every kind the node writes (EventDataRoundState, peer/own ProposalMessage, BlockPartMessage, VoteMessage, timeouts, EndHeightMessage at increasing heights) written through the real baseWAL.Write/WriteSync " +
			"into a real autofile.Group on disk, head size limit drawn from 200 B up to 'never', the group's periodic head-size check performed at tape-chosen instants between writes (also between the write and the flush of a WriteSync); 1 run in 6 uses block parts of 8..45 KB so that the group's 40 KB write buffer spills mid-record; " +
			"then on the files on disk: truncation of the concatenation (= of the newest file for the last offsets) at EVERY offset and a single-byte change at EVERY offset (header bytes: up to 4 values, payload bytes: 1 value) when that fits the per-run budget of damaged reads (quick 6000, thorough 40000, less for logs with many or large records: the budget is capped by the decode work), " +
			"else +-9 bytes around every marker, every file boundary, the end of the log and as many other record boundaries as fit, plus a seeded sample; a few cuts per run are also read through a freshly opened group in which the files after the cut are absent; half of the rotated logs are renumbered before the reopen so that their file indices straddle 999|1000 or 9999|10000 or lie beyond 999 (a long-lived node whose old files were pruned), and the reopened group's index range is compared with the directory. Before that, a live phase per run: 8..36 (thorough ..90) small records through a started baseWAL inside one virtual-time bubble, head limit 120..900 B, total-size limit off or 500..3000 B; up to 5 readers obtained from NewReader(index) and from SearchForEndHeight(marker) at tape-chosen instants and advanced by tape-chosen amounts between the writes, interleaved with Write/WriteSync, Flush, explicit RotateFile and virtual sleeps of 1..11 s during which the group's real ticker routine rotates and prunes; after a final flush every reader reads to the end. One oracle evaluation = one damaged (or intact) log read back, or one live reader read to its end. " +
			"Non-trivial: >= 3 record kinds, >= 2 end-height markers, >= 200 damaged reads. Fingerprint: record kinds/sizes, file layout, per-class counts of read-back results.",
		Real: []string{"consensus.baseWAL (NewWAL, Write, WriteSync, SearchForEndHeight)", "consensus.WALEncoder / WALDecoder / DataCorruptionError", "autofile.Group (buffered Write, Flush, RotateFile, readGroupInfo, NewReader) and GroupReader.Read across rotated files", "autofile.AutoFile on real files", "live phase: baseWAL.Start/Stop, Group.processTicks -> checkHeadSizeLimit / checkTotalSizeLimit on the bubble's virtual clock, GroupReader against a group that is written, rotated and pruned under it",
			"ser codec of TimedWALMessage and of every consensus message type", "consensus msgInfo/timeoutInfo records (through the verif hook constructors)"},
		Stub: []string{"damage phase: baseWAL.OnStart/OnStop are not called (their goroutines cannot live in a virtual-time bubble): the harness writes the initial EndHeightMessage{0} with WriteSync as OnStart does on an empty head, and flushes+closes the group as OnStop does",
			"Group.processTicks/checkHeadSizeLimit: the harness performs the same check (Head.Size() >= HeadSizeLimit() -> RotateFile()) at tape-chosen instants instead of every 5 s of wall time",
			"wall clock: writes run inside a testing/synctest bubble so that the time stamp inside every record (and therefore every byte offset) is a function of the seed",
			"disk damage: os.Truncate / one-byte pwrite on the real files"},
		Assumptions: []string{
			"Damage is a cut of the concatenated log (files after the cut empty or absent) or one altered byte; torn writes in the middle of older files, several damaged bytes, lost or reordered files are not generated.",
			"Messages are compared by re-encoding the decoded TimedWALMessage (time stamp included) with the real codec against the bytes the real WALEncoder produced at write time; a codec that does not round-trip would be reported here although it belongs to C11.",
			"Under truncation every completely written record before the cut must be yielded and every completely written marker found (both values of IgnoreDataCorruptionErrors). Under a single-byte change SearchForEndHeight must be sound (found => written); when the changed byte is in the checksum or payload (length field intact, stream stays in step) a search with IgnoreDataCorruptionErrors=true must also find every other completely written marker, before and after the damaged record, and the decoder's error for that record must satisfy consensus.IsDataCorruptionError; for a changed length byte only soundness is demanded. The decoder must yield the records before the damaged one plus nothing that was not written; continuing after a DataCorruptionError (what IgnoreDataCorruptionErrors does) must also never yield an unwritten message.",
			"Total-size pruning of old WAL files (checkTotalSizeLimit) is exercised only in the live phase; writer restarts on an existing log are not generated.",
			"Live phase: a reader is only asked for records the harness knows to be completely on disk (reading into a half-flushed tail is the truncation case of the damage phase), SearchForEndHeight is only called when the log ends at a record boundary and the head file exists; a reader may fail only when the file it has to open next was removed by the pruning; the steps of reader, writer and ticker routine are sequential (tape-ordered), true parallel races inside one Read are not generated.",
			"CRC32C detects every single-byte change; the oracle does not rely on it, but an undetected change that decodes to an unwritten message would be reported as a violation (probability 2^-32 per length-field change).",
		},
		QuickRuns: 240, QuickBudget: 50 * time.Second,
		ThoroughRuns: 4000, ThoroughBudget: 18 * time.Minute,
		RunsPerProcess: 60,
		RunTimeout:     600 * time.Second,
		Run:            run,
	}
}

// ---------------------------------------------------------------- records

type rec struct {
	Kind   string // endheight | roundstate | proposal | part | vote | timeout
	Own    bool   // written with WriteSync (the node's own messages and markers)
	Msg    cs.WALMessage
	Height uint64 // markers
	Frame  []byte // what the real encoder produces for this record (crc|len|payload)
	Body   []byte // the codec's encoding of the timed message, computed apart from the encoder
	Off    int    // offset of the frame in the concatenated log
	End    int
	// schedule
	sleep     time.Duration
	tickAfter bool
	tickMid   bool // own records: check between the write and the flush
}

type gen struct {
	t       *kernel.Tape
	bigPart bool
	h       uint64
	round   int
	addr    [][]byte
	peers   []string
}

func (g *gen) sig() crypto.Signature {
	var s crypto.SignatureEd25519
	copy(s[:], g.t.Bytes(64))
	return s
}

func (g *gen) hash() common.Hash { return common.BytesToHash(g.t.Bytes(32)) }

func (g *gen) blockID() types.BlockID {
	if g.t.Bool(1, 4) {
		return types.BlockID{}
	}
	return types.BlockID{Hash: g.hash(), PartsHeader: types.PartSetHeader{Total: 1 + g.t.Int(8), Hash: g.t.Bytes(20)}}
}

func (g *gen) ts() time.Time {
	return time.Unix(1500000000+int64(g.t.Int(200000000)), int64(g.t.Int(1000))*1000000).UTC()
}

func (g *gen) peer() (string, bool) {
	own := 3
	if g.bigPart {
		own = 6 // long unsynced stretches let the group's write buffer spill
	}
	if g.t.Bool(1, own) {
		return "", true // own message
	}
	return g.peers[g.t.Int(len(g.peers))], false
}

var steps = []cstypes.RoundStepType{cstypes.RoundStepNewHeight, cstypes.RoundStepNewRound, cstypes.RoundStepPropose, cstypes.RoundStepPrevote,
	cstypes.RoundStepPrevoteWait, cstypes.RoundStepPrecommit, cstypes.RoundStepPrecommitWait, cstypes.RoundStepCommit, cstypes.RoundStepRecover}

func (g *gen) next() *rec {
	t := g.t
	wPart := 18
	if g.bigPart {
		wPart = 45
	}
	switch t.Pick(14, 10, wPart, 30, 12, 10, 8) {
	case 0: // step event
		return &rec{Kind: "roundstate", Msg: types.EventDataRoundState{Height: g.h, Round: g.round, Step: steps[t.Int(len(steps))].String()}}
	case 1: // proposal
		peer, own := g.peer()
		p := &types.Proposal{Type: types.ProposalTypeNormal, Height: g.h, Round: g.round, Timestamp: g.ts(),
			BlockPartsHeader: types.PartSetHeader{Total: 1 + t.Int(8), Hash: t.Bytes(20)}, POLRound: -1, Signature: g.sig()}
		if t.Bool(1, 4) {
			p.POLRound = t.Int(g.round + 1)
			p.POLBlockID = g.blockID()
		}
		if t.Bool(1, 8) {
			p.Type = types.ProposalTypeRecover
		}
		return &rec{Kind: "proposal", Own: own, Msg: cs.VerifPackMsg(&cs.ProposalMessage{Proposal: p}, peer)}
	case 2: // block part
		peer, own := g.peer()
		var n int
		if g.bigPart {
			n = 8000 + t.Int(37000)
		} else {
			n = []int{1, 20, 90, 300, 700}[t.Pick(1, 4, 4, 3, 1)] + t.Int(40)
		}
		part := &types.Part{Index: t.Int(8), Bytes: t.Bytes(n)}
		for k := t.Int(4); k > 0; k-- {
			part.Proof.Aunts = append(part.Proof.Aunts, t.Bytes(20))
		}
		if part.Proof.Aunts == nil {
			part.Proof = merkle.SimpleProof{Aunts: [][]byte{}}
		}
		return &rec{Kind: "part", Own: own, Msg: cs.VerifPackMsg(&cs.BlockPartMessage{Height: g.h, Round: g.round, Part: part}, peer)}
	case 3: // vote
		peer, own := g.peer()
		vt := types.VoteTypePrevote
		if t.Bool(1, 2) {
			vt = types.VoteTypePrecommit
		}
		i := t.Int(len(g.addr))
		v := &types.Vote{ValidatorAddress: g.addr[i], ValidatorIndex: i, ValidatorSize: len(g.addr), Height: g.h, Round: g.round,
			Timestamp: g.ts(), Type: vt, BlockID: g.blockID(), Signature: g.sig()}
		return &rec{Kind: "vote", Own: own, Msg: cs.VerifPackMsg(&cs.VoteMessage{Vote: v}, peer)}
	case 4: // timeout
		d := []time.Duration{0, time.Millisecond, 3 * time.Second, 3*time.Second + 500*time.Millisecond, time.Hour}[t.Int(5)]
		return &rec{Kind: "timeout", Msg: cs.VerifPackTimeout(cs.VerifTimeout{Duration: d, Height: g.h, Round: g.round, Step: steps[t.Int(len(steps))]})}
	case 5: // next round
		g.round++
		return &rec{Kind: "roundstate", Msg: types.EventDataRoundState{Height: g.h, Round: g.round, Step: cstypes.RoundStepNewRound.String()}}
	default: // end of height
		r := &rec{Kind: "endheight", Own: true, Height: g.h, Msg: cs.EndHeightMessage{Height: g.h}}
		g.h += 1
		if t.Bool(1, 10) {
			g.h += uint64(1 + t.Int(3))
		}
		g.round = 0
		return r
	}
}

// jumboPart builds a peer block part message whose wire encoding is `below`
// bytes under the largest message the consensus reactor accepts on its data
// channel (the limit is read from the reactor's channel descriptors).
func (g *gen) jumboPart(below int) *rec {
	capacity := 0
	for _, ch := range (&cs.ConsensusReactor{}).GetChannels() {
		if ch.ID == cs.DataChannel {
			capacity = ch.RecvMessageCapacity
		}
	}
	target := capacity - below
	mk := func(n int) *cs.BlockPartMessage {
		// cheap deterministic filler (drawing a megabyte from the tape would bloat replay files)
		b := make([]byte, n)
		for i := range b {
			b[i] = byte(i*7 + i>>8)
		}
		return &cs.BlockPartMessage{Height: g.h, Round: g.round, Part: &types.Part{Index: 0, Bytes: b, Proof: merkle.SimpleProof{Aunts: [][]byte{}}}}
	}
	n := target
	var m *cs.BlockPartMessage
	for tries := 0; tries < 64 && n > 0; tries++ {
		m = mk(n)
		sz := len(ser.MustEncodeToBytesWithType(m))
		if sz == target {
			break
		}
		n -= sz - target
	}
	return &rec{Kind: "part", Msg: cs.VerifPackMsg(m, g.peers[1+g.t.Int(2)])}
}

// ---------------------------------------------------------------- layout on disk

type layout struct {
	dir    string
	head   string
	names  []string // file paths in index order (last = head)
	data   [][]byte // original contents
	start  []int    // offset of each file in the concatenation
	concat []byte
}

func readLayout(dir string, minIndex, maxIndex int) (*layout, error) {
	l := &layout{dir: dir, head: filepath.Join(dir, "wal")}
	off := 0
	for i := minIndex; i <= maxIndex; i++ {
		p := l.head
		if i < maxIndex {
			p = fmt.Sprintf("%s.%03d", l.head, i)
		}
		b, err := os.ReadFile(p)
		if err != nil {
			return nil, err
		}
		l.names = append(l.names, p)
		l.data = append(l.data, b)
		l.start = append(l.start, off)
		off += len(b)
		l.concat = append(l.concat, b...)
	}
	return l, nil
}

// fileOf returns the index of the file that holds concatenation offset x (the
// byte at x); for x == len(concat) the last file.
func (l *layout) fileOf(x int) int {
	f := sort.Search(len(l.start), func(i int) bool { return l.start[i] > x }) - 1
	if f < 0 {
		f = 0
	}
	// skip empty files: the byte at x lives in the first file whose range contains it
	for f < len(l.data)-1 && x >= l.start[f]+len(l.data[f]) {
		f++
	}
	return f
}

// truncateAt makes the files on disk equal to the concatenation cut at x:
// the file holding the cut is shortened, all later files are emptied.
func (l *layout) truncateAt(x int) error {
	for f := range l.names {
		keep := x - l.start[f]
		if keep < 0 {
			keep = 0
		}
		if keep > len(l.data[f]) {
			keep = len(l.data[f])
		}
		if err := os.Truncate(l.names[f], int64(keep)); err != nil {
			return err
		}
	}
	return nil
}

func (l *layout) restore() error {
	for f := range l.names {
		if err := os.WriteFile(l.names[f], l.data[f], 0600); err != nil {
			return err
		}
	}
	return nil
}

// ---------------------------------------------------------------- run

type state struct {
	c         *kernel.Ctx
	recs      []*rec
	frames    [][]byte // the written timed messages in the codec's encoding, for comparison with re-encodings
	lay       *layout
	markers   []*rec // in order of writing
	written   map[uint64]bool
	midRecord bool // some file starts inside a record
	bound     map[int]bool
	stats     map[string]int
	stop      bool
	// index of the first record the intact log could not be read back to (-1: none)
	unreadableFrom int
	// marker searches open every file from the newest down: on logs with many
	// files only every searchStride-th damaged read is followed by searches
	searchStride int
	live         map[string]interface{} // summary of the live phase
	shift        int                    // rotated files renumbered by this much before the reopen (long-lived log)
	searchWork   int                    // estimated file opens spent in searches so far
	searchCap    int
}

func run(c *kernel.Ctx) {
	cfg := c.Tape.Fork("cfg")
	work := c.Tape.Fork("work")
	sched := c.Tape.Fork("sched")
	dmg := c.Tape.Fork("dmg")

	// ---- configuration
	maxRec := 120
	budget := 6000
	if c.Tier == kernel.Thorough {
		maxRec, budget = 400, 40000
	}
	big := cfg.Bool(1, 6)
	if big {
		budget /= 3 // every read of such a log moves ~100 KB
	}
	// 1 run in 10: one peer block part message as large as the consensus reactor
	// accepts from a peer (the receive routine logs peer messages before it
	// looks at them)
	jumbo := !big && cfg.Bool(1, 10)
	var nrec int
	switch cfg.Pick(6, 4, 1) {
	case 0:
		nrec = cfg.Range(6, 25)
	case 1:
		nrec = cfg.Range(20, 60)
	default:
		nrec = cfg.Range(50, maxRec)
	}
	if big && nrec > 40 {
		nrec = 12 + nrec%29
	}
	if jumbo {
		nrec = 5 + nrec%8
		budget = 1500
	}
	var limit int64
	switch cfg.Pick(4, 4, 2, 1) {
	case 0:
		limit = int64(cfg.Range(200, 1200))
	case 1:
		limit = int64(cfg.Range(1000, 8000))
	case 2:
		limit = int64(cfg.Range(8000, 60000))
	default:
		limit = 1 << 40 // never rotates
	}
	if big && limit < 1<<40 {
		limit = int64(cfg.Range(2000, 120000))
	}
	tickNum := []int{1, 3, 8, 16}[cfg.Int(4)] // ticks per 16 writes
	syncAll := cfg.Bool(1, 5)                 // every record written with WriteSync
	g := &gen{t: work, bigPart: big, h: uint64(1 + cfg.Int(50))}
	if cfg.Bool(1, 6) {
		g.h = []uint64{1<<32 - 2, 1<<63 - 5, 255, 65535}[cfg.Int(4)]
	}
	for i := 0; i < 4; i++ {
		g.addr = append(g.addr, work.Bytes(20))
	}
	g.peers = []string{"a1b2c3", hexs(work.Bytes(20)), hexs(work.Bytes(20))}

	recs := []*rec{{Kind: "endheight", Own: true, Height: 0, Msg: cs.EndHeightMessage{Height: 0}}}
	for len(recs) < nrec {
		r := g.next()
		if syncAll {
			r.Own = true
		}
		recs = append(recs, r)
	}
	if jumbo {
		i := 1 + cfg.Int(len(recs)-1)
		recs[i] = g.jumboPart(cfg.Int(130))
		c.Probe("largest_peer_message_logs")
	}
	// the node ends every height with a marker: make sure there is one besides the initial one
	hasMarker := false
	for _, r := range recs[1:] {
		hasMarker = hasMarker || r.Kind == "endheight"
	}
	if !hasMarker {
		i := 1 + cfg.Int(len(recs)-1)
		if recs[i].Kind == "part" && len(recs) > 2 {
			i = 1 + i%(len(recs)-1) // keep the part (it may be the large one)
			if recs[i].Kind == "part" {
				i = 1 + i%(len(recs)-1)
			}
		}
		h := g.h
		for _, r := range recs[i:] {
			// later records belong to the next height
			switch m := r.Msg.(type) {
			case types.EventDataRoundState:
				m.Height = h + 1
				r.Msg = m
			}
		}
		recs[i] = &rec{Kind: "endheight", Own: true, Height: h, Msg: cs.EndHeightMessage{Height: h}}
	}
	for _, r := range recs {
		r.sleep = []time.Duration{0, 0, 1, 999, time.Millisecond, 20 * time.Millisecond, time.Second, 5 * time.Second}[sched.Int(8)]
		r.tickAfter = sched.Int(16) < tickNum
		if r.Own {
			r.tickMid = sched.Bool(1, 6)
		}
	}

	dir, err := runDir("c14", c.Tape.Seed())
	if err != nil {
		c.HarnessTrouble("scratch: %v", err)
		return
	}
	defer dropRunDir(dir)

	st := &state{c: c, recs: recs, written: map[uint64]bool{}, stats: map[string]int{}, unreadableFrom: -1}

	// ---- live phase: readers open while the log is written, rotated and pruned
	liveDir := filepath.Join(dir, "live")
	if err := os.MkdirAll(liveDir, 0700); err != nil {
		c.HarnessTrouble("scratch: %v", err)
		return
	}
	st.live = runLive(c, liveDir).summary()
	os.RemoveAll(liveDir)
	if c.Failed() {
		st.sample(map[string]int{}, limit, 0, 0)
		return
	}

	// ---- write phase: real baseWAL on real files, virtual clock
	rotations, ok := st.writeAll(filepath.Join(dir, "wal"), limit)
	if !ok || c.Failed() {
		return
	}

	// ---- a long-lived node: the same files under the index numbers they would
	// carry after ~1000 / ~10000 rotations (older files pruned long ago), so that
	// the restart below has to cope with 4- and 5-digit file indices
	age := c.Tape.Fork("age")
	if rotations >= 1 && age.Bool(1, 2) {
		switch age.Pick(4, 2, 2) {
		case 0:
			st.shift = 999 - age.Int(rotations) // straddles 999 | 1000
		case 1:
			st.shift = 9999 - age.Int(rotations) // straddles 9999 | 10000
		default:
			st.shift = 1000 + age.Int(5) // everything beyond 999
		}
		head := filepath.Join(dir, "wal")
		for i := rotations - 1; i >= 0; i-- {
			if err := os.Rename(fmt.Sprintf("%s.%03d", head, i), fmt.Sprintf("%s.%03d", head, i+st.shift)); err != nil {
				c.HarnessTrouble("renumber: %v", err)
				return
			}
		}
		c.Probe("long_lived_log_reopened")
	}
	c.Finger("shift", st.shift)
	// what the directory holds, read without the code under test
	diskMin, diskMax := -1, -1
	if ents, err := os.ReadDir(dir); err == nil {
		for _, e := range ents {
			if suf, isRot := strings.CutPrefix(e.Name(), "wal."); isRot {
				if idx, err := strconv.Atoi(suf); err == nil {
					if diskMin < 0 || idx < diskMin {
						diskMin = idx
					}
					if idx > diskMax {
						diskMax = idx
					}
				}
			}
		}
	}
	if diskMin < 0 {
		diskMin, diskMax = 0, 0 // only the head
	} else {
		diskMax++ // the head follows the newest rotated file
	}
	if diskMin != st.shift || diskMax != st.shift+rotations {
		c.HarnessTrouble("directory holds indices %d..%d, expected %d..%d", diskMin, diskMax, st.shift, st.shift+rotations)
		return
	}

	// ---- reader: a freshly opened WAL on the same directory (what a restarted node has)
	rw, err := cs.NewWAL(filepath.Join(dir, "wal"))
	if err != nil {
		c.HarnessTrouble("reopen wal: %v", err)
		return
	}
	defer func() {
		rw.Group().Close()
		rw.Group().Head.Close()
	}()
	if gmin, gmax := rw.Group().MinIndex(), rw.Group().MaxIndex(); gmin != diskMin || gmax != diskMax {
		digits := "3-digit"
		if diskMax > 1000 {
			digits = "4+digit"
		}
		if c.Violate("wal-group", "reopen-index-range/"+digits+"-indices",
			"after reopening, the group covers file indices %d..%d but the directory holds rotated files %d..%d plus the head (index %d): the records in the files it does not see cannot be replayed or searched",
			gmin, gmax, diskMin, diskMax-1, diskMax) {
			st.sample(map[string]int{}, limit, 0, 0)
			return
		}
	}
	lay, err := readLayout(dir, diskMin, diskMax)
	if err != nil {
		c.HarnessTrouble("read layout: %v", err)
		return
	}
	st.lay = lay
	off := 0
	var expect []byte
	kinds := map[string]int{}
	for _, r := range recs {
		r.Off, r.End = off, off+len(r.Frame)
		off = r.End
		expect = append(expect, r.Frame...)
		st.frames = append(st.frames, r.Body)
		kinds[r.Kind]++
		if r.Kind == "endheight" {
			st.markers = append(st.markers, r)
			st.written[r.Height] = true
		}
	}
	bound := map[int]bool{}
	for _, r := range recs {
		bound[r.Off] = true
	}
	st.bound = bound
	for f, s := range lay.start {
		if f > 0 && len(lay.data[f]) > 0 && !bound[s] && s < len(lay.concat) {
			st.midRecord = true
		}
	}
	if st.midRecord {
		c.Probe("file_starts_mid_record")
	}
	if len(lay.names) > 1 {
		c.Probe("rotated_logs")
	}
	c.ProbeN("rotations", rotations)
	for _, r := range recs {
		c.Finger(r.Kind, len(r.Frame), r.Own)
	}
	for f := range lay.names {
		c.Finger("file", len(lay.data[f]))
	}
	diskOK := bytes.Equal(expect, lay.concat)

	rd := &reader{st: st, wal: rw}

	// ---- the intact log: everything replays, every marker is found
	rd.check(damage{kind: "intact", x: len(lay.concat)}, true)
	c.Evals(1)
	if !diskOK && !c.Failed() && len(st.stats) == 0 {
		c.HarnessTrouble("bytes on disk differ from the encoder's frames (%d vs %d bytes) although the intact log replays", len(lay.concat), len(expect))
		return
	}
	if !diskOK {
		// offsets of the model are meaningless: the intact-log verdict stands alone
		c.Probe("disk_differs_from_frames")
		st.sample(kinds, limit, 0, 0)
		return
	}
	if st.stop {
		st.sample(kinds, limit, 0, 0)
		return
	}

	// ---- choose the damaged offsets
	L := len(lay.concat)
	if st.unreadableFrom >= 0 {
		// a record that was written cannot be read back (reported above): only
		// cuts that remove it leave a log the model can speak about
		L = recs[st.unreadableFrom].Off
		c.Probe("enumeration_limited_to_cuts_before_unreadable_record")
	}
	// the cost of one read-back grows with the number of records (and a marker
	// search with the number of files it has to open): cap the reads of a run
	// by the decode work they amount to
	workCap := 400000
	if c.Tier == kernel.Thorough {
		workCap = 3000000
	}
	nFiles := len(lay.names)
	perRead := len(recs)/2 + 1
	if big {
		perRead *= 8
	}
	perRead += 6 * nFiles // the reader opens every file on its way
	if maxReads := workCap / perRead; budget > maxReads {
		budget = maxReads
	}
	st.searchStride = 1
	if nFiles > 5 {
		st.searchStride = nFiles / 3
	}
	st.searchCap = 150000 // in file opens; a search opens up to F(F+1)/2 files
	if c.Tier == kernel.Thorough {
		st.searchCap = 600000
	}
	var cuts, flips []int
	if 2*L+L/8 <= budget {
		for x := 0; x < L; x++ {
			cuts = append(cuts, x)
			flips = append(flips, x)
		}
		c.Probe("exhaustive_offsets")
	} else {
		sel := map[int]bool{}
		add := func(x int) {
			if x >= 0 && x < L {
				sel[x] = true
			}
		}
		window := func(x int) {
			for d := -9; d <= 9; d++ {
				add(x + d)
			}
		}
		// always: around every marker, every file boundary and the end of the log
		for _, m := range st.markers {
			window(m.Off)
			window(m.End)
		}
		for _, s := range lay.start {
			window(s)
		}
		window(L)
		// then around the other record boundaries, in seeded order, while there is room
		// (one selected offset costs one cut and ~1.4 byte changes)
		order := make([]int, len(recs))
		for i := range order {
			order[i] = i
		}
		dmg.Shuffle(len(order), func(i, j int) { order[i], order[j] = order[j], order[i] })
		for _, i := range order {
			if len(sel)*24/10 >= budget*8/10 {
				break
			}
			window(recs[i].Off)
		}
		for k := budget*10/24 - len(sel); k > 0; k-- {
			add(dmg.Int(L))
		}
		for x := range sel {
			cuts = append(cuts, x)
		}
		sort.Ints(cuts)
		flips = append(flips, cuts...)
		c.Probe("sampled_offsets")
	}

	// ---- truncations, from the end towards the start (files only ever shrink)
	markerEdge := map[int]bool{}
	for _, m := range st.markers {
		markerEdge[m.Off], markerEdge[m.End] = true, true
	}
	for _, s := range lay.start {
		markerEdge[s] = true
	}
	nCut, nFull := 0, 0
	emptiedFrom := len(lay.names)
	for i := len(cuts) - 1; i >= 0 && !st.stop; i-- {
		x := cuts[i]
		f := lay.fileOf(x)
		for j := f + 1; j < emptiedFrom; j++ {
			if err := os.Truncate(lay.names[j], 0); err != nil {
				c.HarnessTrouble("truncate: %v", err)
				return
			}
		}
		if f+1 < emptiedFrom {
			emptiedFrom = f + 1
		}
		keep := x - lay.start[f]
		if keep > len(lay.data[f]) {
			keep = len(lay.data[f])
		}
		if err := os.Truncate(lay.names[f], int64(keep)); err != nil {
			c.HarnessTrouble("truncate: %v", err)
			return
		}
		c.Fault("truncation")
		// all markers at the edges of marker records and of files (and now and
		// then elsewhere); the two markers around the cut otherwise
		full := (markerEdge[x] || i%97 == 0) && (nFiles <= 8 || nFull < 60) && st.searchWork < st.searchCap/2
		if full {
			nFull++
		}
		rd.check(damage{kind: "truncation", x: x, pick: i}, full)
		c.Evals(1)
		nCut++
	}
	if err := lay.restore(); err != nil {
		c.HarnessTrouble("restore: %v", err)
		return
	}

	// ---- a few cuts read through a freshly opened group without the later files
	if len(lay.names) > 1 && !st.stop && st.unreadableFrom < 0 {
		st.freshCuts(dmg, dir)
	}
	if st.unreadableFrom >= 0 {
		flips = nil
	}

	// ---- single-byte changes
	nFlip := 0
	fds := make([]*os.File, len(lay.names))
	for f, p := range lay.names {
		fd, err := os.OpenFile(p, os.O_RDWR, 0600)
		if err != nil {
			c.HarnessTrouble("open for damage: %v", err)
			return
		}
		fds[f] = fd
		defer fd.Close()
	}
	ri := 0
	for _, x := range flips {
		if st.stop {
			break
		}
		for ri < len(recs)-1 && recs[ri].End <= x {
			ri++
		}
		r := recs[ri]
		b := lay.concat[x]
		field := "payload"
		var vals []byte
		switch rel := x - r.Off; {
		case rel < 4:
			field = "crc"
			vals = []byte{b ^ 0x01, b ^ 0x80, b ^ 0xff, b ^ byte(1+dmg.Int(255))}
		case rel < 8:
			field = "len"
			vals = []byte{b ^ 0x01, b ^ 0x80, b ^ 0xff, b ^ byte(1+dmg.Int(255))}
		default:
			vals = []byte{b ^ byte(1+dmg.Int(255))}
		}
		f := lay.fileOf(x)
		seen := map[byte]bool{}
		for vi, v := range vals {
			if seen[v] {
				continue
			}
			seen[v] = true
			if _, err := fds[f].WriteAt([]byte{v}, int64(x-lay.start[f])); err != nil {
				c.HarnessTrouble("pwrite: %v", err)
				return
			}
			c.Fault("bytechange_" + field)
			rd.check(damage{kind: "bytechange", field: field, x: x, rec: ri, val: v, pick: x + vi}, false)
			c.Evals(1)
			nFlip++
			if st.stop {
				break
			}
		}
		if _, err := fds[f].WriteAt([]byte{b}, int64(x-lay.start[f])); err != nil {
			c.HarnessTrouble("pwrite: %v", err)
			return
		}
	}

	if len(kinds) >= 3 && len(st.markers) >= 2 && nCut+nFlip >= 200 {
		c.NonTrivial()
	}
	keys := make([]string, 0, len(st.stats))
	for k := range st.stats {
		keys = append(keys, k)
	}
	sort.Strings(keys)
	for _, k := range keys {
		c.Finger(k, st.stats[k])
	}
	st.sample(kinds, limit, nCut, nFlip)
}

func hexs(b []byte) string { return fmt.Sprintf("%x", b) }

func (st *state) sample(kinds map[string]int, limit int64, nCut, nFlip int) {
	var files []int
	if st.lay != nil {
		for _, d := range st.lay.data {
			files = append(files, len(d))
		}
	}
	var hs []uint64
	for _, m := range st.markers {
		hs = append(hs, m.Height)
	}
	lim := fmt.Sprint(limit)
	if limit >= 1<<40 {
		lim = "never"
	}
	st.c.Sample(map[string]interface{}{
		"records": len(st.recs), "kinds": kinds, "head_size_limit": lim, "file_sizes": files, "marker_heights": hs,
		"file_starts_mid_record": st.midRecord, "file_index_shift": st.shift, "truncated_reads": nCut, "bytechange_reads": nFlip, "read_back_results": st.stats, "live_phase": st.live,
	})
}

// writeAll writes the records through a real baseWAL. The WAL is opened outside
// the bubble (its AutoFile owns a goroutine that never ends); only the writes,
// whose time stamps must be deterministic, run on the virtual clock.
func (st *state) writeAll(path string, limit int64) (rotations int, ok bool) {
	c := st.c
	wal, err := cs.NewWAL(path)
	if err != nil {
		c.HarnessTrouble("NewWAL: %v", err)
		return 0, false
	}
	grp := wal.Group()
	grp.SetHeadSizeLimit(limit)
	grp.SetTotalSizeLimit(0)
	tick := func() {
		// what Group.checkHeadSizeLimit does on every tick of its ticker
		lim := grp.HeadSizeLimit()
		if lim == 0 {
			return
		}
		size, err := grp.Head.Size()
		if err != nil {
			panic(err)
		}
		if size >= lim {
			grp.RotateFile()
			rotations++
		}
	}
	var site, msg string
	var panicked bool
	var encErr error
	synctest.Test(c.T, func(t *testing.T) {
		site, msg, panicked = kernel.Try(func() {
			for _, r := range st.recs {
				if r.sleep > 0 {
					time.Sleep(r.sleep)
					c.SimTime(r.sleep)
				}
				// the frame the real encoder produces for this message at this instant
				var buf bytes.Buffer
				if err := cs.NewWALEncoder(&buf).Encode(&cs.TimedWALMessage{Time: time.Now(), Msg: r.Msg}); err != nil {
					encErr = err
					return
				}
				r.Frame = buf.Bytes()
				r.Body = ser.MustEncodeToBytes(&cs.TimedWALMessage{Time: time.Now(), Msg: r.Msg})
				switch {
				case r.Own && r.tickMid:
					// WriteSync = Write + Group.Flush; the ticker may fire in between
					wal.Write(r.Msg)
					tick()
					if err := grp.Flush(); err != nil {
						panic(err)
					}
				case r.Own:
					wal.WriteSync(r.Msg)
				default:
					wal.Write(r.Msg)
				}
				c.Event(1)
				if r.tickAfter {
					tick()
				}
			}
			if err := grp.Flush(); err != nil {
				panic(err)
			}
		})
	})
	grp.Close()
	grp.Head.Close()
	if encErr != nil {
		c.HarnessTrouble("encode: %v", encErr)
		return rotations, false
	}
	if panicked {
		if c.Violate("panic", "panic/write/"+site, "panic while writing the log: %s", msg) {
			return rotations, false
		}
		return rotations, false
	}
	return rotations, true
}

// ---------------------------------------------------------------- reading back

type damage struct {
	kind  string // intact | truncation | bytechange | truncation-fresh
	field string // bytechange: crc | len | payload
	x     int    // cut offset / changed offset
	rec   int    // bytechange: index of the damaged record
	val   byte
	pick  int // deterministic selector for the cheap per-scenario choices
}

type reader struct {
	st  *state
	wal cs.WAL
}

func errClass(err error) string {
	switch {
	case err == nil:
		return "none"
	case err == io.EOF:
		return "eof"
	case cs.IsDataCorruptionError(err):
		s := err.Error()
		switch {
		case strings.Contains(s, "checksums do not match"):
			return "corrupt-checksum"
		case strings.Contains(s, "failed to decode"):
			return "corrupt-undecodable"
		}
		return "corrupt-other"
	}
	s := err.Error()
	switch {
	case strings.HasPrefix(s, "DataCorruptionError"):
		return "corruption-text-without-the-class"
	case strings.HasPrefix(s, "failed to read checksum"):
		return "err-read-checksum"
	case strings.HasPrefix(s, "failed to read length"):
		return "err-read-length"
	case strings.HasPrefix(s, "failed to read data"):
		return "err-read-data"
	case strings.HasPrefix(s, "length "):
		return "err-length-too-big"
	}
	return "err-other"
}
