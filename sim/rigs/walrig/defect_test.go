package walrig

// Direct reproductions, against the unmodified linkchain code, of the two
// defects the C14 rig reports (keys search-miss/torn-tail-read-error and
// search-miss/file-starts-mid-record). Run with
//   cd /verif/sim && go1.26.8 test -count=1 -vet=off -tags verif -overlay /verif/build/overlay.json -run TestRepro -v ./rigs/walrig/
// A test passes when it reproduces the defect and is skipped when the
// behaviour is the expected one (defect fixed).

import (
	"bytes"
	"io"
	"os"
	"path/filepath"
	"testing"
	"time"

	cs "github.com/lianxiangcloud/linkchain/consensus"
	"github.com/lianxiangcloud/linkchain/libs/crypto"
	"github.com/lianxiangcloud/linkchain/libs/ser"
	"github.com/lianxiangcloud/linkchain/types"
)

func reproVote(h uint64) cs.WALMessage {
	var sig crypto.SignatureEd25519
	return cs.VerifPackMsg(&cs.VoteMessage{Vote: &types.Vote{ValidatorAddress: bytes.Repeat([]byte{1}, 20), ValidatorSize: 4, Height: h,
		Timestamp: time.Unix(1500000000, 0).UTC(), Type: types.VoteTypePrevote, Signature: sig}}, "")
}

func reproPart(h uint64, n int) cs.WALMessage {
	return cs.VerifPackMsg(&cs.BlockPartMessage{Height: h, Part: &types.Part{Index: 0, Bytes: bytes.Repeat([]byte{0xab}, n)}}, "peer")
}

// A crash tears the last record of the head file; the marker of the previous
// height is in the file rotated just before. SearchForEndHeight (as called by
// catchupReplay, IgnoreDataCorruptionErrors=true) reads the head first, hits
// the torn record, and returns "failed to read data: EOF" instead of going on
// to the older file: found=false although the marker is intact on disk.
// ConsensusState.OnStart logs the error and starts WITHOUT replaying the WAL.
func TestReproTornTailHidesMarkerInOlderFile(t *testing.T) {
	dir := t.TempDir()
	path := filepath.Join(dir, "wal")
	wal, err := cs.NewWAL(path)
	if err != nil {
		t.Fatal(err)
	}
	if err := wal.Start(); err != nil { // writes EndHeightMessage{0}
		t.Fatal(err)
	}
	wal.WriteSync(reproVote(1))
	wal.WriteSync(cs.EndHeightMessage{Height: 1})
	wal.Group().RotateFile() // what the group's ticker does once the head has reached its size limit
	wal.WriteSync(reproVote(2))
	wal.WriteSync(reproVote(2))
	wal.Stop()
	wal.Group().Head.Close()

	st, _ := os.Stat(path)
	if err := os.Truncate(path, st.Size()-5); err != nil { // the crash cut the last record short
		t.Fatal(err)
	}

	w2, err := cs.NewWAL(path)
	if err != nil {
		t.Fatal(err)
	}
	defer w2.Group().Head.Close()
	for _, ignore := range []bool{true, false} {
		gr, found, err := w2.SearchForEndHeight(1, &cs.WALSearchOptions{IgnoreDataCorruptionErrors: ignore})
		if gr != nil {
			gr.Close()
		}
		t.Logf("SearchForEndHeight(1, ignore=%v): found=%v err=%v  (expected found=true: the marker is complete in wal.000)", ignore, found, err)
		if ignore && found {
			t.Skip("not reproduced: marker found")
		}
	}
	// the log itself replays fine up to the cut
	gr, _ := w2.Group().NewReader(0)
	dec := cs.NewWALDecoder(gr)
	n := 0
	var last error
	for {
		_, err := dec.Decode()
		if err != nil {
			last = err
			break
		}
		n++
	}
	gr.Close()
	t.Logf("replay from the start: %d records, then %v", n, last)
}

// Two peer block parts of the default size (32 KB) are written with Write (no
// flush), as the receive routine does. The group's 40 KB write buffer spills,
// so the head file on disk ends in the middle of the second part. The ticker
// finds the head above its limit and rotates WITHOUT flushing the buffer: the
// rest of the record goes to the new head, which therefore starts mid-record.
// Reading from the start works (GroupReader spans files), but
// SearchForEndHeight opens each file as a stream of its own, newest first,
// reads garbage at the start of the head and gives up: the marker in the
// older file is not found, on a log that is not damaged at all.
func TestReproRotationSplitsRecord(t *testing.T) {
	if testing.Short() {
		t.Skip("waits 6 s for the group's real ticker")
	}
	dir := t.TempDir()
	path := filepath.Join(dir, "wal")
	wal, err := cs.NewWAL(path)
	if err != nil {
		t.Fatal(err)
	}
	wal.Group().SetHeadSizeLimit(16 * 1024)
	if err := wal.Start(); err != nil {
		t.Fatal(err)
	}
	wal.WriteSync(cs.EndHeightMessage{Height: 1})
	wal.Write(reproPart(2, 32*1024))
	wal.Write(reproPart(2, 32*1024))
	time.Sleep(6 * time.Second) // the group's own ticker (5 s) checks the head size and rotates
	wal.WriteSync(reproVote(2))
	wal.Stop()
	wal.Group().Head.Close()

	w2, err := cs.NewWAL(path)
	if err != nil {
		t.Fatal(err)
	}
	defer w2.Group().Head.Close()
	t.Logf("files: min index %d, max index %d", w2.Group().MinIndex(), w2.Group().MaxIndex())
	if w2.Group().MaxIndex() == 0 {
		t.Fatal("the ticker did not rotate")
	}
	gr, _ := w2.Group().NewReader(0)
	dec := cs.NewWALDecoder(gr)
	n := 0
	var last error
	for {
		_, err := dec.Decode()
		if err != nil {
			last = err
			break
		}
		n++
	}
	gr.Close()
	t.Logf("replay from the start: %d records (5 written), then %v", n, last)
	if n != 5 || last != io.EOF {
		t.Fatalf("unexpected: the intact log does not replay from the start")
	}
	for _, ignore := range []bool{true, false} {
		gr, found, err := w2.SearchForEndHeight(1, &cs.WALSearchOptions{IgnoreDataCorruptionErrors: ignore})
		if gr != nil {
			gr.Close()
		}
		t.Logf("SearchForEndHeight(1, ignore=%v): found=%v err=%v  (expected found=true: nothing is damaged)", ignore, found, err)
		if ignore && found {
			t.Skip("not reproduced: marker found")
		}
	}
}

// The consensus reactor accepts peer messages of up to RecvMessageCapacity
// (1 MB) bytes and the receive routine writes them to the WAL before looking at
// them. The WAL record adds the peer id, a time stamp and list headers, so a
// block part message within ~70 bytes of the reactor's limit becomes a record
// whose length field is above the decoder's own limit of 1 MB: the encoder
// writes it without complaint, the decoder refuses it ("length N exceeded
// maximum possible value"), and nothing after it can be replayed or searched.
func TestReproLargestPeerMessageIsWrittenButNotReadable(t *testing.T) {
	capacity := (&cs.ConsensusReactor{}).GetChannels()[1].RecvMessageCapacity // data channel
	for _, ch := range (&cs.ConsensusReactor{}).GetChannels() {
		if ch.ID == cs.DataChannel {
			capacity = ch.RecvMessageCapacity
		}
	}
	// the largest block part message a peer can deliver
	n := capacity
	var msg *cs.BlockPartMessage
	for {
		msg = &cs.BlockPartMessage{Height: 2, Part: &types.Part{Index: 0, Bytes: bytes.Repeat([]byte{0xab}, n)}}
		if sz := len(ser.MustEncodeToBytesWithType(msg)); sz <= capacity {
			t.Logf("peer message: part of %d bytes, %d bytes on the wire (reactor limit %d)", n, sz, capacity)
			break
		}
		n--
	}
	dir := t.TempDir()
	path := filepath.Join(dir, "wal")
	wal, err := cs.NewWAL(path)
	if err != nil {
		t.Fatal(err)
	}
	if err := wal.Start(); err != nil {
		t.Fatal(err)
	}
	wal.WriteSync(cs.EndHeightMessage{Height: 1})
	wal.Write(cs.VerifPackMsg(msg, "0123456789abcdef0123456789abcdef01234567")) // as receiveRoutine does for a peer message
	wal.WriteSync(reproVote(2))
	wal.WriteSync(cs.EndHeightMessage{Height: 2})
	wal.Stop()
	wal.Group().Head.Close()

	w2, err := cs.NewWAL(path)
	if err != nil {
		t.Fatal(err)
	}
	defer w2.Group().Head.Close()
	gr, _ := w2.Group().NewReader(0)
	dec := cs.NewWALDecoder(gr)
	cnt := 0
	var last error
	for {
		_, err := dec.Decode()
		if err != nil {
			last = err
			break
		}
		cnt++
	}
	gr.Close()
	t.Logf("replay of the undamaged log: %d of 5 records, then %v", cnt, last)
	g2, found, err := w2.SearchForEndHeight(2, &cs.WALSearchOptions{IgnoreDataCorruptionErrors: true})
	if g2 != nil {
		g2.Close()
	}
	t.Logf("SearchForEndHeight(2, ignore=true): found=%v err=%v (expected found=true)", found, err)
	if cnt == 5 && last == io.EOF && found {
		t.Skip("not reproduced")
	}
}

// Observation (not judged by the rig, which stays away from this window): after
// RotateFile the head file does not exist until the next write or the next
// tick's size check recreates it. In that window a search on the running WAL
// fails with ENOENT for a completely written marker, and a reader that reaches
// the end of the log gets an error instead of end-of-log. The node calls
// SearchForEndHeight only right after opening the group (OpenAutoFile creates
// the head), so its own paths do not hit the window.
func TestObserveNoHeadFileRightAfterRotation(t *testing.T) {
	dir := t.TempDir()
	wal, err := cs.NewWAL(filepath.Join(dir, "wal"))
	if err != nil {
		t.Fatal(err)
	}
	if err := wal.Start(); err != nil {
		t.Fatal(err)
	}
	defer wal.Group().Head.Close()
	defer wal.Stop()
	wal.WriteSync(cs.EndHeightMessage{Height: 1})
	wal.Group().RotateFile()
	gr, found, err := wal.SearchForEndHeight(1, &cs.WALSearchOptions{IgnoreDataCorruptionErrors: true})
	if gr != nil {
		gr.Close()
	}
	t.Logf("right after RotateFile: SearchForEndHeight(1): found=%v err=%v", found, err)
	wal.WriteSync(reproVote(2))
	gr, found, err = wal.SearchForEndHeight(1, &cs.WALSearchOptions{IgnoreDataCorruptionErrors: true})
	if gr != nil {
		gr.Close()
	}
	t.Logf("after the next write:   SearchForEndHeight(1): found=%v err=%v", found, err)
}
