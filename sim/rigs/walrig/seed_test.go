package walrig

import (
	"encoding/json"
	"os"
	"strconv"
	"testing"
	"time"

	"verif/sim/kernel"
)

// TestSeed executes one run by its run seed (VERIF_ONE_SEED), for timing and debugging:
//
//	VERIF_ONE_SEED=123 VERIF_TIER=thorough go1.26.8 test -tags verif -overlay /verif/build/overlay.json -run TestSeed -v ./rigs/walrig/
func TestSeed(t *testing.T) {
	s := os.Getenv("VERIF_ONE_SEED")
	if s == "" {
		t.Skip("VERIF_ONE_SEED not set")
	}
	seed, _ := strconv.ParseUint(s, 10, 64)
	tier := kernel.Quick
	if os.Getenv("VERIF_TIER") == "thorough" {
		tier = kernel.Thorough
	}
	known := map[string]string{"search-miss/torn-tail-read-error": "x", "search-miss/file-starts-mid-record": "x", "intact-log-unreadable/err-length-too-big": "x"}
	start := time.Now()
	res := kernel.Execute(t, Describe(), tier, kernel.NewTape(seed), known)
	b, _ := json.MarshalIndent(res, "", " ")
	t.Logf("wall %v\n%s", time.Since(start), b)
}
