package staterig

import (
	"bytes"
	"math/big"
	"sort"
)

// The reference model of C09: a map-of-structs world. A snapshot of the model
// is a deep copy, a Copy of the state is a deep copy. Nothing here knows about
// journals, dirty counters, tries or caches.

type acct struct {
	balance  *big.Int
	tokens   map[int]*big.Int // token index -> strictly positive value
	nonce    uint64
	code     []byte         // nil/empty = no code
	storage  map[int][]byte // slot index -> normalised non-empty value
	suicided bool
	// touched since the last Finalise/Commit. NOT used to predict any
	// observable; it only labels two situations the generator wants to know
	// about (CreateAccount over an untouched account, Copy of a state with
	// unfinalised changes). Part of the snapshot.
	dirty bool
	// over-approximation of dirty (an operation that may or may not have been
	// journalled)
	maybeDirty bool
	// token keys the net history has written on this account object (hazard
	// bookkeeping only, see hzZeroEntry in rig.go; predicts no observable)
	tokKeys map[int]bool
	// credits is a *learned* observable: the model never predicts how an
	// operation changes it (no implementation constant is mirrored); it records
	// the value the target state reports right after an operation on this
	// account and demands only what C09 says: reverts restore it, copies
	// inherit it, operations on other states/accounts do not change it.
	credits uint64
}

type logRec struct {
	thash  int
	addr   int
	topics int
	data   []byte
	index  uint
}

type world struct {
	// kv mode bookkeeping for the generator (predicts no observable): addresses
	// that ever held storage, and those among them whose account was removed
	kvStorageEver map[int]bool
	kvGhost       map[int]bool

	accts     map[int]*acct
	refund    uint64
	logs      []logRec
	logSize   uint
	preimages map[int]bool
}

func newWorld() *world {
	return &world{accts: map[int]*acct{}, preimages: map[int]bool{}, kvStorageEver: map[int]bool{}, kvGhost: map[int]bool{}}
}

func (a *acct) clone() *acct {
	c := &acct{balance: new(big.Int).Set(a.balance), nonce: a.nonce, suicided: a.suicided, dirty: a.dirty, maybeDirty: a.maybeDirty, credits: a.credits,
		tokens: make(map[int]*big.Int, len(a.tokens)), storage: make(map[int][]byte, len(a.storage))}
	c.code = append([]byte(nil), a.code...)
	if len(a.tokKeys) > 0 {
		c.tokKeys = make(map[int]bool, len(a.tokKeys))
		for k := range a.tokKeys {
			c.tokKeys[k] = true
		}
	}
	for k, v := range a.tokens {
		c.tokens[k] = new(big.Int).Set(v)
	}
	for k, v := range a.storage {
		c.storage[k] = append([]byte(nil), v...)
	}
	return c
}

func (w *world) clone() *world {
	c := &world{accts: make(map[int]*acct, len(w.accts)), refund: w.refund, logSize: w.logSize,
		preimages: make(map[int]bool, len(w.preimages)), kvStorageEver: map[int]bool{}, kvGhost: map[int]bool{}}
	for k := range w.kvStorageEver {
		c.kvStorageEver[k] = true
	}
	for k := range w.kvGhost {
		c.kvGhost[k] = true
	}
	for k, v := range w.accts {
		c.accts[k] = v.clone()
	}
	c.logs = make([]logRec, len(w.logs))
	for i, l := range w.logs {
		l.data = append([]byte(nil), l.data...)
		c.logs[i] = l
	}
	for k := range w.preimages {
		c.preimages[k] = true
	}
	return c
}

func (w *world) sortedAddrs() []int {
	ks := make([]int, 0, len(w.accts))
	for k := range w.accts {
		ks = append(ks, k)
	}
	sort.Ints(ks)
	return ks
}

// getOrNew is what every setter of the API does: a missing account comes into
// existence (and is thereby touched).
func (w *world) getOrNew(a int) *acct {
	if ac, ok := w.accts[a]; ok {
		return ac
	}
	ac := &acct{balance: new(big.Int), tokens: map[int]*big.Int{}, storage: map[int][]byte{}, dirty: true}
	w.accts[a] = ac
	return ac
}

// empty is the EIP-161 notion documented at StateDB.Empty: balance = nonce =
// code = 0.
func (a *acct) empty() bool {
	return a.nonce == 0 && a.balance.Sign() == 0 && len(a.code) == 0
}

func (a *acct) tokenBal(t int) *big.Int {
	if t < 0 {
		return a.balance
	}
	if v, ok := a.tokens[t]; ok {
		return v
	}
	return new(big.Int)
}

func (a *acct) setTokenBal(t int, v *big.Int) {
	if t < 0 {
		a.balance = new(big.Int).Set(v)
		return
	}
	if a.tokKeys == nil {
		a.tokKeys = map[int]bool{}
	}
	a.tokKeys[t] = true
	if v.Sign() == 0 {
		delete(a.tokens, t)
		return
	}
	a.tokens[t] = new(big.Int).Set(v)
}

// normVal is the observable meaning of a storage value: a big-endian number
// (leading zero bytes carry no information; the empty string is "unset").
func normVal(b []byte) []byte {
	return bytes.TrimLeft(b, "\x00")
}

// finalise applies the end-of-transaction rule: self-destructed accounts
// disappear; with deleteEmpty, touched empty accounts disappear; the refund
// counter is cleared.
func (w *world) finalise(deleteEmpty bool) (removedSuicided, removedEmpty int) {
	for _, k := range w.sortedAddrs() {
		ac := w.accts[k]
		switch {
		case ac.suicided:
			delete(w.accts, k)
			removedSuicided++
			if w.kvStorageEver[k] {
				w.kvGhost[k] = true
			}
		case deleteEmpty && ac.empty():
			// every empty account is a touched one: an account can only be (or
			// become) empty through an operation of the current transaction,
			// because earlier finalisations removed all empty ones

			delete(w.accts, k)
			removedEmpty++
			if w.kvStorageEver[k] {
				w.kvGhost[k] = true
			}
		default:
			ac.dirty, ac.maybeDirty = false, false
		}
	}
	w.refund = 0
	return
}

// reopened is what survives Commit + reopen (or Reset): the accounts. Logs,
// preimages and the refund counter are per-block scratch.
func (w *world) reopened() {
	w.logs = nil
	w.logSize = 0
	w.preimages = map[int]bool{}
	w.refund = 0
}

// zeroTokenKey reports whether the account carries a token key whose value is
// zero (written and then drained).
func (a *acct) zeroTokenKey() bool {
	for k := range a.tokKeys {
		if _, pos := a.tokens[k]; !pos {
			return true
		}
	}
	return false
}

func (w *world) anyDirty() bool {
	for _, ac := range w.accts {
		if ac.dirty || ac.maybeDirty {
			return true
		}
	}
	return false
}
