package staterig

// Direct reproductions, against the real state package, of what the C09 rig
// reports on the unchanged tree. Run with
//   cd /verif/sim && VERIF_REPRO=1 go1.26.8 test -vet=off -tags verif -overlay /verif/build/overlay.json ./rigs/staterig/ -run Repro -v
// (set VERIF_REPRO=1; skipped otherwise). Each test FAILS while the defect is present.

import (
	"math/big"
	"os"
	"testing"

	"github.com/lianxiangcloud/linkchain/libs/common"
	dbm "github.com/lianxiangcloud/linkchain/libs/db"
	"github.com/lianxiangcloud/linkchain/state"
)

func reproOnly(t *testing.T) {
	if os.Getenv("VERIF_REPRO") != "1" {
		t.Skip("set VERIF_REPRO=1 to run the direct reproductions")
	}
}

var (
	rA = common.HexToAddress("0xaaaa000000000000000000000000000000000001")
	rT = common.HexToAddress("0x7070000000000000000000000000000000000002")
)

// key copy-shares-token-map: deepCopy passes Account by value, the Tokens map
// is shared between the original's and the copy's state object.
func TestReproCopySharesTokenMap(t *testing.T) {
	reproOnly(t)
	s0, _ := state.New(common.EmptyHash, state.NewDatabase(dbm.NewMemDB()))
	s0.AddTokenBalance(rA, rT, big.NewInt(9)) // rA is dirty in s0
	s1 := s0.Copy()
	s1.SubTokenBalance(rA, rT, big.NewInt(2)) // mutate the copy only
	if got := s0.GetTokenBalance(rA, rT); got.Int64() != 9 {
		t.Fatalf("original sees the copy's write: token balance %v, want 9", got)
	}
}

// key twinroot/tokens-zero-entry: SetTokenBalance inserts a zero placeholder
// before journalling; the revert sets the entry back to 0 instead of removing
// it, so the account encoding (and the state root) differs from never having
// executed the reverted write.
func TestReproRevertLeavesZeroTokenEntry(t *testing.T) {
	reproOnly(t)
	mk := func(withRevertedWrite bool) common.Hash {
		s, _ := state.New(common.EmptyHash, state.NewDatabase(dbm.NewMemDB()))
		s.SetNonce(rA, 1)
		if withRevertedWrite {
			id := s.Snapshot()
			s.AddTokenBalance(rA, rT, big.NewInt(5))
			s.RevertToSnapshot(id)
		}
		return s.IntermediateRoot(false)
	}
	if a, b := mk(true), mk(false); a != b {
		t.Fatalf("root after a reverted token write %x != root without it %x", a, b)
	}
}

// key hazard/createaccount-over-untouched-account
func TestReproCreateAccountOverUntouchedNotDirty(t *testing.T) {
	reproOnly(t)
	db := state.NewDatabase(dbm.NewMemDB())
	s, _ := state.New(common.EmptyHash, db)
	s.SetNonce(rA, 7)
	root, _ := s.Commit(false, 1)
	s, _ = state.New(root, db)
	s.CreateAccount(rA) // nonce is 0 again in s
	if got := s.GetNonce(rA); got != 0 {
		t.Fatalf("nonce after CreateAccount %d", got)
	}
	if got := s.Copy().GetNonce(rA); got != 0 {
		t.Fatalf("the copy still sees the replaced account: nonce %d, want 0", got)
	}
}

// key hazard/copy-of-unfinalised-state-finalised
func TestReproCopyOfUnfinalisedStateRoot(t *testing.T) {
	reproOnly(t)
	s, _ := state.New(common.EmptyHash, state.NewDatabase(dbm.NewMemDB()))
	s.SetNonce(rA, 7)
	cp := s.Copy()
	if a, b := cp.IntermediateRoot(false), s.IntermediateRoot(false); a != b {
		t.Fatalf("copy root %x != original root %x", a, b)
	}
}

// Not a C09 matter (no snapshot/copy involved; the rig's generator stays away
// from it), reported for C05/C19: in kv mode the flat storage records of a
// removed account are never deleted, so an account re-created at the same
// address (any credit, or CREATE2 after SELFDESTRUCT) sees the old storage,
// while trie mode gives it an empty one: the two storage modes disagree on
// SLOAD results.
func TestReproKVStorageSurvivesAccountDeletion(t *testing.T) {
	reproOnly(t)
	slot := common.HexToHash("0x01")
	read := func(db state.Database) []byte {
		s, _ := state.New(common.EmptyHash, db)
		s.SetNonce(rA, 1)
		s.SetState(rA, slot, []byte{0x50})
		root, _ := s.Commit(false, 1)
		s, _ = state.New(root, db)
		s.Suicide(rA)
		root, _ = s.Commit(false, 2)
		s, _ = state.New(root, db)
		s.AddBalance(rA, big.NewInt(1)) // the address comes back
		return s.GetState(rA, slot)
	}
	trie := read(state.NewKeyValueDBWithCache(dbm.NewMemDB(), 0, true, 0))
	kv := read(state.NewKeyValueDBWithCache(dbm.NewMemDB(), 0, false, 0))
	if string(trie) != string(kv) {
		t.Fatalf("storage of a re-created account: trie mode %x, kv mode %x", trie, kv)
	}
}
