package staterig

import (
	"bytes"
	"fmt"
	"math/big"
	"sort"

	"github.com/lianxiangcloud/linkchain/libs/common"
	"github.com/lianxiangcloud/linkchain/libs/crypto"

	"verif/sim/kernel"
)

// mismatch is the first getter that disagrees with the model on one state.
type mismatch struct {
	getter string
	detail string
}

// compare evaluates every getter over the whole universe (plus one address
// that is never written) against the model world.
func (r *runner) compare(l *live) *mismatch {
	u, s, w := r.u, l.in.sdb, l.w
	mm := func(g, f string, args ...interface{}) *mismatch {
		return &mismatch{getter: g, detail: fmt.Sprintf(f, args...)}
	}
	for ai := 0; ai <= len(u.addrs); ai++ {
		var ad common.Address
		var ac *acct
		name := fmt.Sprintf("a%d", ai)
		if ai < len(u.addrs) {
			ad = u.addrs[ai]
			ac = w.accts[ai]
		} else {
			ad = common.BytesToAddress([]byte("never-written-addr!!"))
			name = "untouched"
		}
		exists := ac != nil
		if got := s.Exist(ad); got != exists {
			return mm("Exist", "%s: got %v want %v", name, got, exists)
		}
		wantEmpty := !exists || ac.empty()
		if got := s.Empty(ad); got != wantEmpty {
			return mm("Empty", "%s: got %v want %v", name, got, wantEmpty)
		}
		if !exists {
			ac = &acct{balance: new(big.Int)}
		}
		if got := s.GetBalance(ad); got.Cmp(ac.balance) != 0 {
			return mm("GetBalance", "%s: got %s want %s", name, got, ac.balance)
		}
		if got := s.GetTokenBalance(ad, common.EmptyAddress); got.Cmp(ac.balance) != 0 {
			return mm("GetTokenBalance", "%s native: got %s want %s", name, got, ac.balance)
		}
		npos := 0
		if ac.balance.Sign() > 0 {
			npos++
		}
		for ti, tk := range u.tokens {
			want := ac.tokenBal(ti)
			if got := s.GetTokenBalance(ad, tk); got.Cmp(want) != 0 {
				return mm("GetTokenBalance", "%s t%d: got %s want %s", name, ti, got, want)
			}
			if want.Sign() > 0 {
				npos++
			}
		}
		tvs := s.GetTokenBalances(ad)
		if len(tvs) != npos {
			return mm("GetTokenBalances", "%s: %d positive entries, want %d", name, len(tvs), npos)
		}
		for _, tv := range tvs {
			want := ac.balance
			if tv.TokenAddr != common.EmptyAddress {
				ti := -2
				for i, tk := range u.tokens {
					if tk == tv.TokenAddr {
						ti = i
					}
				}
				if ti == -2 {
					return mm("GetTokenBalances", "%s: unknown token %x", name, tv.TokenAddr)
				}
				want = ac.tokenBal(ti)
			}
			if tv.Value.Cmp(want) != 0 {
				return mm("GetTokenBalances", "%s: entry %s want %s", name, tv.Value, want)
			}
		}
		if got := s.GetNonce(ad); got != ac.nonce {
			return mm("GetNonce", "%s: got %d want %d", name, got, ac.nonce)
		}
		if got := s.GetCredits(ad); got != ac.credits {
			return mm("GetCredits", "%s: got %d want %d (want = value last reported by this lineage for this account)", name, got, ac.credits)
		}
		if got := s.GetCode(ad); !bytes.Equal(got, ac.code) {
			return mm("GetCode", "%s: got %x want %x", name, got, ac.code)
		}
		if got := s.GetCodeSize(ad); got != len(ac.code) {
			return mm("GetCodeSize", "%s: got %d want %d", name, got, len(ac.code))
		}
		wantHash := common.EmptyHash
		if exists {
			wantHash = crypto.Keccak256Hash(ac.code)
		}
		if got := s.GetCodeHash(ad); got != wantHash {
			return mm("GetCodeHash", "%s: got %x want %x", name, got, wantHash)
		}
		if got := s.IsContract(ad); got != (len(ac.code) > 0) {
			return mm("IsContract", "%s: got %v want %v", name, got, len(ac.code) > 0)
		}
		if got := s.HasSuicided(ad); got != ac.suicided {
			return mm("HasSuicided", "%s: got %v want %v", name, got, ac.suicided)
		}
		for si, sl := range u.slots {
			want := ac.storage[si]
			if got := normVal(s.GetState(ad, sl)); !bytes.Equal(got, want) {
				return mm("GetState", "%s s%d: got %x want %x", name, si, got, want)
			}
		}
	}
	if got := s.GetRefund(); got != w.refund {
		return mm("GetRefund", "got %d want %d", got, w.refund)
	}
	// logs, per transaction hash, in order
	total := 0
	for ti, th := range u.txs {
		var want []logRec
		for _, lg := range w.logs {
			if lg.thash == ti {
				want = append(want, lg)
			}
		}
		got := s.GetLogs(th)
		if len(got) != len(want) {
			return mm("GetLogs", "tx%d: %d logs want %d", ti, len(got), len(want))
		}
		for i, lg := range got {
			x := want[i]
			if lg.Address != u.addrs[x.addr] || len(lg.Topics) != x.topics || !bytes.Equal(lg.Data, x.data) || lg.Index != x.index || lg.TxHash != th {
				return mm("GetLogs", "tx%d log %d: got {addr %x topics %d data %x index %d} want {a%d topics %d data %x index %d}",
					ti, i, lg.Address, len(lg.Topics), lg.Data, lg.Index, x.addr, x.topics, x.data, x.index)
			}
		}
		total += len(got)
	}
	if got := len(s.Logs()); got != len(w.logs) || total != len(w.logs) {
		return mm("Logs", "%d logs in total (%d under the known tx hashes) want %d", got, total, len(w.logs))
	}
	pre := s.Preimages()
	if len(pre) != len(w.preimages) {
		return mm("Preimages", "%d preimages want %d", len(pre), len(w.preimages))
	}
	pk := make([]int, 0, len(w.preimages))
	for k := range w.preimages {
		pk = append(pk, k)
	}
	sort.Ints(pk)
	for _, k := range pk {
		if !bytes.Equal(pre[u.preH[k]], u.pre[k]) {
			return mm("Preimages", "p%d: got %x want %x", k, pre[u.preH[k]], u.pre[k])
		}
	}
	return nil
}

type outcome int

const (
	ok outcome = iota
	skip
	stopRun
)

// checkAll compares every live state with its model after an operation on
// target. A disagreement on the target is keyed by the operation, one on any
// other state is a breach of copy independence.
func (r *runner) checkAll(target *live, phase string) outcome {
	out := ok
	for _, l := range append([]*live(nil), r.states...) {
		var m *mismatch
		site, msg, p := kernel.Try(func() { m = r.compare(l) })
		r.c.Evals(1)
		if p {
			if r.c.Violate("panic", l.taint.key("panic/getter/"+site), "getter on %s panicked at %s after %s.%s: %s", l.label, site, target.label, phase, msg) {
				return stopRun
			}
			r.retire(l)
			if l == target {
				out = skip
			}
			continue
		}
		if m == nil {
			continue
		}
		keyOf := l.taint.key
		if m.getter == "GetTokenBalance" || m.getter == "GetTokenBalances" {
			keyOf = l.taint.tokenKey
		}
		class, key := "model-mismatch", keyOf(phase+"/"+m.getter)
		what := fmt.Sprintf("after %s.%s, %s.%s disagrees with the reference model: %s", target.label, phase, l.label, m.getter, m.detail)
		if l != target {
			class, key = "copy-isolation", keyOf("isolation/"+m.getter)
			what = fmt.Sprintf("%s.%s changed an observable of the independent state %s: %s %s", target.label, phase, l.label, m.getter, m.detail)
		}
		if e := l.in.sdb.Error(); e != nil {
			what += fmt.Sprintf(" (StateDB.Error: %v)", e)
		}
		r.tr("!! %s", what)
		if r.c.Violate(class, key, "%s; mode=%s deleteEmpty=%v", what, modeNames[r.u.mode], r.u.delEmp) {
			return stopRun
		}
		// listed known finding: this state no longer follows its model
		r.retire(l)
		if l == target {
			out = skip
		}
	}
	return out
}
