// Package staterig is the C09 rig: model-based histories over the real
// state.StateDB (journal, state objects, Copy, Finalise, Commit) in all three
// storage modes, checked against a map-of-structs reference world.
package staterig

import (
	"bytes"
	"fmt"
	"math/big"
	"sort"
	"strings"
	"time"

	"github.com/lianxiangcloud/linkchain/libs/common"
	"github.com/lianxiangcloud/linkchain/libs/crypto"
	"github.com/lianxiangcloud/linkchain/libs/log"
	"github.com/lianxiangcloud/linkchain/libs/trie"

	"verif/sim/kernel"
)

func init() {
	log.Root().SetHandler(log.DiscardHandler())
	kernel.Register(&kernel.Rig{
		Property: "C09", Name: "staterig", Level: "exploration",
		Rule: "one run = one storage mode (plain trie / wrapped trie / kv), one delete-empty flag, one universe (2-6 addresses, 1-3 tokens + native, 1-4 slots) and 20-200 tape-chosen operations spread over <= 4 (thorough 6) live states: " +
			"balance/token/nonce/code/storage/credits writes, CreateAccount, Suicide, AddLog, refund, preimage, Snapshot, RevertToSnapshot(any live id), Copy (of any live state, copies of copies), IntermediateRoot, Finalise, Commit followed by Reset / New / restart on a fresh Database; " +
			"after EVERY operation every getter over the whole universe is compared with the model on EVERY live state; at every IntermediateRoot/Commit the root is compared with a twin that replays only the net (un-reverted, copy-free) history on a fresh database. " +
			"non-trivial: >= 1 revert that undid >= 1 write and (>= 1 copy or >= 1 commit); distinct = hash of (config, op sequence, roots)",
		Real: []string{"state.StateDB", "state journal", "state.stateObject", "state.cachingDB", "state.wrappedDB/wrappedTrie (kv mode and wrapped trie mode)", "libs/trie SecureTrie + trie.Database", "libs/ser account encoding", "libs/db MemDB"},
		Stub: []string{},
		Assumptions: []string{
			"API contract taken from app/state_transition.go, app/app.go and vm/evm: snapshot ids die at Finalise/IntermediateRoot/Commit and at a revert to an older id; one delete-empty flag per chain (the application always passes false; true is explored as well); balances never go negative (callers check CanTransfer)",
			"wrapped modes (NewKeyValueDBWithCache): IntermediateRoot is by design a hash of the updates since the previous Hash(), so only the application's pattern is generated there: no bare Finalise, Commit is always followed by Reset/New",
			"kv mode shares one flat db between all states and reads account records straight from it: as in the application only one lineage survives a Commit (all other live states are dropped), IntermediateRoot is followed by Commit only, CreateAccount is not applied over an address that ever held storage and an address whose account was removed while it had storage is not written again (kv mode never deletes flat storage records), kv Database built with cache=0 (no kvState.wal; the WAL is C13's subject)",
			"storage values are compared as big-endian numbers (leading zero bytes stripped), which is how the trie stores them",
			"Prepare(thash) is re-issued on a fresh Copy (Copy does not carry the current tx hash; not an observable named by the property)",
			"address 0x03 (RIPEMD consensus exception of the journal) is not in the universe",
			"credits is a learned observable: its value after an operation is taken from the target state; only restoration by revert, inheritance by Copy and non-interference are demanded",
			"three usage patterns outside what the application and upstream do are confined to ~1/5 of the runs each and reported under their own keys: CreateAccount over an existing account untouched since the last finalisation (hazard/createaccount-over-untouched-account), IntermediateRoot/Finalise on a Copy of a state with unfinalised changes (hazard/copy-of-unfinalised-state-finalised), revert of the first write of a token key / of a Suicide with zero-valued token entries (twinroot/tokens-zero-entry); in the other runs the generator avoids them",
			"when a listed known finding is hit, the state that no longer follows its model is retired and the run continues with the remaining live states",
			"a root difference whose identified only cause is a storage leaf holding the empty string (what SetState with an all-zero, non-empty value writes) present on one side and absent on the other is reported under twinroot/storage-zero-leaf; the root of the Commit that ends a hazard is still keyed by that hazard",
		},
		QuickRuns: 30000, QuickBudget: 55 * time.Second,
		ThoroughRuns: 600000, ThoroughBudget: 14 * time.Minute,
		Run: run,
	})
}

type snap struct {
	id      int
	w       *world
	histLen int
	taint   taints
	tx      int
	// noRevert: a zero-entry hazard operation happened while this snapshot was
	// live and the run does not explore that hazard (see hzZeroEntry)
	noRevert bool
}

// taints label the two usage patterns that leave the application's (and
// upstream's) way of driving a StateDB. They are generated in a fraction of
// the runs only; once one has been exercised on a lineage every violation of
// that lineage is reported under the hazard's own key.
type taints struct {
	// CreateAccount was applied over an existing account that had not been
	// touched since the last finalisation
	createOverClean bool
	// this state is a Copy of a state that had unfinalised changes ...
	copyDirty bool
	// ... and has since been finalised (IntermediateRoot/Finalise) without a Commit
	copyDirtyFinalised bool
	// the lineage took part in a Copy (as parent or child) since its last
	// reopen: state objects of both sides may share one Account.Tokens map
	// (deepCopy passes Account by value). Only re-keys token-balance
	// disagreements, so that this one defect has one key however it surfaces
	// (at the write, at a later revert that restores a shared object, in a root).
	sharedTok bool
}

// key returns the violation key: the specific one, unless a hazard has been
// exercised on the lineage.
func (t taints) key(specific string) string {
	switch {
	case t.createOverClean:
		return "hazard/createaccount-over-untouched-account"
	case t.copyDirtyFinalised:
		return "hazard/copy-of-unfinalised-state-finalised"
	}
	return specific
}

// tokenKey is key() for disagreements about token balances.
func (t taints) tokenKey(specific string) string {
	if k := t.key(specific); k != specific {
		return k
	}
	// (the shared-Tokens-map defect of deepCopy is repaired in /repo 6dc5ead:
	// token disagreements on lineages that took part in a Copy are no longer
	// re-keyed, so a return of that defect is reported under its specific key)
	return specific
}

type live struct {
	label string
	in    *inst
	w     *world
	snaps []snap
	hist  []op
	tx    int // current tx index (Prepare); -1 = none
	taint taints
	// finalised but not yet committed (kv mode: such a state is not copied)
	pendingCommit bool
	depth         int // copy depth
}

type runner struct {
	c      *kernel.Ctx
	u      *universe
	states []*live
	nlabel int
	trace  []string

	reverts, copies, commits int
}

func (r *runner) tr(format string, args ...interface{}) {
	if len(r.trace) < 60 {
		r.trace = append(r.trace, fmt.Sprintf(format, args...))
	}
}

func run(c *kernel.Ctx) {
	cfg := c.Tape.Fork("cfg")
	ops := c.Tape.Fork("ops")
	vals := c.Tape.Fork("vals")

	u := &universe{}
	u.mode = cfg.Pick(3, 4, 4)
	u.delEmp = cfg.Bool(1, 4)
	nAddr := cfg.Range(2, 6)
	nTok := cfg.Range(1, 3)
	nSlot := cfg.Range(1, 4)
	maxStates := 4
	maxOps := 120
	if c.Tier == kernel.Thorough {
		maxStates = 6
		maxOps = 200
	}
	nOpsRun := cfg.Range(20, maxOps)
	seen := map[common.Address]bool{common.EmptyAddress: true, common.BytesToAddress([]byte{3}): true}
	pickAddr := func() common.Address {
		b := cfg.Bytes(20)
		if cfg.Bool(1, 3) {
			// short addresses: small values exercise other encodings
			b = append(make([]byte, 18), b[:2]...)
		}
		// a shrunk/edited tape may repeat or zero the bytes: step deterministically
		// to the next free address instead of drawing again
		for {
			a := common.BytesToAddress(b)
			if !seen[a] {
				seen[a] = true
				return a
			}
			for i := 19; i >= 0; i-- {
				b[i]++
				if b[i] != 0 {
					break
				}
			}
		}
	}
	for i := 0; i < nAddr; i++ {
		u.addrs = append(u.addrs, pickAddr())
	}
	for i := 0; i < nTok; i++ {
		u.tokens = append(u.tokens, pickAddr())
	}
	for i := 0; i < nSlot; i++ {
		u.slots = append(u.slots, common.BytesToHash(cfg.Bytes(32)))
	}
	for i := 0; i < 4; i++ {
		u.txs = append(u.txs, common.BytesToHash(cfg.Bytes(32)))
		p := cfg.Bytes(1 + i*7)
		u.pre = append(u.pre, p)
		u.preH = append(u.preH, crypto.Keccak256Hash(p))
	}
	u.bhash = common.BytesToHash(cfg.Bytes(32))

	// swarm: per-run operation weights; each class is switched off in some runs
	w := make([]int, nOps)
	base := []int{6, 5, 4, 8, 6, 5, 5, 4, 9, 3, 3, 3, 2, 2, 1, 2, 2, 2, 1, 2, 10, 10, 3, 1}
	for i := range w {
		switch cfg.Pick(2, 5, 2) {
		case 0:
			w[i] = 0
		case 1:
			w[i] = base[i]
		default:
			w[i] = base[i] * 3
		}
	}
	// hazards that leave the application's usage pattern are confined to a
	// fraction of the runs so that the others explore undisturbed
	hzCreateOverClean := cfg.Bool(1, 5)
	hzCopyDirtyRoot := cfg.Bool(1, 5)
	hzZeroEntry := cfg.Bool(1, 5)
	if u.mode != modePlain {
		w[opFinalise] = 0
	}

	r := &runner{c: c, u: u}
	in, err := newInst(u.mode)
	if err != nil {
		c.HarnessTrouble("state.New on an empty db failed: %v", err)
		return
	}
	r.states = []*live{{label: "S0", in: in, w: newWorld(), tx: -1}}
	r.nlabel = 1
	c.Finger(u.mode, u.delEmp, nAddr, nTok, nSlot)

	amount := func(max *big.Int) *big.Int {
		// max == nil: free amount; else uniform-ish in [0,max]
		var v *big.Int
		switch vals.Pick(2, 6, 2, 1) {
		case 0:
			v = new(big.Int)
		case 1:
			v = big.NewInt(int64(vals.Range(1, 12)))
		case 2:
			v = new(big.Int).SetUint64(vals.Uint64())
		default:
			v = new(big.Int).SetBytes(vals.Bytes(16))
		}
		if max != nil && v.Cmp(max) > 0 {
			if max.Sign() == 0 {
				return new(big.Int)
			}
			if vals.Bool(1, 2) {
				return new(big.Int).Set(max) // drain to exactly zero
			}
			v.Mod(v, new(big.Int).Add(max, big.NewInt(1)))
		}
		return v
	}

	// step performs one tape-chosen operation; true = stop the run
	step := func() bool {
		li := ops.Int(len(r.states))
		l := r.states[li]
		k := ops.Pick(w...)
		if u.mode == modeKV && l.pendingCommit {
			// kv mode reads account records straight from the flat db, which a
			// finalisation has not reached yet: as in the application, the only
			// thing that follows IntermediateRoot is Commit
			k = opCommit
		}
		o := op{k: k, a: ops.Int(nAddr), t: ops.Int(nTok+1) - 1, s: ops.Int(nSlot)}
		c.Event(1)

		switch k {
		case opSnapshot:
			if len(l.snaps) >= 8 {
				return false
			}
			var id int
			if out := r.try(l, "Snapshot", func() { id = l.in.sdb.Snapshot() }); out != ok {
				return out == stopRun
			}
			l.snaps = append(l.snaps, snap{id: id, w: l.w.clone(), histLen: len(l.hist), taint: l.taint, tx: l.tx})
			r.tr("%s.Snapshot()=#%d", l.label, id)
			c.Finger("snap", li)
			// a snapshot changes nothing
			return r.checkAll(l, "Snapshot") == stopRun

		case opRevert:
			first := 0
			for i, sn := range l.snaps {
				if sn.noRevert {
					first = i + 1
				}
			}
			if first >= len(l.snaps) {
				return false
			}
			pos := first + ops.Int(len(l.snaps)-first)
			sn := l.snaps[pos]
			undone := len(l.hist) - sn.histLen
			if out := r.try(l, "RevertToSnapshot", func() { l.in.sdb.RevertToSnapshot(sn.id) }); out != ok {
				return out == stopRun
			}
			if pos < len(l.snaps)-1 {
				c.Fault("revert-nested")
			}
			if undone > 0 {
				c.Fault("revert")
				r.reverts++
				r.probeRevert(l.hist[sn.histLen:])
			} else {
				c.Probe("revert-empty")
			}
			l.w, l.hist, l.taint = sn.w, l.hist[:sn.histLen:sn.histLen], sn.taint
			if l.tx != sn.tx {
				// Prepare is not journalled: re-issue the tx context of the snapshot
				l.tx = sn.tx
				if l.tx >= 0 {
					u.exec(l.in, op{k: opPrepare, s: l.tx})
				}
			}
			l.snaps = l.snaps[:pos]
			r.tr("%s.RevertToSnapshot(#%d) undoing %d ops", l.label, sn.id, undone)
			c.Finger("revert", li, pos, undone)
			return r.checkAll(l, "RevertToSnapshot") == stopRun

		case opCopy:
			if len(r.states) >= maxStates {
				return false
			}
			if u.mode == modeKV && l.pendingCommit {
				return false
			}
			var cp *inst
			if out := r.try(l, "Copy", func() { cp = &inst{sdb: l.in.sdb.Copy(), fam: l.in.fam} }); out != ok {
				return out == stopRun
			}
			nl := &live{label: fmt.Sprintf("S%d", r.nlabel), in: cp, w: l.w.clone(), hist: append([]op(nil), l.hist...),
				tx: l.tx, taint: l.taint, pendingCommit: l.pendingCommit, depth: l.depth + 1}
			r.nlabel++
			if l.w.anyDirty() {
				nl.taint.copyDirty = true
				c.Probe("copy-of-dirty-state")
			}
			l.taint.sharedTok, nl.taint.sharedTok = true, true
			for i := range l.snaps {
				// the shared maps survive a revert of the parent
				l.snaps[i].taint.sharedTok = true
			}
			if len(l.snaps) > 0 {
				c.Probe("copy-inside-snapshot")
			}
			if nl.depth > 1 {
				c.Probe("copy-of-copy")
			}
			if nl.tx >= 0 {
				u.exec(nl.in, op{k: opPrepare, s: nl.tx})
			}
			r.states = append(r.states, nl)
			r.copies++
			c.Fault("copy")
			r.tr("%s = %s.Copy()", nl.label, l.label)
			c.Finger("copy", li)
			return r.checkAll(nl, "Copy") == stopRun

		case opDrop:
			if len(r.states) < 2 {
				return false
			}
			r.states = append(r.states[:li], r.states[li+1:]...)
			r.tr("drop %s", l.label)
			c.Finger("drop", li)
			return false
		}

		// ---- history operations
		if u.mode == modeKV && l.w.kvGhost[o.a] && k <= opSetCredits && k != opAddRefund && k != opSubRefund && k != opAddPreimage {
			// kv mode never deletes the flat storage records of a removed
			// account, so re-creating the address would resurrect them. That is
			// a storage-mode matter (C05/C19), not a snapshot/copy one: such an
			// address is left alone.
			c.Probe("kv-ghost-storage-address-skipped")
			return false
		}
		switch k {
		case opAddBalance, opSetBalance:
			o.amt = amount(nil)
		case opAddToken, opSetToken:
			o.amt = amount(nil)
		case opSubBalance:
			o.t = -1
			o.amt = amount(r.bal(l, o.a, -1))
		case opSubToken:
			o.amt = amount(r.bal(l, o.a, o.t))
		case opSetNonce:
			if vals.Bool(1, 4) {
				o.u = vals.Uint64()
			} else {
				o.u = uint64(vals.Int(5))
			}
		case opSetCredits:
			o.u = uint64(vals.Int(1000))
		case opSetCode:
			if !vals.Bool(1, 5) {
				o.b = vals.Bytes(vals.Range(1, 40))
			}
		case opSetState:
			switch vals.Pick(2, 5, 2, 1) {
			case 0: // delete
				if vals.Bool(1, 2) {
					o.b = make([]byte, 32)
				}
			case 1:
				o.b = common.BigToHash(big.NewInt(int64(vals.Range(1, 300)))).Bytes()
			case 2:
				o.b = vals.Bytes(32)
			default:
				o.b = vals.Bytes(vals.Range(1, 31))
			}
		case opCreateAccount:
			if prev, exists := l.w.accts[o.a]; exists {
				if u.mode == modeKV && l.w.kvStorageEver[o.a] {
					return false
				}
				if !prev.dirty {
					if !hzCreateOverClean {
						return false
					}
					l.taint.createOverClean = true
					c.Probe("createaccount-over-untouched")
				}
				c.Probe("createaccount-over-existing")
			}
		case opAddLog:
			if l.tx < 0 {
				o = op{k: opPrepare, s: ops.Int(len(u.txs))}
			} else {
				o.u = uint64(vals.Int(4))
				o.b = vals.Bytes(vals.Int(40))
			}
		case opAddRefund:
			o.u = uint64(vals.Range(1, 30000))
		case opSubRefund:
			if l.w.refund == 0 {
				return false
			}
			o.u = uint64(vals.Range(1, int(minU(l.w.refund, 1<<30))))
		case opAddPreimage:
			o.s = ops.Int(len(u.pre))
		case opPrepare:
			o.s = ops.Int(len(u.txs))
		case opCommit:
			if u.mode == modePlain {
				o.u = uint64(ops.Pick(3, 2, 3, 2))
			} else {
				o.u = uint64(ops.Pick(3, 2, 3))
			}
		}
		k = o.k

		// twin first: it must perform the root-producing operation at the same
		// point of its own (net) history
		var twinRoot common.Hash
		var twin *inst
		needTwin := k == opIntermediateRoot || k == opCommit
		if (k == opIntermediateRoot || k == opFinalise) && l.taint.copyDirty {
			// Finalise works from the journal, which a Copy does not carry: the
			// changes a copy inherited unfinalised are written by Commit only.
			// Upstream and the application never finalise such a copy.
			if !hzCopyDirtyRoot {
				return false
			}
			l.taint.copyDirtyFinalised = true
			c.Probe("hazard-copy-of-unfinalised-finalised")
		}
		if !hzZeroEntry && len(l.snaps) > 0 {
			// Account.Tokens keeps a zero-valued entry when the first write of a
			// token key is reverted, and loses zero-valued entries when a
			// Suicide is reverted (known; explored in hzZeroEntry runs): outside
			// those runs such an operation makes a live snapshot unrevertable,
			// unless the account did not exist when the snapshot was taken (the
			// revert then drops the whole object) or already had the key then
			pinned := false
			if ac, exists := l.w.accts[o.a]; exists {
				for i := range l.snaps {
					old, had := l.snaps[i].w.accts[o.a]
					if !had {
						continue
					}
					hazard := false
					switch k {
					case opAddToken, opSubToken:
						hazard = o.t >= 0 && o.amt.Sign() != 0 && !old.tokKeys[o.t]
					case opSetToken:
						hazard = o.t >= 0 && !old.tokKeys[o.t]
					case opSuicide:
						hazard = ac.zeroTokenKey()
					}
					if hazard {
						l.snaps[i].noRevert = true
						pinned = true
					}
				}
			}
			if pinned {
				c.Probe("zero-entry-hazard-pins-snapshots")
			}
		}
		if needTwin {
			var terr error
			site, msg, p := kernel.Try(func() {
				twin, terr = r.buildTwin(l.hist)
				if terr == nil {
					twinRoot, terr = u.exec(twin, o)
				}
			})
			if p {
				if c.Violate("panic", l.taint.key("panic/twin/"+site), "twin replay of %d net ops panicked at %s: %s", len(l.hist), site, msg) {
					return true
				}
				r.retire(l)
				return false
			}
			if terr != nil {
				c.HarnessTrouble("twin replay failed: %v", terr)
				return true
			}
			c.Evals(1)
		}

		var root common.Hash
		var xerr error
		// the hazards in effect while the operation ran: a Commit ends them for
		// what follows, but its own root is still a product of them
		opTaint := l.taint
		if out := r.try(l, opNames[k], func() { root, xerr = u.exec(l.in, o) }); out != ok {
			return out == stopRun
		}
		if xerr != nil {
			if c.Violate("commit-error", l.taint.key("error/"+opNames[k]), "%s.%s failed: %v", l.label, o, xerr) {
				return true
			}
			r.retire(l)
			return false
		}
		r.probeOp(l, o)
		l.w.apply(o, u.delEmp, l.tx)
		l.hist = append(l.hist, o)
		if k == opPrepare {
			l.tx = o.s
		}
		switch k {
		case opIntermediateRoot, opFinalise:
			l.snaps = nil
			l.pendingCommit = true
		case opCommit:
			l.snaps = nil
			l.pendingCommit = false
			l.taint.copyDirty, l.taint.copyDirtyFinalised = false, false
			r.commits++
			if int(o.u) != afterContinue {
				l.tx = -1
				l.taint.sharedTok = false // all state objects were dropped
				c.Fault("reopen-" + afterNames[o.u])
			}
			if u.mode == modeKV {
				// one flat db: as in the application, every other state of the
				// family is discarded when one lineage commits
				if len(r.states) > 1 {
					c.Probe("kv-commit-drops-siblings")
				}
				r.states = []*live{l}
			}
		case opAddBalance, opSubBalance, opSetBalance, opAddToken, opSubToken, opSetToken, opSetNonce, opSetCode, opSetState, opCreateAccount, opSuicide:
			// learn the credits the target now reports (see acct.credits)
			if ac, exists := l.w.accts[o.a]; exists {
				ac.credits = l.in.sdb.GetCredits(u.addrs[o.a])
			}
		}
		r.tr("%s.%s", l.label, o)
		c.Finger(li, k, o.a, o.t, o.s, o.u, len(o.b), o.amt, root)

		if needTwin && root != twinRoot {
			d := r.diagnose(l.in, twin)
			key := opTaint.key("twinroot/" + opNames[k] + "/" + modeNames[u.mode] + "/" + d)
			if strings.Contains(d, "tokens") {
				key = opTaint.tokenKey(key)
			}
			if d == "tokens-zero-entry" {
				// cause identified: the only difference is a zero-valued entry
				// left in (or lost from) Account.Tokens by a revert
				key = "twinroot/tokens-zero-entry"
			}
			if d == "storage-zero-leaf" {
				// cause identified: the accounts agree in everything but the storage
				// root, and the storage tries differ only in leaves that read as
				// "unset" on both sides (the empty-string leaf a write of an
				// all-zero, non-empty value leaves behind)
				key = opTaint.key("twinroot/storage-zero-leaf")
				c.Probe("storage-zero-leaf-difference")
			}
			if c.Violate("twin-root", key, "%s.%s = %x but a twin that applied only the %d net operations of this lineage (no snapshots, reverts or copies) on a fresh db gets %x; mode=%s deleteEmpty=%v",
				l.label, opNames[k], root, len(l.hist), twinRoot, modeNames[u.mode], u.delEmp) {
				return true
			}
			r.retire(l)
			return false
		}
		return r.checkAll(l, opNames[k]) == stopRun
	}
	for i := 0; i < nOpsRun && len(r.states) > 0; i++ {
		if step() {
			break
		}
	}
	r.finish()
}

func minU(a, b uint64) uint64 {
	if a < b {
		return a
	}
	return b
}

func (r *runner) bal(l *live, a, t int) *big.Int {
	if ac, ok := l.w.accts[a]; ok {
		return ac.tokenBal(t)
	}
	return new(big.Int)
}

// try runs f on the code under test; a panic is a violation.
func (r *runner) try(l *live, what string, f func()) outcome {
	site, msg, p := kernel.Try(f)
	if !p {
		return ok
	}
	r.tr("!! %s.%s panicked at %s: %s", l.label, what, site, msg)
	if r.c.Violate("panic", l.taint.key("panic/"+what+"/"+site), "%s.%s panicked at %s: %s", l.label, what, site, msg) {
		return stopRun
	}
	r.retire(l)
	return skip
}

func (r *runner) retire(l *live) {
	for i, x := range r.states {
		if x == l {
			r.states = append(r.states[:i], r.states[i+1:]...)
			return
		}
	}
}

func (r *runner) finish() {
	c := r.c
	if r.reverts > 0 && (r.copies > 0 || r.commits > 0) {
		c.NonTrivial()
	}
	c.Sample(map[string]interface{}{
		"mode": modeNames[r.u.mode], "deleteEmpty": r.u.delEmp,
		"addrs": len(r.u.addrs), "tokens": len(r.u.tokens), "slots": len(r.u.slots),
		"reverts": r.reverts, "copies": r.copies, "commits": r.commits,
		"ops": r.trace,
	})
}

func (r *runner) buildTwin(hist []op) (*inst, error) {
	tw, err := newInst(r.u.mode)
	if err != nil {
		return nil, err
	}
	for _, o := range hist {
		if _, err := r.u.exec(tw, o); err != nil {
			return nil, err
		}
	}
	return tw, nil
}

func (r *runner) probeRevert(undone []op) {
	for _, o := range undone {
		switch o.k {
		case opCreateAccount:
			r.c.Probe("revert-createaccount")
		case opSuicide:
			r.c.Probe("revert-suicide")
		case opAddToken, opSubToken, opSetToken:
			r.c.Probe("revert-token-write")
		case opSetCode:
			r.c.Probe("revert-setcode")
		case opSetState:
			r.c.Probe("revert-setstate")
		case opAddLog:
			r.c.Probe("revert-log")
		}
	}
}

func (r *runner) probeOp(l *live, o op) {
	c := r.c
	ac, ok := l.w.accts[o.a]
	switch o.k {
	case opAddBalance, opAddToken:
		if o.amt.Sign() == 0 && (!ok || ac.empty()) {
			c.Probe("touch-empty")
		}
	case opSuicide:
		if ok {
			c.Probe("suicide-existing")
			if len(ac.tokens) > 0 {
				c.Probe("suicide-with-tokens")
			}
		}
	case opSetState:
		if ok && len(normVal(o.b)) == 0 && len(ac.storage[o.s]) > 0 {
			c.Probe("storage-delete")
		}
	case opIntermediateRoot, opFinalise, opCommit:
		for _, k := range l.w.sortedAddrs() {
			a := l.w.accts[k]
			if a.suicided {
				c.Probe("finalise-removes-suicided")
			} else if r.u.delEmp && a.empty() {
				c.Probe("finalise-removes-empty")
			}
		}
	}
}

// diagnose names what differs between a state and its twin (both finalised)
// using the exported account view; "none" = the cached accounts agree and the
// difference is in what was (not) written to the trie.
func (r *runner) diagnose(a, b *inst) string {
	diff := map[string]bool{}
	for _, ad := range r.u.addrs {
		x, y := a.sdb.GetAccount(ad), b.sdb.GetAccount(ad)
		if (x == nil) != (y == nil) {
			diff["existence"] = true
			continue
		}
		if x == nil {
			continue
		}
		if x.Nonce != y.Nonce {
			diff["nonce"] = true
		}
		if x.Credits != y.Credits {
			diff["credits"] = true
		}
		if x.Balance.Cmp(y.Balance) != 0 {
			diff["balance"] = true
		}
		if x.Root != y.Root {
			diff["storageroot"] = true
		}
		if string(x.CodeHash) != string(y.CodeHash) {
			diff["codehash"] = true
		}
		// token maps: distinguish a real difference from zero-valued leftovers
		real, zero := false, false
		for k, v := range x.Tokens {
			w, ok := y.Tokens[k]
			switch {
			case ok && v.Cmp(w) != 0, !ok && v.Sign() != 0:
				real = true
			case !ok:
				zero = true
			}
		}
		for k, w := range y.Tokens {
			if _, ok := x.Tokens[k]; !ok {
				if w.Sign() != 0 {
					real = true
				} else {
					zero = true
				}
			}
		}
		if real {
			diff["tokens"] = true
		}
		if zero {
			diff["tokens-zero-entry"] = true
		}
	}
	if len(diff) == 0 {
		return "none"
	}
	if len(diff) == 1 && diff["storageroot"] && r.u.mode != modeKV && r.zeroLeafOnly(a, b) {
		return "storage-zero-leaf"
	}
	ks := make([]string, 0, len(diff))
	for k := range diff {
		ks = append(ks, k)
	}
	sort.Strings(ks)
	return strings.Join(ks, "+")
}

// zeroLeafOnly reports whether the storage tries of the two states differ only
// by leaves that exist on one side, belong to a slot of the universe, and read
// as "unset" through GetState on BOTH sides. Such a leaf holds the empty
// string: SetState with an all-zero, non-empty value writes it instead of
// deleting the slot. Anything else (a leaf with different contents on the two
// sides, a leaf of an unknown key, a slot that reads as set) answers false.
func (r *runner) zeroLeafOnly(a, b *inst) bool {
	slotOf := map[common.Hash]int{}
	for i, s := range r.u.slots {
		slotOf[crypto.Keccak256Hash(s[:])] = i
	}
	found := false
	for _, ad := range r.u.addrs {
		x, y := a.sdb.GetAccount(ad), b.sdb.GetAccount(ad)
		if x == nil || y == nil || x.Root == y.Root {
			continue
		}
		la, oka := storageLeaves(a, ad)
		lb, okb := storageLeaves(b, ad)
		if !oka || !okb {
			return false
		}
		unset := func(k common.Hash) bool {
			si, known := slotOf[k]
			return known && len(normVal(a.sdb.GetState(ad, r.u.slots[si]))) == 0 && len(normVal(b.sdb.GetState(ad, r.u.slots[si]))) == 0
		}
		for k, v := range la {
			if w, both := lb[k]; both {
				if !bytes.Equal(v, w) {
					return false
				}
				continue
			}
			if !unset(k) {
				return false
			}
			found = true
		}
		for k := range lb {
			if _, both := la[k]; both {
				continue
			}
			if !unset(k) {
				return false
			}
			found = true
		}
	}
	return found
}

// storageLeaves lists the leaves (hashed key -> raw value) of an account's
// storage trie; false where the storage mode has no iterable trie.
func storageLeaves(in *inst, ad common.Address) (m map[common.Hash][]byte, listed bool) {
	_, _, p := kernel.Try(func() {
		tr := in.sdb.StorageTrie(ad)
		if tr == nil {
			return
		}
		ni := tr.NodeIterator(nil)
		if ni == nil {
			return
		}
		m = map[common.Hash][]byte{}
		for it := trie.NewIterator(ni); it.Next(); {
			m[common.BytesToHash(it.Key)] = append([]byte(nil), it.Value...)
		}
		listed = true
	})
	return m, listed && !p
}
