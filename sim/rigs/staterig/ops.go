package staterig

import (
	"fmt"
	"math/big"

	"github.com/lianxiangcloud/linkchain/libs/common"
	dbm "github.com/lianxiangcloud/linkchain/libs/db"
	"github.com/lianxiangcloud/linkchain/state"
	"github.com/lianxiangcloud/linkchain/types"
)

// storage modes
const (
	modePlain   = 0 // state.NewDatabase (tools, vm/runtime)
	modeWrapped = 1 // state.NewKeyValueDBWithCache(isTrie=true)  (production "trie mode")
	modeKV      = 2 // state.NewKeyValueDBWithCache(isTrie=false) (production "kv mode")
)

var modeNames = []string{"trie-plain", "trie-wrapped", "kv"}

// operation kinds
const (
	opAddBalance = iota
	opSubBalance
	opSetBalance
	opAddToken
	opSubToken
	opSetToken
	opSetNonce
	opSetCode
	opSetState
	opCreateAccount
	opSuicide
	opAddLog
	opAddRefund
	opSubRefund
	opAddPreimage
	opSetCredits
	opPrepare
	opIntermediateRoot
	opFinalise
	opCommit
	// not part of an effective history (never replayed on a twin):
	opSnapshot
	opRevert
	opCopy
	opDrop
	nOps
)

var opNames = []string{"AddBalance", "SubBalance", "SetBalance", "AddTokenBalance", "SubTokenBalance", "SetTokenBalance",
	"SetNonce", "SetCode", "SetState", "CreateAccount", "Suicide", "AddLog", "AddRefund", "SubRefund", "AddPreimage",
	"SetCredits", "Prepare", "IntermediateRoot", "Finalise", "Commit", "Snapshot", "RevertToSnapshot", "Copy", "Drop"}

// commit variants: what is done with the state after Commit
const (
	afterReset     = 0 // Reset(root), as app.CommitBlock does
	afterNewSameDB = 1 // state.New(root, same Database)
	afterNewFresh  = 2 // state.New(root, fresh Database over the same disk db): restart
	afterContinue  = 3 // keep using the state (plain mode only)
)

var afterNames = []string{"reset", "new", "restart", "continue"}

type op struct {
	k   int
	a   int      // address index
	t   int      // token index, -1 = the native token (common.EmptyAddress)
	s   int      // slot / preimage / tx-hash index
	amt *big.Int // amount
	u   uint64   // nonce / credits / refund / topics
	b   []byte   // code / value / log data
}

func (o op) String() string {
	switch o.k {
	case opAddBalance, opSubBalance, opSetBalance:
		return fmt.Sprintf("%s(a%d,%s)", opNames[o.k], o.a, o.amt)
	case opAddToken, opSubToken, opSetToken:
		return fmt.Sprintf("%s(a%d,t%d,%s)", opNames[o.k], o.a, o.t, o.amt)
	case opSetNonce, opSetCredits:
		return fmt.Sprintf("%s(a%d,%d)", opNames[o.k], o.a, o.u)
	case opSetCode:
		return fmt.Sprintf("SetCode(a%d,%dB)", o.a, len(o.b))
	case opSetState:
		return fmt.Sprintf("SetState(a%d,s%d,%x)", o.a, o.s, o.b)
	case opCreateAccount, opSuicide:
		return fmt.Sprintf("%s(a%d)", opNames[o.k], o.a)
	case opAddLog:
		return fmt.Sprintf("AddLog(a%d,%dtopics,%dB)", o.a, o.u, len(o.b))
	case opAddRefund, opSubRefund:
		return fmt.Sprintf("%s(%d)", opNames[o.k], o.u)
	case opAddPreimage:
		return fmt.Sprintf("AddPreimage(p%d)", o.s)
	case opPrepare:
		return fmt.Sprintf("Prepare(tx%d)", o.s)
	case opCommit:
		return fmt.Sprintf("Commit+%s", afterNames[o.u])
	case opRevert:
		return fmt.Sprintf("RevertToSnapshot(#%d)", o.s)
	}
	return opNames[o.k]
}

// universe of a run
type universe struct {
	addrs  []common.Address
	tokens []common.Address
	slots  []common.Hash
	txs    []common.Hash
	pre    [][]byte
	preH   []common.Hash
	bhash  common.Hash
	mode   int
	delEmp bool
}

func (u *universe) token(t int) common.Address {
	if t < 0 {
		return common.EmptyAddress
	}
	return u.tokens[t]
}

// family: the disk db and the Database wrapper a set of states shares.
type family struct {
	mem    dbm.DB
	db     state.Database
	height uint64
}

func newDatabase(mode int, mem dbm.DB, height uint64) state.Database {
	switch mode {
	case modePlain:
		return state.NewDatabase(mem)
	case modeWrapped:
		return state.NewKeyValueDBWithCache(mem, 0, true, height)
	default:
		// cache = 0: no kvState.wal file (the WAL only serves crash recovery, C13)
		return state.NewKeyValueDBWithCache(mem, 0, false, height)
	}
}

func newFamily(mode int) *family {
	mem := dbm.NewMemDB()
	return &family{mem: mem, db: newDatabase(mode, mem, 0)}
}

// inst is one real StateDB together with the Database it lives on.
type inst struct {
	sdb *state.StateDB
	fam *family
}

func newInst(mode int) (*inst, error) {
	f := newFamily(mode)
	s, err := state.New(common.EmptyHash, f.db)
	if err != nil {
		return nil, err
	}
	return &inst{sdb: s, fam: f}, nil
}

// exec performs one history operation on a real state. It returns the root for
// IntermediateRoot / Commit. Used identically for live states and for twins.
func (u *universe) exec(in *inst, o op) (root common.Hash, err error) {
	s := in.sdb
	switch o.k {
	case opAddBalance:
		s.AddBalance(u.addrs[o.a], new(big.Int).Set(o.amt))
	case opSubBalance:
		s.SubBalance(u.addrs[o.a], new(big.Int).Set(o.amt))
	case opSetBalance:
		s.SetBalance(u.addrs[o.a], new(big.Int).Set(o.amt))
	case opAddToken:
		s.AddTokenBalance(u.addrs[o.a], u.token(o.t), new(big.Int).Set(o.amt))
	case opSubToken:
		s.SubTokenBalance(u.addrs[o.a], u.token(o.t), new(big.Int).Set(o.amt))
	case opSetToken:
		s.SetTokenBalance(u.addrs[o.a], u.token(o.t), new(big.Int).Set(o.amt))
	case opSetNonce:
		s.SetNonce(u.addrs[o.a], o.u)
	case opSetCode:
		s.SetCode(u.addrs[o.a], append([]byte(nil), o.b...))
	case opSetState:
		s.SetState(u.addrs[o.a], u.slots[o.s], append([]byte(nil), o.b...))
	case opCreateAccount:
		s.CreateAccount(u.addrs[o.a])
	case opSuicide:
		s.Suicide(u.addrs[o.a])
	case opAddLog:
		topics := make([]common.Hash, o.u)
		for i := range topics {
			topics[i] = u.slots[(o.s+i)%len(u.slots)]
		}
		s.AddLog(&types.Log{Address: u.addrs[o.a], Topics: topics, Data: append([]byte(nil), o.b...), BlockNumber: 1})
	case opAddRefund:
		s.AddRefund(o.u)
	case opSubRefund:
		s.SubRefund(o.u)
	case opAddPreimage:
		s.AddPreimage(u.preH[o.s], append([]byte(nil), u.pre[o.s]...))
	case opSetCredits:
		s.SetCredits(u.addrs[o.a], o.u)
	case opPrepare:
		s.Prepare(u.txs[o.s], u.bhash, o.s)
	case opIntermediateRoot:
		root = s.IntermediateRoot(u.delEmp)
	case opFinalise:
		s.Finalise(u.delEmp)
	case opCommit:
		in.fam.height++
		root, err = s.Commit(u.delEmp, in.fam.height)
		if err != nil {
			return root, fmt.Errorf("Commit: %v", err)
		}
		// as app.CommitBlock: flush the trie nodes (kv mode returns
		// "unimplemented", which the application ignores as well)
		s.Database().TrieDB().Commit(root, false)
		switch int(o.u) {
		case afterReset:
			if err = s.Reset(root); err != nil {
				return root, fmt.Errorf("Reset: %v", err)
			}
		case afterNewSameDB:
			ns, e := state.New(root, in.fam.db)
			if e != nil {
				return root, fmt.Errorf("New(same db): %v", e)
			}
			in.sdb = ns
		case afterNewFresh:
			nf := &family{mem: in.fam.mem, height: in.fam.height}
			nf.db = newDatabase(u.mode, nf.mem, nf.height)
			ns, e := state.New(root, nf.db)
			if e != nil {
				return root, fmt.Errorf("New(fresh db): %v", e)
			}
			in.sdb, in.fam = ns, nf
		case afterContinue:
		}
	default:
		panic(fmt.Sprintf("staterig: op %d is not a history operation", o.k))
	}
	return root, nil
}

// apply performs the operation on the model.
func (w *world) apply(o op, delEmp bool, curTx int) {
	switch o.k {
	case opAddBalance, opAddToken:
		t := o.t
		if o.k == opAddBalance {
			t = -1
		}
		ac := w.getOrNew(o.a)
		if o.amt.Sign() == 0 {
			if ac.empty() {
				ac.dirty = true // EIP-161 touch
			}
			return
		}
		ac.setTokenBal(t, new(big.Int).Add(ac.tokenBal(t), o.amt))
		ac.dirty = true
	case opSubBalance, opSubToken:
		t := o.t
		if o.k == opSubBalance {
			t = -1
		}
		ac := w.getOrNew(o.a)
		if o.amt.Sign() == 0 {
			return
		}
		ac.setTokenBal(t, new(big.Int).Sub(ac.tokenBal(t), o.amt))
		ac.dirty = true
	case opSetBalance, opSetToken:
		t := o.t
		if o.k == opSetBalance {
			t = -1
		}
		ac := w.getOrNew(o.a)
		ac.setTokenBal(t, o.amt)
		ac.dirty = true
	case opSetNonce:
		ac := w.getOrNew(o.a)
		ac.nonce = o.u
		ac.dirty = true
	case opSetCredits:
		ac := w.getOrNew(o.a)
		ac.credits = o.u
		ac.dirty = true
	case opSetCode:
		ac := w.getOrNew(o.a)
		ac.code = append([]byte(nil), o.b...)
		ac.dirty = true
	case opSetState:
		ac := w.getOrNew(o.a)
		nv := normVal(o.b)
		// dirty/maybeDirty are bookkeeping for the hazard labels only. The
		// implementation compares raw bytes (32 zero bytes over an unset slot
		// are journalled although nothing observable changes): a changed
		// number is certainly journalled, an unchanged one possibly
		if string(ac.storage[o.s]) != string(nv) {
			ac.dirty = true
		}
		ac.maybeDirty = true
		if len(nv) == 0 {
			delete(ac.storage, o.s)
		} else {
			ac.storage[o.s] = append([]byte(nil), nv...)
			w.kvStorageEver[o.a] = true
		}
	case opCreateAccount:
		prev, had := w.accts[o.a]
		ac := &acct{balance: new(big.Int), tokens: map[int]*big.Int{}, storage: map[int][]byte{}, dirty: true}
		if had {
			// documented: "If a state object with the address already exists the
			// balance is carried over to the new account." Token balances are funds
			// like the coin balance (C06: they must not disappear; /repo ac944bb).
			ac.balance = new(big.Int).Set(prev.balance)
			for k, v := range prev.tokens {
				ac.tokens[k] = new(big.Int).Set(v)
			}
			for k := range prev.tokKeys {
				if ac.tokKeys == nil {
					ac.tokKeys = map[int]bool{}
				}
				ac.tokKeys[k] = true
			}
		}
		w.accts[o.a] = ac
	case opSuicide:
		ac, ok := w.accts[o.a]
		if !ok {
			return
		}
		ac.suicided = true
		ac.balance = new(big.Int)
		ac.tokens = map[int]*big.Int{}
		ac.tokKeys = nil
		ac.dirty = true
	case opAddLog:
		w.logs = append(w.logs, logRec{thash: curTx, addr: o.a, topics: int(o.u), data: append([]byte(nil), o.b...), index: w.logSize})
		w.logSize++
	case opAddRefund:
		w.refund += o.u
	case opSubRefund:
		w.refund -= o.u
	case opAddPreimage:
		w.preimages[o.s] = true
	case opPrepare:
	case opIntermediateRoot, opFinalise:
		w.finalise(delEmp)
	case opCommit:
		w.finalise(delEmp)
		if int(o.u) != afterContinue {
			w.reopened()
		}
	}
}
