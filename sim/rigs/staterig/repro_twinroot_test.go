package staterig

// Direct, rig-free reproduction of the C09 thorough-tier report
//   key twinroot/storage-zero-leaf   (replays/C09-601849977516990442.json; first seen as
//   twinroot/Commit/trie-plain/storageroot before the rig learnt to name the cause)
// against the real state package. Run with
//   cd /verif/sim && VERIF_REPRO=1 go1.26.8 test -tags verif -vet=off -overlay /verif/build/overlay.json ./rigs/staterig -run ReproTwinroot -v
// (VERIF_REPRO=1 as for repro_test.go; skipped otherwise). Each test FAILS
// while the defect is present.
//
// Cause: stateObject.updateTrie writes bytes.TrimLeft(value, "\x00") into the
// storage trie but caches the UNTRIMMED value in originStorage, and it decides
// "delete the leaf" by len(value) == 0 on the untrimmed value. A slot written
// with an all-zero, non-empty value (32 zero bytes) therefore becomes a leaf
// holding the empty string, and the object that wrote it remembers "32 zero
// bytes" while every object loaded from the trie reads "empty". Commit keeps
// the written object in StateDB.stateObjects (clean), Copy carries dirty
// objects only: the copy reloads the account, sees "empty", and from then on
// treats SetState(slot, empty) as a no-op (leaf stays) where the original
// treats it as a change (leaf deleted).

import (
	"bytes"
	"testing"

	"github.com/lianxiangcloud/linkchain/libs/common"
	dbm "github.com/lianxiangcloud/linkchain/libs/db"
	"github.com/lianxiangcloud/linkchain/state"
)

var rSlot = common.HexToHash("0x01")

// Minimal form: 1 write, Commit, Copy, the same single write on both sides.
func TestReproTwinrootCopyAfterCommitZeroSlot(t *testing.T) {
	reproOnly(t)
	s0, _ := state.New(common.EmptyHash, state.NewDatabase(dbm.NewMemDB()))
	s0.SetState(rA, rSlot, make([]byte, 32)) // all-zero, non-empty value
	if _, err := s0.Commit(false, 1); err != nil {
		t.Fatal(err)
	}
	s1 := s0.Copy() // rA is clean in s0: not carried, s1 reloads it from the trie

	// the same operation on the original and on its copy
	s0.SetState(rA, rSlot, nil)
	s1.SetState(rA, rSlot, nil)
	r0, err0 := s0.Commit(false, 2)
	r1, err1 := s1.Commit(false, 2)
	if err0 != nil || err1 != nil {
		t.Fatal(err0, err1)
	}
	if r0 != r1 {
		t.Fatalf("the same write after Copy gives different roots: original %x (storage root %x), copy %x (storage root %x)",
			r0, s0.GetStorageRoot(rA), r1, s1.GetStorageRoot(rA))
	}
}

// The shape the rig found (shrunk trace of the replay): the copy overwrites the
// slot and then clears it; the twin performs the net history of the copy's
// lineage on a fresh database, without any Copy.
func TestReproTwinrootCopyVsTwin(t *testing.T) {
	reproOnly(t)
	val := common.HexToHash("0x372f8d004f4fdf0cfc562b7a0661f75db0758b40a6971275795977a1ef60ee1a").Bytes()
	run := func(withCopy bool) common.Hash {
		s, _ := state.New(common.EmptyHash, state.NewDatabase(dbm.NewMemDB()))
		s.SetState(rA, rSlot, make([]byte, 32))
		if _, err := s.Commit(false, 1); err != nil { // Commit+continue
			t.Fatal(err)
		}
		if withCopy {
			s = s.Copy()
		}
		s.SetState(rA, rSlot, val)
		s.SetState(rA, rSlot, nil)
		root, err := s.Commit(false, 2)
		if err != nil {
			t.Fatal(err)
		}
		return root
	}
	if a, b := run(true), run(false); a != b {
		t.Fatalf("root of the lineage that went through Copy %x != root of the copy-free twin %x", a, b)
	}
}

// The same incoherence seen through a getter: right after Copy, before any
// write, the copy answers GetState differently from its original. (The rig
// compares storage values as numbers, so it does not report this form.)
func TestReproTwinrootCopyGetStateDiffers(t *testing.T) {
	reproOnly(t)
	for _, v := range [][]byte{make([]byte, 32), {0, 0, 0, 5}} {
		s0, _ := state.New(common.EmptyHash, state.NewDatabase(dbm.NewMemDB()))
		s0.SetState(rA, rSlot, v)
		if _, err := s0.Commit(false, 1); err != nil {
			t.Fatal(err)
		}
		s1 := s0.Copy()
		if a, b := s0.GetState(rA, rSlot), s1.GetState(rA, rSlot); !bytes.Equal(a, b) {
			t.Errorf("value written %x: original.GetState = %x, copy.GetState = %x", v, a, b)
		}
	}
}
