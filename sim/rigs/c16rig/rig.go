// Package c16rig registers the C16 check: no message from a single peer can
// halt a node's consensus.
package c16rig

import (
	"time"

	"verif/sim/cluster"
	"verif/sim/kernel"
)

func init() {
	kernel.Register(&kernel.Rig{
		Property: "C16", Name: "R-cluster/hostile-peer", Level: "exploration",
		Rule: "one run = one seeded cluster configuration x one schedule x a hostile peer (holding a validator key of minimal power) that sends, every 5-85 virtual ms until GST, one message to one honest node in whatever consensus state it is in: raw garbage, bit-flipped/truncated/wrong-channel genuine traffic, and well-typed proposals, block parts, votes, vote-set bits, majority claims and step announcements with boundary fields (-1, maxint32, maxint64, minint64, 0, cur+-1, nil components, bit arrays whose Bits disagree with Elems); each hostile message is one event; oracle evaluations = hostile messages delivered; non-trivial = honest nodes committed >= 2 heights; distinct = committed chain + events + final time",
		Real: []string{"consensus.ConsensusReactor.Receive + PeerState", "consensus.ConsensusState (real receiveRoutine incl. its recover())", "types.PartSet/VoteSet/HeightVoteSet", "libs/ser decoding", "FilePV, app, stores"},
		Stub: []string{"p2p connection layer (a panic inside Receive is what MConnection's recover turns into 'drop that peer': counted, not a violation)", "timeout ticker (simulator-controlled)", "gossip routines (stand-in)", "SimDB", "libxcrypto model"},
		Assumptions: []string{"messages classified 'must not change state' are invalid by construction (forged proofs, wrong signatures, out-of-range fields); flipped genuine traffic carries no state claim", "allocation bound 256 MiB per message", "liveness demanded >= 90 s of quiet virtual time after the last hostile message"},
		QuickRuns: 200, QuickBudget: 75 * time.Second, ThoroughRuns: 8000, ThoroughBudget: 25 * time.Minute,
		RunsPerProcess: 40, RunTimeout: 600 * time.Second,
		HangTimeout: 40 * time.Second, OnHang: cluster.HostileHang,
		Run: func(c *kernel.Ctx) { cluster.RunMode(c, cluster.ModeHostile) },
	})
}
