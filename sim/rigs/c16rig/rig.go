// Package c16rig registers the C16 check: no message from a single peer can
// halt a node's consensus.
package c16rig

import (
	"time"

	"verif/sim/cluster"
	"verif/sim/kernel"
)

func init() {
	kernel.Register(&kernel.Rig{
		Property: "C16", Name: "R-cluster/hostile-peer", Level: "exploration",
		Rule:        "one run = one seeded cluster configuration x one schedule x a hostile peer (holding a validator key of minimal power) that sends, every 5-85 virtual ms until GST, one message to one honest node in whatever consensus state it is in: raw garbage, bit-flipped/truncated/wrong-channel genuine traffic, and well-typed proposals, block parts, votes, vote-set bits, majority claims and step announcements with boundary fields (-1, maxint32, maxint64, minint64, 0, cur+-1, nil components, bit arrays whose Bits disagree with Elems); each hostile message is one event; oracle evaluations = hostile messages delivered; non-trivial = honest nodes committed >= 2 heights; distinct = committed chain + events + final time",
		Real:        []string{"libs/p2p/conn.MConnection around the reactor for 1/3 of the hostile messages (packets written to a pipe, the real receive routine calls Receive; what a panic in Receive costs is decided by the real recover path, and a process that dies is a violation: kernel crash classifier)", "consensus.ConsensusReactor.Receive + PeerState", "consensus.ConsensusState (real receiveRoutine incl. its recover())", "types.PartSet/VoteSet/HeightVoteSet", "libs/ser decoding", "FilePV, app, stores"},
		Stub:        []string{"for the other 2/3 of the hostile messages and all honest traffic the connection layer is the simulator (Receive called directly; a panic inside Receive is what MConnection's recover turns into 'drop that peer': counted, not a violation)", "secret connection, switch", "timeout ticker (simulator-controlled)", "gossip routines (stand-in)", "SimDB", "libxcrypto model"},
		Assumptions: []string{"messages classified 'must not change state' are invalid by construction (forged proofs, wrong signatures, out-of-range fields); flipped genuine traffic carries no state claim", "allocation bound 256 MiB per message", "liveness demanded >= 90 s of quiet virtual time after the last hostile message"},
		QuickRuns:   200, QuickBudget: 75 * time.Second, ThoroughRuns: 8000, ThoroughBudget: 25 * time.Minute,
		RunsPerProcess: 40, RunTimeout: 600 * time.Second,
		HangTimeout: 40 * time.Second, OnHang: cluster.HostileHang,
		OnCrash: func(log string) (string, string, string, bool) {
			// an unrecovered panic on a goroutine of the node: the process is gone
			v, site := kernel.CrashSite(log, "github.com/lianxiangcloud/linkchain/")
			if site == "" {
				return "", "", "", false // not in the code under test: harness trouble
			}
			return "process-crash", "C16/process-crash/" + site, "a message from the hostile peer killed the node's process (unrecovered panic outside every recover): " + v, true
		},
		Run: func(c *kernel.Ctx) { cluster.RunMode(c, cluster.ModeHostile) },
	})
}
