package partsrig

import (
	"testing"

	"github.com/lianxiangcloud/linkchain/types"
)

// probe c16-forged-part-panic/types.(*PartSet).AddPart/index-out-of-range/index-negative
// (property C16's subject, only counted by the C12 check): AddPart bounded the
// index from above only; a part with index -1 reached ps.parts[-1]. Fixed in
// the repository by "fix: PartSet.AddPart accepts a negative part index..."; the
// check now sees such parts refused like any other forgery.
func TestReproNegativePartIndex(t *testing.T) {
	ps := types.NewPartSetFromData(make([]byte, 100), 10)
	rcv := types.NewPartSetFromHeader(ps.Header())
	defer func() {
		if r := recover(); r != nil {
			t.Logf("REPRODUCED: AddPart(index -1) panicked: %v", r)
		}
	}()
	ok, err := rcv.AddPart(&types.Part{Index: -1, Bytes: []byte{1}})
	t.Logf("NOT REPRODUCED: added=%v err=%v", ok, err)
}
