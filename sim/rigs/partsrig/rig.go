// Package partsrig is the C12 rig: block identity commits to content, and part
// sets reassemble byte for byte into the proposer's block or not at all.
package partsrig

import (
	"bytes"
	"fmt"
	"io"
	"math"
	"reflect"
	"runtime"
	"strings"
	"time"

	"github.com/lianxiangcloud/linkchain/libs/common"
	"github.com/lianxiangcloud/linkchain/libs/crypto/merkle"
	"github.com/lianxiangcloud/linkchain/libs/log"
	"github.com/lianxiangcloud/linkchain/libs/ser"
	"github.com/lianxiangcloud/linkchain/types"

	"verif/sim/kernel"
	"verif/sim/rigs/valgen"
)

func init() {
	log.Root().SetHandler(log.DiscardHandler())
}

// Describe returns the rig (registered by the composite rigs/c12rig).
func Describe() *kernel.Rig {
	return &kernel.Rig{
		Property: "C12", Name: "partsrig", Level: "exploration",
		Rule: "Per run one generated block (0-40 txs of 6 kinds, 0-3 evidence, commit of 1-8 slots with absent votes, <= ~64 KiB) and a second unrelated one. IDENTITY is seeded input generation, said plainly: every exported Header field (enumerated by reflection) and tape-chosen body perturbations (tx replace/tweak-one-wire-field/swap/drop/duplicate/insert; the same for evidence; precommit tweak/swap/absent/drop/append; commit block id) are applied to a freshly decoded copy; whenever the encoding changes, Block.Hash() or the part-set hash must change; every Header field except those listed as committed-through-parts-only (Recover) must change Block.Hash(); a changed tx/evidence/precommit list must change Data/Evidence/Commit hash; ValidateBasic must reject header/body disagreement; after the proposer-style refill the block hash must change. REASSEMBLY is the simulated part: a part size from 1 byte to larger than the block, genuine parts delivered to NewPartSetFromHeader in tape order with duplicates, some runs withholding parts, and 0-4 forgeries per genuine part (truncated/flipped/extended bytes, index-shifted, out-of-range and negative index, aunt flipped/dropped/added/swapped/foreign proof, part of the other block, empty part); ground truth 'genuine' = same index, bytes and aunts as the proposer's part. Oracle: genuine added exactly once, forged never, count/bitmap/IsComplete follow the model, never complete while a part is withheld, on completion reader bytes == proposer encoding (also through odd-sized reads and the consensus-style DecodeReader) and decode to a block with the same hash. Non-trivial: >= 2 parts, >= 1 forgery refused, and the set completed or was deliberately starved. Distinct = hash over block hash, part size and the sequence of (delivery kind, outcome).",
		Real: []string{"types.Block/Header/Data/Commit/EvidenceData hashing and ValidateBasic", "types.PartSet (NewPartSetFromData, NewPartSetFromHeader, AddPart, GetReader/PartSetReader)", "libs/crypto/merkle simple tree, proofs, map hashing", "libs/ser encoding of blocks and parts", "tx/evidence hashing of all generated kinds"},
		Stub: []string{"no consensus state machine: parts are handed to AddPart directly (addProposalBlockPart's surroundings belong to the cluster rig)", "UTXO transactions are filled structurally (no confidential-transaction crypto)", "signatures and keys are random bytes (identity and reassembly never verify them)"},
		Assumptions: []string{
			"Header.Recover is transported and consensus-relevant but not part of Header.Hash(); it is committed only through the part-set hash, which the statement allows ('block hash or part-set hash'); listed explicitly so that any other or newly added header field that is not hashed fires",
			"Commit.BlockID is not covered by Commit.Hash(); it changes the part-set hash only (counted as a probe)",
			"the unexported Header.bloom is neither transported nor hashed and is not considered content",
			"a panic provoked by a FORGED part (negative index) is property C16's subject: counted as probe c16-forged-part-panic/..., not raised here",
		},
		QuickRuns: 20000, QuickBudget: 50 * time.Second,
		ThoroughRuns: 250000, ThoroughBudget: 14 * time.Minute,
		RunsPerProcess: 1000,
		Run:            run,
	}
}

// headerViaPartsOnly lists exported Header fields that are deliberately not
// required to change Block.Hash(): they must still change the part-set hash.
var headerViaPartsOnly = map[string]bool{"Recover": true}

// ---------------------------------------------------------------- helpers

const repoPrefix = "github.com/lianxiangcloud/linkchain/"

func try(f func()) (site, class, msg string, panicked bool) {
	defer func() {
		if r := recover(); r != nil {
			panicked = true
			msg = fmt.Sprint(r)
			if len(msg) > 200 {
				msg = msg[:200]
			}
			switch {
			case strings.Contains(msg, "index out of range"):
				class = "index-out-of-range"
			case strings.Contains(msg, "nil pointer"):
				class = "nil-deref"
			case strings.Contains(msg, "slice bounds"):
				class = "slice-bounds"
			default:
				class = "other"
			}
			site = repoSite()
		}
	}()
	f()
	return
}

func repoSite() string {
	pcs := make([]uintptr, 96)
	n := runtime.Callers(3, pcs)
	frames := runtime.CallersFrames(pcs[:n])
	seen := false
	for {
		f, more := frames.Next()
		fn := f.Function
		if !seen {
			if fn == "runtime.gopanic" || strings.HasPrefix(fn, "runtime.panic") || strings.HasPrefix(fn, "runtime.goPanic") || fn == "runtime.sigpanic" {
				seen = true
			}
		} else if strings.HasPrefix(fn, repoPrefix) {
			s := strings.TrimPrefix(fn, repoPrefix)
			if i := strings.Index(s, ".func"); i > 0 {
				s = s[:i]
			}
			return s
		}
		if !more {
			break
		}
	}
	return "unknown"
}

type runner struct {
	c    *kernel.Ctx
	seen map[string]bool
	stop bool
	nNew int
}

// violate records once per key and continues (see serrig: replays ignore the
// known-findings list and must still reach later violations).
func (r *runner) violate(class, key, format string, args ...interface{}) {
	if r.seen[key] {
		return
	}
	r.seen[key] = true
	if r.c.Violate(class, key, format, args...) {
		r.nNew++
		if r.nNew >= 5 {
			r.stop = true
		}
	}
}

func encBlock(b *types.Block) []byte {
	bz, err := ser.EncodeToBytes(b)
	if err != nil {
		panic("partsrig: block does not encode: " + err.Error())
	}
	return bz
}

func decBlock(bz []byte) (*types.Block, error) {
	b := new(types.Block)
	if err := ser.DecodeBytes(bz, b); err != nil {
		return nil, err
	}
	return b, nil
}

func clipN(b []byte, n int) []byte {
	if len(b) > n {
		return b[:n]
	}
	return b
}

// perturbLeaf changes one elementary value inside v (settable) and returns a
// description, or "" if v holds nothing it can change.
func perturbLeaf(t *kernel.Tape, v reflect.Value) string {
	switch v.Kind() {
	case reflect.Uint, reflect.Uint8, reflect.Uint16, reflect.Uint32, reflect.Uint64:
		old := v.Uint()
		var nw uint64
		switch t.Int(4) {
		case 0:
			nw = old + 1
		case 1:
			nw = old - 1
		case 2:
			nw = old ^ (1 << uint(t.Int(v.Type().Bits())))
		default:
			nw = 0
			if old == 0 {
				nw = 1
			}
		}
		v.SetUint(nw)
		if v.Uint() == old {
			v.SetUint(old ^ 1)
		}
		return "uint"
	case reflect.Int, reflect.Int8, reflect.Int16, reflect.Int32, reflect.Int64:
		old := v.Int()
		switch t.Int(3) {
		case 0:
			v.SetInt(old + 1)
		case 1:
			v.SetInt(old - 1)
		default:
			v.SetInt(-old - 1)
		}
		if v.Int() == old {
			v.SetInt(old ^ 1)
		}
		return "int"
	case reflect.String:
		s := v.String()
		switch {
		case s == "":
			v.SetString("x")
		case t.Bool(1, 3):
			v.SetString(s + "x")
		case t.Bool(1, 2):
			v.SetString(s[:len(s)-1])
		default:
			b := []byte(s)
			b[t.Int(len(b))] ^= 1
			v.SetString(string(b))
		}
		return "string"
	case reflect.Array:
		if v.Len() == 0 {
			return ""
		}
		if v.Type().Elem().Kind() == reflect.Uint8 {
			i := t.Int(v.Len())
			v.Index(i).SetUint(v.Index(i).Uint() ^ uint64(1<<uint(t.Int(8))))
			return "bytes"
		}
		return perturbLeaf(t, v.Index(t.Int(v.Len())))
	case reflect.Slice:
		if v.Type().Elem().Kind() == reflect.Uint8 {
			b := append([]byte{}, v.Bytes()...)
			switch {
			case len(b) == 0:
				b = []byte{1}
			case t.Bool(1, 4):
				b = append(b, 0)
			case t.Bool(1, 3):
				b = b[:len(b)-1]
			default:
				b[t.Int(len(b))] ^= byte(1 << uint(t.Int(8)))
			}
			nv := reflect.MakeSlice(v.Type(), len(b), len(b))
			reflect.Copy(nv, reflect.ValueOf(b))
			v.Set(nv)
			return "bytes"
		}
		if v.Len() == 0 {
			return ""
		}
		return perturbLeaf(t, v.Index(t.Int(v.Len())))
	case reflect.Ptr, reflect.Interface:
		if v.IsNil() {
			return ""
		}
		if v.Kind() == reflect.Interface {
			// copy out, perturb, put back (interface contents are not settable)
			e := v.Elem()
			cp := reflect.New(e.Type()).Elem()
			cp.Set(e)
			var d string
			if cp.Kind() == reflect.Ptr {
				d = perturbLeaf(t, cp)
			} else {
				d = perturbLeaf(t, cp)
				if d != "" {
					v.Set(cp)
				}
			}
			return d
		}
		return perturbLeaf(t, v.Elem())
	case reflect.Struct:
		if v.Type() == reflect.TypeOf(time.Time{}) {
			tm := v.Interface().(time.Time)
			v.Set(reflect.ValueOf(tm.Add(time.Duration(1+t.Int(1000)) * time.Nanosecond)))
			return "time"
		}
		var idx []int
		for i := 0; i < v.NumField(); i++ {
			if !valgen.Skipped(v.Type(), v.Type().Field(i)) && v.Field(i).CanSet() {
				idx = append(idx, i)
			}
		}
		// try fields in a rotated order until one can be changed
		if len(idx) == 0 {
			return ""
		}
		st := t.Int(len(idx))
		for k := 0; k < len(idx); k++ {
			i := idx[(st+k)%len(idx)]
			if d := perturbLeaf(t, v.Field(i)); d != "" {
				return v.Type().Field(i).Name + "." + d
			}
		}
	}
	return ""
}

// ---------------------------------------------------------------- identity

type ident struct {
	enc0   []byte
	h0     common.Hash
	psh0   types.PartSetHeader
	idSize int
	orig   *types.Block
}

func (r *runner) fresh(id *ident) *types.Block {
	b, err := decBlock(id.enc0)
	if err != nil {
		r.violate("identity", "identity/valid-block-does-not-decode", "a generated block's own encoding does not decode: %v", err)
		r.stop = true
		return nil
	}
	return b
}

func partsHash(b *types.Block, sz int) []byte { return b.MakePartSet(sz).Header().Hash }

func (r *runner) identity(id *ident, pert *kernel.Tape, gen *kernel.Tape) {
	c := r.c
	// sanity of the decoded copy
	f := r.fresh(id)
	if f == nil {
		return
	}
	if f.Hash() != id.h0 {
		r.violate("identity", "identity/decoded-block-hash-differs", "decode(encode(block)).Hash() = %x, proposer's %x", f.Hash(), id.h0)
	}
	if !bytes.Equal(encBlock(f), id.enc0) {
		r.violate("identity", "identity/decoded-block-reencodes-differently", "a decoded block re-encodes to different bytes")
	}
	if err := f.ValidateBasic(); err != nil {
		r.violate("validate", "validate/rejects-consistent-block", "ValidateBasic rejects a decoded consistent block: %v", err)
	}
	if !f.MakePartSet(id.idSize).Header().Equals(id.psh0) {
		r.violate("identity", "identity/decoded-block-partset-differs", "the decoded block makes a different part set")
	}
	c.Evals(1)

	// ---- header fields, by reflection
	ht := reflect.TypeOf(types.Header{})
	var fields []int
	for i := 0; i < ht.NumField(); i++ {
		if ht.Field(i).PkgPath == "" {
			fields = append(fields, i)
		}
	}
	nf := len(fields)
	if c.Tier == kernel.Quick {
		nf = 6
	}
	st := pert.Int(len(fields))
	for k := 0; k < nf && !r.stop; k++ {
		fi := fields[(st+k)%len(fields)]
		name := ht.Field(fi).Name
		p := r.fresh(id)
		if p == nil {
			return
		}
		d := perturbLeaf(pert, reflect.ValueOf(p.Header).Elem().Field(fi))
		if d == "" {
			c.Probe("header-field-not-perturbable/" + name)
			continue
		}
		c.Evals(1)
		c.Fault("perturb/header." + name)
		encP := encBlock(p)
		if bytes.Equal(encP, id.enc0) {
			c.Probe("perturbation-without-content-change/header." + name)
			continue
		}
		hp := p.Hash()
		php := partsHash(p, id.idSize)
		if hp == id.h0 && bytes.Equal(php, id.psh0.Hash) {
			r.violate("identity", "identity/header."+name+"/no-identifier-changes", "changing Header.%s (%s) changes neither Block.Hash() nor the part-set hash", name, d)
			continue
		}
		if hp == id.h0 {
			if headerViaPartsOnly[name] {
				c.Probe("header-field-committed-via-parts-only/" + name)
			} else {
				r.violate("identity", "identity/header."+name+"/block-hash-unchanged", "changing Header.%s (%s) does not change Block.Hash() (%x); only the part-set hash notices", name, d, hp)
			}
		}
		switch name {
		case "DataHash", "EvidenceHash", "LastCommitHash", "NumTxs":
			var err error
			site, class, msg, pn := try(func() { err = p.ValidateBasic() })
			if pn {
				r.violate("panic", "panic/"+site+"/"+class, "ValidateBasic panicked on a block whose Header.%s disagrees with the body: %s", name, msg)
			} else if err == nil {
				r.violate("validate", "validate/accepts-mismatch/header."+name, "ValidateBasic accepts a block whose Header.%s (%s) disagrees with its body", name, d)
			}
		}
	}

	// ---- body perturbations
	nb := 4 + pert.Int(5)
	if c.Tier == kernel.Thorough {
		nb = 8 + pert.Int(9)
	}
	for k := 0; k < nb && !r.stop; k++ {
		r.bodyPerturbation(id, pert, gen)
	}
}

func encTx(tx types.Tx) []byte {
	bz, err := ser.EncodeToBytes(&tx)
	if err != nil {
		panic("partsrig: tx does not encode: " + err.Error())
	}
	return bz
}

func encEv(ev types.Evidence) []byte {
	bz, err := ser.EncodeToBytes(&ev)
	if err != nil {
		panic("partsrig: evidence does not encode: " + err.Error())
	}
	return bz
}

// tweakTx changes one byte inside one string field of the transaction's wire
// form (so: one field of its content, signature fields included) and decodes
// the result; nil if the tweak does not decode to a transaction.
func tweakTx(t *kernel.Tape, tx types.Tx) types.Tx {
	bz := encTx(tx)
	// the first 7 bytes are the type prefix; pick a content byte that is not
	// a header byte by trying a few positions and keeping what decodes to a
	// transaction with a different, equally long encoding
	for try := 0; try < 8; try++ {
		if len(bz) <= 9 {
			return nil
		}
		nb := append([]byte{}, bz...)
		i := 8 + t.Int(len(nb)-8)
		nb[i] ^= byte(1 << uint(t.Int(8)))
		var out types.Tx
		ok := false
		func() {
			defer func() { recover() }()
			ok = ser.DecodeBytes(nb, &out) == nil && out != nil
		}()
		if !ok {
			continue
		}
		re := encTx(out)
		if bytes.Equal(re, nb) && !bytes.Equal(re, bz) {
			return out
		}
	}
	return nil
}

func (r *runner) bodyPerturbation(id *ident, t *kernel.Tape, gen *kernel.Tape) {
	c := r.c
	p := r.fresh(id)
	if p == nil {
		return
	}
	txo := valgen.TxOpts{MaxPayload: 64}
	section := "" // Data | Evidence | LastCommit
	kind := ""
	covered := true // the section's own hash is expected to notice
	txs := p.Data.Txs
	evs := p.Evidence.Evidence
	pcs := p.LastCommit.Precommits
	switch t.Pick(5, 3, 4) {
	case 0:
		section = "Data"
		switch op := t.Pick(2, 3, 2, 2, 2, 2); {
		case op == 0 && len(txs) > 0:
			txs[t.Int(len(txs))] = valgen.Tx(gen, txo)
			kind = "tx-replace"
		case op == 1 && len(txs) > 0:
			i := t.Int(len(txs))
			if nt := tweakTx(t, txs[i]); nt != nil {
				txs[i] = nt
				kind = "tx-tweak"
			}
		case op == 2 && len(txs) > 1:
			i, j := t.Int(len(txs)), t.Int(len(txs))
			txs[i], txs[j] = txs[j], txs[i]
			kind = "tx-swap"
		case op == 3 && len(txs) > 0:
			i := t.Int(len(txs))
			p.Data.Txs = append(txs[:i:i], txs[i+1:]...)
			kind = "tx-drop"
		case op == 4 && len(txs) > 0:
			i := t.Int(len(txs))
			nt := append(types.Txs{}, txs[:i+1]...)
			p.Data.Txs = append(nt, txs[i:]...)
			kind = "tx-duplicate"
		default:
			i := t.Int(len(txs) + 1)
			nt := append(types.Txs{}, txs[:i]...)
			nt = append(nt, valgen.Tx(gen, txo))
			p.Data.Txs = append(nt, txs[i:]...)
			kind = "tx-insert"
		}
	case 1:
		section = "Evidence"
		switch op := t.Pick(2, 3, 2, 2, 2, 2); {
		case op == 0 && len(evs) > 0:
			evs[t.Int(len(evs))] = valgen.Evidence(gen)
			kind = "evidence-replace"
		case op == 1 && len(evs) > 0:
			i := t.Int(len(evs))
			iv := reflect.ValueOf(&evs[i]).Elem()
			if d := perturbLeaf(t, iv); d != "" {
				kind = "evidence-tweak"
			}
		case op == 2 && len(evs) > 1:
			i, j := t.Int(len(evs)), t.Int(len(evs))
			evs[i], evs[j] = evs[j], evs[i]
			kind = "evidence-swap"
		case op == 3 && len(evs) > 0:
			i := t.Int(len(evs))
			p.Evidence.Evidence = append(evs[:i:i], evs[i+1:]...)
			kind = "evidence-drop"
		case op == 4 && len(evs) > 0:
			i := t.Int(len(evs))
			ne := append(types.EvidenceList{}, evs[:i+1]...)
			p.Evidence.Evidence = append(ne, evs[i:]...)
			kind = "evidence-duplicate"
		default:
			p.Evidence.Evidence = append(append(types.EvidenceList{}, evs...), valgen.Evidence(gen))
			kind = "evidence-insert"
		}
	default:
		section = "LastCommit"
		var present []int
		for i, v := range pcs {
			if v != nil {
				present = append(present, i)
			}
		}
		switch op := t.Pick(4, 2, 2, 2, 2, 2); {
		case op == 0 && len(present) > 0:
			i := present[t.Int(len(present))]
			if d := perturbLeaf(t, reflect.ValueOf(pcs[i]).Elem()); d != "" {
				kind = "precommit-tweak"
			}
		case op == 1 && len(pcs) > 1:
			i, j := t.Int(len(pcs)), t.Int(len(pcs))
			pcs[i], pcs[j] = pcs[j], pcs[i]
			kind = "precommit-swap"
		case op == 2 && len(present) > 0:
			pcs[present[t.Int(len(present))]] = nil
			kind = "precommit-absent"
		case op == 3 && len(pcs) > 0:
			p.LastCommit.Precommits = pcs[:len(pcs)-1]
			kind = "precommit-drop-last"
		case op == 4:
			n := len(pcs) + 1
			p.LastCommit.Precommits = append(append([]*types.Vote{}, pcs...), valgen.Vote(gen, types.VoteTypePrecommit, p.Height-1, 0, n-1, n, p.LastCommit.BlockID))
			kind = "precommit-append"
		default:
			if d := perturbLeaf(t, reflect.ValueOf(&p.LastCommit.BlockID).Elem()); d != "" {
				kind = "commit-blockid"
				covered = false
			}
		}
	}
	if kind == "" {
		return
	}
	encP := encBlock(p)
	if bytes.Equal(encP, id.enc0) {
		c.Probe("perturbation-without-content-change/" + kind)
		return
	}
	c.Evals(1)
	c.Fault("perturb/" + kind)
	// (p is a fresh decode that has not been hashed yet: no stale caches)
	var bodyChanged bool
	switch section {
	case "Data":
		bodyChanged = p.Data.Hash() != id.orig.DataHash
	case "Evidence":
		bodyChanged = p.Evidence.Hash() != id.orig.EvidenceHash
	default:
		bodyChanged = p.LastCommit.Hash() != id.orig.LastCommitHash
	}
	hp := p.Hash()
	php := partsHash(p, id.idSize)
	if hp == id.h0 && bytes.Equal(php, id.psh0.Hash) {
		r.violate("identity", "identity/"+kind+"/no-identifier-changes", "%s changes the block's encoding but neither Block.Hash() nor the part-set hash", kind)
		return
	}
	if !bodyChanged {
		if covered {
			r.violate("identity", "identity/"+kind+"/body-hash-unchanged", "%s changes the encoded %s but %s hash stays %x", kind, section, section, map[string]common.Hash{"Data": id.orig.DataHash, "Evidence": id.orig.EvidenceHash, "LastCommit": id.orig.LastCommitHash}[section])
		} else {
			c.Probe("body-change-visible-in-parts-hash-only/" + kind)
		}
		return
	}
	// header still carries the original hashes: ValidateBasic must refuse
	var err error
	site, class, msg, pn := try(func() { err = p.ValidateBasic() })
	if pn {
		r.violate("panic", "panic/"+site+"/"+class, "ValidateBasic panicked on a block with a perturbed body (%s): %s", kind, msg)
	} else if err == nil {
		r.violate("validate", "validate/accepts-mismatch/"+section, "ValidateBasic accepts a block whose %s was changed (%s) without updating the header", section, kind)
	}
	// proposer-style refill on a second fresh copy: the block hash must move
	p2, err2 := decBlock(encP)
	if err2 != nil {
		r.violate("identity", "identity/perturbed-block-does-not-decode", "a structurally valid perturbed block (%s) does not decode: %v", kind, err2)
		return
	}
	valgen.FillBodyHashes(p2)
	if p2.Hash() == id.h0 {
		r.violate("identity", "identity/"+kind+"/refilled-block-hash-unchanged", "after %s and recomputing the header's body hashes, Block.Hash() is still %x", kind, id.h0)
	}
}

// ---------------------------------------------------------------- reassembly

type delivery struct {
	part *types.Part
	kind string // "genuine", "duplicate" or a forgery kind
}

func copyPart(p *types.Part) *types.Part {
	np := &types.Part{Index: p.Index, Bytes: append([]byte{}, p.Bytes...)}
	for _, a := range p.Proof.Aunts {
		np.Proof.Aunts = append(np.Proof.Aunts, append([]byte{}, a...))
	}
	return np
}

// wirePart sends a part through its encoding, the way a peer's part arrives.
func wirePart(p *types.Part) *types.Part {
	bz, err := ser.EncodeToBytes(p)
	if err != nil {
		panic("partsrig: part does not encode: " + err.Error())
	}
	np := new(types.Part)
	if err := ser.DecodeBytes(bz, np); err != nil {
		return copyPart(p)
	}
	return np
}

func sameAunts(a, b [][]byte) bool {
	if len(a) != len(b) {
		return false
	}
	for i := range a {
		if !bytes.Equal(a[i], b[i]) {
			return false
		}
	}
	return true
}

// innerNodeAsLeaf builds the classic second-preimage forgery against a Merkle
// tree without leaf/inner domain separation: the part's bytes are the preimage
// of an inner node on the path of index i, its proof the genuine trail cut off
// above that node. A verifier that enforces the proof depth refuses it.
func innerNodeAsLeaf(t *kernel.Tape, orig []*types.Part, i int) *types.Part {
	total := len(orig)
	if total < 2 {
		return nil
	}
	sub := func(from, to int) []byte {
		hs := make([]merkle.Hasher, 0, to-from)
		for k := from; k < to; k++ {
			hs = append(hs, orig[k])
		}
		return merkle.SimpleHashFromHashers(hs)
	}
	genuine := orig[i].Proof.Aunts
	lo, hi, depth := 0, total, 0
	var cands []*types.Part
	for hi-lo > 1 {
		mid := lo + (hi-lo+1)/2
		var buf bytes.Buffer
		if ser.EncodeByteSlice(&buf, sub(lo, mid)) != nil || ser.EncodeByteSlice(&buf, sub(mid, hi)) != nil || depth > len(genuine) {
			return nil
		}
		aunts := append([][]byte{}, genuine[len(genuine)-depth:]...)
		cands = append(cands, &types.Part{Index: i, Bytes: buf.Bytes(), Proof: merkle.SimpleProof{Aunts: aunts}})
		if i < mid {
			hi = mid
		} else {
			lo = mid
		}
		depth++
	}
	if len(cands) == 0 {
		return nil
	}
	return cands[t.Int(len(cands))]
}

func forge(t *kernel.Tape, orig []*types.Part, other *types.PartSet, i int) (*types.Part, string) {
	total := len(orig)
	if t.Int(8) == 0 {
		if p := innerNodeAsLeaf(t, orig, i); p != nil {
			return p, "inner-node-as-leaf"
		}
	}
	g := copyPart(orig[i])
	switch t.Pick(3, 3, 2, 4, 3, 6, 3, 1, 1) {
	case 0:
		if len(g.Bytes) > 0 {
			g.Bytes = g.Bytes[:len(g.Bytes)-1-t.Int(len(g.Bytes))]
		}
		return g, "truncated"
	case 1:
		if len(g.Bytes) > 0 {
			g.Bytes[t.Int(len(g.Bytes))] ^= byte(1 << uint(t.Int(8)))
		}
		return g, "bytes-flipped"
	case 2:
		g.Bytes = append(g.Bytes, t.Bytes(1+t.Int(8))...)
		return g, "extended"
	case 3: // another genuine part presented under this index
		if total < 2 {
			g.Index = total
			return g, "index-out-of-range"
		}
		j := t.Int(total)
		if j == i {
			j = (i + 1) % total
		}
		s := copyPart(orig[j])
		s.Index = i
		return s, "index-shifted"
	case 4:
		g.Index = []int{total, total + 1, total * 2, math.MaxInt32, math.MaxInt64, -1, -total, math.MinInt64, -2}[t.Int(9)]
		if g.Index < 0 {
			return g, "index-negative"
		}
		return g, "index-out-of-range"
	case 5:
		a := g.Proof.Aunts
		switch op := t.Pick(3, 2, 2, 2, 1, 2); {
		case op == 0 && len(a) > 0:
			k := t.Int(len(a))
			if len(a[k]) > 0 {
				a[k][t.Int(len(a[k]))] ^= byte(1 << uint(t.Int(8)))
			}
			return g, "aunt-flipped"
		case op == 1 && len(a) > 0:
			g.Proof.Aunts = a[:len(a)-1]
			return g, "aunt-dropped"
		case op == 2:
			g.Proof.Aunts = append(a, t.Bytes(32))
			return g, "aunt-added"
		case op == 3 && len(a) > 1:
			k, l := t.Int(len(a)), t.Int(len(a))
			a[k], a[l] = a[l], a[k]
			return g, "aunts-swapped"
		case op == 4:
			g.Proof.Aunts = nil
			return g, "proof-empty"
		default:
			j := t.Int(total)
			g.Proof = copyPart(orig[j]).Proof
			return g, "proof-of-other-index"
		}
	case 6:
		if other != nil && i < other.Total() {
			o := copyPart(other.GetPart(i))
			return o, "other-block-part"
		}
		g.Bytes = t.Bytes(len(g.Bytes) + 1)
		return g, "random-bytes"
	case 7:
		if other != nil && i < other.Total() {
			g.Bytes = append([]byte{}, other.GetPart(i).Bytes...)
			return g, "other-block-bytes-own-proof"
		}
		g.Bytes = t.Bytes(len(g.Bytes) + 1)
		return g, "random-bytes"
	default:
		return &types.Part{Index: i}, "empty-part"
	}
}

func (r *runner) reassembly(blk *types.Block, enc0 []byte, h0 common.Hash, other *types.Block, cfg, sched, fg *kernel.Tape) {
	c := r.c
	// part size: from one byte to larger than the block
	n := len(enc0)
	maxParts := 600
	if c.Tier == kernel.Thorough {
		maxParts = 3000
	}
	cands := []int{1, 2, 3, 5, 16, 31, 64, 100, 256, 1000, 1024, 4096, 32768, 65536, n - 1, n, n + 1, 2 * n, n/2 + 1, n / 3, n / 7}
	sz := cands[cfg.Int(len(cands))]
	if sz < 1 {
		sz = 1
	}
	for (n+sz-1)/sz > maxParts {
		sz = sz*2 + 1
	}
	var ps *types.PartSet
	site, class, msg, pn := try(func() { ps = blk.MakePartSet(sz) })
	if pn {
		r.violate("panic", "panic/"+site+"/"+class, "MakePartSet(%d) panicked on a %d-byte block: %s", sz, n, msg)
		return
	}
	header := ps.Header()
	total := header.Total
	if total != (n+sz-1)/sz {
		r.violate("reassembly", "reassembly/part-count", "a %d-byte block cut at %d bytes has %d parts", n, sz, total)
		return
	}
	orig := make([]*types.Part, total)
	var cat []byte
	for i := 0; i < total; i++ {
		orig[i] = ps.GetPart(i)
		cat = append(cat, orig[i].Bytes...)
	}
	if !bytes.Equal(cat, enc0) {
		r.violate("reassembly", "reassembly/proposer-parts-differ", "the proposer's parts do not concatenate to the block's encoding")
		return
	}
	var otherPS *types.PartSet
	if other != nil {
		otherPS = other.MakePartSet(sz)
	}
	c.Finger(h0, sz, total)

	// deliveries
	withheld := map[int]bool{}
	if total > 0 && cfg.Bool(1, 4) {
		for k, m := 0, 1+cfg.Int(2); k < m; k++ {
			withheld[cfg.Int(total)] = true
		}
	}
	var ds []delivery
	order := make([]int, total)
	for i := range order {
		order[i] = i
	}
	sched.Shuffle(total, func(i, j int) { order[i], order[j] = order[j], order[i] })
	forgeBudget := 4 * total
	if forgeBudget > 1500 {
		forgeBudget = 1500
	}
	perPart := 4
	if total > 200 {
		perPart = 1
	}
	for _, i := range order {
		for k, m := 0, fg.Int(perPart+1); k < m && forgeBudget > 0; k++ {
			p, kind := forge(fg, orig, otherPS, i)
			ds = append(ds, delivery{p, kind})
			forgeBudget--
		}
		if withheld[i] {
			// starve the slot but keep knocking on it
			p, kind := forge(fg, orig, otherPS, i)
			ds = append(ds, delivery{p, kind})
			continue
		}
		g := copyPart(orig[i])
		if sched.Bool(1, 4) {
			g = wirePart(orig[i])
		}
		ds = append(ds, delivery{g, "genuine"})
		if sched.Bool(1, 5) {
			ds = append(ds, delivery{copyPart(orig[i]), "duplicate"})
		}
	}
	// local disorder: duplicates and forgeries drift away from their part
	for k, m := 0, len(ds)/2; k < m; k++ {
		i, j := sched.Int(len(ds)), sched.Int(len(ds))
		ds[i], ds[j] = ds[j], ds[i]
	}

	rcv := types.NewPartSetFromHeader(header)
	added := make([]bool, total)
	count := 0
	completedChecked := false
	forgedRefused := 0
	for _, d := range ds {
		if r.stop {
			return
		}
		p := d.part
		valid := p.Index >= 0 && p.Index < total && bytes.Equal(p.Bytes, orig[p.Index].Bytes) && sameAunts(p.Proof.Aunts, orig[p.Index].Proof.Aunts)
		var ok bool
		var err error
		c.Event(1)
		site, class, msg, pn := try(func() { ok, err = rcv.AddPart(p) })
		if d.kind != "genuine" {
			c.Fault(d.kind)
		}
		switch {
		case pn && valid:
			r.violate("panic", "panic/"+site+"/genuine-part", "AddPart panicked on a genuine part (index %d of %d): %s", p.Index, total, msg)
			return
		case pn:
			// a forged part crashing the receiver is C16's subject
			c.Probe("c16-forged-part-panic/" + site + "/" + class + "/" + d.kind)
			c.Finger(d.kind, "panic")
			continue
		case valid && !added[p.Index]:
			if !ok || err != nil {
				r.violate("reassembly", "reassembly/genuine-part-refused", "AddPart refused a genuine part (index %d of %d, %d bytes, delivered as %s): added=%v err=%v", p.Index, total, len(p.Bytes), d.kind, ok, err)
				return
			}
			added[p.Index] = true
			count++
			if d.kind != "genuine" && d.kind != "duplicate" {
				c.Probe("forgery-coincides-with-genuine/" + d.kind)
			}
		case valid:
			if ok {
				r.violate("reassembly", "reassembly/duplicate-added", "AddPart added part %d of %d a second time", p.Index, total)
				return
			}
			if err != nil {
				c.Probe("duplicate-part-error")
			}
		default:
			if ok {
				r.violate("reassembly", "reassembly/forged-part-added/"+forgeryClass(d.kind), "AddPart accepted a forged part (%s; index %d of %d, %d bytes, %d aunts)", d.kind, p.Index, total, len(p.Bytes), len(p.Proof.Aunts))
				return
			}
			forgedRefused++
		}
		c.Finger(d.kind, ok, err != nil)
		if rcv.Count() != count || rcv.IsComplete() != (count == total) {
			r.violate("reassembly", "reassembly/count-mismatch", "after %s: Count()=%d IsComplete()=%v, model has %d of %d", d.kind, rcv.Count(), rcv.IsComplete(), count, total)
			return
		}
		if p.Index >= 0 && p.Index < total {
			if ba := rcv.BitArray(); ba.GetIndex(p.Index) != added[p.Index] {
				r.violate("reassembly", "reassembly/bitmap-mismatch", "bit %d of the parts bitmap is %v, model says %v", p.Index, ba.GetIndex(p.Index), added[p.Index])
				return
			}
		}
		if count == total && !completedChecked {
			completedChecked = true
			r.completed(rcv, enc0, h0, sched)
		}
	}
	c.Evals(1)
	// (a forgery can coincide with the genuine part - one-part sets, equal
	// bytes - so the model, not the plan, says whether a slot was starved)
	if count < total {
		c.Probe("starved-set")
		if rcv.IsComplete() {
			r.violate("reassembly", "reassembly/complete-without-all-parts", "the set is complete although only %d of %d genuine parts were delivered", count, total)
		}
	} else if total > 0 {
		if !rcv.IsComplete() {
			r.violate("reassembly", "reassembly/not-complete", "all %d genuine parts were delivered but the set is not complete (%d)", total, rcv.Count())
		} else if !completedChecked {
			r.completed(rcv, enc0, h0, sched)
		}
		if !rcv.HasHeader(header) || !rcv.HashesTo(header.Hash) {
			r.violate("reassembly", "reassembly/header-changed", "the completed set no longer carries the signed header")
		}
	}
	if total >= 2 && forgedRefused >= 1 && (rcv.IsComplete() || count < total) {
		c.NonTrivial()
	}
	c.Sample(map[string]interface{}{"block_bytes": n, "part_size": sz, "parts": total, "deliveries": len(ds), "forged_refused": forgedRefused, "withheld": len(withheld), "completed": rcv.IsComplete()})
}

func (r *runner) completed(rcv *types.PartSet, enc0 []byte, h0 common.Hash, t *kernel.Tape) {
	c := r.c
	c.Evals(1)
	c.Probe("set-completed")
	var data []byte
	var err error
	site, class, msg, pn := try(func() { data, err = io.ReadAll(rcv.GetReader()) })
	if pn {
		r.violate("panic", "panic/"+site+"/"+class, "reading the completed part set panicked: %s", msg)
		return
	}
	if err != nil || !bytes.Equal(data, enc0) {
		r.violate("reassembly", "reassembly/bytes-differ", "the completed set reads back %d bytes (err %v), the proposer encoded %d; first difference at %d", len(data), err, len(enc0), firstDiff(data, enc0))
		return
	}
	// odd-sized reads through the same reader type
	var odd []byte
	site, class, msg, pn = try(func() {
		rd := rcv.GetReader()
		for {
			buf := make([]byte, 1+t.Int([]int{1, 2, 7, 33, 500, 70000}[t.Int(6)]))
			n, e := rd.Read(buf)
			odd = append(odd, buf[:n]...)
			if e != nil {
				break
			}
			if len(odd) > len(enc0)+16 {
				break
			}
		}
	})
	if pn {
		r.violate("panic", "panic/"+site+"/"+class, "PartSetReader.Read panicked with odd buffer sizes: %s", msg)
		return
	}
	if !bytes.Equal(odd, enc0) {
		r.violate("reassembly", "reassembly/bytes-differ-odd-reads", "reading the completed set with odd buffer sizes yields %d bytes, first difference at %d of %d", len(odd), firstDiff(odd, enc0), len(enc0))
		return
	}
	// the way consensus decodes it
	b2 := new(types.Block)
	site, class, msg, pn = try(func() { _, err = ser.DecodeReader(rcv.GetReader(), b2, int64(len(enc0))+int64(t.Int(4096))) })
	if pn {
		r.violate("panic", "panic/"+site+"/"+class, "decoding the completed set panicked: %s", msg)
		return
	}
	if err != nil {
		r.violate("reassembly", "reassembly/completed-set-does-not-decode", "the completed set does not decode to a block: %v", err)
		return
	}
	if b2.Hash() != h0 {
		r.violate("reassembly", "reassembly/decoded-block-hash-differs", "the block decoded from the completed set hashes to %x, the proposer's to %x", b2.Hash(), h0)
		return
	}
	if !bytes.Equal(encBlock(b2), enc0) {
		r.violate("reassembly", "reassembly/decoded-block-reencodes-differently", "the block decoded from the completed set re-encodes differently")
	}
}

// forgeryClass groups forgery kinds by what was forged, so that one defect in
// the admission check has one key per forged aspect, not one per generator.
func forgeryClass(kind string) string {
	switch kind {
	case "index-shifted", "index-out-of-range", "index-negative":
		return "index"
	case "aunt-flipped", "aunt-dropped", "aunt-added", "aunts-swapped", "proof-empty", "proof-of-other-index", "inner-node-as-leaf":
		return "proof"
	case "other-block-part", "other-block-bytes-own-proof":
		return "foreign-block"
	}
	return "bytes"
}

func firstDiff(a, b []byte) int {
	for i := 0; i < len(a) && i < len(b); i++ {
		if a[i] != b[i] {
			return i
		}
	}
	if len(a) < len(b) {
		return len(a)
	}
	return len(b)
}

// ---------------------------------------------------------------- run

func run(c *kernel.Ctx) {
	cfg := c.Tape.Fork("cfg")
	gen := c.Tape.Fork("gen")
	r := &runner{c: c, seen: map[string]bool{}}

	maxTxs := []int{0, 1, 2, 3, 5, 8, 12}[cfg.Int(7)]
	payload := []int{0, 16, 64, 256, 256, 1024, 6000}[cfg.Int(7)]
	if c.Tier == kernel.Thorough {
		maxTxs = []int{0, 1, 2, 3, 5, 8, 12, 20, 40}[cfg.Int(9)]
	}
	o := valgen.BlockOpts{MaxTxs: maxTxs, MaxEvidence: cfg.Int(4), MaxVals: 1 + cfg.Int(8), Tx: valgen.TxOpts{MaxPayload: payload, RealSign: cfg.Bool(1, 8)}}
	var blk, other *types.Block
	site, class, msg, pn := try(func() {
		blk = valgen.Block(gen, o)
		other = valgen.Block(gen, valgen.BlockOpts{MaxTxs: 1 + maxTxs, MaxEvidence: 1, MaxVals: 3, Tx: o.Tx})
	})
	if pn {
		c.HarnessTrouble("block generation panicked at %s (%s): %s", site, class, msg)
		return
	}
	if err := blk.ValidateBasic(); err != nil {
		c.HarnessTrouble("generated block fails ValidateBasic: %v", err)
		return
	}
	enc0 := encBlock(blk)
	for len(enc0) > 70000 { // keep blocks <= ~64 KiB
		blk.Data.Txs = blk.Data.Txs[:len(blk.Data.Txs)/2]
		blk = rebuild(blk)
		enc0 = encBlock(blk)
	}
	h0 := blk.Hash()
	idSize := []int{512, 4096, 65536}[cfg.Int(3)]
	id := &ident{enc0: enc0, h0: h0, psh0: blk.MakePartSet(idSize).Header(), idSize: idSize, orig: blk}
	if h0 == (common.Hash{}) {
		r.violate("identity", "identity/zero-block-hash", "a complete block hashes to the zero hash")
	}
	if other.Hash() == h0 {
		c.HarnessTrouble("two independently generated blocks have the same hash")
		return
	}
	r.identity(id, c.Tape.Fork("perturb"), gen)
	if r.stop {
		return
	}
	r.reassembly(blk, enc0, h0, other, cfg, c.Tape.Fork("sched"), c.Tape.Fork("forge"))
}

// rebuild returns a consistent block with fresh caches after the body of b was
// cut down.
func rebuild(b *types.Block) *types.Block {
	nb := &types.Block{Header: types.CopyHeader(b.Header), Data: &types.Data{Txs: b.Data.Txs}, Evidence: types.EvidenceData{Evidence: b.Evidence.Evidence}, LastCommit: &types.Commit{BlockID: b.LastCommit.BlockID, Precommits: b.LastCommit.Precommits}}
	valgen.FillBodyHashes(nb)
	return nb
}

var _ = merkle.SimpleProof{}
