// Package mempoolrig is the single-replica "R-chain + scheduler" rig: one real
// execution pipeline (LinkApplication, stores, Mempool) over the simulated
// disk, a block producer that builds fully valid blocks outside consensus, an
// independent replica that re-checks and follows every block, an independent
// account ledger, and a tape-driven scheduler for the mempool's concurrent
// entry points. It registers the C15 check and is the engine of C07
// (rigs/spendrig).
package mempoolrig

import (
	"crypto/ecdsa"
	"fmt"
	"math/big"
	"os"
	"path/filepath"
	"sort"
	"sync"
	"testing/synctest"
	"time"

	cfg "github.com/lianxiangcloud/linkchain/config"
	"github.com/lianxiangcloud/linkchain/libs/common"
	"github.com/lianxiangcloud/linkchain/libs/crypto"
	"github.com/lianxiangcloud/linkchain/libs/log"
	"github.com/lianxiangcloud/linkchain/libs/ser"
	"github.com/lianxiangcloud/linkchain/types"

	"verif/sim/kernel"
	"verif/sim/simdb"
	"verif/sim/simnode"
)

// ---------------------------------------------------------------- users

// User is one seeded secp256k1 account.
type User struct {
	Idx  int
	Priv *ecdsa.PrivateKey
	Addr common.Address
}

var userCache = map[int]*User{}

// UserKey returns the i-th deterministic account (the same in every run; the
// per-run variety comes from balances, nonces and the workload).
func UserKey(i int) *User {
	if u, ok := userCache[i]; ok {
		return u
	}
	d := new(big.Int).SetBytes(crypto.Keccak256([]byte(fmt.Sprintf("verif-mp-user-%d", i))))
	d.Mod(d, new(big.Int).Sub(crypto.S256().Params().N, big.NewInt(2)))
	d.Add(d, big.NewInt(1))
	priv := new(ecdsa.PrivateKey)
	priv.PublicKey.Curve = crypto.S256()
	priv.D = d
	priv.PublicKey.X, priv.PublicKey.Y = crypto.S256().ScalarBaseMult(d.Bytes())
	u := &User{Idx: i, Priv: priv, Addr: crypto.PubkeyToAddress(priv.PublicKey)}
	userCache[i] = u
	return u
}

// GasPrice is the only gas price the chain admits.
var GasPrice = big.NewInt(types.GasPrice)

// Transfer builds a signed plain transfer. gas == 0 means "the one gas limit
// the basic check admits for this amount".
func (u *User) Transfer(nonce uint64, to common.Address, amount *big.Int, gas uint64, payload []byte) *types.Transaction {
	if gas == 0 {
		gas = types.CalNewAmountGas(amount, types.EverLiankeFee)
	}
	tx := types.NewTransaction(nonce, to, amount, gas, GasPrice, payload)
	if err := tx.Sign(types.GlobalSTDSigner, u.Priv); err != nil {
		panic("mempoolrig: sign: " + err.Error())
	}
	return tx
}

// CopyTx returns an independent object for the same signed transaction (what
// a second RPC/p2p delivery of the same bytes is for the node).
func CopyTx(tx types.Tx) types.Tx {
	switch t := tx.(type) {
	case *types.Transaction:
		bz, err := ser.EncodeToBytes(t)
		if err != nil {
			panic("mempoolrig: encode tx: " + err.Error())
		}
		cp := new(types.Transaction)
		if err := ser.DecodeBytes(bz, cp); err != nil {
			panic("mempoolrig: decode tx: " + err.Error())
		}
		return cp
	case *types.UTXOTransaction:
		cp, err := wireUTXO(t)
		if err != nil {
			panic("mempoolrig: copy utxo tx: " + err.Error())
		}
		return cp
	}
	if TxCopier != nil {
		if cp := TxCopier(tx); cp != nil {
			return cp
		}
	}
	return tx
}

// TxCopier lets other tx kinds (txgen) plug their own deep copy in.
var TxCopier func(types.Tx) types.Tx

// Cost is amount + gasLimit*gasPrice computed from the transaction's own
// fields (not with the implementation's Cost()).
func Cost(tx types.Tx) *big.Int {
	switch t := tx.(type) {
	case *types.Transaction:
		c := new(big.Int).Mul(new(big.Int).SetUint64(t.Gas()), t.GasPrice())
		return c.Add(c, t.Value())
	}
	return big.NewInt(0)
}

// ---------------------------------------------------------------- ledger

// Acct is the independent view of one account.
type Acct struct {
	Nonce   uint64
	Balance *big.Int
}

// Ledger is the harness's own account ledger, fed only by committed blocks.
type Ledger struct {
	acc map[common.Address]*Acct
}

func newLedger() *Ledger { return &Ledger{acc: map[common.Address]*Acct{}} }

// Get returns (creating) the account.
func (l *Ledger) Get(a common.Address) *Acct {
	x, ok := l.acc[a]
	if !ok {
		x = &Acct{Balance: new(big.Int)}
		l.acc[a] = x
	}
	return x
}

// Copy returns a deep copy.
func (l *Ledger) Copy() *Ledger {
	n := newLedger()
	for a, x := range l.acc {
		n.acc[a] = &Acct{Nonce: x.Nonce, Balance: new(big.Int).Set(x.Balance)}
	}
	return n
}

// ApplyTransfer executes one plain transfer the way the chain's rules say:
// the fee (gas x price, all of it: a transfer uses its whole gas limit) must be
// payable, otherwise the block is not executable; if the value is not covered
// after the fee the transaction still counts (nonce bump) but moves nothing
// and costs nothing. Returns false when the transaction is not executable at
// this point (wrong nonce, fee not payable).
func (l *Ledger) ApplyTransfer(from common.Address, tx *types.Transaction) (ok bool, moved bool) {
	a := l.Get(from)
	if tx.Nonce() != a.Nonce {
		return false, false
	}
	fee := new(big.Int).Mul(new(big.Int).SetUint64(tx.Gas()), tx.GasPrice())
	if a.Balance.Cmp(fee) < 0 {
		return false, false
	}
	a.Nonce++
	rest := new(big.Int).Sub(a.Balance, fee)
	if rest.Cmp(tx.Value()) < 0 {
		return true, false
	}
	a.Balance = rest.Sub(rest, tx.Value())
	if to := tx.To(); to != nil {
		b := l.Get(*to)
		b.Balance = new(big.Int).Add(b.Balance, tx.Value())
	}
	f := l.Get(cfg.ContractFoundationAddr)
	f.Balance = new(big.Int).Add(f.Balance, fee)
	return true, true
}

// ---------------------------------------------------------------- world

// WorldCfg is the drawn configuration of one world.
type WorldCfg struct {
	NUsers   int
	NVals    int
	IsTrie   bool
	Mem      *cfg.MempoolConfig // nil: simnode default (no cache)
	Balances []*big.Int         // per user
	Nonces   []uint64           // per user genesis nonce
}

// World is one simulated chain with its producer, replica and ledger.
type World struct {
	C     *kernel.Ctx
	Cfg   WorldCfg
	Gen   *simnode.GenesisSpec
	Users []*User
	Sinks []common.Address
	Dir   string

	Chain *simnode.Chain // node under test
	Rep   *simnode.Chain // independent replica: re-checks and follows every block

	Led       *Ledger
	Committed map[common.Hash]uint64 // tx hash -> height
	Blocks    []*types.Block         // committed blocks, Blocks[0] = height 1
	valByAddr map[string]simnode.ValKey
	lastSeen  *types.Commit
	Seen      []*types.Commit // Seen[i]: the commit this world made for Blocks[i]
	incarn    int

	Park *ParkApp // scheduler seam installed on Chain.Mempool

	// NoWait: the committing goroutine is parked inside CommitBlock; client
	// steps are settled by yielding (see settle), at most SpinBound times.
	NoWait    bool
	SpinBound int
	cpark     commitPark

	// ApplyHook, when set, books a committed transaction from its receipt and
	// returns true; otherwise the world's own rules apply.
	ApplyHook func(tx types.Tx, r *types.Receipt) bool

	// OnCommitted is called after a block has been committed on both replicas
	// and applied to the ledger.
	OnCommitted func(b *types.Block)

	// fastSync is the tape stream that decides, per commit on the node under
	// test, whether the block arrives the way the block reactor delivers it
	// (CommitBlock(..., fastsync=true): a node that is catching up while clients
	// already talk to it) or from consensus (false). Seeded change C15-8: the
	// mempool was no longer updated by fast-sync commits.
	fastSync *kernel.Tape
}

func seededVal(i int) simnode.ValKey {
	var cb common.Address
	copy(cb[:], crypto.Keccak256([]byte(fmt.Sprintf("mp-coinbase-%d", i)))[:20])
	return simnode.ValKey{Priv: crypto.GenPrivKeyEd25519FromSecret([]byte(fmt.Sprintf("verif-mp-val-%d", i))), Power: 10, CoinBase: cb}
}

// NewWorld installs genesis on two disks and opens the node and the replica.
// Must be called inside the bubble (block times come from the virtual clock).
func NewWorld(c *kernel.Ctx, wc WorldCfg) (*World, error) {
	simnode.InitGlobals()
	w := &World{C: c, Cfg: wc, Led: newLedger(), Committed: map[common.Hash]uint64{}, valByAddr: map[string]simnode.ValKey{}}
	base := os.Getenv("VERIF_SCRATCH")
	if base == "" {
		base = os.TempDir()
	}
	w.Dir = filepath.Join(base, fmt.Sprintf("mp-%d", c.Tape.Seed()))
	os.RemoveAll(w.Dir)
	if err := os.MkdirAll(w.Dir, 0755); err != nil {
		return nil, err
	}
	gen := &simnode.GenesisSpec{ChainID: "verif-mp", IsTrie: wc.IsTrie}
	for i := 0; i < wc.NVals; i++ {
		v := seededVal(i)
		gen.Vals = append(gen.Vals, v)
		w.valByAddr[string(v.Address())] = v
	}
	for i := 0; i < wc.NUsers; i++ {
		u := UserKey(i)
		w.Users = append(w.Users, u)
		gen.Alloc = append(gen.Alloc, simnode.Alloc{Addr: u.Addr, Balance: wc.Balances[i], Nonce: wc.Nonces[i]})
		a := w.Led.Get(u.Addr)
		a.Balance = new(big.Int).Set(wc.Balances[i])
		a.Nonce = wc.Nonces[i]
	}
	for i := 0; i < 3; i++ {
		var s common.Address
		copy(s[:], crypto.Keccak256([]byte(fmt.Sprintf("mp-sink-%d", i)))[:20])
		w.Sinks = append(w.Sinks, s)
	}
	w.Gen = gen

	open := func(name string, mc *cfg.MempoolConfig) (*simnode.Chain, error) {
		d := simdb.NewDisk(filepath.Join(w.Dir, name))
		if err := gen.Install(d); err != nil {
			return nil, fmt.Errorf("genesis %s: %v", name, err)
		}
		return simnode.OpenChain(d, simnode.ChainOpts{IsTrie: wc.IsTrie, MempoolCfg: mc})
	}
	var err error
	if w.Rep, err = open("replica", nil); err != nil {
		return nil, err
	}
	if w.Chain, err = open("node0", wc.Mem); err != nil {
		return nil, err
	}
	w.Chain.RegisterRate()
	w.installPark()
	return w, nil
}

// Cleanup removes the scratch directory.
func (w *World) Cleanup() { os.RemoveAll(w.Dir) }

// Height is the committed height.
func (w *World) Height() uint64 { return w.Chain.Status.LastBlockHeight }

// signCommit makes the +2/3 (here: all) precommits of vals for id at height.
func (w *World) signCommit(vals *types.ValidatorSet, id types.BlockID, height uint64) *types.Commit {
	pcs := make([]*types.Vote, vals.Size())
	for i := 0; i < vals.Size(); i++ {
		addr, val := vals.GetByIndex(i)
		k, ok := w.valByAddr[string(addr)]
		if !ok {
			continue
		}
		v := &types.Vote{ValidatorAddress: val.Address, ValidatorIndex: i, ValidatorSize: vals.Size(), Height: height, Round: 0,
			Timestamp: time.Now().UTC(), Type: types.VoteTypePrecommit, BlockID: id}
		sig, err := k.Priv.Sign(v.SignBytes(w.Gen.ChainID))
		if err != nil {
			panic("mempoolrig: sign vote: " + err.Error())
		}
		v.Signature = sig
		pcs[i] = v
	}
	return &types.Commit{BlockID: id, Precommits: pcs}
}

// FillHeader completes a block made by App.CreateBlock the way
// consensus.createProposalBlock does (everything but the execution result).
func (w *World) FillHeader(block *types.Block) {
	st := w.Chain.Status
	H := block.Height
	block.Header.Coinbase = st.Validators.GetProposer().CoinBase
	block.Evidence = types.EvidenceData{}
	if H > types.BlockHeightOne {
		block.LastCommit = w.lastSeen
		if !st.LastRecover {
			block.AddEvidence([]types.Evidence{&types.FaultValidatorsEvidence{BlockHeight: H - 1, Round: 0, Proposer: st.LastValidators.GetProposer().PubKey}})
		}
	} else {
		block.LastCommit = &types.Commit{}
	}
	block.Recover = 0
	block.ChainID = st.ChainID
	block.LastBlockID = st.LastBlockID
	block.LastCommitHash = block.LastCommit.Hash()
	block.EvidenceHash = block.Evidence.Hash()
	block.ConsensusHash = common.BytesToHash(st.ConsensusParams.Hash())
	block.ValidatorsHash = common.BytesToHash(st.Validators.Hash())
}

// SetTxs replaces the transactions of an unexecuted block and recomputes the
// header fields that are a function of them.
func (w *World) SetTxs(block *types.Block, txs types.Txs) {
	block.Data = &types.Data{Txs: txs}
	block.NumTxs = uint64(len(txs))
	block.TotalTxs = w.Chain.Status.LastBlockTotalTx + uint64(len(txs))
	block.DataHash = block.Data.Hash()
}

// Wire returns the block as a receiver sees it: encoded into parts and
// decoded again (fresh object, no cached hash), plus the part set.
func (w *World) Wire(block *types.Block) (*types.Block, *types.PartSet, error) {
	parts := block.MakePartSet(w.Chain.Status.ConsensusParams.BlockGossip.BlockPartSizeBytes)
	nb := new(types.Block)
	if _, err := ser.DecodeReader(parts.GetReader(), nb, int64(w.Chain.Status.ConsensusParams.BlockSize.MaxBytes)); err != nil {
		return nil, nil, err
	}
	return nb, parts, nil
}

// MaxTxs is the consensus parameter handed to CreateBlock.
func (w *World) MaxTxs() int { return w.Chain.Status.ConsensusParams.BlockSize.MaxTxs }

// Propose builds the next block on the node under test: CreateBlock (which
// reaps the node's mempool with maxTxs) or, when txs != nil, a block carrying
// exactly txs (another proposer's choice); then the header and PreRunBlock.
// A panic of PreRunBlock is returned as (site, msg).
func (w *World) Propose(maxTxs int, txs types.Txs, external bool) (block *types.Block, site, msg string, panicked bool) {
	st := w.Chain.Status
	H := st.LastBlockHeight + 1
	w.Chain.RegisterRate()
	if external {
		maxTxs = 0
	}
	b := w.Chain.App.CreateBlock(H, maxTxs, uint64(st.ConsensusParams.BlockSize.MaxGas), uint64(time.Now().Unix()))
	if b == nil {
		return nil, "app.CreateBlock", "CreateBlock returned nil", true
	}
	if external {
		w.SetTxs(b, txs)
	}
	w.FillHeader(b)
	site, msg, panicked = kernel.Try(func() { w.Chain.App.PreRunBlock(b) })
	if panicked {
		return b, site, msg, true
	}
	return b, "", "", false
}

// CommitResult describes what happened to a block handed to Commit.
type CommitResult struct {
	NodeCheck, RepCheck bool
	Err                 error
}

// Commit runs the finalizeCommit sequence for block on the node under test
// and on the replica, and applies it to the ledger. The block must come from
// Propose. Nothing is committed unless both replicas accept the block.
func (w *World) Commit(block *types.Block) (res CommitResult) {
	res, _ = w.CommitCrash(block, nil)
	return
}

// CommitCrash is Commit with a process crash of the node under test at a
// write boundary inside its CommitBlock/ApplyBlock: the replica commits first
// with its write log on; pick sees that log (sequence numbers relative to the
// start of the commit) and returns the boundary after which the node's durable
// image is frozen (0: no crash). The node then runs the same commit to the
// end as a zombie (so that the world and the model advance) and the frozen
// image (nil when the boundary was not reached) is returned; the caller
// restarts the node from it.
func (w *World) CommitCrash(block *types.Block, pick func(rel []simdb.WriteRec) int) (res CommitResult, frozen *simdb.Image) {
	wb, parts, err := w.Wire(block)
	if err != nil {
		res.Err = fmt.Errorf("wire: %v", err)
		return
	}
	rb, rparts, err := w.Wire(block)
	if err != nil {
		res.Err = fmt.Errorf("wire: %v", err)
		return
	}
	w.Rep.RegisterRate()
	res.RepCheck = w.Rep.App.CheckBlock(rb)
	w.Chain.RegisterRate()
	res.NodeCheck = w.Chain.App.CheckBlock(wb)
	if !res.RepCheck || !res.NodeCheck {
		return
	}
	id := types.BlockID{Hash: wb.Hash(), PartsHeader: parts.Header()}
	seen := w.signCommit(w.Chain.Status.Validators, id, wb.Height)

	commitRep := func() bool {
		w.Rep.RegisterRate()
		if err := w.commitOn(w.Rep, rb, rparts, seen); err != nil {
			res.Err = fmt.Errorf("replica: %v", err)
			return false
		}
		return true
	}
	commitNode := func() bool {
		w.Chain.RegisterRate()
		if err := w.commitOn(w.Chain, wb, parts, seen); err != nil {
			res.Err = fmt.Errorf("node: %v", err)
			return false
		}
		return true
	}
	if pick == nil {
		if !commitNode() || !commitRep() {
			return
		}
	} else {
		rd := w.Rep.Disk
		rd.KeepLog(true)
		r0, n0 := rd.Seq(), len(rd.Log())
		okRep := commitRep()
		log := rd.Log()[n0:]
		rd.KeepLog(false)
		if !okRep {
			return
		}
		rel := make([]simdb.WriteRec, len(log))
		for i, r := range log {
			r.Seq -= r0
			rel[i] = r
		}
		d := w.Chain.Disk
		if k := pick(rel); k > 0 {
			d.Frozen = nil
			d.FreezeAt = d.Seq() + k
			side := d.Dir() + ".frozen"
			d.OnFreeze = func() {
				os.RemoveAll(side)
				copyDir(d.Dir(), side)
			}
		}
		okNode := commitNode()
		frozen = d.Frozen
		d.FreezeAt, d.OnFreeze = 0, nil
		if !okNode {
			return
		}
	}
	w.Chain.RegisterRate()
	w.lastSeen = seen
	w.Seen = append(w.Seen, seen)
	w.noteCommitted(wb)
	return
}

// copyDir copies the regular files of src (one level and below) to dst.
func copyDir(src, dst string) {
	filepath.Walk(src, func(p string, info os.FileInfo, err error) error {
		if err != nil {
			return nil
		}
		rel, _ := filepath.Rel(src, p)
		if info.IsDir() {
			os.MkdirAll(filepath.Join(dst, rel), 0755)
			return nil
		}
		if b, err := os.ReadFile(p); err == nil {
			os.WriteFile(filepath.Join(dst, rel), b, 0644)
		}
		return nil
	})
}

func (w *World) commitOn(ch *simnode.Chain, b *types.Block, parts *types.PartSet, seen *types.Commit) error {
	fast := false
	if ch == w.Chain {
		if w.fastSync == nil {
			w.fastSync = w.C.Tape.Fork("fastsync-commit")
		}
		if fast = w.fastSync.Bool(1, 4); fast {
			w.C.Probe("commit-as-fast-sync")
		}
	}
	vals, err := ch.App.CommitBlock(b, parts, seen, fast)
	if err != nil {
		return fmt.Errorf("CommitBlock: %v", err)
	}
	st, err := ch.BlockExec.ApplyBlock(ch.Status.Copy(), types.BlockID{Hash: b.Hash(), PartsHeader: parts.Header()}, b, vals)
	if err != nil {
		return fmt.Errorf("ApplyBlock: %v", err)
	}
	ch.Status = st
	return nil
}

func (w *World) noteCommitted(b *types.Block) {
	w.Blocks = append(w.Blocks, b)
	var rs types.Receipts
	if w.ApplyHook != nil {
		if p := w.Chain.BlockStore.GetReceipts(b.Height); p != nil {
			rs = *p
		}
	}
	for i, tx := range b.Data.Txs {
		w.Committed[tx.Hash()] = b.Height
		if w.ApplyHook != nil && i < len(rs) && rs[i].TxHash == tx.Hash() && w.ApplyHook(tx, rs[i]) {
			continue
		}
		w.Led.ApplyTx(tx)
	}
	if w.OnCommitted != nil {
		w.OnCommitted(b)
	}
}

// ApplyTx books one committed (or to-be-committed) transaction; false when it
// is not executable at this point of the ledger.
func (l *Ledger) ApplyTx(tx types.Tx) bool {
	switch t := tx.(type) {
	case *types.Transaction:
		from, err := t.From()
		if err != nil {
			return false
		}
		ok, _ := l.ApplyTransfer(from, t)
		return ok
	case *types.UTXOTransaction:
		if from, nonce, cost, ok := AcctPart(t); ok {
			a := l.Get(from)
			if a.Nonce != nonce || a.Balance.Cmp(cost) < 0 {
				return false
			}
		}
		l.applyUTXO(t)
		return true
	}
	return false
}

// Restart replaces the node under test by a fresh assembly over img (nil: the
// node's current disk content), the way a process restart does. fromFrozen
// says that img is the crash image of CommitCrash (the node's real files are
// taken from the copy made at the freeze). The old mempool is stopped. When
// the restarted node is behind the world (the crash came before the block
// became visible) the missing blocks are fed to it again, as block sync would.
func (w *World) Restart(img *simdb.Image, fromFrozen bool) (resynced int, err error) {
	old := w.Chain
	if img == nil {
		img = old.Disk.Snapshot()
	}
	w.StopMempool(old)
	w.incarn++
	dir := old.Disk.Dir()
	if fromFrozen {
		side := dir + ".frozen"
		if _, e := os.Stat(side); e == nil {
			os.RemoveAll(dir)
			os.Rename(side, dir)
		}
	}
	d := simdb.NewDiskFromImage(img, dir)
	var ch *simnode.Chain
	site, msg, panicked := kernel.Try(func() {
		ch, err = simnode.OpenChain(d, simnode.ChainOpts{IsTrie: w.Cfg.IsTrie, MempoolCfg: cloneMemCfg(w.Cfg.Mem)})
	})
	if panicked {
		return 0, fmt.Errorf("assembly panicked at %s: %s", site, msg)
	}
	if err != nil {
		return 0, err
	}
	w.Chain = ch
	ch.RegisterRate()
	w.installPark()
	// catch up
	for ch.Status.LastBlockHeight < uint64(len(w.Blocks)) {
		h := ch.Status.LastBlockHeight + 1
		if ch.App.Height() >= h {
			return resynced, fmt.Errorf("store at height %d but status at %d after the startup reconciliation", ch.App.Height(), ch.Status.LastBlockHeight)
		}
		b, parts, err := w.Wire(w.Blocks[h-1])
		if err != nil {
			return resynced, err
		}
		var ok bool
		site, msg, panicked := kernel.Try(func() { ok = ch.App.CheckBlock(b) })
		if panicked {
			return resynced, fmt.Errorf("CheckBlock of committed block %d panicked at %s: %s", h, site, msg)
		}
		if !ok {
			return resynced, fmt.Errorf("the restarted node refuses committed block %d", h)
		}
		site, msg, panicked = kernel.Try(func() { err = w.commitOn(ch, b, parts, w.Seen[h-1]) })
		if panicked {
			return resynced, fmt.Errorf("commit of block %d panicked at %s: %s", h, site, msg)
		}
		if err != nil {
			return resynced, err
		}
		resynced++
	}
	return resynced, nil
}

func cloneMemCfg(m *cfg.MempoolConfig) *cfg.MempoolConfig {
	if m == nil {
		return nil
	}
	c := *m
	return &c
}

// SortedUsers returns the user addresses in index order.
func (w *World) SortedUsers() []common.Address {
	out := make([]common.Address, len(w.Users))
	for i, u := range w.Users {
		out[i] = u.Addr
	}
	return out
}

// UserByAddr finds the user with addr.
func (w *World) UserByAddr(a common.Address) *User {
	for _, u := range w.Users {
		if u.Addr == a {
			return u
		}
	}
	return nil
}

// SortHashes sorts hashes bytewise (for order-insensitive fingerprints).
func SortHashes(h []common.Hash) {
	sort.Slice(h, func(i, j int) bool { return string(h[i][:]) < string(h[j][:]) })
}

// ---------------------------------------------------------------- park points inside CommitBlock

// The application's logger is injectable; CommitBlock logs at known places.
// A logger that parks the calling goroutine at an armed message gives the
// simulator a park point INSIDE CommitBlock without touching production code.

// Log lines of app.CommitBlock usable as park points.
const (
	ParkCommitStart   = "CommitBlock: start" // nothing written yet, no lock held
	ParkBeforeSave    = "candidates list"    // state committed, block not stored yet, no lock held
	ParkStateReplaced = "GetCoefficient "    // checkTxState replaced and key-image cache reset, Mempool.Update not yet called
)

type commitPark struct {
	mu      sync.Mutex
	armed   bool
	at      string
	parked  bool
	release chan struct{}
}

type parkLogger struct {
	log.Logger
	w *World
}

func (l *parkLogger) With(...interface{}) log.Logger { return l }

func (l *parkLogger) Info(msg string, ctx ...interface{}) {
	cp := &l.w.cpark
	cp.mu.Lock()
	hit := cp.armed && msg == cp.at
	if hit {
		cp.armed = false
		cp.parked = true
	}
	ch := cp.release
	cp.mu.Unlock()
	if hit {
		<-ch // no harness lock held
	}
}

// CommitRace is Commit with the node's CommitBlock/ApplyBlock running on its
// own goroutine, parked at log line at; during runs on the driver while the
// committer is parked (World.NoWait is set: client steps do not wait for
// quiescence); then the committer is released and everything settles.
func (w *World) CommitRace(block *types.Block, at string, noWait bool, during func()) (res CommitResult, parked bool) {
	wb, parts, err := w.Wire(block)
	if err != nil {
		res.Err = fmt.Errorf("wire: %v", err)
		return
	}
	rb, rparts, err := w.Wire(block)
	if err != nil {
		res.Err = fmt.Errorf("wire: %v", err)
		return
	}
	w.Rep.RegisterRate()
	res.RepCheck = w.Rep.App.CheckBlock(rb)
	w.Chain.RegisterRate()
	res.NodeCheck = w.Chain.App.CheckBlock(wb)
	if !res.RepCheck || !res.NodeCheck {
		return
	}
	id := types.BlockID{Hash: wb.Hash(), PartsHeader: parts.Header()}
	seen := w.signCommit(w.Chain.Status.Validators, id, wb.Height)

	cp := &w.cpark
	cp.mu.Lock()
	cp.armed, cp.at, cp.parked, cp.release = true, at, false, make(chan struct{})
	cp.mu.Unlock()
	done := make(chan error, 1)
	ch := w.Chain
	go func() {
		var err error
		if site, msg, p := kernel.Try(func() { err = w.commitOn(ch, wb, parts, seen) }); p {
			err = fmt.Errorf("panic at %s: %s", site, msg)
		}
		done <- err
	}()
	synctest.Wait()
	cp.mu.Lock()
	parked = cp.parked
	cp.armed = false
	cp.mu.Unlock()
	if parked {
		w.NoWait = noWait
		if w.SpinBound == 0 {
			w.SpinBound = 3000
		}
		during()
		cp.release <- struct{}{}
	}
	err = <-done
	synctest.Wait()
	w.NoWait = false
	if err != nil {
		res.Err = fmt.Errorf("node: %v", err)
		return
	}
	w.Rep.RegisterRate()
	if err := w.commitOn(w.Rep, rb, rparts, seen); err != nil {
		res.Err = fmt.Errorf("replica: %v", err)
		return
	}
	w.Chain.RegisterRate()
	w.lastSeen = seen
	w.Seen = append(w.Seen, seen)
	w.noteCommitted(wb)
	return
}
