package mempoolrig

import (
	"fmt"
	"math/big"
	"testing/synctest"
	"time"

	"github.com/lianxiangcloud/linkchain/libs/common"
	"github.com/lianxiangcloud/linkchain/libs/crypto"
	"github.com/lianxiangcloud/linkchain/types"

	"verif/sim/txgen"
)

// Contracts in the C15 workload: the destination of a pooled transaction can
// gain or lose code through a committed block (creation at a predicted
// address, SELFDESTRUCT), which changes the gas rule the transaction must
// satisfy. The embedded EVM "suicide" contract of txgen is used: it accepts
// value on empty calldata and self-destructs to the beneficiary in calldata.

// Contract is one deployed (or planned) contract.
type Contract struct {
	Addr    common.Address
	Alive   bool // per committed blocks
	Creator int
}

type creationPlan struct {
	nonce uint64
	code  []byte
	addr  common.Address
}

const (
	gasCreate     = 1500000
	gasKill       = 400000
	gasCreateFail = 600000
	gasExtra      = 300000 // on top of the contract value fee: "contract-style gas"
)

func (e *Engine) hasCode(a common.Address) bool {
	c := e.contractAt[a]
	return c != nil && c.Alive
}

func (e *Engine) aliveContracts() []*Contract {
	var out []*Contract
	for _, c := range e.contracts {
		if c.Alive {
			out = append(out, c)
		}
	}
	return out
}

func signedTx(u *User, tx *types.Transaction) *types.Transaction {
	if err := tx.Sign(types.GlobalSTDSigner, u.Priv); err != nil {
		panic("mempoolrig: sign: " + err.Error())
	}
	return tx
}

func (e *Engine) newCode() []byte {
	e.codeVariant++
	return txgen.ContractCode(txgen.CSuicide, byte(e.codeVariant), 18)
}

// creationTx builds u's next contract creation at nonce n (the planned one if
// a transfer to its future address has been generated).
func (e *Engine) creationTx(u *User, n uint64) (*types.Transaction, common.Address) {
	var code []byte
	if p := e.plans[u.Idx]; p != nil && p.nonce == n {
		code = p.code
		delete(e.plans, u.Idx)
	} else {
		code = e.newCode()
	}
	tx := signedTx(u, types.NewContractCreation(n, big.NewInt(0), gasCreate, nil, code))
	return tx, crypto.CreateAddress(u.Addr, n, code)
}

func (e *Engine) killTx(u *User, n uint64, c *Contract) *types.Transaction {
	return signedTx(u, types.NewTransaction(n, c.Addr, big.NewInt(0), gasKill, nil, txgen.CallSuicide(e.W.Sinks[0])))
}

func (e *Engine) callTx(u *User, n uint64, c common.Address, value *big.Int) *types.Transaction {
	gas := types.CalNewAmountGas(value, types.EverContractLiankeFee) + gasExtra
	return signedTx(u, types.NewTransaction(n, c, value, gas, nil, nil))
}

func (e *Engine) canAfford(u *User, cost *big.Int) bool {
	return e.remaining(u.Addr).Cmp(cost) >= 0
}

// genContract draws one contract-related submission (nil: not possible now).
func (e *Engine) genContract(kind string, u *User, pick int) *MTx {
	t := e.Work
	switch kind {
	case "create":
		if !e.canAfford(u, new(big.Int).Mul(big.NewInt(gasCreate), GasPrice)) {
			u = e.richUser(pick)
			if u == nil {
				return nil
			}
		}
		tx, addr := e.creationTx(u, e.nextFree(u))
		m := e.record(u, tx, "create")
		m.Target = addr
		return m
	case "createfail":
		// a creation whose constructor reverts / hits INVALID / returns oversized
		// code: admitted, included, charged, fails in execution
		cost := new(big.Int).Mul(big.NewInt(gasCreateFail), GasPrice)
		if !e.canAfford(u, cost) {
			u = e.richUser(pick)
			if u == nil {
				return nil
			}
		}
		e.codeVariant++
		code := txgen.FailingCreationCode(pick%3, byte(e.codeVariant))
		tx := signedTx(u, types.NewContractCreation(e.nextFree(u), big.NewInt(0), gasCreateFail, nil, code))
		return e.record(u, tx, "createfail")
	case "kill":
		cs := e.aliveContracts()
		if len(cs) == 0 || !e.canAfford(u, new(big.Int).Mul(big.NewInt(gasKill), GasPrice)) {
			return nil
		}
		c := cs[pick%len(cs)]
		m := e.record(u, e.killTx(u, e.nextFree(u), c), "kill")
		m.Target = c.Addr
		return m
	case "ccall":
		// mostly a live contract; sometimes one whose creation is still pending
		var target common.Address
		cs := e.aliveContracts()
		if len(cs) > 0 && (len(e.pendingCreate) == 0 || pick%4 != 0) {
			target = cs[pick%len(cs)].Addr
		} else if len(e.pendingCreate) > 0 {
			target = e.pendingCreate[pick%len(e.pendingCreate)]
		} else {
			return nil
		}
		value := new(big.Int).Mul(big.NewInt(1e17), big.NewInt(int64(t.Range(0, 30))))
		tx := e.callTx(u, e.nextFree(u), target, value)
		if !e.canAfford(u, Cost(tx)) {
			return nil
		}
		m := e.record(u, tx, "ccall")
		m.Target = target
		return m
	case "tofuture":
		// a plain exact-gas transfer to the address a planned creation will get
		v := e.richUser(pick)
		if v == nil {
			return nil
		}
		p := e.plans[v.Idx]
		if n := e.nextFree(v); p == nil || p.nonce != n {
			code := e.newCode()
			p = &creationPlan{nonce: n, code: code, addr: crypto.CreateAddress(v.Addr, n, code)}
			e.plans[v.Idx] = p
		}
		amt := e.amount(t)
		tx := u.Transfer(e.nextFree(u), p.addr, amt, 0, nil)
		m := e.record(u, tx, "tofuture")
		m.Target = p.addr
		return m
	}
	return nil
}

// applyWithReceipt books a committed plain transaction from its receipt: the
// fee is gasUsed x price, the value moves only when the receipt says success;
// creations and self-destructs update the contract registry.
func (e *Engine) applyWithReceipt(tx types.Tx, r *types.Receipt) bool {
	t, ok := tx.(*types.Transaction)
	if !ok || r == nil {
		return false
	}
	from, err := t.From()
	if err != nil {
		return false
	}
	led := e.W.Led
	a := led.Get(from)
	a.Nonce++
	fee := new(big.Int).Mul(new(big.Int).SetUint64(r.GasUsed), t.GasPrice())
	a.Balance = new(big.Int).Sub(a.Balance, fee)
	success := r.Status == types.ReceiptStatusSuccessful
	if !success {
		e.failed = append(e.failed, tx)
		e.C.Probe("committed-failed-tx")
	}
	var to common.Address
	if t.To() != nil {
		to = *t.To()
	} else {
		to = r.ContractAddress
	}
	if success {
		a.Balance = new(big.Int).Sub(a.Balance, t.Value())
		b := led.Get(to)
		b.Balance = new(big.Int).Add(b.Balance, t.Value())
	}
	m := e.byHash[tx.Hash()]
	if t.To() == nil && success {
		c := &Contract{Addr: r.ContractAddress, Alive: true, Creator: -1}
		if u := e.W.UserByAddr(from); u != nil {
			c.Creator = u.Idx
		}
		if m != nil && m.Target != c.Addr {
			e.C.HarnessTrouble("creation landed at %x, predicted %x", c.Addr[:4], m.Target[:4])
			e.Stop()
		}
		e.contracts = append(e.contracts, c)
		e.contractAt[c.Addr] = c
		e.C.Probe("contract-created")
	}
	if m != nil && m.Kind == "kill" && success {
		if c := e.contractAt[m.Target]; c != nil && c.Alive {
			c.Alive = false
			cb := led.Get(c.Addr)
			s := led.Get(e.W.Sinks[0])
			s.Balance = new(big.Int).Add(s.Balance, cb.Balance)
			cb.Balance = new(big.Int)
			e.C.Probe("contract-destroyed")
		}
	}
	return true
}

// checkLedger compares the independent ledger with the committed state for the
// user accounts: a disagreement means the harness's model of execution is
// wrong (its verdicts about coverage would be unsound), never a verdict.
func (e *Engine) checkLedger() {
	st := e.W.Chain.App.GetLatestStateDB()
	for _, u := range e.W.Users {
		a := e.W.Led.Get(u.Addr)
		if sn := st.GetNonce(u.Addr); sn != a.Nonce && e.Opt.Prop == "C07" {
			// the ledger counts executed transactions (from blocks and receipts)
			e.Violate("nonce-state", "committed-nonce-not-executed-count", "after block %d the committed state holds nonce %d for u%d, but the chain has executed %d nonce-consuming transactions of that sender (genesis nonce included): an executed transaction did not advance the nonce by exactly one and its bytes stay valid", e.W.Height(), sn, u.Idx, a.Nonce)
			return
		}
		if sb, sn := st.GetBalance(u.Addr), st.GetNonce(u.Addr); sb.Cmp(a.Balance) != 0 || sn != a.Nonce {
			e.C.HarnessTrouble("ledger model disagrees with the committed state for u%d at height %d: balance %v vs %v, nonce %d vs %d", u.Idx, e.W.Height(), a.Balance, sb, a.Nonce, sn)
			e.Stop()
			return
		}
	}
}

// notExecKey keys a refusal of the node's own offer by its cause when the
// model can name one: the destination of an offered transaction gained or
// lost code since the transaction was generated (the gas rule depends on it).
func (e *Engine) notExecKey(site string, b *types.Block) (key, detail string) {
	generic := "offer-not-executable/" + site
	if b == nil || b.Data == nil || len(b.Data.Txs) == 0 {
		return generic, ""
	}
	txs := b.Data.Txs
	// the first transaction the executor refuses
	bad := -1
	for k := 1; k <= len(txs); k++ {
		if _, _, _, p := e.W.Propose(0, txs[:k], true); p {
			bad = k - 1
			break
		}
	}
	if bad < 0 {
		return generic, ""
	}
	t, ok := txs[bad].(*types.Transaction)
	m := e.byHash[txs[bad].Hash()]
	if !ok || t.To() == nil || m == nil {
		return generic, fmt.Sprintf("first refused: %s", e.txLabel(txs[bad]))
	}
	to := *t.To()
	with := map[bool]string{true: "with", false: "without"}
	if now := e.hasCode(to); now != m.ToCode {
		what := "appeared"
		if m.ToCode {
			what = "removed"
		}
		return "offer-not-executable/destination-code-" + what, fmt.Sprintf("first refused: %s, admitted for a destination %x.. %s code (gas limit %d, value %v); a committed block has since %s the code and the mempool kept the transaction", e.txLabel(txs[bad]), to[:4], with[m.ToCode], t.Gas(), t.Value(), what)
	}
	// the same inside the block: an earlier transaction of the offer destroys
	// (or creates) what this one addresses
	for _, prev := range txs[:bad] {
		pm := e.byHash[prev.Hash()]
		if pm == nil || pm.Target != to {
			continue
		}
		if pm.Kind == "kill" && m.ToCode {
			return "offer-not-executable/destination-code-removed-by-earlier-offered-tx", fmt.Sprintf("first refused: %s (gas limit %d, admitted for a destination %x.. with code); %s, offered before it, self-destructs that contract", e.txLabel(txs[bad]), t.Gas(), to[:4], e.txLabel(prev))
		}
		if pm.Kind == "create" && !m.ToCode {
			return "offer-not-executable/destination-code-created-by-earlier-offered-tx", fmt.Sprintf("first refused: %s (gas limit %d, admitted for a destination %x.. without code); %s, offered before it, creates a contract there", e.txLabel(txs[bad]), t.Gas(), to[:4], e.txLabel(prev))
		}
	}
	return generic, fmt.Sprintf("first refused: %s", e.txLabel(txs[bad]))
}

// flushPool gets the node's mempool rid of everything it holds (after a listed
// finding left a poisoned transaction there): let everything age out and have
// another proposer's empty block trigger the clean-up.
func (e *Engine) flushPool() {
	if e.flushing {
		return
	}
	e.flushing = true
	defer func() { e.flushing = false }()
	// every client returns first (no blocks can be built from this pool now)
	for _, f := range append([]*flight(nil), e.inflight...) {
		e.W.Finish(f.sub)
	}
	e.collect()
	if e.Stopped() {
		return
	}
	d := e.dropGood + time.Second
	time.Sleep(d)
	synctest.Wait() // the node's ticker-driven routines settle before the driver goes on
	e.C.SimTime(d)
	b, site, msg, panicked := e.W.Propose(0, types.Txs{}, true)
	if panicked {
		e.C.HarnessTrouble("empty block did not execute at %s: %s", site, msg)
		e.Stop()
		return
	}
	e.commit(b, "external")
	e.C.Probe("pool-flushed")
}
