package mempoolrig

import (
	"encoding/json"
	"fmt"
	"math/big"
	"testing"

	"verif/sim/kernel"
)

func TestSmoke(t *testing.T) {
	rig := &kernel.Rig{Property: "CXX", Name: "smoke", Run: func(c *kernel.Ctx) {
		kernel.Bubble(c, false, func() {
			wc := WorldCfg{NUsers: 3, NVals: 1, IsTrie: false}
			for i := 0; i < 3; i++ {
				wc.Balances = append(wc.Balances, new(big.Int).Mul(big.NewInt(1e18), big.NewInt(100)))
				wc.Nonces = append(wc.Nonces, 0)
			}
			w, err := NewWorld(c, wc)
			if err != nil {
				c.HarnessTrouble("world: %v", err)
				return
			}
			defer w.Cleanup()
			u := w.Users[0]
			for n := uint64(0); n < 3; n++ {
				tx := u.Transfer(n, w.Sinks[0], big.NewInt(1000), 0, nil)
				fmt.Println("add", n, w.SubmitNow(int(n), tx))
			}
			tx := u.Transfer(5, w.Sinks[0], big.NewInt(1000), 0, nil)
			fmt.Println("add future", w.SubmitNow(9, tx))
			for h := 0; h < 3; h++ {
				b, site, msg, p := w.Propose(w.MaxTxs(), nil, false)
				fmt.Println("propose", b != nil, site, msg, p)
				if p {
					return
				}
				r := w.Commit(b)
				fmt.Println("commit", r, len(b.Data.Txs), w.Height())
				fmt.Println(w.Chain.Mempool.Stats())
				fmt.Println("ledger", w.Led.Get(u.Addr).Nonce, w.Led.Get(u.Addr).Balance, "state", w.Chain.App.GetLatestStateDB().GetNonce(u.Addr), w.Chain.App.GetLatestStateDB().GetBalance(u.Addr))
			}
			w.StopMempool(w.Chain)
			w.StopMempool(w.Rep)
		})
	}}
	res := kernel.Execute(t, rig, kernel.Quick, kernel.NewTape(1), nil)
	b, _ := json.Marshal(res)
	fmt.Println(string(b))
}
