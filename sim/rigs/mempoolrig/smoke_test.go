package mempoolrig

import (
	"fmt"
	"math/big"
	"testing"

	lk "github.com/lianxiangcloud/linkchain/libs/cryptonote/types"
	"github.com/lianxiangcloud/linkchain/libs/cryptonote/xcrypto"
	"github.com/lianxiangcloud/linkchain/types"

	"verif/sim/kernel"
)

// TestWriteLog prints the write boundaries of one CommitBlock+ApplyBlock.
func TestWriteLog(t *testing.T) {
	rig := &kernel.Rig{Property: "CXX", Name: "smoke", Run: func(c *kernel.Ctx) {
		kernel.Bubble(c, false, func() {
			wc := WorldCfg{NUsers: 2, NVals: 1, IsTrie: true}
			for i := 0; i < 2; i++ {
				wc.Balances = append(wc.Balances, new(big.Int).Mul(big.NewInt(1e18), big.NewInt(1000000)))
				wc.Nonces = append(wc.Nonces, 0)
			}
			w, err := NewWorld(c, wc)
			if err != nil {
				c.HarnessTrouble("world: %v", err)
				return
			}
			defer w.Cleanup()
			e := &Engine{C: c, W: w, Work: c.Tape.Fork("work")}
			seedCrypto(c.Tape.Fork("x"))
			e.U = newUtxoState(2)
			u := w.Users[0]
			ftx, err := e.FundTx(u, 0, []*Wallet{e.U.Wallets[0], e.U.Wallets[1]}, []*big.Int{lkCoins(500), lkCoins(600)})
			if err != nil {
				t.Fatal(err)
			}
			w.OnCommitted = func(b *types.Block) { e.noteUtxoCommitted(b) }
			b, _, msg, p := w.Propose(0, types.Txs{ftx}, true)
			if p {
				t.Fatal(msg)
			}
			fmt.Println(w.Commit(b))
			stx, err := e.SpendTx(e.U.Wallets[0], []*Owned{e.U.Owned[0]}, 2, lkCoins(100), e.U.Wallets[1], nil, 0)
			if err != nil {
				t.Fatal(err)
			}
			fmt.Println("submit spend:", w.SubmitNow(1, stx), "transfer:", w.SubmitNow(2, u.Transfer(1, w.Sinks[0], big.NewInt(5000), 0, nil)))
			w.Chain.Disk.KeepLog(true)
			s0 := w.Chain.Disk.Seq()
			b, _, msg, p = w.Propose(100, nil, false)
			if p {
				t.Fatal(msg)
			}
			fmt.Println(w.Commit(b), len(b.Data.Txs))
			for _, r := range w.Chain.Disk.Log() {
				fmt.Printf("  +%d %s %s keys=%d\n", r.Seq-s0, r.DB, r.Op, r.Keys)
			}
			w.StopMempool(w.Chain)
			w.StopMempool(w.Rep)
		})
	}}
	res := kernel.Execute(t, rig, kernel.Quick, kernel.NewTape(1), nil)
	if res.Harness != "" {
		t.Fatal(res.Harness)
	}
}

func TestKeyImageClass(t *testing.T) {
	prime, cleared, err := KeyImageClass(torsion2)
	var id [32]byte
	id[0] = 1
	if err != nil || prime || cleared != id {
		t.Fatalf("order-2 point: prime=%v cleared=%x err=%v", prime, cleared, err)
	}
	prime, cleared, err = KeyImageClass(torsion4)
	if err != nil || prime || cleared != id {
		t.Fatalf("order-4 point: prime=%v cleared=%x err=%v", prime, cleared, err)
	}
	var one lk.Key
	one[0] = 1
	g := xcrypto.ScalarmultBase(one)
	prime, c1, err := KeyImageClass(g)
	if err != nil || !prime {
		t.Fatalf("base point: prime=%v err=%v", prime, err)
	}
	tw, err := xcrypto.AddKeys(g, torsion2)
	if err != nil {
		t.Fatal(err)
	}
	prime, c2, err := KeyImageClass(tw)
	if err != nil || prime || c1 != c2 {
		t.Fatalf("G+T2: prime=%v same cleared=%v err=%v", prime, c1 == c2, err)
	}
	tw4, err := xcrypto.AddKeys(g, torsion4)
	if err != nil {
		t.Fatal(err)
	}
	if prime, c3, err := KeyImageClass(tw4); err != nil || prime || c3 != c1 {
		t.Fatalf("G+T4: prime=%v err=%v", prime, err)
	}
}
