package mempoolrig

import (
	"encoding/json"
	"fmt"
	"math/big"
	"syscall"
	"testing"
	"testing/synctest"

	"verif/sim/kernel"
	"github.com/lianxiangcloud/linkchain/types"
)

func wallNow() int64 {
	var tv syscall.Timeval
	syscall.Gettimeofday(&tv)
	return tv.Sec*1000000 + int64(tv.Usec)
}

func TestSmoke(t *testing.T) {
	rig := &kernel.Rig{Property: "CXX", Name: "smoke", Run: func(c *kernel.Ctx) {
		kernel.Bubble(c, false, func() {
			t0 := wallNow()
			lap := func(what string) { t1 := wallNow(); fmt.Printf("%-20s %6d us\n", what, t1-t0); t0 = t1 }
			wc := WorldCfg{NUsers: 3, NVals: 1, IsTrie: false}
			for i := 0; i < 3; i++ {
				wc.Balances = append(wc.Balances, new(big.Int).Mul(big.NewInt(1e18), big.NewInt(100)))
				wc.Nonces = append(wc.Nonces, 0)
			}
			w, err := NewWorld(c, wc)
			if err != nil {
				c.HarnessTrouble("world: %v", err)
				return
			}
			lap("world")
			defer w.Cleanup()
			u := w.Users[0]
			for n := uint64(0); n < 3; n++ {
				tx := u.Transfer(n, w.Sinks[0], big.NewInt(1000), 0, nil)
				lap("sign")
				w.SubmitNow(int(n), tx)
				lap("submit")
			}
			for i := 0; i < 5; i++ {
				synctest.Wait()
			}
			lap("5 waits")
			for h := 0; h < 3; h++ {
				b, _, _, p := w.Propose(w.MaxTxs(), nil, false)
				lap("propose")
				if p {
					return
				}
				wb, parts, _ := w.Wire(b)
				lap("wire")
				w.Chain.App.CheckBlock(wb)
				lap("check")
				id := types.BlockID{Hash: wb.Hash(), PartsHeader: parts.Header()}
				seen := w.signCommit(w.Chain.Status.Validators, id, wb.Height)
				lap("signcommit")
				vals, err := w.Chain.App.CommitBlock(wb, parts, seen, false)
				lap("CommitBlock")
				st, err := w.Chain.BlockExec.ApplyBlock(w.Chain.Status.Copy(), id, wb, vals)
				lap("ApplyBlock")
				_ = err
				w.Chain.Status = st
				w.lastSeen = seen
				w.Chain.Mempool.Reap(100)
				lap("reap")
			}
			w.StopMempool(w.Chain)
			w.StopMempool(w.Rep)
			lap("stop")
		})
	}}
	res := kernel.Execute(t, rig, kernel.Quick, kernel.NewTape(1), nil)
	b, _ := json.Marshal(res)
	fmt.Println(string(b))
}
