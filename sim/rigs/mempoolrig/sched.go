package mempoolrig

import (
	"math/big"
	"runtime"
	"sync"
	"testing/synctest"

	"github.com/lianxiangcloud/linkchain/libs/common"
	"github.com/lianxiangcloud/linkchain/libs/log"
	mempl "github.com/lianxiangcloud/linkchain/mempool"
	"github.com/lianxiangcloud/linkchain/types"

	"verif/sim/simnode"
)

// ParkApp wraps the mempool.App of the node under test. A client goroutine
// inside Mempool.AddTx reaches CheckTx(tx, BasicCheck) after the dedup-cache
// put and before the pool lock, holding no lock; there it parks on a private
// channel until the driver releases it. Everything else passes through.
type ParkApp struct {
	inner mempl.App
	mu    sync.Mutex
	subs  map[types.Tx]*Submission // by object identity
}

var _ mempl.App = (*ParkApp)(nil)

func (p *ParkApp) GetNonce(a common.Address) uint64     { return p.inner.GetNonce(a) }
func (p *ParkApp) GetBalance(a common.Address) *big.Int { return p.inner.GetBalance(a) }

func (p *ParkApp) CheckTx(tx types.Tx, basic bool) error {
	p.mu.Lock()
	s := p.subs[tx]
	p.mu.Unlock()
	if !basic {
		if s != nil {
			// the client holds the pool lock and is about to be state-checked
			s.mu.Lock()
			s.reachedState = true
			s.mu.Unlock()
		}
		return p.inner.CheckTx(tx, basic)
	}
	if s == nil {
		return p.inner.CheckTx(tx, basic)
	}
	if s.ParkBefore {
		s.setState(SubParkedBefore)
		<-s.release
		s.setState(SubRunning)
	}
	err := p.inner.CheckTx(tx, basic)
	if err == nil && s.OnBasicOK != nil {
		// runs while the driver waits for quiescence: no concurrent access
		s.OnBasicOK()
	}
	if s.ParkAfter {
		s.setState(SubParkedAfter)
		<-s.release
		s.setState(SubRunning)
	}
	return err
}

// Submission states.
const (
	SubRunning = iota
	SubParkedBefore
	SubParkedAfter
	SubDone
)

// Submission is one client call of Mempool.AddTx.
type Submission struct {
	ID         int
	Tx         types.Tx // the object handed to AddTx (a private copy)
	Tag        interface{}
	ParkBefore bool
	ParkAfter  bool
	// OnBasicOK is called on the client goroutine right after the basic check
	// of the submission has passed.
	OnBasicOK func()

	mu           sync.Mutex
	state        int
	err          error
	reachedState bool
	release      chan struct{}
}

// ReachedState reports whether the client got into the locked section of
// AddTx (its state check was called).
func (s *Submission) ReachedState() bool {
	s.mu.Lock()
	defer s.mu.Unlock()
	return s.reachedState
}

func (s *Submission) setState(st int) {
	s.mu.Lock()
	s.state = st
	s.mu.Unlock()
}

// State returns the submission's state (valid at quiescence).
func (s *Submission) State() int {
	s.mu.Lock()
	defer s.mu.Unlock()
	return s.state
}

// Err returns AddTx's result once the submission is done.
func (s *Submission) Err() error {
	s.mu.Lock()
	defer s.mu.Unlock()
	return s.err
}

// Parked reports whether the client waits for a release.
func (s *Submission) Parked() bool {
	st := s.State()
	return st == SubParkedBefore || st == SubParkedAfter
}

// Done reports whether AddTx has returned.
func (s *Submission) Done() bool { return s.State() == SubDone }

func (w *World) installPark() {
	w.Park = &ParkApp{inner: w.Chain.App, subs: map[types.Tx]*Submission{}}
	w.Chain.Mempool.SetApp(w.Park)
	w.Chain.App.SetLogger(&parkLogger{Logger: log.NewNopLogger(), w: w})
}

// Start launches a client goroutine that submits tx (a private copy of it) to
// the node's mempool and lets it run to its first park or to completion.
func (w *World) Start(id int, tx types.Tx, parkBefore, parkAfter bool) *Submission {
	return w.StartHook(id, tx, parkBefore, parkAfter, nil)
}

// StartHook is Start with a callback for the moment the basic check passes.
func (w *World) StartHook(id int, tx types.Tx, parkBefore, parkAfter bool, onBasicOK func()) *Submission {
	s := &Submission{ID: id, Tx: CopyTx(tx), ParkBefore: parkBefore, ParkAfter: parkAfter, OnBasicOK: onBasicOK, release: make(chan struct{})}
	p := w.Park
	mem := w.Chain.Mempool
	p.mu.Lock()
	p.subs[s.Tx] = s
	p.mu.Unlock()
	go func() {
		err := mem.AddTx("", s.Tx)
		p.mu.Lock()
		delete(p.subs, s.Tx)
		p.mu.Unlock()
		s.mu.Lock()
		s.err = err
		s.state = SubDone
		s.mu.Unlock()
	}()
	w.settle(s)
	return s
}

// Release lets a parked client run to its next park or to completion.
func (w *World) Release(s *Submission) {
	if !s.Parked() {
		return
	}
	s.setState(SubRunning)
	s.release <- struct{}{}
	w.settle(s)
}

// settle waits until the client has taken its step: normally quiescence of the
// bubble; while the committing goroutine is parked (NoWait) a client may be
// blocked on a mutex the committer holds, which is not a durable block, so
// the driver only yields until the client is done, parked again, inside the
// locked section, or evidently stuck behind a lock.
func (w *World) settle(s *Submission) {
	if !w.NoWait {
		synctest.Wait()
		return
	}
	for i := 0; i < w.SpinBound; i++ {
		if s.Done() || s.Parked() || s.ReachedState() {
			return
		}
		runtime.Gosched()
	}
}

// Finish releases s until AddTx has returned.
func (w *World) Finish(s *Submission) {
	for i := 0; i < 4 && !s.Done(); i++ {
		w.Release(s)
	}
}

// SubmitNow is a whole AddTx with no interleaving.
func (w *World) SubmitNow(id int, tx types.Tx) error {
	s := w.Start(id, tx, false, false)
	w.Finish(s)
	return s.Err()
}

// StopMempool stops the two routines of a mempool (one unbuffered quit
// channel serves both).
func (w *World) StopMempool(ch *simnode.Chain) {
	if ch == nil || ch.Mempool == nil {
		return
	}
	ch.Mempool.Stop()
	synctest.Wait()
	ch.Mempool.Stop()
	synctest.Wait()
}
