package mempoolrig

import (
	"fmt"
	"math/big"
	"testing"

	"github.com/lianxiangcloud/linkchain/types"

	"verif/sim/kernel"
	"verif/sim/simdb"
)

// Direct reproduction of the C07 finding
// "spent-set-incomplete/crash/block-visible/spent-set-not-written":
// app.CommitBlock makes the block durable and visible (BlockStore.SaveBlock)
// and only then writes the block's key images (UtxoStore.SaveUtxo); nothing at
// startup repeats the second step. A process crash in between leaves a node
// whose chain contains a confidential spend while its persistent spent set does
// not know the key image: after the restart its mempool accepts a second spend
// of the same output, it builds and accepts a block with it, and its own
// history then carries the key image twice.
//
//	cd /verif/sim && go1.26.8 test -tags verif -vet=off -overlay /verif/build/overlay.json ./rigs/mempoolrig/ -run TestDefectCrashBetweenSaveBlockAndSaveUtxo -v
func TestDefectCrashBetweenSaveBlockAndSaveUtxo(t *testing.T) {
	if !UtxoReady() {
		t.Skip("xcrypto stand-in cannot build confidential transactions")
	}
	rig := &kernel.Rig{Property: "CXX", Name: "repro", Run: func(c *kernel.Ctx) {
		kernel.Bubble(c, false, func() {
			wc := WorldCfg{NUsers: 1, NVals: 1, IsTrie: true,
				Balances: []*big.Int{new(big.Int).Mul(big.NewInt(1e18), big.NewInt(1000000))}, Nonces: []uint64{0}}
			w, err := NewWorld(c, wc)
			if err != nil {
				t.Fatalf("world: %v", err)
			}
			defer w.Cleanup()
			e := &Engine{C: c, W: w, Work: c.Tape.Fork("work")}
			seedCrypto(c.Tape.Fork("x"))
			e.U = newUtxoState(2)
			w.OnCommitted = func(b *types.Block) { e.noteUtxoCommitted(b) }
			alice, bob := e.U.Wallets[0], e.U.Wallets[1]

			// block 1: user0 moves 500 coins into a hidden output of alice
			fund, err := e.FundTx(w.Users[0], 0, []*Wallet{alice}, []*big.Int{lkCoins(500)})
			if err != nil {
				t.Fatal(err)
			}
			b, _, msg, p := w.Propose(0, types.Txs{fund}, true)
			if p {
				t.Fatal(msg)
			}
			if r := w.Commit(b); r.Err != nil || !r.NodeCheck {
				t.Fatalf("block 1: %+v", r)
			}
			out := e.U.Owned[0]

			// block 2: alice spends it (T1); the node crashes after the block
			// store's height record is written, before SaveUtxo
			t1, err := e.SpendTx(alice, []*Owned{out}, 1, lkCoins(100), bob, nil, 0)
			if err != nil {
				t.Fatal(err)
			}
			if err := w.SubmitNow(1, t1); err != nil {
				t.Fatalf("T1 refused: %v", err)
			}
			b, _, msg, p = w.Propose(100, nil, false)
			if p {
				t.Fatal(msg)
			}
			where := ""
			res, frozen := w.CommitCrash(b, func(rel []simdb.WriteRec) int {
				for i, r := range rel {
					fmt.Printf("   write %2d %s %s\n", i+1, r.DB, r.Op)
				}
				for k := 1; k <= len(rel); k++ {
					if crashPhase(rel, k) == "block-visible/spent-set-not-written" {
						where = boundaryLabel(rel, k)
						return k
					}
				}
				return 0
			})
			if res.Err != nil || frozen == nil {
				t.Fatalf("crash commit: %+v frozen=%v", res, frozen != nil)
			}
			fmt.Println("crashed after write", where)
			if _, err := w.Restart(frozen, true); err != nil {
				t.Fatalf("restart: %v", err)
			}
			ki := keyImages(t1)[0]
			fmt.Printf("restarted node: height %d, block 2 has %d tx, key image %x marked spent: %v\n",
				w.Chain.BlockStore.Height(), len(w.Chain.BlockStore.LoadBlock(2).Data.Txs), ki[:4], w.Chain.UtxoStore.HaveTxKeyimgAsSpent(&ki))

			// a second spend of the same output (T2, other amount)
			t2, err := e.SpendTx(alice, []*Owned{out}, 1, lkCoins(200), bob, nil, 0)
			if err != nil {
				t.Fatal(err)
			}
			errAdd := w.SubmitNow(2, t2)
			fmt.Println("AddTx(T2, same key image) on the restarted node:", errAdd)
			if errAdd != nil {
				return // refused: no defect
			}
			b3, _, msg, p := w.Propose(100, nil, false)
			if p {
				fmt.Println("node could not build a block with T2:", msg)
				return
			}
			wb, _, _ := w.Wire(b3)
			wb2, _, _ := w.Wire(b3)
			nodeOK := w.Chain.App.CheckBlock(wb)
			repOK := w.Rep.App.CheckBlock(wb2)
			fmt.Printf("block 3 built by the restarted node carries %d tx; its own CheckBlock: %v; an undamaged replica's CheckBlock: %v\n", len(b3.Data.Txs), nodeOK, repOK)
			if nodeOK && len(b3.Data.Txs) == 1 {
				t.Errorf("DEFECT: after a crash between BlockStore.SaveBlock and UtxoStore.SaveUtxo the node accepts and proposes a second spend of key image %x (first spent in its own block 2)", ki[:4])
			}
			w.StopMempool(w.Chain)
			w.StopMempool(w.Rep)
		})
	}}
	res := kernel.Execute(t, rig, kernel.Quick, kernel.NewTape(1), nil)
	if res.Harness != "" {
		t.Fatal(res.Harness)
	}
}
