package mempoolrig

import (
	"fmt"
	"math/big"
	"testing"

	"github.com/lianxiangcloud/linkchain/libs/common"
	"github.com/lianxiangcloud/linkchain/types"

	"verif/sim/kernel"
)

// Direct reproduction of the C15 finding
// "offer-not-executable/destination-code-removed" (lead by rig-exec, found
// independently by the C15 rig): the gas rule of a plain transaction depends
// on whether its destination holds code (types.Transaction.
// IllegalGasLimitOrGasPrice(hascode)); it is evaluated once, in the basic check
// at admission. The mempool's recheck after a commit (CheckTx state check:
// nonce and balance only) keeps a pooled call whose destination contract has
// self-destructed in the committed block; the next CreateBlock reaps it and
// PreRunBlock panics ("processBlock fail, should not happen!!!") in the
// proposer, every time, until the transaction ages out.
//
//	cd /verif/sim && go1.26.8 test -tags verif -vet=off -overlay /verif/build/overlay.json ./rigs/mempoolrig/ -run TestDefectPooledCallAfterSelfdestruct -v
func TestDefectPooledCallAfterSelfdestruct(t *testing.T) {
	rig := &kernel.Rig{Property: "CXX", Name: "repro", Run: func(c *kernel.Ctx) {
		kernel.Bubble(c, false, func() {
			rich := new(big.Int).Mul(big.NewInt(1e18), big.NewInt(1000000))
			wc := WorldCfg{NUsers: 2, NVals: 1, IsTrie: true, Balances: []*big.Int{rich, rich}, Nonces: []uint64{0, 0}}
			w, err := NewWorld(c, wc)
			if err != nil {
				t.Fatalf("world: %v", err)
			}
			defer w.Cleanup()
			e := &Engine{C: c, W: w, Work: c.Tape.Fork("work"), byHash: map[common.Hash]*MTx{}, contractAt: map[common.Address]*Contract{}, plans: map[int]*creationPlan{}}
			a, b := w.Users[0], w.Users[1]

			// block 1: a deploys the contract
			create, addr := e.creationTx(a, 0)
			blk, _, msg, p := w.Propose(0, types.Txs{create}, true)
			if p {
				t.Fatal(msg)
			}
			if r := w.Commit(blk); r.Err != nil || !r.NodeCheck {
				t.Fatalf("block 1: %+v", r)
			}
			fmt.Printf("contract at %x, code size %d\n", addr[:4], len(w.Chain.App.GetLatestStateDB().GetCode(addr)))

			// b's call with contract-style gas goes to the mempool and stays there
			call := e.callTx(b, 0, addr, big.NewInt(1e17))
			if err := w.SubmitNow(1, call); err != nil {
				t.Fatalf("call refused: %v", err)
			}
			// block 2 (another proposer's): a's SELFDESTRUCT call only
			kill := e.killTx(a, 1, &Contract{Addr: addr})
			blk, _, msg, p = w.Propose(0, types.Txs{kill}, true)
			if p {
				t.Fatal(msg)
			}
			if r := w.Commit(blk); r.Err != nil || !r.NodeCheck {
				t.Fatalf("block 2: %+v", r)
			}
			_, pending, _ := w.Chain.Mempool.Stats()
			fmt.Printf("after the self-destruct: code size %d, the pool still offers %d tx (gas limit %d; a code-less destination demands exactly %d)\n",
				len(w.Chain.App.GetLatestStateDB().GetCode(addr)), pending, call.Gas(), types.CalNewAmountGas(call.Value(), types.EverLiankeFee))

			// block 3 from the node's own mempool
			_, site, msg, p := w.Propose(100, nil, false)
			if p {
				t.Errorf("DEFECT: CreateBlock+PreRunBlock on the mempool's offer panics at %s: %s", site, msg)
			}
			w.StopMempool(w.Chain)
			w.StopMempool(w.Rep)
		})
	}}
	res := kernel.Execute(t, rig, kernel.Quick, kernel.NewTape(1), nil)
	if res.Harness != "" {
		t.Fatal(res.Harness)
	}
}
