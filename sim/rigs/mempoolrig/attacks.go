package mempoolrig

import (
	"fmt"
	"math/big"
	"strings"

	"github.com/lianxiangcloud/linkchain/libs/common"
	lk "github.com/lianxiangcloud/linkchain/libs/cryptonote/types"
	"github.com/lianxiangcloud/linkchain/types"

	"verif/sim/kernel"
	"verif/sim/simdb"
	"verif/sim/txgen"
)

// ---------------------------------------------------------------- restart

// resetPoolModel forgets everything about the content of the node's mempool
// (a restart starts with an empty pool and an empty dedup cache).
func (e *Engine) resetPoolModel() {
	for _, m := range e.all {
		m.Accepted = false
		m.MaybeGood = false
	}
	e.live = map[common.Address]map[uint64][]*MTx{}
	e.held = map[common.Address]map[common.Hash]*MTx{}
	e.livePure = map[common.Hash]*MTx{}
	e.everAcc = map[common.Hash]bool{}
	e.offered, e.offeredBy, e.offeredPure = nil, map[common.Address][]types.Tx{}, nil
	e.sinceCommit = false
}

// RestartNode restarts the node under test from img (nil: its current disk)
// and checks the restart boundary of C07: the persistent spent set contains
// every committed key image, and the fresh mempool refuses what the chain has
// executed. label names the restart for violation keys ("restart", or
// "crash-after/<db>.<op>#<n>"). It returns false when the run cannot go on.
func (e *Engine) RestartNode(img *simdb.Image, fromFrozen bool, label string) bool {
	e.drainClients()
	if e.Stopped() {
		return false
	}
	resynced, err := e.W.Restart(img, fromFrozen)
	e.resetPoolModel()
	if err != nil {
		// crash consistency of the stores is C13's subject; here the node is
		// put back on a good copy (the replica's disk) and the run goes on
		e.Tracef("%s: node did not come back: %v; restored from the replica", label, err)
		e.C.Probe("restart-failed")
		if _, err2 := e.W.Restart(e.W.Rep.Disk.Snapshot(), false); err2 != nil {
			e.C.HarnessTrouble("restore from replica image failed: %v (after %s: %v)", err2, label, err)
			e.Stop()
			return false
		}
		e.resetPoolModel()
		return true
	}
	e.Tracef("%s: node back at height %d (resynced %d, rebuilt status %v)", label, e.W.Chain.Status.LastBlockHeight, resynced, e.W.Chain.Rebuilt)
	e.C.Probe("restart")
	if resynced > 0 {
		e.C.Probe("restart-resynced")
	}
	if e.W.Chain.Rebuilt {
		e.C.Probe("restart-status-rebuilt")
	}
	// 1. the persistent spent set
	if e.U != nil {
		var missing []lk.Key
		for _, b := range e.W.Blocks {
			for _, tx := range b.Data.Txs {
				for _, k := range keyImages(tx) {
					k := k
					if !e.W.Chain.UtxoStore.HaveTxKeyimgAsSpent(&k) {
						missing = append(missing, k)
					}
				}
			}
		}
		e.C.Evals(1)
		if len(missing) > 0 {
			if e.Violate("spent-set", "spent-set-incomplete/"+label, "after %s the node is at height %d but its persistent spent set lacks %d committed key image(s) (first %s, committed in %s): the chain would accept a second spend", label, e.W.Chain.Status.LastBlockHeight, len(missing), kiLabel(missing[:1]), short(e.U.KICommitted[missing[0]])) {
				return false
			}
			// listed finding: demonstrate nothing further on the damaged node
			if _, err := e.W.Restart(e.W.Rep.Disk.Snapshot(), false); err != nil {
				e.C.HarnessTrouble("restore from replica image failed: %v", err)
				e.Stop()
				return false
			}
			e.resetPoolModel()
		}
	}
	// the output index must be complete as well, or the node cannot follow the
	// chain any more (not a re-spend: reported as an observation, node restored)
	if e.U != nil && e.W.Chain.Status.LastBlockHeight == uint64(len(e.W.Blocks)) {
		if got := uint64(e.W.Chain.UtxoStore.GetMaxUtxoOutputSeq(common.EmptyAddress) + 1); got != e.U.NextSeq {
			e.Tracef("%s: the node's confidential output index has %d entries, the chain created %d; restored from the replica", label, got, e.U.NextSeq)
			e.C.Probe("output-index-incomplete-after-crash")
			if _, err := e.W.Restart(e.W.Rep.Disk.Snapshot(), false); err != nil {
				e.C.HarnessTrouble("restore from replica image failed: %v", err)
				e.Stop()
				return false
			}
			e.resetPoolModel()
		}
	}
	// 2. the fresh mempool refuses what the chain has executed
	e.Resubmit(6)
	return !e.Stopped()
}

// Resubmit hands up to n committed transactions (confidential spends first)
// to the node's mempool again; Submit/onDone judge the outcome.
func (e *Engine) Resubmit(n int) {
	var cands []*MTx
	for i := len(e.W.Blocks) - 1; i >= 0 && len(cands) < 4*n; i-- {
		for _, tx := range e.W.Blocks[i].Data.Txs {
			if m := e.byHash[tx.Hash()]; m != nil {
				cands = append(cands, m)
			}
		}
	}
	var pick []*MTx
	for _, m := range cands {
		if len(m.KIs) > 0 && len(pick) < n/2 {
			pick = append(pick, m)
		}
	}
	for _, m := range cands {
		if len(pick) >= n {
			break
		}
		dup := false
		for _, x := range pick {
			if x == m {
				dup = true
			}
		}
		if !dup {
			pick = append(pick, m)
		}
	}
	for _, m := range pick {
		d := &MTx{Seq: m.Seq, Tx: m.Tx, Hash: m.Hash, From: m.From, User: m.User, Nonce: m.Nonce, Cost: m.Cost, Kind: "replay", BasicOK: m.BasicOK, Pure: m.Pure, KIs: m.KIs, Ins: m.Ins}
		s := e.Submit(d, false, false)
		e.W.Finish(s)
		e.collect()
		e.C.Evals(1)
		if e.Stopped() {
			return
		}
	}
}

// boundaryLabel names the k-th write boundary of a commit: database,
// operation and the ordinal of that pair inside the commit.
func boundaryLabel(rel []simdb.WriteRec, k int) string {
	n := 0
	for _, r := range rel {
		if r.DB == rel[k-1].DB && r.Op == rel[k-1].Op {
			n++
		}
		if r.Seq == rel[k-1].Seq {
			break
		}
	}
	return fmt.Sprintf("%s.%s#%d", rel[k-1].DB, rel[k-1].Op, n)
}

// crashPhase classifies the k-th write boundary of a commit by what is
// durable when the process dies right after it.
func crashPhase(rel []simdb.WriteRec, k int) string {
	batch, vis, ki, kiDone, status := 0, 0, 0, 0, 0
	for i, r := range rel {
		switch {
		case r.DB == "blockstore" && r.Op == "batch" && batch == 0:
			batch = i + 1
		case r.DB == "blockstore" && r.Op == "set" && batch > 0 && vis == 0:
			vis = i + 1
		case r.DB == "utxo" && r.Op == "batch" && ki == 0:
			ki = i + 1
		case r.DB == "utxo" && r.Op == "set":
			kiDone = i + 1
		case r.DB == "consensus_state" && status == 0:
			status = i + 1
		}
	}
	switch {
	case vis == 0 || k < vis:
		return "block-not-visible"
	case ki == 0 || k < ki:
		return "block-visible/spent-set-not-written"
	case kiDone == 0 || k < kiDone:
		return "block-visible/output-index-being-written"
	case status == 0 || k < len(rel):
		return "stores-complete/status-being-written"
	}
	return "commit-complete"
}

// concurrentWindow returns the positions (1-based, inclusive) of the write
// boundaries made by BlockStore.SaveBlock's three concurrent writers: from
// the first tx-index/block-store write up to the boundary before the block
// store's batch. A freeze strictly inside it would depend on the goroutine
// order; the last position of the window (all of them done) does not.
func concurrentWindow(rel []simdb.WriteRec) (lo, hi int) {
	for i, r := range rel {
		if lo == 0 && (r.DB == "txmgr" || r.DB == "blockstore") {
			lo = i + 1
		}
		if r.DB == "blockstore" && r.Op == "batch" {
			return lo, i
		}
	}
	return 0, 0
}

// CrashCommit builds a block from the node's mempool and commits it with a
// process crash of the node at a tape-chosen write boundary, then restarts
// the node from the crash image.
func (e *Engine) CrashCommit(t *kernel.Tape) string {
	e.drainClients()
	if e.Stopped() {
		return ""
	}
	e.refreshOffer()
	b, site, msg, panicked := e.W.Propose(e.W.MaxTxs(), nil, false)
	if panicked {
		key, detail := e.notExecKey(site, b)
		if !e.Violate("offer-not-executable", key, "a block built by CreateBlock+PreRunBlock from the mempool's offer did not execute: %s (%s) %s", msg, e.describe(b), detail) {
			e.flushPool()
		}
		return ""
	}
	label, where := "", ""
	bias := t.Int(4)
	raw := t.Int(1 << 16)
	res, frozen := e.W.CommitCrash(b, func(rel []simdb.WriteRec) int {
		if len(rel) == 0 {
			return 0
		}
		k := 1 + raw%len(rel)
		lo, hi := concurrentWindow(rel)
		if bias > 0 && hi > 0 && hi+1 < len(rel) {
			// most of the time after the block has been written
			k = hi + 1 + raw%(len(rel)-hi)
		}
		if lo > 0 && k >= lo && k < hi {
			k = hi
		}
		where = boundaryLabel(rel, k)
		if lo > 0 && k >= lo && k <= hi {
			// which of the concurrent writers finished last is not reproducible
			where = "blockstore.concurrent-writers#done"
		}
		label = "crash/" + crashPhase(rel, k)
		return k
	})
	if res.Err != nil {
		e.C.HarnessTrouble("crash commit failed: %v", res.Err)
		e.Stop()
		return ""
	}
	if !res.RepCheck || !res.NodeCheck {
		e.Violate("offer-rejected", fmt.Sprintf("offer-rejected/replica=%v/node=%v", res.RepCheck, res.NodeCheck), "CheckBlock refused a block the node built from its own mempool: %s", e.describe(b))
		return ""
	}
	e.C.Probe("block-pool")
	if frozen == nil {
		e.C.Probe("crash-point-not-reached")
		return "no crash"
	}
	e.C.Fault("crash")
	e.C.Fault(label)
	e.C.Probe("crash-after/" + strings.SplitN(where, "#", 2)[0])
	e.Tracef("commit h%d pool %d txs, %s (after write %s)", b.Height, len(b.Data.Txs), label, where)
	if !e.RestartNode(frozen, true, label) {
		return ""
	}
	return label
}

// ---------------------------------------------------------------- Byzantine blocks

// ByzKinds is the catalogue of re-spend attempts inside a block.
var ByzKinds = []string{"dup-in-block", "replay-earlier", "nonce-gap", "reorder", "stale-fresh", "future-only", "ki-two-txs", "ki-later", "ki-dup-in-tx", "ki-pool-rival",
	// the same nonce games played with the ACCOUNT INPUT of a confidential
	// (account -> hidden) transaction, and mixed with plain transfers
	"fund-future-only", "fund-nonce-gap", "fund-reorder", "fund-stale", "fund-dup-in-block", "fund-replay-earlier", "fund-gap-after-transfer", "transfer-gap-after-fund",
	// several inputs of which one is already spent on chain
	"ki-multi-one-spent",
	// transactions that are included but FAIL in execution consume their nonce
	// like any other: replayed from an earlier block, twice in one block
	"replay-failed", "dup-failing-in-block", "dup-failing-create-in-block",
	// key images with a small-order (torsion) component: alone, and in pairs
	// whose components cancel in the sum; of fresh outputs and of an output
	// that is already spent under its honest key image
	"ki-torsion-single", "ki-torsion-order4-single", "ki-torsion-cancel-fresh", "ki-torsion-cancel-respend"}

func (e *Engine) richUser(pick int) *User {
	for i := range e.W.Users {
		u := e.W.Users[(pick+i)%len(e.W.Users)]
		if e.remaining(u.Addr).Cmp(new(big.Int).Mul(unitCost(), big.NewInt(8))) > 0 {
			return u
		}
	}
	return nil
}

func (e *Engine) freshRun(u *User, n int, pick int) []*types.Transaction {
	next := e.committedNonce(u.Addr) + uint64(len(e.offeredBy[u.Addr]))
	var out []*types.Transaction
	for i := 0; i < n; i++ {
		out = append(out, u.Transfer(next+uint64(i), e.W.Sinks[pick%len(e.W.Sinks)], big.NewInt(int64(3000+pick%1000+i)), 0, nil))
	}
	return out
}

// ByzBlock builds the block a Byzantine proposer would: everything the node
// offers (a valid body) plus one re-spend attempt of the given kind, executed
// by the proposer itself if its (possibly defective) executor lets it, and
// presents it to the honest replica and to the node: CheckBlock must refuse.
// Returns "" when the attack has no material right now.
func (e *Engine) ByzBlock(kind string, t *kernel.Tape) string {
	e.refreshOffer()
	pick := t.Int(1 << 16)
	base := append(types.Txs(nil), e.offered...)
	inBase := map[lk.Key]bool{}
	for _, tx := range base {
		for _, k := range keyImages(tx) {
			inBase[k] = true
		}
	}
	var txs types.Txs
	spendOf := func(o *Owned, variant int) types.Tx {
		us := e.U
		pay := new(big.Int).Sub(o.Amount, us.FeeUU)
		pay.Sub(pay, lkCoins(int64(1+variant)))
		if pay.Cmp(lkCoins(1)) < 0 {
			return nil
		}
		tx, err := e.SpendTx(us.Wallets[o.Wallet], []*Owned{o}, 1+(pick+variant)%3, pay, us.Wallets[(pick+variant)%len(us.Wallets)], nil, pick)
		if err != nil {
			return nil
		}
		return tx
	}
	switch kind {
	case "dup-in-block":
		if len(base) > 0 && pick%2 == 0 {
			i := pick % len(base)
			txs = append(append(types.Txs(nil), base...), CopyTx(base[i]))
		} else if u := e.richUser(pick); u != nil {
			f := e.freshRun(u, 1, pick)
			txs = append(base, f[0], CopyTx(f[0]))
		}
	case "replay-earlier":
		var all []types.Tx
		for _, b := range e.W.Blocks {
			all = append(all, b.Data.Txs...)
		}
		if len(all) > 0 {
			old := CopyTx(all[pick%len(all)])
			if pick%2 == 0 {
				txs = append(types.Txs{old}, base...)
			} else {
				txs = append(base, old)
			}
		}
	case "replay-failed":
		if len(e.failed) > 0 {
			old := CopyTx(e.failed[pick%len(e.failed)])
			if pick%2 == 0 {
				txs = append(types.Txs{old}, base...)
			} else {
				txs = append(base, old)
			}
		}
	case "dup-failing-in-block", "dup-failing-create-in-block":
		for i := range e.W.Users {
			u := e.W.Users[(pick+i)%len(e.W.Users)]
			rem := e.remaining(u.Addr)
			next := e.committedNonce(u.Addr) + uint64(len(e.offeredBy[u.Addr]))
			var f *types.Transaction
			if kind == "dup-failing-in-block" {
				if rem.Sign() <= 0 {
					continue
				}
				f = u.Transfer(next, e.W.Sinks[pick%len(e.W.Sinks)], new(big.Int).Add(new(big.Int).Mul(e.W.Led.Get(u.Addr).Balance, big.NewInt(2)), big.NewInt(1e18)), 0, nil)
				if rem.Cmp(new(big.Int).Mul(new(big.Int).SetUint64(f.Gas()), f.GasPrice())) < 0 {
					continue
				}
			} else {
				// twice the gas: both copies can buy it
				if rem.Cmp(new(big.Int).Mul(big.NewInt(2*gasCreateFail), GasPrice)) < 0 {
					continue
				}
				e.codeVariant++
				f = signedTx(u, types.NewContractCreation(next, big.NewInt(0), gasCreateFail, nil, txgen.FailingCreationCode(pick%3, byte(e.codeVariant))))
			}
			if pick%2 == 0 {
				txs = append(base, f, CopyTx(f))
			} else {
				txs = append(base, f, u.Transfer(next+1, e.W.Sinks[0], big.NewInt(int64(1000+pick%50)), 0, nil), CopyTx(f))
			}
			break
		}
	case "nonce-gap":
		if u := e.richUser(pick); u != nil {
			f := e.freshRun(u, 3, pick)
			txs = append(base, f[0], f[2])
		}
	case "reorder":
		if u := e.richUser(pick); u != nil {
			f := e.freshRun(u, 2, pick)
			txs = append(base, f[1], f[0])
		}
	case "future-only":
		if u := e.richUser(pick); u != nil {
			f := e.freshRun(u, 2, pick)
			txs = append(base, f[1])
		}
	case "stale-fresh":
		for i := range e.W.Users {
			u := e.W.Users[(pick+i)%len(e.W.Users)]
			if c := e.committedNonce(u.Addr); c > 0 && e.remaining(u.Addr).Cmp(unitCost()) > 0 {
				txs = append(base, u.Transfer(c-1, e.W.Sinks[0], big.NewInt(int64(4000+pick%100)), 0, nil))
				break
			}
		}
	case "fund-future-only", "fund-nonce-gap", "fund-reorder", "fund-stale", "fund-dup-in-block", "fund-gap-after-transfer", "transfer-gap-after-fund":
		if e.U == nil {
			return ""
		}
		var u *User
		for i := range e.W.Users {
			x := e.W.Users[(pick+i)%len(e.W.Users)]
			if e.remaining(x.Addr).Cmp(lkCoins(3000)) >= 0 && (kind != "fund-stale" || e.committedNonce(x.Addr) > 0) {
				u = x
				break
			}
		}
		if u == nil {
			break
		}
		next := e.committedNonce(u.Addr) + uint64(len(e.offeredBy[u.Addr]))
		fund := func(n uint64, v int) types.Tx {
			tx, err := e.FundTx(u, n, []*Wallet{e.U.Wallets[(pick+v)%len(e.U.Wallets)]}, []*big.Int{lkCoins(int64(100 + (pick+v)%400))})
			if err != nil {
				return nil
			}
			return tx
		}
		plain := func(n uint64) types.Tx {
			return u.Transfer(n, e.W.Sinks[pick%len(e.W.Sinks)], big.NewInt(int64(5000+pick%1000)), 0, nil)
		}
		ahead := uint64(1 + pick%3)
		var add []types.Tx
		switch kind {
		case "fund-future-only":
			add = []types.Tx{fund(next+ahead, 0)}
		case "fund-nonce-gap":
			add = []types.Tx{fund(next, 0), fund(next+1+ahead, 1)}
		case "fund-reorder":
			add = []types.Tx{fund(next+1, 0), fund(next, 1)}
		case "fund-stale":
			add = []types.Tx{fund(e.committedNonce(u.Addr)-1, 0)}
		case "fund-dup-in-block":
			f := fund(next, 0)
			if f != nil {
				add = []types.Tx{f, CopyTx(f)}
			}
		case "fund-gap-after-transfer":
			add = []types.Tx{plain(next), fund(next+1+ahead, 0)}
		case "transfer-gap-after-fund":
			add = []types.Tx{fund(next, 0), plain(next + 1 + ahead)}
		}
		ok := len(add) > 0
		for _, x := range add {
			if x == nil {
				ok = false
			}
		}
		if ok {
			txs = append(base, add...)
		}
	case "fund-replay-earlier":
		var all []types.Tx
		for _, b := range e.W.Blocks {
			for _, tx := range b.Data.Txs {
				if ut, isU := tx.(*types.UTXOTransaction); isU && acctInput(ut) != nil {
					all = append(all, tx)
				}
			}
		}
		if len(all) > 0 {
			old := CopyTx(all[pick%len(all)])
			if pick%2 == 0 {
				txs = append(types.Txs{old}, base...)
			} else {
				txs = append(base, old)
			}
		}
	case "ki-multi-one-spent":
		if e.U == nil {
			return ""
		}
		for _, sp := range e.SpentOutputs() {
			for _, o := range e.unspent() {
				if o.Wallet != sp.Wallet || (o.KI != nil && inBase[*o.KI]) {
					continue
				}
				us := e.U
				pay := new(big.Int).Add(o.Amount, sp.Amount)
				pay.Sub(pay, us.FeeUU)
				pay.Sub(pay, lkCoins(2))
				ins := []*Owned{o, sp}
				if pick%2 == 0 {
					ins = []*Owned{sp, o}
				}
				if tx, err := e.SpendTx(us.Wallets[o.Wallet], ins, 1+pick%3, pay, us.Wallets[pick%len(us.Wallets)], nil, pick); err == nil {
					txs = append(base, tx)
				}
				break
			}
			if txs != nil {
				break
			}
		}
	case "ki-torsion-single", "ki-torsion-order4-single", "ki-torsion-cancel-fresh", "ki-torsion-cancel-respend":
		if tx := e.torsionSpend(kind, pick); tx != nil {
			txs = append(base, tx)
		}
	case "ki-two-txs", "ki-dup-in-tx":
		if e.U == nil {
			return ""
		}
		for _, o := range e.unspent() {
			if o.KI != nil && inBase[*o.KI] {
				continue
			}
			if kind == "ki-two-txs" {
				a, b := spendOf(o, 0), spendOf(o, 1)
				if a != nil && b != nil {
					txs = append(base, a, b)
				}
			} else {
				us := e.U
				pay := new(big.Int).Sub(new(big.Int).Mul(o.Amount, big.NewInt(2)), us.FeeUU)
				tx, err := e.SpendTx(us.Wallets[o.Wallet], []*Owned{o, o}, 1+pick%3, pay, us.Wallets[pick%len(us.Wallets)], nil, pick)
				if err == nil {
					txs = append(base, tx)
				}
			}
			break
		}
	case "ki-later":
		if e.U == nil {
			return ""
		}
		if o := e.byzTarget; o != nil {
			if tx := spendOf(o, 2); tx != nil {
				txs = append(base, tx)
			}
			break
		}
		for _, o := range e.U.Owned {
			if o.KI == nil {
				continue
			}
			if _, spent := e.U.KICommitted[*o.KI]; spent {
				if tx := spendOf(o, 2); tx != nil {
					txs = append(base, tx)
				}
				break
			}
		}
	case "ki-pool-rival":
		if e.U == nil {
			return ""
		}
		for _, o := range e.unspent() {
			if o.KI != nil && inBase[*o.KI] {
				if tx := spendOf(o, 3); tx != nil {
					if pick%2 == 0 {
						txs = append(types.Txs{tx}, base...)
					} else {
						txs = append(base, tx)
					}
				}
				break
			}
		}
	}
	if txs == nil {
		e.C.Probe("attack-no-material")
		return ""
	}
	b, _, _, panicked := e.W.Propose(0, txs, true)
	if b == nil {
		return ""
	}
	if !panicked {
		e.C.Probe("byz-proposer-executed-attack")
	}
	e.C.Fault("byz-block/" + kind)
	e.C.Evals(1)
	for _, who := range []string{"replica", "node"} {
		wb, _, err := e.W.Wire(b)
		if err != nil {
			e.C.HarnessTrouble("wire: %v", err)
			e.Stop()
			return ""
		}
		ch := e.W.Rep
		if who == "node" {
			ch = e.W.Chain
		}
		ch.RegisterRate()
		var ok bool
		site, msg, p := kernel.Try(func() { ok = ch.App.CheckBlock(wb) })
		e.W.Chain.RegisterRate()
		if p {
			e.Violate("panic", "panic/"+site, "CheckBlock of the %s panicked on a Byzantine block (%s): %s", who, kind, msg)
			return kind
		}
		if ok {
			e.Violate("byz-block-accepted", "byz-block-accepted/"+kind, "the %s's CheckBlock accepts a block that re-spends (%s): %s", who, kind, e.describe(b))
			return kind
		}
	}
	return kind
}

// WithdrawBlock commits another proposer's block whose only transaction is a
// full hidden -> account withdrawal (it creates no confidential output, so the
// block writes key images but no output records), lets 0-2 further blocks
// pass (empty, or from the node's mempool), and then tries to spend the same
// output again: through the mempool and in a Byzantine block; optionally the
// node is restarted in between. Returns "" when nothing is spendable.
func (e *Engine) WithdrawBlock(t *kernel.Tape) string {
	if e.U == nil {
		return ""
	}
	pick := t.Int(1 << 16)
	after := t.Int(3)
	emptyAfter := t.Bool(1, 2)
	restart := t.Bool(1, 4)
	cands := e.unspent()
	var pool []*Owned
	for _, o := range cands {
		if !e.hasOpenSpend(o) {
			pool = append(pool, o)
		}
	}
	if len(pool) == 0 {
		pool = cands
	}
	if len(pool) == 0 {
		e.C.Probe("attack-no-material")
		return ""
	}
	in := pool[pick%len(pool)]
	to := e.W.Sinks[pick%len(e.W.Sinks)]
	tx, err := e.SpendTx(e.U.Wallets[in.Wallet], []*Owned{in}, 1+pick%3, nil, nil, &to, pick)
	if err != nil {
		e.C.HarnessTrouble("full withdrawal: %v", err)
		e.Stop()
		return ""
	}
	m := e.noteSpend(e.record(nil, tx, "spendall"), []*Owned{in}, tx)
	m.External = true
	b, site, msg, panicked := e.W.Propose(0, types.Txs{CopyTx(tx)}, true)
	if panicked {
		e.C.HarnessTrouble("withdrawal block did not execute at %s: %s", site, msg)
		e.Stop()
		return ""
	}
	if e.commit(b, "external") == nil {
		return ""
	}
	e.C.Probe("block-only-outputless-spend")
	e.oracle(false)
	for i := 0; i < after && !e.Stopped(); i++ {
		if emptyAfter {
			eb, site, msg, panicked := e.W.Propose(0, types.Txs{}, true)
			if panicked {
				e.C.HarnessTrouble("empty block did not execute at %s: %s", site, msg)
				e.Stop()
				return ""
			}
			e.commit(eb, "external")
		} else if e.ProduceFromPool(e.W.MaxTxs()) == nil {
			break
		}
		e.oracle(false)
	}
	if e.Stopped() {
		return ""
	}
	if restart && !e.RestartNode(nil, false, "restart") {
		return ""
	}
	// the same output again, through the mempool ...
	pay := new(big.Int).Sub(in.Amount, e.U.FeeUU)
	pay.Sub(pay, lkCoins(int64(1+pick%5)))
	if pay.Cmp(lkCoins(1)) >= 0 {
		if rtx, err := e.SpendTx(e.U.Wallets[in.Wallet], []*Owned{in}, 1+pick%3, pay, e.U.Wallets[pick%len(e.U.Wallets)], nil, pick); err == nil {
			rm := e.noteSpend(e.record(nil, rtx, "respent"), []*Owned{in}, rtx)
			sub := e.Submit(rm, false, false)
			e.W.Finish(sub)
			e.collect()
			e.C.Evals(1)
			if e.Stopped() {
				return ""
			}
		}
	}
	// ... and in a block
	e.byzTarget = in
	e.ByzBlock("ki-later", t)
	e.byzTarget = nil
	return fmt.Sprintf("withdraw-all +%d blocks restart=%v", after, restart)
}

// torsionSpend builds a short-ring spend whose key images carry a small-order
// component. For the pair kinds the twist is the order-2 point on both inputs
// (the components cancel in the sum); the signatures are regenerated a few
// times because a ring signature over a twisted image verifies only when its
// challenge happens to kill the component. Every candidate is shown to the
// node's basic check and, if that lets it pass, to the mempool (must refuse);
// the last candidate (or the first admitted one) goes into the Byzantine block.
func (e *Engine) torsionSpend(kind string, pick int) types.Tx {
	us := e.U
	if us == nil {
		return nil
	}
	unspent := e.unspent()
	var ins []*Owned
	twist := torsion2
	attempts := 1
	switch kind {
	case "ki-torsion-single", "ki-torsion-order4-single":
		if len(unspent) == 0 {
			return nil
		}
		ins = []*Owned{unspent[pick%len(unspent)]}
		if kind == "ki-torsion-order4-single" {
			twist = torsion4
		}
		attempts = 2
	case "ki-torsion-cancel-fresh":
		for _, a := range unspent {
			for _, b := range unspent {
				if a != b && a.Wallet == b.Wallet && ins == nil {
					ins = []*Owned{a, b}
				}
			}
		}
		attempts = 6
	case "ki-torsion-cancel-respend":
		for _, sp := range e.SpentOutputs() {
			for _, b := range unspent {
				if b.Wallet == sp.Wallet && ins == nil {
					ins = []*Owned{sp, b}
					if pick%2 == 0 {
						ins = []*Owned{b, sp}
					}
				}
			}
		}
		attempts = 8
	}
	if ins == nil {
		return nil
	}
	sum := new(big.Int)
	for _, o := range ins {
		sum.Add(sum, o.Amount)
	}
	pay := new(big.Int).Sub(sum, us.FeeUU)
	pay.Sub(pay, lkCoins(int64(1+pick%5)))
	if pay.Cmp(lkCoins(1)) < 0 {
		return nil
	}
	var last types.Tx
	for i := 0; i < attempts; i++ {
		e.twist = &twist
		tx, err := e.SpendTx(us.Wallets[ins[0].Wallet], ins, 1, pay, us.Wallets[(pick+i)%len(us.Wallets)], nil, pick)
		e.twist = nil
		if err != nil {
			e.C.Probe("torsion-not-constructible")
			return last
		}
		last = tx
		var berr error
		e.W.Chain.RegisterRate()
		if site, msg, p := kernel.Try(func() { berr = e.W.Chain.App.CheckTx(CopyTx(tx), true) }); p {
			e.Violate("panic", "panic/"+site, "the basic check panicked on a transaction with a twisted key image: %s", msg)
			return nil
		}
		e.C.Evals(1)
		if berr != nil {
			continue
		}
		// the basic check let it pass: the mempool is the next boundary
		e.C.Probe("torsion-passed-basic-check")
		m := e.record(nil, tx, "kitorsion")
		m.Ins = ins
		sub := e.Submit(m, false, false)
		e.W.Finish(sub)
		e.collect()
		if e.Stopped() {
			return nil
		}
		return tx
	}
	return last
}
