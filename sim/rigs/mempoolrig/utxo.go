package mempoolrig

import (
	"encoding/binary"
	"fmt"
	"math/big"
	"sync"

	"github.com/lianxiangcloud/linkchain/libs/common"
	"github.com/lianxiangcloud/linkchain/libs/crypto"
	lk "github.com/lianxiangcloud/linkchain/libs/cryptonote/types"
	"github.com/lianxiangcloud/linkchain/libs/cryptonote/xcrypto"
	"github.com/lianxiangcloud/linkchain/libs/ser"
	"github.com/lianxiangcloud/linkchain/types"

	"verif/sim/ed25519x"
	"verif/sim/kernel"
)

// Confidential (UTXO) transactions of the native coin, built with linkchain's
// own wallet-side code (types.NewAinTransaction / NewUinTransaction /
// UInTransWithRctSig) on the pure-Go xcrypto model, after the worked example
// verif/sim/xcryptotest/e2e_test.go.

var (
	utxoOnce  sync.Once
	utxoReady bool
)

// UtxoReady reports whether the xcrypto stand-in can do curve arithmetic (the
// early stub panicked on every call).
func UtxoReady() bool {
	utxoOnce.Do(func() {
		defer func() {
			if r := recover(); r != nil {
				utxoReady = false
			}
		}()
		var one lk.Key
		one[0] = 1
		utxoReady = xcrypto.ScalarmultBase(one) != (lk.Key{})
	})
	return utxoReady
}

// drbg: Keccak in counter mode over 32 tape bytes; the model's randomness (tx
// keys, masks, signature nonces) becomes a function of the tape and stays
// non-degenerate when a shrunk tape serves zeros.
type drbg struct {
	seed []byte
	ctr  uint64
	buf  []byte
}

func (d *drbg) Read(p []byte) (int, error) {
	for i := range p {
		if len(d.buf) == 0 {
			var c [8]byte
			binary.LittleEndian.PutUint64(c[:], d.ctr)
			d.ctr++
			d.buf = crypto.Keccak256([]byte("mp-drbg"), d.seed, c[:])
		}
		p[i] = d.buf[0]
		d.buf = d.buf[1:]
	}
	return len(p), nil
}

func seedCrypto(t *kernel.Tape) {
	if UtxoReady() {
		xcrypto.SetRand(&drbg{seed: t.Bytes(32)})
	}
}

// Wallet is one confidential wallet (main address only).
type Wallet struct {
	Idx      int
	Acc      lk.AccountKey
	KeyIndex map[lk.PublicKey]uint64
}

var walletCache = map[int]*Wallet{}

func walletKey(i int) *Wallet {
	if w, ok := walletCache[i]; ok {
		return w
	}
	seed := crypto.Keccak256([]byte(fmt.Sprintf("verif-mp-wallet-%d", i)))
	var rk lk.SecretKey
	copy(rk[:], seed)
	rk[31] &= 0x0f
	rk[0] |= 1
	ssk, spk := xcrypto.GenerateKeys(rk)
	var vrk lk.SecretKey
	copy(vrk[:], crypto.Keccak256(ssk[:]))
	vrk[31] &= 0x0f
	vrk[0] |= 1
	vsk, vpk := xcrypto.GenerateKeys(vrk)
	w := &Wallet{Idx: i, KeyIndex: map[lk.PublicKey]uint64{}}
	w.Acc = lk.AccountKey{Addr: lk.AccountAddress{SpendPublicKey: spk, ViewPublicKey: vpk}, SpendSKey: ssk, ViewSKey: vsk}
	w.KeyIndex[spk] = 0
	walletCache[i] = w
	return w
}

// Owned is a confidential output a wallet can spend.
type Owned struct {
	ID       int
	Wallet   int
	Global   uint64 // index in the chain's output sequence of the native coin
	RKey     lk.PublicKey
	OutIndex uint64
	Amount   *big.Int
	Mask     lk.Key
	OTAddr   lk.Key
	Commit   lk.Key
	Height   uint64
	KI       *lk.Key // known once a spend has been built
	Spends   []*MTx  // every spend the generator built for it
}

// UtxoState is the engine's confidential side.
type UtxoState struct {
	Wallets []*Wallet
	Owned   []*Owned
	NextSeq uint64 // next global output index (native coin), from committed blocks
	// KICommitted: key image -> hash of the first committed transaction carrying it
	KICommitted map[lk.Key]common.Hash
	Unit        *big.Int
	FeeUU       *big.Int // fee of a hidden -> hidden transaction
}

func newUtxoState(nWallets int) *UtxoState {
	u := &UtxoState{KICommitted: map[lk.Key]common.Hash{}, Unit: big.NewInt(types.UTXO_COMMITMENT_CHANGE_RATE)}
	for i := 0; i < nWallets; i++ {
		u.Wallets = append(u.Wallets, walletKey(i))
	}
	u.FeeUU = new(big.Int).Mul(types.DefaultCoefficient().UTXOFee, big.NewInt(types.ParGasPrice))
	return u
}

func lkCoins(n int64) *big.Int { return new(big.Int).Mul(big.NewInt(n), big.NewInt(1e18)) }

// wireUTXO returns the transaction as it travels: encoded and decoded.
func wireUTXO(tx *types.UTXOTransaction) (*types.UTXOTransaction, error) {
	bz, err := ser.EncodeToBytes(tx)
	if err != nil {
		return nil, err
	}
	cp := new(types.UTXOTransaction)
	if err := ser.DecodeBytes(bz, cp); err != nil {
		return nil, err
	}
	return cp, nil
}

// scan plays the receiving wallet: the outputs of tx that belong to w, with
// amount and mask decoded and checked against the commitment.
func scanOutputs(w *Wallet, tx *types.UTXOTransaction, unit *big.Int) ([]*Owned, error) {
	rkeys := append([]lk.PublicKey{tx.RKey}, tx.AddKeys...)
	var deriv []lk.KeyDerivation
	var derivKey []lk.PublicKey
	for _, rk := range rkeys {
		d, err := xcrypto.GenerateKeyDerivation(rk, w.Acc.ViewSKey)
		if err == nil {
			deriv = append(deriv, d)
			derivKey = append(derivKey, rk)
		}
	}
	var res []*Owned
	n := uint64(0)
	for _, out := range tx.Outputs {
		uo, ok := out.(*types.UTXOOutput)
		if !ok {
			continue
		}
		idx := n
		n++
		d, _, err := types.IsOutputBelongToAccount(&w.Acc, w.KeyIndex, uo.OTAddr, deriv, idx)
		if err != nil {
			continue
		}
		scalar, err := xcrypto.DerivationToScalar(d, int(idx))
		if err != nil {
			return nil, err
		}
		tup := tx.RCTSig.EcdhInfo[idx]
		if !xcrypto.EcdhDecode(&tup, lk.Key(scalar), false) {
			return nil, fmt.Errorf("EcdhDecode failed")
		}
		var rk lk.PublicKey
		for i := range deriv {
			if deriv[i] == d {
				rk = derivKey[i]
			}
		}
		res = append(res, &Owned{Wallet: w.Idx, RKey: rk, OutIndex: idx, Amount: new(big.Int).Mul(types.Hash2BigInt(tup.Amount), unit),
			Mask: tup.Mask, OTAddr: uo.OTAddr, Commit: tx.RCTSig.OutPk[idx].Mask})
	}
	return res, nil
}

// FundTx builds account -> hidden: the user pays amounts to wallets (one
// output each) plus the fee the chain demands for the shape.
func (e *Engine) FundTx(u *User, nonce uint64, to []*Wallet, amounts []*big.Int) (*types.UTXOTransaction, error) {
	total := new(big.Int)
	var ds []types.DestEntry
	for i, w := range to {
		ds = append(ds, &types.UTXODestEntry{Addr: w.Acc.Addr, Amount: new(big.Int).Set(amounts[i])})
		total.Add(total, amounts[i])
	}
	fee := new(big.Int).Mul(new(big.Int).SetUint64(types.CalNewAmountGas(total, types.EverLiankeFee)), big.NewInt(types.ParGasPrice))
	src := &types.AccountSourceEntry{From: u.Addr, Nonce: nonce, Amount: new(big.Int).Add(total, fee)}
	var tx *types.UTXOTransaction
	var err error
	site, msg, panicked := kernel.Try(func() { tx, _, err = types.NewAinTransaction(src, ds, common.EmptyAddress, nil) })
	if panicked {
		return nil, fmt.Errorf("NewAinTransaction panicked at %s: %s", site, msg)
	}
	if err != nil {
		return nil, err
	}
	if err := tx.Sign(types.GlobalSTDSigner, u.Priv); err != nil {
		return nil, err
	}
	return wireUTXO(tx)
}

// SpendTx builds hidden -> (hidden | account): ins are spent with rings of
// ringSize members taken from the chain's output index; pay goes to dest (a
// wallet when toAcct is nil), the rest minus the fee returns to the spender.
func (e *Engine) SpendTx(w *Wallet, ins []*Owned, ringSize int, pay *big.Int, toWallet *Wallet, toAcct *common.Address, pick int) (*types.UTXOTransaction, error) {
	us := e.U
	inSum := new(big.Int)
	var sources []*types.UTXOSourceEntry
	for _, in := range ins {
		inSum.Add(inSum, in.Amount)
		src := &types.UTXOSourceEntry{RKey: in.RKey, OutIndex: in.OutIndex, Amount: new(big.Int).Set(in.Amount), Mask: in.Mask}
		// ring: ringSize consecutive global indices around the real one
		n := uint64(ringSize)
		if n > us.NextSeq {
			n = us.NextSeq
		}
		if n < 1 {
			n = 1
		}
		lo := uint64(0)
		if in.Global+1 > n {
			lo = in.Global + 1 - n
		}
		if shift := uint64(pick) % n; lo+shift+n <= us.NextSeq && lo+shift <= in.Global {
			lo += shift
		}
		for g := lo; g < lo+n; g++ {
			o, err := e.W.Chain.UtxoStore.GetUtxoOutput(common.EmptyAddress, g)
			if err != nil {
				return nil, fmt.Errorf("ring member %d: %v", g, err)
			}
			src.Ring = append(src.Ring, types.UTXORingEntry{Index: g, OTAddr: o.OTAddr, Commit: o.Commit})
			if g == in.Global {
				src.RingIndex = uint64(len(src.Ring) - 1)
				if o.OTAddr != in.OTAddr {
					return nil, fmt.Errorf("output %d on chain is not the wallet's output", g)
				}
			}
		}
		sources = append(sources, src)
	}
	var dests []types.DestEntry
	fee := new(big.Int)
	if toAcct != nil && pay == nil {
		// full withdrawal: everything but the fee goes to the account, NO
		// confidential output is created (no change)
		fee.Mul(new(big.Int).SetUint64(types.CalNewAmountGas(inSum, types.EverLiankeFee)), big.NewInt(types.ParGasPrice))
		pay = new(big.Int).Sub(inSum, fee)
		if pay.Cmp(us.Unit) < 0 {
			return nil, fmt.Errorf("inputs do not cover the fee")
		}
		dests = append(dests, &types.AccountDestEntry{To: *toAcct, Amount: pay})
		return e.signSpend(w, sources, dests)
	}
	if toAcct != nil {
		dests = append(dests, &types.AccountDestEntry{To: *toAcct, Amount: new(big.Int).Set(pay)})
		fee.Mul(new(big.Int).SetUint64(types.CalNewAmountGas(pay, types.EverLiankeFee)), big.NewInt(types.ParGasPrice))
	} else {
		dests = append(dests, &types.UTXODestEntry{Addr: toWallet.Acc.Addr, Amount: new(big.Int).Set(pay)})
		fee.Set(us.FeeUU)
	}
	change := new(big.Int).Sub(inSum, pay)
	if toAcct != nil && change.Cmp(fee) > 0 {
		// a hidden change output makes it a confidential transaction as well
		fee.Add(fee, us.FeeUU)
	}
	change.Sub(change, fee)
	if change.Sign() < 0 {
		return nil, fmt.Errorf("inputs do not cover pay+fee")
	}
	if change.Sign() > 0 {
		dests = append(dests, &types.UTXODestEntry{Addr: w.Acc.Addr, Amount: change, IsChange: true})
	}
	return e.signSpend(w, sources, dests)
}

func (e *Engine) signSpend(w *Wallet, sources []*types.UTXOSourceEntry, dests []types.DestEntry) (*types.UTXOTransaction, error) {
	var tx *types.UTXOTransaction
	var err error
	site, msg, panicked := kernel.Try(func() {
		var ephs []*types.UTXOInputEphemeral
		var mkeys lk.KeyV
		tx, ephs, mkeys, _, err = types.NewUinTransaction(&w.Acc, w.KeyIndex, sources, dests, common.EmptyAddress, common.EmptyAddress, nil)
		if err != nil {
			return
		}
		if tw := e.twist; tw != nil {
			// adversarial: every key image gets a small-order component before
			// the (short-ring) signatures are made over it
			for i := range ephs {
				var twisted lk.Key
				if twisted, err = xcrypto.AddKeys(ephs[i].KeyImage, *tw); err != nil {
					return
				}
				ephs[i].KeyImage = twisted
				tx.Inputs[i].(*types.UTXOInput).KeyImage = twisted
			}
		}
		err = types.UInTransWithRctSig(tx, sources, ephs, dests, mkeys)
	})
	if panicked {
		return nil, fmt.Errorf("wallet code panicked at %s: %s", site, msg)
	}
	if err != nil {
		return nil, err
	}
	return wireUTXO(tx)
}

// keyImages returns the key images of a transaction (nil for other kinds).
func keyImages(tx types.Tx) []lk.Key {
	ut, ok := tx.(*types.UTXOTransaction)
	if !ok {
		return nil
	}
	var out []lk.Key
	for _, k := range ut.GetInputKeyImages() {
		out = append(out, *k)
	}
	return out
}

// acctInput returns the account input of a confidential transaction.
func acctInput(ut *types.UTXOTransaction) *types.AccountInput {
	for _, in := range ut.Inputs {
		if ai, ok := in.(*types.AccountInput); ok {
			return ai
		}
	}
	return nil
}

// AcctPart is the account side of a transaction: who pays, at which nonce,
// how much at most. ok=false for transactions without an account input.
func AcctPart(tx types.Tx) (from common.Address, nonce uint64, cost *big.Int, ok bool) {
	switch t := tx.(type) {
	case *types.Transaction:
		f, err := t.From()
		if err != nil {
			return from, 0, nil, false
		}
		return f, t.Nonce(), Cost(t), true
	case *types.UTXOTransaction:
		ai := acctInput(t)
		if ai == nil {
			return from, 0, nil, false
		}
		f, err := t.From()
		if err != nil {
			return from, 0, nil, false
		}
		return f, ai.Nonce, new(big.Int).Set(ai.Amount), true
	}
	return from, 0, nil, false
}

// applyUTXO books a committed confidential transaction into the ledger.
func (l *Ledger) applyUTXO(ut *types.UTXOTransaction) {
	if ai := acctInput(ut); ai != nil {
		if f, err := ut.From(); err == nil {
			a := l.Get(f)
			a.Nonce++
			a.Balance = new(big.Int).Sub(a.Balance, ai.Amount)
		}
	}
	for _, out := range ut.Outputs {
		if ao, ok := out.(*types.AccountOutput); ok {
			b := l.Get(ao.To)
			b.Balance = new(big.Int).Add(b.Balance, ao.Amount)
		}
	}
}

// noteUtxoCommitted updates the confidential model from a committed block:
// key images, the output sequence, and the wallets' new outputs.
func (e *Engine) noteUtxoCommitted(b *types.Block) {
	us := e.U
	if us == nil {
		return
	}
	for _, tx := range b.Data.Txs {
		ut, ok := tx.(*types.UTXOTransaction)
		if !ok || ut.TokenID != common.EmptyAddress {
			continue
		}
		for _, k := range keyImages(ut) {
			if _, dup := us.KICommitted[k]; !dup {
				us.KICommitted[k] = ut.Hash()
			}
		}
		first := us.NextSeq
		nOut := uint64(0)
		for _, out := range ut.Outputs {
			if _, ok := out.(*types.UTXOOutput); ok {
				nOut++
			}
		}
		us.NextSeq += nOut
		for _, w := range us.Wallets {
			found, err := scanOutputs(w, ut, us.Unit)
			if err != nil {
				e.C.HarnessTrouble("wallet scan: %v", err)
				e.Stop()
				return
			}
			for _, o := range found {
				o.ID = len(us.Owned)
				o.Global = first + o.OutIndex
				o.Height = b.Height
				us.Owned = append(us.Owned, o)
			}
		}
	}
}

// ---------------------------------------------------------------- the rig's own key-image canonicality rule

// groupOrderL is the order l of the prime-order subgroup, little endian.
var groupOrderL = [32]byte{0xed, 0xd3, 0xf5, 0x5c, 0x1a, 0x63, 0x12, 0x58, 0xd6, 0x9c, 0xf7, 0xa2, 0xde, 0xf9, 0xde, 0x14, 0, 0, 0, 0, 0, 0, 0, 0, 0, 0, 0, 0, 0, 0, 0, 0x10}

// KeyImageClass judges a key image with the rig's own curve code
// (verif/sim/ed25519x): whether it lies in the prime-order subgroup (l*I is
// the identity) and its cofactor-cleared form 8*I, under which two key images
// that differ only by a small-order component are the same spend.
func KeyImageClass(k lk.Key) (prime bool, cleared [32]byte, err error) {
	var p ed25519x.Point
	if _, err = p.SetBytesMonero(k[:]); err != nil {
		return false, cleared, err
	}
	var lp, c ed25519x.Point
	lp.VarTimeScalarMultInt(&groupOrderL, &p)
	c.MultByCofactor(&p)
	return lp.IsIdentity(), c.Bytes32(), nil
}

// Small-order points of edwards25519 used as twists.
var (
	torsion2 = lk.Key{0xec, 0xff, 0xff, 0xff, 0xff, 0xff, 0xff, 0xff, 0xff, 0xff, 0xff, 0xff, 0xff, 0xff, 0xff, 0xff, 0xff, 0xff, 0xff, 0xff, 0xff, 0xff, 0xff, 0xff, 0xff, 0xff, 0xff, 0xff, 0xff, 0xff, 0xff, 0x7f} // (0,-1), order 2
	torsion4 = lk.Key{}                                                                                                                                                                                               // (sqrt(-1), 0), order 4
)
