package mempoolrig

import (
	"time"

	"github.com/lianxiangcloud/linkchain/libs/log"

	"verif/sim/kernel"
)

func init() {
	log.Root().SetHandler(log.DiscardHandler())
	kernel.Register(&kernel.Rig{
		Property: "C15", Name: "R-chain/mempool-scheduler", Level: "exploration",
		Rule: "one run = one drawn chain (2-6 accounts rich/poor/empty with genesis nonces 0-3, 1-3 validators, trie or kv state; in 2/5 of the runs 2-3 confidential wallets funded by a first block) x one mempool configuration (Size/FutureSize/MaxReapSize/UTXOSize/AccountQueue small or default, dedup cache on in 1/5, future eviction on in 1/4) x one tape-decided interleaving of 40-320 steps: start a client AddTx (valid next nonce, future nonce, consumed nonce, rival with a pending nonce, re-delivery of known bytes, underfunded, oversized, illegal gas; confidential: account->hidden funding, hidden->hidden and hidden->account spends with rings of 1-3, a rival spend of an output that has a pending spend, the same output twice in one transaction), release one client parked between the dedup-cache put and the pool lock (before and/or after the basic check), Reap(k), build+commit a block from the node's own mempool (full or capped reap) or another proposer's block (per-sender prefixes of the offer, a subset of the offered spends, never-submitted gap fillers/rivals/in-flight transactions, never-seen rival spends), advance the virtual clock (past the age limits in 1/6 of the runs); the offer invariant is evaluated after every step, the execute-the-offer oracle (CreateBlock+PreRunBlock on the node, CheckBlock on an independent replica) on 1/8-1/2 of the steps and on every produced block; non-trivial = >= 2 blocks and >= 3 committed transactions; distinct = per-block committed sets + final ledger",
		Real: []string{"mempool.Mempool (AddTx, Reap, Update, promoteExecutables, eviction loop, key-image cache, tx cache with its expiry routines)", "app.LinkApplication (CheckTx basic/state against checkTxState, CreateBlock, PreRunBlock, CheckBlock, CommitBlock incl. mempool Lock/KeyImageReset/Update/Unlock)", "consensus.BlockExecutor.ApplyBlock + validateBlock", "state.StateDB (trie and kv mode)", "blockchain.BlockStore, txmgr, utxo.UtxoStore", "types.Transaction signing/recovery (cgo secp256k1)", "types.UTXOTransaction wallet-side construction and node-side verification (on the xcrypto stand-in)"},
		Stub: []string{"consensus rounds (the producer builds the proposal block the way createProposalBlock does, wires it through a part set, signs all precommits itself and runs the finalizeCommit sequence)", "p2p switch", "storage engine (SimDB)", "libxcrypto (pure-Go model)"},
		Assumptions: []string{
			"one goroutine runs between two quiescence points: interleavings are explored at the granularity {dedup-cache put | basic check | locked section} of AddTx against whole Reap/Update calls",
			"promotion/offer-completeness is demanded only for transactions that the independent ledger shows contiguous from the committed nonce and covered (spends: no key image spent on chain or shared with another accepted spend), younger than mempool.GoodTxDropTime/Lifetime, while the offer is below Size, MaxReapSize and UTXOSize, not demoted under a small FutureSize and not beyond AccountQueue",
			"tight-limit runs let only one account at a time own future-queue entries (the node promotes accounts in Go map order; who gets the last free slot is not reproducible otherwise): enforced when a client's final phase is released — a restriction of the explored space, not of the oracle",
			"only the native coin is moved (plain transfers and confidential transactions); token, contract and multi-signature transactions are not generated",
		},
		QuickRuns: 5000, QuickBudget: 50 * time.Second, ThoroughRuns: 40000, ThoroughBudget: 15 * time.Minute,
		RunsPerProcess: 60, RunTimeout: 90 * time.Second,
		Run: func(c *kernel.Ctx) { Run(c, Options{Prop: "C15", Liveness: true}) },
	})
}
