package mempoolrig

import (
	"fmt"
	"math/big"
	"os"
	"sort"

	"github.com/lianxiangcloud/linkchain/libs/common"
	lk "github.com/lianxiangcloud/linkchain/libs/cryptonote/types"
	"github.com/lianxiangcloud/linkchain/types"

	"verif/sim/kernel"
)

// reapAll asks the mempool for everything it would hand to a proposer.
func (e *Engine) reapAll() types.Txs {
	return e.W.Chain.Mempool.Reap(1 << 30)
}

func senderOf(tx types.Tx) (common.Address, bool) {
	from, err := tx.From()
	if err != nil {
		return common.Address{}, false
	}
	return from, true
}

// refreshOffer re-reads the full offer and indexes it per sender.
func (e *Engine) refreshOffer() {
	e.offered = e.reapAll()
	e.offeredBy = map[common.Address][]types.Tx{}
	e.offeredPure = nil
	for _, tx := range e.offered {
		if from, _, _, ok := AcctPart(tx); ok {
			e.offeredBy[from] = append(e.offeredBy[from], tx)
		} else {
			e.offeredPure = append(e.offeredPure, tx)
		}
	}
}

// checkOffer is the safety half of C15 on one offer (a reap result or the
// transactions CreateBlock put into a block): pairwise distinct, nothing
// committed, only transactions the mempool accepted, per sender a gap-free
// nonce run from the committed nonce whose cumulative cost the committed
// balance covers.
func (e *Engine) checkOffer(txs types.Txs, what string, full bool) {
	seen := map[common.Hash]bool{}
	kiSeen := map[lk.Key]types.Tx{}
	next := map[common.Address]uint64{}
	spent := map[common.Address]*big.Int{}
	for i, tx := range txs {
		h := tx.Hash()
		if seen[h] {
			e.Violate("offer-duplicate", "offer-duplicate", "%s offers %s twice (position %d)", what, e.txLabel(tx), i)
			return
		}
		seen[h] = true
		if ht, ok := e.W.Committed[h]; ok {
			e.Violate("offer-committed", "offer-committed", "%s offers %s which was committed at height %d", what, e.txLabel(tx), ht)
			return
		}
		if !e.everAcc[h] {
			e.Violate("offer-unaccepted", "offer-unaccepted", "%s offers %s for which no AddTx call has returned nil", what, e.txLabel(tx))
			return
		}
		for _, k := range keyImages(tx) {
			if other, dup := kiSeen[k]; dup {
				e.Violate("offer-key-image", "offer-key-image/shared", "%s offers %s and %s which carry the same key image %s", what, e.txLabel(other), e.txLabel(tx), kiLabel([]lk.Key{k}))
				return
			}
			kiSeen[k] = tx
			if e.U != nil {
				if h, spent := e.U.KICommitted[k]; spent {
					e.Violate("offer-key-image", "offer-key-image/spent", "%s offers %s whose key image %s is already spent on chain (by %s)", what, e.txLabel(tx), kiLabel([]lk.Key{k}), short(h))
					return
				}
			}
		}
		from, nonce, cost, ok := AcctPart(tx)
		if !ok {
			if _, isU := tx.(*types.UTXOTransaction); !isU {
				e.Violate("offer-unsigned", "offer-unsigned", "%s offers %s whose sender cannot be recovered", what, e.txLabel(tx))
				return
			}
			continue
		}
		want, started := next[from]
		if !started {
			want = e.committedNonce(from)
			spent[from] = new(big.Int)
		}
		if nonce != want {
			kind := "gap"
			if nonce < want {
				kind = "stale-or-repeated-nonce"
			}
			e.Violate("offer-nonce", "offer-nonce/"+kind, "%s offers %s at position %d but the sender's next executable nonce there is %d (committed nonce %d)", what, e.txLabel(tx), i, want, e.committedNonce(from))
			return
		}
		next[from] = want + 1
		spent[from].Add(spent[from], cost)
		if bal := e.W.Led.Get(from).Balance; spent[from].Cmp(bal) > 0 {
			e.Violate("offer-uncovered", "offer-uncovered", "%s offers %s at position %d: cumulative cost %v of the sender's offered run exceeds its committed balance %v", what, e.txLabel(tx), i, spent[from], bal)
			return
		}
	}
}

// prune removes from the live model what the node may legitimately have
// dropped: consumed nonces, transactions older than an age limit, and
// transactions that are not covered by the balance at their turn.
func (e *Engine) prune() {
	now := e.now()
	mc := e.W.Cfg.Mem
	for _, u := range e.W.Users {
		a := u.Addr
		c := e.committedNonce(a)
		for _, n := range e.sortedNonces(a) {
			for _, m := range append([]*MTx(nil), e.live[a][n]...) {
				age := now - m.AcceptedAt
				codeChanged := false
				if t, ok := m.Tx.(*types.Transaction); ok && t.To() != nil {
					codeChanged = e.hasCode(*t.To()) != m.ToCode
				}
				switch {
				case n < c:
					e.dropLive(m)
				case codeChanged:
					// the gas rule it was admitted under no longer applies: the
					// node may (should) have dropped it
					e.C.Probe("invalidated-code-changed")
					e.dropLive(m)
				case age >= e.dropGood:
					e.C.Probe("excused-age-good")
					e.dropLive(m)
				case mc.RemoveFutureTx && age >= mc.Lifetime:
					e.C.Probe("excused-age-future")
					e.dropLive(m)
				}
			}
		}
		if mc.RemoveFutureTx {
			// the per-account queue cap may drop the highest nonces of what
			// the node has queued for this account
			if fs := e.futureSet(a); len(fs) > mc.AccountQueue {
				for _, m := range fs[mc.AccountQueue:] {
					if m.Accepted {
						e.C.Probe("excused-account-queue")
						e.dropLive(m)
					}
				}
			}
		}
	}
}

// run computes, for sender a, the transactions that must be on offer now: the
// live accepted ones walked from the committed nonce while contiguous and
// cumulatively covered. The first uncovered one is invalidated (pruned).
func (e *Engine) mustOffer(a common.Address) (run []*MTx, ambiguous bool) {
	n := e.committedNonce(a)
	bal := new(big.Int).Set(e.W.Led.Get(a).Balance)
	for {
		l := e.live[a][n]
		if len(l) == 0 {
			return run, false
		}
		if len(l) > 1 {
			return run, true
		}
		m := l[0]
		if bal.Cmp(m.Cost) < 0 {
			e.C.Probe("invalidated-uncovered")
			m.Uncovered = true
			e.dropLive(m)
			return run, false
		}
		bal.Sub(bal, m.Cost)
		run = append(run, m)
		n++
	}
}

// oracle runs after every step at quiescence.
func (e *Engine) oracle(heavy bool) {
	if e.Stopped() {
		return
	}
	before := map[common.Hash]bool{}
	for _, tx := range e.offered {
		before[tx.Hash()] = true
	}
	e.refreshOffer()
	e.C.Evals(1)
	if debugPool {
		_, pend, q := e.W.Chain.Mempool.Stats()
		lab := ""
		for _, tx := range e.offered {
			lab += " " + e.txLabel(tx)
		}
		e.Tracef("  pool: pending=%d queued=%d offer:%s", pend, q, lab)
	}
	e.checkOffer(e.offered, "Reap(all)", true)
	if e.Stopped() {
		return
	}
	e.heldCleanup(e.sinceCommit, false)
	e.sinceCommit = false
	e.prune()
	mc := e.W.Cfg.Mem

	// demotion under a small future queue may legitimately lose transactions:
	// what may sit in the executable list (seen on offer, or accepted while the
	// offer is cut by MaxReapSize so that the list's tail is invisible), is
	// still live, is not on offer and is not something the model demands
	off := map[common.Hash]bool{}
	for _, tx := range e.offered {
		off[tx.Hash()] = true
	}
	if mc.FutureSize < 1000 {
		truncated := len(e.offered) >= mc.MaxReapSize
		var cand []*MTx
		for _, u := range e.W.Users {
			for _, n := range e.sortedNonces(u.Addr) {
				for _, m := range e.live[u.Addr][n] {
					if off[m.Hash] || truncated {
						m.MaybeGood = true
					}
					if m.MaybeGood && !off[m.Hash] {
						cand = append(cand, m)
					}
				}
			}
		}
		for _, m := range cand {
			if !m.Accepted {
				continue
			}
			// keep it only if the model says it must still be on offer
			must, _ := e.mustOffer(m.From)
			in := false
			for _, x := range must {
				if x == m {
					in = true
				}
			}
			if !in && m.Accepted {
				e.C.Probe("excused-demoted")
				e.dropLive(m)
			}
		}
	}
	_ = before

	goodOffered, utxoTypedGood := 0, 0
	for _, l := range e.offeredBy {
		goodOffered += len(l)
		for _, tx := range l {
			if tx.TypeName() == types.TxUTXO {
				utxoTypedGood++
			}
		}
	}
	full := goodOffered >= mc.Size || len(e.offered) >= mc.MaxReapSize || utxoTypedGood >= mc.UTXOSize
	if full {
		e.C.Probe("pool-full")
	}
	type demand struct {
		must []*MTx
		amb  bool
	}
	demands := make([]demand, len(e.W.Users))
	for i, u := range e.W.Users {
		demands[i].must, demands[i].amb = e.mustOffer(u.Addr)
	}
	// Blind spots: a transaction the node may still hold but the model no
	// longer follows (excused for age, a limit, a code change; or found
	// uncovered but payable by now) hides what the node does with its
	// successors at a promotion (it may drop one as uncovered at that moment).
	// Nothing above such a transaction is demanded.
	for i, u := range e.W.Users {
		a := u.Addr
		c := e.committedNonce(a)
		bal := e.W.Led.Get(a).Balance
		blind, has := uint64(0), false
		for _, x := range e.held[a] {
			if x.Accepted || x.Nonce < c || e.isCommitted(x) {
				continue
			}
			if x.Uncovered && bal.Cmp(x.Cost) < 0 {
				continue // certainly still uncovered: the node cannot get past it either
			}
			if !has || x.Nonce < blind {
				blind, has = x.Nonce, true
			}
		}
		if !has {
			continue
		}
		changed := false
		for _, n := range e.sortedNonces(a) {
			if n <= blind {
				continue
			}
			for _, m := range append([]*MTx(nil), e.live[a][n]...) {
				e.C.Probe("excused-above-blind-spot")
				e.dropLive(m)
				changed = true
			}
		}
		if changed {
			demands[i].must, demands[i].amb = e.mustOffer(a)
		}
	}
	// what queues behind a transaction the node still holds although it was
	// uncovered at its turn is exposed to the promotion loop's treatment of a
	// failed member (see the known finding)
	for _, u := range e.W.Users {
		fs := e.futureSet(u.Addr)
		for _, x := range fs {
			if !x.Uncovered {
				continue
			}
			for _, y := range fs {
				if y.Nonce > x.Nonce {
					y.BehindFailed = true
				}
			}
		}
		if len(fs) > 0 {
			e.C.Probe("future-queue-nonempty")
		}
	}
	e.heldCleanup(false, true)
	for i := range e.W.Users {
		if demands[i].amb {
			e.C.Probe("ambiguous-same-nonce")
			continue
		}
		if !e.Opt.Liveness {
			continue
		}
		for _, m := range demands[i].must {
			if off[m.Hash] {
				continue
			}
			if full {
				e.C.Probe("excused-pool-full")
				break
			}
			key := "executable-not-offered"
			if m.BehindFailed {
				key += "/behind-failed-promotion"
			}
			if !e.Violate("not-offered", key, "u%d nonce %d (%s) was accepted %dms ago, is contiguous from the committed nonce %d, covered by the balance, no size or age limit is in reach (offer %d of size %d, live %d of future %d), yet Reap does not offer it", m.User, m.Nonce, short(m.Hash), (e.now() - m.AcceptedAt).Milliseconds(), e.committedNonce(m.From), len(e.offered), mc.Size, e.liveCount(), mc.FutureSize) {
				// listed finding: the node has lost it; go on without it
				e.dropLive(m)
				delete(e.held[m.From], m.Hash)
				break
			}
			return
		}
	}
	e.pureDemands(off)
	if e.Stopped() {
		return
	}
	if heavy {
		e.executeOffer()
	}
}

// pureDemands is the offer-completeness half for spends without an account
// input: accepted, no key image spent on chain, no rival accepted alongside,
// younger than the age limit, the confidential list below its limits.
func (e *Engine) pureDemands(off map[common.Hash]bool) {
	if len(e.livePure) == 0 {
		return
	}
	mc := e.W.Cfg.Mem
	ms := make([]*MTx, 0, len(e.livePure))
	for _, m := range e.livePure {
		ms = append(ms, m)
	}
	sort.Slice(ms, func(i, j int) bool { return ms[i].Seq < ms[j].Seq })
	holders := map[lk.Key]int{}
	now := e.now()
	for _, m := range ms {
		if e.anySpent(m) || e.isCommitted(m) {
			e.C.Probe("invalidated-spent")
			m.Accepted = false
			delete(e.livePure, m.Hash)
			continue
		}
		if now-m.AcceptedAt >= e.dropGood {
			e.C.Probe("excused-age-good")
			m.Accepted = false
			delete(e.livePure, m.Hash)
			continue
		}
		for _, k := range m.KIs {
			holders[k]++
		}
	}
	fullPure := len(e.offeredPure) >= mc.Size || len(e.offeredPure) >= mc.UTXOSize
	for _, m := range ms {
		if !m.Accepted {
			continue
		}
		amb := false
		for _, k := range m.KIs {
			if holders[k] > 1 {
				amb = true
			}
		}
		if amb {
			e.C.Probe("ambiguous-same-key-image")
			continue
		}
		if off[m.Hash] {
			e.C.Probe("spend-on-offer")
			continue
		}
		if !e.Opt.Liveness {
			continue
		}
		if fullPure {
			e.C.Probe("excused-utxo-list-full")
			continue
		}
		if !e.Violate("not-offered", "spend-not-offered", "confidential spend %s (key image %s) was accepted %dms ago, none of its key images is spent on chain or held by another accepted spend, no size or age limit is in reach (confidential offer %d, Size %d, UTXOSize %d), yet Reap does not offer it", short(m.Hash), kiLabel(m.KIs), (now - m.AcceptedAt).Milliseconds(), len(e.offeredPure), mc.Size, mc.UTXOSize) {
			m.Accepted = false
			delete(e.livePure, m.Hash)
			continue
		}
		return
	}
}

// executeOffer is "a block built from the offer always executes": build it on
// the node (CreateBlock + PreRunBlock), have the independent replica check it.
// Nothing is committed.
func (e *Engine) executeOffer() {
	maxTxs := e.W.MaxTxs()
	b, site, msg, panicked := e.W.Propose(maxTxs, nil, false)
	e.C.Evals(1)
	if panicked {
		key, detail := e.notExecKey(site, b)
		if !e.Violate("offer-not-executable", key, "a block built by CreateBlock+PreRunBlock from the mempool's offer did not execute: %s (%s) %s", msg, e.describe(b), detail) {
			e.flushPool()
		}
		return
	}
	rb, _, err := e.W.Wire(b)
	if err != nil {
		e.C.HarnessTrouble("wire: %v", err)
		e.Stop()
		return
	}
	e.W.Rep.RegisterRate()
	var ok bool
	site, msg, panicked = kernel.Try(func() { ok = e.W.Rep.App.CheckBlock(rb) })
	e.W.Chain.RegisterRate()
	if panicked {
		e.Violate("panic", "panic/"+site, "replica CheckBlock panicked on a block built from the offer: %s", msg)
		return
	}
	if !ok {
		e.Violate("offer-rejected", "offer-rejected/replica=false/probe", "an independent replica's CheckBlock refuses the block the node built from its offer: %s", e.describe(b))
		return
	}
	e.C.Probe("offer-executed")
	if len(b.Data.Txs) > 0 {
		e.C.Probe("offer-executed-nonempty")
	}
}

var debugPool = os.Getenv("MPRIG_DEBUG_POOL") != ""

var _ = fmt.Sprintf
