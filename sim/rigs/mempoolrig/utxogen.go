package mempoolrig

import (
	"fmt"
	"math/big"

	"github.com/lianxiangcloud/linkchain/libs/common"
	lk "github.com/lianxiangcloud/linkchain/libs/cryptonote/types"
	"github.com/lianxiangcloud/linkchain/types"
)

func kiLabel(ks []lk.Key) string {
	s := ""
	for i, k := range ks {
		if i > 0 {
			s += "+"
		}
		s += fmt.Sprintf("%x", k[:3])
	}
	return s
}

func (e *Engine) anySpent(m *MTx) bool {
	if e.U == nil {
		return false
	}
	for _, k := range m.KIs {
		if _, ok := e.U.KICommitted[k]; ok {
			return true
		}
	}
	return false
}

func (e *Engine) spentIn(m *MTx) string {
	for _, k := range m.KIs {
		if h, ok := e.U.KICommitted[k]; ok {
			return short(h)
		}
	}
	return "?"
}

// bootstrapUTXO commits a first block that moves coins of user 0 into hidden
// outputs, so that the run has something confidential to spend early.
func (e *Engine) bootstrapUTXO() bool {
	us := e.U
	u := e.W.Users[0]
	t := e.Work
	n := t.Range(3, 7)
	var ws []*Wallet
	var amts []*big.Int
	for i := 0; i < n; i++ {
		ws = append(ws, us.Wallets[i%len(us.Wallets)])
		amts = append(amts, lkCoins(int64(300+100*t.Int(8))))
	}
	tx, err := e.FundTx(u, e.committedNonce(u.Addr), ws, amts)
	if err != nil {
		e.C.HarnessTrouble("bootstrap funding tx: %v", err)
		return false
	}
	m := e.record(u, tx, "fund")
	m.External = true
	b, site, msg, panicked := e.W.Propose(0, types.Txs{CopyTx(tx)}, true)
	if panicked {
		e.C.HarnessTrouble("bootstrap block did not execute at %s: %s", site, msg)
		return false
	}
	if e.commit(b, "external") == nil {
		return false
	}
	if len(us.Owned) != n {
		e.C.HarnessTrouble("bootstrap: wallets recognise %d of %d outputs", len(us.Owned), n)
		return false
	}
	return true
}

// unspent outputs: not spent on chain.
func (e *Engine) unspent() []*Owned {
	var out []*Owned
	for _, o := range e.U.Owned {
		if o.KI != nil {
			if _, ok := e.U.KICommitted[*o.KI]; ok {
				continue
			}
		}
		out = append(out, o)
	}
	return out
}

// hasOpenSpend: some spend of o was generated and is not known refused for good.
func (e *Engine) hasOpenSpend(o *Owned) bool {
	return len(o.Spends) > 0
}

// genUTXO draws one confidential transaction of the given kind (nil: not
// possible right now).
func (e *Engine) genUTXO(kind string, u *User, pick int) *MTx {
	us := e.U
	if us == nil {
		return nil
	}
	t := e.Work
	switch kind {
	case "fund":
		// the payer must be able to afford a hidden amount
		payer := u
		if e.remaining(payer.Addr).Cmp(lkCoins(2000)) < 0 {
			payer = e.W.Users[0]
		}
		if e.remaining(payer.Addr).Cmp(lkCoins(2000)) < 0 {
			return nil
		}
		n := 1 + t.Int(2)
		var ws []*Wallet
		var amts []*big.Int
		for i := 0; i < n; i++ {
			ws = append(ws, us.Wallets[t.Int(len(us.Wallets))])
			amts = append(amts, lkCoins(int64(200+100*t.Int(6))))
		}
		tx, err := e.FundTx(payer, e.nextFree(payer), ws, amts)
		if err != nil {
			e.C.HarnessTrouble("funding tx: %v", err)
			e.Stop()
			return nil
		}
		return e.record(payer, tx, "fund")
	case "spendall":
		// hidden -> account, the whole amount: the transaction creates NO
		// confidential output
		cands := e.unspent()
		var pool []*Owned
		for _, o := range cands {
			if !e.hasOpenSpend(o) {
				pool = append(pool, o)
			}
		}
		if len(pool) == 0 {
			pool = cands
		}
		if len(pool) == 0 {
			return nil
		}
		in := pool[pick%len(pool)]
		a := e.recipient(t, nil)
		tx, err := e.SpendTx(us.Wallets[in.Wallet], []*Owned{in}, 1+t.Pick(3, 3, 2), nil, nil, &a, pick)
		if err != nil {
			e.C.HarnessTrouble("full withdrawal: %v", err)
			e.Stop()
			return nil
		}
		return e.noteSpend(e.record(nil, tx, kind), []*Owned{in}, tx)
	case "respent":
		// a fresh spend of an output whose key image is already on chain
		// (alone, or next to an unspent input of the same wallet)
		var spent []*Owned
		for _, o := range us.Owned {
			if o.KI != nil {
				if _, ok := us.KICommitted[*o.KI]; ok {
					spent = append(spent, o)
				}
			}
		}
		if len(spent) == 0 {
			return nil
		}
		in := spent[pick%len(spent)]
		ins := []*Owned{in}
		if t.Bool(1, 3) {
			for _, o := range e.unspent() {
				if o.Wallet == in.Wallet {
					ins = []*Owned{o, in}
					break
				}
			}
		}
		sum := new(big.Int)
		for _, o := range ins {
			sum.Add(sum, o.Amount)
		}
		pay := new(big.Int).Sub(sum, us.FeeUU)
		pay.Sub(pay, lkCoins(int64(1+pick%7)))
		if pay.Cmp(lkCoins(1)) < 0 {
			return nil
		}
		tx, err := e.SpendTx(us.Wallets[in.Wallet], ins, 1+t.Pick(3, 3, 2), pay, us.Wallets[t.Int(len(us.Wallets))], nil, pick)
		if err != nil {
			e.C.HarnessTrouble("re-spend tx: %v", err)
			e.Stop()
			return nil
		}
		return e.noteSpend(e.record(nil, tx, kind), ins, tx)
	case "spend", "spendacc", "kiconflict", "kidup":
		cands := e.unspent()
		var pool []*Owned
		for _, o := range cands {
			open := e.hasOpenSpend(o)
			if (kind == "kiconflict") == open {
				pool = append(pool, o)
			}
		}
		if kind == "kiconflict" && t.Bool(1, 2) {
			// prefer an output that is a LATER input of a pending multi-input
			// spend (its key image is registered last by the pool)
			var later []*Owned
			for _, o := range pool {
				for _, sp := range o.Spends {
					if sp.Accepted && len(sp.Ins) > 1 && sp.Ins[0] != o {
						later = append(later, o)
						break
					}
				}
			}
			if len(later) > 0 {
				pool = later
			}
		}
		if len(pool) == 0 && kind != "kiconflict" {
			pool = cands
		}
		if len(pool) == 0 {
			return nil
		}
		in := pool[pick%len(pool)]
		w := us.Wallets[in.Wallet]
		ins := []*Owned{in}
		if kind == "kidup" {
			ins = []*Owned{in, in}
		} else if extra := t.Pick(5, 2, 1); extra > 0 {
			// one or two more inputs of the same wallet
			for _, o := range cands {
				if o != in && o.Wallet == in.Wallet && len(ins) <= extra {
					ins = append(ins, o)
				}
			}
		}
		sum := new(big.Int)
		for _, o := range ins {
			sum.Add(sum, o.Amount)
		}
		room := new(big.Int).Sub(sum, new(big.Int).Mul(us.FeeUU, big.NewInt(2)))
		room.Sub(room, lkCoins(2))
		if room.Cmp(lkCoins(10)) < 0 {
			return nil
		}
		pay := new(big.Int).Mul(us.Unit, big.NewInt(int64(1+t.Int(1<<30))))
		pay.Add(pay, lkCoins(int64(1+t.Int(int(new(big.Int).Div(room, lkCoins(1)).Int64())-1))))
		if t.Bool(1, 6) {
			// no change: everything but the fee
			pay = new(big.Int).Sub(sum, us.FeeUU)
		}
		ring := 1 + t.Pick(3, 3, 2)
		var toAcct *common.Address
		var toWallet *Wallet
		if kind == "spendacc" {
			a := e.recipient(t, nil)
			toAcct = &a
			if pay.Cmp(new(big.Int).Sub(sum, us.FeeUU)) == 0 {
				pay = new(big.Int).Sub(room, big.NewInt(0))
				pay.Div(pay, us.Unit).Mul(pay, us.Unit)
			}
		} else {
			toWallet = us.Wallets[t.Int(len(us.Wallets))]
		}
		tx, err := e.SpendTx(w, ins, ring, pay, toWallet, toAcct, pick)
		if err != nil {
			if kind == "kidup" {
				e.C.Probe("kidup-not-constructible")
				return nil
			}
			e.C.HarnessTrouble("spend tx (%s): %v", kind, err)
			e.Stop()
			return nil
		}
		return e.noteSpend(e.record(nil, tx, kind), ins, tx)
	}
	return nil
}

// noteSpend links a generated spend with the outputs it consumes.
func (e *Engine) noteSpend(m *MTx, ins []*Owned, tx types.Tx) *MTx {
	m.Ins = ins
	kis := keyImages(tx)
	for i, o := range ins {
		if i < len(kis) {
			k := kis[i]
			o.KI = &k
		}
		o.Spends = append(o.Spends, m)
	}
	return m
}

// SpentOutputs returns the wallet outputs whose key image is on chain.
func (e *Engine) SpentOutputs() []*Owned {
	var out []*Owned
	if e.U == nil {
		return nil
	}
	for _, o := range e.U.Owned {
		if o.KI != nil {
			if _, ok := e.U.KICommitted[*o.KI]; ok {
				out = append(out, o)
			}
		}
	}
	return out
}

// rivalSpend builds a spend of an output that the node's mempool already holds
// a spend of (or any unspent one), for another proposer's block; never
// submitted to the node.
func (e *Engine) rivalSpend(pick int) *MTx {
	us := e.U
	cands := e.unspent()
	if len(cands) == 0 {
		return nil
	}
	var pool []*Owned
	for _, o := range cands {
		for _, sp := range o.Spends {
			if sp.Accepted {
				pool = append(pool, o)
				break
			}
		}
	}
	if len(pool) == 0 || pick%3 == 0 {
		pool = cands
	}
	in := pool[pick%len(pool)]
	pay := new(big.Int).Sub(in.Amount, us.FeeUU)
	pay.Sub(pay, lkCoins(int64(1+pick%5)))
	if pay.Cmp(lkCoins(1)) < 0 {
		return nil
	}
	tx, err := e.SpendTx(us.Wallets[in.Wallet], []*Owned{in}, 1+pick%3, pay, us.Wallets[pick%len(us.Wallets)], nil, pick)
	if err != nil {
		e.C.HarnessTrouble("rival spend: %v", err)
		e.Stop()
		return nil
	}
	m := e.record(nil, tx, "rival")
	m.Ins = []*Owned{in}
	m.External = true
	k := keyImages(tx)[0]
	in.KI = &k
	in.Spends = append(in.Spends, m)
	return m
}
