package mempoolrig

import (
	"fmt"
	"math/big"
	"testing"

	"verif/sim/kernel"
)

// Direct reproduction of the C15 finding "executable-not-offered/behind-failed-promotion"
// against the real Mempool + LinkApplication (no scheduler, no faults):
// promoteExecutables takes the whole ready run out of the future queue and
// DROPS every member whose state check fails — including the valid successors
// of an uncovered transaction, which fail only with ErrNonceTooHigh because
// their predecessor was just dropped.
//
//	cd /verif/sim && go1.26.8 test -tags verif -vet=off -overlay /verif/build/overlay.json ./rigs/mempoolrig/ -run TestDefectPromoteDropsValidSuccessors -v
func TestDefectPromoteDropsValidSuccessors(t *testing.T) {
	rig := &kernel.Rig{Property: "CXX", Name: "repro", Run: func(c *kernel.Ctx) {
		kernel.Bubble(c, false, func() {
			unit := unitCost()
			wc := WorldCfg{NUsers: 1, NVals: 1, IsTrie: true,
				Balances: []*big.Int{new(big.Int).Mul(unit, big.NewInt(10))}, Nonces: []uint64{0}}
			w, err := NewWorld(c, wc)
			if err != nil {
				t.Fatalf("world: %v", err)
			}
			defer w.Cleanup()
			defer w.StopMempool(w.Rep)
			defer w.StopMempool(w.Chain)
			u, sink := w.Users[0], w.Sinks[0]
			cheap := big.NewInt(1000)
			tooMuch := new(big.Int).Mul(unit, big.NewInt(50)) // more than the whole balance

			tx1 := u.Transfer(1, sink, tooMuch, 0, nil) // nonce 1, uncovered (queued: nonce too high is tested first)
			tx2 := u.Transfer(2, sink, cheap, 0, nil)   // nonce 2, valid
			tx0 := u.Transfer(0, sink, cheap, 0, nil)   // nonce 0, valid: triggers the promotion of 1, 2
			tx1b := u.Transfer(1, sink, cheap, 0, nil)  // a payable nonce 1
			for _, s := range []struct {
				name string
				err  error
			}{{"tx1(uncovered, future)", w.SubmitNow(1, tx1)}, {"tx2(valid, future)", w.SubmitNow(2, tx2)}} {
				if s.err != nil {
					t.Fatalf("%s refused: %v", s.name, s.err)
				}
			}
			_, _, queued := w.Chain.Mempool.Stats()
			fmt.Println("queued after tx1, tx2:", queued)
			if err := w.SubmitNow(3, tx0); err != nil {
				t.Fatalf("tx0 refused: %v", err)
			}
			_, pending, queued := w.Chain.Mempool.Stats()
			fmt.Println("after tx0: pending", pending, "queued", queued, "(tx1 is rightly dropped; tx2 was accepted, is valid, and should still be queued)")
			if err := w.SubmitNow(4, tx1b); err != nil {
				t.Fatalf("tx1b refused: %v", err)
			}
			offer := w.Chain.Mempool.Reap(100)
			_, pending, queued = w.Chain.Mempool.Stats()
			fmt.Println("after tx1b: pending", pending, "queued", queued, "offer:")
			has2 := false
			for _, tx := range offer {
				fmt.Printf("  nonce %d %x\n", tx.(interface{ Nonce() uint64 }).Nonce(), tx.Hash().Bytes()[:4])
				if tx.Hash() == tx2.Hash() {
					has2 = true
				}
			}
			if !has2 {
				t.Errorf("DEFECT: tx2 (nonce 2) was accepted by AddTx, nonces 0 and 1 are pending, its cost is covered, no limit was reached — but the mempool silently lost it (expected offer: nonces 0,1,2; got %d txs)", len(offer))
			}
		})
	}}
	kernel.Execute(t, rig, kernel.Quick, kernel.NewTape(1), nil)
}
