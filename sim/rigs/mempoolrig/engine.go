package mempoolrig

import (
	"fmt"
	"math/big"
	"sort"
	"testing/synctest"
	"time"

	cfg "github.com/lianxiangcloud/linkchain/config"
	"github.com/lianxiangcloud/linkchain/libs/common"
	"github.com/lianxiangcloud/linkchain/libs/crypto"
	lk "github.com/lianxiangcloud/linkchain/libs/cryptonote/types"
	mempl "github.com/lianxiangcloud/linkchain/mempool"
	"github.com/lianxiangcloud/linkchain/types"

	"verif/sim/kernel"
	"verif/sim/simnode"
)

// ---------------------------------------------------------------- model

// MTx is the harness's record of one generated transaction.
type MTx struct {
	Seq   int
	Tx    types.Tx // the master object (never handed to the node; copies are)
	Hash  common.Hash
	From  common.Address
	User  int
	Nonce uint64
	Cost  *big.Int
	Kind  string

	Accepted   bool          // some AddTx returned nil for it and it is neither committed nor pruned
	AcceptedAt time.Duration // virtual time of the (last) acceptance
	StaleAtGen bool          // nonce below the committed nonce when generated
	External   bool          // never submitted to the node's mempool by the generator
	// MaybeGood: it may sit in the node's executable list (seen on offer, or
	// live while MaxReapSize cut the offer).
	MaybeGood bool
	// ToCode: the destination held code (per committed blocks) when the
	// transaction was generated; Target: contract address it creates/calls/kills.
	ToCode bool
	Target common.Address
	// Pure: no account input (a hidden -> hidden/account spend); KIs: its key images.
	Pure bool
	KIs  []lk.Key
	Ins  []*Owned
	// BasicOK: passes the basic check by construction (well-formed, legal gas).
	BasicOK bool
	// Uncovered: when its turn came the sender's balance did not cover it.
	Uncovered bool
	// BehindFailed: it sat in the future queue behind a transaction that was
	// not covered when that one's turn came (see known finding).
	BehindFailed bool
}

// Options selects what an engine run does beyond the common workload.
type Options struct {
	Prop string // "C15" | "C07"
	// Liveness switches the promotion/offer-completeness oracle on (C15).
	Liveness bool
	// Extra, when set, is offered as one more step kind with weight ExtraWeight.
	Extra       func(e *Engine, t *kernel.Tape) string
	ExtraWeight int
	// AfterCommit is called after every committed block (history oracles).
	AfterCommit func(e *Engine, b *types.Block)
	// AtEnd is called after the final drain.
	AtEnd func(e *Engine)
	// Config lets the caller adjust the drawn run configuration.
	Config func(rc *RunCfg, t *kernel.Tape)
	// AfterStep is called after every driver step (after the offer oracle).
	AfterStep func(e *Engine)
	// NoContracts keeps contract transactions out of the mix.
	NoContracts bool
	// UTXOShare {num, den}: share of runs with confidential transactions ({0,0}: 2/5).
	UTXOShare [2]int
	// NonTrivial adds a condition to the engine's non-triviality rule.
	NonTrivial func(e *Engine) bool
}

// Block is the chain's block type (for callers that only import this package).
type Block = types.Block

// Chain is the node assembly type (for callers that only import this package).
type Chain = simnode.Chain

// UTXOOutputs counts the confidential outputs a transaction creates.
func UTXOOutputs(tx types.Tx) int {
	ut, ok := tx.(*types.UTXOTransaction)
	if !ok {
		return 0
	}
	n := 0
	for _, o := range ut.Outputs {
		if _, ok := o.(*types.UTXOOutput); ok {
			n++
		}
	}
	return n
}

// KeyImages returns the key images a transaction spends.
func KeyImages(tx types.Tx) []lk.Key { return keyImages(tx) }

// RunCfg is the drawn configuration of one run.
type RunCfg struct {
	World     WorldCfg
	Steps     int
	Clients   int
	Tight     bool // small pool/queue/reap limits: single-queuer discipline
	Evict     bool // virtual time may pass the eviction lifetimes
	UseCache  bool
	Contracts bool // contract creation / self-destruct / calls in the mix
	UTXO      bool // confidential transactions in the mix
	Wallets   int
	W         struct{ Next, Future, Stale, Conflict, Dup, Under, Over, BadGas, Fund, Spend, SpendAcc, KIConflict, KIDup, Create, CCall, Kill, ToFuture, SpendAll, Respent, CreateFail int }
	A         struct{ Start, Release, Reap, Block, Tick, Extra int }
	VMFailExt int // of 8: share of another proposer's own transactions that fail in execution
	ExtRate   int // of 8: share of block steps that build another proposer's block
	HeavyPct  int // of 8: share of steps that also run the execute-the-offer oracle
}

// Engine is one run.
type Engine struct {
	C    *kernel.Ctx
	Opt  Options
	Cfg  RunCfg
	W    *World
	Work *kernel.Tape
	Sch  *kernel.Tape

	start   time.Time
	all     []*MTx
	byHash  map[common.Hash]*MTx
	everAcc map[common.Hash]bool
	live    map[common.Address]map[uint64][]*MTx
	// held: every transaction the node accepted and may still hold (on offer
	// or queued), whether or not the oracle still demands anything for it
	held     map[common.Address]map[common.Hash]*MTx
	inflight []*flight
	subSeq   int
	trace    []string
	steps    int

	failed        []types.Tx // committed transactions whose receipt says failed
	contracts     []*Contract
	contractAt    map[common.Address]*Contract
	pendingCreate []common.Address // targets of creations generated and not committed yet
	plans         map[int]*creationPlan
	codeVariant   int

	U        *UtxoState           // nil: no confidential transactions in this run
	livePure map[common.Hash]*MTx // accepted spends without account input the oracle still demands

	offered     types.Txs // last full reap
	offeredBy   map[common.Address][]types.Tx
	offeredPure []types.Tx
	poolWasFull bool

	dropGood    time.Duration
	sinceCommit bool
	flushing    bool
	twist       *lk.Key // signSpend adds this small-order point to every key image
	raceNext    bool    // the next commit parks inside CommitBlock and lets clients run
	byzTarget   *Owned  // ByzBlock("ki-later") re-spends this output when set
	stopped     bool
}

type flight struct {
	sub *Submission
	m   *MTx
	qa  bool
}

func (e *Engine) now() time.Duration { return time.Since(e.start) }

// Tracef appends to the bounded trace shown as the run's sample.
func (e *Engine) Tracef(format string, args ...interface{}) {
	if len(e.trace) < 160 || debugPool {
		e.trace = append(e.trace, fmt.Sprintf("%d@%dms ", e.steps, e.now().Milliseconds())+fmt.Sprintf(format, args...))
	}
}

// Violate records a violation and stops the run when it is a new one.
func (e *Engine) Violate(class, key, format string, args ...interface{}) bool {
	if e.C.Violate(class, key, format, args...) {
		e.stopped = true
		e.Tracef("VIOLATION %s: %s", key, fmt.Sprintf(format, args...))
		return true
	}
	return false
}

// Stopped reports whether the run must end.
func (e *Engine) Stopped() bool { return e.stopped || e.C.Failed() }

// Stop ends the run (harness trouble).
func (e *Engine) Stop() { e.stopped = true }

func unitCost() *big.Int {
	// cost of the cheapest transfer, from a real transaction's own fields
	return Cost(UserKey(0).Transfer(0, common.Address{1}, big.NewInt(1000), 0, nil))
}

func drawCfg(c *kernel.Ctx, opt Options) RunCfg {
	t := c.Tape.Fork("config")
	thorough := c.Tier == kernel.Thorough
	var rc RunCfg
	rc.World.NUsers = t.Range(2, 4)
	if thorough {
		rc.World.NUsers = t.Range(2, 6)
	}
	rc.World.NVals = 1 + t.Pick(5, 2, 1)
	rc.World.IsTrie = t.Bool(1, 2)
	unit := unitCost()
	for i := 0; i < rc.World.NUsers; i++ {
		var bal *big.Int
		switch t.Pick(5, 3, 1) {
		case 0: // rich
			bal = new(big.Int).Mul(big.NewInt(1e18), big.NewInt(1000000))
		case 1: // a handful of cheap transfers
			bal = new(big.Int).Mul(unit, big.NewInt(int64(t.Range(1, 6))))
			bal.Add(bal, big.NewInt(int64(t.Int(1000000))))
		default: // nothing
			bal = big.NewInt(int64(t.Int(1000)))
		}
		if i == 0 && bal.Cmp(unit) < 0 {
			bal = new(big.Int).Mul(big.NewInt(1e18), big.NewInt(1000000))
		}
		rc.World.Balances = append(rc.World.Balances, bal)
		n := uint64(0)
		if t.Bool(1, 4) {
			n = uint64(t.Range(1, 3))
		}
		rc.World.Nonces = append(rc.World.Nonces, n)
	}
	rc.Steps = t.Range(40, 110)
	if thorough {
		rc.Steps = t.Range(80, 320)
	}
	rc.Clients = t.Range(2, 4)
	rc.UseCache = t.Bool(1, 5)
	rc.Tight = t.Bool(1, 2)
	rc.Evict = t.Bool(1, 6)

	mc := cfg.DefaultMempoolConfig()
	mc.Broadcast = false
	mc.CacheSize = 0
	if rc.UseCache {
		mc.CacheSize = 1000
	}
	small := []int{1, 2, 3, 5, 8}
	if rc.Tight {
		// at least one of the limits is small
		which := 1 + t.Int(7)
		if which&1 != 0 {
			mc.Size = small[t.Int(len(small))]
		}
		if which&2 != 0 {
			mc.FutureSize = []int{0, 1, 2, 4, 8}[t.Int(5)]
		}
		if which&4 != 0 {
			mc.MaxReapSize = small[t.Int(len(small))]
		}
	}
	if t.Bool(1, 4) {
		mc.RemoveFutureTx = true
		mc.AccountQueue = []int{1, 2, 4, 1000}[t.Int(4)]
		mc.Lifetime = []time.Duration{12 * time.Second, 25 * time.Second, 60 * time.Second}[t.Int(3)]
	}
	rc.World.Mem = mc

	w := &rc.W
	w.Next, w.Future, w.Stale, w.Conflict, w.Dup, w.Under, w.Over, w.BadGas = 10, t.Range(0, 6), t.Range(0, 3), t.Range(0, 3), t.Range(0, 4), t.Range(0, 2), t.Int(2), t.Int(2)
	w.CreateFail = t.Range(0, 2)
	rc.VMFailExt = t.Range(0, 3)
	a := &rc.A
	a.Start, a.Release, a.Reap, a.Block, a.Tick = 10, t.Range(6, 14), t.Range(1, 3), t.Range(1, 5), t.Range(0, 2)
	if !opt.NoContracts && t.Bool(1, 3) {
		rc.Contracts = true
		w.Create, w.CCall, w.Kill, w.ToFuture = t.Range(1, 3), t.Range(2, 6), t.Range(1, 3), t.Range(0, 2)
		rc.World.Balances[0] = new(big.Int).Mul(big.NewInt(1e18), big.NewInt(1000000))
	}
	share := opt.UTXOShare
	if share[1] == 0 {
		share = [2]int{2, 5}
	}
	if UtxoReady() && t.Bool(share[0], share[1]) {
		rc.UTXO = true
		rc.Wallets = t.Range(2, 3)
		w.Fund, w.Spend, w.SpendAcc, w.KIConflict, w.KIDup = t.Range(1, 3), t.Range(3, 8), t.Range(0, 3), t.Range(2, 5), t.Int(2)
		w.SpendAll, w.Respent = t.Range(0, 3), t.Range(0, 2)
		// the funder must be able to pay hidden amounts
		rc.World.Balances[0] = new(big.Int).Mul(big.NewInt(1e18), big.NewInt(1000000))
		if t.Bool(1, 2) {
			mc.UTXOSize = []int{1, 2, 3, 4}[t.Int(4)]
		}
	}
	rc.ExtRate = t.Range(0, 5)
	rc.HeavyPct = t.Range(1, 4)
	if opt.Extra != nil {
		a.Extra = opt.ExtraWeight
	}
	if opt.Config != nil {
		opt.Config(&rc, t)
	}
	return rc
}

// Run performs one engine run inside a bubble.
func Run(c *kernel.Ctx, opt Options) {
	rc := drawCfg(c, opt)
	kernel.Bubble(c, rc.UseCache, func() {
		e := &Engine{C: c, Opt: opt, Cfg: rc, Work: c.Tape.Fork("work"), Sch: c.Tape.Fork("sched"),
			byHash: map[common.Hash]*MTx{}, everAcc: map[common.Hash]bool{}, live: map[common.Address]map[uint64][]*MTx{}, held: map[common.Address]map[common.Hash]*MTx{},
			start: time.Now(), dropGood: mempl.GoodTxDropTime}
		w, err := NewWorld(c, rc.World)
		if err != nil {
			c.HarnessTrouble("world: %v", err)
			return
		}
		e.W = w
		defer w.Cleanup()
		w.OnCommitted = e.onCommitted
		e.livePure = map[common.Hash]*MTx{}
		e.contractAt = map[common.Address]*Contract{}
		e.plans = map[int]*creationPlan{}
		w.ApplyHook = e.applyWithReceipt
		if rc.UTXO {
			seedCrypto(c.Tape.Fork("xcrypto"))
			e.U = newUtxoState(rc.Wallets)
			if !e.bootstrapUTXO() {
				return
			}
		}
		e.run()
		e.finish()
	})
}

// ---------------------------------------------------------------- model helpers

func (e *Engine) committedNonce(a common.Address) uint64 { return e.W.Led.Get(a).Nonce }

func (e *Engine) liveCount() int {
	n := 0
	for _, m := range e.live {
		for _, l := range m {
			n += len(l)
		}
	}
	return n
}

func (e *Engine) addLive(m *MTx) {
	if e.held[m.From] == nil {
		e.held[m.From] = map[common.Hash]*MTx{}
	}
	e.held[m.From][m.Hash] = m
	if m.Accepted {
		return
	}
	m.Accepted = true
	m.AcceptedAt = e.now()
	if e.live[m.From] == nil {
		e.live[m.From] = map[uint64][]*MTx{}
	}
	e.live[m.From][m.Nonce] = append(e.live[m.From][m.Nonce], m)
}

func (e *Engine) dropLive(m *MTx) {
	if !m.Accepted {
		return
	}
	m.Accepted = false
	l := e.live[m.From][m.Nonce]
	for i, x := range l {
		if x == m {
			l = append(l[:i], l[i+1:]...)
			break
		}
	}
	if len(l) == 0 {
		delete(e.live[m.From], m.Nonce)
	} else {
		e.live[m.From][m.Nonce] = l
	}
}

func (e *Engine) sortedNonces(a common.Address) []uint64 {
	ns := make([]uint64, 0, len(e.live[a]))
	for n := range e.live[a] {
		ns = append(ns, n)
	}
	sort.Slice(ns, func(i, j int) bool { return ns[i] < ns[j] })
	return ns
}

// futureSet is what the node's future queue may hold for a: accepted at some
// time, neither committed nor consumed, not on offer (sorted by nonce). It is
// an over-approximation (the node may have dropped some of them).
func (e *Engine) futureSet(a common.Address) []*MTx {
	off := map[common.Hash]bool{}
	for _, tx := range e.offeredBy[a] {
		off[tx.Hash()] = true
	}
	var out []*MTx
	for h, m := range e.held[a] {
		if !off[h] {
			out = append(out, m)
		}
	}
	sort.Slice(out, func(i, j int) bool {
		if out[i].Nonce != out[j].Nonce {
			return out[i].Nonce < out[j].Nonce
		}
		return out[i].Seq < out[j].Seq
	})
	return out
}

// heldCleanup forgets what the node cannot hold any more: committed
// transactions always; consumed nonces once a commit has run the node's
// promotion over every account; everything queued when the node reports an
// empty queue.
func (e *Engine) heldCleanup(afterCommit, emptyQueue bool) {
	queued := 1
	if emptyQueue {
		_, _, queued = e.W.Chain.Mempool.Stats()
		// "not on offer and the queue is empty => the node does not hold it" is
		// only true while the offer shows the whole executable list: a reap cut
		// by MaxReapSize / UTXOSize hides the list's tail
		mc := e.W.Cfg.Mem
		utxoTyped := 0
		for _, tx := range e.offered {
			if tx.TypeName() == types.TxUTXO {
				utxoTyped++
			}
		}
		if len(e.offered) >= mc.MaxReapSize || utxoTyped >= mc.UTXOSize {
			queued = 1
		}
	}
	for _, u := range e.W.Users {
		a := u.Addr
		off := map[common.Hash]bool{}
		for _, tx := range e.offeredBy[a] {
			off[tx.Hash()] = true
		}
		c := e.committedNonce(a)
		for h, m := range e.held[a] {
			if e.isCommitted(m) || (afterCommit && m.Nonce < c) || (queued == 0 && !off[h]) {
				delete(e.held[a], h)
			}
		}
	}
}

// nextFree is the smallest nonce >= the committed nonce of u that no live and
// no in-flight transaction of u uses.
func (e *Engine) nextFree(u *User) uint64 {
	t := e.Work
	used := map[uint64]bool{}
	for n := range e.live[u.Addr] {
		used[n] = true
	}
	hs := make([]*MTx, 0, len(e.held[u.Addr]))
	for _, m := range e.held[u.Addr] {
		hs = append(hs, m)
	}
	sort.Slice(hs, func(i, j int) bool { return hs[i].Seq < hs[j].Seq })
	for _, m := range hs {
		// mostly avoid nonces the node may still hold a transaction for
		if t.Bool(3, 4) {
			used[m.Nonce] = true
		}
	}
	for _, f := range e.inflight {
		if f.m.From == u.Addr {
			used[f.m.Nonce] = true
		}
	}
	for _, tx := range e.offeredBy[u.Addr] {
		if _, n, _, ok := AcctPart(tx); ok {
			used[n] = true
		}
	}
	n := e.committedNonce(u.Addr)
	for used[n] {
		n++
	}
	return n
}

// canQueue implements the single-queuer discipline of tight runs: user u may
// do something that can put one of its transactions into the node's future
// queue only while no other user has (or may get) entries there. It is about
// reproducibility only (the node promotes accounts in Go map order, which
// decides who gets the last free slots), never about the verdict.
func (e *Engine) canQueue(u *User) bool {
	if !e.Cfg.Tight {
		return true
	}
	for _, o := range e.W.Users {
		if o == u {
			continue
		}
		if len(e.futureSet(o.Addr)) > 0 {
			return false
		}
	}
	for _, f := range e.inflight {
		if f.qa && f.m.From != u.Addr {
			return false
		}
	}
	return true
}

func (e *Engine) inflightOf(a common.Address) int {
	n := 0
	for _, f := range e.inflight {
		if f.m.From == a {
			n++
		}
	}
	return n
}

// queueAffecting classifies a planned submission of m.
func (e *Engine) queueAffecting(m *MTx) bool {
	if !e.validNow(m) || m.Pure {
		return false
	}
	c := e.committedNonce(m.From)
	if m.Nonce < c {
		return false
	}
	if e.nodeHasOrExecuted(m) {
		// same bytes as a transaction the node already holds or has executed
		return false
	}
	size := e.W.Cfg.Mem.Size
	if m.Nonce == c+uint64(len(e.offeredBy[m.From])) && len(e.futureSet(m.From)) == 0 && e.inflightOf(m.From) == 0 &&
		len(e.offered)+len(e.inflight)+1 <= size {
		return false
	}
	return true
}

// ---------------------------------------------------------------- generation

func (e *Engine) amount(t *kernel.Tape) *big.Int {
	switch t.Pick(6, 2, 1) {
	case 0:
		return big.NewInt(int64(1000 + t.Int(1000000)))
	case 1:
		return new(big.Int).Mul(big.NewInt(1e18), big.NewInt(int64(t.Range(11, 40))))
	default:
		return new(big.Int).Mul(big.NewInt(1e17), big.NewInt(int64(t.Range(1, 30))))
	}
}

func (e *Engine) recipient(t *kernel.Tape, not *User) common.Address {
	if t.Bool(1, 3) && len(e.W.Users) > 1 {
		for i := 0; i < 4; i++ {
			o := e.W.Users[t.Int(len(e.W.Users))]
			if o != not {
				return o.Addr
			}
		}
	}
	return e.W.Sinks[t.Int(len(e.W.Sinks))]
}

func (e *Engine) record(u *User, tx types.Tx, kind string) *MTx {
	h := tx.Hash()
	if m := e.byHash[h]; m != nil {
		return m
	}
	m := &MTx{Seq: len(e.all), Tx: tx, Hash: h, User: -1, Kind: kind, Cost: new(big.Int)}
	if from, nonce, cost, ok := AcctPart(tx); ok {
		m.From, m.Nonce, m.Cost = from, nonce, cost
		if x := e.W.UserByAddr(from); x != nil {
			m.User = x.Idx
		}
		m.StaleAtGen = m.Nonce < e.committedNonce(from)
	} else {
		m.Pure = true
	}
	m.KIs = keyImages(tx)
	m.BasicOK = kind != "over" && kind != "badgas" && kind != "kidup"
	if t, ok := tx.(*types.Transaction); ok && t.To() != nil {
		m.ToCode = e.hasCode(*t.To())
	}
	if kind == "create" {
		if t, ok := tx.(*types.Transaction); ok {
			e.pendingCreate = append(e.pendingCreate, crypto.CreateAddress(m.From, t.Nonce(), t.Data()))
		}
	}
	e.all = append(e.all, m)
	e.byHash[h] = m
	return m
}

// remaining is the committed balance of a minus the cost of what the node
// offers for a.
func (e *Engine) remaining(a common.Address) *big.Int {
	r := new(big.Int).Set(e.W.Led.Get(a).Balance)
	for _, tx := range e.offeredBy[a] {
		if _, _, c, ok := AcctPart(tx); ok {
			r.Sub(r, c)
		}
	}
	return r
}

// gen draws the next submission. It returns the transaction and whether the
// submission is a plain re-delivery of known bytes.
func (e *Engine) gen() *MTx {
	t := e.Work
	w := e.Cfg.W
	u := e.W.Users[t.Int(len(e.W.Users))]
	kind := []string{"next", "future", "stale", "conflict", "dup", "under", "over", "badgas", "fund", "spend", "spendacc", "kiconflict", "kidup", "create", "ccall", "kill", "tofuture", "spendall", "respent", "createfail"}[t.Pick(w.Next, w.Future, w.Stale, w.Conflict, w.Dup, w.Under, w.Over, w.BadGas, w.Fund, w.Spend, w.SpendAcc, w.KIConflict, w.KIDup, w.Create, w.CCall, w.Kill, w.ToFuture, w.SpendAll, w.Respent, w.CreateFail)]
	amt := e.amount(t)
	to := e.recipient(t, u)
	gap := uint64(t.Range(1, 3))
	pick := t.Int(1 << 16)
	c := e.committedNonce(u.Addr)
	var m *MTx
	switch kind {
	case "fund", "spend", "spendacc", "kiconflict", "kidup", "spendall", "respent":
		m = e.genUTXO(kind, u, pick)
		if m != nil && m.Pure {
			return m
		}
		if m != nil && m.User >= 0 {
			u = e.W.Users[m.User]
			c = e.committedNonce(u.Addr)
		}
	case "create", "ccall", "kill", "tofuture", "createfail":
		m = e.genContract(kind, u, pick)
		if m != nil && m.User >= 0 {
			u = e.W.Users[m.User]
			c = e.committedNonce(u.Addr)
		}
	case "dup":
		if len(e.all) > 0 {
			// recent ones more often
			k := len(e.all) - 1 - pick%minInt(len(e.all), 8)
			src := e.all[k]
			if src.External && !e.isCommitted(src) {
				break
			}
			m = &MTx{Seq: src.Seq, Tx: src.Tx, Hash: src.Hash, From: src.From, User: src.User, Nonce: src.Nonce, Cost: src.Cost, Kind: "dup", BasicOK: src.BasicOK, Pure: src.Pure, KIs: src.KIs, Ins: src.Ins, ToCode: src.ToCode, Target: src.Target}
			m.StaleAtGen = !m.Pure && m.Nonce < e.committedNonce(m.From)
			if src.User >= 0 {
				u = e.W.Users[src.User]
			}
		}
	case "stale":
		if c > 0 {
			m = e.record(u, u.Transfer(c-1-uint64(pick)%minU64(c, 3), to, amt, 0, nil), kind)
		}
	case "conflict":
		ns := e.sortedNonces(u.Addr)
		if len(ns) > 0 {
			m = e.record(u, u.Transfer(ns[pick%len(ns)], to, amt, 0, nil), kind)
		}
	case "future":
		m = e.record(u, u.Transfer(e.nextFree(u)+gap, to, amt, 0, nil), kind)
	case "under":
		rem := e.remaining(u.Addr)
		if rem.Sign() < 0 {
			rem = big.NewInt(0)
		}
		big1 := new(big.Int).Add(rem, big.NewInt(int64(1+pick)))
		m = e.record(u, u.Transfer(e.nextFree(u), to, big1, 0, nil), kind)
	case "over":
		payload := make([]byte, 33*1024)
		m = e.record(u, u.Transfer(e.nextFree(u), to, amt, 0, payload), kind)
	case "badgas":
		g := types.CalNewAmountGas(amt, types.EverLiankeFee)
		if pick%2 == 0 {
			g++
		} else {
			g--
		}
		m = e.record(u, u.Transfer(e.nextFree(u), to, amt, g, nil), kind)
	}
	if m == nil {
		m = e.record(u, u.Transfer(e.nextFree(u), to, amt, 0, nil), "next")
	}
	if e.queueAffecting(m) && !e.canQueue(u) {
		// fall back to something that cannot enter the future queue
		e.C.Probe("gen-queue-deferred")
		for _, o := range e.W.Users {
			if len(e.futureSet(o.Addr)) > 0 || e.qaInflight(o.Addr) {
				// the one user that holds the queue may go on
				m2 := e.record(o, o.Transfer(e.nextFree(o), to, amt, 0, nil), "next")
				if !e.queueAffecting(m2) || e.canQueue(o) {
					return m2
				}
			}
		}
		if c > 0 {
			return e.record(u, u.Transfer(c-1, to, amt, 0, nil), "stale")
		}
		payload := make([]byte, 33*1024)
		return e.record(u, u.Transfer(e.nextFree(u), to, amt, 0, payload), "over")
	}
	return m
}

func (e *Engine) qaInflight(a common.Address) bool {
	for _, f := range e.inflight {
		if f.qa && f.m.From == a {
			return true
		}
	}
	return false
}

func (e *Engine) isCommitted(m *MTx) bool {
	_, ok := e.W.Committed[m.Hash]
	return ok
}

func minInt(a, b int) int {
	if a < b {
		return a
	}
	return b
}

func minU64(a, b uint64) uint64 {
	if a < b {
		return a
	}
	return b
}

// ---------------------------------------------------------------- driver

func (e *Engine) run() {
	e.refreshOffer()
	for e.steps = 0; e.steps < e.Cfg.Steps && !e.Stopped(); e.steps++ {
		a := e.Cfg.A
		wStart, wRel := a.Start, a.Release
		if len(e.inflight) >= e.Cfg.Clients {
			wStart = 0
		}
		parked := e.parked()
		if len(parked) == 0 {
			wRel = 0
		}
		switch e.Sch.Pick(wStart, wRel, a.Reap, a.Block, a.Tick, a.Extra) {
		case 0:
			e.stepStart()
		case 1:
			e.stepRelease(parked)
		case 2:
			e.stepReap()
		case 3:
			e.stepBlock()
		case 4:
			e.stepTick()
		case 5:
			if e.Opt.Extra != nil {
				if what := e.Opt.Extra(e, e.Sch); what != "" {
					e.Tracef("extra %s", what)
				}
			}
		}
		e.C.Event(1)
		if e.Stopped() {
			return
		}
		e.oracle(e.Sch.Int(8) < e.Cfg.HeavyPct)
		if e.Opt.AfterStep != nil && !e.Stopped() {
			e.Opt.AfterStep(e)
		}
	}
}

func (e *Engine) parked() []*flight {
	var out []*flight
	for _, f := range e.inflight {
		if f.sub.Parked() {
			out = append(out, f)
		}
	}
	return out
}

func (e *Engine) stepStart() {
	m := e.gen()
	pb := e.Sch.Bool(7, 8)
	pa := e.Sch.Bool(1, 3)
	e.Submit(m, pb, pa)
}

// Submit starts a client submission of m.
func (e *Engine) Submit(m *MTx, parkBefore, parkAfter bool) *Submission {
	e.subSeq++
	f := &flight{m: m, qa: e.queueAffecting(m)}
	staleAtStart := !m.Pure && m.Nonce < e.committedNonce(m.From)
	committedAtStart := e.isCommitted(m)
	spentAtStart := false
	if e.U != nil {
		for _, k := range m.KIs {
			if _, ok := e.U.KICommitted[k]; ok {
				spentAtStart = true
			}
		}
	}
	if !parkBefore && !parkAfter && e.Cfg.Tight && e.entersQueueNow(m) && e.otherQueuedAddr(m.From) {
		parkBefore = true
	}
	var onBasic func()
	if t, ok := m.Tx.(*types.Transaction); ok && t.To() != nil {
		to := *t.To()
		onBasic = func() {
			// the gas rule was just evaluated for what the destination is now
			m.ToCode = e.hasCode(to)
			if x := e.byHash[m.Hash]; x != nil {
				x.ToCode = m.ToCode
			}
		}
	}
	f.sub = e.W.StartHook(e.subSeq, m.Tx, parkBefore, parkAfter, onBasic)
	f.sub.Tag = [3]bool{staleAtStart, committedAtStart, spentAtStart}
	if m.Pure {
		e.Tracef("start #%d pure %s %s ki=%s", e.subSeq, m.Kind, short(m.Hash), kiLabel(m.KIs))
	} else {
		e.Tracef("start #%d u%d n%d %s %s", e.subSeq, m.User, m.Nonce, m.Kind, short(m.Hash))
	}
	e.C.Probe("submit-" + m.Kind)
	e.inflight = append(e.inflight, f)
	e.collect()
	return f.sub
}

func short(h common.Hash) string { return fmt.Sprintf("%x", h[:3]) }

func (e *Engine) stepRelease(parked []*flight) {
	pick := e.Sch.Int(len(parked))
	var ok []*flight
	for _, f := range parked {
		if e.releasable(f) {
			ok = append(ok, f)
		}
	}
	if len(ok) == 0 {
		e.C.Probe("release-deferred")
		e.Tracef("release deferred (%d parked)", len(parked))
		return
	}
	f := ok[pick%len(ok)]
	e.Tracef("release #%d", f.sub.ID)
	e.W.Release(f.sub)
	e.collect()
}

// entersQueueNow: would m, entering the pool right now, end in the node's
// future queue (nonce ahead of the executable one, or the pool full)?
func (e *Engine) entersQueueNow(m *MTx) bool {
	if !e.validNow(m) || m.Pure {
		return false
	}
	c := e.committedNonce(m.From)
	if m.Nonce < c {
		return false
	}
	if e.nodeHasOrExecuted(m) {
		return false
	}
	if m.Nonce == c+uint64(len(e.offeredBy[m.From])) && len(e.offered)+1 <= e.W.Cfg.Mem.Size && len(e.offered)+1 <= e.W.Cfg.Mem.MaxReapSize {
		return false
	}
	return true
}

// validNow: does m pass the basic check against the committed state (by
// construction: well-formed, legal gas for what its destination is now)?
func (e *Engine) validNow(m *MTx) bool {
	o := m
	if x := e.byHash[m.Hash]; x != nil {
		o = x
	}
	if !o.BasicOK {
		return false
	}
	if o.Kind == "ccall" || o.Kind == "kill" {
		return e.hasCode(o.Target)
	}
	return true
}

// nodeHasOrExecuted: the same bytes are committed, or the node may hold them
// (then a re-delivery is refused as a duplicate or for its nonce).
func (e *Engine) nodeHasOrExecuted(m *MTx) bool {
	if e.isCommitted(m) {
		return true
	}
	x, ok := e.held[m.From][m.Hash]
	return ok && x.Accepted
}

func (e *Engine) otherQueuedAddr(a common.Address) bool {
	for _, o := range e.W.Users {
		if o.Addr != a && len(e.futureSet(o.Addr)) > 0 {
			return true
		}
	}
	return false
}

// releasable: may this parked client take its next step now? In tight runs
// the step that enters the pool is held back while it would give a second
// account entries in the node's future queue (see canQueue).
func (e *Engine) releasable(f *flight) bool {
	if !e.Cfg.Tight {
		return true
	}
	st := f.sub.State()
	final := st == SubParkedAfter || (st == SubParkedBefore && !f.sub.ParkAfter)
	if !final || !e.entersQueueNow(f.m) {
		return true
	}
	return !e.otherQueuedAddr(f.m.From)
}

// drainClients lets every client call return; where the discipline of tight
// runs holds a client back, blocks are committed to make room first.
func (e *Engine) drainClients() {
	for tries := 0; ; tries++ {
		progressed := false
		for _, f := range append([]*flight(nil), e.inflight...) {
			for k := 0; k < 3 && !f.sub.Done() && (tries >= 8 || e.releasable(f)); k++ {
				e.W.Release(f.sub)
				progressed = true
				e.collect()
				e.oracle(false)
				if e.Stopped() {
					return
				}
			}
		}
		e.collect()
		if len(e.inflight) == 0 || e.Stopped() {
			return
		}
		if !progressed {
			if tries < 8 {
				e.C.Probe("drain-needs-block")
				if e.ProduceFromPool(e.W.MaxTxs()) == nil && e.Stopped() {
					return
				}
				e.oracle(false)
				if e.Stopped() {
					return
				}
			} else if tries > 12 {
				return
			}
		}
	}
}

// collect harvests finished submissions.
func (e *Engine) collect() {
	keep := e.inflight[:0]
	for _, f := range e.inflight {
		if !f.sub.Done() {
			keep = append(keep, f)
			continue
		}
		e.onDone(f)
	}
	e.inflight = keep
}

func (e *Engine) onDone(f *flight) {
	m := f.m
	if x := e.byHash[m.Hash]; x != nil {
		m = x
	}
	err := f.sub.Err()
	tag := f.sub.Tag.([3]bool)
	if err == nil {
		e.Tracef("done #%d accepted", f.sub.ID)
		e.C.Probe("accepted-" + f.m.Kind)
		e.everAcc[m.Hash] = true
		// refusal boundary: what the chain already executed, and nonces the
		// chain has already consumed, must be refused by AddTx
		if tag[1] {
			if e.Violate("replay-accepted", "mempool-accepts-committed-tx", "AddTx returned nil for %s (u%d nonce %d) which was committed at height %d before the submission started", short(m.Hash), m.User, m.Nonce, e.W.Committed[m.Hash]) {
				return
			}
		} else if tag[0] {
			if e.Violate("stale-accepted", "mempool-accepts-consumed-nonce", "AddTx returned nil for %s (u%d nonce %d) although the sender's committed nonce was already %d when the submission started", short(m.Hash), m.User, m.Nonce, e.committedNonce(m.From)) {
				return
			}
		}
		if tag[2] && !tag[1] {
			if e.Violate("spent-accepted", "mempool-accepts-spent-key-image", "AddTx returned nil for %s whose key image %s was already committed (in %s) when the submission started", short(m.Hash), kiLabel(m.KIs), e.spentIn(m)) {
				return
			}
		}
		if f.m.Kind == "kitorsion" {
			if e.Violate("torsion-accepted", "mempool-accepts-key-image-outside-prime-order-subgroup", "AddTx returned nil for %s whose key image(s) %s carry a small-order component (not in the prime-order subgroup): the spent set compares bytes, so an output spent under I can be spent again under I+T", short(m.Hash), kiLabel(m.KIs)) {
				return
			}
		}
		if m.Kind == "kidup" || (f.m.Kind == "kidup") {
			if e.Violate("kidup-accepted", "mempool-accepts-duplicate-key-image-in-tx", "AddTx returned nil for %s which carries the same key image twice", short(m.Hash)) {
				return
			}
		}
		if m.Pure {
			if !e.isCommitted(m) && !e.anySpent(m) {
				m.Accepted = true
				m.AcceptedAt = e.now()
				e.livePure[m.Hash] = m
			}
			return
		}
		if !e.isCommitted(m) && m.Nonce >= e.committedNonce(m.From) {
			e.addLive(m)
		}
		return
	}
	e.Tracef("done #%d refused: %v", f.sub.ID, err)
	e.C.Probe("refused-" + errName(err))
}

func errName(err error) string {
	switch err {
	case types.ErrTxDuplicate:
		return "duplicate"
	case types.ErrNonceTooLow:
		return "nonce-low"
	case types.ErrNonceTooHigh:
		return "nonce-high"
	case types.ErrInsufficientFunds:
		return "funds"
	case types.ErrMempoolIsFull:
		return "full"
	case types.ErrOversizedData:
		return "oversized"
	case types.ErrGasLimitOrGasPrice:
		return "gas"
	case types.ErrUtxoTxDoubleSpend:
		return "double-spend"
	case types.ErrCheckDupKeyImage:
		return "dup-key-image-in-tx"
	case types.ErrUtxoTxFeeTooLow:
		return "utxo-fee"
	}
	return "other"
}

func (e *Engine) stepReap() {
	k := 1 + e.Sch.Int(6)
	txs := e.W.Chain.Mempool.Reap(k)
	e.Tracef("reap(%d)=%d", k, len(txs))
	e.C.Evals(1)
	e.checkOffer(txs, fmt.Sprintf("Reap(%d)", k), false)
}

func (e *Engine) stepTick() {
	var d time.Duration
	if e.Cfg.Evict && e.Sch.Bool(1, 3) {
		d = time.Duration(e.Sch.Range(3, 40)) * time.Second
	} else {
		d = time.Duration(e.Sch.Range(1, 2500)) * time.Millisecond
		// stay clear of the age limits in runs that are not about eviction
		if !e.Cfg.Evict && e.now()+d > 10*time.Second {
			d = time.Millisecond
		}
	}
	e.Tracef("tick %v", d)
	time.Sleep(d)
	synctest.Wait()
	e.C.SimTime(d)
}

// stepBlock produces and commits one block.
func (e *Engine) stepBlock() {
	// one commit in three runs with client steps interleaved INSIDE CommitBlock
	e.raceNext = e.Sch.Bool(1, 3)
	defer func() { e.raceNext = false }()
	if e.Sch.Int(8) < e.Cfg.ExtRate {
		e.externalBlock()
		return
	}
	maxTxs := e.W.MaxTxs()
	// capped reaps only where the order across senders is reproducible
	if e.Cfg.Tight && e.Sch.Bool(1, 3) {
		maxTxs = 1 + e.Sch.Int(4)
	}
	e.ProduceFromPool(maxTxs)
}

// ProduceFromPool builds a block from the node's own mempool and commits it.
func (e *Engine) ProduceFromPool(maxTxs int) *types.Block {
	b, site, msg, panicked := e.W.Propose(maxTxs, nil, false)
	if panicked {
		key, detail := e.notExecKey(site, b)
		if !e.Violate("offer-not-executable", key, "a block built by CreateBlock(%d)+PreRunBlock from the mempool's offer did not execute: %s (%s) %s", maxTxs, msg, e.describe(b), detail) {
			e.flushPool()
		}
		return nil
	}
	e.checkOffer(b.Data.Txs, fmt.Sprintf("CreateBlock(%d)", maxTxs), false)
	if e.Stopped() {
		return nil
	}
	return e.commit(b, "pool")
}

func (e *Engine) describe(b *types.Block) string {
	if b == nil || b.Data == nil {
		return "no block"
	}
	s := ""
	for i, tx := range b.Data.Txs {
		if i >= 12 {
			s += " ..."
			break
		}
		s += " " + e.txLabel(tx)
	}
	return fmt.Sprintf("height %d txs:%s", b.Height, s)
}

func (e *Engine) txLabel(tx types.Tx) string {
	if m := e.byHash[tx.Hash()]; m != nil {
		if m.Pure {
			return fmt.Sprintf("spend/%s/ki=%s", short(m.Hash), kiLabel(m.KIs))
		}
		return fmt.Sprintf("u%d/n%d/%s", m.User, m.Nonce, short(m.Hash))
	}
	return short(tx.Hash())
}

func (e *Engine) commit(b *types.Block, what string) *types.Block {
	var res CommitResult
	if e.raceNext {
		e.raceNext = false
		res = e.commitRace(b)
	} else {
		res = e.W.Commit(b)
	}
	if res.Err != nil {
		e.C.HarnessTrouble("commit of a %s block failed: %v (%s)", what, res.Err, e.describe(b))
		e.Stop()
		return nil
	}
	if !res.RepCheck || !res.NodeCheck {
		if what == "pool" {
			e.Violate("offer-rejected", fmt.Sprintf("offer-rejected/replica=%v/node=%v", res.RepCheck, res.NodeCheck), "CheckBlock refused a block the node built from its own mempool (replica accepts=%v, node accepts=%v): %s", res.RepCheck, res.NodeCheck, e.describe(b))
		} else {
			e.C.HarnessTrouble("a valid-by-construction %s block was refused (replica=%v node=%v): %s", what, res.RepCheck, res.NodeCheck, e.describe(b))
			e.Stop()
		}
		return nil
	}
	e.Tracef("commit h%d %s %d txs", b.Height, what, len(b.Data.Txs))
	e.C.Probe("block-" + what)
	if len(b.Data.Txs) > 0 {
		e.C.Probe("block-nonempty")
	}
	return b
}

// onCommitted updates the model after a block.
func (e *Engine) onCommitted(b *types.Block) {
	for _, tx := range b.Data.Txs {
		if m := e.byHash[tx.Hash()]; m != nil {
			if m.Pure {
				m.Accepted = false
				delete(e.livePure, m.Hash)
			} else {
				e.dropLive(m)
			}
		}
	}
	e.noteUtxoCommitted(b)
	if len(e.pendingCreate) > 0 {
		keep := e.pendingCreate[:0]
		for _, a := range e.pendingCreate {
			if e.contractAt[a] == nil {
				keep = append(keep, a)
			}
		}
		e.pendingCreate = keep
	}
	e.checkLedger()
	e.sinceCommit = true
	if e.Opt.AfterCommit != nil {
		e.Opt.AfterCommit(e, b)
	}
}

// externalBlock builds the block another proposer could have built: per
// sender a prefix of what this node offers, plus (for at most one sender)
// transactions this node's mempool has never seen — fillers for a gap in its
// future queue, rivals of its pending ones, or transactions still in flight.
func (e *Engine) externalBlock() {
	t := e.Sch
	led := e.W.Led.Copy()
	var txs types.Txs
	var extUser *User
	if t.Bool(2, 3) {
		u := e.W.Users[t.Int(len(e.W.Users))]
		if e.canQueue(u) && !e.otherQueued(u) {
			extUser = u
		}
	}
	nExt := t.Range(1, 3)
	killed := map[common.Address]bool{}
	var tail types.Txs
	useFlight := t.Bool(1, 2)
	rival := t.Bool(1, 2)
	for _, u := range e.W.Users {
		off := e.offeredBy[u.Addr]
		k := t.Int(len(off) + 1)
		if u == extUser && rival && k > 0 {
			k--
		}
		for _, tx := range off[:k] {
			// (an honest proposer's block: what the listed code-change finding
			// left poisoned in this node's offer is not copied)
			if m := e.byHash[tx.Hash()]; m != nil && !e.validNow(m) {
				break
			}
			if m := e.byHash[tx.Hash()]; m != nil {
				if t, ok := tx.(*types.Transaction); ok && t.To() != nil && e.hasCode(*t.To()) != m.ToCode {
					break
				}
			}
			if !led.ApplyTx(tx) {
				break
			}
			txs = append(txs, tx)
		}
		if u != extUser {
			continue
		}
		for j := 0; j < nExt; j++ {
			n := led.Get(u.Addr).Nonce
			var cand *types.Transaction
			if useFlight {
				for _, f := range e.inflight {
					if tr, ok := f.m.Tx.(*types.Transaction); ok && f.m.From == u.Addr && f.m.Nonce == n && e.validNow(f.m) && !killed[f.m.Target] {
						cand = tr
					}
				}
			}
			kindExt := "external"
			if cand == nil && e.Cfg.Contracts && t.Bool(1, 2) && led.Get(u.Addr).Balance.Cmp(new(big.Int).Mul(big.NewInt(2*gasCreate), GasPrice)) > 0 {
				if cs := e.aliveContracts(); len(cs) > 0 && t.Bool(2, 3) {
					c := cs[t.Int(len(cs))]
					if !killed[c.Addr] {
						cand = e.killTx(u, n, c)
						killed[c.Addr] = true
						kindExt = "kill"
					}
				} else {
					cand, _ = e.creationTx(u, n)
					kindExt = "create"
				}
			}
			if cand == nil && t.Int(8) < e.Cfg.VMFailExt {
				// a transfer that is included, pays for nothing and moves nothing:
				// the gas can be bought, the value is not covered after that
				// (fails in execution, must still consume its nonce)
				// (the value is far above anything the sender can hold: the
				// simulated balance here is a lower bound of the real one)
				bal := led.Get(u.Addr).Balance
				val := new(big.Int).Add(new(big.Int).Mul(bal, big.NewInt(2)), big.NewInt(1e18))
				f := u.Transfer(n, e.W.Sinks[t.Int(len(e.W.Sinks))], val, 0, nil)
				fee := new(big.Int).Mul(new(big.Int).SetUint64(f.Gas()), f.GasPrice())
				if bal.Sign() > 0 && bal.Cmp(fee) >= 0 {
					cand = f
					kindExt = "vmfail"
				}
			}
			if cand == nil {
				amt := big.NewInt(int64(2000 + t.Int(5000)))
				cand = u.Transfer(n, e.W.Sinks[t.Int(len(e.W.Sinks))], amt, 0, nil)
			}
			if kindExt != "vmfail" && led.Get(u.Addr).Balance.Cmp(Cost(cand)) < 0 {
				break
			}
			m := e.record(u, cand, kindExt)
			if kindExt == "kill" {
				m.Target = *cand.To()
			} else if kindExt == "create" {
				m.Target = crypto.CreateAddress(u.Addr, cand.Nonce(), cand.Data())
			}
			if !m.Accepted && !e.everAcc[m.Hash] && e.inflightHash(m.Hash) == nil {
				m.External = true
			}
			led.ApplyTransfer(u.Addr, cand)
			e.C.Probe("external-tx")
			if kindExt == "kill" {
				// a self-destruct goes to the very end of the block (nothing
				// after it may address the contract) and ends the sender's run
				tail = append(tail, CopyTx(cand))
				break
			}
			txs = append(txs, CopyTx(cand))
		}
	}
	if e.U != nil {
		// confidential part: a subset of the offered spends, then possibly a
		// rival spend this node has never seen
		used := map[lk.Key]bool{}
		pickR := t.Int(1 << 16)
		wantRival := t.Bool(1, 2)
		if wantRival && t.Bool(1, 2) {
			// the rival first: the node's own spend of that output must go
			if m := e.rivalSpend(pickR); m != nil {
				for _, k := range m.KIs {
					used[k] = true
				}
				txs = append(txs, CopyTx(m.Tx))
				e.C.Probe("external-rival-spend")
			} else if e.Stopped() {
				return
			}
			wantRival = false
		}
		for _, tx := range e.offeredPure {
			if !t.Bool(1, 2) {
				continue
			}
			clash := false
			for _, k := range keyImages(tx) {
				if used[k] {
					clash = true
				}
			}
			if clash {
				continue
			}
			for _, k := range keyImages(tx) {
				used[k] = true
			}
			led.ApplyTx(tx)
			txs = append(txs, tx)
		}
		if wantRival {
			if m := e.rivalSpend(pickR); m != nil {
				clash := false
				for _, k := range m.KIs {
					if used[k] {
						clash = true
					}
				}
				if !clash {
					txs = append(txs, CopyTx(m.Tx))
					e.C.Probe("external-rival-spend")
				}
			} else if e.Stopped() {
				return
			}
		}
	}
	txs = append(txs, tail...)
	b, site, msg, panicked := e.W.Propose(0, txs, true)
	if panicked {
		// name the first transaction the executor refuses
		culprit := ""
		for k := 1; k <= len(txs); k++ {
			if _, _, _, p := e.W.Propose(0, txs[:k], true); p {
				culprit = e.txLabel(txs[k-1])
				if m := e.byHash[txs[k-1].Hash()]; m != nil {
					culprit += " kind " + m.Kind + fmt.Sprintf(" toCode=%v now=%v", m.ToCode, e.hasCode(m.Target))
				}
				break
			}
		}
		e.Tracef("external block refused at %s", culprit)
		e.C.HarnessTrouble("external block did not execute at %s: %s (%s; first refused: %s)", site, msg, e.describe(b), culprit)
		e.Stop()
		return
	}
	e.commit(b, "external")
}

func (e *Engine) inflightHash(h common.Hash) *flight {
	for _, f := range e.inflight {
		if f.m.Hash == h {
			return f
		}
	}
	return nil
}

func (e *Engine) otherQueued(u *User) bool {
	if !e.Cfg.Tight {
		return false
	}
	for _, o := range e.W.Users {
		if o != u && len(e.futureSet(o.Addr)) > 0 {
			return true
		}
	}
	return false
}

// finish drains: every client returns, then blocks are produced until the
// mempool offers nothing more.
func (e *Engine) finish() {
	if !e.Stopped() {
		e.drainClients()
		if e.Stopped() {
			goto done
		}
		e.oracle(true)
		for i := 0; i < 12 && !e.Stopped(); i++ {
			e.steps++
			e.refreshOffer()
			if len(e.offered) == 0 {
				break
			}
			if e.ProduceFromPool(e.W.MaxTxs()) == nil {
				break
			}
			e.oracle(false)
			if e.Opt.AfterStep != nil && !e.Stopped() {
				e.Opt.AfterStep(e)
			}
		}
		if !e.Stopped() && e.Opt.AtEnd != nil {
			e.Opt.AtEnd(e)
		}
	}
done:
	// let every goroutine go
	for _, f := range e.inflight {
		e.W.Finish(f.sub)
	}
	e.W.StopMempool(e.W.Chain)
	e.W.StopMempool(e.W.Rep)

	c := e.C
	nBlocks, nTx := len(e.W.Blocks), len(e.W.Committed)
	if nTx >= 3 && nBlocks >= 2 && (e.Opt.NonTrivial == nil || e.Opt.NonTrivial(e)) {
		c.NonTrivial()
	}
	// order-insensitive fingerprint: committed set per block, final ledger
	for _, b := range e.W.Blocks {
		hs := make([]common.Hash, 0, len(b.Data.Txs))
		for _, tx := range b.Data.Txs {
			hs = append(hs, tx.Hash())
		}
		SortHashes(hs)
		c.Finger(b.Height, len(hs))
		for _, h := range hs {
			c.Finger(h.Hex())
		}
	}
	for _, u := range e.W.Users {
		a := e.W.Led.Get(u.Addr)
		c.Finger(u.Idx, a.Nonce, a.Balance.String())
	}
	c.Finger(len(e.all), e.liveCount())
	mc := e.W.Cfg.Mem
	c.Sample(map[string]interface{}{
		"users": len(e.W.Users), "vals": e.W.Cfg.NVals, "trie": e.W.Cfg.IsTrie, "cache": e.Cfg.UseCache, "tight": e.Cfg.Tight, "evict": e.Cfg.Evict,
		"size": mc.Size, "future": mc.FutureSize, "maxReap": mc.MaxReapSize, "acctQueue": mc.AccountQueue, "removeFuture": mc.RemoveFutureTx, "utxo": e.Cfg.UTXO, "contracts": e.Cfg.Contracts, "utxoSize": mc.UTXOSize,
		"steps": e.steps, "blocks": nBlocks, "committed": nTx, "generated": len(e.all), "trace": e.trace,
	})
}

// commitRace commits b with the committing goroutine parked at a tape-chosen
// log line of CommitBlock while client steps run: a prepared rival (a contract
// creation, whose basic check needs no state lock, carrying the nonce the
// sender will have right after this block while the pool holds another
// transaction with that nonce) and/or releases of parked clients. At the park
// point after the speculative state was replaced the committer holds the pool
// lock on a correct tree: the client simply waits behind it (normal outcome).
func (e *Engine) commitRace(b *types.Block) CommitResult {
	t := e.Sch
	// (ParkBeforeSave is not used: in kv mode the speculative state reads the
	// store the block's state was just written to, so between the state commit
	// and Mempool.Update the pool lives on a mixture of both states that no
	// model can judge and that consensus, being the committing goroutine,
	// never sees.)
	at := []string{ParkStateReplaced, ParkStateReplaced, ParkStateReplaced, ParkCommitStart}[t.Int(4)]
	pickRel := t.Int(1 << 16)
	steps := 1 + t.Int(2)
	useRival := t.Bool(2, 3)
	if at == ParkStateReplaced {
		steps = 1 // one waiter behind the committer's locks: the wake-up order of several is not reproducible
	}
	var rival *MTx
	if useRival {
		rival = e.prepareRival(b)
	}
	// only at the park point where the committer holds locks a client can end
	// up blocked on a mutex (no quiescence to wait for); at the other one every
	// client step is followed by a proper quiescence wait
	res, parked := e.W.CommitRace(b, at, at == ParkStateReplaced, func() {
		for i := 0; i < steps; i++ {
			if rival != nil && i == 0 {
				e.Tracef("  inside CommitBlock (%q): rival u%d n%d %s", at, rival.User, rival.Nonce, short(rival.Hash))
				e.Submit(rival, false, false)
				e.C.Probe("race-rival-submitted")
				e.raceObserve(at)
				continue
			}
			var ok []*flight
			for _, f := range e.parked() {
				if e.releasable(f) {
					ok = append(ok, f)
				}
			}
			if len(ok) == 0 {
				break
			}
			f := ok[(pickRel+i)%len(ok)]
			e.Tracef("  inside CommitBlock (%q): release #%d", at, f.sub.ID)
			e.W.Release(f.sub)
			e.C.Probe("race-release")
			e.raceObserve(at)
		}
		e.raceObserve(at)
	})
	if parked {
		e.C.Probe("commit-parked/" + at)
	}
	e.collect()
	return res
}

// raceObserve lets the model look at the pool between a client step taken
// inside CommitBlock and the rest of the commit, where that is a quiescent
// point: at the park points before the block is stored the committer holds no
// lock and the pool still lives on the pre-block state (what the node decides
// there, e.g. dropping an uncovered transaction at a promotion, must be judged
// against that state, not against the one after the commit).
func (e *Engine) raceObserve(at string) {
	if at != ParkCommitStart || e.Stopped() {
		return
	}
	e.collect()
	for _, f := range e.inflight {
		if !f.sub.Done() && !f.sub.Parked() {
			return
		}
	}
	e.oracle(false)
}

// prepareRival builds a transaction for the moment inside CommitBlock: from a
// sender that can pay a creation and will still have pending transactions
// after block b, with the nonce that sender has right after b.
func (e *Engine) prepareRival(b *types.Block) *MTx {
	inBlock := map[common.Address]uint64{}
	for _, tx := range b.Data.Txs {
		if from, _, _, ok := AcctPart(tx); ok {
			inBlock[from]++
		}
	}
	need := new(big.Int).Mul(big.NewInt(2*gasCreate), GasPrice)
	for _, min := range []uint64{2, 1} {
		for _, u := range e.W.Users {
			if uint64(len(e.offeredBy[u.Addr])) < inBlock[u.Addr]+min || e.remaining(u.Addr).Cmp(need) < 0 {
				continue
			}
			n := e.committedNonce(u.Addr) + inBlock[u.Addr]
			code := e.newCode()
			tx := signedTx(u, types.NewContractCreation(n, big.NewInt(0), gasCreate, nil, code))
			m := e.record(u, tx, "conflict")
			m.Target = crypto.CreateAddress(u.Addr, n, code)
			return m
		}
	}
	return nil
}
