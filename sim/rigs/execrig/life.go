package execrig

import (
	"bytes"
	"fmt"
	"math/big"

	"github.com/lianxiangcloud/linkchain/libs/common"
	"github.com/lianxiangcloud/linkchain/state"

	"verif/sim/simdb"
	"verif/sim/simnode"
	"verif/sim/txgen"
)

// diskState opens the world state stored on the replica's disk for height h
// through the public state API: a fresh state.StateDB over the database, no
// cache, no object of the running application (cache size 0: the kv undo log
// is not touched).
func diskState(r *txgen.Replica, disk *simdb.Disk, h uint64) (*state.StateDB, error) {
	res, err := r.Chain.BlockStore.LoadTxsResult(h)
	if err != nil {
		return nil, fmt.Errorf("LoadTxsResult(%d): %v", h, err)
	}
	return state.New(res.TrieRoot, state.NewKeyValueDBWithCache(disk.DB(simnode.DBState), 0, r.Spec.IsTrie, h))
}

// lifeView is what one replica's disk says about the life-cycle contracts:
// for every address the storage model knows (alive or not) code presence,
// nonce, coin balance, token balances and every slot any incarnation touched.
//
// Slots of addresses whose contract self-destructed (the address may exist
// again as a plain account after a transfer to it) and of contracts created
// again at such an address are kept apart ("after destruction"): they are
// where the finding keyDestroyedStorage shows.
type lifeView struct {
	text       []byte   // canonical rendering of everything but the slots after destruction (replica-vs-replica comparison)
	after      []byte   // the slots after destruction
	diffs      []string // disagreements with the model
	afterDiffs []string // disagreements with the model in slots after destruction
}

// keyDestroyedStorage is the key of the finding "flat key/value mode keeps the
// storage of a self-destructed contract; it is visible again as soon as an
// account exists at the address".
const keyDestroyedStorage = "diverge/storage-mode/recreated-account-sees-destroyed-storage"

func readLife(st *state.StateDB, snap *txgen.LifeSnapshot) *lifeView {
	v := &lifeView{}
	var b, ab bytes.Buffer
	for _, a := range snap.Addrs {
		code := st.GetCodeSize(a)
		fmt.Fprintf(&b, "%x code=%d nonce=%d bal=%v tokens=[", a[:], code, st.GetNonce(a), st.GetBalance(a))
		for _, tv := range st.GetTokenBalances(a) {
			fmt.Fprintf(&b, "%x:%v,", tv.TokenAddr[:], tv.Value)
		}
		b.WriteString("]")
		if (code > 0) != snap.Alive[a] {
			v.diffs = append(v.diffs, fmt.Sprintf("code-presence: contract %x has %d bytes of code, model says alive=%v", a[:6], code, snap.Alive[a]))
		}
		after := !snap.Alive[a] || snap.Births[a] > 1
		for _, k := range sortedKeys(snap.Slots[a]) {
			got := new(big.Int).SetBytes(st.GetState(a, txgen.SlotHash(k)))
			want := snap.Slots[a][k]
			d := ""
			if got.Text(16) != want {
				d = fmt.Sprintf("slot-value: contract %x (alive=%v, creations at this address %d) slot %x reads %s, model %s", a[:6], snap.Alive[a], snap.Births[a], trimKey(k), got.Text(16), want)
			}
			if after {
				fmt.Fprintf(&ab, "%x %x=%s;", a[:], trimKey(k), got.Text(16))
				if d != "" {
					v.afterDiffs = append(v.afterDiffs, d)
				}
				continue
			}
			fmt.Fprintf(&b, " %x=%s", trimKey(k), got.Text(16))
			if d != "" {
				v.diffs = append(v.diffs, d)
			}
		}
		b.WriteString(";")
	}
	v.text, v.after = b.Bytes(), ab.Bytes()
	return v
}

func trimKey(k string) []byte {
	t := bytes.TrimLeft([]byte(k), "\x00")
	if len(t) == 0 {
		return []byte{0}
	}
	if len(t) > 6 {
		t = t[:6]
	}
	return t
}

func sortedKeys(m map[string]string) []string {
	out := make([]string, 0, len(m))
	for k := range m {
		out = append(out, k)
	}
	for i := 1; i < len(out); i++ {
		for j := i; j > 0 && out[j] < out[j-1]; j-- {
			out[j], out[j-1] = out[j-1], out[j]
		}
	}
	return out
}

// lifeDiffs lists the disagreements between the replica's disk at height h and the model.
func lifeDiffs(r *txgen.Replica, disk *simdb.Disk, h uint64, snap *txgen.LifeSnapshot) []string {
	st, err := diskState(r, disk, h)
	if err != nil {
		return []string{"state unreadable: " + err.Error()}
	}
	return readLife(st, snap).diffs
}

// lifeAfterDiffs is lifeDiffs for the slots after destruction.
func lifeAfterDiffs(r *txgen.Replica, disk *simdb.Disk, h uint64, snap *txgen.LifeSnapshot) []string {
	st, err := diskState(r, disk, h)
	if err != nil {
		return []string{"state unreadable: " + err.Error()}
	}
	return readLife(st, snap).afterDiffs
}

// lifeInst is one instance (persistent replica or ephemeral repetition) that
// has committed the current block.
type lifeInst struct {
	name string
	r    *txgen.Replica
	disk *simdb.Disk
}

func firstDiff(a, b []byte) string {
	as, bs := bytes.Split(a, []byte(";")), bytes.Split(b, []byte(";"))
	for i := range as {
		if i >= len(bs) || !bytes.Equal(as[i], bs[i]) {
			o := []byte("<nothing>")
			if i < len(bs) {
				o = bs[i]
			}
			return fmt.Sprintf("%s  VERSUS  %s", as[i], o)
		}
	}
	return "lengths differ"
}

// lifeOracle runs after every instance has committed the block and the
// storage model has been advanced: what every instance's DISK (a fresh state
// object over the database, not the running application) says about the
// life-cycle contracts - code, nonce, balances, every slot ever touched - is
// the same on all of them and equals the model.
func (w *world) lifeOracle(h uint64, insts []lifeInst, items []*txgen.Item) bool {
	c, m := w.c, w.life.M
	cnt := [4]int{m.Deletes, m.Kills, m.Rebirths, m.ZeroReads}
	for i, n := range []string{"life/slot-cleared-in-committed-block", "life/contract-with-storage-destroyed", "life/contract-re-created-at-same-address", "life/slot-cleared-in-earlier-block-read-or-rewritten"} {
		for k := w.lifeCnt[i]; k < cnt[i]; k++ {
			c.Probe(n)
		}
	}
	w.lifeCnt = cnt
	if m.StatusMismatch > 0 {
		c.Probe("life/receipt-status-not-expected-by-model")
		m.StatusMismatch = 0
	}
	if len(m.C) == 0 {
		return true
	}
	snap := m.Snapshot()
	var first *lifeView
	for i, in := range insts {
		st, err := diskState(in.r, in.disk, h)
		if err != nil {
			c.Violate("diverge", "state-unreadable/after-commit", "height %d: the state %s committed cannot be opened from its disk: %v", h, in.name, err)
			return false
		}
		v := readLife(st, snap)
		c.Evals(1)
		mode := map[bool]string{true: "trie", false: "kv"}[in.r.Spec.IsTrie]
		if len(v.diffs) > 0 {
			what := "slot-value"
			if v.diffs[0][:4] == "code" {
				what = "code-presence"
			}
			c.Violate("model", "model/contract-storage/"+what, "height %d, instance %s (%s mode), state read back from disk: %s; block: %s", h, in.name, mode, v.diffs[0], describe(items))
			return false
		}
		if i == 0 {
			first = v
			if len(v.afterDiffs) > 0 {
				c.Violate("model", keyDestroyedStorage, "height %d, instance %s (%s mode), state read back from disk: %s", h, in.name, mode, v.afterDiffs[0])
			}
			continue
		}
		if !bytes.Equal(first.text, v.text) {
			c.Violate("diverge", "diverge/contract-state-on-disk", "height %d: the committed state of the contracts read back from disk differs between %s and %s (%s mode): %s; block: %s", h, insts[0].name, in.name, mode, firstDiff(first.text, v.text), describe(items))
			return false
		}
		if !bytes.Equal(first.after, v.after) || len(v.afterDiffs) > 0 {
			d := firstDiff(first.after, v.after)
			if len(v.afterDiffs) > 0 {
				d = v.afterDiffs[0]
			}
			// known finding: continue (execution is not affected unless code is created at the address again)
			c.Violate("diverge", keyDestroyedStorage, "height %d: storage of a self-destructed contract is visible again at its address on %s (%s mode) and not on %s: %s", h, in.name, mode, insts[0].name, d)
		}
	}
	return !c.Failed()
}

var _ = common.Address{}
