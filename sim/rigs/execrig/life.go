package execrig

import (
	"bytes"
	"fmt"
	"os"
	"strings"

	"github.com/lianxiangcloud/linkchain/state"

	"verif/sim/simdb"
	"verif/sim/simnode"
	"verif/sim/txgen"
)

// diskState opens the world state stored on the replica's disk for height h
// through the public state API: a fresh state.StateDB over the database, no
// cache, no object of the running application (cache size 0: the kv undo log
// is not touched).
func diskState(r *txgen.Replica, disk *simdb.Disk, h uint64) (*state.StateDB, error) {
	res, err := r.Chain.BlockStore.LoadTxsResult(h)
	if err != nil {
		return nil, fmt.Errorf("LoadTxsResult(%d): %v", h, err)
	}
	return state.New(res.TrieRoot, state.NewKeyValueDBWithCache(disk.DB(simnode.DBState), 0, r.Spec.IsTrie, h))
}

// keyDestroyedStorage: storage of a self-destructed contract is visible again
// at its address (repaired in /repo bcc989e: the flat key/value mode used to
// keep the entries). It shows in the slots txgen.ReadLife keeps apart as
// "after destruction". A violation like any other.
const keyDestroyedStorage = "diverge/storage-mode/recreated-account-sees-destroyed-storage"

// lifeDiffs lists the disagreements between the replica's disk at height h and the model.
func lifeDiffs(r *txgen.Replica, disk *simdb.Disk, h uint64, snap *txgen.LifeSnapshot) []string {
	st, err := diskState(r, disk, h)
	if err != nil {
		return []string{"state unreadable: " + err.Error()}
	}
	return txgen.ReadLife(st, snap).Diffs
}

// lifeAfterDiffs is lifeDiffs for the slots after destruction.
func lifeAfterDiffs(r *txgen.Replica, disk *simdb.Disk, h uint64, snap *txgen.LifeSnapshot) []string {
	st, err := diskState(r, disk, h)
	if err != nil {
		return []string{"state unreadable: " + err.Error()}
	}
	return txgen.ReadLife(st, snap).AfterDiffs
}

// lifeInst is one instance (persistent replica or ephemeral repetition) that
// has committed the current block.
type lifeInst struct {
	name string
	r    *txgen.Replica
	disk *simdb.Disk
}

// lifeOracle runs after every instance has committed the block and the
// storage model has been advanced: what every instance's DISK (a fresh state
// object over the database, not the running application) says about the
// life-cycle contracts - code, nonce, balances, every slot ever touched - is
// the same on all of them and equals the model.
func (w *world) lifeOracle(h uint64, insts []lifeInst, items []*txgen.Item) bool {
	c, m := w.c, w.life.M
	cnt := [4]int{m.Deletes, m.Kills, m.Rebirths, m.ZeroReads}
	for i, n := range []string{"life/slot-cleared-in-committed-block", "life/contract-with-storage-destroyed", "life/contract-re-created-at-same-address", "life/slot-cleared-in-earlier-block-read-or-rewritten"} {
		for k := w.lifeCnt[i]; k < cnt[i]; k++ {
			c.Probe(n)
		}
	}
	w.lifeCnt = cnt
	if m.StatusMismatch > 0 {
		c.Probe("life/receipt-status-not-expected-by-model")
		m.StatusMismatch = 0
	}
	// debugging aid (sensitivity of the single oracle layers): C05_SKIP=disk
	// leaves only the comparison of execution results, C05_SKIP=model only the
	// comparisons between instances
	skip := os.Getenv("C05_SKIP")
	if len(m.C) == 0 || strings.Contains(skip, "disk") {
		return true
	}
	snap := m.Snapshot()
	var first *txgen.LifeView
	for i, in := range insts {
		st, err := diskState(in.r, in.disk, h)
		if err != nil {
			c.Violate("diverge", "state-unreadable/after-commit", "height %d: the state %s committed cannot be opened from its disk: %v", h, in.name, err)
			return false
		}
		v := txgen.ReadLife(st, snap)
		if strings.Contains(skip, "model") {
			v.Diffs, v.AfterDiffs = nil, nil
		}
		c.Evals(1)
		mode := map[bool]string{true: "trie", false: "kv"}[in.r.Spec.IsTrie]
		if len(v.Diffs) > 0 {
			what := "slot-value"
			if v.Diffs[0][:4] == "code" {
				what = "code-presence"
			}
			c.Violate("model", "model/contract-storage/"+what, "height %d, instance %s (%s mode), state read back from disk: %s; block: %s", h, in.name, mode, v.Diffs[0], describe(items))
			return false
		}
		if i == 0 {
			first = v
			if len(v.AfterDiffs) > 0 {
				c.Violate("model", keyDestroyedStorage, "height %d, instance %s (%s mode), state read back from disk: %s", h, in.name, mode, v.AfterDiffs[0])
				return false
			}
			continue
		}
		if !bytes.Equal(first.Text, v.Text) {
			c.Violate("diverge", "diverge/contract-state-on-disk", "height %d: the committed state of the contracts read back from disk differs between %s and %s (%s mode): %s; block: %s", h, insts[0].name, in.name, mode, txgen.FirstLifeDiff(first.Text, v.Text), describe(items))
			return false
		}
		if !bytes.Equal(first.After, v.After) || len(v.AfterDiffs) > 0 {
			d := txgen.FirstLifeDiff(first.After, v.After)
			if len(v.AfterDiffs) > 0 {
				d = v.AfterDiffs[0]
			}
			c.Violate("diverge", keyDestroyedStorage, "height %d: storage of a self-destructed contract is visible again at its address on %s (%s mode) and not on %s: %s", h, in.name, mode, insts[0].name, d)
			return false
		}
	}
	return !c.Failed()
}
