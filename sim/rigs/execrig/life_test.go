package execrig

// Direct tests of the life-cycle contracts / storage model of txgen against
// the real code (no kernel): a scripted chain on one trie-mode and one kv-mode
// replica; after every block the storage read back from disk through the
// public state API must equal the model on both.
//
//   cd /verif/sim && . ../env.sh && mkoverlay /verif/build/overlay.json && \
//   go1.26.8 test -tags verif -vet=off -overlay /verif/build/overlay.json ./rigs/execrig -run TestLife -v

import (
	"math/big"
	"testing"

	"github.com/lianxiangcloud/linkchain/libs/common"
	"github.com/lianxiangcloud/linkchain/libs/crypto"
	"github.com/lianxiangcloud/linkchain/libs/log"
	"github.com/lianxiangcloud/linkchain/types"

	"verif/sim/kernel"
	"verif/sim/simdb"
	"verif/sim/simnode"
	"verif/sim/txgen"
)

type lifeChain struct {
	t     *testing.T
	gen   *txgen.Gen
	life  *txgen.LifeGen
	reps  []*txgen.Replica
	disks []*simdb.Disk
	now   uint64
}

func newLifeChain(t *testing.T, seed uint64) *lifeChain {
	simnode.InitGlobals()
	tape := kernel.NewTape(seed)
	var cb common.Address
	cb[0] = 0xc5
	val := simnode.ValKey{Priv: crypto.GenPrivKeyEd25519FromSecret([]byte("c05-life-val")), Power: 10, CoinBase: cb}
	gen := txgen.New(tape, txgen.Config{Accounts: 3, Validators: []simnode.ValKey{val}, Kinds: []txgen.Kind{txgen.KTransfer}})
	lc := &lifeChain{t: t, gen: gen, life: txgen.NewLife(gen, tape.Fork("life")), now: 946684800 + 10}
	for _, isTrie := range []bool{true, false} {
		spec := &simnode.GenesisSpec{ChainID: "verif-c05-life", Vals: []simnode.ValKey{val}, Alloc: gen.Alloc(), IsTrie: isTrie}
		disk := simdb.NewDisk(t.TempDir())
		if err := spec.Install(disk); err != nil {
			t.Fatal(err)
		}
		r, err := txgen.OpenReplica(map[bool]string{true: "trie", false: "kv"}[isTrie], spec, disk, simnode.ChainOpts{})
		if err != nil {
			t.Fatal(err)
		}
		lc.reps, lc.disks = append(lc.reps, r), append(lc.disks, disk)
	}
	return lc
}

// block commits items on both replicas (built by the trie replica) and checks
// receipts equality and the storage model.
func (lc *lifeChain) block(items ...*txgen.Item) types.Receipts {
	t := lc.t
	lc.now += 5
	P := lc.reps[0]
	blk, parts, err := P.Propose(txgen.BlockSpec{Txs: txgen.Txs(items), Explicit: true, Time: lc.now})
	if err != nil {
		t.Fatalf("propose: %v", err)
	}
	seen, err := P.SignCommit(blk, parts)
	if err != nil {
		t.Fatal(err)
	}
	var first types.Receipts
	for i, r := range lc.reps {
		b, _ := txgen.CloneBlock(blk)
		ok, err := r.Check(b)
		if err != nil || !ok {
			t.Fatalf("height %d: replica %s rejects the block (ok=%v err=%v)", blk.Height, r.Name, ok, err)
		}
		if _, err := r.Commit(b, b.MakePartSet(r.Chain.Status.ConsensusParams.BlockGossip.BlockPartSizeBytes), seen, false); err != nil {
			t.Fatalf("commit on %s: %v", r.Name, err)
		}
		rs := r.Receipts(blk.Height)
		if i == 0 {
			first = rs
		} else if rs.Hash() != first.Hash() {
			t.Fatalf("height %d: receipts differ between trie and kv replica", blk.Height)
		}
	}
	if _, err := lc.life.Committed(blk.Height, blk.Data.Txs, first); err != nil {
		t.Fatal(err)
	}
	for i, it := range items {
		t.Logf("h%d tx%d %-12s status=%d gas=%d logs=%d  %s", blk.Height, i, it.Kind, first[i].Status, first[i].GasUsed, len(first[i].Logs), it.Note)
	}
	for i, r := range lc.reps {
		for _, d := range lifeDiffs(r, lc.disks[i], blk.Height, lc.life.M.Snapshot()) {
			t.Errorf("height %d replica %s: %s", blk.Height, r.Name, d)
		}
	}
	return first
}

// blockMayDiverge is block for the reproduction of a divergence: it reports
// instead of aborting.
func (lc *lifeChain) blockMayDiverge(items ...*txgen.Item) string {
	lc.now += 5
	P := lc.reps[0]
	blk, parts, err := P.Propose(txgen.BlockSpec{Txs: txgen.Txs(items), Explicit: true, Time: lc.now})
	if err != nil {
		lc.t.Fatalf("propose: %v", err)
	}
	seen, _ := P.SignCommit(blk, parts)
	var first types.Receipts
	for i, r := range lc.reps {
		b, _ := txgen.CloneBlock(blk)
		ok, err := r.Check(b)
		if err != nil {
			lc.t.Fatal(err)
		}
		if !ok {
			return "the " + r.Name + "-mode replica REJECTS the block built by the " + P.Name + "-mode replica from the same committed chain"
		}
		if _, err := r.Commit(b, b.MakePartSet(r.Chain.Status.ConsensusParams.BlockGossip.BlockPartSizeBytes), seen, false); err != nil {
			lc.t.Fatal(err)
		}
		if i == 0 {
			first = r.Receipts(blk.Height)
		}
	}
	if _, err := lc.life.Committed(blk.Height, blk.Data.Txs, first); err != nil {
		lc.t.Fatal(err)
	}
	for i, r := range lc.reps {
		snap := lc.life.M.Snapshot()
		if d := append(lifeDiffs(r, lc.disks[i], blk.Height, snap), lifeAfterDiffs(r, lc.disks[i], blk.Height, snap)...); len(d) > 0 {
			return r.Name + "-mode replica: " + d[0]
		}
	}
	return ""
}

func op(o int, a, b int64) txgen.LifeOp { return txgen.LifeOp{Op: o, A: big.NewInt(a), B: big.NewInt(b)} }

// lifeScript runs blocks 1-4 of the scripted chain: create, overwrite, clear,
// read, increment, copy, colliding CREATE2, revert, SELFDESTRUCT of a child
// holding storage, coin and an issued token.
func lifeScript(t *testing.T) (lc *lifeChain, F, child common.Address) {
	lc = newLifeChain(t, 7)
	g, lg := lc.gen, lc.life
	a0, a1 := g.Accts[0], g.Accts[1]

	cr := lg.CreateLife(a0, 3, txgen.LK(2))
	fc := lg.CreateFactory(a1)
	is := g.Create(a1, txgen.CIssuer, big.NewInt(0), 18)
	rs := lc.block(cr, fc, is)
	for i, r := range rs {
		if r.Status != types.ReceiptStatusSuccessful {
			t.Fatalf("creation %d failed: %s", i, r.VMErr)
		}
	}
	L := cr.NewAddr
	F = fc.NewAddr
	if c := lg.M.C[L]; c == nil || !c.Alive || len(c.Slots) != 3 {
		t.Fatalf("model after creation: %+v", c)
	}
	// block 2: overwrite, clear, set new, read; spawn child 0; issue tokens
	rs = lc.block(
		lg.Ops(a0, L, big.NewInt(0), []txgen.LifeOp{op(txgen.LifeSet, 0, 77), op(txgen.LifeSet, 1, 0), op(txgen.LifeSet, 5, 9), op(txgen.LifeGet, 2, 0)}),
		lg.Spawn(a1, F, 0),
		g.Call(a1, txgen.KCallIssue, is.NewAddr, big.NewInt(0), txgen.CallIssue(big.NewInt(5e12), a1.Addr), 0, false),
	)
	if len(rs[0].Logs) != 1 || new(big.Int).SetBytes(rs[0].Logs[0].Data).Cmp(lg.M.C[L].Value(string(common.LeftPadBytes([]byte{2}, 32)))) != 0 {
		t.Fatalf("get(2) logged %x", rs[0].Logs)
	}
	child = txgen.LifeChildAddr(F, 0)
	if c := lg.M.C[child]; c == nil || !c.Alive {
		t.Fatalf("child not alive in the model (spawn status %d %s)", rs[1].Status, rs[1].VMErr)
	}
	// block 3: read the cleared slot, inc it, copy; collision spawn; child ops; tokens into the child
	rs = lc.block(
		lg.Ops(a0, L, big.NewInt(0), []txgen.LifeOp{op(txgen.LifeGet, 1, 0), op(txgen.LifeInc, 1, 3), op(txgen.LifeCopy, 1, 4), op(txgen.LifeSet, 5, 0)}),
		lg.Spawn(a1, F, 0),
		lg.Ops(a0, child, txgen.LK(1), []txgen.LifeOp{op(txgen.LifeSet, 3, 33), op(txgen.LifeSet, 0, 0)}),
		lg.TokenOps(a1, is.NewAddr, child, big.NewInt(1e12), []txgen.LifeOp{op(txgen.LifeSet, 4, 44)}),
	)
	if rs[1].Status == types.ReceiptStatusSuccessful {
		t.Fatalf("colliding CREATE2 succeeded")
	}
	if len(rs[0].Logs) != 1 || new(big.Int).SetBytes(rs[0].Logs[0].Data).Sign() != 0 {
		t.Fatalf("read of the cleared slot logged %x", rs[0].Logs[0].Data)
	}
	// block 4: revert leaves nothing; kill the child (holding storage, coin, token) in favour of a0
	rs = lc.block(
		lg.Ops(a0, L, big.NewInt(0), []txgen.LifeOp{op(txgen.LifeSet, 0, 0), op(txgen.LifeRevert, 0, 0)}),
		lg.Ops(a1, child, big.NewInt(0), []txgen.LifeOp{op(txgen.LifeSet, 1, 0), {Op: txgen.LifeKill, A: new(big.Int).SetBytes(a0.Addr[:])}}),
	)
	if rs[0].Status == types.ReceiptStatusSuccessful || rs[1].Status != types.ReceiptStatusSuccessful {
		t.Fatalf("statuses %d %d", rs[0].Status, rs[1].Status)
	}
	if lg.M.C[child].Alive {
		t.Fatalf("child alive after kill")
	}
	if got := g.L.Balance(is.NewAddr, a0.Addr); got.Cmp(big.NewInt(1e12)) != 0 {
		t.Fatalf("ledger: beneficiary holds %v of the token", got)
	}
	// block 5: the cleared slot is written again (a fresh slot: full price), the emptied one read
	rs = lc.block(lg.Ops(a0, L, big.NewInt(0), []txgen.LifeOp{op(txgen.LifeSet, 5, 6), op(txgen.LifeGet, 5, 0)}))
	if m := lg.M; m.Deletes == 0 || m.Kills == 0 || m.ZeroReads == 0 || m.StatusMismatch != 0 {
		t.Fatalf("model counters: %+v", m)
	}
	return lc, F, child
}

func TestLifeScripted(t *testing.T) { lifeScript(t) }

// TestReproRecreatedContractSeesDestroyedStorage reproduces the finding
// diverge/storage-mode/recreated-contract-sees-destroyed-storage: in the flat
// key/value storage mode SELFDESTRUCT removes the account record only; the
// storage entries (addrHash|slotHash) stay in the database, and a contract
// created again at the same address (CREATE2) reads them, while a trie-mode
// node starts the new incarnation with empty storage. FAILS on the unfixed
// tree; written to pass once the defect is fixed.
func TestReproRecreatedContractSeesDestroyedStorage(t *testing.T) {
	lc, F, child := lifeScript(t)
	lg := lc.life
	a0 := lc.gen.Accts[0]
	// the child died holding slots 1 (constructor value 0x22; cleared in the
	// dying transaction itself), 3 and 4. Re-create it: the constructor writes
	// slots 0 and 1 again.
	blk := lc.blockMayDiverge(lg.Spawn(a0, F, 0))
	if blk != "" {
		t.Fatalf("block re-creating the contract at %x: %s", child[:6], blk)
	}
	// the new incarnation reads the slots the old one held
	if d := lc.blockMayDiverge(lg.Ops(a0, child, big.NewInt(0), []txgen.LifeOp{op(txgen.LifeGet, 3, 0), op(txgen.LifeGet, 4, 0), op(txgen.LifeGet, 0, 0), op(txgen.LifeSet, 3, 1)})); d != "" {
		t.Fatalf("block reading the re-created contract: %s", d)
	}
}

// TestLifeRandom drives the random life-cycle generator for many blocks.
func TestLifeRandom(t *testing.T) {
	for seed := uint64(1); seed <= 6; seed++ {
		lc := newLifeChain(t, seed)
		for b := 0; b < 14; b++ {
			items := lc.life.Batch(1 + b%4)
			if b%3 == 0 {
				items = append(items, lc.gen.Batch(1)...)
			}
			lc.block(items...)
			if t.Failed() {
				return
			}
		}
		m := lc.life.M
		t.Logf("seed %d: contracts=%d deletes=%d kills=%d rebirths=%d zero-reads=%d status-mismatch=%d", seed, len(m.C), m.Deletes, m.Kills, m.Rebirths, m.ZeroReads, m.StatusMismatch)
		if m.StatusMismatch != 0 {
			t.Errorf("seed %d: %d receipts with a status the model did not expect", seed, m.StatusMismatch)
		}
	}
}

// TestGovernCoefficient: the real Coefficient contract in genesis; the
// governor changes every coefficient, another account is refused.
func TestGovernCoefficient(t *testing.T) {
	simnode.InitGlobals()
	tape := kernel.NewTape(3)
	var cb common.Address
	cb[0] = 0xc5
	val := simnode.ValKey{Priv: crypto.GenPrivKeyEd25519FromSecret([]byte("c05-gov-val")), Power: 10, CoinBase: cb}
	gen := txgen.New(tape, txgen.Config{Accounts: 3, Validators: []simnode.ValKey{val}, Kinds: []txgen.Kind{txgen.KTransfer}})
	for _, isTrie := range []bool{true, false} {
		spec := &simnode.GenesisSpec{ChainID: "verif-c05-gov", Vals: []simnode.ValKey{val}, Alloc: gen.Alloc(), IsTrie: isTrie, VotePeriod: 3, CoefficientContract: true, Governor: gen.Accts[0].Addr}
		disk := simdb.NewDisk(t.TempDir())
		if err := spec.Install(disk); err != nil {
			t.Fatal(err)
		}
		r, err := txgen.OpenReplica("P", spec, disk, simnode.ChainOpts{})
		if err != nil {
			t.Fatal(err)
		}
		gen.Reset()
		a0, a1 := gen.Accts[0], gen.Accts[1]
		n0 := gen.L.Nonce(a0.Addr)
		_ = n0
		items := []*txgen.Item{
			gen.Govern(a0, txgen.GovVotePeriod(2)),
			gen.Govern(a0, txgen.GovVoteRate(5, 2, 7)),
			gen.Govern(a0, txgen.GovCalRate(1, 2, 3)),
			gen.Govern(a0, txgen.GovMaxScore(77)),
			gen.Govern(a0, txgen.GovUTXOFee(big.NewInt(600000000))),
			gen.Govern(a1, txgen.GovVotePeriod(9)), // no right
			gen.Govern(a0, txgen.GovVotePeriod(0)), // refused by the contract
		}
		blk, err := r.Step(txgen.BlockSpec{Txs: txgen.Txs(items), Explicit: true, Time: 946684800 + 20})
		if err != nil {
			t.Fatal(err)
		}
		rs := r.Receipts(blk.Height)
		for i, rc := range rs {
			t.Logf("trie=%v tx%d status=%d gas=%d %s", isTrie, i, rc.Status, rc.GasUsed, items[i].Note)
			want := uint64(types.ReceiptStatusSuccessful)
			if i >= 5 {
				want = types.ReceiptStatusFailed
			}
			if rc.Status != want {
				t.Errorf("tx %d: status %d, want %d (%s)", i, rc.Status, want, rc.VMErr)
			}
		}
		st, err := diskState(r, disk, blk.Height)
		if err != nil {
			t.Fatal(err)
		}
		co := st.GetCoefficient(log.NewNopLogger())
		t.Logf("coefficient after the block: %+v", co)
		if co == nil || co.VotePeriod != 2 || co.Nume != 2 || co.Deno != 5 || co.UpperLimit != 7 || co.Srate != 1 || co.MaxScore != 77 || co.UTXOFee.Int64() != 600000000 {
			t.Fatalf("coefficients not as governed: %+v", co)
		}
		if g := r.Chain.App.GetUTXOGas(); g != 600000000 {
			t.Fatalf("running application reports UTXO gas %d", g)
		}
		if _, err := gen.Committed(blk.Height, blk.Data.Txs, rs); err != nil {
			t.Fatal(err)
		}
		// the generator is reused for the second storage mode: forget the ledger's nonces
		gen = txgen.New(kernel.NewTape(3), txgen.Config{Accounts: 3, Validators: []simnode.ValKey{val}, Kinds: []txgen.Kind{txgen.KTransfer}})
	}
}
