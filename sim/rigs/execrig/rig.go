// Package execrig is the C05 rig: block execution is a deterministic function
// of the prior state and the block. Blocks are built on a proposer replica and
// executed on replicas that differ in everything the statement says must not
// matter: storage mode, mempool/signature-cache contents, age (long-lived or
// just reopened from the disk image), validator vs fast-sync path, the order in
// which the parallel signature pre-check workers pass the cache, and plain
// repetition (fresh instances re-executing the same block from the same image).
package execrig

import (
	"bytes"
	"crypto/sha256"
	"encoding/hex"
	"fmt"
	"math/big"
	"net"
	"os"
	"path/filepath"
	"runtime"
	"sort"
	"testing/synctest"
	"time"

	cfg "github.com/lianxiangcloud/linkchain/config"
	"github.com/lianxiangcloud/linkchain/libs/common"
	"github.com/lianxiangcloud/linkchain/libs/crypto"
	"github.com/lianxiangcloud/linkchain/libs/log"
	"github.com/lianxiangcloud/linkchain/libs/p2p"
	p2pcmn "github.com/lianxiangcloud/linkchain/libs/p2p/common"
	"github.com/lianxiangcloud/linkchain/libs/ser"
	"github.com/lianxiangcloud/linkchain/types"

	"verif/sim/kernel"
	"verif/sim/simdb"
	"verif/sim/simnode"
	"verif/sim/txgen"
)

func init() {
	if os.Getenv("C05_LOG") == "" { // debugging aid: keep the node's log
		log.Root().SetHandler(log.DiscardHandler())
	}
	kernel.Register(&kernel.Rig{
		Property: "C05", Name: "R-chain/replicas", Level: "exploration",
		Rule:        "one run = one seeded chain of 2-10 blocks (every transaction kind of txgen incl. failing calls, token maps, WASM test contracts, multi-signature/upgrade, confidential transactions; optional elections with VotePeriod 2-3 so that the validator set changes) built on proposer P (explicit list or mempool) and executed on 2-4 persistent replicas + 1-3 ephemeral repetitions per block (fresh instances reopened from a pre-block disk image) that differ in storage mode (trie/kv), mempool cache (off / cold / warm with the block's transactions / warm with other transactions / entries parked before their basic check), age (long-lived / reopened before every block), path (CommitBlock fastsync flag), and the tape-decided order in which the signature pre-check workers pass GetTxFromCache; in 5 of 6 runs contract storage life cycles across blocks (txgen.LifeGen: CLife contracts whose constructor writes slots; later blocks overwrite, clear, read / increment / copy / re-write slots cleared in EARLIER blocks, set+clear and clear+set inside one transaction, reverted calls, coin and issued tokens sent in, SELFDESTRUCT of contracts holding storage, coin and tokens to itself / an account / a fresh address / another contract; a factory CREATE2s children, colliding CREATE2, and - in 2 of 3 of those runs - re-creation of a destroyed child at the same address followed by reads of every slot the old incarnation held); with life cycles on the replica set always holds both storage modes; in 1 of 2 runs the genesis holds the REAL Coefficient wasm contract (simnode CoefficientContract) and every other block carries a governance transaction of the account holding the committee right (sometimes of one that does not): vote period 1-4, vote rate, ranking rates, maximal score, confidential-transfer fee - in force from the next block on, for replicas running since genesis as for reopened ones and the fresh repetitions; sometimes a Byzantine block carrying an unbalanced confidential transaction among 0-5 valid transfers (every position, so that the failing pre-check worker has succeeding neighbours) is offered to all replicas, a block with neighbours twice per replica under tape-chosen release orders of the gated pre-check workers. Oracle: an honest block is accepted everywhere (a proposer panic on an explicit list is judged by a second opinion of the same instance on hash-identical objects that passed its basic check: success there = the execution depends on values cached in transaction objects); the stored TxsResult (gas, state hash, receipt hash, bloom, candidates; trie root among same-mode replicas), receipts+logs, the confidential outputs and key images written, the special transactions recorded and the next validator list are byte-equal after encoding on every replica and repetition; after every block the state of every life-cycle contract (code, nonce, coin and token balances, every slot any incarnation ever touched) is read back from every instance's DISK through a fresh state.StateDB (not the running application) and must be identical on all instances and equal to the rig's own storage model (plain maps advanced from calldata and receipt statuses); the validators CommitBlock returns equal what GetValidators(height) (the replay path) computes from the committed block on the same instance; Byzantine blocks get the same verdict everywhere. non-trivial = >= 2 blocks with >= 6 transactions executed on >= 3 instances; distinct = hash of the chain's (state hash, receipt hash) sequence and the replica variants",
		Real:        []string{"app.LinkApplication (CreateBlock, PreRunBlock, CheckBlock incl. verifyTxsOnProcess workers, CommitBlock, election path)", "state processor/transition", "state.StateDB trie and kv mode (real kvState.wal file)", "vm/evm, vm/wasm", "mempool incl. tx cache (txHeap) and AddTx", "blockchain.BlockStore", "utxo.UtxoStore", "txmgr", "consensus.BlockExecutor.ApplyBlock", "p2p.ConManager (socket-free) as sink of the election callback", "secp256k1"},
		Stub:        []string{"consensus state machine (commit signed by the harness with the validator keys)", "storage engine (SimDB)", "libxcrypto (pure-Go model: group arithmetic real, range proof transparent)", "fee-distribution WASM contract not deployed"},
		Assumptions: []string{"runtime.NumCPU() is fixed per machine (recorded in the sample): the worker count (NumCPU+3)/4 is not varied, the order of the workers at the cache is", "process-wide singletons (BlockBalanceRecordsInstance, BlacklistInstance, UTXO rate getter) are shared by the replicas of a run; the rate getter is re-registered before each replica acts, balance records are off as in node start-up, no blacklist transactions are generated"},
		QuickRuns:   1400, QuickBudget: 55 * time.Second, ThoroughRuns: 36000, ThoroughBudget: 15 * time.Minute,
		RunsPerProcess: 8, RunTimeout: 300 * time.Second,
		Run: run,
	})
}

// variant is what distinguishes a replica.
type variant struct {
	Name     string `json:"name"`
	IsTrie   bool   `json:"trie"`
	Cache    string `json:"cache"` // off | cold | same | other | unchecked
	Reopen   bool   `json:"reopen"`
	FastSync bool   `json:"fastsync"`
	Gate     bool   `json:"gate"`
}

type replica struct {
	v    variant
	r    *txgen.Replica
	disk *simdb.Disk
	dir  string
	hold *holdApp
	held int
}

type world struct {
	c       *kernel.Ctx
	gen     *txgen.Gen
	vals    []simnode.ValKey
	cands   []simnode.CandidateSpec
	period  uint64
	reps    []*replica // reps[0] is the proposer
	sched   *kernel.Tape
	now     uint64
	seq     int
	txCount int
	blocks  int
	insts   int
	smp     sample
	allKeys []simnode.ValKey
	closing []*txgen.Replica

	// contract storage life cycles (life.go)
	life     *txgen.LifeGen
	lifeMode int  // 0 off, 1 light, 2 heavy
	lifeCnt  [4]int

	// governance: the real Coefficient contract in genesis, gen.Accts[0] holds the right
	gov bool
}

type sample struct {
	NumCPU   int       `json:"num_cpu"`
	Workers  int       `json:"precheck_workers"`
	Variants []variant `json:"variants"`
	Period   uint64    `json:"vote_period"`
	Blocks   []string  `json:"blocks"`
	Byz      []string  `json:"byzantine,omitempty"`
	Life     string    `json:"storage_life_cycles,omitempty"`
}

func scratch(c *kernel.Ctx) string {
	base := os.Getenv("VERIF_SCRATCH")
	if base == "" {
		base = os.TempDir()
	}
	return filepath.Join(base, fmt.Sprintf("c05-%d", c.Tape.Seed()))
}

func run(c *kernel.Ctx) {
	defer os.RemoveAll(scratch(c))
	// the mempool cache's expiry loops can never be stopped: abandon the bubble
	kernel.Bubble(c, true, func() { runIn(c) })
}

func valKeys(tag string, seed uint64, n int) []simnode.ValKey {
	var out []simnode.ValKey
	for i := 0; i < n; i++ {
		var cb common.Address
		copy(cb[:], crypto.Keccak256([]byte(fmt.Sprintf("c05-%s-coinbase-%d", tag, i)))[:20])
		out = append(out, simnode.ValKey{Priv: crypto.GenPrivKeyEd25519FromSecret([]byte(fmt.Sprintf("c05-%s-%d-%d", tag, i, seed))), Power: int64(10 + 3*i), CoinBase: cb})
	}
	return out
}

var sharedConManager *p2p.ConManager

// conManager builds a real *p2p.ConManager without sockets (the sink of the
// election path's SetCandidate callback); one per process.
func conManager(key crypto.PrivKey) (*p2p.ConManager, error) {
	if sharedConManager != nil {
		return sharedConManager, nil
	}
	p2p.ListenerBindFunc = func(nodeType types.NodeType, fullListenAddrString string, externalAddrString string, logger log.Logger) (net.Listener, *p2p.NetAddress, *net.UDPConn, bool) {
		return nil, nil, nil, false
	}
	p2p.DefaultNewTableFunc = func(sw *p2p.Switch, seeds []*p2pcmn.Node) error {
		return sw.DefaultNewTable(seeds, false, false)
	}
	pc := cfg.DefaultP2PConfig()
	pc.ListenAddress = ""
	sw, err := p2p.NewP2pManager(log.NewNopLogger(), key, pc, p2p.NodeInfo{Moniker: "execrig"}, nil, simdb.NewDisk("").DB("p2p"))
	if err != nil {
		return nil, err
	}
	cm := sw.GetConManager()
	if cm == nil {
		return nil, fmt.Errorf("no connection manager")
	}
	sharedConManager = cm
	return cm, nil
}

func runIn(c *kernel.Ctx) {
	ct, wl := c.Tape.Fork("config"), c.Tape.Fork("workload")
	seed := c.Tape.Seed()
	w := &world{c: c, sched: c.Tape.Fork("schedule"), now: 946684800 + 10}
	w.vals = valKeys("val", seed, 1+ct.Int(3))
	elections := ct.Bool(1, 3)
	if elections {
		w.period = uint64(ct.Range(2, 3))
		nc := ct.Range(2, 5)
		for i, k := range valKeys("cand", seed, nc) {
			// no Deposit record (simnode's deposit layout starts with a zero byte,
			// which contract storage trims; the reader then sees garbage)
			w.cands = append(w.cands, simnode.CandidateSpec{Key: k, Score: int64(1 + ct.Int(5) + i)})
		}
	}
	w.allKeys = append([]simnode.ValKey(nil), w.vals...)
	for _, cd := range w.cands {
		w.allKeys = append(w.allKeys, cd.Key)
	}
	nBlocks, maxTxs, nReps := ct.Range(2, 5), ct.Range(3, 10), ct.Range(2, 3)
	if c.Tier == kernel.Thorough {
		nBlocks, maxTxs, nReps = ct.Range(3, 10), ct.Range(3, 16), ct.Range(2, 4)
	}
	// contract storage life cycles: their own configuration stream (the
	// "config" stream keeps its meaning)
	lt := c.Tape.Fork("life-config")
	w.lifeMode = lt.Pick(1, 2, 3)
	if os.Getenv("C05_LIFE") == "off" { // debugging aid: the workload without life cycles
		w.lifeMode = 0
	}
	rebirth := w.lifeMode > 0 && lt.Bool(2, 3)
	if w.lifeMode == 2 {
		nBlocks += lt.Int(3)
		if maxTxs > 6 {
			maxTxs = 6
		}
	}
	// governance: its own configuration stream too
	w.gov = c.Tape.Fork("gov-config").Bool(1, 2) && os.Getenv("C05_GOV") != "off"
	kinds := append(append(append([]txgen.Kind(nil), txgen.AccountKinds...), txgen.WasmKinds...), txgen.UtxoKinds...)
	w.gen = txgen.New(wl, txgen.Config{Accounts: 3 + ct.Int(4), BlockOnly: true, Utxo: true, Validators: w.allKeys, Kinds: kinds})
	w.life = txgen.NewLife(w.gen, c.Tape.Fork("life"))
	w.life.Rebirth = rebirth
	w.smp.Life = []string{"off", "light", "heavy"}[w.lifeMode]
	if rebirth {
		w.smp.Life += "+re-creation"
	}
	if w.gov {
		w.smp.Life += "; coefficient governance"
	}
	w.smp.NumCPU = runtime.NumCPU()
	w.smp.Workers = (runtime.NumCPU() + 3) >> 2
	w.smp.Period = w.period

	// variants: the proposer first
	cacheModes := []string{"off", "cold", "same", "other", "unchecked"}
	cacheBudget := 1 // at most one replica with a real tx cache per run (each cache preallocates tens of MB)
	for i := 0; i <= nReps; i++ {
		v := variant{Name: fmt.Sprintf("V%d", i), IsTrie: ct.Bool(1, 2), Cache: "off", Reopen: ct.Bool(1, 4), FastSync: ct.Bool(1, 3), Gate: ct.Bool(1, 2)}
		if i == 0 {
			v.Name, v.Reopen, v.Gate = "P", false, false
		}
		if i == nReps && w.lifeMode > 0 {
			// storage life cycles want both storage modes in the replica set
			same := true
			for _, o := range w.smp.Variants {
				same = same && o.IsTrie == w.smp.Variants[0].IsTrie
			}
			if same {
				v.IsTrie = !w.smp.Variants[0].IsTrie
			}
		}
		if i > 0 && cacheBudget > 0 && !v.Reopen && ct.Bool(2, 3) {
			v.Cache = cacheModes[1+ct.Int(4)]
			cacheBudget--
		}
		w.smp.Variants = append(w.smp.Variants, v)
		rp := &replica{v: v, dir: filepath.Join(scratch(c), v.Name)}
		os.MkdirAll(rp.dir, 0755)
		rp.disk = simdb.NewDisk(rp.dir)
		if err := w.spec(v.IsTrie).Install(rp.disk); err != nil {
			c.HarnessTrouble("genesis: %v", err)
			return
		}
		if err := w.open(rp); err != nil {
			c.HarnessTrouble("open %s: %v", v.Name, err)
			return
		}
		w.reps = append(w.reps, rp)
	}
	defer w.shutdown()
	P := w.reps[0]
	w.gen.Outputs = func(token common.Address, seq uint64) (*types.UTXOOutputData, error) {
		return w.reps[0].r.Chain.UtxoStore.GetUtxoOutput(token, seq)
	}
	w.gen.Cfg.UTXOGas = P.r.Chain.App.GetUTXOGas()

	for b := 0; b < nBlocks && !c.Failed() && c.Failed() == false; b++ {
		if !w.block(1+wl.Int(maxTxs), wl.Bool(1, 3)) {
			break
		}
		if txgen.UtxoReady() && wl.Bool(1, 3) {
			if !w.byzantine() {
				break
			}
		}
	}
	if w.blocks >= 2 && w.txCount >= 6 && w.insts >= 3 {
		c.NonTrivial()
	}
	vs, _ := ser.EncodeToBytes(fmt.Sprint(w.smp.Variants))
	c.Finger(string(vs))
	if len(w.smp.Blocks) > 5 {
		w.smp.Blocks = w.smp.Blocks[:5]
	}
	c.Sample(w.smp)
}

func (w *world) spec(isTrie bool) *simnode.GenesisSpec {
	g := &simnode.GenesisSpec{ChainID: "verif-c05", Vals: w.vals, Alloc: w.gen.Alloc(), IsTrie: isTrie, VotePeriod: w.period, Candidates: w.cands}
	if w.gov {
		g.CoefficientContract, g.Governor = true, w.gen.Accts[0].Addr
	}
	return g
}

// holdApp wraps the application the mempool calls: basic checks of selected
// transactions park (no lock is held at that point: the cache entry exists
// with BasicChecked=false) until released.
type holdApp struct {
	inner interface {
		GetNonce(addr common.Address) uint64
		GetBalance(addr common.Address) *big.Int
		CheckTx(tx types.Tx, checkType bool) error
	}
	hold    map[common.Hash]bool
	release chan struct{}
}

func (h *holdApp) GetNonce(a common.Address) uint64     { return h.inner.GetNonce(a) }
func (h *holdApp) GetBalance(a common.Address) *big.Int { return h.inner.GetBalance(a) }
func (h *holdApp) CheckTx(tx types.Tx, basic bool) error {
	if basic && h.hold[tx.Hash()] {
		<-h.release
	}
	return h.inner.CheckTx(tx, basic)
}

func (w *world) open(rp *replica) error {
	o := simnode.ChainOpts{}
	if rp.v.Cache != "off" {
		mc := cfg.DefaultMempoolConfig()
		mc.CacheSize = 1000
		mc.Broadcast = false
		o.MempoolCfg = mc
	}
	r, err := txgen.OpenReplica(rp.v.Name, w.spec(rp.v.IsTrie), rp.disk, o)
	if err != nil {
		return err
	}
	r.ExtraKeys = w.allKeys
	if w.period > 0 || w.gov {
		cm, err := conManager(w.vals[0].Priv)
		if err != nil {
			return err
		}
		r.Chain.App.SetConm(cm)
	}
	if rp.v.Cache == "unchecked" {
		rp.hold = &holdApp{inner: r.Chain.App, hold: map[common.Hash]bool{}, release: make(chan struct{})}
		r.Chain.Mempool.SetApp(rp.hold)
	}
	rp.r = r
	return nil
}

func (w *world) closeChain(r *txgen.Replica) { w.closing = append(w.closing, r) }

func (w *world) shutdown() {
	for _, rp := range w.reps {
		if rp.hold != nil && rp.held > 0 {
			close(rp.hold.release)
			rp.held = 0
		}
		w.closing = append(w.closing, rp.r)
	}
	for _, r := range w.closing {
		r.Chain.Close()
	}
	synctest.Wait()
	for _, r := range w.closing {
		r.Chain.Close()
	}
	synctest.Wait()
}

// reopen replaces the replica's instance by a fresh one over a copy of its disk image.
func (w *world) reopen(rp *replica) error {
	img := rp.disk.Snapshot()
	w.closeChain(rp.r)
	rp.disk = simdb.NewDiskFromImage(img, rp.dir)
	return w.open(rp)
}

// ---------------------------------------------------------------- observation

type observation struct {
	fields map[string]string // name -> digest
	trie   bool
}

func digest(parts ...[]byte) string {
	h := sha256.New()
	for _, p := range parts {
		fmt.Fprintf(h, "%d:", len(p))
		h.Write(p)
	}
	return hex.EncodeToString(h.Sum(nil)[:12])
}

func dumpDB(d *simdb.Disk, name string, skipPrefix ...string) []byte {
	var buf bytes.Buffer
	it := d.DB(name).Iterator(nil, nil)
	defer it.Close()
	for ; it.Valid(); it.Next() {
		k := it.Key()
		skip := false
		for _, p := range skipPrefix {
			if bytes.HasPrefix(k, []byte(p)) {
				skip = true
			}
		}
		if skip {
			continue
		}
		fmt.Fprintf(&buf, "%d:%x=%d:%x;", len(k), k, len(it.Value()), it.Value())
	}
	return buf.Bytes()
}

// observe collects what the statement says must be identical.
func observe(r *txgen.Replica, disk *simdb.Disk, h uint64, vals []*types.Validator) (*observation, error) {
	o := &observation{fields: map[string]string{}, trie: r.Spec.IsTrie}
	tr, err := r.Chain.BlockStore.LoadTxsResult(h)
	if err != nil {
		return nil, err
	}
	o.fields["gas-used"] = fmt.Sprint(tr.GasUsed)
	o.fields["state-hash"] = tr.StateHash.Hex()
	o.fields["receipt-hash"] = tr.ReceiptHash.Hex()
	o.fields["logs-bloom"] = digest(tr.LogsBloom[:])
	cb, err := ser.EncodeToBytes(tr.Candidates)
	if err != nil {
		return nil, err
	}
	o.fields["candidates"] = digest(cb)
	if r.Spec.IsTrie {
		o.fields["trie-root(trie-mode)"] = tr.TrieRoot.Hex()
	} else {
		o.fields["trie-root(kv-mode)"] = tr.TrieRoot.Hex()
	}
	var rb bytes.Buffer
	if rs := r.Chain.BlockStore.GetReceipts(h); rs != nil {
		for _, rc := range *rs {
			b, err := ser.EncodeToBytes(rc.ForStorage())
			if err != nil {
				return nil, err
			}
			rb.Write(b)
		}
	}
	o.fields["receipts+logs"] = digest(rb.Bytes())
	// confidential outputs written so far (index -> output), key images, special txs
	o.fields["utxo-outputs"] = digest(dumpDB(disk, simnode.DBUtxoOutput), dumpDB(disk, simnode.DBUtxoOutputTok))
	o.fields["key-images+output-counters"] = digest(dumpDB(disk, simnode.DBUtxo, "btio_"))
	var bt bytes.Buffer
	for hh := uint64(1); hh <= h; hh++ {
		m := r.Chain.UtxoStore.GetBlockTokenUtxoOutputSeq(hh)
		ks := make([]string, 0, len(m))
		for k := range m {
			ks = append(ks, k)
		}
		sort.Strings(ks)
		for _, k := range ks {
			fmt.Fprintf(&bt, "%d/%s=%d;", hh, k, m[k])
		}
	}
	o.fields["block-output-start-indexes"] = digest(bt.Bytes())
	o.fields["special-txs"] = digest(dumpDB(disk, simnode.DBTxMgr))
	vb, err := ser.EncodeToBytes(vals)
	if err != nil {
		return nil, err
	}
	o.fields["next-validators"] = digest(vb)
	return o, nil
}

func sameMode(a, b *observation) bool { return a.trie == b.trie }

// compare reports the first differing field.
func compare(ref, o *observation) (string, bool) {
	names := make([]string, 0, len(o.fields))
	for n := range o.fields {
		names = append(names, n)
	}
	sort.Strings(names)
	for _, n := range names {
		rv, ok := ref.fields[n]
		if !ok {
			continue // mode-specific field
		}
		if rv != o.fields[n] {
			return n, false
		}
	}
	return "", true
}

// ---------------------------------------------------------------- gate

type gateReq struct {
	hash common.Hash
	go_  chan struct{}
}

// checkGated runs CheckBlock on its own goroutine while this goroutine acts as
// gatekeeper: every GetTxFromCache parks (holding no lock); at each quiescence
// exactly one parked caller is released, chosen by the tape.
func (w *world) checkGated(rp *replica, blk *types.Block) (bool, error) {
	arrive := make(chan gateReq, 64)
	rp.r.Pool.BeforeCacheGet = func(h common.Hash) {
		req := gateReq{hash: h, go_: make(chan struct{})}
		arrive <- req
		<-req.go_
	}
	defer func() { rp.r.Pool.BeforeCacheGet = nil }()
	type res struct {
		ok  bool
		err error
	}
	done := make(chan res, 1)
	go func() {
		ok, err := rp.r.Check(blk)
		done <- res{ok, err}
	}()
	var parked []gateReq
	idle := 0
	for {
		synctest.Wait()
		for more := true; more; {
			select {
			case r := <-arrive:
				parked = append(parked, r)
			default:
				more = false
			}
		}
		if len(parked) == 0 {
			select {
			case r := <-done:
				return r.ok, r.err
			default:
				// neither parked callers nor a result: CheckBlock is blocked on
				// something else (time); let the clock move
				if idle++; idle > 100000 {
					return false, fmt.Errorf("gatekeeper: CheckBlock neither finishes nor reaches the cache")
				}
				time.Sleep(time.Millisecond)
				continue
			}
		}
		sort.Slice(parked, func(i, j int) bool { return bytes.Compare(parked[i].hash[:], parked[j].hash[:]) < 0 })
		i := w.sched.Int(len(parked))
		if len(parked) > 1 {
			w.c.Fault("precheck-worker-order-chosen")
		}
		close(parked[i].go_)
		parked = append(parked[:i], parked[i+1:]...)
	}
}

// ---------------------------------------------------------------- blocks

func (w *world) warm(rp *replica, items, others []*txgen.Item) {
	switch rp.v.Cache {
	case "same":
		for _, it := range items {
			if it.BlockOnly {
				continue
			}
			tx, _ := txgen.CloneTx(it.Tx)
			if rp.r.Submit(tx) == nil {
				w.c.Fault("cache-warm-same")
			}
		}
	case "other":
		for _, it := range others {
			tx, _ := txgen.CloneTx(it.Tx)
			if rp.r.Submit(tx) == nil {
				w.c.Fault("cache-warm-other")
			}
		}
	case "unchecked":
		n := 0
		for _, it := range items {
			if it.BlockOnly || n >= 4 {
				continue
			}
			tx, _ := txgen.CloneTx(it.Tx)
			rp.hold.hold[tx.Hash()] = true
			n++
			rp.held++
			mp := rp.r.Chain.Mempool
			go func() { mp.AddTx("", tx) }()
			w.c.Fault("cache-entry-unchecked")
		}
		synctest.Wait()
	}
}

func (w *world) releaseHeld(rp *replica) {
	if rp.hold != nil && rp.held > 0 {
		close(rp.hold.release)
		synctest.Wait()
		rp.hold.release = make(chan struct{})
		rp.hold.hold = map[common.Hash]bool{}
		rp.held = 0
	}
}

// execute runs check+commit of block on one instance and returns its observation.
func (w *world) execute(rp *replica, r *txgen.Replica, disk *simdb.Disk, block *types.Block, seen *types.Commit, gate bool, what string) (*observation, bool) {
	c := w.c
	blk, err := txgen.CloneBlock(block)
	if err != nil {
		c.HarnessTrouble("clone: %v", err)
		return nil, false
	}
	var ok bool
	if gate && rp != nil {
		ok, err = w.checkGated(rp, blk)
	} else {
		ok, err = r.Check(blk)
	}
	if err != nil {
		c.Violate("panic", "panic/CheckBlock", "%s: %v", what, err)
		return nil, false
	}
	if !ok {
		c.Violate("reject", "reject/honest-block-rejected", "%s rejected the block built by the proposer from the same committed state at height %d", what, block.Height)
		return nil, false
	}
	fast := false
	if rp != nil {
		fast = rp.v.FastSync
	}
	vals, err := r.Commit(blk, blk.MakePartSet(r.Chain.Status.ConsensusParams.BlockGossip.BlockPartSizeBytes), seen, fast)
	if err != nil {
		c.Violate("commit", "commit/honest-block-commit-failed", "%s: %v", what, err)
		return nil, false
	}
	// the validators CommitBlock returns for the next height are the ones the
	// replay path (node start-up's status rebuild, the already-stored branch of
	// finalizeCommit) computes for the same height
	var again []*types.Validator
	if _, _, panicked := kernel.Try(func() { again = r.Chain.App.GetValidators(block.Height) }); !panicked {
		a, _ := ser.EncodeToBytes(vals)
		b, _ := ser.EncodeToBytes(again)
		if !bytes.Equal(a, b) {
			c.Violate("diverge", "diverge/validators-returned-by-commit-vs-replay-path", "%s, height %d: CommitBlock returned %d validators for the next height, GetValidators(%d) (replay path) computes %d (or others) from the same committed block; block: %s", what, block.Height, len(vals), block.Height, len(again), describeTxs(block))
			return nil, false
		}
	}
	o, err := observe(r, disk, block.Height, vals)
	if err != nil {
		c.HarnessTrouble("observe %s: %v", what, err)
		return nil, false
	}
	w.insts++
	c.Evals(1)
	return o, true
}

func (w *world) block(n int, viaPool bool) bool {
	c, gen := w.c, w.gen
	P := w.reps[0]
	// multi-signature transactions must be signed by the CURRENT validators
	gen.Cfg.Validators = nil
	for _, v := range P.r.Chain.Status.Validators.Validators {
		for _, k := range w.allKeys {
			if bytes.Equal(k.Address(), v.Address) {
				gen.Cfg.Validators = append(gen.Cfg.Validators, k)
			}
		}
	}
	gen.Cfg.UTXOGas = P.r.Chain.App.GetUTXOGas() // governance can change it
	var items []*txgen.Item
	switch w.lifeMode {
	case 0:
		items = gen.Batch(n)
	case 1:
		items = append(gen.Batch(n), w.life.Batch(w.sched.Int(3))...)
	default:
		// heavy: the block is mostly life-cycle steps, in front of or behind the random mix
		// (generation order = block order: nonces)
		k := 1 + w.sched.Int(4)
		if w.sched.Bool(1, 2) {
			items = w.life.Batch(k)
			items = append(items, gen.Batch((n+1)/2)...)
		} else {
			items = gen.Batch((n + 1) / 2)
			items = append(items, w.life.Batch(k)...)
		}
	}
	if w.gov && w.sched.Bool(1, 2) {
		// the governor (sometimes an account without the right) changes a
		// coefficient through the real contract: in force from the NEXT block on,
		// on a node that kept running as on one restarted in between
		gv := w.govern()
		if gv != nil && w.sched.Bool(1, 2) {
			// first in the block is only possible if the sender has nothing earlier in it
			first := true
			for _, it := range items {
				first = first && it.From != gv.From
			}
			if first {
				items = append([]*txgen.Item{gv}, items...)
				gv = nil
			}
		}
		if gv != nil {
			items = append(items, gv)
		}
	}
	for _, it := range items {
		if it.BlockOnly {
			viaPool = false
		}
		if it.Kind == txgen.KLifeSpawn {
			if ch := w.life.M.C[txgen.LifeChildAddr(*it.To, new(big.Int).SetBytes(it.Data[:32]).Uint64())]; ch != nil && !ch.Alive {
				c.Probe("life/block-re-creating-a-destroyed-contract-built")
			}
		}
	}
	// "other" transactions for warm-other caches: valid-looking, not in the block
	var others []*txgen.Item
	for _, rp := range w.reps {
		if rp.v.Cache == "other" {
			others = gen.Batch(1 + w.sched.Int(4))
			break
		}
	}
	// ages: reopen where configured; pre-block images for the repetitions
	for _, rp := range w.reps[1:] {
		if rp.v.Reopen {
			if err := w.reopen(rp); err != nil {
				c.HarnessTrouble("reopen %s: %v", rp.v.Name, err)
				return false
			}
			c.Fault("replica-reopened")
		}
	}
	imgSrc := w.reps[w.sched.Int(len(w.reps))]
	img := imgSrc.disk.Snapshot()

	bs := txgen.BlockSpec{Time: w.now}
	w.now += uint64(1 + gen.T.Int(20))
	path := "list"
	if viaPool {
		path = "pool"
		for _, it := range items {
			tx, _ := txgen.CloneTx(it.Tx)
			if err := P.r.Submit(tx); err != nil {
				c.HarnessTrouble("mempool refused a valid generated transaction (%s): %v", it.Note, err)
				return false
			}
		}
	} else {
		bs.Explicit, bs.Txs = true, txgen.Txs(items)
	}
	block, parts, err := P.r.Propose(bs)
	if _, panicked := err.(*txgen.ProposePanic); panicked && bs.Explicit {
		// the list holds transaction objects no node has looked at yet. Second
		// opinion on the SAME instance and state: hash-identical objects that
		// have passed the basic check of this node (what AddTx runs first; every
		// transaction of a production proposer has). If the block can be built
		// from those, the outcome of executing a transaction depends on what is
		// cached inside its object; if not, the generator is wrong (harness).
		var checked types.Txs
		for _, it := range items {
			tx, _ := txgen.CloneTx(it.Tx)
			kernel.Try(func() { P.r.Chain.App.CheckTx(tx, true) })
			checked = append(checked, tx)
		}
		if _, _, err2 := P.r.Propose(txgen.BlockSpec{Explicit: true, Txs: checked, Time: bs.Time}); err2 == nil {
			c.Violate("diverge", "diverge/execution-depends-on-tx-object-cache", "height %d: the proposer cannot execute a list of valid transactions whose objects have not passed its basic check (%v) and builds the block from hash-identical objects that have: the result of executing a transaction depends on values cached in the object; block: %s", P.r.Height()+1, err, describe(items))
			return false
		}
	}
	if err != nil {
		c.HarnessTrouble("propose (%d txs, %s: %s): %v", len(items), path, notes(items), err)
		return false
	}
	if len(block.Data.Txs) != len(items) {
		c.HarnessTrouble("block has %d txs, generated %d", len(block.Data.Txs), len(items))
		return false
	}
	seen, err := P.r.SignCommit(block, parts)
	if err != nil {
		c.HarnessTrouble("sign: %v", err)
		return false
	}
	for _, rp := range w.reps[1:] {
		w.warm(rp, items, others)
	}
	var ref *observation
	var all []*observation
	var names []string
	var insts []lifeInst
	for _, rp := range w.reps {
		o, ok := w.execute(rp, rp.r, rp.disk, block, seen, rp.v.Gate, fmt.Sprintf("replica %s %+v", rp.v.Name, rp.v))
		w.releaseHeld(rp)
		if !ok {
			return false
		}
		if ref == nil {
			ref = o
		}
		all, names = append(all, o), append(names, rp.v.Name)
		insts = append(insts, lifeInst{rp.v.Name, rp.r, rp.disk})
	}
	// repetitions: fresh instances over the pre-block image of one replica
	nrep := 1 + w.sched.Int(2)
	if c.Tier == kernel.Thorough {
		nrep = 1 + w.sched.Int(3)
	}
	for k := 0; k < nrep; k++ {
		w.seq++
		dir := filepath.Join(scratch(c), fmt.Sprintf("rep%d", w.seq))
		os.MkdirAll(dir, 0755)
		d := simdb.NewDiskFromImage(img, dir)
		tmp := &replica{v: variant{Name: fmt.Sprintf("rep%d(of %s)", k, imgSrc.v.Name), IsTrie: imgSrc.v.IsTrie, Cache: "off", FastSync: w.sched.Bool(1, 2), Gate: w.sched.Bool(1, 2)}, disk: d, dir: dir}
		if err := w.open(tmp); err != nil {
			c.HarnessTrouble("open repetition: %v", err)
			return false
		}
		o, ok := w.execute(tmp, tmp.r, d, block, seen, tmp.v.Gate, "repetition "+tmp.v.Name)
		w.closeChain(tmp.r)
		if !ok {
			return false
		}
		c.Fault("repetition-from-image")
		all, names = append(all, o), append(names, tmp.v.Name)
		insts = append(insts, lifeInst{tmp.v.Name, tmp.r, d})
	}
	// the oracle: everything equal to the proposer's own execution; the trie
	// root additionally among instances of the same storage mode
	for i, o := range all[1:] {
		if f, ok := compare(ref, o); !ok {
			c.Violate("diverge", "diverge/"+f, "height %d: %s differs between %s and %s (%s vs %s); block: %s", block.Height, f, names[0], names[i+1], ref.fields[f], o.fields[f], describe(items))
			return false
		}
		for j := 0; j <= i; j++ {
			if sameMode(all[j], o) {
				if f, ok := compare(all[j], o); !ok {
					c.Violate("diverge", "diverge/"+f, "height %d: %s differs between %s and %s; block: %s", block.Height, f, names[j], names[i+1], describe(items))
					return false
				}
			}
		}
	}
	receipts := P.r.Receipts(block.Height)
	committed, err := w.life.Committed(block.Height, block.Data.Txs, receipts)
	if err != nil {
		c.HarnessTrouble("ledger: %v", err)
		return false
	}
	gen.L.Mismatches = nil // the value model is C06's business
	if !w.lifeOracle(block.Height, insts, items) {
		return false
	}
	failed := 0
	for i, it := range committed {
		c.Probe("kind/" + string(it.Kind))
		if it.Token != txgen.Native {
			c.Probe("token-flavour/" + string(it.Kind))
		}
		if it.Kind != txgen.KMultiSign && receipts[i].Status != types.ReceiptStatusSuccessful {
			failed++
		}
		if it.Kind == txgen.KGovern && receipts[i].Status == types.ReceiptStatusSuccessful {
			c.Probe("govern/coefficient-changed-by-committed-block")
		}
	}
	if len(P.r.Chain.Status.Validators.Validators) != len(w.vals) {
		c.Probe("validator-set-changed")
	}
	w.blocks++
	w.txCount += len(items)
	c.Event(len(items) * len(all))
	c.Finger(block.Height, ref.fields["state-hash"], ref.fields["receipt-hash"], ref.fields["next-validators"])
	w.smp.Blocks = append(w.smp.Blocks, fmt.Sprintf("h%d %s: %d txs (%d failed) on %d instances: %s", block.Height, path, len(items), failed, len(all), describe(items)))
	return true
}

// govern draws one call of the Coefficient contract.
func (w *world) govern() *txgen.Item {
	t, g := w.sched, w.gen
	from := g.Accts[0]
	if t.Bool(1, 6) {
		from = g.Accts[1+t.Int(len(g.Accts)-1)] // holds no right: refused
	}
	var in string
	switch t.Pick(4, 2, 1, 1, 1) {
	case 0:
		in = txgen.GovVotePeriod(int64(1 + t.Int(4)))
	case 1:
		deno := 1 + t.Int(5)
		in = txgen.GovVoteRate(deno, 1+t.Int(deno), t.Int(8))
	case 2:
		in = txgen.GovCalRate(int64(t.Int(101)), int64(t.Int(101)), int64(t.Int(101)))
	case 3:
		in = txgen.GovMaxScore(int64(1 + t.Int(600)))
	default:
		in = txgen.GovUTXOFee(big.NewInt(int64(3+t.Int(6)) * 100000000))
	}
	return g.Govern(from, in)
}

func notes(items []*txgen.Item) string {
	s := ""
	for i, it := range items {
		s += fmt.Sprintf("[%d %s: %s] ", i, it.Kind, it.Note)
	}
	return s
}

func describeTxs(b *types.Block) string {
	return fmt.Sprintf("%d txs", len(b.Data.Txs))
}

func describe(items []*txgen.Item) string {
	s := ""
	for i, it := range items {
		if i > 0 {
			s += ","
		}
		s += string(it.Kind)
	}
	return s
}

// byzantine offers one block carrying an unbalanced confidential transaction
// (built by the proposer replica acting as a Byzantine proposer: PreRunBlock
// performs no commitment checks) to every replica; the verdict must not depend
// on the replica (cache contents in particular) and, the transaction being
// invalid by construction, must be "reject".
func (w *world) byzantine() bool {
	c, g := w.c, w.gen
	g.Reset()
	defer g.Reset()
	w.life.Reset()
	defer w.life.Reset()
	// the invalid transaction sits among 0-5 valid plain transfers, at every
	// position: the pre-check spreads the transactions of a block over
	// (NumCPU+3)/4 workers by index, so the failing worker has neighbours that
	// succeed before and after it (generation order = block order: nonces)
	nOthers := w.sched.Int(6)
	pos := w.sched.Int(nOthers + 1)
	var pre, post []*txgen.Item
	for i := 0; i < pos; i++ {
		if it := g.Make(txgen.KTransfer); it != nil && !it.BlockOnly {
			pre = append(pre, it)
		}
	}
	base := g.AccToUtxo(g.Accts[w.sched.Int(len(g.Accts))], txgen.Native)
	if base == nil {
		c.Probe("byzantine-no-base")
		return true
	}
	for i := pos; i < nOthers; i++ {
		if it := g.Make(txgen.KTransfer); it != nil && !it.BlockOnly {
			post = append(post, it)
		}
	}
	cl, err := txgen.CloneTx(base.Tx)
	if err != nil {
		c.HarnessTrouble("clone: %v", err)
		return false
	}
	u := cl.(*types.UTXOTransaction)
	var in *types.AccountInput
	for _, x := range u.Inputs {
		if a, ok := x.(*types.AccountInput); ok {
			in = a
		}
	}
	unit := big.NewInt(types.UTXO_COMMITMENT_CHANGE_RATE)
	name := "account-input-lowered-recomputed-commitment"
	in.Amount = new(big.Int).Sub(in.Amount, new(big.Int).Mul(unit, big.NewInt(int64(1+w.sched.Int(1000)))))
	if in.Amount.Cmp(unit) < 0 {
		return true
	}
	in.Commit = types.AmountCommit(new(big.Int).Div(in.Amount, unit), in.CF)
	var key *txgen.Account
	for _, a := range g.Accts {
		if a.Addr == base.From {
			key = a
		}
	}
	if err := u.Sign(types.GlobalSTDSigner, key.Key); err != nil {
		return true
	}
	bad, err := txgen.CloneTx(u)
	if err != nil {
		return true
	}
	P := w.reps[0]
	list := append(txgen.Txs(pre), bad)
	list = append(list, txgen.Txs(post)...)
	block, _, err := P.r.Propose(txgen.BlockSpec{Explicit: true, Txs: list, Time: w.now})
	if err != nil {
		if _, ok := err.(*txgen.ProposePanic); ok {
			c.Probe("byzantine-refused-at-proposer-stage")
			return true
		}
		c.HarnessTrouble("byzantine propose: %v", err)
		return false
	}
	// caches: the valid original (warm), the tampered transaction itself parked before its basic check
	for _, rp := range w.reps[1:] {
		switch rp.v.Cache {
		case "same", "other":
			tx, _ := txgen.CloneTx(base.Tx)
			rp.r.Submit(tx)
		case "unchecked":
			tx, _ := txgen.CloneTx(bad)
			rp.hold.hold[tx.Hash()] = true
			rp.held++
			mp := rp.r.Chain.Mempool
			go func() { mp.AddTx("", tx) }()
			synctest.Wait()
			c.Fault("byzantine-tx-parked-unchecked-in-cache")
		}
	}
	verdicts := ""
	anyTrue := false
	for _, rp := range w.reps {
		// a block with neighbours is checked under two tape-chosen release orders
		// of the pre-check workers on EVERY replica (a refused block leaves
		// nothing behind), a single-transaction block as the replica is configured
		rounds := 1
		if len(list) > 1 {
			rounds = 2
		}
		for k := 0; k < rounds; k++ {
			blk, _ := txgen.CloneBlock(block)
			var ok bool
			var err error
			if rp.v.Gate || len(list) > 1 {
				ok, err = w.checkGated(rp, blk)
			} else {
				ok, err = rp.r.Check(blk)
			}
			if k == rounds-1 {
				w.releaseHeld(rp)
			}
			if err != nil {
				c.Violate("panic", "panic/CheckBlock/byzantine", "replica %s: %v", rp.v.Name, err)
				return false
			}
			verdicts += fmt.Sprintf("%s(cache %s)=%v ", rp.v.Name, rp.v.Cache, ok)
			anyTrue = anyTrue || ok
			c.Evals(1)
		}
	}
	if len(list) > 1 {
		c.Fault(fmt.Sprintf("byzantine-block/invalid-tx-at-position-%d-of-%d", pos, len(list)))
		name += fmt.Sprintf(" at position %d of %d", pos, len(list))
	}
	c.Fault("byzantine-block/account-input-lowered-recomputed-commitment")
	w.smp.Byz = append(w.smp.Byz, name+": "+verdicts)
	if anyTrue {
		c.Violate("diverge", "verdict/unbalanced-confidential-tx-accepted-depending-on-replica", "a block carrying an unbalanced confidential transaction (%s) was accepted: %s", name, verdicts)
		return false
	}
	return true
}
