package valsetrig

import (
	cs "github.com/lianxiangcloud/linkchain/consensus"
	"github.com/lianxiangcloud/linkchain/libs/crypto"
	"github.com/lianxiangcloud/linkchain/types"
)

// faultEvidence: a proposer's account of the previous height's rounds
// (FaultValidatorsEvidence: who proposed the committed block in commit round
// r, and - for r > 0 - who should have proposed in round 0) is judged by
// consensus.VerifyFaultValEvidence against status.LastValidators. The right
// account, derived from the reference rotation, must be accepted and an
// account naming any other member refused, for commit rounds well beyond the
// size of the set (every correct node must reach the same verdict, or an
// honest proposer's block is refused by some of them).
func (s *state) faultEvidence() bool {
	c := s.c
	if s.extreme() || s.S == nil || s.M == nil || len(s.M.vals) == 0 {
		return true
	}
	t := c.Tape.Fork("fve")
	n := len(s.M.vals)
	var r int
	switch t.Pick(2, 3, 3, 3) {
	case 0:
		r = 0
	case 1:
		r = t.Range(1, n)
	case 2:
		r = n + t.Range(0, n)
	default:
		r = t.Range(2*n, 4*n+3)
	}
	if !s.M.safe(r + 1) {
		c.Probe("fve-skipped-saturating")
		return true
	}
	m := s.M.copy()
	p0 := m.proposer()
	for i := 0; i < r; i++ {
		m.step()
	}
	pr := m.proposer()
	pubOf := func(addr string) crypto.PubKey {
		for _, v := range s.M.vals {
			if v.addr == addr {
				return v.pub
			}
		}
		return nil
	}
	const H = uint64(7)
	commit := &types.Commit{Precommits: []*types.Vote{nil, {Height: H, Round: r, Type: types.VoteTypePrecommit}}}
	mk := func(prop, fault string) *types.FaultValidatorsEvidence {
		f := &types.FaultValidatorsEvidence{BlockHeight: H, Round: r, Proposer: pubOf(prop)}
		if r > 0 {
			f.FaultVal = pubOf(fault)
		}
		return f
	}
	status := cs.NewStatus{ChainID: chainID, LastValidators: s.S.Copy()}
	c.Evals(1)
	if r >= n {
		c.Probe("fve-commit-round>=set-size")
	}
	var err error
	if _, _, panicked := tryCall(func() { err = cs.VerifyFaultValEvidence(status, commit, mk(pr, p0)) }); panicked || err != nil {
		if c.Violate("fve", "fve/honest-account-refused", "VerifyFaultValEvidence refuses the true account of commit round %d (proposer %s, round-0 proposer %s) for a set of %d (powers regime %s): panicked=%v err=%v", r, short(pr), short(p0), n, s.regime, panicked, err) {
			return false
		}
	}
	// any other member named as the proposer of the commit round must be refused
	for _, v := range s.M.vals {
		if v.addr == pr {
			continue
		}
		err = nil
		if _, _, panicked := tryCall(func() { err = cs.VerifyFaultValEvidence(status, commit, mk(v.addr, p0)) }); !panicked && err == nil {
			if c.Violate("fve", "fve/wrong-proposer-accepted", "VerifyFaultValEvidence accepts %s as the proposer of commit round %d although the rotation gives %s (set of %d, powers regime %s)", short(v.addr), r, short(pr), n, s.regime) {
				return false
			}
		}
		break
	}
	// the status handed in must not have been rotated by the check
	if s.S.GetProposer() != nil && string(status.LastValidators.GetProposer().Address) != string(s.S.GetProposer().Address) {
		if c.Violate("fve", "fve/status-mutated", "VerifyFaultValEvidence changed the proposer of the status it was given") {
			return false
		}
	}
	return true
}

func tryCall(f func()) (site, msg string, panicked bool) {
	defer func() {
		if r := recover(); r != nil {
			panicked = true
		}
	}()
	f()
	return
}
