// Package valsetrig is the library/history part of C17: proposer rotation and
// validator-set updates are deterministic and path-independent. It drives the
// real types.ValidatorSet (and consensus.BlockExecutor.ApplyBlock for the
// application-output -> next-set step) against a math/big reference.
//
// Covered here: path independence of IncrementAccum over every split of T
// rotations, proportional proposer frequency, Hash invariance, add / update /
// remove against a map model, order independence of the update list through
// updateStatus, copy independence, save/load independence, saturation of
// totals and priorities. NOT covered here (cluster-level invariant, lives in
// the R-cluster rig): two live nodes at the same (H,R) name the same proposer,
// and FaultValidatorsEvidence after skipped rounds passes every node's check.
package valsetrig

import (
	"math/big"
	"sort"

	"github.com/lianxiangcloud/linkchain/libs/common"
	"github.com/lianxiangcloud/linkchain/libs/crypto"
	"github.com/lianxiangcloud/linkchain/types"
)

var (
	maxI64 = new(big.Int).SetInt64(1<<63 - 1)
	minI64 = new(big.Int).SetInt64(-1 << 63)
)

// sat clamps x into int64; fired reports whether it had to.
func sat(x *big.Int) (r *big.Int, fired bool) {
	if x.Cmp(maxI64) > 0 {
		return new(big.Int).Set(maxI64), true
	}
	if x.Cmp(minI64) < 0 {
		return new(big.Int).Set(minI64), true
	}
	return x, false
}

type mVal struct {
	addr  string
	pub   crypto.PubKey
	cb    common.Address
	power int64
	accum *big.Int
}

func (v *mVal) copy() *mVal {
	c := *v
	c.accum = new(big.Int).Set(v.accum)
	return &c
}

func (v *mVal) real() *types.Validator {
	return &types.Validator{Address: crypto.Address(v.addr), PubKey: v.pub, CoinBase: v.cb, VotingPower: v.power, Accum: v.accum.Int64()}
}

// mSet is the reference validator set: members sorted by address, priorities
// in math/big, proposer = the member chosen by the last rotation, or (after a
// membership change) the member with the highest priority, lowest address
// first among equals.
type mSet struct {
	vals []*mVal
	prop string // "" = not fixed by a rotation
}

func (m *mSet) copy() *mSet {
	c := &mSet{prop: m.prop}
	for _, v := range m.vals {
		c.vals = append(c.vals, v.copy())
	}
	return c
}

func (m *mSet) find(addr string) int {
	for i, v := range m.vals {
		if v.addr == addr {
			return i
		}
	}
	return -1
}

// total is the saturating sum of the powers.
func (m *mSet) total() *big.Int {
	s := new(big.Int)
	for _, v := range m.vals {
		s, _ = sat(s.Add(s, big.NewInt(v.power)))
	}
	return s
}

func (m *mSet) exactTotal() *big.Int {
	s := new(big.Int)
	for _, v := range m.vals {
		s.Add(s, big.NewInt(v.power))
	}
	return s
}

func (m *mSet) highest() *mVal {
	var best *mVal
	for _, v := range m.vals {
		if best == nil || v.accum.Cmp(best.accum) > 0 || (v.accum.Cmp(best.accum) == 0 && v.addr < best.addr) {
			best = v
		}
	}
	return best
}

func (m *mSet) proposer() string {
	if m.prop != "" {
		return m.prop
	}
	if h := m.highest(); h != nil {
		return h.addr
	}
	return ""
}

// step is one rotation: every member gains its power, the member with the
// highest priority (lowest address among equals) becomes proposer and pays
// the total power. Arithmetic saturates per operation; fired reports whether
// any clamp was needed.
func (m *mSet) step() (fired bool) {
	tot := m.total()
	for _, v := range m.vals {
		var f bool
		v.accum, f = sat(new(big.Int).Add(v.accum, big.NewInt(v.power)))
		fired = fired || f
	}
	h := m.highest()
	var f bool
	h.accum, f = sat(new(big.Int).Sub(h.accum, tot))
	m.prop = h.addr
	return fired || f
}

func (m *mSet) maxAbs() *big.Int {
	r := new(big.Int)
	for _, v := range m.vals {
		if a := new(big.Int).Abs(v.accum); a.Cmp(r) > 0 {
			r = a
		}
	}
	return r
}

// safe reports whether k rotations from this state (in one call or in any
// split) stay strictly inside int64 whatever the selection order: no priority
// can leave [-(max|a| + k*total), max|a| + k*total].
func (m *mSet) safe(k int) bool {
	b := new(big.Int).Mul(m.exactTotal(), big.NewInt(int64(k)))
	b.Add(b, m.maxAbs())
	return b.Cmp(maxI64) < 0
}

func newMSet(list []*mVal) *mSet {
	m := &mSet{}
	for _, v := range list {
		m.vals = append(m.vals, v.copy())
	}
	sort.SliceStable(m.vals, func(i, j int) bool { return m.vals[i].addr < m.vals[j].addr })
	if len(m.vals) > 0 {
		m.step()
	}
	return m
}

// content is the identity of the set: members with key, coinbase and power —
// not priorities, not the proposer.
func (m *mSet) content() string {
	s := ""
	for _, v := range m.vals {
		s += v.addr + "|" + string(v.pub.Bytes()) + "|" + string(v.cb[:]) + "|" + big.NewInt(v.power).String() + ";"
	}
	return s
}
