package valsetrig

import (
	"fmt"
	"math/big"

	cs "github.com/lianxiangcloud/linkchain/consensus"
	"github.com/lianxiangcloud/linkchain/libs/common"
	dbm "github.com/lianxiangcloud/linkchain/libs/db"
	"github.com/lianxiangcloud/linkchain/libs/log"
	"github.com/lianxiangcloud/linkchain/types"
)

var consParams = types.DefaultConsensusParams()

const chainID = "verif-valset"

// applyBlock: the application's validator list -> next validator set, through
// the exported BlockExecutor.ApplyBlock (validateBlock + updateStatus +
// SaveStatus). A block at height 1 needs no LastCommit, so the status under
// test is "genesis-shaped" but carries the validator set (priorities,
// proposer) that this run's history produced.
func (s *state) applyBlock() bool {
	c := s.c
	t := c.Tape.Fork("apply")
	rounds := t.Range(1, 3)
	for r := 0; r < rounds; r++ {
		if !s.M.safe(1) {
			c.Probe("apply-skipped-saturating")
			return true
		}
		// the list the application returns
		var list []*mVal
		kind := t.Pick(2, 3, 2, 2, 2, 1)
		switch kind {
		case 0: // nothing
		case 1: // unchanged membership and powers
			for _, v := range s.M.vals {
				list = append(list, v.copy())
			}
		case 2: // one power changed
			for _, v := range s.M.vals {
				list = append(list, v.copy())
			}
			x := list[t.Int(len(list))]
			x.power = s.drawPower(t, len(s.pool), x.power+1, t.Int(10))
		case 3: // one more member
			for _, v := range s.M.vals {
				list = append(list, v.copy())
			}
			for _, v := range s.pool {
				if s.M.find(v.addr) < 0 {
					list = append(list, v.copy())
					break
				}
			}
		case 4: // one member less
			for _, v := range s.M.vals {
				list = append(list, v.copy())
			}
			if len(list) > 1 {
				i := t.Int(len(list))
				list = append(list[:i:i], list[i+1:]...)
			}
		default: // a different committee
			for _, v := range s.pool {
				if t.Bool(1, 2) {
					list = append(list, v.copy())
				}
			}
		}
		for _, v := range list {
			v.accum = new(big.Int)
		}
		// expected next set
		changed := false
		var want *mSet
		if len(list) > 0 {
			fresh := &mSet{vals: newSorted(append([]*mVal{}, list...))}
			changed = fresh.content() != s.M.content()
		}
		if changed {
			if !(&mSet{vals: list}).safe(1) {
				c.Probe("apply-skipped-saturating")
				return true
			}
			want = newMSet(list)
		} else {
			want = s.M.copy()
			want.step()
		}

		status := cs.NewStatus{
			ChainID:                          chainID,
			LastBlockHeight:                  0,
			LastBlockID:                      types.BlockID{},
			LastBlockTime:                    1560000000,
			Validators:                       s.S.Copy(),
			LastValidators:                   types.NewValidatorSet(nil),
			LastHeightValidatorsChanged:      1,
			ConsensusParams:                  *consParams,
			LastHeightConsensusParamsChanged: 1,
		}
		block := types.MakeBlock(1, nil, &types.Commit{})
		block.Header.Time = 1560000001
		block.ChainID = chainID
		block.ValidatorsHash = common.BytesToHash(s.S.Hash())
		block.ConsensusHash = common.BytesToHash(consParams.Hash())
		block.DataHash = block.Data.Hash()
		block.EvidenceHash = block.Evidence.Hash()
		block.LastCommitHash = block.LastCommit.Hash()
		blockID := types.BlockID{Hash: block.Hash(), PartsHeader: block.MakePartSet(4096).Header()}

		// orders of the same list
		var perms [][]int
		n := len(list)
		if n <= 4 {
			perms = allPerms(n)
		} else {
			for k := 0; k < 6; k++ {
				p := make([]int, n)
				for i := range p {
					p[i] = i
				}
				if k > 0 {
					t.Shuffle(n, func(i, j int) { p[i], p[j] = p[j], p[i] })
				}
				perms = append(perms, p)
			}
		}
		var adopted *types.ValidatorSet
		db := dbm.NewMemDB()
		for pi, p := range perms {
			in := make([]*types.Validator, n)
			for i, j := range p {
				in[i] = list[j].real()
			}
			if n == 0 {
				in = nil
			}
			be := cs.NewBlockExecutor(db, log.Root(), cs.MockEvidencePool{})
			ns, err := be.ApplyBlock(status, blockID, block, in)
			c.Event(1)
			if err != nil {
				if c.Violate("apply", "apply/valid-block-refused", "ApplyBlock refused a valid height-1 block: %v", err) {
					return false
				}
				return true
			}
			kindName := "apply-block"
			if pi > 0 {
				kindName = "apply-block-other-order"
				c.Fault("input/permuted-validator-list")
			}
			if !s.same(ns.Validators, want.copy(), kindName) {
				return false
			}
			if !s.same(ns.LastValidators, s.M.copy(), "apply-block-last-validators") {
				return false
			}
			if !s.same(status.Validators, s.M.copy(), "apply-block-input-status") {
				return false
			}
			wantChangedAt := uint64(1)
			if changed {
				wantChangedAt = 2
			}
			if ns.LastHeightValidatorsChanged != wantChangedAt {
				if c.Violate("apply", "apply/changed-height", "LastHeightValidatorsChanged=%d, want %d (set changed=%v)", ns.LastHeightValidatorsChanged, wantChangedAt, changed) {
					return false
				}
			}
			if !s.identity(ns.Validators, want, "apply-block") {
				return false
			}
			if adopted == nil {
				adopted = ns.Validators
			}
		}
		// a node that restarts loads the status instead of keeping it in memory
		ls, err := cs.LoadStatus(db)
		if err != nil {
			if c.Violate("apply", "apply/load-status", "LoadStatus after ApplyBlock: %v", err) {
				return false
			}
			return true
		}
		if !s.same(ls.Validators, want.copy(), "loaded-status") {
			return false
		}
		k := t.Range(1, 3)
		if want.safe(k) {
			a, b := adopted.Copy(), ls.Validators.Copy()
			a.IncrementAccum(k)
			b.IncrementAccum(k)
			wm := want.copy()
			s.resync(a, wm)
			if !s.same(b, wm, "loaded-status-rotated") {
				return false
			}
		}
		s.ops = append(s.ops, fmt.Sprintf("apply(kind=%d,list=%d,orders=%d,changed=%v)", kind, n, len(perms), changed))
		s.S, s.M = adopted, want
		// a little more history between blocks
		if t.Bool(1, 2) {
			if !s.rotate(s.S, s.M, t.Range(1, 3), "rotate-1") {
				return false
			}
		}
	}
	c.Finger(fmt.Sprint(s.ops[len(s.ops)-rounds:]))
	return true
}

func allPerms(n int) [][]int {
	if n == 0 {
		return [][]int{{}}
	}
	var out [][]int
	p := make([]int, n)
	for i := range p {
		p[i] = i
	}
	var rec func(k int)
	rec = func(k int) {
		if k == n {
			out = append(out, append([]int{}, p...))
			return
		}
		for i := k; i < n; i++ {
			p[k], p[i] = p[i], p[k]
			rec(k + 1)
			p[k], p[i] = p[i], p[k]
		}
	}
	rec(0)
	return out
}
