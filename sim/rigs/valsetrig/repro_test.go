package valsetrig

import (
	"testing"

	"github.com/lianxiangcloud/linkchain/libs/crypto"
	"github.com/lianxiangcloud/linkchain/types"
)

// Reproduction against the real code: the proposer after skipping rounds with
// one IncrementAccum(k) call differs from the proposer reached one round at a
// time (k calls of IncrementAccum(1)).
func TestReproSkipVsStep(t *testing.T) {
	mk := func() *types.ValidatorSet {
		var vals []*types.Validator
		for i, p := range []int64{1, 3} {
			pk := crypto.GenPrivKeyEd25519FromSecret([]byte{byte(i)}).PubKey()
			vals = append(vals, &types.Validator{Address: pk.Address(), PubKey: pk, VotingPower: p})
		}
		return types.NewValidatorSet(vals)
	}
	for k := 1; k <= 6; k++ {
		a, b := mk(), mk()
		a.IncrementAccum(k)
		for i := 0; i < k; i++ {
			b.IncrementAccum(1)
		}
		pa, pb := a.GetProposer(), b.GetProposer()
		t.Logf("k=%d bulk proposer power=%d accums=%d,%d  stepwise proposer power=%d accums=%d,%d", k,
			pa.VotingPower, a.Validators[0].Accum, a.Validators[1].Accum,
			pb.VotingPower, b.Validators[0].Accum, b.Validators[1].Accum)
		if pa.VotingPower != pb.VotingPower {
			t.Logf("  DIFFERENT proposer at k=%d", k)
		}
	}
}
