package valsetrig

import (
	"fmt"
	"testing"

	"github.com/lianxiangcloud/linkchain/libs/crypto"
	"github.com/lianxiangcloud/linkchain/types"
)

// Direct reproduction against the real code of the C17 finding
// rotation/split/* (present up to /repo commit c539d5c; repaired afterwards by
// making IncrementAccum(k) perform k single rotations — on a repaired tree
// these tests log "no difference"): ValidatorSet.IncrementAccum(k) is not k
// times IncrementAccum(1). consensus.enterNewRound calls
// validators.IncrementAccum(round - cs.Round) on a copy, so a node that skips
// from round 0 to round k and a node that walks there one timeout at a time
// name different proposers for (H, k).
//
//	cd /verif/sim && go1.26.8 test -vet=off -tags verif -overlay /verif/build/overlay.json -run TestReproSkipVsStep -v ./rigs/valsetrig/
func mkSet(powers []int64) *types.ValidatorSet {
	var vals []*types.Validator
	for i, p := range powers {
		pk := crypto.GenPrivKeyEd25519FromSecret([]byte{byte(i)}).PubKey()
		vals = append(vals, &types.Validator{Address: pk.Address(), PubKey: pk, VotingPower: p})
	}
	return types.NewValidatorSet(vals)
}

func describe(s *types.ValidatorSet) string {
	out := fmt.Sprintf("proposer=power%d priorities=", s.GetProposer().VotingPower)
	for _, v := range s.Validators {
		out += fmt.Sprintf("%d:%d ", v.VotingPower, v.Accum)
	}
	return out
}

func TestReproSkipVsStep(t *testing.T) {
	for _, powers := range [][]int64{{1, 3}, {2, 1}, {7, 3, 1, 1, 1, 1}} {
		found := 0
		for k := 2; k <= 8 && found < 2; k++ {
			skip, walk := mkSet(powers), mkSet(powers)
			skip.IncrementAccum(k)
			for i := 0; i < k; i++ {
				walk.IncrementAccum(1)
			}
			if describe(skip) != describe(walk) {
				found++
				t.Logf("powers %v, round 0 -> %d:\n   skipping : %s\n   walking  : %s", powers, k, describe(skip), describe(walk))
			}
		}
		if found == 0 {
			t.Logf("powers %v: no difference up to 8 rounds", powers)
		}
	}
}

// Smallest example (searched) where not only the proposer but also the
// priorities differ between skipping and walking.
func TestReproSkipVsStepPriorities(t *testing.T) {
	prio := func(s *types.ValidatorSet) string {
		out := ""
		for _, v := range s.Validators {
			out += fmt.Sprintf("%d:%d ", v.VotingPower, v.Accum)
		}
		return out
	}
	for sum := 2; sum <= 12; sum++ {
		for a := int64(1); a < int64(sum); a++ {
			for b := int64(1); a+b <= int64(sum); b++ {
				c := int64(sum) - a - b
				powers := []int64{a, b}
				if c > 0 {
					powers = append(powers, c)
				}
				for pre := 0; pre <= 6; pre++ {
					for k := 2; k <= 4; k++ {
						skip, walk := mkSet(powers), mkSet(powers)
						for i := 0; i < pre; i++ {
							skip.IncrementAccum(1)
							walk.IncrementAccum(1)
						}
						skip.IncrementAccum(k)
						for i := 0; i < k; i++ {
							walk.IncrementAccum(1)
						}
						if prio(skip) != prio(walk) {
							t.Logf("powers %v after %d single rotations, then %d more:\n   one call : %s\n   one by one: %s", powers, pre, k, describe(skip), describe(walk))
							return
						}
					}
				}
			}
		}
	}
	t.Log("no example found in the searched range")
}
