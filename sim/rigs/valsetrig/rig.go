package valsetrig

import (
	"encoding/hex"
	"fmt"
	"math/big"
	"time"

	"verif/sim/kernel"

	cfg "github.com/lianxiangcloud/linkchain/config"
	"github.com/lianxiangcloud/linkchain/libs/common"
	"github.com/lianxiangcloud/linkchain/libs/crypto"
	"github.com/lianxiangcloud/linkchain/libs/log"
	"github.com/lianxiangcloud/linkchain/metrics"
	"github.com/lianxiangcloud/linkchain/types"
)

func init() {
	log.Root().SetHandler(log.DiscardHandler())
	pk := crypto.GenPrivKeyEd25519FromSecret([]byte("verif-metrics-key"))
	metrics.PrometheusMetricInstance.Init(cfg.DefaultConfig(), pk.PubKey(), log.Root())
}

// Describe returns the filled rig description of the library/history part of
// C17 (including Run). The package does not register itself: the check (or a
// combining rig) calls kernel.Register(valsetrig.Describe()).
func Describe() *kernel.Rig {
	return &kernel.Rig{
		Property: "C17", Name: "valset", Level: "exploration",
		Rule: "library/history part of C17 (the cluster invariant 'same proposer on all nodes at the same (H,R)' and FaultValidatorsEvidence after skipped rounds are checked by the cluster rig, not here). " +
			"Per run: a pool of 5..16 ed25519 validators from the tape, powers from {ones, equal, small, medium, large, near 2^62/n, one extreme, all extreme}; " +
			"(1) NewValidatorSet from permuted lists and by Add in permuted order: same order, Hash, proposer, priorities as a math/big reference; " +
			"(2) a history of 8..40 operations (rotate by k in place or on a copy, add/update/remove present and absent members, getters) with the reference compared after every operation, " +
			"Hash a function of membership/key/coinbase/power only; (3) EXHAUSTIVE path independence: from the state reached, every composition of T rotations (T 6..12 quick, 11..15 thorough; 2^T-1 call sequences, " +
			"every prefix compared) must give the proposer and priorities of T single rotations; (4) proposer counts over windows of c*total rotations within n of proportional (small powers); " +
			"(5) BlockExecutor.ApplyBlock (updateStatus) with every order (all permutations up to 4 entries, else 6 sampled) of the same application validator list, and a status saved and re-loaded: same next set; " +
			"(6) with extreme powers totals equal the clamped exact sum and every priority stays inside the range spanned by saturating arithmetic (never wraps). " +
			"Non-trivial = the split enumeration ran with T>=6 on a set of >=2 validators with unequal powers, or a saturating rotation was checked; distinct = fingerprint over (regime, n, powers, operation/outcome sequence, T, final proposer sequence).",
		Real: []string{"types.ValidatorSet (NewValidatorSet, IncrementAccum, GetProposer/findProposer, Hash, Add/Update/Remove, Copy, TotalVotingPower, safe*Clip)", "types.Validator (CompareAccum, Hash)", "libs/common.Heap",
			"consensus.BlockExecutor.ApplyBlock -> validateBlock + updateStatus + SaveStatus", "consensus.LoadStatus (wire codec of ValidatorSet)"},
		Stub: []string{"application: the validator list CommitBlock would return is generated (whitelist + chosen candidates, distinct addresses, positive powers)", "in-memory status DB", "evidence pool mock", "blocks at height 1 (no LastCommit) so that no signatures are needed"},
		Assumptions: []string{
			"equality with the reference is demanded only where no int64 operation can saturate (max|priority| + k*total < 2^63); beyond that only 'saturate, never wrap' is demanded",
			"validator lists handed to NewValidatorSet/updateStatus have distinct addresses and positive powers (what the application produces)",
			"ties between equal priorities go to the lower address (types.Validator.CompareAccum); the reference uses the same rule",
			"one call IncrementAccum(k) is additionally held to the order-free accounting of k rotations (everybody gains k*power, k proposers pay the total each), which any weighted round robin of this form satisfies",
			"the frequency bound uses |count_i - W*p_i/total| < n, which follows from sum(priorities)=0 and the proposer paying exactly the total",
		},
		QuickRuns: 8000, ThoroughRuns: 60000, QuickBudget: 50 * time.Second, ThoroughBudget: 15 * time.Minute,
		Run: Run,
	}
}

type state struct {
	c      *kernel.Ctx
	regime string
	pool   []*mVal
	S      *types.ValidatorSet
	M      *mSet
	// identity checks
	hashOf    map[string]string // content -> hash
	contentOf map[string]string // hash -> content
	ops       []string
	trace     []string
}

var regimes = []string{"ones", "equal", "small", "medium", "large", "near2p62", "extreme-one", "extreme-all"}

func (s *state) extreme() bool { return s.regime == "extreme-one" || s.regime == "extreme-all" }

func (s *state) drawPower(t *kernel.Tape, poolSize int, eq int64, idx int) int64 {
	switch s.regime {
	case "ones":
		return 1
	case "equal":
		return eq
	case "small":
		return int64(t.Range(1, 10))
	case "medium":
		return int64(1 + t.Int(1000000))
	case "large":
		return int64(1) + int64(t.Uint64()%(1<<40))
	case "near2p62":
		base := ((int64(1) << 62) - 1) / int64(poolSize)
		return base - int64(t.Int(1000))
	case "extreme-one":
		if idx%5 == 0 {
			return int64(1)<<62 + int64(t.Uint64()%(1<<62-1))
		}
		return int64(t.Range(1, 1000))
	default:
		return int64(1)<<61 + int64(t.Uint64()%(3<<61-1))
	}
}

// Run performs one run of the library/history part of C17; a pure function of
// c.Tape and c.Tier.
func Run(c *kernel.Ctx) {
	t := c.Tape.Fork("cfg")
	s := &state{c: c, hashOf: map[string]string{}, contentOf: map[string]string{}}
	s.regime = regimes[t.Pick(1, 2, 5, 3, 2, 2, 2, 1)]
	n := t.Range(1, 12)
	if t.Bool(1, 3) {
		n = t.Range(2, 5)
	}
	poolSize := n + 4
	eq := int64(t.Range(1, 1000))
	kt := c.Tape.Fork("keys")
	seen := map[string]bool{}
	for ctr := 0; len(s.pool) < poolSize; ctr++ {
		k := crypto.GenPrivKeyEd25519FromSecret(append(kt.Bytes(12), byte(ctr), byte(ctr>>8)))
		pk := k.PubKey()
		a := string(pk.Address())
		if seen[a] {
			continue
		}
		seen[a] = true
		var cb common.Address
		copy(cb[:], kt.Bytes(4))
		s.pool = append(s.pool, &mVal{addr: a, pub: pk, cb: cb, power: s.drawPower(t, poolSize, eq, len(s.pool)), accum: new(big.Int)})
	}
	c.Finger(s.regime, n)
	if s.extreme() {
		c.Fault("input/extreme-powers")
	}
	for _, v := range s.pool[:n] {
		c.Finger(v.power)
	}

	if !s.construct(n) {
		s.sample()
		return
	}
	if !s.history() {
		s.sample()
		return
	}
	if !s.faultEvidence() {
		s.sample()
		return
	}
	nt := false
	if !s.extreme() {
		ok, ran := s.splits()
		if !ok {
			s.sample()
			return
		}
		nt = nt || ran
		if !s.frequency() {
			s.sample()
			return
		}
	} else {
		nt = true
	}
	if !s.applyBlock() {
		s.sample()
		return
	}
	if nt {
		c.NonTrivial()
	}
	s.sample()
}

func (s *state) sample() {
	pw := []string{}
	if s.M != nil {
		for _, v := range s.M.vals {
			pw = append(pw, fmt.Sprint(v.power))
		}
	}
	ops := s.ops
	if len(ops) > 24 {
		ops = append(append([]string{}, ops[:24]...), fmt.Sprintf("... %d more", len(s.ops)-24))
	}
	s.c.Sample(map[string]interface{}{"regime": s.regime, "powers_final": pw, "ops": ops, "notes": s.trace})
}

// ------------------------------------------------------------ comparison

func short(a string) string {
	if len(a) > 3 {
		a = a[:3]
	}
	return hex.EncodeToString([]byte(a))
}

// same compares the implementation's set with the reference. kind names the
// operation for the violation key. Returns false when a new violation stops
// the run; after a known finding the reference is re-synchronised from the
// implementation so that everything else is still checked.
func (s *state) same(S *types.ValidatorSet, M *mSet, kind string) bool {
	c := s.c
	c.Evals(1)
	bad := func(key, f string, a ...interface{}) bool {
		if c.Violate("valset", key, kind+": "+f, a...) {
			return false
		}
		s.resync(S, M)
		return true
	}
	if S.Size() != len(M.vals) {
		return bad("set/size/"+kind, "size %d, reference %d", S.Size(), len(M.vals))
	}
	for i, v := range S.Validators {
		if i > 0 && string(S.Validators[i-1].Address) >= string(v.Address) {
			return bad("set/not-sorted/"+kind, "validators not strictly ordered by address at index %d", i)
		}
		if string(v.Address) != M.vals[i].addr {
			return bad("set/membership/"+kind, "member %d is %s, reference %s", i, short(string(v.Address)), short(M.vals[i].addr))
		}
		if v.VotingPower != M.vals[i].power {
			return bad("set/power/"+kind, "member %d has power %d, reference %d", i, v.VotingPower, M.vals[i].power)
		}
	}
	tot := S.TotalVotingPower()
	if big.NewInt(tot).Cmp(M.total()) != 0 {
		return bad("set/total/"+kind, "TotalVotingPower %d, reference (clamped exact sum) %s", tot, M.total())
	}
	accEq := true
	for i, v := range S.Validators {
		if big.NewInt(v.Accum).Cmp(M.vals[i].accum) != 0 {
			accEq = false
			if !bad("set/priority/"+kind, "member %d (power %d) has priority %d, reference %s", i, v.VotingPower, v.Accum, M.vals[i].accum) {
				return false
			}
			break
		}
	}
	if len(M.vals) > 0 {
		p := S.GetProposer()
		if p == nil {
			return bad("set/proposer-nil/"+kind, "GetProposer is nil on a non-empty set")
		}
		if string(p.Address) != M.proposer() {
			suffix := "/priorities-equal"
			if !accEq {
				suffix = ""
			}
			return bad("set/proposer/"+kind+suffix, "proposer %s (power %d), reference %s", short(string(p.Address)), p.VotingPower, short(M.proposer()))
		}
	}
	return true
}

func (s *state) resync(S *types.ValidatorSet, M *mSet) {
	M.vals = nil
	for _, v := range S.Validators {
		M.vals = append(M.vals, &mVal{addr: string(v.Address), pub: v.PubKey, cb: v.CoinBase, power: v.VotingPower, accum: big.NewInt(v.Accum)})
	}
	M.prop = ""
	if p := S.GetProposer(); p != nil {
		M.prop = string(p.Address)
	}
}

// identity: Hash is a function of content only, and an injective one.
func (s *state) identity(S *types.ValidatorSet, M *mSet, kind string) bool {
	if len(M.vals) == 0 {
		return true
	}
	c := s.c
	c.Evals(1)
	h := hex.EncodeToString(S.Hash())
	ct := M.content()
	if old, ok := s.hashOf[ct]; ok && old != h {
		if c.Violate("hash", "hash/depends-on-bookkeeping/"+kind, "%s: same members/keys/powers hash to %s and to %s", kind, old[:12], h[:12]) {
			return false
		}
	}
	if old, ok := s.contentOf[h]; ok && old != ct {
		if c.Violate("hash", "hash/collision/"+kind, "%s: two different validator sets have hash %s", kind, h[:12]) {
			return false
		}
	}
	s.hashOf[ct] = h
	s.contentOf[h] = ct
	return true
}

// ------------------------------------------------------------ (1) construction

func (s *state) construct(n int) bool {
	c := s.c
	t := c.Tape.Fork("perm")
	list := s.pool[:n]
	ref := newMSet(list)
	var first *types.ValidatorSet
	for k := 0; k < 3; k++ {
		in := make([]*types.Validator, n)
		for i, v := range list {
			in[i] = v.real()
		}
		if k > 0 {
			t.Shuffle(n, func(i, j int) { in[i], in[j] = in[j], in[i] })
		}
		S := types.NewValidatorSet(in)
		if !s.same(S, ref.copy(), "new") || !s.identity(S, ref, "new") {
			return false
		}
		for _, v := range in {
			if v.Accum != 0 {
				if c.Violate("valset", "set/new-aliases-input", "NewValidatorSet changed the priority of a validator in the caller's list") {
					return false
				}
			}
		}
		if first == nil {
			first = S
		}
	}
	// the same members added one by one in another order: same order and Hash;
	// no rotation has happened, so the proposer is the highest priority member
	A := types.NewValidatorSet(nil)
	am := &mSet{}
	order := make([]int, n)
	for i := range order {
		order[i] = i
	}
	t.Shuffle(n, func(i, j int) { order[i], order[j] = order[j], order[i] })
	for _, i := range order {
		if !A.Add(list[i].real()) {
			if c.Violate("valset", "set/add-refused-new-member", "Add refused a validator that is not in the set") {
				return false
			}
		}
		am.vals = append(am.vals, list[i].copy())
	}
	am = &mSet{vals: newSorted(am.vals)}
	if !s.same(A, am, "add-all") || !s.identity(A, am, "add-all") {
		return false
	}
	s.S, s.M = first, ref
	return true
}

func newSorted(v []*mVal) []*mVal {
	m := &mSet{vals: v}
	for i := 1; i < len(m.vals); i++ {
		for j := i; j > 0 && m.vals[j-1].addr > m.vals[j].addr; j-- {
			m.vals[j-1], m.vals[j] = m.vals[j], m.vals[j-1]
		}
	}
	return m.vals
}

// ------------------------------------------------------------ rotations

// accounting checks what k rotations mean whatever their order: everybody
// gained k times its power, k proposers were chosen and each choice cost the
// chosen one exactly the total power. (Holds for one call and for any split;
// it keeps the one-call path under test although its choice of proposers is a
// known finding.) Only meaningful where nothing saturates.
func accounting(pre []int64, S *types.ValidatorSet, k int) string {
	tot := big.NewInt(0)
	for _, v := range S.Validators {
		tot.Add(tot, big.NewInt(v.VotingPower))
	}
	if len(pre) != len(S.Validators) || tot.Sign() <= 0 {
		return "membership-changed"
	}
	paid := new(big.Int)
	for i, v := range S.Validators {
		d := new(big.Int).Mul(big.NewInt(v.VotingPower), big.NewInt(int64(k)))
		d.Add(d, big.NewInt(pre[i]))
		d.Sub(d, big.NewInt(v.Accum))
		if d.Sign() < 0 {
			return "gained-more-than-k-times-power"
		}
		if new(big.Int).Mod(d, tot).Sign() != 0 {
			return "paid-a-fraction-of-the-total"
		}
		paid.Add(paid, d)
	}
	if paid.Cmp(new(big.Int).Mul(tot, big.NewInt(int64(k)))) != 0 {
		return "not-k-proposers-paid"
	}
	p := S.GetProposer()
	for _, v := range S.Validators {
		if string(v.Address) == string(p.Address) {
			return ""
		}
	}
	return "proposer-not-a-member"
}

func indexOf(S *types.ValidatorSet, addr string) int {
	for i, v := range S.Validators {
		if string(v.Address) == addr {
			return i
		}
	}
	return -1
}

func accums(S *types.ValidatorSet) []int64 {
	out := make([]int64, len(S.Validators))
	for i, v := range S.Validators {
		out[i] = v.Accum
	}
	return out
}

// rotate performs IncrementAccum(k) on S and the reference on M.
func (s *state) rotate(S *types.ValidatorSet, M *mSet, k int, kind string) bool {
	c := s.c
	if M.safe(k) {
		pre := accums(S)
		S.IncrementAccum(k)
		if why := accounting(pre, S, k); why != "" {
			if c.Violate("rotation", "rotation/accounting/"+why, "IncrementAccum(%d): %s (priorities %v -> %v)", k, why, pre, accums(S)) {
				return false
			}
		}
		for i := 0; i < k; i++ {
			M.step()
		}
		if k == 1 {
			return s.same(S, M, "rotate-1")
		}
		// one call for k rotations: same verdict keys as the split enumeration
		if len(S.Validators) == len(M.vals) {
			accEq := true
			for i, v := range S.Validators {
				if big.NewInt(v.Accum).Cmp(M.vals[i].accum) != 0 {
					accEq = false
				}
			}
			propEq := string(S.GetProposer().Address) == M.proposer()
			if !accEq || !propEq {
				key := "rotation/split/proposer-differs-priorities-equal"
				if !accEq {
					key = "rotation/split/priorities-differ"
				}
				if c.Violate("path-dependence", key, "IncrementAccum(%d) in one call differs from %d single rotations: proposer power %d, reference proposer %s, priorities equal=%v",
					k, k, S.GetProposer().VotingPower, short(M.proposer()), accEq) {
					return false
				}
				c.Probe("known-split-divergence")
				s.resync(S, M)
			}
		}
		return s.same(S, M, "rotate-k")
	}
	// saturating territory: demand "never wraps", not a particular order of clamps
	c.Probe("rotation-in-saturating-range")
	c.Fault("input/rotation-that-saturates")
	c.Evals(1)
	pre := make([]int64, len(S.Validators))
	for i, v := range S.Validators {
		pre[i] = v.Accum
	}
	tot := M.total()
	S.IncrementAccum(k)
	perOp := M.copy()
	for i := 0; i < k; i++ {
		perOp.step()
	}
	p := S.GetProposer()
	if p == nil || M.find(string(p.Address)) < 0 {
		return !c.Violate("saturation", "saturation/proposer-not-a-member", "proposer after a saturating rotation is not a member")
	}
	if big.NewInt(S.TotalVotingPower()).Cmp(tot) != 0 {
		if c.Violate("saturation", "saturation/total", "TotalVotingPower %d, clamped exact sum %s", S.TotalVotingPower(), tot) {
			return false
		}
	}
	kk := big.NewInt(int64(k))
	matches := true
	for i, v := range S.Validators {
		pw := big.NewInt(v.VotingPower)
		a := big.NewInt(pre[i])
		U, _ := sat(new(big.Int).Add(a, new(big.Int).Mul(pw, kk)))
		pk, _ := sat(new(big.Int).Mul(pw, kk))
		start, _ := sat(new(big.Int).Add(a, pk))
		L, _ := sat(new(big.Int).Sub(start, new(big.Int).Mul(tot, kk)))
		got := big.NewInt(v.Accum)
		if got.Cmp(U) > 0 || got.Cmp(L) < 0 {
			if c.Violate("saturation", "saturation/priority-outside-saturating-range",
				"rotate by %d: member %d power %d priority %d -> %d, outside [%s, %s] (wrapped?)", k, i, v.VotingPower, pre[i], v.Accum, L, U) {
				return false
			}
		}
		if k == 1 && string(v.Address) != string(p.Address) && got.Cmp(U) != 0 {
			if c.Violate("saturation", "saturation/non-proposer-add",
				"rotate by 1: member %d power %d priority %d -> %d, want the clamped sum %s", i, v.VotingPower, pre[i], v.Accum, U) {
				return false
			}
		}
		if got.Cmp(perOp.vals[i].accum) != 0 {
			matches = false
		}
	}
	if matches && string(p.Address) == perOp.proposer() {
		c.Probe("saturating-rotation-equals-per-operation-clamp-reference")
	}
	s.resync(S, M)
	return true
}

// ------------------------------------------------------------ (2) history

func (s *state) history() bool {
	c := s.c
	t := c.Tape.Fork("ops")
	nOps := t.Range(8, 40)
	inSet := func(a string) bool { return s.M.find(a) >= 0 }
	randAccum := func() int64 {
		if s.extreme() {
			return int64(t.Uint64())
		}
		tot := s.M.exactTotal()
		if !tot.IsInt64() || tot.Int64() <= 0 {
			return 0
		}
		m := tot.Int64()
		if m > 1<<40 {
			m = 1 << 40
		}
		return int64(t.Uint64()%uint64(2*m+1)) - m
	}
	for op := 0; op < nOps; op++ {
		c.Event(1)
		switch t.Pick(6, 4, 3, 3, 3, 2, 2) {
		case 0: // rotate in place
			k := []int{1, 1, 1, 1, 2, 2, 3, 4, 5, 7}[t.Int(10)]
			s.ops = append(s.ops, fmt.Sprintf("rotate(%d)", k))
			if !s.rotate(s.S, s.M, k, "rotate-1") {
				return false
			}
		case 1: // rotate a copy (what consensus does on a round change); original untouched
			k := []int{1, 1, 2, 3, 4, 6}[t.Int(6)]
			C, CM := s.S.Copy(), s.M.copy()
			s.ops = append(s.ops, fmt.Sprintf("copy.rotate(%d)", k))
			if !s.same(C, CM.copy(), "copy") {
				return false
			}
			if !s.rotate(C, CM, k, "rotate-1") {
				return false
			}
			if !s.same(s.S, s.M, "original-after-copy-rotated") {
				return false
			}
			if t.Bool(1, 2) {
				s.S, s.M = C, CM
				s.ops[len(s.ops)-1] += " adopted"
			}
		case 2: // add
			v := s.pool[t.Int(len(s.pool))].copy()
			v.accum = big.NewInt(randAccum())
			had := inSet(v.addr)
			if had {
				c.Fault("input/add-present-member")
			}
			s.ops = append(s.ops, fmt.Sprintf("add(%s,%d) present=%v", short(v.addr), v.power, had))
			got := s.S.Add(v.real())
			if got == had {
				if c.Violate("valset", "set/add-result", "Add returned %v for a validator that was present=%v", got, had) {
					return false
				}
			}
			if !had {
				s.M.vals = newSorted(append(s.M.vals, v))
				s.M.prop = ""
			}
			if !s.same(s.S, s.M, "add") {
				return false
			}
		case 3: // update
			v := s.pool[t.Int(len(s.pool))].copy()
			v.power = s.drawPower(t, len(s.pool), v.power, t.Int(10))
			if t.Bool(1, 3) {
				if i := s.M.find(v.addr); i >= 0 {
					v.power = s.M.vals[i].power // priority-only update
				}
			}
			v.accum = big.NewInt(randAccum())
			had := inSet(v.addr)
			if !had {
				c.Fault("input/update-absent-member")
			}
			s.ops = append(s.ops, fmt.Sprintf("update(%s,%d) present=%v", short(v.addr), v.power, had))
			got := s.S.Update(v.real())
			if got != had {
				if c.Violate("valset", "set/update-result", "Update returned %v for a validator that was present=%v", got, had) {
					return false
				}
			}
			if had {
				s.M.vals[s.M.find(v.addr)] = v
				s.M.prop = ""
			}
			if !s.same(s.S, s.M, "update") {
				return false
			}
		case 4: // remove (never the last member: rotation of an empty set is documented to panic)
			v := s.pool[t.Int(len(s.pool))]
			had := inSet(v.addr)
			if had && len(s.M.vals) == 1 {
				continue
			}
			if !had {
				c.Fault("input/remove-absent-member")
			}
			s.ops = append(s.ops, fmt.Sprintf("remove(%s) present=%v", short(v.addr), had))
			rv, got := s.S.Remove([]byte(v.addr))
			if got != had || (got && string(rv.Address) != v.addr) {
				if c.Violate("valset", "set/remove-result", "Remove returned %v for a validator that was present=%v", got, had) {
					return false
				}
			}
			if had {
				i := s.M.find(v.addr)
				s.M.vals = append(s.M.vals[:i:i], s.M.vals[i+1:]...)
				s.M.prop = ""
			}
			if !s.same(s.S, s.M, "remove") {
				return false
			}
		case 5: // getters return copies and agree with the reference
			v := s.pool[t.Int(len(s.pool))]
			i := s.M.find(v.addr)
			gi, gv := s.S.GetByAddress([]byte(v.addr))
			if gi != i || (gv == nil) != (i < 0) || s.S.HasAddress([]byte(v.addr)) != (i >= 0) {
				if c.Violate("valset", "set/lookup", "GetByAddress/HasAddress(%s): index %d present %v, reference index %d", short(v.addr), gi, gv != nil, i) {
					return false
				}
			}
			if gv != nil {
				gv.Accum += 12345
				gv.VotingPower++
			}
			if j := t.Int(len(s.M.vals) + 2); true {
				a, bv := s.S.GetByIndex(j - 1)
				if (bv != nil) != (j-1 >= 0 && j-1 < len(s.M.vals)) || (bv != nil && string(a) != s.M.vals[j-1].addr) {
					if c.Violate("valset", "set/lookup-by-index", "GetByIndex(%d) disagrees with the reference", j-1) {
						return false
					}
				}
				if bv != nil {
					bv.Accum -= 999
				}
			}
			if p := s.S.GetProposer(); p != nil {
				p.Accum += 7
			}
			s.ops = append(s.ops, "getters")
			if !s.same(s.S, s.M, "getters") {
				return false
			}
		default: // identity
			s.ops = append(s.ops, "hash")
			if !s.identity(s.S, s.M, "history") {
				return false
			}
			// a fresh set of the same members in another order, with fresh bookkeeping
			in := make([]*types.Validator, len(s.M.vals))
			for i, v := range s.M.vals {
				r := v.real()
				r.Accum = 0
				in[i] = r
			}
			t.Shuffle(len(in), func(i, j int) { in[i], in[j] = in[j], in[i] })
			F := types.NewValidatorSet(in)
			if hex.EncodeToString(F.Hash()) != hex.EncodeToString(s.S.Hash()) {
				if c.Violate("hash", "hash/depends-on-bookkeeping/rebuilt", "a set rebuilt from the same members in another order has another Hash") {
					return false
				}
			}
		}
	}
	c.Finger(fmt.Sprint(s.ops))
	return s.identity(s.S, s.M, "history-end")
}

// ------------------------------------------------------------ (3) every split of T rotations

func (s *state) splits() (ok, ran bool) {
	c := s.c
	t := c.Tape.Fork("split")
	T := t.Range(6, 12)
	if c.Tier == kernel.Thorough {
		T = t.Range(11, 15)
	}
	for T > 0 && !s.M.safe(T) {
		T--
	}
	if T < 2 {
		c.Probe("split-skipped-saturating")
		return true, false
	}
	// reference: T single rotations
	ref := make([]*mSet, T+1)
	ref[0] = s.M.copy()
	for i := 1; i <= T; i++ {
		ref[i] = ref[i-1].copy()
		ref[i].step()
	}
	nodes := 0
	stop := false
	var dfs func(S *types.ValidatorSet, pos int, path []int, accOK bool)
	dfs = func(S *types.ValidatorSet, pos int, path []int, accOK bool) {
		for k := 1; pos+k <= T && !stop; k++ {
			C := S.Copy()
			C.IncrementAccum(k)
			nodes++
			if why := accounting(accums(S), C, k); why != "" {
				if c.Violate("rotation", "rotation/accounting/"+why, "IncrementAccum(%d) after %v: %s (priorities %v -> %v)", k, path, why, accums(S), accums(C)) {
					stop = true
					return
				}
			}
			p := append(path, k)
			stepwise := true
			for _, x := range p {
				if x != 1 {
					stepwise = false
				}
			}
			r := ref[pos+k]
			accEq := true
			for i, v := range C.Validators {
				if big.NewInt(v.Accum).Cmp(r.vals[i].accum) != 0 {
					accEq = false
					break
				}
			}
			propEq := string(C.GetProposer().Address) == r.proposer()
			if !accEq || !propEq {
				key := "rotation/split/"
				if stepwise {
					key = "rotation/stepwise-vs-reference/"
				}
				switch {
				case !accEq:
					key += "priorities-differ"
				default:
					key += "proposer-differs-priorities-equal"
				}
				pw := make([]int64, len(C.Validators))
				refPower := int64(0)
				refAcc := make([]string, len(r.vals))
				for i, v := range C.Validators {
					pw[i] = v.VotingPower
					refAcc[i] = r.vals[i].accum.String()
					if r.vals[i].addr == r.proposer() {
						refPower = r.vals[i].power
					}
				}
				if c.Violate("path-dependence", key,
					"powers %v, priorities %v: %d rotations performed as IncrementAccum calls %v give proposer index %d (power %d) priorities %v; "+
						"%d single rotations give proposer index %d (power %d) priorities %v",
					pw, accums(s.S), pos+k, p, indexOf(C, string(C.GetProposer().Address)), C.GetProposer().VotingPower, accums(C),
					pos+k, r.find(r.proposer()), refPower, refAcc) {
					stop = true
					return
				}
				c.Probe("known-split-divergence")
			}
			if accEq {
				// priorities decide everything that follows; a subtree below a
				// priorities mismatch would only repeat the same report
				dfs(C, pos+k, p, true)
			}
		}
	}
	dfs(s.S, 0, nil, true)
	c.Evals(nodes)
	c.Finger("T", T)
	s.trace = append(s.trace, fmt.Sprintf("splits: T=%d sequences checked=%d", T, nodes))
	if stop {
		return false, true
	}
	unequal := false
	for _, v := range s.M.vals {
		if v.power != s.M.vals[0].power {
			unequal = true
		}
	}
	return true, T >= 6 && len(s.M.vals) >= 2 && unequal
}

// ------------------------------------------------------------ (4) frequency

func (s *state) frequency() bool {
	c := s.c
	tot := s.M.exactTotal()
	if !tot.IsInt64() || tot.Int64() > 400 || len(s.M.vals) == 0 {
		return true
	}
	t := c.Tape.Fork("freq")
	total := tot.Int64()
	n := int64(len(s.M.vals))
	in := make([]*types.Validator, len(s.M.vals))
	for i, v := range s.M.vals {
		r := v.real()
		r.Accum = 0
		in[i] = r
	}
	F := types.NewValidatorSet(in)
	for i, off := 0, t.Int(int(2*total)+1); i < off; i++ {
		F.IncrementAccum(1)
	}
	W := int64(t.Range(1, 3)) * total
	if t.Bool(1, 3) {
		W = int64(1 + t.Int(int(3*total)))
	}
	count := map[string]int64{}
	seq := make([]byte, 0, W)
	for i := int64(0); i < W; i++ {
		F.IncrementAccum(1)
		a := string(F.GetProposer().Address)
		count[a]++
		seq = append(seq, a[0])
	}
	c.Event(int(W))
	c.Evals(1)
	c.Finger(seq)
	for _, v := range s.M.vals {
		// |count*total - W*power| < n*total
		d := count[v.addr]*total - W*v.power
		if d < 0 {
			d = -d
		}
		if d >= n*total {
			if c.Violate("frequency", "frequency/not-proportional",
				"over %d rotations (total power %d, %d validators) a validator of power %d proposed %d times, proportional share %.2f",
				W, total, n, v.power, count[v.addr], float64(W)*float64(v.power)/float64(total)) {
				return false
			}
		}
	}
	s.trace = append(s.trace, fmt.Sprintf("frequency: window=%d total=%d", W, total))
	return true
}
