// Package c12rig is the composite C12 check: the library part (partsrig:
// block identity under perturbation, part-set reassembly under forgeries and
// delivery orders) and the node-level part (c12cluster: what a node assembled
// inside the consensus state machine is the bytes it received). The first draw
// of stream "part" selects which part a run executes.
package c12rig

import (
	"time"

	"verif/sim/kernel"
	"verif/sim/rigs/c12cluster"
	"verif/sim/rigs/partsrig"
)

// Rig returns the composite rig.
func Rig() *kernel.Rig {
	r := partsrig.Describe()
	lib := r.Run
	r.Name = "partsrig+R-cluster/parts"
	r.Rule = "part A (99 of 100 runs): " + r.Rule + " || part B (1 of 100 runs): cluster runs as in C01 (4-7 validators, message/partition faults) with at least one equivocating proposer that sends two different valid blocks of one round to different nodes and votes for both; after every event, for every correct node whose (proposal block, completed part set) pair changed: a fresh decode of the part set's bytes has the hash the held block object reports, and that hash is the hash of the block's own header"
	r.Real = append(r.Real, "node-level part: real ConsensusState (setProposal, addProposalBlockPart, enterPrecommit/enterCommit re-targeting of the part set), reactor inbound path, app and stores (see C01)")
	r.Stub = append(r.Stub, "node-level part: ticker, gossip routines, switch, SimDB (see C01)")
	r.RunsPerProcess = 1000
	r.RunTimeout = 600 * time.Second
	r.Run = func(c *kernel.Ctx) {
		if c.Tape.Fork("part").Int(100) == 0 {
			c.Finger("cluster")
			c12cluster.Run(c)
			return
		}
		lib(c)
	}
	return r
}
