// Package c14rig is the composite C14 check: the library part (walrig: every
// cut and every single-byte change of seeded logs read back through the real
// decoder, search and group reader; live phase with rotation and pruning) and
// the node-level part (c14cluster: what the catch-up replay of a restarting
// node does with a damaged log). The first draw of stream "part" selects which
// part a run executes.
package c14rig

import (
	"time"

	"verif/sim/kernel"
	"verif/sim/rigs/c14cluster"
	"verif/sim/rigs/walrig"
)

// Rig returns the composite rig.
func Rig() *kernel.Rig {
	r := walrig.Describe()
	lib := r.Run
	r.Name = "wal+R-cluster/walreplay"
	r.Rule = "part A (11 of 12 runs): " + r.Rule + " || part B (1 of 12 runs): cluster runs as in C01 without Byzantine validators (4-7 validators, message/partition faults, real file WAL) with 2-6 crashes at event boundaries or inside write sequences; at each restart the WAL head file is left intact (1/8), cut at a tape-chosen offset behind the last end-height marker (2/8), or gets one altered bit in the checksum, length or payload field of a tape-chosen record of the last height (4/8) or of an earlier height (1/8). Oracle, when the restart's catch-up replay targets that marker: the real decoder's view of the same bytes behind the marker (k messages, then end-of-log, a corruption error or another error) binds the consumer consensus.catchupReplay: a log that does not end in end-of-log must be reported (start refused by panic or error, or the logged 'Error on catchup replay') and never announced as replayed; a log announced as replayed must have handed at least k messages to the state machine. A refused start is torn down, the byte is repaired and the node restarted. One oracle evaluation = one judged restart."
	r.Real = append(r.Real, "node-level part: consensus.catchupReplay inside ConsensusState.OnStart over the real file WAL of a node that crashed (SearchForEndHeight, WALDecoder over the GroupReader, readReplayMessage -> handleMsg/handleTimeout), real FilePV, app and stores (see C01)")
	r.Stub = append(r.Stub, "node-level part: ticker, gossip routines, switch, SimDB (see C01); what the replay consumed and reported is observed through the consensus logger ('Replay: ...' lines) and the panic/error of the start")
	r.Assumptions = append(r.Assumptions, "node-level part: only single-file logs are damaged (cluster runs do not reach the 10 MB rotation limit; rotation is part A's subject); the decoder's own verdict on the damaged bytes is taken as given there (it is judged against what was written by part A); a lower bound only on the number of replayed messages, because the replay itself appends step events to the log it is reading")
	r.RunTimeout = 600 * time.Second
	r.Run = func(c *kernel.Ctx) {
		if c.Tape.Fork("part").Int(12) == 0 {
			c.Finger("cluster")
			c14cluster.Run(c)
			return
		}
		lib(c)
	}
	return r
}
