package votesrig

import (
	"fmt"
	"math/big"
	"sort"
	"time"

	"verif/sim/kernel"

	cstypes "github.com/lianxiangcloud/linkchain/consensus/types"
	cmn "github.com/lianxiangcloud/linkchain/libs/common"
	"github.com/lianxiangcloud/linkchain/libs/crypto"
	"github.com/lianxiangcloud/linkchain/types"
)

// Describe returns the VoteSet/VerifyCommit-level rig. It does not register
// itself: the check binary (or the composite rigs/c03rig, which combines it
// with the fast-sync part) calls kernel.Register.
func Describe() *kernel.Rig {
	return &kernel.Rig{
		Property: "C03", Name: "votes", Level: "exploration",
		Rule: "seeded generation: validator set of 1..12 (thorough 1..20) ed25519 keys from the tape, powers from " +
			"{ones, equal, small, one dominant at/around exactly 2/3, geometric, near 2^62/n, totals divisible by 3}; a vote multiset " +
			"(honest for B / near-miss ids B', B'' / nil, equivocations, exact duplicates, same block re-signed, and a catalogue of forgeries: " +
			"wrong height/round/type/chain/size field, signature bit-flipped/zero/nil/other scheme/transplanted from another validator or another vote, " +
			"wrong/out-of-range/negative index, wrong/empty address, impersonation) delivered in a tape-chosen order to the real VoteSet or " +
			"HeightVoteSet, interleaved with SetPeerMaj23 claims (first, repeated, conflicting); after EVERY delivery the model and the implementation " +
			"are compared; then MakeCommit (or a hand-assembled commit when no majority formed) and 10-30 tampered variants go to " +
			"VerifyCommit, the fast-sync predicate on wire-round-tripped real blocks, BlockExecutor.ValidateBlock and reconstructLastCommit (NewConsensusState). " +
			"Non-trivial = at least one vote was refused or surfaced as a conflict AND at least one commit verdict was compared; " +
			"distinct = fingerprint over (n, distribution, per-delivery class sequence, majority id, commit verdict bits).",
		Real: []string{"types.VoteSet", "consensus/types.HeightVoteSet", "types.Vote.SignBytes/Verify (canonical JSON)", "types.ValidatorSet.VerifyCommit",
			"types.Commit/Block (hashing, ValidateBasic, MakePartSet, wire encode/decode)", "consensus.BlockExecutor.ValidateBlock (validateBlock)",
			"consensus.NewConsensusState -> reconstructLastCommit", "types.DuplicateVoteEvidence.Verify", "libs/crypto ed25519"},
		Stub: []string{"blockchain reactor poolRoutine: only its acceptance predicate VerifyCommit(chainID, firstID, first.Height, second.LastCommit) is run, on blocks decoded from their wire encoding",
			"BlockChainApp (LoadSeenCommit returns the commit under test)", "mempool/evidence pool mocks", "in-memory status DB"},
		Assumptions: []string{
			"total voting power below 2^62 (the property's quantifier); ed25519 validators only",
			"a signature that the harness did not produce with validator i's key over exactly the displayed tuple is a forgery (ed25519 unforgeability; no accidental collisions)",
			"a commit whose model verdict is 'valid' but which carries extra malformed entries may be refused by the implementation; only honest MakeCommit output must be accepted",
			"timestamps are whole milliseconds after 1970 (the wire codec and the canonical time format are not exercised outside that)",
		},
		QuickRuns: 6000, ThoroughRuns: 300000, QuickBudget: 50 * time.Second, ThoroughBudget: 15 * time.Minute,
		Run: run,
	}
}

type delivery struct {
	vote  *types.Vote // nil for claims / round changes
	label string
	peer  string
	// claim
	isClaim bool
	bid     types.BlockID
	round   int
	typ     byte
	// HVS only
	setRound int
}

type runState struct {
	w *world
	c *kernel.Ctx

	vs  *types.VoteSet         // plain mode
	hvs *cstypes.HeightVoteSet // hvs mode
	// models by (round, type)
	models map[[2]int]*vsModel

	lastRecover bool

	classes  []byte
	refused  int
	conflict int
	valid    int
	hist     map[string]int
}

func (rs *runState) model(round int, typ byte) *vsModel {
	return rs.models[[2]int{round, int(typ)}]
}

func (rs *runState) implSet(round int, typ byte) *types.VoteSet {
	if !rs.w.hvsMode {
		if round == rs.w.R && typ == rs.w.typ {
			return rs.vs
		}
		return nil
	}
	if typ == types.VoteTypePrevote {
		return rs.hvs.Prevotes(round)
	}
	if typ == types.VoteTypePrecommit {
		return rs.hvs.Precommits(round)
	}
	return nil
}

func run(c *kernel.Ctx) {
	w := newWorld(c)
	if c.Failed() {
		return
	}
	rs := &runState{w: w, c: c, models: map[[2]int]*vsModel{}, hist: map[string]int{}}
	if w.hvsMode {
		rs.hvs = cstypes.NewHeightVoteSet(w.chainID, w.H, w.valSet)
		if w.R > 0 {
			rs.hvs.SetRound(w.R)
		}
		for r := 0; r <= w.R; r++ {
			rs.models[[2]int{r, int(types.VoteTypePrevote)}] = newVSModel(w, r, types.VoteTypePrevote)
			rs.models[[2]int{r, int(types.VoteTypePrecommit)}] = newVSModel(w, r, types.VoteTypePrecommit)
		}
	} else {
		rs.vs = types.NewVoteSet(w.chainID, w.H, w.R, w.typ, w.valSet)
		rs.models[[2]int{w.R, int(w.typ)}] = newVSModel(w, w.R, w.typ)
	}
	c.Finger(w.n, w.dist, w.hvsMode, w.R, w.typ)

	ds := rs.catalogue()
	for step, d := range ds {
		c.Event(1)
		if !rs.apply(step, d) {
			rs.sample(ds, "stopped at delivery "+fmt.Sprint(step))
			return
		}
	}
	c.Finger(string(rs.classes))

	verdicts := rs.commitPhase()
	if c.Failed() {
		rs.sample(ds, "stopped in commit phase")
		return
	}
	if (rs.refused > 0 || rs.conflict > 0) && verdicts > 0 {
		c.NonTrivial()
	}
	rs.sample(ds, "")
}

func (rs *runState) sample(ds []delivery, note string) {
	w := rs.w
	pw := make([]string, w.n)
	for i, p := range w.power {
		pw[i] = p.String()
	}
	keys := make([]string, 0, len(rs.hist))
	for k := range rs.hist {
		keys = append(keys, k)
	}
	sort.Strings(keys)
	h := make([]string, 0, len(keys))
	for _, k := range keys {
		h = append(h, fmt.Sprintf("%s=%d", k, rs.hist[k]))
	}
	maj := "none"
	if m := rs.model(w.R, w.typ); m != nil && m.maj != nil {
		maj = rs.idName(*m.maj)
	}
	s := map[string]interface{}{
		"validators": w.n, "powers": pw, "dist": w.dist, "height": w.H, "round": w.R, "type": w.typ,
		"target": map[bool]string{false: "VoteSet", true: "HeightVoteSet"}[w.hvsMode],
		"deliveries": len(ds), "outcomes": h, "majority": maj,
	}
	if note != "" {
		s["note"] = note
	}
	rs.c.Sample(s)
}

func (rs *runState) idName(b types.BlockID) string {
	for i, x := range rs.w.ids {
		if bidString(x) == bidString(b) {
			if x.IsZero() && bidString(x) == bidString(types.BlockID{}) {
				return "nil"
			}
			return []string{"B", "B'", "B''", "B3", "B4"}[i]
		}
	}
	return "unknown"
}

// ------------------------------------------------------------ catalogue

func (rs *runState) catalogue() []delivery {
	w, c := rs.w, rs.c
	t := c.Tape.Fork("votes")
	var ds []delivery
	add := func(v *types.Vote, label string) {
		ds = append(ds, delivery{vote: v, label: label, peer: []string{"", "pA", "pB"}[t.Int(3)]})
	}
	B, nilID := w.ids[0], w.ids[len(w.ids)-1]
	pickOther := func() types.BlockID { return w.ids[1+t.Int(len(w.ids)-2)] }

	style := t.Pick(4, 2, 3, 3, 1)
	// boundary style: a set of B voters whose power is just above / at / below two thirds
	inB := make([]bool, w.n)
	if style == 3 {
		perm := make([]int, w.n)
		for i := range perm {
			perm[i] = i
		}
		t.Shuffle(w.n, func(i, j int) { perm[i], perm[j] = perm[j], perm[i] })
		sum := new(big.Int)
		last := -1
		for _, i := range perm {
			if moreThanTwoThirds(sum, w.total) {
				break
			}
			inB[i] = true
			sum.Add(sum, w.power[i])
			last = i
		}
		if last >= 0 && t.Bool(1, 2) {
			inB[last] = false
		}
	}
	for i := 0; i < w.n; i++ {
		var ids []types.BlockID
		switch style {
		case 0: // honest majority
			switch t.Pick(85, 7, 5, 3) {
			case 0:
				ids = append(ids, B)
			case 1:
				ids = append(ids, nilID)
			case 2:
				ids = append(ids, pickOther())
			}
			if len(ids) > 0 && t.Bool(1, 10) {
				ids = append(ids, pickOther())
			}
		case 1: // split
			switch t.Pick(45, 45, 10) {
			case 0:
				ids = append(ids, B)
			case 1:
				ids = append(ids, w.ids[1])
			default:
				ids = append(ids, nilID)
			}
		case 2: // equivocation heavy
			ids = append(ids, w.ids[t.Int(len(w.ids))])
			if t.Bool(7, 10) {
				ids = append(ids, w.ids[t.Int(len(w.ids))])
			}
			if t.Bool(3, 10) {
				ids = append(ids, w.ids[t.Int(len(w.ids))])
			}
		case 3: // boundary
			if inB[i] {
				ids = append(ids, B)
			} else {
				switch t.Pick(4, 3, 3) {
				case 0:
					ids = append(ids, w.ids[1])
				case 1:
					ids = append(ids, nilID)
				}
			}
			if len(ids) > 0 && t.Bool(1, 12) {
				ids = append(ids, pickOther())
			}
		default: // sparse
			if t.Bool(3, 10) {
				ids = append(ids, w.ids[t.Int(len(w.ids))])
			}
		}
		seen := map[string]bool{}
		for _, id := range ids {
			if seen[bidString(id)] {
				continue
			}
			seen[bidString(id)] = true
			v := w.honest(i, w.H, w.R, w.typ, id, w.chainID)
			label := "valid"
			if len(seen) > 1 {
				label = "equivocation"
			}
			add(v, label)
			if t.Bool(1, 5) {
				add(v.Copy(), "duplicate")
			}
			if t.Bool(1, 20) {
				add(w.honest(i, w.H, w.R, w.typ, id, w.chainID), "resigned-same-block")
			}
		}
	}
	// votes that are honest for another round/type: refused by a plain vote
	// set, routed to their own set by a height vote set
	nOther := 0
	if w.hvsMode {
		nOther = t.Int(2 * w.n)
	} else if t.Bool(1, 2) {
		nOther = t.Int(3)
	}
	for k := 0; k < nOther; k++ {
		i := t.Int(w.n)
		r := w.R + t.Int(3)
		if w.hvsMode && t.Bool(1, 3) {
			r = w.R + t.Int(7) // far rounds: more than a peer may open as catch-up rounds
		}
		typ := []byte{types.VoteTypePrevote, types.VoteTypePrecommit}[t.Int(2)]
		if r == w.R && typ == w.typ {
			r++
		}
		add(w.honest(i, w.H, r, typ, w.ids[t.Int(len(w.ids))], w.chainID), "honest-other-step")
	}
	// forgeries
	noise := t.Pick(2, 3, 3, 2)
	nForged := []int{0, 1 + t.Int(2), 1 + t.Int(w.n+1), 2 * (1 + t.Int(w.n+1))}[noise]
	for k := 0; k < nForged; k++ {
		v, label := rs.forge(t)
		if label != "" {
			ds = append(ds, delivery{vote: v, label: label, peer: []string{"", "pA", "pB"}[t.Int(3)]})
		}
	}
	// peer claims
	nClaims := t.Pick(3, 3, 2, 2)
	if style == 2 {
		nClaims += 1 + t.Int(2)
	}
	for k := 0; k < nClaims; k++ {
		d := delivery{isClaim: true, peer: []string{"pA", "pB", "pC"}[t.Int(3)], round: w.R, typ: w.typ}
		if t.Bool(1, 10) {
			var o types.BlockID
			copy(o.Hash[:], t.Bytes(32))
			o.PartsHeader.Total = 1
			d.bid = o
		} else {
			d.bid = w.ids[t.Int(len(w.ids))]
		}
		ds = append(ds, d)
	}
	if w.hvsMode && t.Bool(1, 2) {
		ds = append(ds, delivery{setRound: w.R + 1 + t.Int(2)})
	}

	o := c.Tape.Fork("order")
	o.Shuffle(len(ds), func(i, j int) { ds[i], ds[j] = ds[j], ds[i] })
	// claims early make tracked conflicts likelier
	if style == 2 && o.Bool(2, 3) {
		sort.SliceStable(ds, func(i, j int) bool { return ds[i].isClaim && !ds[j].isClaim })
	}
	return ds
}

// forge returns a vote that is invalid by construction for the main vote set,
// with the catalogue label of the forgery.
func (rs *runState) forge(t *kernel.Tape) (*types.Vote, string) {
	w := rs.w
	i := t.Int(w.n)
	id := w.ids[t.Pick(6, 2, 1, 1)%len(w.ids)]
	j := i
	if w.n > 1 {
		j = (i + 1 + t.Int(w.n-1)) % w.n
	}
	switch t.Int(24) {
	case 0:
		v := w.honest(i, w.H, w.R, w.typ, id, w.chainID)
		v.Height = w.H + 1
		return v, "height-field-changed"
	case 1:
		return w.honest(i, w.H+1, w.R, w.typ, id, w.chainID), "honest-for-other-height"
	case 2:
		v := w.honest(i, w.H, w.R+1, w.typ, id, w.chainID)
		v.Round = w.R
		return v, "round-field-changed"
	case 3:
		v := w.honest(i, w.H, w.R, 3-w.typ, id, w.chainID)
		v.Type = w.typ
		return v, "type-field-changed"
	case 4:
		if w.hvsMode {
			return nil, ""
		}
		return w.honest(i, w.H, w.R, 0x03, id, w.chainID), "invalid-type"
	case 5:
		return w.honest(i, w.H, w.R, w.typ, id, w.otherChain), "other-chain"
	case 6:
		v := w.honest(i, w.H, w.R, w.typ, id, w.chainID)
		s := v.Signature.(crypto.SignatureEd25519)
		s[t.Int(64)] ^= byte(1 << uint(t.Int(8)))
		v.Signature = s
		return v, "sig-bitflip"
	case 7:
		v := w.honest(i, w.H, w.R, w.typ, id, w.chainID)
		v.Signature = crypto.SignatureEd25519{}
		return v, "sig-zero"
	case 8:
		v := w.honest(i, w.H, w.R, w.typ, id, w.chainID)
		v.Signature = nil
		return v, "sig-nil"
	case 9:
		v := w.honest(i, w.H, w.R, w.typ, id, w.chainID)
		s := v.Signature.(crypto.SignatureEd25519)
		v.Signature = crypto.SignatureSecp256k1(append([]byte{}, s[:]...))
		return v, "sig-other-scheme"
	case 10:
		if j == i {
			return nil, ""
		}
		v := w.honest(i, w.H, w.R, w.typ, id, w.chainID)
		o := w.honest(j, w.H, w.R, w.typ, id, w.chainID)
		o.Timestamp = v.Timestamp
		w.sign(o, j, w.chainID)
		v.Signature = o.Signature
		return v, "sig-of-other-validator"
	case 11:
		v := w.honest(i, w.H, w.R, w.typ, w.ids[0], w.chainID)
		o := w.honest(i, w.H, w.R, w.typ, w.ids[1], w.chainID)
		v.Signature = o.Signature
		return v, "sig-of-own-other-vote"
	case 12:
		if j == i {
			return nil, ""
		}
		v := w.honest(i, w.H, w.R, w.typ, id, w.chainID)
		v.ValidatorIndex = j
		return v, "index-of-other"
	case 13:
		v := w.honest(i, w.H, w.R, w.typ, id, w.chainID)
		v.ValidatorIndex = w.n + t.Int(3)
		return v, "index-out-of-range"
	case 14:
		v := w.honest(i, w.H, w.R, w.typ, id, w.chainID)
		v.ValidatorIndex = -1 - t.Int(2)
		return v, "index-negative"
	case 15:
		if j == i {
			return nil, ""
		}
		v := w.honest(i, w.H, w.R, w.typ, id, w.chainID)
		v.ValidatorAddress = append(crypto.Address{}, w.addrs[j]...)
		return v, "address-of-other"
	case 16:
		v := w.honest(i, w.H, w.R, w.typ, id, w.chainID)
		v.ValidatorAddress = nil
		return v, "address-empty"
	case 17:
		if j == i {
			return nil, ""
		}
		v := w.honest(i, w.H, w.R, w.typ, id, w.chainID)
		v.ValidatorIndex = j
		v.ValidatorAddress = append(crypto.Address{}, w.addrs[j]...)
		return v, "impersonation"
	case 18:
		v := w.honest(i, w.H, w.R, w.typ, id, w.chainID)
		v.ValidatorSize = []int{w.n + 1, w.n - 1, 0}[t.Int(3)]
		return v, "size-field-wrong"
	case 19:
		v := w.honest(i, w.H, w.R, w.typ, w.ids[0], w.chainID)
		v.BlockID = w.ids[1+t.Int(len(w.ids)-1)]
		return v, "blockid-field-changed"
	case 20:
		if w.hvsMode {
			return nil, ""
		}
		return nil, "nil-vote"
	case 21:
		v := w.honest(i, w.H, w.R, w.typ, id, w.chainID)
		a := append(crypto.Address{}, w.addrs[i]...)
		a[t.Int(len(a))] ^= 0x10
		v.ValidatorAddress = a
		return v, "address-bitflip"
	case 22:
		if w.H < 2 {
			return nil, ""
		}
		v := w.honest(i, w.H, w.R, w.typ, id, w.chainID)
		v.Height = w.H - 1
		return v, "height-field-changed"
	default:
		v := w.honest(i, w.H, w.R, w.typ, id, w.chainID)
		v.Signature = crypto.SignatureEd25519FromBytes(t.Bytes(64))
		return v, "sig-random"
	}
}

// ------------------------------------------------------------ one delivery

func (rs *runState) apply(step int, d delivery) bool {
	w, c := rs.w, rs.c
	switch {
	case d.setRound > 0:
		if d.setRound > rs.hvs.Round() {
			rs.hvs.SetRound(d.setRound)
			for r := 0; r <= d.setRound; r++ {
				for _, ty := range []byte{types.VoteTypePrevote, types.VoteTypePrecommit} {
					if rs.model(r, ty) == nil {
						rs.models[[2]int{r, int(ty)}] = newVSModel(w, r, ty)
					}
				}
			}
			c.Probe("hvs-set-round")
		}
		rs.classes = append(rs.classes, 'S')
		return true
	case d.isClaim:
		return rs.applyClaim(d)
	}
	return rs.applyVote(step, d)
}

func (rs *runState) applyClaim(d delivery) bool {
	w, c := rs.w, rs.c
	m := rs.model(d.round, d.typ)
	var err error
	if w.hvsMode {
		err = rs.hvs.SetPeerMaj23(d.round, d.typ, d.peer, d.bid)
	} else {
		err = rs.vs.SetPeerMaj23(d.peer, d.bid)
	}
	_, had := m.peers[d.peer]
	refused := m.claim(d.peer, d.bid)
	switch {
	case refused:
		c.Fault("claim/conflicting")
	case had:
		c.Fault("claim/repeated")
	default:
		c.Fault("claim/first")
	}
	rs.hist["claim"]++
	rs.classes = append(rs.classes, 'C')
	if refused != (err != nil) {
		if c.Violate("peer-claim", fmt.Sprintf("voteset/peer-claim/refused-%v-expected-%v", err != nil, refused),
			"SetPeerMaj23(%s,%s): error=%v, but the peer %s claimed a different id before", d.peer, rs.idName(d.bid), err,
			map[bool]string{true: "had", false: "had not"}[refused]) {
			return false
		}
	}
	return rs.compare(m, rs.implSet(d.round, d.typ), "after-claim")
}

func (rs *runState) applyVote(step int, d delivery) bool {
	w, c := rs.w, rs.c
	v := d.vote
	// which set is this vote for?
	round, typ := w.R, w.typ
	if w.hvsMode && v != nil {
		round, typ = v.Round, v.Type
	}
	m := rs.model(round, typ)
	valid := v != nil && w.validForSet(v, round, typ)
	if d.label != "valid" {
		c.Fault("vote/" + d.label)
	}

	var added bool
	var err error
	if w.hvsMode {
		added, err = rs.hvs.AddVote(v, d.peer)
		if m == nil && types.IsVoteTypeValid(typ) {
			// a round the height vote set does not track yet: it may open it as a
			// catch-up round for this peer or refuse the vote; both are allowed
			if err == cstypes.GotVoteFromUnwantedRoundError {
				c.Probe("hvs-unwanted-round")
				rs.classes = append(rs.classes, 'U')
				if added {
					c.Violate("class", "hvs/unwanted-round-but-added", "vote refused as unwanted round but reported added")
					return false
				}
				if rs.hvs.Prevotes(round) != nil || rs.hvs.Precommits(round) != nil {
					c.Violate("class", "hvs/unwanted-round-but-created", "round %d exists after the vote was refused as unwanted", round)
					return false
				}
				return true
			}
			c.Probe("hvs-catchup-round")
			for _, ty := range []byte{types.VoteTypePrevote, types.VoteTypePrecommit} {
				rs.models[[2]int{round, int(ty)}] = newVSModel(w, round, ty)
			}
			m = rs.model(round, typ)
		}
	} else {
		added, err = rs.vs.AddVote(v)
	}
	var cerr *types.ErrVoteConflictingVotes
	if err != nil {
		cerr, _ = err.(*types.ErrVoteConflictingVotes)
	}
	got := clRejected
	switch {
	case cerr != nil && added:
		got = clConflictTrack
	case cerr != nil:
		got = clConflictDrop
	case added && err == nil:
		got = clAdded
	case !added && err == nil:
		got = clDuplicate
	}

	if !valid {
		rs.refused++
		rs.hist["refused"]++
		rs.classes = append(rs.classes, 'x')
		if added || cerr != nil {
			what := "added"
			if cerr != nil {
				what = "conflict-evidence"
			}
			if c.Violate("admission", "voteset/forged-vote-"+what+"/"+d.label,
				"delivery %d: a vote that is invalid by construction (%s) was %s: added=%v err=%v", step, d.label, what, added, err) {
				return false
			}
		}
		if m != nil {
			return rs.compare(m, rs.implSet(round, typ), "after-forged/"+d.label)
		}
		return true
	}

	rs.valid++
	want, conflictWith := m.deliver(v)
	rs.hist[want.String()]++
	rs.classes = append(rs.classes, "radct"[want])
	switch want {
	case clConflictDrop:
		rs.conflict++
		c.Probe("conflict-dropped")
	case clConflictTrack:
		rs.conflict++
		c.Probe("conflict-tracked-by-peer-claim")
	case clRejected:
		rs.refused++
		c.Probe("same-block-other-signature")
	}
	if got != want {
		// "rejected" only requires that the vote is not added and yields no evidence
		if !(want == clRejected && !added && cerr == nil) {
			if c.Violate("class", fmt.Sprintf("voteset/class/want-%s-got-%s", want, got),
				"delivery %d (%s, validator %d, block %s): model says %s, implementation added=%v err=%v",
				step, d.label, v.ValidatorIndex, rs.idName(v.BlockID), want, added, err) {
				return false
			}
		}
	}
	if cerr != nil && (want == clConflictDrop || want == clConflictTrack) {
		if !rs.checkEvidence(step, cerr, v, conflictWith) {
			return false
		}
	}
	return rs.compare(m, rs.implSet(round, typ), "after-vote")
}

func (rs *runState) checkEvidence(step int, cerr *types.ErrVoteConflictingVotes, v, conflictWith *types.Vote) bool {
	w, c := rs.w, rs.c
	c.Evals(1)
	i := v.ValidatorIndex
	ev := cerr.DuplicateVoteEvidence
	bad := ""
	switch {
	case ev == nil || ev.VoteA == nil || ev.VoteB == nil || ev.PubKey == nil:
		bad = "incomplete"
	case !ev.PubKey.Equals(w.keys[i].PubKey()):
		bad = "wrong-pubkey"
	case !w.validForSet(ev.VoteA, v.Round, v.Type) || !w.validForSet(ev.VoteB, v.Round, v.Type):
		bad = "contains-forged-vote"
	case ev.VoteA.ValidatorIndex != i || ev.VoteB.ValidatorIndex != i:
		bad = "wrong-validator"
	case bidString(ev.VoteA.BlockID) == bidString(ev.VoteB.BlockID):
		bad = "same-block"
	case sigString(ev.VoteB.Signature) != sigString(v.Signature):
		bad = "new-vote-missing"
	case conflictWith != nil && sigString(ev.VoteA.Signature) != sigString(conflictWith.Signature):
		bad = "not-the-canonical-vote"
	}
	if bad == "" {
		if err := ev.Verify(w.chainID, w.keys[i].PubKey()); err != nil {
			bad = "verify-fails"
		}
	}
	if bad != "" {
		if c.Violate("evidence", "voteset/conflict-evidence/"+bad, "delivery %d: conflict error for validator %d carries evidence that is %s", step, i, bad) {
			return false
		}
	}
	return true
}

// compare checks every observable of the implementation's vote set against the
// model and against ground truth.
func (rs *runState) compare(m *vsModel, vs *types.VoteSet, when string) bool {
	w, c := rs.w, rs.c
	if m == nil {
		return true
	}
	if vs == nil {
		return !c.Violate("observable", "hvs/missing-vote-set", "%s: height vote set has no set for round %d type %d that the model tracks", when, m.round, m.typ)
	}
	c.Evals(1)
	fail := func(key, f string, a ...interface{}) bool {
		return c.Violate("observable", "voteset/"+key, when+": "+f, a...)
	}
	// majority
	id, ok := vs.TwoThirdsMajority()
	switch {
	case ok != (m.maj != nil):
		if fail("maj23/presence", "TwoThirdsMajority ok=%v (%s), model majority=%v", ok, rs.idName(id), m.maj != nil) {
			return false
		}
	case ok && bidString(id) != bidString(*m.maj):
		if fail("maj23/other-block", "TwoThirdsMajority=%s, model=%s", rs.idName(id), rs.idName(*m.maj)) {
			return false
		}
	}
	if ok {
		// ground truth, independent of the class model: distinct validators with a
		// valid vote for that id hold more than two thirds
		sup := new(big.Int)
		for i, s := range m.seen[bidString(id)] {
			if s {
				sup.Add(sup, w.power[i])
			}
		}
		if !moreThanTwoThirds(sup, w.total) {
			if fail("maj23/without-quorum", "majority reported for %s with %s of %s valid power", rs.idName(id), sup, w.total) {
				return false
			}
		}
		m.majEver[bidString(id)] = true
		if len(m.majEver) > 1 {
			if fail("maj23/two-blocks", "a second block id reported a two-thirds majority") {
				return false
			}
		}
	}
	if vs.HasTwoThirdsMajority() != ok || vs.IsCommit() != (ok && m.typ == types.VoteTypePrecommit) {
		if fail("maj23/flags", "HasTwoThirdsMajority/IsCommit disagree with TwoThirdsMajority") {
			return false
		}
	}
	if got, want := vs.HasTwoThirdsAny(), moreThanTwoThirds(m.sum, w.total); got != want {
		if fail("any23", "HasTwoThirdsAny=%v, model sum=%s of %s", got, m.sum, w.total) {
			return false
		}
	}
	if got, want := vs.HasAll(), m.sum.Cmp(w.total) == 0; got != want {
		if fail("hasall", "HasAll=%v, model sum=%s of %s", got, m.sum, w.total) {
			return false
		}
	}
	if exactlyTwoThirds(m.sum, w.total) {
		c.Probe("round-total-exactly-two-thirds")
	}
	// bit arrays and canonical votes
	ba := vs.BitArray()
	for i := 0; i < w.n; i++ {
		if ba.GetIndex(i) != (m.canon[i] != nil) {
			if fail("bitarray", "BitArray[%d]=%v, model has vote=%v", i, ba.GetIndex(i), m.canon[i] != nil) {
				return false
			}
		}
		g := vs.GetByIndex(i)
		switch {
		case (g != nil) != (m.canon[i] != nil):
			if fail("canonical/presence", "GetByIndex(%d) nil=%v, model nil=%v", i, g == nil, m.canon[i] == nil) {
				return false
			}
		case g != nil && !w.validForSet(g, m.round, m.typ):
			if fail("canonical/forged", "GetByIndex(%d) returns a vote that is invalid by construction", i) {
				return false
			}
		case g != nil && g.ValidatorIndex != i:
			if fail("canonical/slot", "GetByIndex(%d) returns validator %d's vote", i, g.ValidatorIndex) {
				return false
			}
		case g != nil && sigString(g.Signature) != sigString(m.canon[i].Signature):
			if fail("canonical/other-vote", "GetByIndex(%d) is for %s, model canonical is for %s", i, rs.idName(g.BlockID), rs.idName(m.canon[i].BlockID)) {
				return false
			}
		}
	}
	over := 0
	for _, id := range w.ids {
		b := m.blocks[bidString(id)]
		bb := vs.BitArrayByBlockID(id)
		if (bb != nil) != (b != nil) {
			if fail("bitarray-by-block/presence", "BitArrayByBlockID(%s) nil=%v, model tracks=%v", rs.idName(id), bb == nil, b != nil) {
				return false
			}
			continue
		}
		if b == nil {
			continue
		}
		if moreThanTwoThirds(b.sum, w.total) {
			over++
		}
		if exactlyTwoThirds(b.sum, w.total) {
			c.Probe("block-exactly-two-thirds-no-majority")
		}
		for i := 0; i < w.n; i++ {
			if bb.GetIndex(i) != (b.votes[i] != nil) {
				if fail("bitarray-by-block/bit", "BitArrayByBlockID(%s)[%d]=%v, model=%v", rs.idName(id), i, bb.GetIndex(i), b.votes[i] != nil) {
					return false
				}
			}
		}
	}
	if over > 1 {
		c.Probe("two-block-ids-over-two-thirds")
	}
	return true
}

var _ = cmn.NewBitArray
