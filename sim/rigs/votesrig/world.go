// Package votesrig is the C03 rig: what counts as a commit. It drives the real
// VoteSet / HeightVoteSet with a tape-chosen multiset of honest, equivocating
// and forged votes in a tape-chosen order, interleaved with peer majority
// claims, and then hands honest and tampered commits to every place where a
// commit is accepted (ValidatorSet.VerifyCommit, the fast-sync predicate,
// BlockExecutor.ValidateBlock, ConsensusState.reconstructLastCommit). The
// oracle is ground truth by construction (who signed which tuple) plus a small
// tally model in math/big.
package votesrig

import (
	"encoding/hex"
	"fmt"
	"math/big"
	"time"

	"verif/sim/kernel"

	cfg "github.com/lianxiangcloud/linkchain/config"
	"github.com/lianxiangcloud/linkchain/libs/common"
	"github.com/lianxiangcloud/linkchain/libs/crypto"
	"github.com/lianxiangcloud/linkchain/libs/log"
	"github.com/lianxiangcloud/linkchain/metrics"
	"github.com/lianxiangcloud/linkchain/types"
)

func init() {
	log.Root().SetHandler(log.DiscardHandler())
	// BlockExecutor.ApplyBlock/ValidateBlock paths touch the metrics singleton;
	// its key is fixed and is never a validator of any run.
	pk := crypto.GenPrivKeyEd25519FromSecret([]byte("verif-metrics-key"))
	metrics.PrometheusMetricInstance.Init(cfg.DefaultConfig(), pk.PubKey(), log.Root())
}

// tuple is what a vote signature is supposed to bind (statement: chain id,
// height, round, type, block id) plus the millisecond timestamp the
// implementation also signs.
type tuple struct {
	chain string
	h     uint64
	r     int
	typ   byte
	bid   string
	ms    int64
}

type truthRec struct {
	signer int // validator slot whose key produced the signature
	t      tuple
}

type world struct {
	c *kernel.Ctx

	n          int
	dist       string
	chainID    string
	otherChain string
	H          uint64
	R          int
	typ        byte
	hvsMode    bool

	keys   []crypto.PrivKeyEd25519 // by slot (address order)
	addrs  []crypto.Address
	valSet *types.ValidatorSet
	next       *types.ValidatorSet // set in force at H+1 (see nextSet)
	changeNext bool
	power  []*big.Int
	total  *big.Int

	first *types.Block
	ids   []types.BlockID // ids[0] = real block id B; others are near-misses; last is the zero id
	base  time.Time
	tsSeq int64

	truth map[string]truthRec // signature bytes -> who signed what
}

func bidString(b types.BlockID) string {
	return hex.EncodeToString(b.Hash[:]) + "|" + fmt.Sprint(b.PartsHeader.Total) + "|" + hex.EncodeToString(b.PartsHeader.Hash)
}

func sigString(s crypto.Signature) string {
	if s == nil {
		return "nil"
	}
	switch v := s.(type) {
	case crypto.SignatureEd25519:
		return "ed:" + string(v[:])
	case crypto.SignatureSecp256k1:
		return "secp:" + string(v)
	}
	return fmt.Sprintf("%T", s)
}

func tupleOf(v *types.Vote, chain string) tuple {
	return tuple{chain: chain, h: v.Height, r: v.Round, typ: v.Type, bid: bidString(v.BlockID), ms: v.Timestamp.UnixNano() / 1e6}
}

// signedBy reports whether the signature carried by v was produced by the key
// of slot over exactly the tuple v displays (verified on chain). This is
// ground truth by construction: it never calls the code under test.
func (w *world) signedBy(v *types.Vote, slot int, chain string) bool {
	if v == nil || v.Signature == nil {
		return false
	}
	rec, ok := w.truth[sigString(v.Signature)]
	return ok && rec.signer == slot && rec.t == tupleOf(v, chain)
}

// validForSet is the statement's admission rule for a vote set of (H, r, typ)
// of this chain: right index/address/size, right height/round/type, signed by
// the validator at that index for exactly what the vote says.
func (w *world) validForSet(v *types.Vote, r int, typ byte) bool {
	if v == nil {
		return false
	}
	i := v.ValidatorIndex
	if i < 0 || i >= w.n {
		return false
	}
	if string(v.ValidatorAddress) != string(w.addrs[i]) || v.ValidatorSize != w.n {
		return false
	}
	if v.Height != w.H || v.Round != r || v.Type != typ {
		return false
	}
	return w.signedBy(v, i, w.chainID)
}

func (w *world) nextTS() time.Time {
	w.tsSeq++
	return w.base.Add(time.Duration(w.tsSeq) * time.Millisecond)
}

// sign produces the honest signature of slot over v as displayed, on chain,
// and records the ground truth. Returns false (after reporting) if the real
// sign-bytes gave the same signature for two different tuples.
func (w *world) sign(v *types.Vote, slot int, chain string) bool {
	sig, err := w.keys[slot].Sign(v.SignBytes(chain))
	if err != nil {
		w.c.HarnessTrouble("sign: %v", err)
		return false
	}
	v.Signature = sig
	k := sigString(sig)
	t := tupleOf(v, chain)
	if old, ok := w.truth[k]; ok && (old.signer != slot || old.t != t) {
		field := "other"
		switch {
		case old.signer != slot:
			field = "signer"
		case old.t.chain != t.chain:
			field = "chain"
		case old.t.h != t.h:
			field = "height"
		case old.t.r != t.r:
			field = "round"
		case old.t.typ != t.typ:
			field = "type"
		case old.t.bid != t.bid:
			field = "blockid"
		}
		if w.c.Violate("signbytes", "signbytes/not-binding/"+field,
			"one signature covers two different vote tuples (differ in %s): %+v vs %+v", field, old.t, t) {
			return false
		}
	}
	w.truth[k] = truthRec{signer: slot, t: t}
	return true
}

// honest builds the vote validator slot would honestly sign for (h, r, typ, bid)
// on chain.
func (w *world) honest(slot int, h uint64, r int, typ byte, bid types.BlockID, chain string) *types.Vote {
	v := &types.Vote{
		ValidatorAddress: append(crypto.Address{}, w.addrs[slot]...),
		ValidatorIndex:   slot,
		ValidatorSize:    w.n,
		Height:           h,
		Round:            r,
		Timestamp:        w.nextTS(),
		Type:             typ,
		BlockID:          bid,
	}
	w.sign(v, slot, chain)
	return v
}

var distNames = []string{"ones", "equal", "small", "dominant", "geometric", "near2p62", "thirds"}

func newWorld(c *kernel.Ctx) *world {
	t := c.Tape.Fork("cfg")
	w := &world{c: c, truth: map[string]truthRec{}}
	maxN := 12
	if c.Tier == kernel.Thorough {
		maxN = 20
	}
	// small sets are where thresholds are sharp; keep them frequent
	if t.Bool(1, 2) {
		w.n = t.Range(1, 6)
	} else {
		w.n = t.Range(1, maxN)
	}
	d := t.Pick(2, 3, 3, 3, 2, 2, 3)
	w.dist = distNames[d]
	pw := make([]int64, w.n)
	switch w.dist {
	case "ones":
		for i := range pw {
			pw[i] = 1
		}
	case "equal":
		p := int64(t.Range(1, 1000))
		for i := range pw {
			pw[i] = p
		}
	case "small":
		for i := range pw {
			pw[i] = int64(t.Range(1, 5))
		}
	case "dominant":
		var s int64
		for i := 1; i < w.n; i++ {
			pw[i] = int64(t.Range(1, 10))
			s += pw[i]
		}
		if s == 0 {
			pw[0] = int64(t.Range(1, 9))
		} else {
			// 2s is exactly two thirds of the total on its own
			pw[0] = []int64{2*s - 1, 2 * s, 2*s + 1, s, 2*s + 2}[t.Int(5)]
			if pw[0] < 1 {
				pw[0] = 1
			}
		}
	case "geometric":
		for i := range pw {
			pw[i] = int64(1) << uint(i)
		}
	case "near2p62":
		base := ((int64(1) << 62) - 1) / int64(w.n)
		for i := range pw {
			pw[i] = base - int64(t.Int(1000))
			if pw[i] < 1 {
				pw[i] = 1
			}
		}
	case "thirds":
		var s int64
		for i := range pw {
			pw[i] = int64(t.Range(1, 3))
			s += pw[i]
		}
		pw[w.n-1] += (3 - s%3) % 3
	}
	t.Shuffle(len(pw), func(i, j int) { pw[i], pw[j] = pw[j], pw[i] })

	w.chainID = fmt.Sprintf("verif-chain-%d", t.Int(4))
	w.otherChain = w.chainID + "x"
	switch t.Pick(2, 2, 2, 1) {
	case 0:
		w.H = uint64(t.Range(1, 3))
	case 1:
		w.H = uint64(1000 + t.Int(100000))
	case 2:
		w.H = uint64(1)<<40 + uint64(t.Int(1<<20))
	default:
		w.H = uint64(1)<<62 + uint64(t.Int(1<<20))
	}
	w.R = t.Pick(5, 2, 1, 1)
	w.typ = types.VoteTypePrecommit
	if t.Bool(1, 6) {
		w.typ = types.VoteTypePrevote
	}
	w.hvsMode = t.Bool(1, 3)
	w.base = time.Unix(1560000000+int64(t.Int(100000000)), 0).UTC()

	// keys from the tape; slots are in address order like the validator set
	kt := c.Tape.Fork("keys")
	type kv struct {
		k crypto.PrivKeyEd25519
		a crypto.Address
	}
	var vals []*types.Validator
	byAddr := map[string]kv{}
	for ctr := 0; len(vals) < w.n; ctr++ {
		// the counter keeps keys distinct on any (shrunk, exhausted) tape
		k := crypto.GenPrivKeyEd25519FromSecret(append(kt.Bytes(16), byte(ctr), byte(ctr>>8)))
		pk := k.PubKey()
		a := pk.Address()
		if _, dup := byAddr[string(a)]; dup {
			continue
		}
		byAddr[string(a)] = kv{k, a}
		var cb common.Address
		copy(cb[:], kt.Bytes(4))
		vals = append(vals, &types.Validator{Address: a, PubKey: pk, CoinBase: cb, VotingPower: pw[len(vals)]})
	}
	w.valSet = types.NewValidatorSet(vals)
	w.changeNext = t.Fork("nextset").Bool(1, 2)
	w.total = new(big.Int)
	for i := 0; i < w.n; i++ {
		a, v := w.valSet.GetByIndex(i)
		e := byAddr[string(a)]
		w.keys = append(w.keys, e.k)
		w.addrs = append(w.addrs, e.a)
		p := big.NewInt(v.VotingPower)
		w.power = append(w.power, p)
		w.total.Add(w.total, p)
	}

	// the real block the votes are about, and near-miss ids
	w.first = w.makeBlock(w.H, types.BlockID{}, &types.Commit{}, nil, uint64(w.base.Unix()))
	B := types.BlockID{Hash: w.first.Hash(), PartsHeader: w.first.MakePartSet(partSize).Header()}
	w.ids = []types.BlockID{B}
	for attempt := 0; len(w.ids) < 3; attempt++ {
		o := B
		o.PartsHeader.Hash = append([]byte{}, B.PartsHeader.Hash...)
		switch t.Int(3) {
		case 0:
			o.Hash[t.Int(len(o.Hash))] ^= byte(1 << uint(t.Int(8)))
		case 1:
			if len(o.PartsHeader.Hash) > 0 {
				o.PartsHeader.Hash[t.Int(len(o.PartsHeader.Hash))] ^= byte(1 << uint(t.Int(8)))
			} else {
				o.PartsHeader.Hash = []byte{1}
			}
		default:
			o.PartsHeader.Total += 1 + t.Int(3)
		}
		if attempt > 8 { // any tape terminates
			o.PartsHeader.Total += attempt
		}
		dup := false
		for _, x := range w.ids {
			if bidString(x) == bidString(o) {
				dup = true
			}
		}
		if !dup {
			w.ids = append(w.ids, o)
		}
	}
	w.ids = append(w.ids, types.BlockID{})
	return w
}

// nextSet is the validator set in force at height H+1. In half of the runs it
// differs from the set at H (the same keys with the powers rotated by one
// position and the first one tripled): a commit for H must be judged by the
// set of H, never by the set of H+1.
func (w *world) nextSet() *types.ValidatorSet {
	if w.next != nil {
		return w.next
	}
	vals := make([]*types.Validator, 0, w.valSet.Size())
	n := w.valSet.Size()
	for i, v := range w.valSet.Validators {
		c := v.Copy()
		c.Accum = 0
		if w.changeNext && n >= 2 {
			c.VotingPower = w.valSet.Validators[(i+1)%n].VotingPower
			if i == 0 && c.VotingPower < 1<<40 {
				c.VotingPower *= 3
			}
		}
		vals = append(vals, c)
	}
	w.next = types.NewValidatorSet(vals)
	return w.next
}

const partSize = 4096

// makeBlock builds a block whose self-consistency fields are filled the way
// the node fills them (fillHeader is unexported).
func (w *world) makeBlock(h uint64, last types.BlockID, lastCommit *types.Commit, ev []types.Evidence, unix uint64) *types.Block {
	b := types.MakeBlock(h, nil, lastCommit)
	b.Header.Time = unix
	b.ChainID = w.chainID
	b.TotalTxs = 0
	b.LastBlockID = last
	vh := w.valSet.Hash()
	if h > w.H {
		vh = w.nextSet().Hash() // the set in force at the next height
	}
	b.ValidatorsHash = common.BytesToHash(vh)
	b.ConsensusHash = common.BytesToHash(consParams.Hash())
	b.DataHash = b.Data.Hash()
	if len(ev) > 0 {
		b.AddEvidence(ev)
	}
	b.EvidenceHash = b.Evidence.Hash()
	b.LastCommitHash = lastCommit.Hash()
	return b
}

var consParams = types.DefaultConsensusParams()

// threeX > twoTotal, the statement's "strictly more than two thirds".
func moreThanTwoThirds(x, total *big.Int) bool {
	l := new(big.Int).Mul(x, big.NewInt(3))
	r := new(big.Int).Mul(total, big.NewInt(2))
	return l.Cmp(r) > 0
}

func exactlyTwoThirds(x, total *big.Int) bool {
	l := new(big.Int).Mul(x, big.NewInt(3))
	r := new(big.Int).Mul(total, big.NewInt(2))
	return l.Cmp(r) == 0
}
