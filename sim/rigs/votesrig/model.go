package votesrig

import (
	"math/big"

	"github.com/lianxiangcloud/linkchain/types"
)

// Tally model of one vote set (one height, round, type). It receives only
// votes that are valid by construction. Design it restates (vote_set.go doc
// comment): every validator has one canonical vote — the first one seen,
// superseded by its vote for the majority block once there is one; a vote that
// conflicts with the canonical one is surfaced as evidence and is tallied for
// its block id only if a peer has claimed a majority for that id; every
// validator counts at most once per block id and once in the round total; the
// first block id to cross two thirds is the majority, for good.

type class int

const (
	clRejected      class = iota // not added (invalid, or same block with another signature)
	clAdded                      // added, no error
	clDuplicate                  // not added, no error
	clConflictDrop               // not added, conflict evidence
	clConflictTrack              // added for its block id, conflict evidence
)

func (c class) String() string {
	return [...]string{"rejected", "added", "duplicate", "conflict-dropped", "conflict-tracked"}[c]
}

type blkModel struct {
	id      types.BlockID
	peerMaj bool
	votes   []*types.Vote
	sum     *big.Int
}

type vsModel struct {
	w      *world
	round  int
	typ    byte
	canon  []*types.Vote
	sum    *big.Int
	blocks map[string]*blkModel
	maj    *types.BlockID
	peers  map[string]string // peer -> block id it claimed first
	// history facts
	majEver map[string]bool
	seen    map[string][]bool // block id -> validators that delivered a valid vote for it (whatever became of it)
}

func newVSModel(w *world, round int, typ byte) *vsModel {
	return &vsModel{w: w, round: round, typ: typ, canon: make([]*types.Vote, w.n), sum: new(big.Int),
		blocks: map[string]*blkModel{}, peers: map[string]string{}, majEver: map[string]bool{}, seen: map[string][]bool{}}
}

func (m *vsModel) newBlk(id types.BlockID, peer bool) *blkModel {
	b := &blkModel{id: id, peerMaj: peer, votes: make([]*types.Vote, m.w.n), sum: new(big.Int)}
	m.blocks[bidString(id)] = b
	return b
}

// deliver applies a valid vote; conflictWith is the canonical vote it
// conflicts with (nil if none).
func (m *vsModel) deliver(v *types.Vote) (cl class, conflictWith *types.Vote) {
	i := v.ValidatorIndex
	k := bidString(v.BlockID)
	if m.seen[k] == nil {
		m.seen[k] = make([]bool, m.w.n)
	}
	m.seen[k][i] = true
	var existing *types.Vote
	if c := m.canon[i]; c != nil && bidString(c.BlockID) == k {
		existing = c
	} else if b := m.blocks[k]; b != nil && b.votes[i] != nil {
		existing = b.votes[i]
	}
	if existing != nil {
		if sigString(existing.Signature) == sigString(v.Signature) {
			return clDuplicate, nil
		}
		return clRejected, nil // same validator, same block, another signature
	}
	if m.canon[i] == nil {
		m.canon[i] = v
		m.sum.Add(m.sum, m.w.power[i])
	} else {
		conflictWith = m.canon[i]
		if m.maj != nil && bidString(*m.maj) == k {
			m.canon[i] = v
		}
	}
	b := m.blocks[k]
	if b != nil {
		if conflictWith != nil && !b.peerMaj {
			return clConflictDrop, conflictWith
		}
	} else {
		if conflictWith != nil {
			return clConflictDrop, conflictWith
		}
		b = m.newBlk(v.BlockID, false)
	}
	before := moreThanTwoThirds(b.sum, m.w.total)
	b.votes[i] = v
	b.sum.Add(b.sum, m.w.power[i])
	if !before && moreThanTwoThirds(b.sum, m.w.total) && m.maj == nil {
		id := v.BlockID
		m.maj = &id
		m.majEver[k] = true
		for j, bv := range b.votes {
			if bv != nil {
				m.canon[j] = bv
			}
		}
	}
	if conflictWith != nil {
		return clConflictTrack, conflictWith
	}
	return clAdded, nil
}

// claim applies a peer's majority claim; returns whether the implementation is
// expected to refuse it (the peer had claimed another id before).
func (m *vsModel) claim(peer string, id types.BlockID) (refused bool) {
	k := bidString(id)
	if old, ok := m.peers[peer]; ok {
		return old != k
	}
	m.peers[peer] = k
	if b := m.blocks[k]; b != nil {
		b.peerMaj = true
	} else {
		m.newBlk(id, true)
	}
	return false
}
