package votesrig

import (
	"fmt"
	"math/big"

	"verif/sim/kernel"

	cfg "github.com/lianxiangcloud/linkchain/config"
	cs "github.com/lianxiangcloud/linkchain/consensus"
	"github.com/lianxiangcloud/linkchain/libs/crypto"
	dbm "github.com/lianxiangcloud/linkchain/libs/db"
	"github.com/lianxiangcloud/linkchain/libs/log"
	"github.com/lianxiangcloud/linkchain/libs/ser"
	"github.com/lianxiangcloud/linkchain/types"
)

type variant struct {
	name       string
	pcs        []*types.Vote
	claimB     types.BlockID
	claimH     uint64
	claimChain string
	allSites   bool
	commitID   *types.BlockID // Commit.BlockID field when it differs from the claim
}

// quorum is the statement's rule for a commit: validators holding strictly
// more than two thirds of the total power each contributed, in their own slot,
// one correctly signed precommit for exactly claimB at claimH in one common
// round on claimChain. clean additionally says that every entry is a valid
// precommit of its slot for (H, one round) — i.e. the commit is something an
// honest node's MakeCommit could have produced.
func (w *world) quorum(pcs []*types.Vote, claimB types.BlockID, claimH uint64, claimChain string) (ok, exact, clean bool) {
	byRound := map[int]*big.Int{}
	clean = len(pcs) == w.n
	round, haveRound := 0, false
	for idx, pc := range pcs {
		if pc == nil {
			continue
		}
		if idx >= w.n {
			clean = false
			break
		}
		good := pc.Type == types.VoteTypePrecommit && pc.Height == claimH && w.signedBy(pc, idx, claimChain)
		if !good || pc.ValidatorIndex != idx || string(pc.ValidatorAddress) != string(w.addrs[idx]) || pc.ValidatorSize != w.n {
			clean = false
		}
		if haveRound && pc.Round != round {
			clean = false
		}
		round, haveRound = pc.Round, true
		if !good || bidString(pc.BlockID) != bidString(claimB) {
			continue
		}
		if byRound[pc.Round] == nil {
			byRound[pc.Round] = new(big.Int)
		}
		byRound[pc.Round].Add(byRound[pc.Round], w.power[idx])
	}
	for _, s := range byRound {
		if moreThanTwoThirds(s, w.total) {
			ok = true
		}
		if exactlyTwoThirds(s, w.total) {
			exact = true
		}
	}
	return ok, exact, clean && ok
}

func freshCommit(id types.BlockID, pcs []*types.Vote) *types.Commit {
	return &types.Commit{BlockID: id, Precommits: append([]*types.Vote{}, pcs...)}
}

func (rs *runState) commitPhase() (verdicts int) {
	w, c := rs.w, rs.c
	t := c.Tape.Fork("tamper")
	B := w.ids[0]
	var base []*types.Vote
	origin := ""

	m := rs.model(w.R, types.VoteTypePrecommit)
	var vs *types.VoteSet
	if m != nil {
		vs = rs.implSet(w.R, types.VoteTypePrecommit)
	}
	if m != nil && vs != nil && m.maj != nil {
		c.Probe("maj23-reached")
		if m.maj.IsZero() {
			c.Probe("maj23-for-nil")
		}
	}
	if m != nil && vs != nil && m.maj != nil && bidString(*m.maj) == bidString(B) {
		if id, ok := vs.TwoThirdsMajority(); ok && bidString(id) == bidString(B) {
			var commit *types.Commit
			if site, msg, p := kernel.Try(func() { commit = vs.MakeCommit() }); p {
				c.Violate("panic", "panic/MakeCommit/"+site, "MakeCommit panicked with a majority: %s", msg)
				return
			}
			c.Evals(1)
			verdicts++
			ok, _, clean := w.quorum(commit.Precommits, B, w.H, w.chainID)
			if bidString(commit.BlockID) != bidString(B) || !ok || !clean {
				if c.Violate("commit", "commit/makecommit-not-a-quorum", "MakeCommit returned a commit for %s whose entries are quorum=%v clean=%v", rs.idName(commit.BlockID), ok, clean) {
					return
				}
			}
			base = commit.Precommits
			origin = "MakeCommit"
		}
	}
	if base == nil {
		// no majority for B formed: assemble a commit by hand from valid precommits
		base = make([]*types.Vote, w.n)
		if m != nil && w.typ == types.VoteTypePrecommit {
			copy(base, m.canon)
		}
		origin = "assembled-below-quorum"
		if t.Bool(2, 3) {
			for i := 0; i < w.n; i++ {
				if base[i] == nil && t.Bool(9, 10) {
					base[i] = w.honest(i, w.H, w.R, types.VoteTypePrecommit, B, w.chainID)
				}
			}
			origin = "assembled"
		}
	}
	c.Finger(origin)
	// the status either demands FaultValidatorsEvidence (normal) or follows a
	// recover block (no such evidence required)
	rs.lastRecover = t.Bool(1, 4)

	var vars []variant
	mk := func(name string, pcs []*types.Vote) {
		vars = append(vars, variant{name: name, pcs: pcs, claimB: B, claimH: w.H, claimChain: w.chainID, allSites: true})
	}
	cp := func() []*types.Vote { return append([]*types.Vote{}, base...) }
	var bVoters []int
	for i, pc := range base {
		if pc != nil && bidString(pc.BlockID) == bidString(B) {
			bVoters = append(bVoters, i)
		}
	}
	mk("as-is", cp())
	// other claims about the same votes
	vars = append(vars,
		variant{name: "claim-other-block", pcs: cp(), claimB: w.ids[1], claimH: w.H, claimChain: w.chainID},
		variant{name: "claim-other-chain", pcs: cp(), claimB: B, claimH: w.H, claimChain: w.otherChain},
		variant{name: "claim-height+1", pcs: cp(), claimB: B, claimH: w.H + 1, claimChain: w.chainID})
	if w.H > 1 {
		vars = append(vars, variant{name: "claim-height-1", pcs: cp(), claimB: B, claimH: w.H - 1, claimChain: w.chainID})
	}
	// a full, honestly signed quorum — for another block id. The sites that
	// know which block they expect (status.LastBlockID, the first block's id)
	// must refuse it whatever the commit's own BlockID field says.
	for k := 0; k < 2; k++ {
		other := w.ids[1+t.Int(len(w.ids)-2)]
		f := make([]*types.Vote, w.n)
		for i := range f {
			f[i] = w.honest(i, w.H, w.R, types.VoteTypePrecommit, other, w.chainID)
		}
		v := variant{name: "quorum-for-other-block", pcs: f, claimB: B, claimH: w.H, claimChain: w.chainID, allSites: true}
		if k == 1 {
			v.name = "quorum-for-other-block-labelled-other"
			v.commitID = &other
		}
		vars = append(vars, v)
	}
	// drop B votes one at a time, every prefix
	order := append([]int{}, bVoters...)
	t.Shuffle(len(order), func(i, j int) { order[i], order[j] = order[j], order[i] })
	cur := cp()
	var below []*types.Vote // first prefix that is no longer a quorum
	for k, i := range order {
		cur = append([]*types.Vote{}, cur...)
		switch t.Int(3) {
		case 0:
			cur[i] = nil
		case 1:
			cur[i] = w.honest(i, w.H, base[i].Round, types.VoteTypePrecommit, w.ids[1], w.chainID)
		default:
			cur[i] = w.honest(i, w.H, base[i].Round, types.VoteTypePrecommit, types.BlockID{}, w.chainID)
		}
		if k < 14 || t.Bool(1, 3) {
			mk("drop-b-votes", cur)
		}
		if ok, _, _ := w.quorum(cur, B, w.H, w.chainID); !ok && below == nil {
			below = cur
		}
	}
	if below == nil {
		below = cur
	}
	// forged fill on top of a sub-quorum commit
	nFill := 2 + t.Int(3)
	for k := 0; k < nFill; k++ {
		f := append([]*types.Vote{}, below...)
		kind := t.Int(8)
		name := ""
		for i := 0; i < w.n; i++ {
			if f[i] != nil && bidString(f[i].BlockID) == bidString(B) {
				continue
			}
			r := w.R
			if base[i] != nil {
				r = base[i].Round
			}
			var v *types.Vote
			switch kind {
			case 0:
				v = w.honest(i, w.H, r, types.VoteTypePrecommit, B, w.chainID)
				s := v.Signature.(crypto.SignatureEd25519)
				s[t.Int(64)] ^= 1
				v.Signature = s
				name = "fill-sig-bitflip"
			case 1:
				if len(bVoters) == 0 {
					continue
				}
				src := base[bVoters[t.Int(len(bVoters))]]
				v = src.Copy()
				v.ValidatorIndex = i
				v.ValidatorAddress = append(crypto.Address{}, w.addrs[i]...)
				name = "fill-sig-of-other-validator"
			case 2:
				v = w.honest(i, w.H, r, types.VoteTypePrecommit, B, w.otherChain)
				name = "fill-other-chain"
			case 3:
				v = w.honest(i, w.H+1, r, types.VoteTypePrecommit, B, w.chainID)
				v.Height = w.H
				name = "fill-height-field-changed"
			case 4:
				v = w.honest(i, w.H, r+1, types.VoteTypePrecommit, B, w.chainID)
				v.Round = r
				name = "fill-round-field-changed"
			case 5:
				v = w.honest(i, w.H, r, types.VoteTypePrevote, B, w.chainID)
				v.Type = types.VoteTypePrecommit
				name = "fill-type-field-changed"
			case 6:
				v = w.honest(i, w.H, r, types.VoteTypePrecommit, w.ids[1], w.chainID)
				v.BlockID = B
				name = "fill-blockid-field-changed"
			default:
				v = w.honest(i, w.H, r, types.VoteTypePrecommit, B, w.chainID)
				v.Signature = nil
				name = "fill-sig-nil"
			}
			f[i] = v
		}
		if name != "" {
			mk(name, f)
		}
	}
	// structure tampering of the base
	nOther := 6 + t.Int(6)
	for k := 0; k < nOther; k++ {
		f := cp()
		i := t.Int(w.n)
		j := i
		if w.n > 1 {
			j = (i + 1 + t.Int(w.n-1)) % w.n
		}
		switch t.Int(12) {
		case 0:
			f[i], f[j] = f[j], f[i]
			mk("swap-slots", f)
		case 1:
			if f[i] != nil && i != j {
				f[j] = f[i]
				mk("clone-slot", f)
			}
		case 2:
			if f[i] != nil && i != j {
				v := f[i].Copy()
				v.ValidatorIndex = j
				v.ValidatorAddress = append(crypto.Address{}, w.addrs[j]...)
				f[j] = v
				mk("clone-slot-rewritten", f)
			}
		case 3:
			// part of the B voters move to the next round (all signatures valid)
			moved := 0
			for _, x := range bVoters {
				if t.Bool(1, 2) {
					f[x] = w.honest(x, w.H, base[x].Round+1, types.VoteTypePrecommit, B, w.chainID)
					moved++
				}
			}
			if moved > 0 {
				mk("mixed-rounds", f)
			}
		case 4:
			moved := 0
			for _, x := range bVoters {
				if t.Bool(1, 2) {
					f[x] = w.honest(x, w.H, base[x].Round, types.VoteTypePrevote, B, w.chainID)
					moved++
				}
			}
			if moved > 0 {
				mk("prevotes-inside", f)
			}
		case 5:
			moved := 0
			for _, x := range bVoters {
				if t.Bool(1, 2) {
					f[x] = w.honest(x, w.H+1, base[x].Round, types.VoteTypePrecommit, B, w.chainID)
					moved++
				}
			}
			if moved > 0 {
				mk("other-height-inside", f)
			}
		case 6:
			mk("size+1-nil", append(f, nil))
		case 7:
			if f[i] != nil {
				mk("size+1-clone", append(f, f[i]))
			}
		case 8:
			mk("size-1", f[:w.n-1])
		case 9:
			mk("empty", nil)
		case 10:
			for x := range f {
				if f[x] != nil {
					f[x] = w.honest(x, w.H, f[x].Round, types.VoteTypePrecommit, f[x].BlockID, w.otherChain)
				}
			}
			mk("all-signed-for-other-chain", f)
		default:
			for _, x := range bVoters {
				if t.Bool(1, 3) {
					v := f[x].Copy()
					s, ok := v.Signature.(crypto.SignatureEd25519)
					if ok {
						s[t.Int(64)] ^= 0x80
						v.Signature = s
					}
					f[x] = v
				}
			}
			mk("some-sigs-bitflipped", f)
		}
	}

	bits := make([]byte, 0, len(vars)*4)
	reconLeft := 2
	for vi, v := range vars {
		ok, exact, clean := w.quorum(v.pcs, v.claimB, v.claimH, v.claimChain)
		if exact && !ok {
			c.Probe("commit-exactly-two-thirds")
		}
		if v.name != "as-is" {
			c.Fault("commit/" + v.name)
		}
		if ok {
			c.Probe("commit-variant-still-quorum")
		}
		verdict := func(site string, accepted bool, detail string) bool {
			c.Evals(1)
			verdicts++
			if accepted {
				bits = append(bits, '1')
			} else {
				bits = append(bits, '0')
			}
			if accepted && !ok {
				return !c.Violate("commit", "commit/accepted-without-quorum/"+site+"/"+v.name,
					"%s accepted variant %q of a %s commit although fewer than >2/3 of the power signed a precommit for the claimed block/height/chain in one round (n=%d powers=%v)",
					site, v.name, origin, w.n, w.power)
			}
			if !accepted && clean && v.allSites {
				return !c.Violate("commit", "commit/clean-commit-refused/"+site,
					"%s refused a clean commit (%s, variant %q): %s", site, origin, v.name, detail)
			}
			return true
		}
		// site 1: the library call
		cid := v.claimB
		if v.commitID != nil {
			cid = *v.commitID
		}
		err := w.valSet.VerifyCommit(v.claimChain, v.claimB, v.claimH, freshCommit(cid, v.pcs))
		if !verdict("VerifyCommit", err == nil, fmt.Sprint(err)) {
			return
		}
		if !v.allSites {
			continue
		}
		// site 2: fast sync. The reactor has two blocks decoded from the wire and
		// accepts the first if second.LastCommit verifies for the first's id.
		second := w.makeBlock(w.H+1, B, freshCommit(cid, v.pcs), rs.faultEvidence(v.pcs), uint64(w.base.Unix())+1)
		var dec types.Block
		decoded := false
		if bz, err := ser.EncodeToBytes(second); err == nil {
			if err := ser.DecodeBytes(bz, &dec); err == nil && dec.LastCommit != nil && dec.Header != nil {
				decoded = true
			}
		}
		if decoded {
			firstID := types.BlockID{Hash: w.first.Hash(), PartsHeader: w.first.MakePartSet(partSize).Header()}
			err := w.valSet.VerifyCommit(w.chainID, firstID, w.first.Height, dec.LastCommit)
			if !verdict("fast-sync", err == nil, fmt.Sprint(err)) {
				return
			}
		} else {
			c.Probe("block-does-not-survive-wire")
			if clean {
				if c.Violate("commit", "commit/clean-commit-refused/wire", "a block carrying a clean commit does not survive its wire encoding") {
					return
				}
			}
		}
		// site 3: block validation
		st := rs.status()
		be := cs.NewBlockExecutor(dbm.NewMemDB(), log.Root(), cs.MockEvidencePool{})
		blk := second
		if decoded && t.Bool(1, 2) {
			blk = &dec
		}
		err = be.ValidateBlock(st, blk)
		if !verdict("ValidateBlock", err == nil, fmt.Sprint(err)) {
			return
		}
		// site 4: LastCommit reconstruction at start-up from the stored seen commit
		if vi == 0 || (reconLeft > 0 && t.Bool(1, 4)) {
			if vi != 0 {
				reconLeft--
			}
			if !rs.reconstruct(v, clean, verdict) {
				return
			}
		}
	}
	c.Finger(string(bits))
	return verdicts
}

// status is the consensus status of a node that has committed the block at H.
func (rs *runState) status() cs.NewStatus {
	w := rs.w
	next := w.nextSet().Copy()
	return cs.NewStatus{
		ChainID:                     w.chainID,
		LastBlockHeight:             w.H,
		LastBlockTotalTx:            0,
		LastBlockID:                 w.ids[0],
		LastBlockTime:               uint64(w.base.Unix()),
		Validators:                  next,
		LastValidators:              w.valSet.Copy(),
		LastHeightValidatorsChanged: 1,
		LastRecover:                 rs.lastRecover,
		ConsensusParams:             *consParams,
	}
}

// faultEvidence is the FaultValidatorsEvidence an honest proposer attaches
// (consensus/state.go getLastFaultValsInfo), computed from the commit's round.
func (rs *runState) faultEvidence(pcs []*types.Vote) []types.Evidence {
	w := rs.w
	if rs.lastRecover {
		return nil
	}
	round := 0
	for _, pc := range pcs {
		if pc != nil {
			round = pc.Round
			break
		}
	}
	fve := &types.FaultValidatorsEvidence{BlockHeight: w.H, Round: round}
	last := w.valSet.Copy()
	if round <= 0 {
		fve.Proposer = last.GetProposer().PubKey
	} else {
		fve.FaultVal = last.GetProposer().PubKey
		if round > 64 {
			round = 64
		}
		last.IncrementAccum(round)
		fve.Proposer = last.GetProposer().PubKey
	}
	return []types.Evidence{fve}
}

type seenCommitApp struct {
	cs.BlockChainApp
	commit *types.Commit
}

func (a *seenCommitApp) LoadSeenCommit(height uint64) *types.Commit            { return a.commit }
func (a *seenCommitApp) SetLastChangedVals(h uint64, vals []*types.Validator) {}

var consCfg = cfg.TestConsensusConfig()

func (rs *runState) reconstruct(v variant, clean bool, verdict func(string, bool, string) bool) bool {
	w, c := rs.w, rs.c
	st := rs.status()
	cid := v.claimB
	if v.commitID != nil {
		cid = *v.commitID
	}
	app := &seenCommitApp{commit: freshCommit(cid, v.pcs)}
	var state *cs.ConsensusState
	site, msg, panicked := kernel.Try(func() {
		state = cs.NewConsensusState(consCfg, st, nil, app, cs.MockMempool{}, cs.MockEvidencePool{})
	})
	if panicked {
		c.Probe("reconstruct-refused")
		_ = site
		return verdict("reconstructLastCommit", false, msg)
	}
	c.Probe("reconstruct-accepted")
	lc := state.LastCommit
	if lc == nil {
		return !c.Violate("commit", "commit/reconstruct/no-last-commit", "NewConsensusState returned without LastCommit at height %d", w.H)
	}
	id, ok := lc.TwoThirdsMajority()
	if !ok {
		return !c.Violate("commit", "commit/reconstruct/no-majority", "reconstructed LastCommit has no majority")
	}
	// what was reconstructed must be a real quorum for the id it reports. The
	// reconstruction re-adds the stored votes to a vote set, which files each
	// vote under the validator index the vote itself names (and checks it), so
	// here a validator counts wherever in the list its vote sits — once.
	sup := new(big.Int)
	counted := make([]bool, w.n)
	for _, pc := range v.pcs {
		if pc != nil && w.validForSet(pc, lc.Round(), types.VoteTypePrecommit) && bidString(pc.BlockID) == bidString(id) && !counted[pc.ValidatorIndex] {
			counted[pc.ValidatorIndex] = true
			sup.Add(sup, w.power[pc.ValidatorIndex])
		}
	}
	if !moreThanTwoThirds(sup, w.total) {
		return !c.Violate("commit", "commit/accepted-without-quorum/reconstructLastCommit/"+v.name,
			"reconstructLastCommit accepted variant %q and reports a majority for %s that the votes do not support", v.name, rs.idName(id))
	}
	if clean && bidString(id) != bidString(v.claimB) {
		return !c.Violate("commit", "commit/reconstruct/other-block", "reconstructed majority is for %s, stored commit is for %s", rs.idName(id), rs.idName(v.claimB))
	}
	c.Evals(1)
	return true
}
