// Package spendrig registers the C07 check: every spendable unit is spent at
// most once across the whole chain. It drives the mempoolrig engine (one real
// execution pipeline + scheduler + independent replica) with a mix that is
// about re-spending: replays, nonce games, rival confidential spends,
// Byzantine blocks, restarts and crashes inside the commit — and judges the
// whole committed history read back from the node's stores.
package spendrig

import (
	"fmt"
	"time"

	"github.com/lianxiangcloud/linkchain/libs/common"
	lk "github.com/lianxiangcloud/linkchain/libs/cryptonote/types"
	"github.com/lianxiangcloud/linkchain/libs/log"

	"verif/sim/kernel"
	mp "verif/sim/rigs/mempoolrig"
)

func init() {
	log.Root().SetHandler(log.DiscardHandler())
	kernel.Register(&kernel.Rig{
		Property: "C07", Name: "R-chain/spend-once", Level: "exploration",
		Rule: "one run = one drawn chain (accounts, validators, trie or kv state, mempool limits, dedup cache on/off; confidential wallets in 3/4 of the runs, funded by a first block) x one tape-decided schedule of client submissions (valid, replayed bytes, consumed nonce, rival with the same nonce, future nonce; confidential: fresh spend, rival spend of an output with a pending spend, the same output twice in one transaction) interleaved at {cache put | basic check | locked section} with reaps, blocks from the node's mempool, other proposers' blocks (incl. never-seen rival spends), Byzantine blocks (10-entry catalogue: same tx twice in the block, replay of an earlier block's tx, nonce gap, reordering, consumed nonce, future nonce only, one key image in two txs / in a later block / twice in one tx / rival of a pooled spend; executed by the proposer's own executor when that lets it, then shown to an honest replica and to the node), clean restarts from the disk image and crashes at a chosen write boundary of CommitBlock/ApplyBlock followed by a restart from the frozen image; non-trivial = >= 2 blocks and >= 3 committed transactions and >= 1 attack evaluated; distinct = per-block committed sets + final ledger",
		Real: []string{"app.LinkApplication (CheckTx, CreateBlock, PreRunBlock, CheckBlock, CommitBlock, state processor/transition)", "mempool.Mempool incl. key-image cache and tx cache", "utxo.UtxoStore (spent set, output index)", "blockchain.BlockStore, txmgr", "consensus.BlockExecutor.ApplyBlock/validateBlock", "types.UTXOTransaction wallet-side construction and verification on the xcrypto stand-in", "startup assembly order of node.NewNode incl. status rebuild (simnode.OpenChain)"},
		Stub: []string{"consensus rounds (producer signs all precommits, runs the finalizeCommit sequence)", "p2p", "storage engine (SimDB: process-crash model, completed writes survive)", "libxcrypto (pure-Go model)", "block sync after a crash (the world feeds the missing block to the restarted node)"},
		Assumptions: []string{
			"crash points strictly inside the window of BlockStore.SaveBlock's three concurrent writers are moved to the end of that window (their relative order is not reproducible); every other write boundary of the commit is a crash point",
			"a node that does not come back from a crash image (or refuses the missing block) is C13's subject: the run restores it from the replica's disk and goes on, counted in probe restart-failed",
			"sender recovery uses the implementation's From() (independence of signature recovery is C08's subject)",
		},
		QuickRuns: 3500, QuickBudget: 50 * time.Second, ThoroughRuns: 30000, ThoroughBudget: 15 * time.Minute,
		RunsPerProcess: 60, RunTimeout: 90 * time.Second,
		Run: run,
	})
}

type history struct {
	next map[common.Address]uint64
	txAt map[common.Hash]uint64
	kiAt map[lk.Key]common.Hash
	// clearedAt: 8*I of every committed key image (the rig's own rule: two key
	// images that differ by a small-order component are the same spend)
	clearedAt map[[32]byte]common.Hash
	height    uint64
}

func newHistory(e *mp.Engine) *history {
	h := &history{next: map[common.Address]uint64{}, txAt: map[common.Hash]uint64{}, kiAt: map[lk.Key]common.Hash{}, clearedAt: map[[32]byte]common.Hash{}}
	for i, u := range e.W.Users {
		h.next[u.Addr] = e.W.Cfg.Nonces[i]
	}
	return h
}

// extend reads blocks height+1..to from the node's block store and folds them
// into the history; every repeat is a violation.
func (h *history) extend(e *mp.Engine, to uint64) {
	bs := e.W.Chain.BlockStore
	for ht := h.height + 1; ht <= to; ht++ {
		b := bs.LoadBlock(ht)
		if b == nil {
			e.Violate("history", "history/block-missing", "the node's block store has no block %d although its height is %d", ht, bs.Height())
			return
		}
		rs := bs.GetReceipts(ht)
		if rs == nil || len(*rs) != len(b.Data.Txs) {
			n := -1
			if rs != nil {
				n = len(*rs)
			}
			e.Violate("history", "history/receipts-mismatch", "block %d has %d transactions but %d stored receipts", ht, len(b.Data.Txs), n)
			return
		}
		for i, tx := range b.Data.Txs {
			hash := tx.Hash()
			if (*rs)[i].TxHash != hash {
				e.Violate("history", "history/receipt-order", "receipt %d of block %d is for %x, the transaction there is %x", i, ht, (*rs)[i].TxHash[:4], hash[:4])
				return
			}
			if at, dup := h.txAt[hash]; dup {
				e.Violate("history-repeat", "history/tx-executed-twice", "transaction %x is executed in block %d and again in block %d (position %d)", hash[:4], at, ht, i)
				return
			}
			h.txAt[hash] = ht
			if from, nonce, _, ok := mp.AcctPart(tx); ok {
				want, known := h.next[from]
				if !known {
					want = 0
				}
				if nonce != want {
					kind := "gap"
					if nonce < want {
						kind = "consumed-nonce-again"
					}
					e.Violate("history-nonce", "history/nonce-"+kind, "block %d position %d executes nonce %d of %x, the sender's executed nonces so far end at %d", ht, i, nonce, from[:4], want)
					return
				}
				h.next[from] = want + 1
			}
			for _, k := range mp.KeyImages(tx) {
				if first, dup := h.kiAt[k]; dup {
					e.Violate("history-repeat", "history/key-image-twice", "key image %x is spent by %x and again by %x (block %d position %d)", k[:4], first[:4], hash[:4], ht, i)
					return
				}
				h.kiAt[k] = hash
				prime, cleared, err := mp.KeyImageClass(k)
				if err != nil || !prime {
					e.Violate("history-key-image", "history/key-image-outside-prime-order-subgroup", "block %d position %d commits key image %x (of %x) which is not a point of the prime-order subgroup (l*I != identity by the rig's own curve code; decode error: %v)", ht, i, k[:4], hash[:4], err)
					return
				}
				if first, dup := h.clearedAt[cleared]; dup {
					e.Violate("history-repeat", "history/key-image-twice-up-to-torsion", "key image %x of %x (block %d position %d) equals, up to a small-order component (same 8*I), a key image already spent by %x: the same output is spent twice", k[:4], hash[:4], ht, i, first[:4])
					return
				}
				h.clearedAt[cleared] = hash
			}
		}
		h.height = ht
		e.C.Evals(1)
	}
}

func run(c *kernel.Ctx) {
	if c.Tape.Fork("part").Int(25) == 0 {
		c.Finger("upgrade-replay")
		upgradeReplay(c)
		return
	}
	var h *history
	attacks := 0
	opt := mp.Options{
		Prop: "C07",
		Config: func(rc *mp.RunCfg, t *kernel.Tape) {
			// more of what re-spends
			rc.W.Stale += 2
			rc.W.Conflict += 2
			rc.W.Dup += 3
			if rc.UTXO {
				rc.W.KIConflict += 3
				rc.W.KIDup++
				rc.W.SpendAll += 2
				rc.W.Respent++
			}
			if rc.ExtRate < 2 {
				rc.ExtRate = 2
			}
			// transactions that fail in execution are a regular part of the mix
			rc.W.CreateFail += 2
			rc.VMFailExt += 2
		},
		UTXOShare:   [2]int{3, 4},
		NoContracts: true, // code changes at a destination are C15's subject
		ExtraWeight: 3,
		Extra: func(e *mp.Engine, t *kernel.Tape) string {
			if h == nil {
				h = newHistory(e)
			}
			switch t.Pick(10, 2, 2, 3) {
			case 3:
				what := e.WithdrawBlock(t)
				if what != "" {
					attacks++
				}
				return what
			case 0:
				kind := mp.ByzKinds[t.Int(len(mp.ByzKinds))]
				if what := e.ByzBlock(kind, t); what != "" {
					attacks++
					return "byz " + what
				}
				return ""
			case 1:
				if !e.RestartNode(nil, false, "restart") {
					return ""
				}
				attacks++
				h2 := newHistory(e)
				h2.extend(e, e.W.Chain.BlockStore.Height())
				if !e.Stopped() {
					h = h2
				}
				// the first block the restarted node is shown is a re-spend
				if !e.Stopped() && t.Bool(1, 2) {
					e.ByzBlock(mp.ByzKinds[t.Int(len(mp.ByzKinds))], t)
				}
				return "restart"
			default:
				what := e.CrashCommit(t)
				if what == "" || e.Stopped() {
					return what
				}
				if what != "no crash" {
					attacks++
				}
				// the whole history again, from the restarted node's stores
				h2 := newHistory(e)
				h2.extend(e, e.W.Chain.BlockStore.Height())
				if !e.Stopped() {
					h = h2
				}
				return what
			}
		},
		AfterCommit: func(e *mp.Engine, b *mp.Block) {
			if h == nil {
				h = newHistory(e)
			}
			// the persistent spent set after the commit: every key image of the
			// block, on the node and on the replica, whatever else the block held
			outs := 0
			for _, tx := range b.Data.Txs {
				outs += mp.UTXOOutputs(tx)
			}
			shape := "with-outputs"
			if outs == 0 {
				shape = "no-new-outputs"
			}
			for _, tx := range b.Data.Txs {
				for _, k := range mp.KeyImages(tx) {
					k := k
					for _, ch := range []*mp.Chain{e.W.Chain, e.W.Rep} {
						if !ch.UtxoStore.HaveTxKeyimgAsSpent(&k) {
							e.Violate("spent-set", "spent-set-incomplete/after-commit/block-"+shape, "block %d (%d transactions, %d new confidential outputs) is committed but key image %x of %x is not in the persistent spent set: a later re-spend of that output would be accepted", b.Height, len(b.Data.Txs), outs, k[:4], tx.Hash().Bytes()[:4])
							return
						}
					}
					e.C.Evals(1)
				}
			}
		},
		AfterStep: func(e *mp.Engine) {
			if h == nil {
				h = newHistory(e)
			}
			if top := e.W.Chain.BlockStore.Height(); top > h.height {
				h.extend(e, top)
			}
		},
		AtEnd: func(e *mp.Engine) {
			// the whole history once more from the stores, and every executed
			// transaction offered to the mempool one last time
			h2 := newHistory(e)
			h2.extend(e, e.W.Chain.BlockStore.Height())
			if e.Stopped() {
				return
			}
			if h2.height != uint64(len(e.W.Blocks)) {
				e.Violate("history", "history/height", "the node's store ends at %d, the world committed %d blocks", h2.height, len(e.W.Blocks))
				return
			}
			e.Resubmit(8)
		},
		NonTrivial: func(e *mp.Engine) bool { return attacks > 0 },
	}
	mp.Run(c, opt)
	_ = fmt.Sprint
}
