package spendrig

// Governance sub-scenario of C07 (1 run in 25) — added after seeded change
// C07-8 (the block-level nonce check bypassed for contract-upgrade
// transactions only): the engine's workload has no governance signer set, so
// no contract-upgrade transaction ever existed there to be replayed. This
// scenario is small and separate: a two-replica chain driven through
// sim/txgen; block 1 installs a signer set with a multi-signature transaction
// signed by the validator, the following blocks carry contract-upgrade
// transactions of a signer interleaved with its ordinary transfers; then a
// Byzantine proposer re-includes an already committed upgrade (alone, in front
// of or behind fresh transfers) and, if its own executor lets it build the
// block, an honest replica is asked to check it. Ground truth by construction:
// the transaction is in an earlier block of this chain.

import (
	"fmt"
	"math/big"
	"os"
	"path/filepath"

	"github.com/lianxiangcloud/linkchain/config"
	"github.com/lianxiangcloud/linkchain/libs/common"
	"github.com/lianxiangcloud/linkchain/libs/crypto"
	"github.com/lianxiangcloud/linkchain/types"

	"verif/sim/kernel"
	"verif/sim/simdb"
	"verif/sim/simnode"
	"verif/sim/txgen"
)

func upgradeReplay(c *kernel.Ctx) {
	simnode.InitGlobals()
	t := c.Tape.Fork("upgrade-replay")
	var cb common.Address
	cb[0] = 0xc7
	val := simnode.ValKey{Priv: crypto.GenPrivKeyEd25519FromSecret([]byte("c07-upgrade-val")), Power: 10, CoinBase: cb}
	gen := txgen.New(c.Tape.Fork("workload"), txgen.Config{Accounts: 3, Validators: []simnode.ValKey{val}, Kinds: []txgen.Kind{txgen.KTransfer}})
	gen.KnowGenesis(config.ContractValidatorsAddr, common.EmptyAddress, cb)
	base := os.Getenv("VERIF_SCRATCH")
	if base == "" {
		base = os.TempDir()
	}
	dir := filepath.Join(base, fmt.Sprintf("c07u-%d", c.Tape.Seed()))
	os.RemoveAll(dir)
	defer os.RemoveAll(dir)
	isTrie := t.Bool(1, 2)
	var reps []*txgen.Replica
	for _, name := range []string{"P", "Q"} {
		spec := &simnode.GenesisSpec{ChainID: "verif-c07-upgrade", Vals: []simnode.ValKey{val}, Alloc: gen.Alloc(), IsTrie: isTrie}
		disk := simdb.NewDisk(filepath.Join(dir, name))
		if err := spec.Install(disk); err != nil {
			c.HarnessTrouble("genesis: %v", err)
			return
		}
		r, err := txgen.OpenReplica(name, spec, disk, simnode.ChainOpts{IsTrie: isTrie})
		if err != nil {
			c.HarnessTrouble("open replica: %v", err)
			return
		}
		reps = append(reps, r)
	}
	P, Q := reps[0], reps[1]
	now := uint64(946684800 + 10)
	// honest block: built by P, must be accepted by both, committed on both
	honest := func(items ...*txgen.Item) (*types.Block, bool) {
		now += 5
		blk, parts, err := P.Propose(txgen.BlockSpec{Txs: txgen.Txs(items), Explicit: true, Time: now})
		if err != nil {
			c.Probe("upgrade-replay/honest-block-not-built")
			return nil, false
		}
		seen, err := P.SignCommit(blk, parts)
		if err != nil {
			c.HarnessTrouble("sign commit: %v", err)
			return nil, false
		}
		for _, r := range reps {
			b, _ := txgen.CloneBlock(blk)
			ok, err := r.Check(b)
			if err != nil || !ok {
				c.Probe("upgrade-replay/honest-block-refused")
				return nil, false
			}
			if _, err := r.Commit(b, b.MakePartSet(r.Chain.Status.ConsensusParams.BlockGossip.BlockPartSizeBytes), seen, false); err != nil {
				c.HarnessTrouble("commit on %s: %v", r.Name, err)
				return nil, false
			}
		}
		if _, err := gen.Committed(blk.Height, blk.Data.Txs, P.Receipts(blk.Height)); err != nil {
			c.Probe("upgrade-replay/ledger-mismatch")
		}
		c.Event(1)
		return blk, true
	}
	nSigners := 1 + t.Int(3)
	if _, ok := honest(gen.MultiSign(types.TxContractCreateType, gen.Accts[:nSigners], 1+t.Int(nSigners))); !ok {
		return
	}
	targets := []common.Address{config.ContractValidatorsAddr, config.ContractFoundationAddr, config.ContractCandidatesAddr}
	type done struct {
		tx types.Tx
		h  uint64
		by common.Address
	}
	var upgrades []done
	for blocks := 2 + t.Int(3); blocks > 0; blocks-- {
		var items []*txgen.Item
		signer := gen.Accts[t.Int(nSigners)]
		for k := t.Range(1, 3); k > 0; k-- {
			if t.Bool(1, 2) {
				if it := gen.Upgrade(signer, targets[t.Int(len(targets))]); it != nil {
					items = append(items, it)
					continue
				}
			}
			if it := gen.Transfer(signer, gen.Accts[(t.Int(2)+1)%len(gen.Accts)].Addr, big.NewInt(int64(1+t.Int(1000)))); it != nil {
				items = append(items, it)
			}
		}
		blk, ok := honest(items...)
		if !ok {
			return
		}
		for _, it := range items {
			if it.Kind == txgen.KUpgrade {
				upgrades = append(upgrades, done{it.Tx, blk.Height, it.From})
			}
		}
	}
	if len(upgrades) == 0 {
		return
	}
	c.Probe("upgrade-replay/upgrades-committed")
	// the Byzantine blocks
	for tries := 1 + t.Int(3); tries > 0; tries-- {
		u := upgrades[t.Int(len(upgrades))]
		old, err := txgen.CloneTx(u.tx)
		if err != nil {
			return
		}
		txs := types.Txs{old}
		shape := t.Int(3)
		if shape > 0 {
			var fresh *txgen.Item
			for _, a := range gen.Accts {
				if a.Addr != u.by {
					fresh = gen.Transfer(a, gen.Accts[0].Addr, big.NewInt(int64(1+t.Int(1000))))
					break
				}
			}
			if fresh != nil {
				if shape == 1 {
					txs = types.Txs{fresh.Tx, old}
				} else {
					txs = types.Txs{old, fresh.Tx}
				}
			}
		}
		c.Evals(1)
		c.Fault("byzantine-block/replayed-contract-upgrade")
		now += 5
		blk, _, err := P.Propose(txgen.BlockSpec{Txs: txs, Explicit: true, Time: now})
		gen.ResetPending()
		if err != nil || blk == nil {
			c.Probe("upgrade-replay/refused-by-the-proposers-own-executor")
			continue
		}
		present := false
		for _, tx := range blk.Data.Txs {
			if tx.Hash() == old.Hash() {
				present = true
			}
		}
		if !present {
			c.Probe("upgrade-replay/dropped-by-the-proposers-own-executor")
			continue
		}
		b, _ := txgen.CloneBlock(blk)
		if ok, _ := Q.Check(b); ok {
			c.Violate("replay-accepted", "block-accepts-replayed-tx/contract-upgrade",
				"an honest replica's CheckBlock accepts a block at height %d that carries contract-upgrade transaction %x of sender %x, which was committed at height %d (block shape %d, %d transactions): the transaction would execute a second time and the sender's executed nonces are no longer sequential",
				blk.Height, old.Hash().Bytes()[:4], u.by[:4], u.h, shape, len(blk.Data.Txs))
			return
		}
		c.Probe("upgrade-replay/refused-by-the-honest-replica")
	}
	c.NonTrivial()
}
