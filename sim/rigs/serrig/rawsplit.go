package serrig

import (
	"bytes"
	"encoding/binary"
	"fmt"
	"syscall"
	"time"

	"github.com/lianxiangcloud/linkchain/libs/common"
	dbm "github.com/lianxiangcloud/linkchain/libs/db"
	"github.com/lianxiangcloud/linkchain/libs/ser"
	"github.com/lianxiangcloud/linkchain/libs/trie"

	"verif/sim/kernel"
)

// The raw splitter API of the codec (libs/ser/raw.go: Split, SplitString,
// SplitList, CountValues, ListSize, RawValue) and its consumer, the trie node
// decoder, as decode targets of the fault phase. These functions work on a
// []byte directly (no Stream), are what trie nodes and contract storage slots
// are read with, and are decoder entry points like any other: arbitrary bytes
// in, value or error out.

// ---------------------------------------------------------------- reference

// The rig's own reader of one item header. It gives two verdicts: whether the
// item is structurally present in the input (header complete, announced
// content inside the input) and whether its size information is in the one
// canonical form. The oracles demand only the sure sides: a structurally
// absent item must be refused, a present canonical one must be accepted and
// split where this reader splits it.
type refVerdict int

const (
	refOK       refVerdict = iota // present, canonical
	refNonCanon                   // present, size information not canonical
	refBad                        // empty input, incomplete header or content beyond the input
)

const (
	rkByte = iota
	rkString
	rkList
)

type refItem struct {
	kind int
	hdr  int    // header bytes in front of the content
	size uint64 // announced content size
	v    refVerdict
}

func refRead(b []byte) refItem {
	if len(b) == 0 {
		return refItem{v: refBad}
	}
	c := b[0]
	if c < 0x80 {
		return refItem{kind: rkByte, hdr: 0, size: 1}
	}
	it := refItem{kind: rkString}
	base, longBase := byte(0x80), byte(0xB7)
	if c >= 0xC0 {
		it.kind = rkList
		base, longBase = 0xC0, 0xF7
	}
	if c <= longBase {
		it.hdr = 1
		it.size = uint64(c - base)
		if it.size > uint64(len(b)-1) {
			return refItem{kind: it.kind, v: refBad}
		}
		if it.kind == rkString && it.size == 1 && b[1] < 0x80 {
			it.v = refNonCanon
		}
		return it
	}
	ll := int(c - longBase) // 1..8 size bytes
	if len(b) < 1+ll {
		return refItem{kind: it.kind, v: refBad}
	}
	for _, x := range b[1 : 1+ll] {
		it.size = it.size<<8 | uint64(x)
	}
	it.hdr = 1 + ll
	if it.size > uint64(len(b)-it.hdr) {
		return refItem{kind: it.kind, v: refBad}
	}
	if b[1] == 0 || it.size < 56 {
		it.v = refNonCanon
	}
	return it
}

// refCount walks a sequence of items.
func refCount(b []byte) (int, refVerdict) {
	n, v := 0, refOK
	for len(b) > 0 {
		it := refRead(b)
		if it.v == refBad {
			return 0, refBad
		}
		if it.v == refNonCanon {
			v = refNonCanon
		}
		b = b[it.hdr+int(it.size):]
		n++
	}
	return n, v
}

func kindOf(k ser.Kind) int {
	switch k {
	case ser.Byte:
		return rkByte
	case ser.String:
		return rkString
	case ser.List:
		return rkList
	}
	return -1
}

// ---------------------------------------------------------------- guard

// Every call of this phase is a pure function of a short input; one that has
// not returned after hangCPU of process CPU time (and as much wall time) does
// not terminate. The call runs on its own goroutine; the run goroutine waits
// with a timer. The CPU clock, not the wall clock, decides: a worker that is
// merely starved by a loaded machine accumulates no CPU time. A goroutine that
// never returns cannot be stopped: the violation ends the run at once, the
// kernel shrinks/reports on its normal path and the worker process ends. So
// that the kernel's shrinker (which re-executes the run in the same process)
// does not pile up spinning goroutines, an (entry, input) pair that was seen
// not to terminate in this process is not called again: the function is pure,
// the verdict is the same.
const (
	hangCPU  = 3 * time.Second
	hangTick = 100 * time.Millisecond
)

var hungInputs = map[string]bool{}

func cpuTime() time.Duration {
	var ru syscall.Rusage
	if syscall.Getrusage(syscall.RUSAGE_SELF, &ru) != nil {
		return 0
	}
	return time.Duration(ru.Utime.Nano() + ru.Stime.Nano())
}

type callResult struct {
	site, class, msg string
	panicked         bool
}

// guard runs f (one call into the code under test on input in) and applies
// the two oracles every entry point shares: no panic, termination. It returns
// false when the call did not come back with a result.
func (r *runner) guard(entry string, in []byte, origin string, f func()) bool {
	r.c.Event(1)
	hk := entry + "\x00" + string(in)
	if len(hungInputs) > 0 && hungInputs[hk] {
		r.hung(entry, in, origin)
		return false
	}
	done := make(chan callResult, 1)
	go func() {
		var cr callResult
		cr.site, cr.class, cr.msg, cr.panicked = try(f)
		done <- cr
	}()
	if r.timer == nil {
		r.timer = time.NewTimer(hangTick)
	} else {
		r.timer.Reset(hangTick)
	}
	var cr callResult
	var cpu0 time.Duration
	var wall0 time.Time
wait:
	for {
		select {
		case cr = <-done:
			r.timer.Stop()
			break wait
		case <-r.timer.C:
			now, cpu := time.Now(), cpuTime()
			if wall0.IsZero() {
				wall0, cpu0 = now, cpu
			} else if cpu-cpu0 >= hangCPU && now.Sub(wall0) >= hangCPU {
				hungInputs[hk] = true
				r.hung(entry, in, origin)
				return false
			}
			r.timer.Reset(hangTick)
		}
	}
	if cr.panicked {
		r.violate("panic", "panic/"+cr.site+"/"+cr.class, "%s panicked at %s: %s (input %d bytes, %s: %x)", entry, cr.site, cr.msg, len(in), origin, clipN(in, 96))
		return false
	}
	return true
}

func (r *runner) hung(entry string, in []byte, origin string) {
	key := "non-termination/" + entry
	if r.seen[key] {
		return
	}
	r.seen[key] = true
	if r.c.Violate("non-termination", key, "%s has not returned after %s of CPU time on a %d-byte input (%s): %x", entry, hangCPU, len(in), origin, clipN(in, 96)) {
		// a goroutine of this process now spins for ever: end the run
		r.stop = true
	}
}

// ---------------------------------------------------------------- inputs

// lieSizes is the catalogue of announced sizes at the boundaries of every
// header form and of the size arithmetic.
var lieSizes = []uint64{
	0, 1, 2, 54, 55, 56, 57, 0x7f, 0x80, 0xff, 0x100, 0x101, 0xffff, 0x10000, 0xffffff, 0x1000000,
	0x7fffffff, 0x80000000, 0xffffffff, 0x100000000, 0x100000001, 1 << 40, 1 << 48, 1<<56 - 1, 1 << 56,
	1<<63 - 1, 1 << 63, 1<<63 + 1,
}

// lieHeader returns a string or list header announcing a catalogue size for a
// body of bodyLen bytes, in a tape-chosen form.
func lieHeader(f *kernel.Tape, list bool, bodyLen int) ([]byte, string) {
	var size uint64
	what := ""
	form := f.Pick(6, 2, 1, 1) // minimal, all 8 size bytes, one leading zero byte, long form forced
	switch f.Pick(5, 4, 3, 2) {
	case 0:
		size, what = lieSizes[f.Int(len(lieSizes))], "boundary"
	case 1: // 2^64-10 .. 2^64-1
		size, what = ^uint64(0)-uint64(f.Int(10)), "top"
	case 2: // around the true length
		size, what = uint64(int64(bodyLen)+int64(f.Int(5))-2), "near-true"
	default:
		// header length + size wraps around 2^64 into 0..bodyLen
		hl := uint64(9)
		size, what = -hl+uint64(f.Int(bodyLen+1)), "wraps"
		form = 0
	}
	small, large := byte(0x80), byte(0xB7)
	if list {
		small, large = 0xC0, 0xF7
	}
	if size < 56 && form == 0 {
		return []byte{small + byte(size)}, what
	}
	var buf [8]byte
	binary.BigEndian.PutUint64(buf[:], size)
	i := 0
	for i < 7 && buf[i] == 0 {
		i++
	}
	switch form {
	case 1:
		i = 0
		what += "/8-size-bytes"
	case 2:
		if i > 0 {
			i--
			what += "/leading-zero"
		}
	case 3:
		what += "/long-form"
	}
	lb := buf[i:]
	return append([]byte{large + byte(len(lb))}, lb...), what
}

// smallItems draws a sequence of n well-formed short items.
func smallItems(f *kernel.Tape, n int) []byte {
	var out []byte
	for i := 0; i < n; i++ {
		switch f.Pick(3, 3, 2, 1, 1) {
		case 0:
			out = append(out, byte(f.Int(0x80)))
		case 1:
			k := f.Int(6)
			out = append(out, 0x80+byte(k))
			out = append(out, f.Bytes(k)...)
			if k == 1 && out[len(out)-1] < 0x80 {
				out[len(out)-1] |= 0x80
			}
		case 2:
			out = append(out, 0xA0)
			out = append(out, f.Bytes(32)...)
		case 3:
			out = append(out, 0xC0)
		default:
			k := f.Int(4)
			out = append(out, 0xC0+byte(k))
			for j := 0; j < k; j++ {
				out = append(out, byte(f.Int(0x80)))
			}
		}
	}
	return out
}

func wrapItem(list bool, body []byte) []byte {
	n := &node{kind: nStr, data: body}
	if list {
		return putHeadBody(0xC0, 0xF7, n, body)
	}
	return serialize(nil, []*node{n})
}

func putHeadBody(small, large byte, n *node, body []byte) []byte {
	return append(putHead(nil, small, large, n, len(body)), body...)
}

// headerLie: catalogue header + a short body (random bytes or well-formed items).
func headerLie(f *kernel.Tape) ([]byte, string) {
	var body []byte
	if f.Bool(1, 2) {
		body = f.Bytes(f.Int(48))
	} else {
		body = smallItems(f, f.Int(6))
		if len(body) > 54 {
			body = body[:54]
		}
	}
	h, what := lieHeader(f, f.Bool(1, 2), len(body))
	return append(h, body...), "raw/header-lie/" + what
}

// nestedLie: a well-formed list one of whose elements carries a catalogue header.
func nestedLie(f *kernel.Tape) ([]byte, string) {
	pre := smallItems(f, f.Int(3))
	lie, what := headerLie(f)
	post := smallItems(f, f.Int(3))
	if len(pre)+len(post) > 40 {
		pre, post = nil, nil
	}
	body := append(append(append([]byte{}, pre...), lie...), post...)
	return wrapItem(true, body), "raw/nested-lie" + what[len("raw/header-lie"):]
}

// trieNodeBlob draws a blob shaped like a trie node: a 2-element (short node)
// or 17-element (full node) list of key / hash / embedded node / value items,
// some of them damaged.
func trieNodeBlob(f *kernel.Tape, depth int) []byte {
	ref := func() []byte {
		switch f.Pick(4, 4, 2, 1, 1) {
		case 0:
			return []byte{0x80}
		case 1:
			return append([]byte{0xA0}, f.Bytes(32)...)
		case 2:
			if depth < 2 {
				return trieNodeBlob(f, depth+1)
			}
			return []byte{0x80}
		case 3:
			k := f.Int(40)
			return wrapItem(false, f.Bytes(k))
		default:
			b, _ := headerLie(f)
			return b
		}
	}
	var body []byte
	if f.Bool(1, 2) || depth > 0 {
		// short node: compact key (flag nibble in the first byte), then value or reference
		var key []byte
		switch f.Pick(1, 3, 3, 1) {
		case 0: // empty key string
		case 1: // leaf
			key = append([]byte{[]byte{0x20, 0x30, 0x3a}[f.Int(3)]}, f.Bytes(f.Int(4))...)
		case 2: // extension
			key = append([]byte{[]byte{0x00, 0x10, 0x1a}[f.Int(3)]}, f.Bytes(f.Int(4))...)
		default:
			key = f.Bytes(1 + f.Int(5))
		}
		body = append(body, wrapItem(false, key)...)
		body = append(body, ref()...)
	} else {
		for i := 0; i < 16; i++ {
			if f.Bool(3, 4) {
				body = append(body, 0x80)
			} else {
				body = append(body, ref()...)
			}
		}
		if f.Bool(1, 2) {
			body = append(body, 0x80)
		} else {
			body = append(body, wrapItem(false, f.Bytes(f.Int(20)))...)
		}
	}
	if f.Bool(1, 8) {
		// wrong element count
		body = append(body, 0x80)
	}
	return wrapItem(true, body)
}

// damageHeader rewrites the outermost header of a genuine encoding.
func damageHeader(f *kernel.Tape, enc []byte) ([]byte, string) {
	it := refRead(enc)
	if it.v == refBad || it.kind == rkByte {
		b, k := byteFault(f, enc)
		return b, "raw/damaged/" + k
	}
	body := enc[it.hdr:]
	switch f.Pick(4, 2, 2, 1) {
	case 0:
		h, what := lieHeader(f, it.kind == rkList, len(body))
		return append(h, body...), "raw/damaged-header/" + what
	case 1: // other kind, true size
		return wrapItem(it.kind != rkList, body), "raw/damaged-header/kind-swap"
	case 2: // bit flip inside the header
		b := append([]byte{}, enc...)
		b[f.Int(it.hdr)] ^= byte(1 << uint(f.Int(8)))
		return b, "raw/damaged-header/flip"
	default: // cut inside or just behind the header
		return append([]byte{}, enc[:minInt(f.Int(it.hdr+2), len(enc))]...), "raw/damaged-header/cut"
	}
}

// ---------------------------------------------------------------- oracles

type splitOut struct {
	k             ser.Kind
	content, rest []byte
	err           error
}

// within reports whether sub is a sub-slice of b starting at offset off.
func within(b, sub []byte, off int) bool {
	if off < 0 || off+len(sub) > len(b) {
		return false
	}
	if len(sub) == 0 {
		return true
	}
	return &sub[0] == &b[off]
}

// rawCheck offers b to every raw entry point.
func (r *runner) rawCheck(b []byte, origin string) {
	c := r.c
	c.Fault(originKind(origin))
	r.nFault++
	c.Evals(1)
	it := refRead(b)
	mis := func(entry, what, format string, args ...interface{}) {
		r.violate("raw", "raw-mismatch/"+entry+"/"+what, "%s (input %d bytes, %s: %x)", fmt.Sprintf(format, args...), len(b), origin, clipN(b, 96))
	}

	// ---- Split
	var sp splitOut
	if !r.guard("ser.Split", b, origin, func() { sp.k, sp.content, sp.rest, sp.err = ser.Split(b) }) || r.stop {
		return
	}
	splitOK := sp.err == nil
	checkSplit := func(entry string, o splitOut, wantKind func(int) bool) bool {
		ok := o.err == nil
		switch {
		case ok && it.v == refBad:
			mis(entry, "accepts-value-beyond-input", "%s accepts an item that is not inside the input (content %d bytes, rest %d bytes)", entry, len(o.content), len(o.rest))
			return false
		case !ok && it.v == refOK && wantKind(it.kind):
			mis(entry, "valid-rejected", "%s rejects a well-formed canonical item: %v", entry, o.err)
			return false
		case ok && !wantKind(it.kind):
			mis(entry, "wrong-kind-accepted", "%s accepts an item of another kind", entry)
			return false
		}
		if !ok {
			return true
		}
		hl := len(b) - len(o.content) - len(o.rest)
		if hl != it.hdr || uint64(len(o.content)) != it.size {
			mis(entry, "split-position", "%s splits at header %d / content %d, the item has header %d / content %d", entry, hl, len(o.content), it.hdr, it.size)
			return false
		}
		if !within(b, o.content, hl) || !within(b, o.rest, hl+len(o.content)) {
			mis(entry, "not-subslices", "%s: content/rest are not the sub-slices of the input behind the header", entry)
			return false
		}
		return true
	}
	any := func(int) bool { return true }
	if !checkSplit("ser.Split", sp, any) {
		return
	}
	if splitOK {
		c.Probe("raw-split-accepted")
		if kindOf(sp.k) != it.kind {
			mis("ser.Split", "kind", "Split reports kind %v for first byte %#x", sp.k, b[0])
			return
		}
	}
	// ---- SplitString / SplitList: Split plus a kind test
	var ss, sl splitOut
	if !r.guard("ser.SplitString", b, origin, func() { ss.content, ss.rest, ss.err = ser.SplitString(b) }) || r.stop {
		return
	}
	if !r.guard("ser.SplitList", b, origin, func() { sl.content, sl.rest, sl.err = ser.SplitList(b) }) || r.stop {
		return
	}
	if !checkSplit("ser.SplitString", ss, func(k int) bool { return k != rkList }) || !checkSplit("ser.SplitList", sl, func(k int) bool { return k == rkList }) {
		return
	}
	if splitOK != (ss.err == nil || sl.err == nil) || (ss.err == nil && sl.err == nil) {
		mis("ser.SplitString+SplitList", "disagree-with-split", "Split ok=%v, SplitString ok=%v, SplitList ok=%v", splitOK, ss.err == nil, sl.err == nil)
		return
	}
	// ---- CountValues over the whole input and over the content of a list
	count := func(in []byte, what string) (n int, ok, sound bool) {
		var err error
		if !r.guard("ser.CountValues", in, origin, func() { n, err = ser.CountValues(in) }) || r.stop {
			return 0, false, false
		}
		ok = err == nil
		rn, rv := refCount(in)
		switch {
		case ok && rv == refBad:
			mis("ser.CountValues", "accepts-value-beyond-input", "CountValues(%s) = %d although an item is not inside the input: %x", what, n, clipN(in, 96))
			return n, ok, false
		case !ok && rv == refOK:
			mis("ser.CountValues", "valid-rejected", "CountValues(%s) rejects %d well-formed canonical items: %v", what, rn, err)
			return n, ok, false
		case ok && n != rn:
			mis("ser.CountValues", "count", "CountValues(%s) = %d, the input holds %d items", what, n, rn)
			return n, ok, false
		}
		if ok {
			c.Probe("raw-count-accepted")
		}
		return n, ok, true
	}
	if _, _, sound := count(b, "input"); !sound {
		return
	}
	nElems, elemsOK := 0, false
	if splitOK && it.kind == rkList {
		var sound bool
		if nElems, elemsOK, sound = count(sp.content, "list content"); !sound {
			return
		}
		// ListSize is the inverse of splitting a list
		var ls uint64
		if _, _, _, p := try(func() { ls = ser.ListSize(uint64(len(sp.content))) }); !p && it.v == refOK && ls != uint64(it.hdr+len(sp.content)) {
			mis("ser.ListSize", "size", "ListSize(%d) = %d, the canonical list encoding has %d bytes", len(sp.content), ls, it.hdr+len(sp.content))
			return
		}
	}
	// ---- the same bytes through the Stream decoder
	var sv streamView
	if !r.guard("ser.Stream", b, origin, func() { sv = streamRead(b) }) || r.stop {
		return
	}
	c.Finger(originKind(origin), splitOK, sv.ok, nElems)
	switch {
	case splitOK != sv.ok:
		r.violate("raw", "split-vs-stream/accept-differs", "Split ok=%v (%v) but Stream ok=%v (%v) on the same bytes (%s: %x)", splitOK, sp.err, sv.ok, sv.err, origin, clipN(b, 96))
		return
	case splitOK && (kindOf(sv.kind) != kindOf(sp.k) || !bytes.Equal(sv.content, sp.content) || sv.rest != len(sp.rest)):
		r.violate("raw", "split-vs-stream/value-differs", "Split and Stream read different items from the same bytes: kind %v/%v, content %x/%x, rest %d/%d (%s: %x)", sp.k, sv.kind, clipN(sp.content, 32), clipN(sv.content, 32), len(sp.rest), sv.rest, origin, clipN(b, 96))
		return
	case splitOK && it.kind == rkList && (elemsOK != sv.elemsOK || (elemsOK && nElems != sv.elems)):
		r.violate("raw", "split-vs-stream/count-differs", "CountValues over the list content: ok=%v n=%d; walking the list with Stream: ok=%v n=%d (%s: %x)", elemsOK, nElems, sv.elemsOK, sv.elems, origin, clipN(b, 96))
		return
	}
	if splitOK {
		r.nPenetrated++
		c.Probe("split-and-stream-agree-on-accepted-item")
	}
	// ---- RawValue: decoding into it returns the item verbatim
	var rawv ser.RawValue
	var rerr error
	if !r.guard("ser.DecodeBytes(RawValue)", b, origin, func() { rerr = ser.DecodeBytes(b, &rawv) }) || r.stop {
		return
	}
	switch {
	case rerr == nil && !bytes.Equal(rawv, b):
		mis("ser.DecodeBytes(RawValue)", "not-verbatim", "decoding into a RawValue returns %x", clipN(rawv, 96))
		return
	case rerr != nil && it.v == refOK && it.hdr+int(it.size) == len(b):
		mis("ser.DecodeBytes(RawValue)", "valid-rejected", "decoding one well-formed canonical item into a RawValue fails: %v", rerr)
		return
	case rerr == nil && (it.v == refBad || it.hdr+int(it.size) != len(b)):
		mis("ser.DecodeBytes(RawValue)", "accepts-value-beyond-input", "decoding into a RawValue accepts input that is not exactly one item")
		return
	}
}

func originKind(origin string) string {
	// "raw/header-lie/top/8-size-bytes" -> "raw/header-lie"
	n := 0
	for i := 0; i < len(origin); i++ {
		if origin[i] == '/' {
			if n++; n == 2 {
				return origin[:i]
			}
		}
	}
	return origin
}

type streamView struct {
	ok      bool
	err     error
	kind    ser.Kind
	content []byte
	rest    int
	elems   int
	elemsOK bool
}

// streamRead reads the first item of b with the Stream decoder: strings with
// Bytes, lists with Raw; a list is then walked element by element.
func streamRead(b []byte) (sv streamView) {
	rd := bytes.NewReader(b)
	s := ser.NewStream(rd, uint64(len(b)))
	k, size, err := s.Kind()
	if err != nil {
		sv.err = err
		return
	}
	sv.kind = k
	if k == ser.List {
		raw, err := s.Raw()
		if err != nil {
			sv.err = err
			return
		}
		if uint64(len(raw)) < size || !bytes.Equal(raw, b[:len(b)-rd.Len()]) {
			sv.err = fmt.Errorf("Raw() returned %x, the input starts %x", clipN(raw, 32), clipN(b, 32))
			return
		}
		sv.content = raw[uint64(len(raw))-size:]
	} else {
		c, err := s.Bytes()
		if err != nil {
			sv.err = err
			return
		}
		sv.content = c
	}
	sv.ok, sv.rest = true, rd.Len()
	if k != ser.List {
		return
	}
	s = ser.NewStream(bytes.NewReader(b), uint64(len(b)))
	if _, err := s.List(); err != nil {
		return
	}
	for {
		ek, _, err := s.Kind()
		if err == ser.EOL {
			break
		}
		if err != nil {
			return
		}
		if ek == ser.List {
			_, err = s.Raw()
		} else {
			_, err = s.Bytes()
		}
		if err != nil {
			return
		}
		sv.elems++
	}
	sv.elemsOK = s.ListEnd() == nil
	return
}

// ---------------------------------------------------------------- trie nodes

var trieRoot = common.HexToHash("0x1111111111111111111111111111111111111111111111111111111111111111")

// trieCheck delivers blob as a trie node through the three exported paths
// that decode node bytes they did not produce: the state-sync scheduler
// (Process: node data from a peer; NewSync: the node found in the local
// database) and the Merkle proof verifier.
func (r *runner) trieCheck(blob []byte, origin string) {
	c := r.c
	c.Fault("raw/trie-node")
	r.nFault++
	c.Evals(1)
	it := refRead(blob)
	wellFormed := false
	if it.kind == rkList && it.v != refBad {
		n, v := refCount(blob[it.hdr : it.hdr+int(it.size)])
		wellFormed = v != refBad && (n == 2 || n == 17)
	}
	var perr error
	leaf := func(leaf []byte, parent common.Hash) error { return nil }
	if !r.guard("trie.Sync.Process", blob, origin, func() {
		s := trie.NewSync(trieRoot, dbm.NewMemDB(), leaf)
		_, _, perr = s.Process([]trie.SyncResult{{Hash: trieRoot, Data: blob}})
	}) || r.stop {
		return
	}
	if perr == nil {
		c.Probe("trie-node-decoded")
		r.nPenetrated++
		if !wellFormed {
			r.violate("raw", "raw-mismatch/trie.Sync.Process/malformed-node-accepted", "trie.Sync.Process accepts a node blob that is not a complete list of 2 or 17 items (%s: %x)", origin, clipN(blob, 96))
			return
		}
	}
	c.Finger("trie", perr == nil)
	if !r.guard("trie.NewSync", blob, origin, func() {
		db := dbm.NewMemDB()
		db.Set(trieRoot.Bytes(), blob)
		trie.NewSync(trieRoot, db, nil)
	}) || r.stop {
		return
	}
	key := r.fault.Bytes(1 + r.fault.Int(4))
	r.guard("trie.VerifyProof", blob, origin, func() {
		db := dbm.NewMemDB()
		db.Set(trieRoot.Bytes(), blob)
		trie.VerifyProof(trieRoot, key, db)
	})
}

// ---------------------------------------------------------------- phase

// rawPhase is the raw-splitter part of the fault phase. encs are genuine
// encodings produced earlier in the run.
func (r *runner) rawPhase(encs [][]byte, n int) {
	f := r.fault
	for i := 0; i < n && !r.stop; i++ {
		var b []byte
		origin := ""
		switch f.Pick(6, 3, 2*min1(len(encs)), 3*min1(len(encs)), 3, 3) {
		case 0:
			b, origin = headerLie(f)
		case 1:
			b, origin = rawBytes(f), "raw/arbitrary"
			if len(b) > 64 {
				b = b[:64]
			}
		case 2:
			b, origin = encs[f.Int(len(encs))], "raw/genuine"
		case 3:
			b, origin = damageHeader(f, encs[f.Int(len(encs))])
		case 4:
			b, origin = nestedLie(f)
		default:
			b = trieNodeBlob(f, 0)
			if f.Bool(1, 4) {
				b, _ = byteFault(f, b)
			}
			origin = "raw/trie-node"
			r.trieCheck(b, origin)
			if r.stop {
				return
			}
			r.rawCheck(b, origin+"/split")
			continue
		}
		r.rawCheck(b, origin)
		if !r.stop && f.Bool(1, 3) {
			r.trieCheck(b, origin)
		}
	}
}
