// Package serrig is the C11 rig: the node's wire/storage codec (libs/ser and
// the type registrations of types, consensus, mempool, blockchain, evidence,
// state) must be lossless and canonical on values, and safe on arbitrary
// bytes at every decoder entry point.
package serrig

import (
	"bytes"
	"fmt"
	"hash/fnv"
	"io"
	"os"
	"reflect"
	"runtime"
	"sort"
	"strings"
	"syscall"
	"time"

	"github.com/lianxiangcloud/linkchain/consensus"
	"github.com/lianxiangcloud/linkchain/libs/log"
	"github.com/lianxiangcloud/linkchain/libs/ser"

	"verif/sim/kernel"
	"verif/sim/rigs/valgen"
)

func init() {
	log.Root().SetHandler(log.DiscardHandler())
	// Safety net: a decoder that allocates from an unchecked length must kill
	// at most this worker (harness trouble, exit 2), never the machine.
	if m := os.Getenv("VERIF_MODE"); m == "worker" || m == "replay" {
		lim := syscall.Rlimit{Cur: 24 << 30, Max: 24 << 30}
		syscall.Setrlimit(syscall.RLIMIT_AS, &lim)
	}
	kernel.Register(&kernel.Rig{
		Property: "C11", Name: "serrig", Level: "exploration",
		Rule: "Mostly seeded INPUT GENERATION, said plainly: per run 6-30 values of tape-chosen registered types (blocks, 6 tx kinds, votes, proposals, commits, parts, evidence, validator sets, status, results, receipts, logs, accounts, WAL and reactor messages) from three sources - (a) structurally valid values as the system builds them, (b) a type-directed corner-value filler (nil pointers/interfaces, 0/max/negative ints, big ints, odd times, maps), (c) hand-made encodings of types with private data - each checked decode(encode(v))==v (re-encoding AND tolerant structural compare), encode(decode(b))==b, repeat-encode and map-insertion-order canonicity. The simulated part is the transport-fault dimension: every encoding gets 8-64 faults (structure-aware: type-prefix swap, integer/length field rewrite, lying/non-canonical headers, list/str reshaping; blind: flips, truncation, splices, appended bytes; raw random bytes; cross-type delivery) offered to DecodeBytes/DecodeBytesWithType/Decode/DecodeWithType/DecodeReader[WithType] and WALDecoder, stream decoders through a reader with tape-chosen short reads and early EOF. Oracle: no panic, allocation of one decode <= 4096*len+16MiB (ReadMemStats delta), value or error, stream result == whole-buffer result, any value a decoder returns re-encodes to a fixpoint. Retention (3 of 4 runs, pinned to one P because the codec's buffer pool is per P): 4-13 slices returned by EncodeToBytes/MustEncodeToBytes/EncodeToBytesWithType/MustEncodeToBytesWithType (and readers from EncodeToReader) of flat values (uints, strings, byte strings, hashes, addresses, big ints, RawValue, registered keys/signatures) and structured ones are HELD for a tape-chosen 2-8 later encodes (same type and size, other sizes, structured, writer entry point, another goroutine, drained reader, a decode), then each must still equal the private copy taken when it was returned and decode as it did then (encoding-aliased-and-overwritten/<entry>/<type>); 3-8 values decoded by DecodeBytes/DecodeReader/Decode must not change when the caller overwrites the input buffer (decoded-value-aliases-input/<entry>/<type>). Raw splitter API (libs/ser/raw.go) as decode target, 10-30 inputs per run: arbitrary bytes, genuine encodings, genuine encodings with a damaged outer header, a header-lie catalogue (string and list tags; announced sizes 0,55,56,2^8,2^16,2^24,2^32,2^56,2^63 and neighbours, 2^64-10..2^64-1, sizes whose header+size sum wraps into the input, sizes around the true length; minimal form, 8 size bytes, leading zero, forced long form) alone and nested in a well-formed list, node-shaped blobs (2/17-item lists of keys, hashes, embedded nodes, lying items) - offered to Split, SplitString, SplitList, CountValues (input and list content), ListSize, DecodeBytes into RawValue, a Stream reading the same bytes (Kind+Bytes/Raw, then walking the list), and to the trie node decoder through trie.Sync.Process, NewSync (node found in the local database) and VerifyProof. Oracle: no panic; termination (each call on its own goroutine, violation non-termination/<entry> after 3 s of process CPU time); against the rig's own header reader: an item not inside the input is refused, a well-formed canonical item is accepted, split exactly at header/content/rest, results are sub-slices of the input, count equals the number of items; Split and Stream agree on accept/kind/content/rest/element count; a node blob accepted by the trie is a complete 2- or 17-item list. Non-trivial run: >=10 faults fired and >=1 faulty input still decoded to a value. Distinct = hash over (type, encoding hash, per-fault kind and outcome).",
		Real: []string{"libs/ser (encode, decode, cdc, typecache, raw incl. Split/SplitString/SplitList/CountValues/ListSize/RawValue and the encode buffer pool)", "libs/trie node decoding (decodeNode/decodeShort/decodeFull/decodeRef via Sync.Process, NewSync, VerifyProof) over libs/db MemDB", "type registrations and EncodeSER/DecodeSER of types, libs/crypto, consensus (messages, WAL records, NewStatus), mempool, blockchain, evidence, state.Account",
			"consensus.WALEncoder/WALDecoder", "secp256k1 signing (for some generated transactions)"},
		Stub: []string{"reactors' decodeMsg are private: the rig makes the same call (size guard + ser.DecodeBytesWithType into the reactor's message interface); Reactor.Receive is not driven (dispatch on hostile messages is C16)",
			"blockchain reactor message types are private: their valid encodings are hand-made (registered prefix + field list)",
			"UTXO transactions are filled structurally (no confidential-transaction crypto)"},
		Assumptions: []string{
			"stream decoders are given an input limit (every caller in the repository passes one); ser.Decode on a non-bytes reader without limit is documented as unsafe and not exercised",
			"equality tolerates only what the codec documents: nil==empty slice, nil *big.Int==0, nil pointer==pointer to empty-encoding value, times compared as instants",
			"a panic or error while ENCODING a value is counted as a probe (encode-panic/..., unencodable/...), not a violation: the statement's safety clause is about decoding",
			"allocation bound is a length-prefix-bomb detector only (4096 x input + 16 MiB)",
			"the rig protects the machine against a regression of the (fixed) finding alloc-bomb/state.Account: integer rewrites inside account records avoid 2^20..2^62 (a Proposal's encoding parses as an account whose token-map length is the proposal's Unix time; the map decoder would pre-allocate ~100 GB); lying length headers stop at 256 MiB and then jump to 2^62; workers run under RLIMIT_AS 24 GiB",
			"termination is judged by process CPU time (3 s for one call on an input of at most a few KiB, measured only once a call has been out for 100 ms), never by wall time alone: a starved worker cannot raise it; after a non-termination the run ends at once (a goroutine of the worker spins for ever) and an (entry point, input) pair seen not to terminate is not called again in that process (pure function, same verdict) so that shrinking does not pile up spinning goroutines",
			"retention judges change only: what a held slice decodes to later is compared with what its private copy decoded to when it was returned, never with an expectation of the rig; aliasing documented by the API (Split returns sub-slices of its input) is not judged; when the pool hands a held buffer out again depends on GC timing, which only matters on a tree where slices alias the pool",
			"non-canonical size information accepted by one raw entry point alone is not a violation by itself (the statement speaks about encodings); it is one when Split and Stream disagree about the same bytes",
			"trie.VerifyProof is given a proof database holding the one blob under the requested root; a blob cannot refer to itself (hash links are not checked by this version of VerifyProof, a self-referring database would loop by construction)",
			"a violation does not end the run (decodes are independent): the run records up to 6 distinct new keys; the kernel shrinks and reports the first",
		},
		QuickRuns: 16000, QuickBudget: 45 * time.Second,
		ThoroughRuns: 120000, ThoroughBudget: 17 * time.Minute,
		RunsPerProcess: 2000,
		Run:            run,
	})
}

const (
	allocSlack  = 16 << 20
	allocFactor = 4096
)

// ---------------------------------------------------------------- panics

// try runs f; a panic becomes (site, class, msg). site is the innermost frame
// of the repository under test on the panicking stack (so that a panic raised
// inside reflect or runtime is attributed to the codec function that caused
// it), class a short stable digest of the message.
func try(f func()) (site, class, msg string, panicked bool) {
	defer func() {
		if r := recover(); r != nil {
			panicked = true
			msg = fmt.Sprint(r)
			if len(msg) > 200 {
				msg = msg[:200]
			}
			class = panicClass(msg)
			site = repoSite()
		}
	}()
	f()
	return
}

const repoPrefix = "github.com/lianxiangcloud/linkchain/"

func repoSite() string {
	pcs := make([]uintptr, 96)
	n := runtime.Callers(3, pcs)
	frames := runtime.CallersFrames(pcs[:n])
	seenPanic := false
	first := ""
	for {
		f, more := frames.Next()
		fn := f.Function
		if !seenPanic {
			if fn == "runtime.gopanic" || strings.HasPrefix(fn, "runtime.panic") || strings.HasPrefix(fn, "runtime.goPanic") || fn == "runtime.sigpanic" {
				seenPanic = true
			}
		} else if !strings.HasPrefix(fn, "runtime.") {
			if first == "" {
				first = fn
			}
			if strings.HasPrefix(fn, repoPrefix) {
				s := strings.TrimPrefix(fn, repoPrefix)
				// closures: keep the enclosing function
				if i := strings.Index(s, ".func"); i > 0 {
					s = s[:i]
				}
				return s
			}
		}
		if !more {
			break
		}
	}
	if first == "" {
		return "unknown"
	}
	return first
}

func panicClass(msg string) string {
	switch {
	case strings.Contains(msg, "not assignable"):
		return "not-assignable"
	case strings.Contains(msg, "nil pointer dereference"):
		return "nil-deref"
	case strings.Contains(msg, "index out of range"):
		return "index-out-of-range"
	case strings.Contains(msg, "slice bounds out of range"):
		return "slice-bounds"
	case strings.Contains(msg, "makeslice"):
		return "makeslice"
	case strings.Contains(msg, "out of memory"), strings.Contains(msg, "makemap"):
		return "alloc"
	case strings.Contains(msg, "should not happen"):
		return "should-not-happen"
	}
	// first words, letters only
	var b strings.Builder
	words := 0
	for _, r := range msg {
		switch {
		case r >= 'a' && r <= 'z' || r >= 'A' && r <= 'Z' || r == '.':
			b.WriteRune(r)
		case r == ' ' || r == ':':
			if b.Len() > 0 && !strings.HasSuffix(b.String(), "-") {
				b.WriteByte('-')
				words++
			}
		default:
			words = 9
		}
		if words >= 4 || b.Len() > 40 {
			break
		}
	}
	return strings.Trim(b.String(), "-")
}

// ---------------------------------------------------------------- readers

// shortReader returns tape-chosen short reads; when eofWithData is set the
// last chunk is returned together with io.EOF (both are legal io.Reader
// behaviour).
type shortReader struct {
	b           []byte
	pos         int
	t           *kernel.Tape
	maxChunk    int
	eofWithData bool
}

func (r *shortReader) Read(p []byte) (int, error) {
	if len(p) == 0 {
		return 0, nil
	}
	rem := len(r.b) - r.pos
	if rem == 0 {
		return 0, io.EOF
	}
	n := minInt(minInt(r.maxChunk, len(p)), rem)
	if n > 1 {
		n = 1 + r.t.Int(n)
	}
	copy(p, r.b[r.pos:r.pos+n])
	r.pos += n
	if r.pos == len(r.b) && r.eofWithData {
		return n, io.EOF
	}
	return n, nil
}

// shortByteReader additionally offers ReadByte, so that the codec's Stream
// does not wrap it in a bufio.Reader.
type shortByteReader struct{ shortReader }

func (r *shortByteReader) ReadByte() (byte, error) {
	if r.pos >= len(r.b) {
		return 0, io.EOF
	}
	c := r.b[r.pos]
	r.pos++
	return c, nil
}

func newShort(t *kernel.Tape, b []byte) (io.Reader, *shortReader) {
	sr := &shortByteReader{shortReader{b: b, t: t, maxChunk: []int{1, 2, 3, 7, 64, 4096}[t.Int(6)], eofWithData: t.Bool(1, 4)}}
	if t.Bool(1, 2) {
		return sr, &sr.shortReader
	}
	return &sr.shortReader, &sr.shortReader
}

// streamKey names a stream/whole-buffer disagreement. A reader that returned
// its final bytes together with io.EOF (legal for an io.Reader, cf.
// iotest.DataErrReader) is a cause of its own and gets one key whatever the
// manifestation; everything else is keyed by entry point and manifestation.
func streamKey(sr *shortReader, entry, manifestation string) string {
	if sr.eofWithData && sr.pos == len(sr.b) {
		return "stream-mismatch/ser.Stream/final-data-with-EOF"
	}
	return "stream-mismatch/" + entry + "/" + manifestation
}

// ---------------------------------------------------------------- run state

type runner struct {
	c     *kernel.Ctx
	gen   *kernel.Tape
	fault *kernel.Tape
	read  *kernel.Tape
	fil   *valgen.Filler
	real  *valgen.Filler
	stop  bool

	seen                        map[string]bool
	newKeys                     int
	nRound, nFault, nPenetrated int
	perType                     map[string]int
	ms0, ms1                    runtime.MemStats
	timer                       *time.Timer // guard (rawsplit.go)
	nRetained                   int
}

// violate records a violation once per key and lets the run go on: the
// decodes of a run are independent, and a fresh-process replay (which ignores
// the known-findings list) must still reach a violation that comes after a
// known one. The run stops after a handful of distinct new keys.
func (r *runner) violate(class, key, format string, args ...interface{}) {
	if r.seen[key] {
		return
	}
	r.seen[key] = true
	if r.c.Violate(class, key, format, args...) {
		r.newKeys++
		if r.newKeys >= 6 {
			r.stop = true
		}
	}
}

func (tg *target) dest() reflect.Value { return reflect.New(tg.typ) }

// form returns the object handed to the encoder for value v of target tg: the
// pointer itself for concrete targets, a pointer to an interface variable for
// interface targets (what the containing structs and the stores do).
func (tg *target) form(v interface{}) interface{} {
	if !tg.iface {
		return v
	}
	p := reflect.New(tg.typ)
	if v != nil {
		p.Elem().Set(reflect.ValueOf(v))
	}
	return p.Interface()
}

// inner returns the comparable value held by a decode destination.
func (tg *target) inner(dst reflect.Value) interface{} {
	if !tg.iface {
		return dst.Interface()
	}
	if dst.Elem().IsNil() {
		return nil
	}
	return dst.Elem().Interface()
}

// encode encodes through the plain entry point; an encoder panic or error is
// reported as (nil, what).
func (r *runner) encode(tg *target, v interface{}) ([]byte, string) {
	var bz []byte
	var err error
	site, class, _, p := try(func() { bz, err = ser.EncodeToBytes(tg.form(v)) })
	if p {
		r.c.Probe("encode-panic/" + site + "/" + class)
		return nil, "panic"
	}
	if err != nil {
		r.c.Probe("unencodable/" + tg.name)
		return nil, "error"
	}
	return bz, ""
}

const (
	eBytes = iota
	eBytesWT
	eDecode
	eDecodeWT
	eReader
	eReaderWT
	numEntries
)

var entryNames = [...]string{"DecodeBytes", "DecodeBytesWithType", "Decode", "DecodeWithType", "DecodeReader", "DecodeReaderWithType"}

type outcome struct {
	ok       bool
	panicked bool
	dst      reflect.Value
	n        int64
}

// decode offers b to one entry point with destination type tg and applies the
// per-decode oracles (no panic, bounded allocation).
func (r *runner) decode(entry int, tg *target, b []byte, rd io.Reader, limit int64, origin string) outcome {
	dst := tg.dest()
	ptr := dst.Interface()
	var err error
	var n int64 = -1
	r.c.Event(1)
	runtime.ReadMemStats(&r.ms0)
	site, class, msg, p := try(func() {
		switch entry {
		case eBytes:
			err = ser.DecodeBytes(b, ptr)
		case eBytesWT:
			err = ser.DecodeBytesWithType(b, ptr)
		case eDecode:
			err = ser.Decode(bytes.NewReader(b), ptr)
		case eDecodeWT:
			err = ser.DecodeWithType(bytes.NewReader(b), ptr)
		case eReader:
			n, err = ser.DecodeReader(rd, ptr, limit)
		case eReaderWT:
			n, err = ser.DecodeReaderWithType(rd, ptr, limit)
		}
	})
	runtime.ReadMemStats(&r.ms1)
	alloc := r.ms1.TotalAlloc - r.ms0.TotalAlloc
	if p {
		r.violate("panic", "panic/"+site+"/"+class, "%s into %s panicked at %s: %s (input %d bytes, %s: %x)", entryNames[entry], tg.name, site, msg, len(b), origin, clipN(b, 96))
		return outcome{panicked: true}
	}
	if alloc > uint64(allocFactor*len(b)+allocSlack) {
		r.violate("alloc", "alloc-bomb/"+tg.name, "%s into %s allocated %d bytes for a %d-byte input (bound %d; %s: %x)", entryNames[entry], tg.name, alloc, len(b), allocFactor*len(b)+allocSlack, origin, clipN(b, 96))
	}
	return outcome{ok: err == nil, dst: dst, n: n}
}

func clipN(b []byte, n int) []byte {
	if len(b) > n {
		return b[:n]
	}
	return b
}

func fnv64(b []byte) uint64 {
	h := fnv.New64a()
	h.Write(b)
	return h.Sum64()
}

// ---------------------------------------------------------------- round trips

// roundTrip checks one value (or one hand-made encoding) and returns its
// encoding for the fault phase (nil when the value could not be encoded).
func (r *runner) roundTrip(tg *target, v interface{}, hand []byte, src string) []byte {
	c := r.c
	var enc []byte
	if hand != nil {
		enc = hand
	} else {
		var what string
		enc, what = r.encode(tg, v)
		if what != "" {
			// the reactor, WAL and store messages of the hand-written lists in
			// targets.go are what a node sends and stores: each of them must be
			// encodable as the interface value it travels as
			if tg.iface && v != nil && src == "realistic" {
				r.violate("roundtrip", fmt.Sprintf("roundtrip/%s/unencodable/%T", tg.name, v), "a %T value the node sends as %s cannot be encoded (%s)", v, tg.name, what)
			}
			return nil
		}
		if tg.iface && v != nil && src == "realistic" {
			// ... and what the sender's entry point (EncodeToBytesWithType, used by
			// every reactor's send path) produces must decode at the receiver
			var wt []byte
			var err error
			_, _, _, p := try(func() { wt, err = ser.EncodeToBytesWithType(v) })
			if p || err != nil {
				r.violate("roundtrip", fmt.Sprintf("roundtrip/%s/withtype-unencodable/%T", tg.name, v), "EncodeToBytesWithType(%T) fails (panic=%v err=%v)", v, p, err)
				return nil
			}
			if ow := r.decode(eBytes, tg, wt, nil, 0, src); !ow.panicked && !ow.ok {
				r.violate("roundtrip", fmt.Sprintf("roundtrip/%s/sent-bytes-do-not-decode/%T", tg.name, v), "the bytes EncodeToBytesWithType(%T) produces (what a reactor sends) do not decode as %s at the receiver: %x", v, tg.name, clipN(wt, 64))
				return nil
			}
		}
		// repeat-encode: identical bytes every time (maps iterate randomly)
		reps := 2
		if tg.name == "state.Account" {
			reps = 8 // a 2-entry map iterates in the same order half of the time
		}
		for i := 0; i < reps; i++ {
			again, _ := r.encode(tg, v)
			if !bytes.Equal(again, enc) {
				r.violate("canonical", "canonical/repeat-encode/"+tg.name, "two encodings of the same %s value differ: %x vs %x", tg.name, clipN(enc, 64), clipN(again, 64))
				return nil
			}
		}
		// the prefixed entry point must produce the same bytes as the
		// interface path for interface targets
		if tg.iface && v != nil {
			var wt []byte
			var err error
			_, _, _, p := try(func() { wt, err = ser.EncodeToBytesWithType(v) })
			if !p && err == nil && !bytes.Equal(wt, enc) {
				r.violate("canonical", "canonical/withtype-vs-interface/"+tg.name, "EncodeToBytesWithType(%T) = %x but as interface field %x", v, clipN(wt, 64), clipN(enc, 64))
				return nil
			}
		}
	}
	r.nRound++
	r.perType[tg.name]++
	c.Evals(1)
	// decode through the whole-buffer entry point
	o := r.decode(eBytes, tg, enc, nil, 0, src)
	if r.stop || o.panicked {
		return enc
	}
	if !o.ok {
		var err error
		ptr := tg.dest().Interface()
		try(func() { err = ser.DecodeBytes(enc, ptr) })
		r.violate("roundtrip", "roundtrip/"+tg.name+"/decode-error", "a valid %s encoding (%s) does not decode: %v; bytes %x", tg.name, src, err, clipN(enc, 96))
		return enc
	}
	v2 := tg.inner(o.dst)
	re, what := r.encode(tg, v2)
	if what != "" {
		r.violate("roundtrip", "roundtrip/"+tg.name+"/reencode-fails", "decoded %s value (%s) cannot be encoded again (%s); bytes %x", tg.name, src, what, clipN(enc, 96))
		return enc
	}
	if !bytes.Equal(re, enc) {
		r.violate("roundtrip", "roundtrip/"+tg.name+"/reencode-differs", "encode(decode(b)) != b for %s (%s): b=%x re=%x", tg.name, src, clipN(enc, 96), clipN(re, 96))
		return enc
	}
	if hand == nil {
		if d := equalWire(reflect.ValueOf(tg.form(v)), o.dst, tg.name); d != "" {
			r.violate("roundtrip", "roundtrip/"+tg.name+"/value-differs", "decode(encode(v)) != v for %s (%s) at %s", tg.name, src, d)
			return enc
		}
	}
	// concrete registered types also travel with their own prefix
	// (EncodeToBytesWithType / DecodeBytesWithType): prefix + the same body
	if !tg.iface && hand == nil {
		var wt []byte
		var err error
		if _, _, _, p := try(func() { wt, err = ser.EncodeToBytesWithType(v) }); !p && err == nil && len(wt) != len(enc) {
			if len(wt) != len(enc)+7 || !bytes.Equal(wt[7:], enc) {
				r.violate("canonical", "canonical/withtype-body/"+tg.name, "EncodeToBytesWithType(%s) is not prefix+plain encoding: %x vs %x", tg.name, clipN(wt, 64), clipN(enc, 64))
			} else if ow := r.decode(eBytesWT, tg, wt, nil, 0, src); !ow.panicked {
				if rw, _ := r.encode(tg, tg.inner(ow.dst)); !ow.ok || !bytes.Equal(rw, enc) {
					r.violate("roundtrip", "roundtrip/"+tg.name+"/withtype", "DecodeBytesWithType(EncodeToBytesWithType(v)) != v for %s (ok=%v)", tg.name, ow.ok)
				} else {
					r.c.Probe("withtype-roundtrip")
				}
			}
		}
	}
	// the same through a stream entry point with short reads
	lim := int64(len(enc))
	if r.read.Bool(1, 2) {
		lim += int64(r.read.Int(1 << 16))
	}
	rd, sr := newShort(r.read, enc)
	os := r.decode(eReader, tg, enc, rd, lim, src)
	if r.stop || os.panicked {
		return enc
	}
	if !os.ok {
		r.violate("stream", streamKey(sr, "DecodeReader", "valid-rejected"), "DecodeReader with short reads (final data with EOF: %v) rejects a valid %s encoding that DecodeBytes accepts (%d bytes, limit %d)", sr.eofWithData, tg.name, len(enc), lim)
		return enc
	}
	if rs, _ := r.encode(tg, tg.inner(os.dst)); !bytes.Equal(rs, enc) {
		r.violate("stream", streamKey(sr, "DecodeReader", "value-differs"), "(final data with EOF: %v) DecodeReader with short reads decodes a valid %s encoding (%d bytes, limit %d) to a different value WITHOUT an error: first difference at %s", sr.eofWithData, tg.name, len(enc), lim, equalWire(o.dst, os.dst, tg.name))
		return enc
	}
	if os.n != int64(len(enc)) {
		r.violate("stream", "stream-mismatch/DecodeReader/consumed", "DecodeReader reports %d bytes consumed for a %d-byte %s encoding", os.n, len(enc), tg.name)
	}
	return enc
}

// ---------------------------------------------------------------- faults

// hostile offers faulty bytes to one or two entry points and applies the
// oracles that make sense for arbitrary input.
func (r *runner) hostile(tg *target, b []byte, kind string) {
	c := r.c
	f := r.fault
	c.Fault(kind)
	r.nFault++
	c.Evals(1)
	if tg.maxMsg > 0 && len(b) > tg.maxMsg {
		return
	}
	entry := f.Pick(5, 3, 1, 1, 4, 2)
	var o outcome
	switch entry {
	case eReader, eReaderWT:
		lim := int64(len(b))
		switch f.Int(4) {
		case 0:
			lim += int64(1 + f.Int(64))
		case 1:
			lim = 1 << 20
		case 2:
			if lim > 1 {
				lim -= int64(1 + f.Int(int(minInt(int(lim-1), 8)))) // limit below the data: early end
			}
		}
		if lim <= 0 {
			lim = 1
		}
		rd, sr := newShort(r.read, b)
		o = r.decode(entry, tg, b, rd, lim, kind)
		if r.stop || o.panicked {
			return
		}
		// same bytes, same limit, complete reader
		w := r.decode(entry, tg, b, bytes.NewReader(b), lim, kind)
		if r.stop || w.panicked {
			return
		}
		if o.ok != w.ok {
			r.violate("stream", streamKey(sr, entryNames[entry], "ok-differs"), "%s into %s: short-read reader (final data with EOF: %v) ok=%v, whole-buffer reader ok=%v (limit %d, %s: %x)", entryNames[entry], tg.name, sr.eofWithData, o.ok, w.ok, lim, kind, clipN(b, 96))
			return
		}
		if o.ok {
			e1, w1 := r.encode(tg, tg.inner(o.dst))
			e2, w2 := r.encode(tg, tg.inner(w.dst))
			if w1 != w2 || !bytes.Equal(e1, e2) {
				r.violate("stream", streamKey(sr, entryNames[entry], "value-differs"), "%s into %s: short-read (final data with EOF: %v) and whole-buffer results differ (%s: %x)", entryNames[entry], tg.name, sr.eofWithData, kind, clipN(b, 96))
				return
			}
		}
	default:
		o = r.decode(entry, tg, b, nil, 0, kind)
		if r.stop || o.panicked {
			return
		}
	}
	c.Finger(kind, o.ok)
	if !o.ok {
		return
	}
	r.nPenetrated++
	c.Probe("faulty-input-decoded")
	// a value came out: it is a value of a registered type, so it must
	// re-encode to a fixpoint of decode/encode
	v := tg.inner(o.dst)
	e1, what := r.encode(tg, v)
	if what != "" {
		c.Probe("decoded-value-" + what + "-on-reencode")
		return
	}
	d := r.decode(eBytes, tg, e1, nil, 0, "reencoded:"+kind)
	if r.stop || d.panicked {
		return
	}
	if !d.ok {
		r.violate("fixpoint", "fixpoint/"+tg.name+"/reencoded-rejected", "a %s value decoded from faulty input (%s) encodes to bytes the decoder rejects: %x", tg.name, kind, clipN(e1, 96))
		return
	}
	e2, what2 := r.encode(tg, tg.inner(d.dst))
	if what2 != "" || !bytes.Equal(e1, e2) {
		r.violate("fixpoint", "fixpoint/"+tg.name+"/not-canonical", "a %s value decoded from faulty input (%s) is not a fixpoint: %x then %x", tg.name, kind, clipN(e1, 96), clipN(e2, 96))
	}
}

func (r *runner) faults(tg *target, enc []byte, n int) {
	f := r.fault
	for i := 0; i < n && !r.stop; i++ {
		var b []byte
		var kind string
		switch f.Pick(10, 6, 1) {
		case 0:
			b, kind = structFault(f, enc, tg.name == "state.Account")
			if f.Bool(1, 6) {
				r.c.Fault(kind)
				b, kind = byteFault(f, b)
			}
		case 1:
			b, kind = byteFault(f, enc)
		default:
			// the valid encoding delivered to the wrong decoder
			other := pickTarget(f)
			if other.noForeign {
				other = tg
			}
			r.hostile(other, enc, "cross-type")
			continue
		}
		r.hostile(tg, b, kind)
	}
}

func pickTarget(t *kernel.Tape) *target {
	w := make([]int, len(targets))
	for i, tg := range targets {
		w[i] = tg.weight
	}
	return targets[t.Pick(w...)]
}

// ---------------------------------------------------------------- WAL stream

func (r *runner) walSection() {
	c := r.c
	g := r.gen
	k := 1 + g.Int(5)
	var buf bytes.Buffer
	enc := consensus.NewWALEncoder(&buf)
	var msgs []*consensus.TimedWALMessage
	var single [][]byte
	for i := 0; i < k; i++ {
		m := timedWAL(g)
		var err error
		site, class, _, p := try(func() { err = enc.Encode(m) })
		if p || err != nil {
			c.Probe("encode-panic/" + site + "/" + class)
			return
		}
		bz, _ := ser.EncodeToBytes(m)
		single = append(single, bz)
		msgs = append(msgs, m)
	}
	clean := append([]byte{}, buf.Bytes()...)
	type rec struct {
		ok  bool
		enc []byte
	}
	readAll := func(rd io.Reader, in []byte, origin string) ([]rec, bool) {
		dec := consensus.NewWALDecoder(rd)
		var out []rec
		for i := 0; i < k+3; i++ {
			var m *consensus.TimedWALMessage
			var err error
			c.Event(1)
			runtime.ReadMemStats(&r.ms0)
			site, class, msg, p := try(func() { m, err = dec.Decode() })
			runtime.ReadMemStats(&r.ms1)
			if p {
				r.violate("panic", "panic/"+site+"/"+class, "WALDecoder.Decode panicked at %s: %s (%s, %d bytes)", site, msg, origin, len(in))
				return out, false
			}
			if a := r.ms1.TotalAlloc - r.ms0.TotalAlloc; a > uint64(allocFactor*len(in)+allocSlack) {
				r.violate("alloc", "alloc-bomb/consensus.WALDecoder", "WALDecoder.Decode allocated %d bytes on a %d-byte log (%s)", a, len(in), origin)
			}
			if err != nil {
				out = append(out, rec{ok: false})
				break
			}
			bz, _ := ser.EncodeToBytes(m)
			out = append(out, rec{ok: true, enc: bz})
		}
		return out, true
	}
	same := func(a, b []rec) bool {
		if len(a) != len(b) {
			return false
		}
		for i := range a {
			if a[i].ok != b[i].ok || !bytes.Equal(a[i].enc, b[i].enc) {
				return false
			}
		}
		return true
	}
	// clean log: every record comes back, equal
	whole, okk := readAll(bytes.NewReader(clean), clean, "clean log")
	if !okk || r.stop {
		return
	}
	c.Evals(1)
	if len(whole) != k+1 || whole[k].ok {
		r.violate("roundtrip", "roundtrip/consensus.WALDecoder/record-count", "a clean WAL of %d records decodes to %d results", k, len(whole))
		return
	}
	for i := 0; i < k; i++ {
		if !whole[i].ok || !bytes.Equal(whole[i].enc, single[i]) {
			r.violate("roundtrip", "roundtrip/consensus.WALDecoder/record-differs", "WAL record %d of %d does not come back equal", i, k)
			return
		}
	}
	_ = msgs
	r.nRound++
	srd, _ := newShort(r.read, clean)
	short, okk := readAll(srd, clean, "clean log, short reads")
	if !okk || r.stop {
		return
	}
	c.Evals(1)
	c.Fault("wal-short-read")
	if !same(whole, short) {
		r.violate("stream", "stream-mismatch/consensus.WALDecoder/short-read", "WALDecoder over a reader with short reads does not return what it returns over the whole buffer (clean log of %d records, %d bytes): %d vs %d results", k, len(clean), len(short), len(whole))
	}
	// damaged logs
	f := r.fault
	for i, nf := 0, 2+f.Int(6); i < nf && !r.stop; i++ {
		b := append([]byte{}, clean...)
		kind := ""
		switch f.Pick(3, 3, 2, 2) {
		case 0:
			b, kind = byteFault(f, b)
		case 1: // length field of a frame
			off := frameOffset(clean, f.Int(k))
			v := []uint32{0, 1, 0x7fffffff, 0xffffffff, 1 << 20, 1<<20 + 1, uint32(len(clean))}[f.Int(7)]
			b[off+4], b[off+5], b[off+6], b[off+7] = byte(v>>24), byte(v>>16), byte(v>>8), byte(v)
			kind = "wal-frame-len"
		case 2: // checksum
			off := frameOffset(clean, f.Int(k))
			b[off+f.Int(4)] ^= byte(1 << uint(f.Int(8)))
			kind = "wal-frame-crc"
		default:
			b = b[:f.Int(len(b))]
			kind = "wal-truncate"
		}
		kind = "wal/" + kind
		c.Fault(kind)
		r.nFault++
		c.Evals(1)
		w, ok1 := readAll(bytes.NewReader(b), b, kind)
		if !ok1 || r.stop {
			return
		}
		srd2, _ := newShort(r.read, b)
		s, ok2 := readAll(srd2, b, kind+", short reads")
		if !ok2 || r.stop {
			return
		}
		c.Finger(kind, len(w))
		if !same(w, s) {
			r.violate("stream", "stream-mismatch/consensus.WALDecoder/short-read", "WALDecoder over a reader with short reads differs from whole-buffer decoding (%s, %d bytes)", kind, len(b))
		}
	}
}

func frameOffset(log []byte, i int) int {
	off := 0
	for ; i > 0 && off+8 <= len(log); i-- {
		l := int(log[off+4])<<24 | int(log[off+5])<<16 | int(log[off+6])<<8 | int(log[off+7])
		if off+8+l+8 > len(log) {
			break
		}
		off += 8 + l
	}
	return off
}

// ---------------------------------------------------------------- map order

func (r *runner) mapOrder() {
	g := r.gen
	tg := targetByName("state.Account")
	p := r.fil.New(tg.typ) // *state.Account
	mf := p.Elem().FieldByName("Tokens")
	n := 2 + g.Int(10)
	type kv struct{ k, v reflect.Value }
	var kvs []kv
	dup := map[string]bool{}
	for i := 0; i < n; i++ {
		k := reflect.New(mf.Type().Key()).Elem()
		kb := g.Bytes(20)
		if g.Bool(1, 3) {
			// keys differing in one late byte only
			for j := 0; j < 19; j++ {
				kb[j] = 0xAB
			}
		}
		if dup[string(kb)] {
			continue // equal keys would make insertion order matter legitimately
		}
		dup[string(kb)] = true
		reflect.Copy(k, reflect.ValueOf(kb))
		kvs = append(kvs, kv{k, reflect.ValueOf(valgen.Big(g))})
	}
	build := func(order []int) interface{} {
		cp := reflect.New(tg.typ)
		cp.Elem().Set(p.Elem())
		m := reflect.MakeMap(mf.Type())
		for _, i := range order {
			m.SetMapIndex(kvs[i].k, kvs[i].v)
		}
		cp.Elem().FieldByName("Tokens").Set(m)
		return cp.Interface()
	}
	n = len(kvs)
	order := make([]int, n)
	for i := range order {
		order[i] = i
	}
	first, what := r.encode(tg, build(order))
	if what != "" {
		return
	}
	r.c.Evals(1)
	for rep := 0; rep < 6; rep++ {
		g.Shuffle(n, func(i, j int) { order[i], order[j] = order[j], order[i] })
		// insert, delete and re-insert some keys too: equal maps, different history
		v := build(order)
		again, _ := r.encode(tg, v)
		if !bytes.Equal(first, again) {
			r.violate("canonical", "canonical/map-order/state.Account", "equal accounts whose token maps were filled in different orders encode differently: %x vs %x", clipN(first, 80), clipN(again, 80))
			return
		}
	}
	r.c.Probe("map-order-checked")
	r.roundTrip(tg, build(order), nil, "map-order")
	if enc, _ := r.encode(tg, build(order)); enc != nil && !r.stop {
		r.faults(tg, enc, 6)
	}
}

func targetByName(n string) *target {
	for _, tg := range targets {
		if tg.name == n {
			return tg
		}
	}
	panic("serrig: no target " + n)
}

// ---------------------------------------------------------------- run

func run(c *kernel.Ctx) {
	cfg := c.Tape.Fork("cfg")
	r := &runner{c: c, gen: c.Tape.Fork("gen"), fault: c.Tape.Fork("fault"), read: c.Tape.Fork("read"), perType: map[string]int{}, seen: map[string]bool{}}
	r.fil = newFiller(r.gen)
	r.real = newFiller(r.gen)
	r.real.NoNil = true

	nvals := 6 + cfg.Int(9)
	faultsPer := 8 + cfg.Int(25)
	if c.Tier == kernel.Thorough {
		nvals = 10 + cfg.Int(21)
		faultsPer = 16 + cfg.Int(49)
	}
	wSrc := []int{4 + cfg.Int(5), 2 + cfg.Int(5), 1 + cfg.Int(3)} // realistic, corner, hand-made

	var good []goodEnc
	for i := 0; i < nvals && !r.stop; i++ {
		tg := pickTarget(cfg)
		var v interface{}
		var hand []byte
		src := ""
		r.fil.Budget, r.real.Budget = 3000, 3000
		switch s := cfg.Pick(wSrc...); {
		case s == 2 && tg.handmade != nil:
			hand = tg.handmade(r.gen)
			src = "hand-made"
		case s == 1 || (tg.realistic == nil && s != 0):
			src = "corner"
			if tg.iface {
				impls := r.fil.Impl[tg.typ]
				if len(impls) == 0 {
					hand, src = tg.handmade(r.gen), "hand-made"
				} else if r.gen.Bool(1, 10) {
					v = nil // nil interface
				} else {
					v = impls[r.gen.Int(len(impls))](r.fil, 1).Interface()
				}
			} else {
				v = r.fil.New(tg.typ).Interface()
			}
		default:
			src = "realistic"
			switch {
			case tg.realistic != nil:
				v = tg.realistic(r.gen, r.real)
			case tg.handmade != nil:
				hand, src = tg.handmade(r.gen), "hand-made"
			default:
				v = r.real.New(tg.typ).Interface()
			}
		}
		enc := r.roundTrip(tg, v, hand, src)
		if enc == nil || r.stop {
			continue
		}
		good = append(good, goodEnc{tg, enc})
		c.Finger(tg.name, src, len(enc), fnv64(enc))
		nf := faultsPer
		if len(enc) > 8192 {
			nf = nf/4 + 1
		}
		r.faults(tg, enc, nf)
	}
	if !r.stop && cfg.Bool(2, 3) {
		r.mapOrder()
	}
	if !r.stop && cfg.Bool(1, 2) {
		r.walSection()
	}
	// unstructured input
	for i, k := 0, 4+cfg.Int(12); i < k && !r.stop; i++ {
		if tg := pickTarget(r.fault); !tg.noForeign {
			r.hostile(tg, rawBytes(r.fault), "raw-bytes")
		}
	}
	// retention: encodings and decoded values held across later codec calls
	if !r.stop && cfg.Bool(3, 4) {
		r.retention(c.Tape.Fork("retain"), good)
	}
	// the raw splitter API and the trie node decoder
	if !r.stop {
		nraw := 10 + cfg.Int(20)
		if c.Tier == kernel.Thorough {
			nraw = 24 + cfg.Int(60)
		}
		var encs [][]byte
		for _, g := range good {
			if len(g.enc) <= 1<<16 {
				encs = append(encs, g.enc)
			}
		}
		r.rawPhase(encs, nraw)
	}
	if r.nFault >= 10 && r.nPenetrated >= 1 {
		c.NonTrivial()
	}
	names := make([]string, 0, len(r.perType))
	for k := range r.perType {
		names = append(names, k)
	}
	sort.Strings(names)
	c.Sample(map[string]interface{}{"values_round_tripped": r.nRound, "types": names, "faulty_inputs": r.nFault, "faulty_inputs_that_decoded": r.nPenetrated, "encodings_held_across_later_encodes": r.nRetained})
}
