package serrig

import (
	"testing"

	"github.com/lianxiangcloud/linkchain/libs/common"
	dbm "github.com/lianxiangcloud/linkchain/libs/db"
	"github.com/lianxiangcloud/linkchain/libs/trie"
)

func TestTmpTrie(t *testing.T) {
	root := common.HexToHash("0x1111111111111111111111111111111111111111111111111111111111111111")
	for _, blob := range [][]byte{{0xC2, 0x80, 0x80}, {0xC2, 0x20, 0x80}, {0xC2, 0x00, 0x80}, {0xC1, 0x80}} {
		func() {
			defer func() {
				if r := recover(); r != nil {
					t.Logf("PANIC %x: %v", blob, r)
				}
			}()
			s := trie.NewSync(root, dbm.NewMemDB(), nil)
			_, _, err := s.Process([]trie.SyncResult{{Hash: root, Data: blob}})
			t.Logf("%x: err=%v", blob, err)
		}()
	}
}
