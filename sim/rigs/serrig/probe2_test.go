package serrig

import (
	"bytes"
	"fmt"
	"math/big"
	"testing"

	"github.com/lianxiangcloud/linkchain/libs/common"
	"github.com/lianxiangcloud/linkchain/libs/ser"
	"github.com/lianxiangcloud/linkchain/state"
)

func TestProbeMapLens(t *testing.T) {
	acc := state.Account{Nonce: 1, Balance: big.NewInt(5), Tokens: map[common.Address]*big.Int{{1}: big.NewInt(7)}, CodeHash: []byte{1, 2}}
	bz := ser.MustEncodeToBytes(acc)
	for _, h := range []string{"60000", "-1", "-fffffff", "7fffffffffffffff", "-8000000000000000"} {
		top := parseItems(bz, 0)
		top[0].kids[3].kids[0].data = []byte(h)
		nb := serialize(nil, top)
		var out state.Account
		var err error
		var n uint64
		site, class, msg, p := try(func() { n = allocDuring(func() { err = ser.DecodeBytes(nb, &out) }) })
		fmt.Printf("%s: err=%v alloc=%d len=%d panic=%v %s %s %s\n", h, err, n, len(nb), p, site, class, msg)
	}
	_ = bytes.Equal
}
