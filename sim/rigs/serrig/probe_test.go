package serrig

import (
	"bytes"
	"fmt"
	"math/big"
	"runtime"
	"testing"

	"github.com/lianxiangcloud/linkchain/libs/common"
	"github.com/lianxiangcloud/linkchain/libs/ser"
	"github.com/lianxiangcloud/linkchain/mempool"
	"github.com/lianxiangcloud/linkchain/state"
	"github.com/lianxiangcloud/linkchain/types"
)

func allocDuring(f func()) uint64 {
	var a, b runtime.MemStats
	runtime.ReadMemStats(&a)
	f()
	runtime.ReadMemStats(&b)
	return b.TotalAlloc - a.TotalAlloc
}

func TestProbeMapBomb(t *testing.T) {
	acc := state.Account{Nonce: 1, Balance: big.NewInt(5), Tokens: map[common.Address]*big.Int{{1}: big.NewInt(7)}, CodeHash: []byte{1, 2}}
	bz := ser.MustEncodeToBytes(acc)
	fmt.Printf("acc %x\n", bz)
	// find the map list: after nonce, credits, balance
	idx := bytes.Index(bz, []byte{0x31}) // "1" length
	fmt.Println("idx", idx)
	// replace "1" (single byte 0x31) by 0x86 "200000"
	repl := append([]byte{0x86}, []byte("200000")...)
	nb := append(append(append([]byte{}, bz[:idx]...), repl...), bz[idx+1:]...)
	// fix list headers by hand: map list header at idx-1, outer at 0
	nb[idx-1] += 6
	nb[1] += 6
	var out state.Account
	var err error
	n := allocDuring(func() { err = ser.DecodeBytes(nb, &out) })
	fmt.Printf("decode err=%v alloc=%d len=%d\n", err, n, len(nb))
}

func TestProbeIfaceSwap(t *testing.T) {
	tx := types.NewTransaction(1, common.Address{2}, big.NewInt(3), 100000, nil, []byte("x"))
	var msg mempool.MempoolMessage = mempool.TxMessage{Tx: tx}
	bz := ser.MustEncodeToBytesWithType(msg)
	fmt.Printf("msg %x\n", bz)
	db, pb := ser.NameToDisfix(types.TxNormal)
	old := append(db[:], pb[:]...)
	i := bytes.Index(bz, old)
	db2, pb2 := ser.NameToDisfix("DuplicateVoteEvidence")
	nw := append(db2[:], pb2[:]...)
	nb := append([]byte{}, bz...)
	copy(nb[i:], nw)
	func() {
		defer func() {
			if r := recover(); r != nil {
				fmt.Printf("PANIC: %v\n", r)
			}
		}()
		var out mempool.MempoolMessage
		err := ser.DecodeBytesWithType(nb, &out)
		fmt.Printf("err=%v out=%T\n", err, out)
	}()
}
