package serrig

import (
	"encoding/binary"

	"github.com/lianxiangcloud/linkchain/libs/ser"

	"verif/sim/kernel"
)

// An independent, tolerant parser/serialiser of the wire format, used only to
// aim transport faults at structure (length fields, type prefixes, integer
// fields) instead of hoping that blind bit flips get past the first header.
// It is not an oracle: nothing is ever judged by it.

type nkind int

const (
	nStr    nkind = iota // string item (data = content)
	nList                // list item (kids)
	nPrefix              // 7 raw bytes naming a registered concrete type
	nRaw                 // bytes that did not parse; emitted verbatim
)

type node struct {
	kind nkind
	data []byte
	kids []*node
	// header faults applied at serialisation time
	lie      int64 // added to the declared payload length
	longForm bool  // non-canonical long-form header for a short payload
	padLen   bool  // leading zero byte in the length-of-length form
	wrap1    bool  // single byte < 0x80 wrapped as 0x81 xx
}

// registeredNames are the names under which concrete types are registered in
// the global codec by the packages linked into the check (types, crypto,
// consensus, blockchain, mempool, evidence, p2p/conn). A missing name only
// makes prefix faults a little less varied.
var registeredNames = []string{
	"tx", "txt", "mst", "cut", "utx",
	"UTXOInput", "AccountInput", "MineInput", "UTXOOutput", "AccountOutput",
	"DuplicateVoteEvidence", "FaultValidatorsEvidence", "MockGoodEvidence", "MockBadEvidence",
	"PubKeyEd25519", "PubKeySecp256k1", "PrivKeyEd25519", "PrivKeySecp256k1", "SignEd25519", "SignSecp256k1",
	"consensus/NewRoundStepMessage", "consensus/CommitStep", "consensus/Proposal", "consensus/ProposalPOL",
	"consensus/BlockPart", "consensus/Vote", "consensus/HasVote", "consensus/VoteSetMaj23", "consensus/VoteSetBits",
	"consensus/ProposalHeartbeat",
	"consensus/wal/EventDataRoundState", "consensus/wal/MsgInfo", "consensus/wal/TimeoutInfo", "consensus/wal/EndHeightMessage",
	"blockchain/BlockRequest", "blockchain/BlockResponse", "blockchain/NoBlockResponse", "blockchainl/StatusResponse", "blockchain/StatusRequest",
	"mempool/TxMessage", "mempool/TxHashMessage", "evidence/EvidenceListMessage",
	"p2p/PacketPing", "p2p/PacketPong", "p2p/PacketMsg",
	"event/NewBlock", "event/NewBlockHeader", "event/Log", "event/RoundState", "event/Vote", "event/ProposalHeartbeat", "event/ProposalString",
}

var (
	disfixes  [][]byte
	disfixSet = map[[7]byte]int{}
)

func init() {
	for i, n := range registeredNames {
		db, pb := ser.NameToDisfix(n)
		var k [7]byte
		copy(k[:3], db[:])
		copy(k[3:], pb[:])
		disfixes = append(disfixes, append([]byte{}, k[:]...))
		disfixSet[k] = i
	}
}

func disfixOf(name string) []byte {
	db, pb := ser.NameToDisfix(name)
	return append(append([]byte{}, db[:]...), pb[:]...)
}

// parseItems parses a payload into a sequence of nodes; whatever does not
// parse becomes one raw node.
func parseItems(b []byte, depth int) []*node {
	var out []*node
	for len(b) > 0 {
		if len(b) >= 7 {
			var k [7]byte
			copy(k[:], b[:7])
			if _, ok := disfixSet[k]; ok {
				out = append(out, &node{kind: nPrefix, data: append([]byte{}, b[:7]...)})
				b = b[7:]
				continue
			}
		}
		c := b[0]
		switch {
		case c < 0x80:
			out = append(out, &node{kind: nStr, data: []byte{c}})
			b = b[1:]
		case c < 0xB8:
			n := int(c - 0x80)
			if 1+n > len(b) {
				return append(out, &node{kind: nRaw, data: append([]byte{}, b...)})
			}
			out = append(out, &node{kind: nStr, data: append([]byte{}, b[1:1+n]...)})
			b = b[1+n:]
		case c < 0xC0:
			ll := int(c - 0xB7)
			n, ok := beLen(b[1:], ll)
			if !ok || 1+ll+n > len(b) || 1+ll+n < 0 {
				return append(out, &node{kind: nRaw, data: append([]byte{}, b...)})
			}
			out = append(out, &node{kind: nStr, data: append([]byte{}, b[1+ll:1+ll+n]...)})
			b = b[1+ll+n:]
		case c < 0xF8:
			n := int(c - 0xC0)
			if 1+n > len(b) {
				return append(out, &node{kind: nRaw, data: append([]byte{}, b...)})
			}
			nd := &node{kind: nList}
			if depth < 40 {
				nd.kids = parseItems(b[1:1+n], depth+1)
			} else {
				nd.kids = []*node{{kind: nRaw, data: append([]byte{}, b[1:1+n]...)}}
			}
			out = append(out, nd)
			b = b[1+n:]
		default:
			ll := int(c - 0xF7)
			n, ok := beLen(b[1:], ll)
			if !ok || 1+ll+n > len(b) || 1+ll+n < 0 {
				return append(out, &node{kind: nRaw, data: append([]byte{}, b...)})
			}
			nd := &node{kind: nList}
			if depth < 40 {
				nd.kids = parseItems(b[1+ll:1+ll+n], depth+1)
			} else {
				nd.kids = []*node{{kind: nRaw, data: append([]byte{}, b[1+ll:1+ll+n]...)}}
			}
			out = append(out, nd)
			b = b[1+ll+n:]
		}
	}
	return out
}

func beLen(b []byte, ll int) (int, bool) {
	if ll > len(b) || ll > 8 {
		return 0, false
	}
	var v uint64
	for i := 0; i < ll; i++ {
		v = v<<8 | uint64(b[i])
	}
	if v > 1<<30 {
		return 0, false
	}
	return int(v), true
}

func putHead(out []byte, small, large byte, n *node, plen int) []byte {
	decl := uint64(int64(plen) + n.lie)
	if int64(plen)+n.lie < 0 {
		decl = 0
	}
	if decl < 56 && !n.longForm && !n.padLen {
		return append(out, small+byte(decl))
	}
	var buf [8]byte
	binary.BigEndian.PutUint64(buf[:], decl)
	i := 0
	for i < 7 && buf[i] == 0 {
		i++
	}
	lb := buf[i:]
	if n.padLen && len(lb) < 8 {
		lb = append([]byte{0}, lb...)
	}
	out = append(out, large+byte(len(lb)))
	return append(out, lb...)
}

func serialize(out []byte, ns []*node) []byte {
	for _, n := range ns {
		switch n.kind {
		case nPrefix, nRaw:
			out = append(out, n.data...)
		case nStr:
			if len(n.data) == 1 && n.data[0] < 0x80 && n.lie == 0 && !n.longForm && !n.padLen {
				if n.wrap1 {
					out = append(out, 0x81)
				}
				out = append(out, n.data[0])
				continue
			}
			out = putHead(out, 0x80, 0xB7, n, len(n.data))
			out = append(out, n.data...)
		case nList:
			body := serialize(nil, n.kids)
			out = putHead(out, 0xC0, 0xF7, n, len(body))
			out = append(out, body...)
		}
	}
	return out
}

func collect(ns []*node, parent *node, f func(n, parent *node, idx int)) {
	for i, n := range ns {
		f(n, parent, i)
		if n.kind == nList {
			collect(n.kids, n, f)
		}
	}
}

func isHexInt(b []byte) bool {
	if len(b) == 0 || len(b) > 17 {
		return false
	}
	for i, c := range b {
		if c == '-' && i == 0 && len(b) > 1 {
			continue
		}
		if !(c >= '0' && c <= '9' || c >= 'a' && c <= 'f') {
			return false
		}
	}
	return true
}

var hostileInts = []string{"0", "1", "-1", "7f", "80", "ff", "100", "-80", "7fffffff", "80000000", "-80000000", "ffffffff",
	"7fffffffffffffff", "-8000000000000000", "8000000000000000", "ffffffffffffffffff", "00", "01", "-0", "+1", "0x1", "zz", "", "-", "3b9aca00", "3b9ac9ff"}

// mapLenBomb is the element count used when a fault rewrites what looks like
// a collection length: large enough that a decoder pre-allocating from it
// exceeds the allocation bound, small enough not to endanger the machine.
const mapLenBomb = "a0000" // 655360

// structFault applies one structure-aware fault to the parsed tree of an
// encoding and returns the faulty bytes and the fault's name.
//
// tame restricts rewritten integers to values that cannot make a decoder
// which pre-allocates from them (the map decoder does, see the known finding
// alloc-bomb/state.Account) ask for gigabytes: the defect is demonstrated
// with mapLenBomb; demonstrating it with 2^31 would take the machine down.
func structFault(t *kernel.Tape, enc []byte, tame bool) ([]byte, string) {
	top := parseItems(enc, 0)
	type ref struct {
		n, parent *node
		idx       int
	}
	var all, strs, lists, prefixes, hexes []ref
	collect(top, nil, func(n, p *node, i int) {
		r := ref{n, p, i}
		all = append(all, r)
		switch n.kind {
		case nStr:
			strs = append(strs, r)
			if isHexInt(n.data) {
				hexes = append(hexes, r)
			}
		case nList:
			lists = append(lists, r)
		case nPrefix:
			prefixes = append(prefixes, r)
		}
	})
	if len(all) == 0 {
		return enc, "none"
	}
	kidsOf := func(r ref) *[]*node {
		if r.parent == nil {
			return &top
		}
		return &r.parent.kids
	}
	name := "none"
	switch t.Pick(4*min1(len(prefixes)), 4*min1(len(hexes)), 3*min1(len(strs)), 3*min1(len(lists)), 3, 2, 2) {
	case 0: // type prefix swapped for another registered type
		r := prefixes[t.Int(len(prefixes))]
		switch t.Pick(6, 1, 1) {
		case 0:
			r.n.data = append([]byte{}, disfixes[t.Int(len(disfixes))]...)
			name = "prefix-swap"
		case 1:
			r.n.data = []byte{0x00} // the nil-interface marker, rest left in place
			r.n.kind = nRaw
			name = "prefix-nil"
		default:
			r.n.data = append([]byte{}, r.n.data...)
			r.n.data[t.Int(7)] ^= byte(1 << uint(t.Int(8)))
			name = "prefix-flip"
		}
	case 1: // integer field (hex text) rewritten
		r := hexes[t.Int(len(hexes))]
		if t.Bool(1, 5) {
			r.n.data = []byte(mapLenBomb)
			name = "int-len-bomb"
		} else {
			h := hostileInts[t.Int(len(hostileInts))]
			if tame && len(h) >= 6 && len(h) <= 9 {
				h = "-" + h[1:]
			}
			r.n.data = []byte(h)
			name = "int-edit"
		}
	case 2: // string content resized / replaced
		r := strs[t.Int(len(strs))]
		switch t.Pick(2, 2, 2, 1, 1) {
		case 0:
			if len(r.n.data) > 0 {
				r.n.data = r.n.data[:t.Int(len(r.n.data))]
			}
			name = "str-shrink"
		case 1:
			r.n.data = append(append([]byte{}, r.n.data...), t.Bytes(1+t.Int(40))...)
			name = "str-grow"
		case 2:
			r.n.data = t.Bytes([]int{0, 1, 8, 9, 20, 32, 33, 55, 56, 64, 65}[t.Int(11)])
			name = "str-replace"
		case 3:
			r.n.kind, r.n.kids, r.n.data = nList, nil, nil
			name = "str-to-list"
		default:
			r.n.wrap1 = true
			if len(r.n.data) != 1 || r.n.data[0] >= 0x80 {
				r.n.data = []byte{byte(t.Int(0x80))}
			}
			name = "str-noncanon-byte"
		}
	case 3: // list shape
		r := lists[t.Int(len(lists))]
		k := &r.n.kids
		switch t.Pick(2, 2, 2, 1, 1, 1) {
		case 0:
			if len(*k) > 0 {
				i := t.Int(len(*k))
				*k = append((*k)[:i:i], (*k)[i+1:]...)
			}
			name = "list-drop"
		case 1:
			if len(*k) > 0 {
				i := t.Int(len(*k))
				cp := append([]*node{}, (*k)[:i+1]...)
				cp = append(cp, (*k)[i:]...)
				*k = cp
			} else {
				*k = append(*k, &node{kind: nStr, data: t.Bytes(t.Int(4))})
			}
			name = "list-dup"
		case 2:
			if len(*k) > 1 {
				i, j := t.Int(len(*k)), t.Int(len(*k))
				(*k)[i], (*k)[j] = (*k)[j], (*k)[i]
			}
			name = "list-swap"
		case 3:
			*k = nil
			name = "list-empty"
		case 4:
			body := serialize(nil, *k)
			r.n.kind, r.n.kids, r.n.data = nStr, nil, body
			name = "list-to-str"
		default:
			o := all[t.Int(len(all))]
			*k = append(*k, clone(o.n)) // a copy: grafting the node itself could make a cycle
			name = "list-graft"
		}
	case 4: // a header that lies about its length
		r := all[t.Int(len(all))]
		if r.n.kind == nPrefix || r.n.kind == nRaw {
			r = all[0]
		}
		// Sizes: beyond the enclosing item by a little, by 32 MiB..256 MiB (a
		// decoder believing them is reported through the allocation bound
		// without hurting the machine) and 2^62 (reported through the
		// makeslice panic). Nothing in between: a decoder that believed 2^40
		// would die of a fatal out-of-memory error - a crash of the check, not
		// a verdict.
		r.n.lie = []int64{1, -1, 2, -2, 55, 56, 255, 256, 65536, 1 << 24, 1 << 25, 1 << 26, 1 << 28, 1 << 62, -1 << 20}[t.Int(15)]
		name = "len-lie"
	case 5: // non-canonical header forms
		r := all[t.Int(len(all))]
		if t.Bool(1, 2) {
			r.n.longForm = true
			name = "len-longform"
		} else {
			r.n.padLen = true
			name = "len-padded"
		}
	default: // delete / duplicate an item anywhere, at top level too
		r := all[t.Int(len(all))]
		k := kidsOf(r)
		if t.Bool(1, 2) && len(*k) > 0 {
			*k = append((*k)[:r.idx:r.idx], (*k)[r.idx+1:]...)
			name = "item-drop"
		} else {
			cp := append([]*node{}, (*k)[:r.idx+1]...)
			cp = append(cp, (*k)[r.idx:]...)
			*k = cp
			name = "item-dup"
		}
	}
	return serialize(nil, top), name
}

func clone(n *node) *node {
	c := *n
	c.data = append([]byte{}, n.data...)
	c.kids = nil
	for _, k := range n.kids {
		c.kids = append(c.kids, clone(k))
	}
	return &c
}

func min1(n int) int {
	if n > 0 {
		return 1
	}
	return 0
}

// byteFault applies one blind transport fault.
func byteFault(t *kernel.Tape, enc []byte) ([]byte, string) {
	b := append([]byte{}, enc...)
	switch t.Pick(4, 3, 2, 2, 1) {
	case 0:
		if len(b) == 0 {
			return b, "flip"
		}
		for i, k := 0, 1+t.Int(3); i < k; i++ {
			b[t.Int(len(b))] ^= byte(1 << uint(t.Int(8)))
		}
		return b, "flip"
	case 1:
		if len(b) == 0 {
			return b, "truncate"
		}
		// bias towards the two ends
		var cut int
		switch t.Int(3) {
		case 0:
			cut = t.Int(minInt(len(b), 12))
		case 1:
			cut = len(b) - 1 - t.Int(minInt(len(b), 12))
		default:
			cut = t.Int(len(b))
		}
		return b[:cut], "truncate"
	case 2:
		if len(b) == 0 {
			return b, "byte-set"
		}
		b[t.Int(len(b))] = []byte{0x00, 0x7f, 0x80, 0x81, 0xb7, 0xb8, 0xbb, 0xbf, 0xc0, 0xc1, 0xf7, 0xf8, 0xfb, 0xff}[t.Int(14)]
		return b, "byte-set"
	case 3:
		return append(b, t.Bytes(1+t.Int(16))...), "append"
	default:
		if len(b) < 2 {
			return b, "splice"
		}
		i := t.Int(len(b))
		j := i + t.Int(len(b)-i)
		return append(b[:i:i], b[j:]...), "splice"
	}
}

func minInt(a, b int) int {
	if a < b {
		return a
	}
	return b
}

// rawBytes draws unstructured input biased towards header bytes.
func rawBytes(t *kernel.Tape) []byte {
	n := t.Int(96)
	b := t.Bytes(n)
	hdr := []byte{0x00, 0x80, 0x81, 0xb7, 0xb8, 0xb9, 0xbf, 0xc0, 0xc1, 0xc8, 0xf7, 0xf8, 0xf9, 0xff, '0', '-', 'f'}
	for i := range b {
		if t.Bool(1, 3) {
			b[i] = hdr[t.Int(len(hdr))]
		}
	}
	if n >= 7 && t.Bool(1, 2) {
		copy(b[t.Int(n-6):], disfixes[t.Int(len(disfixes))])
	}
	return b
}
