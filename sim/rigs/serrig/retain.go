package serrig

import (
	"bytes"
	"io"
	"reflect"
	"runtime"

	"github.com/lianxiangcloud/linkchain/libs/ser"

	"verif/sim/kernel"
	"verif/sim/rigs/valgen"
)

// The retention dimension of the round-trip phase. An encoding handed out by
// the codec belongs to the caller (the state trie keeps the slices
// state_object.updateTrie gives it, the reactors queue them, the stores batch
// them): it has to stay the encoding of its value whatever is encoded or
// decoded afterwards. Likewise a decoded value must not change when the input
// buffer is reused: neither DecodeBytes nor the Stream decoders document that
// results alias their input (only Split does, and is not judged here).
//
// The scenario runs on one P: the codec's buffer pool is per P, so with one P
// the next encode - on this or on another goroutine - deterministically gets
// the buffer the previous one gave back.

const (
	reToBytes = iota
	reMust
	reWithType
	reMustWithType
	reReader
	numRetEntries
)

var retEntryNames = [...]string{"EncodeToBytes", "MustEncodeToBytes", "EncodeToBytesWithType", "MustEncodeToBytesWithType", "EncodeToReader"}

type goodEnc struct {
	tg  *target
	enc []byte
}

type keptEnc struct {
	entry     int
	typ       string
	obj       interface{}
	enc, snap []byte    // the slice the codec returned, and the private copy taken at once
	rd        io.Reader // EncodeToReader: the reader is what is kept
	size      int
	baseOK    bool // decode(snap) at return time
	baseRe    []byte
	ttl       int
}

// retEncode calls one slice-returning entry point.
func retEncode(entry int, obj interface{}) (bz []byte, ok bool) {
	var err error
	_, _, _, p := try(func() {
		switch entry {
		case reToBytes, reReader:
			bz, err = ser.EncodeToBytes(obj)
		case reMust:
			bz = ser.MustEncodeToBytes(obj)
		case reWithType:
			bz, err = ser.EncodeToBytesWithType(obj)
		case reMustWithType:
			bz = ser.MustEncodeToBytesWithType(obj)
		}
	})
	return bz, !p && err == nil
}

// redecode decodes enc into a fresh value of obj's type through the matching
// decoder and encodes that value again (a private copy).
func redecode(entry int, obj interface{}, enc []byte) (ok bool, re []byte) {
	rt := reflect.TypeOf(obj)
	if rt == nil {
		return false, nil
	}
	_, _, _, p := try(func() {
		var ptr reflect.Value
		var back func() interface{}
		if rt.Kind() == reflect.Ptr {
			ptr = reflect.New(rt.Elem())
			back = func() interface{} { return ptr.Interface() }
		} else {
			ptr = reflect.New(rt)
			back = func() interface{} { return ptr.Elem().Interface() }
		}
		var err error
		withType := entry == reWithType || entry == reMustWithType
		if withType {
			err = ser.DecodeBytesWithType(enc, ptr.Interface())
		} else {
			err = ser.DecodeBytes(enc, ptr.Interface())
		}
		if err != nil {
			return
		}
		var bz []byte
		if withType {
			bz, err = ser.EncodeToBytesWithType(back())
		} else {
			bz, err = ser.EncodeToBytes(back())
		}
		if err != nil {
			return
		}
		ok, re = true, append([]byte{}, bz...)
	})
	if p {
		return false, nil
	}
	return
}

var retLens = []int{0, 1, 2, 8, 20, 32, 33, 55, 56, 57, 100, 300}

// flatValue draws a value whose encoding has no list structure.
func flatValue(t *kernel.Tape) (interface{}, string) {
	switch t.Pick(4, 1, 1, 3, 4, 2, 2, 3, 1, 2, 1) {
	case 0:
		return valgen.U64(t), "uint64"
	case 1:
		return uint32(valgen.UBits(t, 32)), "uint32"
	case 2:
		return uint8(valgen.UBits(t, 8)), "uint8"
	case 3:
		return string(t.Bytes(retLens[t.Int(len(retLens))])), "string"
	case 4:
		return t.Bytes(retLens[t.Int(len(retLens))]), "[]byte"
	case 5:
		return valgen.Hash(t), "common.Hash"
	case 6:
		return valgen.Address(t), "common.Address"
	case 7:
		return valgen.Big(t), "*big.Int"
	case 8:
		return t.Bool(1, 2), "bool"
	case 9:
		// a precomputed encoding, spliced in verbatim
		return ser.RawValue(wrapItem(false, t.Bytes(retLens[t.Int(len(retLens))]))), "ser.RawValue"
	default:
		return valgen.I64(t), "int64"
	}
}

// retValue draws the next value to encode: flat or structured.
func (r *runner) retValue(t *kernel.Tape, flatOdds int) (obj interface{}, typ string, registered bool) {
	if t.Bool(flatOdds, 10) {
		if t.Bool(1, 6) {
			// flat AND registered: a key or signature travels as prefix + string
			if t.Bool(1, 2) {
				return valgen.PubKey(t), "crypto.PubKey(concrete)", true
			}
			return valgen.Signature(t), "crypto.Signature(concrete)", true
		}
		v, typ := flatValue(t)
		return v, typ, false
	}
	for attempt := 0; attempt < 4; attempt++ {
		tg := pickTarget(t)
		if tg.realistic == nil {
			continue
		}
		r.real.Budget = 3000
		v := tg.realistic(t, r.real)
		if tg.iface {
			return v, tg.name, true
		}
		return v, tg.name, false
	}
	return []uint64{valgen.U64(t), valgen.U64(t), 3}, "[]uint64", false
}

func (r *runner) retention(t *kernel.Tape, good []goodEnc) {
	c := r.c
	defer runtime.GOMAXPROCS(runtime.GOMAXPROCS(1))
	// a node that has been up for a while: the pooled buffers have seen large values
	ser.Encode(io.Discard, make([]byte, 4096))

	var live []*keptEnc
	check := func(k *keptEnc) {
		c.Evals(1)
		name := retEntryNames[k.entry]
		key := "encoding-aliased-and-overwritten/" + name + "/" + k.typ
		if k.entry == reReader {
			got, err := io.ReadAll(k.rd)
			if err != nil || len(got) != k.size || !bytes.Equal(got, k.snap) {
				r.violate("retention", key, "the reader EncodeToReader(%s) returned, read after other values were encoded, yields %x (err %v, announced size %d); the encoding is %x", k.typ, clipN(got, 64), err, k.size, clipN(k.snap, 64))
			}
			return
		}
		if !bytes.Equal(k.enc, k.snap) {
			r.violate("retention", key, "the slice %s(%s) returned has changed under its holder after later, unrelated encodes: was %x, is now %x", name, k.typ, clipN(k.snap, 64), clipN(k.enc, 64))
			return
		}
		if ok, re := redecode(k.entry, k.obj, k.enc); ok != k.baseOK || !bytes.Equal(re, k.baseRe) {
			r.violate("retention", key, "the slice %s(%s) returned no longer decodes to the value it decoded to when it was returned (then ok=%v %x, now ok=%v %x)", name, k.typ, k.baseOK, clipN(k.baseRe, 64), ok, clipN(re, 64))
		}
	}
	// tick: one more encode has happened since the live slices were returned
	tick := func() {
		kept := live[:0]
		for _, k := range live {
			if k.ttl--; k.ttl <= 0 {
				check(k)
			} else {
				kept = append(kept, k)
			}
		}
		live = kept
	}
	disturb := func() {
		c.Fault("retain/later-encode")
		switch t.Pick(3, 2, 3, 2, 2, 1, 1) {
		case 0: // same Go type and size as something held
			if len(live) > 0 {
				k := live[t.Int(len(live))]
				if b, ok := k.obj.([]byte); ok {
					retEncode(reToBytes, t.Bytes(len(b)))
					break
				}
				if s, ok := k.obj.(string); ok {
					retEncode(reToBytes, string(t.Bytes(len(s))))
					break
				}
			}
			retEncode(reToBytes, ^valgen.U64(t))
		case 1:
			v, _ := flatValue(t)
			retEncode(t.Int(reReader), v)
		case 2:
			v, _, reg := r.retValue(t, 0)
			if reg {
				retEncode(reWithType, v)
			} else {
				retEncode(reToBytes, v)
			}
		case 3: // the writer entry point uses the same pool
			v, _ := flatValue(t)
			try(func() { ser.Encode(io.Discard, v) })
		case 4: // another goroutine on the same P
			v, _ := flatValue(t)
			w := valgen.AnyVote(t)
			done := make(chan struct{})
			go func() {
				defer close(done)
				retEncode(reToBytes, v)
				retEncode(reToBytes, w)
			}()
			<-done
			c.Probe("retain-encode-on-other-goroutine")
		case 5: // a reader drained to EOF gives its buffer back
			v, _ := flatValue(t)
			try(func() {
				if _, rd, err := ser.EncodeToReader(v); err == nil {
					io.Copy(io.Discard, rd)
				}
			})
		default: // a decode in between
			if len(good) > 0 {
				g := good[t.Int(len(good))]
				try(func() { ser.DecodeBytes(g.enc, g.tg.dest().Interface()) })
			}
		}
		tick()
	}

	n := 4 + t.Int(10)
	if c.Tier == kernel.Thorough {
		n = 8 + t.Int(24)
	}
	flatOdds := 4 + t.Int(6)
	for i := 0; i < n && !r.stop; i++ {
		obj, typ, registered := r.retValue(t, flatOdds)
		entry := t.Pick(6, 2, 3, 1, 1)
		if registered && entry != reReader {
			entry = reWithType + entry&1
		}
		k := &keptEnc{entry: entry, typ: typ, obj: obj, ttl: 2 + t.Int(7)}
		var ok bool
		if k.enc, ok = retEncode(entry, obj); !ok {
			c.Probe("retain-unencodable")
			continue
		}
		k.snap = append([]byte{}, k.enc...)
		if entry == reReader {
			_, _, _, p := try(func() {
				var err error
				if k.size, k.rd, err = ser.EncodeToReader(obj); err != nil {
					k.rd = nil
				}
			})
			if p || k.rd == nil {
				continue
			}
		} else {
			k.baseOK, k.baseRe = redecode(entry, obj, k.snap)
		}
		c.Fault("retain/held-encoding")
		r.nRetained++
		c.Finger("retain", typ, entry, len(k.snap), fnv64(k.snap))
		tick() // this encode is a later encode for everything held before
		live = append(live, k)
		for j, m := 0, t.Int(4); j < m && !r.stop; j++ {
			disturb()
		}
	}
	for len(live) > 0 && !r.stop {
		disturb()
	}

	// ---- decoded values do not alias their input
	m := 3 + t.Int(6)
	type heldVal struct {
		entry, typ string
		back       func() interface{}
		withType   bool
		was        []byte
	}
	var held []heldVal
	reenc := func(h heldVal) ([]byte, bool) {
		var bz []byte
		var err error
		_, _, _, p := try(func() {
			if h.withType {
				bz, err = ser.EncodeToBytesWithType(h.back())
			} else {
				bz, err = ser.EncodeToBytes(h.back())
			}
		})
		return append([]byte{}, bz...), !p && err == nil
	}
	for i := 0; i < m && !r.stop; i++ {
		var enc []byte
		var ptr reflect.Value
		var back func() interface{}
		typ := ""
		if len(good) > 0 && t.Bool(1, 2) {
			g := good[t.Int(len(good))]
			if len(g.enc) > 1<<16 {
				continue
			}
			enc, typ = g.enc, g.tg.name
			ptr = g.tg.dest()
			tg := g.tg
			back = func() interface{} { return tg.form(tg.inner(ptr)) }
		} else {
			var v interface{}
			if t.Bool(1, 4) {
				// the generic destination: []byte / []interface{} trees
				v, _, _ = r.retValue(t, 5)
				typ = "interface{}"
				bz, ok := retEncode(reToBytes, v)
				if !ok {
					continue
				}
				enc = bz
				ptr = reflect.New(reflect.TypeOf((*interface{})(nil)).Elem())
			} else {
				v, typ = flatValue(t)
				bz, ok := retEncode(reToBytes, v)
				if !ok {
					continue
				}
				enc = bz
				ptr = reflect.New(reflect.TypeOf(v))
			}
			p := ptr
			back = func() interface{} { return p.Elem().Interface() }
		}
		buf := append([]byte{}, enc...)
		entry := t.Int(3)
		var err error
		_, _, _, p := try(func() {
			switch entry {
			case 0:
				err = ser.DecodeBytes(buf, ptr.Interface())
			case 1:
				_, err = ser.DecodeReader(bytes.NewReader(buf), ptr.Interface(), int64(len(buf)))
			default:
				err = ser.Decode(bytes.NewReader(buf), ptr.Interface())
			}
		})
		if p || err != nil {
			c.Probe("retain-decode-refused")
			continue
		}
		h := heldVal{entry: []string{"DecodeBytes", "DecodeReader", "Decode"}[entry], typ: typ, back: back}
		var ok bool
		if h.was, ok = reenc(h); !ok {
			continue
		}
		// the caller reuses its buffer
		switch t.Int(3) {
		case 0:
			for j := range buf {
				buf[j] = 0
			}
		case 1:
			for j := range buf {
				buf[j] ^= 0xFF
			}
		default:
			copy(buf, t.Bytes(len(buf)))
		}
		c.Fault("retain/input-buffer-reused")
		held = append(held, h)
	}
	for _, h := range held {
		if r.stop {
			break
		}
		c.Evals(1)
		now, ok := reenc(h)
		if !ok || !bytes.Equal(now, h.was) {
			r.violate("retention", "decoded-value-aliases-input/"+h.entry+"/"+h.typ, "a %s value decoded by %s changed after the caller overwrote the input buffer (and other values were decoded): it encoded to %x, now to %x (ok=%v)", h.typ, h.entry, clipN(h.was, 64), clipN(now, 64), ok)
		}
	}
}
