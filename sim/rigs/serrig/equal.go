package serrig

import (
	"bytes"
	"fmt"
	"math/big"
	"reflect"
	"time"

	"github.com/lianxiangcloud/linkchain/libs/ser"

	"verif/sim/rigs/valgen"
)

var (
	bigPtrType  = reflect.TypeOf((*big.Int)(nil))
	bigType     = reflect.TypeOf(big.Int{})
	timeType    = reflect.TypeOf(time.Time{})
	encoderType = reflect.TypeOf((*ser.Encoder)(nil)).Elem()
)

// equalWire compares two values the way the property means "equal": over the
// fields the codec transports (exported, not tagged rlp:"-"), tolerating
// exactly the representation changes the codec documents:
//   - a nil slice and an empty slice are the same (both encode as the empty
//     list / empty string),
//   - a nil *big.Int and zero are the same (a nil pointer encodes as the zero
//     value of its type),
//   - a nil pointer and a pointer to a value whose encoding is empty (0x80 /
//     0xC0) are the same,
//   - times are compared as instants (the decoder normalises to UTC).
//
// Types with private data and their own EncodeSER (transactions, logs) are
// compared through their encodings. It returns "" when equal, otherwise the
// path of the first difference.
func equalWire(a, b reflect.Value, path string) string {
	if !a.IsValid() || !b.IsValid() {
		if a.IsValid() != b.IsValid() {
			return path + ": one side invalid"
		}
		return ""
	}
	if a.Type() != b.Type() {
		return fmt.Sprintf("%s: type %v vs %v", path, a.Type(), b.Type())
	}
	typ := a.Type()
	switch typ {
	case bigPtrType:
		x, y := a.Interface().(*big.Int), b.Interface().(*big.Int)
		if x == nil {
			x = new(big.Int)
		}
		if y == nil {
			y = new(big.Int)
		}
		if x.Cmp(y) != 0 {
			return fmt.Sprintf("%s: big %v vs %v", path, x, y)
		}
		return ""
	case bigType:
		x, y := a.Interface().(big.Int), b.Interface().(big.Int)
		if x.Cmp(&y) != 0 {
			return fmt.Sprintf("%s: big %v vs %v", path, &x, &y)
		}
		return ""
	case timeType:
		x, y := a.Interface().(time.Time), b.Interface().(time.Time)
		if !x.Equal(y) {
			return fmt.Sprintf("%s: time %v vs %v", path, x.UTC(), y.UTC())
		}
		return ""
	}
	// custom encoders: compare encodings (pointer receiver or value receiver)
	if typ.Kind() != reflect.Interface && (typ.Implements(encoderType) || (typ.Kind() != reflect.Ptr && reflect.PtrTo(typ).Implements(encoderType))) {
		if typ.Kind() == reflect.Ptr && (a.IsNil() || b.IsNil()) {
			if a.IsNil() != b.IsNil() {
				return path + ": nil vs non-nil (custom encoder)"
			}
			return ""
		}
		ea, erra := encAddr(a)
		eb, errb := encAddr(b)
		if erra != nil || errb != nil {
			return fmt.Sprintf("%s: custom encoder failed: %v / %v", path, erra, errb)
		}
		if !bytes.Equal(ea, eb) {
			return fmt.Sprintf("%s: custom-encoded %x vs %x", path, clip(ea), clip(eb))
		}
		return ""
	}
	switch typ.Kind() {
	case reflect.Ptr:
		if a.IsNil() || b.IsNil() {
			if a.IsNil() && b.IsNil() {
				return ""
			}
			nn := a
			if a.IsNil() {
				nn = b
			}
			if enc, err := ser.EncodeToBytes(nn.Interface()); err == nil && len(enc) == 1 && (enc[0] == 0x80 || enc[0] == 0xC0) {
				return "" // documented: encodes exactly like nil
			}
			return path + ": nil vs non-nil pointer"
		}
		return equalWire(a.Elem(), b.Elem(), path)
	case reflect.Interface:
		if a.IsNil() || b.IsNil() {
			if a.IsNil() != b.IsNil() {
				return path + ": nil vs non-nil interface"
			}
			return ""
		}
		return equalWire(a.Elem(), b.Elem(), path)
	case reflect.Slice:
		if a.Len() != b.Len() {
			return fmt.Sprintf("%s: len %d vs %d", path, a.Len(), b.Len())
		}
		if typ.Elem().Kind() == reflect.Uint8 {
			if !bytes.Equal(a.Bytes(), b.Bytes()) {
				return fmt.Sprintf("%s: bytes %x vs %x", path, clip(a.Bytes()), clip(b.Bytes()))
			}
			return ""
		}
		for i := 0; i < a.Len(); i++ {
			if d := equalWire(a.Index(i), b.Index(i), fmt.Sprintf("%s[%d]", path, i)); d != "" {
				return d
			}
		}
		return ""
	case reflect.Array:
		for i := 0; i < a.Len(); i++ {
			if d := equalWire(a.Index(i), b.Index(i), fmt.Sprintf("%s[%d]", path, i)); d != "" {
				return d
			}
		}
		return ""
	case reflect.Map:
		if a.Len() != b.Len() {
			return fmt.Sprintf("%s: map len %d vs %d", path, a.Len(), b.Len())
		}
		for _, k := range a.MapKeys() {
			bv := b.MapIndex(k)
			if !bv.IsValid() {
				return fmt.Sprintf("%s: key %v missing", path, k)
			}
			if d := equalWire(a.MapIndex(k), bv, fmt.Sprintf("%s[%v]", path, k)); d != "" {
				return d
			}
		}
		return ""
	case reflect.Struct:
		for i := 0; i < typ.NumField(); i++ {
			sf := typ.Field(i)
			if valgen.Skipped(typ, sf) {
				continue
			}
			if d := equalWire(a.Field(i), b.Field(i), path+"."+sf.Name); d != "" {
				return d
			}
		}
		return ""
	case reflect.Bool:
		if a.Bool() != b.Bool() {
			return path + ": bool differs"
		}
	case reflect.Int, reflect.Int8, reflect.Int16, reflect.Int32, reflect.Int64:
		if a.Int() != b.Int() {
			return fmt.Sprintf("%s: %d vs %d", path, a.Int(), b.Int())
		}
	case reflect.Uint, reflect.Uint8, reflect.Uint16, reflect.Uint32, reflect.Uint64, reflect.Uintptr:
		if a.Uint() != b.Uint() {
			return fmt.Sprintf("%s: %d vs %d", path, a.Uint(), b.Uint())
		}
	case reflect.String:
		if a.String() != b.String() {
			return fmt.Sprintf("%s: %q vs %q", path, clipS(a.String()), clipS(b.String()))
		}
	}
	return ""
}

// encAddr encodes a value that has a custom encoder, through a pointer when
// the method set needs one.
func encAddr(v reflect.Value) ([]byte, error) {
	if v.Kind() == reflect.Ptr {
		return ser.EncodeToBytes(v.Interface())
	}
	p := reflect.New(v.Type())
	p.Elem().Set(v)
	return ser.EncodeToBytes(p.Interface())
}

func clip(b []byte) []byte {
	if len(b) > 24 {
		return b[:24]
	}
	return b
}

func clipS(s string) string {
	if len(s) > 24 {
		return s[:24]
	}
	return s
}
