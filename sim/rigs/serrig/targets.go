package serrig

import (
	"reflect"

	"github.com/lianxiangcloud/linkchain/blockchain"
	"github.com/lianxiangcloud/linkchain/consensus"
	cstypes "github.com/lianxiangcloud/linkchain/consensus/types"
	"github.com/lianxiangcloud/linkchain/evidence"
	cmn "github.com/lianxiangcloud/linkchain/libs/common"
	"github.com/lianxiangcloud/linkchain/libs/crypto"
	"github.com/lianxiangcloud/linkchain/libs/ser"
	"github.com/lianxiangcloud/linkchain/mempool"
	"github.com/lianxiangcloud/linkchain/state"
	"github.com/lianxiangcloud/linkchain/types"

	"verif/sim/kernel"
	"verif/sim/rigs/valgen"
)

// target is one decode destination type: either a concrete type T (decoded
// into *T) or a registered interface I (decoded into *I, the way the reactors
// and the WAL do).
type target struct {
	name  string
	typ   reflect.Type // T or I
	iface bool
	// realistic draws a value as the running system produces it (nil: use the
	// filler in NoNil mode). For interface targets it returns the concrete
	// implementer value.
	realistic func(t *kernel.Tape, f *valgen.Filler) interface{}
	// handmade draws a valid encoding built without the type's encoder
	// (types that cannot be constructed from outside their package, or whose
	// encoder is private code). The decoder must accept it and re-encode it
	// to the same bytes.
	handmade func(t *kernel.Tape) []byte
	// maxMsg is the size guard the owning reactor applies before decoding
	// (0: none).
	maxMsg int
	weight int
	// noForeign keeps bytes that were not derived from this type's own
	// encodings away from its decoder. Set for state.Account only, and only
	// because of the open finding alloc-bomb/state.Account: the encoding of
	// an ordinary Proposal parses as an Account whose token-map length is the
	// proposal's Unix time, and the map decoder pre-allocates that many
	// entries (about 100 GB), which takes the machine down instead of
	// producing a verdict. Remove when the map decoder bounds its length.
	noForeign bool
}

func typeOf(p interface{}) reflect.Type { return reflect.TypeOf(p).Elem() }

func blockOpts(t *kernel.Tape) valgen.BlockOpts {
	return valgen.BlockOpts{MaxTxs: 1 + t.Int(6), MaxEvidence: t.Int(3), MaxVals: 1 + t.Int(6), Tx: valgen.TxOpts{MaxPayload: 16 + t.Int(200)}}
}

func aBlock(t *kernel.Tape) *types.Block { return valgen.Block(t, blockOpts(t)) }

func aPart(t *kernel.Tape) *types.Part {
	b := aBlock(t)
	ps := b.MakePartSet([]int{64, 100, 256, 1024, 4096}[t.Int(5)])
	return ps.GetPart(t.Int(ps.Total()))
}

func bitArray(t *kernel.Tape) *cmn.BitArray {
	n := 1 + t.Int(130)
	ba := cmn.NewBitArray(n)
	for i := 0; i < n; i++ {
		if t.Bool(1, 2) {
			ba.SetIndex(i, true)
		}
	}
	return ba
}

func consensusMsg(t *kernel.Tape) interface{} {
	h, r := 1+uint64(t.Int(1<<24)), t.Int(6)
	switch t.Int(10) {
	case 0:
		return &consensus.NewRoundStepMessage{Height: h, Round: r, Step: cstypes.RoundStepType(1 + t.Int(8)), SecondsSinceStartTime: t.Int(100), LastCommitRound: t.Int(4) - 1}
	case 1:
		return &consensus.CommitStepMessage{Height: h, BlockPartsHeader: valgen.PartSetHeader(t), BlockParts: bitArray(t)}
	case 2:
		return &consensus.ProposalMessage{Proposal: valgen.Proposal(t)}
	case 3:
		return &consensus.ProposalPOLMessage{Height: h, ProposalPOLRound: r, ProposalPOL: bitArray(t)}
	case 4:
		return &consensus.BlockPartMessage{Height: h, Round: r, Part: aPart(t)}
	case 5:
		return &consensus.VoteMessage{Vote: valgen.AnyVote(t)}
	case 6:
		return &consensus.HasVoteMessage{Height: h, Round: r, Type: types.VoteTypePrevote + byte(t.Int(2)), Index: t.Int(10)}
	case 7:
		return &consensus.VoteSetMaj23Message{Height: h, Round: r, Type: types.VoteTypePrevote + byte(t.Int(2)), BlockID: valgen.BlockID(t)}
	case 8:
		return &consensus.VoteSetBitsMessage{Height: h, Round: r, Type: types.VoteTypePrevote + byte(t.Int(2)), BlockID: valgen.BlockID(t), Votes: bitArray(t)}
	default:
		return &consensus.ProposalHeartbeatMessage{Heartbeat: valgen.Heartbeat(t)}
	}
}

func walMsg(t *kernel.Tape) interface{} {
	switch t.Pick(2, 5, 2, 2) {
	case 0:
		return types.EventDataRoundState{Height: 1 + uint64(t.Int(1<<24)), Round: t.Int(6), Step: cstypes.RoundStepType(1 + t.Int(8)).String()}
	case 1:
		peer := ""
		if t.Bool(1, 2) {
			peer = valgen.Ident(t, 40)
		}
		// only what really reaches the WAL through msgInfo: proposal, part, vote
		var m interface{}
		switch t.Int(3) {
		case 0:
			m = &consensus.ProposalMessage{Proposal: valgen.Proposal(t)}
		case 1:
			m = &consensus.BlockPartMessage{Height: 1 + uint64(t.Int(1<<24)), Round: t.Int(6), Part: aPart(t)}
		default:
			m = &consensus.VoteMessage{Vote: valgen.AnyVote(t)}
		}
		return consensus.VerifPackMsg(m, peer)
	case 2:
		return consensus.VerifPackTimeout(consensus.VerifTimeout{Duration: valgen.Time(t).Sub(valgen.Time(t)) % (1 << 40), Height: 1 + uint64(t.Int(1<<24)), Round: t.Int(6), Step: cstypes.RoundStepType(1 + t.Int(8))})
	default:
		return consensus.EndHeightMessage{Height: uint64(t.Int(1 << 24))}
	}
}

func timedWAL(t *kernel.Tape) *consensus.TimedWALMessage {
	return &consensus.TimedWALMessage{Time: valgen.Time(t), Msg: walMsg(t)}
}

func status(t *kernel.Tape) *consensus.NewStatus {
	n := 1 + t.Int(6)
	s := &consensus.NewStatus{ChainID: valgen.Ident(t, 12), LastBlockHeight: uint64(t.Int(1 << 24)), LastBlockTotalTx: uint64(t.Int(1 << 30)),
		LastBlockID: valgen.BlockID(t), LastBlockTime: 1500000000 + uint64(t.Int(400000000)),
		Validators: valgen.ValidatorSet(t, n), LastValidators: valgen.ValidatorSet(t, n),
		LastHeightValidatorsChanged: uint64(t.Int(1 << 24)), LastRecover: t.Bool(1, 8),
		ConsensusParams: *types.DefaultConsensusParams(), LastHeightConsensusParamsChanged: uint64(t.Int(1 << 24))}
	return s
}

// handmade encodings of the blockchain reactor's messages (its message types
// are private): registered-name prefix followed by the struct as a list.
func bcMsgBytes(t *kernel.Tape) []byte {
	type hmsg struct{ Height uint64 }
	type bmsg struct{ Block *types.Block }
	var name string
	var body interface{}
	switch t.Int(5) {
	case 0:
		name, body = "blockchain/BlockRequest", &hmsg{valgen.U64(t)}
	case 1:
		name, body = "blockchain/NoBlockResponse", &hmsg{valgen.U64(t)}
	case 2:
		name, body = "blockchainl/StatusResponse", &hmsg{valgen.U64(t)}
	case 3:
		name, body = "blockchain/StatusRequest", &hmsg{valgen.U64(t)}
	default:
		name, body = "blockchain/BlockResponse", &bmsg{aBlock(t)}
	}
	bz, err := ser.EncodeToBytes(body)
	if err != nil {
		panic("serrig: handmade blockchain message: " + err.Error())
	}
	return append(disfixOf(name), bz...)
}

// handmade encodings of the two transaction kinds with private data, built
// from the mirror of their wire layout.
func rawTxBytes(t *kernel.Tape) []byte {
	_, bz := valgen.TransactionRaw(t, 100)
	return bz
}

func rawTokenTxBytes(t *kernel.Tape) []byte {
	_, bz := valgen.TokenTransactionRaw(t, 100)
	return bz
}

// handmade encodings of logs: the consensus form (address, topics, data) and
// the storage form (all fields but Removed), as documented on types.Log.
func logBytes(t *kernel.Tape) []byte {
	l := valgen.Log(t, false)
	type wire struct {
		Address cmn.Address
		Topics  []cmn.Hash
		Data    []byte
	}
	bz, _ := ser.EncodeToBytes(&wire{l.Address, l.Topics, l.Data})
	return bz
}

func storageLogBytes(t *kernel.Tape) []byte {
	l := valgen.Log(t, true)
	type wire struct {
		Address     cmn.Address
		Topics      []cmn.Hash
		Data        []byte
		BlockNumber uint64
		TxHash      cmn.Hash
		TxIndex     uint
		BlockHash   cmn.Hash
		Index       uint
		BlockTime   uint64
	}
	bz, _ := ser.EncodeToBytes(&wire{l.Address, l.Topics, l.Data, l.BlockNumber, l.TxHash, l.TxIndex, l.BlockHash, l.Index, l.BlockTime})
	return bz
}

const reactorMaxMsg = 1048576 // the reactors' own guard is read from their behaviour, not needed for the oracle

var targets []*target

func init() {
	add := func(tg *target) {
		if tg.weight == 0 {
			tg.weight = 2
		}
		targets = append(targets, tg)
	}
	txo := valgen.TxOpts{MaxPayload: 200}
	// ---- blocks and their pieces
	add(&target{name: "types.Block", typ: typeOf((*types.Block)(nil)), weight: 6,
		realistic: func(t *kernel.Tape, f *valgen.Filler) interface{} { return aBlock(t) }})
	add(&target{name: "types.Header", typ: typeOf((*types.Header)(nil)),
		realistic: func(t *kernel.Tape, f *valgen.Filler) interface{} { return valgen.Header(t) }})
	add(&target{name: "types.Commit", typ: typeOf((*types.Commit)(nil)), weight: 3,
		realistic: func(t *kernel.Tape, f *valgen.Filler) interface{} {
			return valgen.Commit(t, 1+uint64(t.Int(1<<20)), 1+t.Int(8), valgen.BlockID(t))
		}})
	add(&target{name: "types.Vote", typ: typeOf((*types.Vote)(nil)), weight: 3,
		realistic: func(t *kernel.Tape, f *valgen.Filler) interface{} { return valgen.AnyVote(t) }})
	add(&target{name: "types.Proposal", typ: typeOf((*types.Proposal)(nil)), weight: 3,
		realistic: func(t *kernel.Tape, f *valgen.Filler) interface{} { return valgen.Proposal(t) }})
	add(&target{name: "types.Heartbeat", typ: typeOf((*types.Heartbeat)(nil)),
		realistic: func(t *kernel.Tape, f *valgen.Filler) interface{} { return valgen.Heartbeat(t) }})
	add(&target{name: "types.Part", typ: typeOf((*types.Part)(nil)), weight: 3,
		realistic: func(t *kernel.Tape, f *valgen.Filler) interface{} { return aPart(t) }})
	add(&target{name: "types.PartSetHeader", typ: typeOf((*types.PartSetHeader)(nil)), weight: 1})
	add(&target{name: "types.BlockID", typ: typeOf((*types.BlockID)(nil)), weight: 1})
	add(&target{name: "types.BlockMeta", typ: typeOf((*types.BlockMeta)(nil)),
		realistic: func(t *kernel.Tape, f *valgen.Filler) interface{} {
			return &types.BlockMeta{BlockID: valgen.BlockID(t), Header: valgen.Header(t)}
		}})
	add(&target{name: "types.EvidenceData", typ: typeOf((*types.EvidenceData)(nil))})
	// ---- validators, status, params
	add(&target{name: "types.ValidatorSet", typ: typeOf((*types.ValidatorSet)(nil)), weight: 3,
		realistic: func(t *kernel.Tape, f *valgen.Filler) interface{} { return valgen.ValidatorSet(t, 1+t.Int(8)) }})
	add(&target{name: "types.Validator", typ: typeOf((*types.Validator)(nil)), weight: 1})
	add(&target{name: "consensus.NewStatus", typ: typeOf((*consensus.NewStatus)(nil)), weight: 3,
		realistic: func(t *kernel.Tape, f *valgen.Filler) interface{} { return status(t) }})
	add(&target{name: "types.ConsensusParams", typ: typeOf((*types.ConsensusParams)(nil)), weight: 1})
	// ---- transactions: through the interface and each kind directly
	add(&target{name: "types.Tx", typ: typeOf((*types.Tx)(nil)), iface: true, weight: 8,
		realistic: func(t *kernel.Tape, f *valgen.Filler) interface{} { return valgen.Tx(t, txo) }})
	add(&target{name: "types.Transaction", typ: typeOf((*types.Transaction)(nil)), weight: 3, handmade: rawTxBytes,
		realistic: func(t *kernel.Tape, f *valgen.Filler) interface{} {
			return valgen.Transaction(t, valgen.TxOpts{MaxPayload: 200, RealSign: true}, t.Bool(1, 4))
		}})
	add(&target{name: "types.TokenTransaction", typ: typeOf((*types.TokenTransaction)(nil)), handmade: rawTokenTxBytes,
		realistic: func(t *kernel.Tape, f *valgen.Filler) interface{} {
			return valgen.TokenTransaction(t, valgen.TxOpts{MaxPayload: 200, RealSign: true})
		}})
	add(&target{name: "types.MultiSignAccountTx", typ: typeOf((*types.MultiSignAccountTx)(nil)),
		realistic: func(t *kernel.Tape, f *valgen.Filler) interface{} { return valgen.MultiSignTx(t) }})
	add(&target{name: "types.ContractUpgradeTx", typ: typeOf((*types.ContractUpgradeTx)(nil)),
		realistic: func(t *kernel.Tape, f *valgen.Filler) interface{} { return valgen.UpgradeTx(t, txo) }})
	add(&target{name: "types.UTXOTransaction", typ: typeOf((*types.UTXOTransaction)(nil)), weight: 3,
		realistic: func(t *kernel.Tape, f *valgen.Filler) interface{} { return valgen.UTXOTx(t, txo) }})
	// ---- evidence
	add(&target{name: "types.Evidence", typ: typeOf((*types.Evidence)(nil)), iface: true, weight: 3,
		realistic: func(t *kernel.Tape, f *valgen.Filler) interface{} { return valgen.Evidence(t) }})
	add(&target{name: "types.DuplicateVoteEvidence", typ: typeOf((*types.DuplicateVoteEvidence)(nil)),
		realistic: func(t *kernel.Tape, f *valgen.Filler) interface{} { return valgen.DuplicateVoteEvidence(t) }})
	// ---- keys and signatures
	add(&target{name: "crypto.PubKey", typ: typeOf((*crypto.PubKey)(nil)), iface: true, weight: 1,
		realistic: func(t *kernel.Tape, f *valgen.Filler) interface{} { return valgen.PubKey(t) }})
	add(&target{name: "crypto.Signature", typ: typeOf((*crypto.Signature)(nil)), iface: true, weight: 1,
		realistic: func(t *kernel.Tape, f *valgen.Filler) interface{} { return valgen.Signature(t) }})
	// ---- execution results, receipts, logs, accounts
	add(&target{name: "types.TxsResult", typ: typeOf((*types.TxsResult)(nil)), weight: 3})
	add(&target{name: "types.Receipt", typ: typeOf((*types.Receipt)(nil)), weight: 3,
		realistic: func(t *kernel.Tape, f *valgen.Filler) interface{} { return valgen.Receipt(t, false) }})
	add(&target{name: "types.ReceiptForStorage", typ: typeOf((*types.ReceiptForStorage)(nil)),
		realistic: func(t *kernel.Tape, f *valgen.Filler) interface{} { return valgen.Receipt(t, true).ForStorage() }})
	add(&target{name: "[]*types.ReceiptForStorage", typ: reflect.TypeOf([]*types.ReceiptForStorage{}),
		realistic: func(t *kernel.Tape, f *valgen.Filler) interface{} {
			rs := []*types.ReceiptForStorage{}
			for i, k := 0, t.Int(4); i < k; i++ {
				rs = append(rs, valgen.Receipt(t, true).ForStorage())
			}
			return &rs
		}})
	add(&target{name: "types.Log", typ: typeOf((*types.Log)(nil)), weight: 1, handmade: logBytes,
		realistic: func(t *kernel.Tape, f *valgen.Filler) interface{} { return valgen.Log(t, false) }})
	add(&target{name: "types.LogForStorage", typ: typeOf((*types.LogForStorage)(nil)), weight: 1, handmade: storageLogBytes,
		realistic: func(t *kernel.Tape, f *valgen.Filler) interface{} { return (*types.LogForStorage)(valgen.Log(t, true)) }})
	add(&target{name: "state.Account", typ: typeOf((*state.Account)(nil)), weight: 4}) // noForeign guard removed: map length bomb fixed in /repo f929d34
	add(&target{name: "types.UTXOOutputData", typ: typeOf((*types.UTXOOutputData)(nil)), weight: 1})
	// ---- reactor and WAL messages (decoded into their interface types, the
	// call each reactor's decodeMsg makes after its size guard)
	add(&target{name: "consensus.ConsensusMessage", typ: typeOf((*consensus.ConsensusMessage)(nil)), iface: true, weight: 8, maxMsg: reactorMaxMsg,
		realistic: func(t *kernel.Tape, f *valgen.Filler) interface{} { return consensusMsg(t) }})
	add(&target{name: "consensus.WALMessage", typ: typeOf((*consensus.WALMessage)(nil)), iface: true, weight: 3,
		realistic: func(t *kernel.Tape, f *valgen.Filler) interface{} { return walMsg(t) }})
	add(&target{name: "consensus.TimedWALMessage", typ: typeOf((*consensus.TimedWALMessage)(nil)), weight: 4,
		realistic: func(t *kernel.Tape, f *valgen.Filler) interface{} { return timedWAL(t) }})
	add(&target{name: "mempool.MempoolMessage", typ: typeOf((*mempool.MempoolMessage)(nil)), iface: true, weight: 4,
		realistic: func(t *kernel.Tape, f *valgen.Filler) interface{} {
			if t.Bool(2, 3) {
				return mempool.TxMessage{Tx: valgen.Tx(t, txo)}
			}
			m := mempool.TxHashMessage{Kind: mempool.TxHashMessageKind(t.Int(3))}
			for i, k := 0, t.Int(5); i < k; i++ {
				m.Hashs = append(m.Hashs, valgen.Hash(t))
			}
			return m
		}})
	add(&target{name: "evidence.EvidenceMessage", typ: typeOf((*evidence.EvidenceMessage)(nil)), iface: true, weight: 3, maxMsg: reactorMaxMsg,
		realistic: func(t *kernel.Tape, f *valgen.Filler) interface{} {
			m := &evidence.EvidenceListMessage{}
			for i, k := 0, 1+t.Int(3); i < k; i++ {
				m.Evidence = append(m.Evidence, valgen.Evidence(t))
			}
			return m
		}})
	add(&target{name: "blockchain.BlockchainMessage", typ: typeOf((*blockchain.BlockchainMessage)(nil)), iface: true, weight: 4, handmade: bcMsgBytes})
}

// newFiller returns the corner-value filler with the implementer tables of
// every interface registered by the packages linked into the check.
func newFiller(t *kernel.Tape) *valgen.Filler {
	f := valgen.NewFiller(t)
	val := func(v interface{}) reflect.Value { return reflect.ValueOf(v) }
	cmTypes := []reflect.Type{
		reflect.TypeOf(consensus.NewRoundStepMessage{}), reflect.TypeOf(consensus.CommitStepMessage{}), reflect.TypeOf(consensus.ProposalMessage{}),
		reflect.TypeOf(consensus.ProposalPOLMessage{}), reflect.TypeOf(consensus.BlockPartMessage{}), reflect.TypeOf(consensus.VoteMessage{}),
		reflect.TypeOf(consensus.HasVoteMessage{}), reflect.TypeOf(consensus.VoteSetMaj23Message{}), reflect.TypeOf(consensus.VoteSetBitsMessage{}),
		reflect.TypeOf(consensus.ProposalHeartbeatMessage{}),
	}
	var cm []func(*valgen.Filler, int) reflect.Value
	for _, ct := range cmTypes {
		ct := ct
		cm = append(cm, func(f *valgen.Filler, d int) reflect.Value {
			p := reflect.New(ct)
			f.Fill(p.Elem(), d)
			return p
		})
	}
	f.Impl[typeOf((*consensus.ConsensusMessage)(nil))] = cm
	f.Impl[typeOf((*consensus.WALMessage)(nil))] = []func(*valgen.Filler, int) reflect.Value{
		func(f *valgen.Filler, d int) reflect.Value {
			v := types.EventDataRoundState{}
			f.Fill(reflect.ValueOf(&v).Elem(), d)
			return val(v)
		},
		func(f *valgen.Filler, d int) reflect.Value {
			var m consensus.ConsensusMessage
			f.Fill(reflect.ValueOf(&m).Elem(), d)
			return val(consensus.VerifPackMsg(m, valgen.Str(f.T, 40)))
		},
		func(f *valgen.Filler, d int) reflect.Value {
			return val(consensus.VerifPackTimeout(consensus.VerifTimeout{Duration: valgen.Time(f.T).Sub(valgen.Time(f.T)), Height: valgen.U64(f.T),
				Round: int(valgen.I64(f.T)), Step: cstypes.RoundStepType(valgen.UBits(f.T, 8))}))
		},
		func(f *valgen.Filler, d int) reflect.Value {
			return val(consensus.EndHeightMessage{Height: valgen.U64(f.T)})
		},
	}
	f.Impl[typeOf((*mempool.MempoolMessage)(nil))] = []func(*valgen.Filler, int) reflect.Value{
		func(f *valgen.Filler, d int) reflect.Value {
			v := mempool.TxMessage{}
			f.Fill(reflect.ValueOf(&v).Elem(), d)
			return val(v)
		},
		func(f *valgen.Filler, d int) reflect.Value {
			v := mempool.TxHashMessage{}
			f.Fill(reflect.ValueOf(&v).Elem(), d)
			return val(v)
		},
	}
	f.Impl[typeOf((*evidence.EvidenceMessage)(nil))] = []func(*valgen.Filler, int) reflect.Value{
		func(f *valgen.Filler, d int) reflect.Value {
			p := reflect.New(reflect.TypeOf(evidence.EvidenceListMessage{}))
			f.Fill(p.Elem(), d)
			return p
		},
	}
	return f
}
