package serrig

// Direct reproductions, against the real code, of the defects the C11 check
// reports on the unchanged tree (known-finding keys in the test names' docs).
// Run: cd /verif/sim && go1.26.8 test -tags verif -overlay /verif/build/overlay.json -run Repro -v ./rigs/serrig/
// Each test logs REPRODUCED / NOT REPRODUCED and never fails, so that a fix in
// the repository does not break the build of the harness.

import (
	"bytes"
	"fmt"
	"io"
	"math/big"
	"runtime"
	"testing"
	"testing/iotest"
	"time"

	"github.com/lianxiangcloud/linkchain/consensus"
	"github.com/lianxiangcloud/linkchain/libs/common"
	"github.com/lianxiangcloud/linkchain/libs/crypto"
	dbm "github.com/lianxiangcloud/linkchain/libs/db"
	"github.com/lianxiangcloud/linkchain/libs/ser"
	"github.com/lianxiangcloud/linkchain/libs/trie"
	"github.com/lianxiangcloud/linkchain/mempool"
	"github.com/lianxiangcloud/linkchain/state"
	"github.com/lianxiangcloud/linkchain/types"
)

// key: panic/libs/ser.decodeCDCInterface/not-assignable
// A mempool TxMessage whose transaction carries the registered type prefix of
// DuplicateVoteEvidence instead of "tx". Expected: decode error. Actual: panic
// "reflect.Set: value of type *types.DuplicateVoteEvidence is not assignable
// to type types.Tx" (decodeCDCInterface looks the prefix up in the GLOBAL
// registry and sets the result without checking that it implements the
// destination interface). The same bytes inside a proposed block panic in the
// consensus goroutine (addProposalBlockPart -> ser.DecodeReader).
func TestReproInterfacePrefixPanic(t *testing.T) {
	tx := types.NewTransaction(1, common.Address{2}, big.NewInt(3), 100000, nil, []byte("x"))
	var msg mempool.MempoolMessage = mempool.TxMessage{Tx: tx}
	bz := ser.MustEncodeToBytesWithType(msg)
	i := bytes.Index(bz, disfixOf(types.TxNormal))
	copy(bz[i:], disfixOf("DuplicateVoteEvidence"))
	defer func() {
		if r := recover(); r != nil {
			t.Logf("REPRODUCED: decodeMsg-equivalent call panicked: %v\ninput: %x", r, bz)
		}
	}()
	var out mempool.MempoolMessage
	err := ser.DecodeBytesWithType(bz, &out)
	t.Logf("NOT REPRODUCED: err=%v out=%T", err, out)
}

// key: alloc-bomb/state.Account
// A 70-byte account record whose token-map length field says 0xa0000.
// Expected: error after reading at most the input. Actual: the map decoder
// calls reflect.MakeMapWithSize(len) before reading a single entry (about
// 40 MB here; "7fffffff" asks for >100 GB).
func TestReproMapLengthBomb(t *testing.T) {
	acc := state.Account{Nonce: 1, Balance: big.NewInt(5), Tokens: map[common.Address]*big.Int{{1}: big.NewInt(7)}, CodeHash: []byte{1, 2}}
	top := parseItems(ser.MustEncodeToBytes(acc), 0)
	top[0].kids[3].kids[0].data = []byte("a0000") // the map's element count, hex text
	in := serialize(nil, top)
	var a, b runtime.MemStats
	var out state.Account
	runtime.ReadMemStats(&a)
	err := ser.DecodeBytes(in, &out)
	runtime.ReadMemStats(&b)
	alloc := b.TotalAlloc - a.TotalAlloc
	verdict := "NOT REPRODUCED"
	if alloc > 16<<20 {
		verdict = "REPRODUCED"
	}
	t.Logf("%s: %d-byte input, %d bytes allocated, err=%v\ninput: %x", verdict, len(in), alloc, err, in)
}

// dataEOFByteReader returns its last bytes together with io.EOF (legal for an
// io.Reader, cf. iotest.DataErrReader) and offers ReadByte, so that ser.Stream
// uses it directly instead of wrapping it in a bufio.Reader (which would hide
// the behaviour for reads below its buffer size).
type dataEOFByteReader struct {
	b   []byte
	pos int
}

func (r *dataEOFByteReader) Read(p []byte) (int, error) {
	n := copy(p, r.b[r.pos:])
	r.pos += n
	if r.pos == len(r.b) {
		return n, io.EOF
	}
	return n, nil
}

func (r *dataEOFByteReader) ReadByte() (byte, error) {
	if r.pos == len(r.b) {
		return 0, io.EOF
	}
	r.pos++
	return r.b[r.pos-1], nil
}

// key: stream-mismatch/ser.Stream/final-data-with-EOF
// A reader may return its last bytes together with io.EOF. Stream.readFull
// then reports ErrUnexpectedEOF although the buffer was filled; when that
// happens inside an interface-typed field, decodeCDCInterface drops the error
// and the decode SUCCEEDS with the field's content missing. Needs a ByteReader
// (or a bufio.Reader doing a large direct read) that behaves this way; no
// reader inside the repository does today.
func TestReproFinalDataWithEOF(t *testing.T) {
	v := &types.Vote{ValidatorAddress: crypto.Address(bytes.Repeat([]byte{7}, 20)), ValidatorIndex: 1, ValidatorSize: 4, Height: 9, Round: 0,
		Timestamp: time.Unix(1600000000, 5).UTC(), Type: types.VoteTypePrecommit, Signature: crypto.SignatureSecp256k1(bytes.Repeat([]byte{0xAB}, 64))}
	enc := ser.MustEncodeToBytes(v)
	var whole, stream types.Vote
	if err := ser.DecodeBytes(enc, &whole); err != nil {
		t.Fatalf("whole-buffer decode: %v", err)
	}
	_, err := ser.DecodeReader(&dataEOFByteReader{b: enc}, &stream, int64(len(enc)))
	re, _ := ser.EncodeToBytes(&stream)
	switch {
	case err == nil && !bytes.Equal(re, enc):
		t.Logf("REPRODUCED (silent loss): DecodeReader returned no error but signature is %v (want 64 bytes)", stream.Signature)
	case err != nil:
		t.Logf("REPRODUCED (spurious error): %v", err)
	default:
		t.Logf("NOT REPRODUCED")
	}
	// without an interface in the way the error surfaces
	psh := types.PartSetHeader{Total: 3, Hash: bytes.Repeat([]byte{1}, 32)}
	e2 := ser.MustEncodeToBytes(psh)
	var p2 types.PartSetHeader
	_, err = ser.DecodeReader(&dataEOFByteReader{b: e2}, &p2, int64(len(e2)))
	t.Logf("PartSetHeader through the same reader: err=%v (whole-buffer decode succeeds)", err)
}

// key: stream-mismatch/consensus.WALDecoder/short-read
// WALDecoder.Decode calls rd.Read once per field instead of io.ReadFull: over
// a reader that returns short reads a clean log does not decode.
func TestReproWALDecoderShortRead(t *testing.T) {
	var buf bytes.Buffer
	enc := consensus.NewWALEncoder(&buf)
	for h := uint64(1); h <= 3; h++ {
		if err := enc.Encode(&consensus.TimedWALMessage{Time: time.Unix(1600000000, 0).UTC(), Msg: consensus.EndHeightMessage{Height: h}}); err != nil {
			t.Fatal(err)
		}
	}
	count := func(dec *consensus.WALDecoder) (int, error) {
		n := 0
		for {
			_, err := dec.Decode()
			if err != nil {
				return n, err
			}
			n++
		}
	}
	nw, ew := count(consensus.NewWALDecoder(bytes.NewReader(buf.Bytes())))
	ns, es := count(consensus.NewWALDecoder(iotest.OneByteReader(bytes.NewReader(buf.Bytes()))))
	verdict := "NOT REPRODUCED"
	if ns != nw {
		verdict = "REPRODUCED"
	}
	t.Logf("%s: whole buffer: %d records then %v; one-byte reads: %d records then %v", verdict, nw, ew, ns, es)
}

// probe decoded-value-panic-on-reencode / encode-panic/types.(*Log).EncodeSER:
// an empty list in a receipt's log slot decodes to a nil *Log, and encoding a
// receipt with a nil *Log panics (EncodeSER on a nil receiver). Not raised as
// a violation (the safety clause of the property is about decoding).
func TestReproNilLogEncodePanic(t *testing.T) {
	r := &types.Receipt{Logs: []*types.Log{nil}}
	defer func() {
		if p := recover(); p != nil {
			t.Logf("REPRODUCED: encoding a receipt with a nil log panics: %v", p)
		}
	}()
	bz, err := ser.EncodeToBytes(r)
	t.Logf("NOT REPRODUCED: %x %v", bz, err)
	_ = fmt.Sprint
}

// key: panic/libs/trie.compactToHex/slice-bounds
// A trie node blob C2 80 80 (a 2-item list = short node whose key string is
// empty). Expected: decode error (or a node). Actual before the fix in /repo
// 34507ad: decodeNode -> decodeShort -> compactToHex(empty) slices base[2:]
// of a 1-element slice: "slice bounds out of range [2:1]". Reachable through
// trie.Sync.Process (state.NewStateSync), NewSync/AddSubTrie's read of the
// local database and trie.VerifyProof. Fix (as upstream go-ethereum): return
// early from compactToHex when len(compact) == 0.
func TestReproTrieEmptyKeyPanic(t *testing.T) {
	blob := []byte{0xC2, 0x80, 0x80}
	defer func() {
		if r := recover(); r != nil {
			t.Logf("REPRODUCED: trie.Sync.Process(node %x) panicked: %v", blob, r)
		}
	}()
	s := trie.NewSync(trieRoot, dbm.NewMemDB(), nil)
	_, _, err := s.Process([]trie.SyncResult{{Hash: trieRoot, Data: blob}})
	t.Logf("NOT REPRODUCED: err=%v", err)
}

// The two oracles of rawsplit.go / retain.go that no defect of the unchanged
// tree reaches, demonstrated on the inputs they were built for (these PASS on
// the unchanged tree and fail when the corresponding seeded change is applied).
func TestRawSplitHugeSizes(t *testing.T) {
	for _, in := range [][]byte{
		{0xBF, 0xFF, 0xFF, 0xFF, 0xFF, 0xFF, 0xFF, 0xFF, 0xFF},
		{0xFF, 0xFF, 0xFF, 0xFF, 0xFF, 0xFF, 0xFF, 0xFF, 0xF8, 0xAA, 0xBB},
	} {
		func() {
			defer func() {
				if r := recover(); r != nil {
					t.Errorf("Split(%x) panicked: %v", in, r)
				}
			}()
			if _, _, _, err := ser.Split(in); err == nil {
				t.Errorf("Split(%x) accepted", in)
			}
			if it := refRead(in); it.v != refBad {
				t.Errorf("reference reader accepts %x", in)
			}
		}()
	}
}

func TestRetainedEncodingStable(t *testing.T) {
	a := ser.MustEncodeToBytes(uint64(0xdeadbeef01))
	snap := append([]byte{}, a...)
	ser.MustEncodeToBytes(uint64(0x1122334455))
	if !bytes.Equal(a, snap) {
		t.Errorf("retained encoding changed: was %x now %x", snap, a)
	}
}
