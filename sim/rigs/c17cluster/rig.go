// Package c17cluster is the cluster part of C17 (proposer agreement at equal
// height/round however reached; correct proposers' FaultValidatorsEvidence
// accepted by all correct nodes), usable on its own (checks/c17x, a
// development aid) and as a part of the composite C17 check.
package c17cluster

import (
	"time"

	"verif/sim/cluster"
	"verif/sim/kernel"
)

// Run performs one cluster run in proposer mode.
func Run(c *kernel.Ctx) { cluster.RunMode(c, cluster.ModeProposer) }

// Standalone returns the rig description for the stand-alone development check.
func Standalone() *kernel.Rig {
	return &kernel.Rig{
		Property: "C17", Name: "R-cluster/proposer", Level: "exploration",
		Rule:      "cluster runs as in C01; after every event all pairs of correct nodes at the same (height, round) are compared on the proposer they expect",
		QuickRuns: 200, QuickBudget: 75 * time.Second, ThoroughRuns: 4000, ThoroughBudget: 20 * time.Minute,
		RunsPerProcess: 40, RunTimeout: 600 * time.Second,
		Run: Run,
	}
}
