package ledgerrig

import (
	"math/big"
	"testing"

	"github.com/lianxiangcloud/linkchain/types"

	"verif/sim/txgen"
)

// commitForeign commits a block holding exactly one transaction that did not
// come out of the generator's builders (mempool of the proposer, CheckBlock on
// the second replica, commit on both); the reference ledger is not advanced.
func (rc *reproChain) commitForeign(tx types.Tx) *types.Block {
	t := rc.t
	bs := txgen.BlockSpec{Time: rc.now, Explicit: true, Txs: types.Txs{tx}}
	rc.now += 5
	block, parts, err := rc.P.Propose(bs)
	if err != nil {
		t.Fatal(err)
	}
	seen, err := rc.P.SignCommit(block, parts)
	if err != nil {
		t.Fatal(err)
	}
	for _, r := range []*txgen.Replica{rc.P, rc.V} {
		blk, _ := txgen.CloneBlock(block)
		ok, err := r.Check(blk)
		if err != nil {
			t.Fatal(err)
		}
		if !ok {
			t.Logf("FIXED? replica %s refuses the block carrying the forged transaction", r.Name)
			return nil
		}
		if _, err := r.Commit(blk, blk.MakePartSet(partSize(r)), seen, false); err != nil {
			t.Fatal(err)
		}
	}
	return block
}

// TestReproSurplusPseudoOutAccountInput: an account pays A coins into the
// confidential pool. The transaction carries ONE hidden output whose
// commitment and range proof are made for A - fee + X, and ONE pseudo-out
// commitment to X that belongs to no input (an account->hidden transaction has
// no hidden inputs at all). checkCommitEqual adds every entry of
// RCTSig.P.PseudoOuts to the input side of the balance equation, and nothing
// compares their number with the number of hidden inputs: mempool and
// CheckBlock accept, the recipient wallet decodes an output worth X more than
// was paid in, and withdraws it to a plain account with an ordinary (ring size
// 2, MLSAG) spend: the public coin supply ends up above the genesis supply.
func TestReproSurplusPseudoOutAccountInput(t *testing.T) {
	if !txgen.UtxoReady() {
		t.Skip("xcrypto model not installed")
	}
	rc := newReproChain(t, 31)
	gen := rc.gen
	genesis := rc.supply()
	unit := gen.UnitOf(txgen.Native)

	// block 1: an honest deposit (so that a ring of two exists later)
	var fund *txgen.Item
	for i := 0; i < 50 && fund == nil; i++ {
		fund = gen.AccToUtxo(gen.Accts[1], txgen.Native)
	}
	if fund == nil {
		t.Fatalf("could not build the honest deposit: %v", gen.LastUtxoError)
	}
	rc.commit([]*txgen.Item{fund}, true)

	// block 2: the forged deposit
	var honest *txgen.Item
	for i := 0; i < 50 && honest == nil; i++ {
		honest = gen.AccToUtxo(gen.Accts[0], txgen.Native)
	}
	if honest == nil {
		t.Fatalf("could not build the base deposit: %v", gen.LastUtxoError)
	}
	gen.Reset()
	x := txgen.LK(5000000) // X = 5,000,000 coins, more than the whole genesis supply
	xUnits := new(big.Int).Div(x, unit)
	forged, val, err := gen.ForgeAccToUtxo(honest, txgen.RctForge{InflateUnits: xUnits, SurplusIn: []*big.Int{xUnits}})
	if err != nil {
		t.Fatal(err)
	}
	u := forged.(*types.UTXOTransaction)
	t.Logf("forged deposit: account input %v, fee %v, %d hidden output(s) worth %v, %d hidden inputs, %d pseudo-out(s)", u.Inputs[0].(*types.AccountInput).Amount, u.Fee, len(u.RCTSig.OutPk), val.HiddenOut, 0, len(u.RCTSig.P.PseudoOuts))
	poolCopy, _ := txgen.CloneTx(forged)
	errPool := rc.V.Submit(poolCopy)
	t.Logf("mempool AddTx(forged) on the second replica = %v", errPool)
	blk := rc.commitForeign(forged)
	if blk == nil {
		if errPool == nil {
			t.Errorf("mempool accepted what CheckBlock refuses")
		}
		return
	}
	amounts, err := gen.AdoptOutputs(u, blk.Height)
	if err != nil {
		t.Fatal(err)
	}
	t.Logf("committed at height %d; the recipient wallet decodes hidden output(s) worth %v", blk.Height, amounts)

	// block 3: the recipient withdraws the inflated output to a plain account (MLSAG, ring of two)
	var w *txgen.Wallet
	for _, h := range gen.L.Hidden[txgen.Native] {
		if !h.Spent && h.Amount.Cmp(x) > 0 {
			w = gen.Wallets()[h.Owner]
		}
	}
	var out *txgen.Item
	for i := 0; i < 200 && out == nil; i++ {
		gen.Reset()
		it := gen.UtxoSpend(txgen.SpendOpts{Wallet: w, Token: txgen.Native, ToAccount: true, RingSize: 2})
		if it != nil && it.Value.Cmp(x) > 0 {
			out = it
		}
	}
	if out == nil {
		t.Fatalf("could not build the withdrawal: %v", gen.LastUtxoError)
	}
	t.Logf("withdrawal: %s", out.Note)
	rc.commit([]*txgen.Item{out}, true)
	now := rc.supply()
	t.Logf("sum over ALL accounts: genesis %v, now %v", genesis, now)
	if d := new(big.Int).Sub(now, genesis); d.Sign() > 0 {
		t.Errorf("DEFECT REPRODUCED: the public coin supply is %v wei above the genesis supply: a pseudo-out commitment that belongs to no input was counted on the input side of the balance equation", d)
	}
}

// TestReproSurplusPseudoOutShortRing: the same with a hidden input spent with
// a ring of one member (classic ring signature path, which never looks at the
// pseudo-outs): one real input, two pseudo-outs.
func TestReproSurplusPseudoOutShortRing(t *testing.T) {
	if !txgen.UtxoReady() {
		t.Skip("xcrypto model not installed")
	}
	rc := newReproChain(t, 32)
	gen := rc.gen
	unit := gen.UnitOf(txgen.Native)
	var fund *txgen.Item
	for i := 0; i < 50 && fund == nil; i++ {
		fund = gen.AccToUtxo(gen.Accts[0], txgen.Native)
	}
	if fund == nil {
		t.Fatalf("could not build the deposit: %v", gen.LastUtxoError)
	}
	rc.commit([]*txgen.Item{fund}, true)
	var fund2 *txgen.Item
	for i := 0; i < 50 && fund2 == nil; i++ {
		fund2 = gen.AccToUtxo(gen.Accts[1], txgen.Native)
	}
	if fund2 == nil {
		t.Fatalf("could not build the second deposit: %v", gen.LastUtxoError)
	}
	rc.commit([]*txgen.Item{fund2}, true)
	var w *txgen.Wallet
	for _, h := range gen.L.Hidden[txgen.Native] {
		w = gen.Wallets()[h.Owner]
	}
	xUnits := new(big.Int).Div(txgen.LK(5000000), unit)
	// ring of two first (MLSAG: the signature scheme itself insists on one
	// pseudo-out per ring, expected to be refused), then the ring of one
	for _, ringSize := range []int{2, 1} {
		var it *txgen.Item
		var val *txgen.ForgedValue
		for i := 0; i < 100 && it == nil; i++ {
			gen.Reset()
			it, val = gen.UtxoSpendForged(txgen.SpendOpts{Wallet: w, Token: txgen.Native, ToAccount: false, RingSize: ringSize}, txgen.RctForge{InflateUnits: xUnits, SurplusIn: []*big.Int{xUnits}})
		}
		if it == nil {
			t.Logf("ring size %d: not buildable (%v)", ringSize, gen.LastUtxoError)
			continue
		}
		u := it.Tx.(*types.UTXOTransaction)
		cpy, _ := txgen.CloneTx(it.Tx)
		err := rc.V.Submit(cpy)
		t.Logf("ring size %d: spends hidden %v, creates hidden %v, fee %v, %d hidden input(s), %d pseudo-outs: mempool AddTx = %v", len(u.Inputs[0].(*types.UTXOInput).KeyOffset), val.HiddenIn, val.HiddenOut, u.Fee, len(u.Inputs), len(u.RCTSig.P.PseudoOuts), err)
		if err == nil && ringSize > 1 {
			t.Errorf("UNEXPECTED: the MLSAG path accepts it too")
		} else if err == nil {
			t.Errorf("DEFECT REPRODUCED (ring size %d): the mempool accepts a spend of %v that creates hidden outputs worth %v", ringSize, val.HiddenIn, val.HiddenOut)
		}
	}
	gen.Reset()
}
