package ledgerrig

import (
	"fmt"
	"math/big"
	"sort"
	"testing/synctest"

	"github.com/lianxiangcloud/linkchain/libs/common"
	"github.com/lianxiangcloud/linkchain/types"

	"verif/sim/simdb"
	"verif/sim/simnode"
	"verif/sim/txgen"
)

// supplyEffect commits a block holding exactly tx on a scratch replica opened
// from a snapshot of the trie replica's disk (the replicas of the run are not
// touched) and returns, per token, how the total supply changes by the plain
// value model: Σ over all accounts of the scratch state after the block,
// minus Σ over all accounts before, plus hiddenDelta for the token the
// transaction moves (value of the hidden outputs it creates minus the true
// value of the ones it spends). No transaction of the kinds offered here
// issues or self-destructs anything, so every entry must be zero.
// committed=false: the scratch replica itself refused the block.
func (rs *rigState) supplyEffect(tx types.Tx, token common.Address, hiddenDelta *big.Int) (diff map[common.Address]*big.Int, committed bool, err error) {
	rs.scratch++
	img := rs.diskT.Snapshot()
	disk := simdb.NewDiskFromImage(img, scratchDir(rs.c, fmt.Sprintf("scratch-%d", rs.scratch)))
	S, err := txgen.OpenReplica("scratch", rs.specT, disk, simnode.ChainOpts{})
	if err != nil {
		return nil, false, err
	}
	defer func() {
		for pass := 0; pass < 2; pass++ {
			S.Chain.Close()
			synctest.Wait()
		}
	}()
	before, _ := enumerateReplica(rs.T)
	cp, err := txgen.CloneTx(tx)
	if err != nil {
		return nil, false, err
	}
	if _, err := S.Step(txgen.BlockSpec{Explicit: true, Txs: types.Txs{cp}, Time: rs.now}); err != nil {
		return nil, false, nil
	}
	after, _ := enumerateReplica(S)
	diff = map[common.Address]*big.Int{}
	for t, v := range after {
		diff[t] = new(big.Int).Set(v)
	}
	for t, v := range before {
		if diff[t] == nil {
			diff[t] = new(big.Int)
		}
		diff[t].Sub(diff[t], v)
	}
	if hiddenDelta != nil {
		if diff[token] == nil {
			diff[token] = new(big.Int)
		}
		diff[token].Add(diff[token], hiddenDelta)
	}
	return diff, true, nil
}

// effectString renders the non-zero entries of a supply effect.
func effectString(diff map[common.Address]*big.Int) (string, bool) {
	var toks []common.Address
	for t, v := range diff {
		if v.Sign() != 0 {
			toks = append(toks, t)
		}
	}
	if len(toks) == 0 {
		return "total supply unchanged", false
	}
	sort.Slice(toks, func(i, j int) bool { return string(toks[i][:]) < string(toks[j][:]) })
	s := ""
	for _, t := range toks {
		s += fmt.Sprintf("total supply of %s changes by %+d; ", tokName(t), diff[t])
	}
	return s[:len(s)-2], true
}
