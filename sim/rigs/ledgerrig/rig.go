// Package ledgerrig is the C06 rig: no transaction or block creates or
// destroys value. Blocks of generated transactions (every kind txgen knows) are
// committed on a trie-mode and a kv-mode replica; after every block the value
// held by all accounts of the chain (enumerated from the state trie) plus the
// unspent hidden outputs of the generator's ledger is compared with the
// previous total, per token, and every known account with the reference
// ledger, which is advanced from receipts and transaction contents only.
// Tampered confidential transactions must be refused by the mempool and inside
// blocks.
package ledgerrig

import (
	"fmt"
	"math/big"
	"os"
	"path/filepath"
	"sort"
	"testing/synctest"
	"time"

	"github.com/lianxiangcloud/linkchain/config"
	"github.com/lianxiangcloud/linkchain/libs/common"
	"github.com/lianxiangcloud/linkchain/libs/crypto"
	"github.com/lianxiangcloud/linkchain/libs/log"
	"github.com/lianxiangcloud/linkchain/state"
	"github.com/lianxiangcloud/linkchain/types"

	"verif/sim/kernel"
	"verif/sim/simdb"
	"verif/sim/simnode"
	"verif/sim/txgen"
)

func init() {
	log.Root().SetHandler(log.DiscardHandler())
	kernel.Register(&kernel.Rig{
		Property: "C06", Name: "R-chain/ledger", Level: "exploration",
		Rule:        "one run = one seeded transaction mix (swarm weights over plain/token transfers incl. over-balance ones, EVM creations and calls that succeed/revert/hit INVALID/run out of gas at a swept limit, token issue, self-destruct to self/others, value sent after self-destruct, forwarding contracts, multi-signature and upgrade transactions, account->hidden, hidden->hidden with rings from the output index, hidden->account) plus, in 3 of 4 runs, directed transactions appended to every block (contracts holding coin and issued tokens reached by SELFDESTRUCT several times per block and, through a contract that CALLs its target k times, several times per transaction, towards itself / fresh / account / contract / dead contract beneficiaries, also carrying a token as call value; the same inside frames that REVERT or hit INVALID after the inner calls succeeded, at depth 1-2; a contract paying coin and tokens out with TRANSFERTOKEN, covered or not, reverted or repeated; ISSUE repeated and reverted; token-carrying calls that fail; coin and tokens sent to the address of a contract created later in the block; all-or-nothing value-carrying call trees with the gas limit swept across the inner transfer fees; issued tokens entering and leaving the hidden pool) x 2-12 blocks built from an explicit list or through the mempool, committed on a trie-mode and a kv-mode replica; after every block: sum over ALL trie accounts + unspent hidden outputs == previous total + issued - self-destructed-to-self (per token), every known account == reference ledger on both replicas, fees debited == collector credit == gasUsed x price, failed receipts moved fees only; tampered confidential transactions (coin and issued tokens; altered after signing, and altered BEFORE signing so that every signature and proof verifies and only the balance between public amounts and commitments in whole units is broken: account output / fee of k units + r, raised outputs, raised or lowered fee, amounts wrapping 2^64 units; and with a hand-built RingCT stage whose per-output / per-input lists do not match the outputs and inputs while the commitment equation holds and all signatures are made afterwards: surplus output commitments to negative amounts, surplus pseudo-outs, outputs the range proof does not cover or without commitment; surplus/deficit encrypted amounts, additional keys, range-proof entries) offered to the mempool and inside blocks; an accepted one is also committed on a scratch replica opened from a disk snapshot to show its effect on the total supply. Wire-level assembled account transactions (plain, token, contract call, creation; one field set to an out-of-policy or boundary value the constructors normalise: gas price x2/+1/xN/2^64/2^200/-1/half/0/1, gas limit around intrinsic and around the fee rule/0/2^63/max, amount 0/2^255/2^256(+original), nonce gap/replay/max) offered the same way: no panic, and if CheckBlock accepts, committing on a scratch replica leaves the supply of every token unchanged. non-trivial = >= 2 blocks and >= 6 transactions committed with at least one failed receipt or one designed exception; distinct = hash of the per-block (state hash, receipt hash, totals)",
		Real:        []string{"app.LinkApplication (CreateBlock, PreRunBlock, CheckBlock, CommitBlock)", "app state processor / state transition", "state.StateDB in trie and kv mode", "vm/evm interpreter incl. token opcodes", "mempool (AddTx, Reap, Update)", "types transaction checks (CheckBasic/CheckState, UTXO commitment balance, ring signatures)", "blockchain.BlockStore", "utxo.UtxoStore", "txmgr", "consensus.BlockExecutor.ApplyBlock/validateBlock", "secp256k1"},
		Stub:        []string{"consensus state machine (single-validator commit signed by the harness)", "storage engine (SimDB)", "libxcrypto (pure-Go model: group arithmetic real, range proof transparent)", "fee-distribution WASM contract not deployed (fees stay on the collector account)"},
		Assumptions: []string{"the embedded EVM contracts behave as their 10-line models say when given ample gas (gas-tight calls follow the receipt)", "WASM contracts are exercised in C05 only (their effects are not modelled)", "hidden amounts are known to the generator because it created every output"},
		QuickRuns:   1600, QuickBudget: 55 * time.Second, ThoroughRuns: 60000, ThoroughBudget: 15 * time.Minute,
		RunsPerProcess: 60, RunTimeout: 240 * time.Second,
		Run: run,
	})
}

type blockSample struct {
	H      uint64   `json:"h"`
	Path   string   `json:"path"`
	Txs    []string `json:"txs"`
	Failed int      `json:"failed"`
	Gas    uint64   `json:"gas"`
}

type sample struct {
	Blocks []blockSample     `json:"blocks"`
	Totals map[string]string `json:"totals"`
	Tamper []string          `json:"tamper,omitempty"`
}

type rigState struct {
	c       *kernel.Ctx
	gen     *txgen.Gen
	T, K    *txgen.Replica
	genesis map[common.Address]*big.Int // token -> genesis supply
	smp     sample
	txCount int
	failed  int
	except  int
	now     uint64
	sc      *scenario
	diskT   *simdb.Disk          // the trie replica's disk (scratch replicas are opened from its snapshots)
	specT   *simnode.GenesisSpec // and its genesis spec
	scratch int
	unit    *big.Int // commitment unit of the token the current tampered transaction moves
}

func scratchDir(c *kernel.Ctx, name string) string {
	base := os.Getenv("VERIF_SCRATCH")
	if base == "" {
		base = os.TempDir()
	}
	d := filepath.Join(base, fmt.Sprintf("c06-%d", c.Tape.Seed()), name)
	os.MkdirAll(d, 0755)
	return d
}

func run(c *kernel.Ctx) {
	defer os.RemoveAll(filepath.Dir(scratchDir(c, "x")))
	kernel.Bubble(c, false, func() { runIn(c) })
}

func valKeys(seed uint64, n int) []simnode.ValKey {
	var out []simnode.ValKey
	for i := 0; i < n; i++ {
		var cb common.Address
		copy(cb[:], crypto.Keccak256([]byte(fmt.Sprintf("c06-coinbase-%d", i)))[:20])
		out = append(out, simnode.ValKey{Priv: crypto.GenPrivKeyEd25519FromSecret([]byte(fmt.Sprintf("c06-val-%d-%d", i, seed))), Power: int64(10 + i), CoinBase: cb})
	}
	return out
}

func runIn(c *kernel.Ctx) {
	cfgT, wl := c.Tape.Fork("config"), c.Tape.Fork("workload")
	seed := c.Tape.Seed()
	nVals := 1 + cfgT.Int(3)
	vals := valKeys(seed, nVals)
	nBlocks := cfgT.Range(2, 6)
	maxTxs := cfgT.Range(3, 10)
	if c.Tier == kernel.Thorough {
		nBlocks = cfgT.Range(3, 12)
		maxTxs = cfgT.Range(3, 16)
	}
	gen := txgen.New(wl, txgen.Config{Accounts: 3 + cfgT.Int(4), BlockOnly: true, Utxo: true, Validators: vals})
	rs := &rigState{c: c, gen: gen, genesis: map[common.Address]*big.Int{}, now: 946684800 + 10, unit: lkcUnit}
	// directed part of the workload (scenario.go): on in most runs
	rs.sc = &scenario{t: c.Tape.Fork("scenario"), on: cfgT.Pick(1, 3) == 1}
	rs.smp.Totals = map[string]string{}

	open := func(name string, isTrie bool) *txgen.Replica {
		spec := &simnode.GenesisSpec{ChainID: "verif-c06", Vals: vals, Alloc: gen.Alloc(), IsTrie: isTrie}
		disk := simdb.NewDisk(scratchDir(c, name))
		if err := spec.Install(disk); err != nil {
			c.HarnessTrouble("genesis %s: %v", name, err)
			return nil
		}
		r, err := txgen.OpenReplica(name, spec, disk, simnode.ChainOpts{})
		if err != nil {
			c.HarnessTrouble("open %s: %v", name, err)
			return nil
		}
		if isTrie {
			rs.diskT, rs.specT = disk, spec
		}
		return r
	}
	rs.T, rs.K = open("trie", true), open("kv", false)
	defer func() {
		// the mempool has two routines behind one unbuffered quit channel
		for pass := 0; pass < 2; pass++ {
			for _, r := range []*txgen.Replica{rs.T, rs.K} {
				if r != nil {
					r.Chain.Close()
				}
			}
			synctest.Wait()
		}
	}()
	if rs.T == nil || rs.K == nil {
		return
	}
	gen.Outputs = func(token common.Address, seq uint64) (*types.UTXOOutputData, error) {
		return rs.T.Chain.UtxoStore.GetUtxoOutput(token, seq)
	}
	gen.Cfg.UTXOGas = rs.T.Chain.App.GetUTXOGas()
	gen.KnowGenesis(config.ContractValidatorsAddr, common.EmptyAddress)
	for _, v := range vals {
		gen.KnowGenesis(v.CoinBase)
	}
	// genesis supply from the trie itself (not from what the generator asked for)
	tot, _ := rs.enumerate()
	for t, v := range tot {
		rs.genesis[t] = v
	}
	if rs.genesis[txgen.Native] == nil {
		rs.genesis[txgen.Native] = new(big.Int)
	}

	for b := 0; b < nBlocks && !c.Failed(); b++ {
		n := 1 + wl.Int(maxTxs)
		viaPool := wl.Bool(1, 3)
		if !rs.block(n, viaPool) {
			break
		}
		if txgen.UtxoReady() && wl.Bool(1, 2) {
			rs.tamperRound()
		}
		if !c.Failed() && wl.Bool(1, 2) {
			rs.wireRound()
		}
	}
	if len(rs.smp.Blocks) >= 2 && rs.txCount >= 6 && (rs.failed > 0 || rs.except > 0) {
		c.NonTrivial()
	}
	for _, t := range gen.L.Tokens() {
		rs.smp.Totals[tokName(t)] = fmt.Sprintf("public %v hidden %v issued %v destroyed %v", gen.L.PublicSupply(t), gen.L.HiddenSupply(t), nz(gen.L.Issued[t]), nz(gen.L.Destroyed[t]))
	}
	if len(rs.smp.Blocks) > 4 {
		rs.smp.Blocks = rs.smp.Blocks[:4]
	}
	c.Sample(rs.smp)
}

func nz(v *big.Int) *big.Int {
	if v == nil {
		return new(big.Int)
	}
	return v
}

func tokName(t common.Address) string {
	if t == txgen.Native {
		return "coin"
	}
	return fmt.Sprintf("%x", t[:4])
}

// block generates, commits and checks one block. false = stop the run.
func (rs *rigState) block(n int, viaPool bool) bool {
	c, gen := rs.c, rs.gen
	items := gen.Batch(n)
	if extra := rs.scenarioItems(); len(extra) > 0 {
		// directed transactions may call contracts created earlier in the same
		// block (no code yet when the mempool looks): explicit list only
		items = append(items, extra...)
		viaPool = false
	}
	for _, it := range items {
		if it.BlockOnly {
			viaPool = false // the mempool's state check refuses these by design
		}
	}
	path := "list"
	if viaPool {
		path = "pool"
		for _, it := range items {
			tx, err := txgen.CloneTx(it.Tx)
			if err != nil {
				c.HarnessTrouble("clone tx: %v", err)
				return false
			}
			if err := rs.T.Submit(tx); err != nil {
				c.HarnessTrouble("mempool refused a valid generated transaction (%s): %v", it.Note, err)
				return false
			}
		}
	}
	return rs.commitItems(items, path)
}

// commitItems commits one block holding exactly items (path "pool": they are
// already in the trie replica's mempool; otherwise an explicit list), on both
// replicas, advances the ledger and evaluates the oracle.
func (rs *rigState) commitItems(items []*txgen.Item, path string) bool {
	c, gen := rs.c, rs.gen
	bs := txgen.BlockSpec{Time: rs.now}
	rs.now += uint64(1 + gen.T.Int(20))
	if path != "pool" {
		bs.Explicit, bs.Txs = true, txgen.Txs(items)
	}
	block, parts, err := rs.T.Propose(bs)
	if err != nil {
		if pp, ok := err.(*txgen.ProposePanic); ok {
			// find the first transaction the validity stage refuses
			culprit := ""
			for k := 1; k <= len(items) && path != "pool"; k++ {
				if _, _, e := rs.T.Propose(txgen.BlockSpec{Explicit: true, Txs: txgen.Txs(items[:k]), Time: bs.Time}); e != nil {
					culprit = fmt.Sprintf("; first refused: #%d %s [%s]", k-1, items[k-1].Note, items[k-1].Kind)
					break
				}
			}
			c.HarnessTrouble("generated block refused by PreRunBlock (%s)%s: %v", describe(items), culprit, pp)
		} else {
			c.HarnessTrouble("propose: %v", err)
		}
		return false
	}
	if len(block.Data.Txs) != len(items) {
		c.HarnessTrouble("block has %d txs, generated %d (path %s)", len(block.Data.Txs), len(items), path)
		return false
	}
	seen, err := rs.T.SignCommit(block, parts)
	if err != nil {
		c.HarnessTrouble("sign: %v", err)
		return false
	}
	for _, r := range []*txgen.Replica{rs.T, rs.K} {
		blk, err := txgen.CloneBlock(block)
		if err != nil {
			c.HarnessTrouble("clone: %v", err)
			return false
		}
		ok, err := r.Check(blk)
		if err != nil {
			c.Violate("panic", "panic/CheckBlock", "replica %s: %v", r.Name, err)
			return false
		}
		if !ok {
			c.Violate("replica", "reject/"+r.Name+"-replica-rejects-honest-block", "replica %s rejected the block built on the trie replica at height %d (%s)", r.Name, block.Height, describe(items))
			return false
		}
		if _, err := r.Commit(blk, blk.MakePartSet(partSize(r)), seen, false); err != nil {
			c.HarnessTrouble("commit on %s: %v", r.Name, err)
			return false
		}
	}
	c.Event(len(items))
	receipts := rs.T.Receipts(block.Height)
	committed, err := gen.Committed(block.Height, block.Data.Txs, receipts)
	if err != nil {
		c.HarnessTrouble("ledger: %v", err)
		return false
	}
	bsmp := blockSample{H: block.Height, Path: path}
	for i, it := range committed {
		c.Probe("kind/" + string(it.Kind))
		if it.Token != txgen.Native {
			c.Probe("token-flavour/" + string(it.Kind))
		}
		st := "ok"
		if it.Kind != txgen.KMultiSign && receipts[i].Status != types.ReceiptStatusSuccessful {
			st = "FAILED(" + receipts[i].VMErr + ")"
			rs.failed++
			bsmp.Failed++
			c.Probe("failed/" + string(it.Kind))
		}
		bsmp.Txs = append(bsmp.Txs, it.Note+" => "+st)
		bsmp.Gas += receipts[i].GasUsed
	}
	rs.txCount += len(committed)
	rs.smp.Blocks = append(rs.smp.Blocks, bsmp)
	return rs.oracle(block, receipts)
}

func partSize(r *txgen.Replica) int {
	return r.Chain.Status.ConsensusParams.BlockGossip.BlockPartSizeBytes
}

func describe(items []*txgen.Item) string {
	s := ""
	for i, it := range items {
		if i > 0 {
			s += "; "
		}
		s += string(it.Kind)
	}
	return s
}

// enumerate walks the account trie of the trie-mode replica and returns the
// per-token totals and the per-account view.
func (rs *rigState) enumerate() (map[common.Address]*big.Int, map[common.Address]state.DumpAccount) {
	return enumerateReplica(rs.T)
}

func enumerateReplica(r *txgen.Replica) (map[common.Address]*big.Int, map[common.Address]state.DumpAccount) {
	st := r.Chain.App.GetLatestStateDB()
	dump := st.RawDump()
	tot := map[common.Address]*big.Int{txgen.Native: new(big.Int)}
	accts := map[common.Address]state.DumpAccount{}
	for hexAddr, a := range dump.Accounts {
		addr := common.HexToAddress(hexAddr)
		accts[addr] = a
		b, _ := new(big.Int).SetString(a.Balance, 10)
		tot[txgen.Native].Add(tot[txgen.Native], b)
		for t, v := range a.Tokens {
			if tot[t] == nil {
				tot[t] = new(big.Int)
			}
			tot[t].Add(tot[t], v)
		}
	}
	return tot, accts
}

func sortedAddrs(m map[common.Address]*big.Int) []common.Address {
	var out []common.Address
	for a := range m {
		out = append(out, a)
	}
	sort.Slice(out, func(i, j int) bool { return string(out[i][:]) < string(out[j][:]) })
	return out
}

// oracle evaluates the conservation statement after a committed block.
func (rs *rigState) oracle(block *types.Block, receipts types.Receipts) bool {
	c, L := rs.c, rs.gen.L
	h := block.Height
	for _, m := range L.Mismatches {
		if c.Violate("model", m.Key, "height %d: %s", h, m.Msg) {
			return false
		}
	}
	L.Mismatches = nil

	// fees: block gas == sum of receipt gas
	sumGas := uint64(0)
	for _, r := range receipts {
		sumGas += r.GasUsed
	}
	if tr, err := rs.T.Chain.BlockStore.LoadTxsResult(h); err == nil && tr.GasUsed != sumGas {
		if c.Violate("fees", "fees/block-gas-differs-from-receipts", "height %d: block gasUsed %d, receipts sum to %d", h, tr.GasUsed, sumGas) {
			return false
		}
	}

	tot, accts := rs.enumerate()
	atCreation := L.TokensAtCreation
	L.TokensAtCreation = nil
	for range atCreation {
		c.Probe("tokens-at-address-of-new-contract")
	}
	// 1. global conservation per token over ALL accounts of the trie
	tokens := map[common.Address]bool{}
	for t := range tot {
		tokens[t] = true
	}
	for _, t := range L.Tokens() {
		tokens[t] = true
	}
	var toks []common.Address
	for t := range tokens {
		toks = append(toks, t)
	}
	sort.Slice(toks, func(i, j int) bool { return string(toks[i][:]) < string(toks[j][:]) })
	for _, t := range toks {
		if L.OpaqueTokens[t] {
			continue
		}
		have := new(big.Int).Add(nz(tot[t]), L.HiddenSupply(t))
		want := new(big.Int).Add(nz(rs.genesis[t]), nz(L.Issued[t]))
		want.Sub(want, nz(L.Destroyed[t]))
		if lost := nz(L.Lost[t]); lost.Sign() > 0 {
			// value the model itself predicts to vanish outside the designed exceptions
			if c.Violate("conservation", "destroyed/value-sent-to-selfdestructed-contract-in-same-block", "height %d: %v of %s sent to a contract after its SELFDESTRUCT in the same block vanished when the block was finalised", h, lost, tokName(t)) {
				return false
			}
			c.Probe("lost-after-selfdestruct")
			want.Sub(want, lost)
		}
		if forged := nz(L.Forged[t]); forged.Sign() > 0 {
			// hidden value a deliberately unbalanced transaction claimed without owning it
			if c.Violate("inflation", "inflation/short-ring-pseudo-out-unbound", "height %d: a ring-size-1 spend claiming %v more %s than its input holds was committed: supply grows by that amount", h, forged, tokName(t)) {
				return false
			}
			want.Add(want, forged)
		}
		c.Evals(1)
		if have.Cmp(want) != 0 {
			d := new(big.Int).Sub(have, want)
			class := "created"
			if d.Sign() < 0 {
				class = "destroyed"
			}
			if at := nz(atCreation[t]); d.Sign() < 0 && at.Sign() > 0 {
				// the block created a contract at an address that held this token
				c.Violate("conservation", "destroyed/tokens-at-address-when-contract-created-there", "height %d token %s: %v sat at an address when a contract was created there; all accounts %v + hidden %v = %v, expected %v (diff %v): tokens held by the address must survive the creation like its coin does",
					h, tokName(t), at, nz(tot[t]), L.HiddenSupply(t), have, want, d)
				return false
			}
			c.Violate("conservation", "supply/"+class, "height %d token %s: all accounts %v + hidden %v = %v, expected genesis %v + issued %v - self-destructed %v = %v (diff %v)",
				h, tokName(t), nz(tot[t]), L.HiddenSupply(t), have, nz(rs.genesis[t]), nz(L.Issued[t]), nz(L.Destroyed[t]), want, d)
			return false
		}
	}
	// 2. every known account equals the ledger, on both replicas; no unknown account holds value
	kst := rs.K.Chain.App.GetLatestStateDB()
	tst := rs.T.Chain.App.GetLatestStateDB()
	known := map[common.Address]bool{}
	for _, a := range L.Universe() {
		known[a] = true
		if L.Opaque[a] {
			continue
		}
		for _, t := range L.Tokens() {
			if L.OpaqueTokens[t] {
				continue
			}
			want := L.Balance(t, a)
			for _, rp := range []struct {
				n  string
				st *state.StateDB
			}{{"trie", tst}, {"kv", kst}} {
				var got *big.Int
				if t == txgen.Native {
					got = rp.st.GetBalance(a)
				} else {
					got = rp.st.GetTokenBalance(a, t)
				}
				c.Evals(1)
				if got.Cmp(want) != 0 {
					c.Violate("ledger", "account/"+rp.n+"/"+role(rs, a), "height %d: %s replica holds %v of %s for %s %x, reference ledger says %v", h, rp.n, got, tokName(t), role(rs, a), a, want)
					return false
				}
			}
		}
		if isTracked(rs, a) {
			wantN := L.Nonce(a)
			if gotT, gotK := tst.GetNonce(a), kst.GetNonce(a); gotT != wantN || gotK != wantN {
				c.Violate("ledger", "nonce/"+role(rs, a), "height %d: nonce of %s %x is %d (trie) / %d (kv), ledger says %d", h, role(rs, a), a, gotT, gotK, wantN)
				return false
			}
		}
	}
	for a, d := range accts {
		if known[a] {
			continue
		}
		b, _ := new(big.Int).SetString(d.Balance, 10)
		nonZero := b.Sign() != 0
		for _, v := range d.Tokens {
			if v.Sign() != 0 {
				nonZero = true
			}
		}
		if nonZero {
			c.Violate("ledger", "account/unknown-holder", "height %d: account %x unknown to the ledger holds %s coin / %d token entries", h, a, d.Balance, len(d.Tokens))
			return false
		}
	}
	for _, t := range toks {
		if v := nz(L.Issued[t]); v.Sign() > 0 {
			rs.except++
		}
		if v := nz(L.Destroyed[t]); v.Sign() > 0 {
			rs.except++
		}
	}
	txr, _ := rs.T.Chain.BlockStore.LoadTxsResult(h)
	if txr != nil {
		c.Finger(h, txr.StateHash, txr.ReceiptHash, tot[txgen.Native])
	}
	return true
}

func isTracked(rs *rigState, a common.Address) bool {
	for _, ac := range rs.gen.Accts {
		if ac.Addr == a {
			return true
		}
	}
	return a == types.MultiSignNonceAddr
}

func role(rs *rigState, a common.Address) string {
	switch {
	case a == rs.gen.L.Collector:
		return "fee-collector"
	case a == types.MultiSignNonceAddr:
		return "multisign-nonce"
	case a == common.EmptyAddress:
		return "zero-address"
	}
	for _, ac := range rs.gen.Accts {
		if ac.Addr == a {
			return "sender"
		}
	}
	if ci := rs.gen.L.Contracts[a]; ci != nil {
		return "contract-" + string(ci.Kind)
	}
	return "other"
}
