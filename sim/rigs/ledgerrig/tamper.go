package ledgerrig

import (
	"fmt"
	"math/big"

	"github.com/lianxiangcloud/linkchain/libs/common"
	"github.com/lianxiangcloud/linkchain/libs/cryptonote/ringct"
	lktypes "github.com/lianxiangcloud/linkchain/libs/cryptonote/types"
	"github.com/lianxiangcloud/linkchain/types"

	"verif/sim/txgen"
)

// The rejection side of C06: unbalanced variants of valid confidential
// transactions. Every variant is invalid BY CONSTRUCTION with respect to the
// statement ("accepted only if input commitments equal output commitments plus
// the fee commitment and every hidden amount is proven in range"): the ground
// truth does not come from running the chain's validator. Each variant is
// offered to the kv replica's mempool (must return an error) and, inside a
// block built by the trie replica acting as a Byzantine proposer (PreRunBlock
// performs no commitment checks), to the kv replica's CheckBlock (must be
// false).

type tamper struct {
	name string
	// base: which valid transaction it is derived from
	base string // "ain" | "uin-mlsag" | "uin-short" | "uin-acc"
	// mutate changes utx (a fresh decoded copy of the valid transaction);
	// other is a second, independent valid transaction of the same base;
	// resign reports whether the account signature must be renewed.
	mutate func(rs *rigState, utx, other *types.UTXOTransaction) (resign bool, ok bool)
}

var unit = big.NewInt(types.UTXO_COMMITMENT_CHANGE_RATE)

func ain(utx *types.UTXOTransaction) *types.AccountInput {
	for _, in := range utx.Inputs {
		if a, ok := in.(*types.AccountInput); ok {
			return a
		}
	}
	return nil
}

func aout(utx *types.UTXOTransaction) *types.AccountOutput {
	for _, o := range utx.Outputs {
		if a, ok := o.(*types.AccountOutput); ok {
			return a
		}
	}
	return nil
}

func commitOf(amount *big.Int, cf lktypes.Key) lktypes.Key {
	return types.AmountCommit(new(big.Int).Div(amount, unit), cf)
}

func hCommit(amount *big.Int) lktypes.Key {
	k, err := types.BigInt2Hash(new(big.Int).Div(amount, unit))
	if err != nil {
		return lktypes.Key{}
	}
	return ringct.ScalarmultH(k)
}

var two64 = new(big.Int).Lsh(big.NewInt(1), 64)

var catalogue = []tamper{
	// ---- account -> hidden
	{"ain/outputs-inflated-recomputed-commitments", "ain", func(rs *rigState, u, o *types.UTXOTransaction) (bool, bool) {
		// the whole (internally consistent) output side of a richer transaction on top of this input
		if o == nil || ain(o).Amount.Cmp(ain(u).Amount) <= 0 {
			return false, false
		}
		u.Outputs, u.RKey, u.AddKeys = o.Outputs, o.RKey, o.AddKeys
		u.RCTSig.OutPk, u.RCTSig.EcdhInfo, u.RCTSig.P.Bulletproofs = o.RCTSig.OutPk, o.RCTSig.EcdhInfo, o.RCTSig.P.Bulletproofs
		return true, true
	}},
	{"ain/outputs-inflated-stale-commitments", "ain", func(rs *rigState, u, o *types.UTXOTransaction) (bool, bool) {
		// range proof and encrypted amounts of other outputs, commitments kept
		if o == nil || len(o.RCTSig.OutPk) != len(u.RCTSig.OutPk) {
			return false, false
		}
		u.RCTSig.EcdhInfo, u.RCTSig.P.Bulletproofs = o.RCTSig.EcdhInfo, o.RCTSig.P.Bulletproofs
		return false, true
	}},
	{"ain/range-proof-swapped", "ain", func(rs *rigState, u, o *types.UTXOTransaction) (bool, bool) {
		if o == nil {
			return false, false
		}
		u.RCTSig.P.Bulletproofs = o.RCTSig.P.Bulletproofs
		return false, true
	}},
	{"ain/fee-raised", "ain", func(rs *rigState, u, o *types.UTXOTransaction) (bool, bool) {
		u.Fee = new(big.Int).Add(u.Fee, big.NewInt(types.ParGasPrice))
		return true, true
	}},
	{"ain/fee-lowered", "ain", func(rs *rigState, u, o *types.UTXOTransaction) (bool, bool) {
		u.Fee = new(big.Int).Sub(u.Fee, big.NewInt(types.ParGasPrice))
		return true, u.Fee.Sign() >= 0
	}},
	{"ain/amount-lowered-stale-commitment", "ain", func(rs *rigState, u, o *types.UTXOTransaction) (bool, bool) {
		a := ain(u)
		a.Amount = new(big.Int).Sub(a.Amount, unit)
		return true, a.Amount.Sign() > 0
	}},
	{"ain/amount-lowered-recomputed-commitment", "ain", func(rs *rigState, u, o *types.UTXOTransaction) (bool, bool) {
		a := ain(u)
		a.Amount = new(big.Int).Sub(a.Amount, unit)
		a.Commit = commitOf(a.Amount, a.CF)
		return true, a.Amount.Sign() > 0
	}},
	{"ain/amount-halved-recomputed-commitment", "ain", func(rs *rigState, u, o *types.UTXOTransaction) (bool, bool) {
		a := ain(u)
		a.Amount = new(big.Int).Mul(new(big.Int).Div(new(big.Int).Div(a.Amount, unit), big.NewInt(2)), unit)
		a.Commit = commitOf(a.Amount, a.CF)
		return true, a.Amount.Sign() > 0
	}},
	{"ain/blinding-altered-stale-commitment", "ain", func(rs *rigState, u, o *types.UTXOTransaction) (bool, bool) {
		ain(u).CF[0] ^= 1
		return true, true
	}},
	{"ain/blinding-altered-recomputed-commitment", "ain", func(rs *rigState, u, o *types.UTXOTransaction) (bool, bool) {
		a := ain(u)
		a.CF[0] ^= 1
		a.Commit = commitOf(a.Amount, a.CF)
		return true, true
	}},
	{"ain/commitment-replaced", "ain", func(rs *rigState, u, o *types.UTXOTransaction) (bool, bool) {
		if o == nil || ain(o).Commit == ain(u).Commit {
			return false, false
		}
		ain(u).Commit = ain(o).Commit
		return true, true
	}},
	{"ain/amount-not-a-unit-multiple", "ain", func(rs *rigState, u, o *types.UTXOTransaction) (bool, bool) {
		a := ain(u)
		a.Amount = new(big.Int).Add(a.Amount, big.NewInt(1))
		return true, true
	}},
	{"ain/amount-below-one-unit", "ain", func(rs *rigState, u, o *types.UTXOTransaction) (bool, bool) {
		a := ain(u)
		a.Amount = big.NewInt(types.UTXO_COMMITMENT_CHANGE_RATE - 1)
		a.Commit = commitOf(a.Amount, a.CF)
		return true, true
	}},
	{"ain/amount-zero", "ain", func(rs *rigState, u, o *types.UTXOTransaction) (bool, bool) {
		a := ain(u)
		a.Amount = new(big.Int)
		a.Commit = commitOf(a.Amount, a.CF)
		return true, true
	}},
	{"ain/amount-2^64-units", "ain", func(rs *rigState, u, o *types.UTXOTransaction) (bool, bool) {
		// 2^64 commitment units: does not fit the 8-byte amount of a commitment
		a := ain(u)
		a.Amount = new(big.Int).Mul(two64, unit)
		a.Commit = commitOf(a.Amount, a.CF)
		return true, true
	}},
	{"ain/amount-2^64-units-plus-original", "ain", func(rs *rigState, u, o *types.UTXOTransaction) (bool, bool) {
		// wraps to the original amount modulo 2^64 units
		a := ain(u)
		orig := new(big.Int).Set(a.Amount)
		a.Amount = new(big.Int).Add(new(big.Int).Mul(two64, unit), orig)
		a.Commit = commitOf(orig, a.CF)
		return true, true
	}},
	// ---- hidden -> hidden / account
	{"uin/inflated-input-mlsag", "uin-mlsag", nil},
	{"uin/inflated-input-short-ring", "uin-short", nil},
	{"uin/fee-raised", "uin-any", func(rs *rigState, u, o *types.UTXOTransaction) (bool, bool) {
		u.Fee = new(big.Int).Add(u.Fee, big.NewInt(types.ParGasPrice))
		return false, true
	}},
	{"uin/fee-lowered", "uin-any", func(rs *rigState, u, o *types.UTXOTransaction) (bool, bool) {
		u.Fee = new(big.Int).Sub(u.Fee, big.NewInt(types.ParGasPrice))
		return false, u.Fee.Sign() >= 0
	}},
	{"uin/pseudo-out-replaced", "uin-any", func(rs *rigState, u, o *types.UTXOTransaction) (bool, bool) {
		if o == nil || len(o.RCTSig.P.PseudoOuts) == 0 || len(u.RCTSig.P.PseudoOuts) == 0 {
			return false, false
		}
		u.RCTSig.P.PseudoOuts[0] = o.RCTSig.P.PseudoOuts[0]
		return false, true
	}},
	{"uin/output-commitment-replaced", "uin-any", func(rs *rigState, u, o *types.UTXOTransaction) (bool, bool) {
		if o == nil || len(o.RCTSig.OutPk) == 0 || len(u.RCTSig.OutPk) == 0 {
			return false, false
		}
		u.RCTSig.OutPk[0].Mask = o.RCTSig.OutPk[0].Mask
		return false, true
	}},
	{"uin/range-proof-swapped", "uin-any", func(rs *rigState, u, o *types.UTXOTransaction) (bool, bool) {
		if o == nil || len(o.RCTSig.P.Bulletproofs) == 0 || len(u.RCTSig.P.Bulletproofs) == 0 {
			return false, false
		}
		u.RCTSig.P.Bulletproofs = o.RCTSig.P.Bulletproofs
		return false, true
	}},
	{"uin/account-output-raised-stale-commitment", "uin-acc", func(rs *rigState, u, o *types.UTXOTransaction) (bool, bool) {
		a := aout(u)
		a.Amount = new(big.Int).Add(a.Amount, unit)
		return false, true
	}},
	{"uin/account-output-raised-recomputed-commitment", "uin-acc", func(rs *rigState, u, o *types.UTXOTransaction) (bool, bool) {
		a := aout(u)
		a.Amount = new(big.Int).Add(a.Amount, unit)
		a.Commit = hCommit(a.Amount)
		return false, true
	}},
	{"uin/account-output-not-a-unit-multiple", "uin-acc", func(rs *rigState, u, o *types.UTXOTransaction) (bool, bool) {
		a := aout(u)
		a.Amount = new(big.Int).Add(a.Amount, big.NewInt(1))
		return false, true
	}},
	{"uin/account-output-zero", "uin-acc", func(rs *rigState, u, o *types.UTXOTransaction) (bool, bool) {
		a := aout(u)
		a.Amount = new(big.Int)
		a.Commit = hCommit(a.Amount)
		return false, true
	}},
	{"uin/account-output-2^64-units", "uin-acc", func(rs *rigState, u, o *types.UTXOTransaction) (bool, bool) {
		a := aout(u)
		a.Amount = new(big.Int).Mul(two64, unit)
		return false, true
	}},
}

func (rs *rigState) keyOf(addr common.Address) *txgen.Account {
	for _, a := range rs.gen.Accts {
		if a.Addr == addr {
			return a
		}
	}
	return nil
}

// baseTx builds a valid confidential transaction of the requested shape (not committed).
func (rs *rigState) baseTx(base string, inflate *big.Int) *txgen.Item {
	g := rs.gen
	switch base {
	case "ain":
		return g.AccToUtxo(g.Accts[g.T.Int(len(g.Accts))], txgen.Native)
	}
	var ws []*txgen.Wallet
	for _, w := range g.Wallets() {
		for _, h := range g.L.Hidden[txgen.Native] {
			if h.Owner == w.Index && !h.Spent {
				ws = append(ws, w)
				break
			}
		}
	}
	if len(ws) == 0 {
		return nil
	}
	o := txgen.SpendOpts{Wallet: ws[g.T.Int(len(ws))], Token: txgen.Native, Inflate: inflate}
	switch base {
	case "uin-mlsag":
		if len(g.L.Hidden[txgen.Native]) < 2 {
			return nil
		}
		o.RingSize = 2 + g.T.Int(4)
		o.ToAccount = g.T.Bool(1, 2)
	case "uin-short":
		o.RingSize = 1
		o.ToAccount = g.T.Bool(1, 2)
	case "uin-acc":
		o.ToAccount = true
	default:
		o.ToAccount = g.T.Bool(1, 2)
	}
	return g.UtxoSpend(o)
}

// tamperRound offers a few unbalanced transactions. Pending generator state
// must be empty (it is reset afterwards).
func (rs *rigState) tamperRound() {
	c, g := rs.c, rs.gen
	tt := c.Tape.Fork("tamper")
	n := 1 + tt.Int(3)
	for i := 0; i < n && !c.Failed(); i++ {
		g.Reset()
		// only variants whose base transaction can be built now
		haveHidden := false
		for _, h := range g.L.Hidden[txgen.Native] {
			if !h.Spent && h.Owner >= 0 {
				haveHidden = true
			}
		}
		var avail []tamper
		for _, t := range catalogue {
			if t.base == "ain" || haveHidden {
				avail = append(avail, t)
			}
		}
		tm := avail[tt.Int(len(avail))]
		if haveHidden && tt.Bool(1, 2) {
			// hidden spends are rarer: prefer them when possible
			var us []tamper
			for _, t := range avail {
				if t.base != "ain" {
					us = append(us, t)
				}
			}
			tm = us[tt.Int(len(us))]
		}
		var bad types.Tx
		var atk *txgen.Item
		if tm.mutate == nil {
			// built as an attack from the start: the input is claimed to hold more than it does
			surplus := new(big.Int).Mul(big.NewInt(int64(1+tt.Int(100000))), txgen.Ether)
			if tt.Bool(1, 4) {
				surplus = new(big.Int).Set(unit)
			}
			atk = rs.baseTx(tm.base, surplus)
			if atk == nil {
				c.Probe("tamper-unbuildable/" + tm.name)
				continue
			}
			bad = atk.Tx
		} else {
			a, b := rs.baseTx(tm.base, nil), rs.baseTx(tm.base, nil)
			if a == nil {
				c.Probe("tamper-no-base/" + tm.base)
				continue
			}
			ca, err1 := txgen.CloneTx(a.Tx)
			if err1 != nil {
				c.HarnessTrouble("clone: %v", err1)
				return
			}
			u := ca.(*types.UTXOTransaction)
			var o *types.UTXOTransaction // a second, independent valid transaction (may be missing)
			if b != nil {
				cb, err2 := txgen.CloneTx(b.Tx)
				if err2 != nil {
					c.HarnessTrouble("clone: %v", err2)
					return
				}
				o = cb.(*types.UTXOTransaction)
			}
			if tm.name == "ain/outputs-inflated-recomputed-commitments" && o != nil && ain(o).Amount.Cmp(ain(u).Amount) <= 0 {
				u, o = o, u
				a, b = b, a
			}
			resign, ok := tm.mutate(rs, u, o)
			if !ok {
				c.Probe("tamper-not-applicable/" + tm.name)
				continue
			}
			if resign {
				acct := rs.keyOf(a.From)
				if acct == nil {
					continue
				}
				if err := u.Sign(types.GlobalSTDSigner, acct.Key); err != nil {
					continue
				}
			}
			// a fresh decode: no cached hash/sender/kind
			bad, err1 = txgen.CloneTx(u)
			if err1 != nil {
				c.Probe("tamper-unencodable/" + tm.name)
				continue
			}
		}
		c.Fault("tamper/" + tm.name)
		c.Evals(2)
		rs.smp.Tamper = append(rs.smp.Tamper, tm.name)
		// (a) the mempool
		poolTx, _ := txgen.CloneTx(bad)
		errPool := rs.K.Submit(poolTx)
		// (b) inside a block built by a Byzantine proposer
		accepted := false
		block, _, perr := rs.T.Propose(txgen.BlockSpec{Explicit: true, Txs: types.Txs{bad}, Time: rs.now})
		if perr == nil {
			blk, err := txgen.CloneBlock(block)
			if err != nil {
				c.HarnessTrouble("clone: %v", err)
				return
			}
			ok, err := rs.K.Check(blk)
			if err != nil {
				c.Violate("panic", "panic/CheckBlock/tampered/"+tm.name, "%v", err)
				return
			}
			accepted = ok
		} else if _, isPanic := perr.(*txgen.ProposePanic); !isPanic {
			c.HarnessTrouble("propose tampered: %v", perr)
			return
		} else {
			c.Probe("tamper-refused-by-proposer-stage")
		}
		key := "inflation/" + tm.name
		if tm.name == "uin/inflated-input-short-ring" {
			key = "inflation/short-ring-pseudo-out-unbound"
		}
		stop := false
		if errPool == nil {
			stop = c.Violate("inflation", key, "mempool accepted an unbalanced confidential transaction (%s)", tm.name) || stop
		}
		if accepted {
			stop = c.Violate("inflation", key, "CheckBlock accepted a block carrying an unbalanced confidential transaction (%s)", tm.name) || stop
		}
		if stop {
			return
		}
		if atk != nil && accepted && errPool == nil && tt.Bool(1, 2) {
			// listed known finding: let the forged transaction through to show what it does
			// to the supply (the ledger books the surplus under Forged)
			c.Probe("forged-committed")
			items := []*txgen.Item{atk}
			if !rs.commitItems(items, "forged") {
				return
			}
			continue
		}
	}
	g.Reset()
}

func init() { _ = fmt.Sprint }
