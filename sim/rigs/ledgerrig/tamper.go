package ledgerrig

import (
	"fmt"
	"math/big"
	"strings"

	"github.com/lianxiangcloud/linkchain/libs/common"
	"github.com/lianxiangcloud/linkchain/libs/cryptonote/ringct"
	lktypes "github.com/lianxiangcloud/linkchain/libs/cryptonote/types"
	"github.com/lianxiangcloud/linkchain/types"

	"verif/sim/kernel"
	"verif/sim/txgen"
)

// The rejection side of C06: unbalanced variants of valid confidential
// transactions. Every variant is invalid BY CONSTRUCTION with respect to the
// statement ("accepted only if input commitments equal output commitments plus
// the fee commitment and every hidden amount is proven in range"): the ground
// truth does not come from running the chain's validator. Each variant is
// offered to the kv replica's mempool (must return an error) and, inside a
// block built by the trie replica acting as a Byzantine proposer (PreRunBlock
// performs no commitment checks), to the kv replica's CheckBlock (must be
// false).

type tamper struct {
	name string
	// base: which valid transaction it is derived from
	base string // "ain" | "uin-mlsag" | "uin-short" | "uin-acc"
	// mutate changes utx (a fresh decoded copy of the valid transaction);
	// other is a second, independent valid transaction of the same base;
	// resign reports whether the account signature must be renewed.
	mutate func(rs *rigState, utx, other *types.UTXOTransaction) (resign bool, ok bool)
	// pre (hidden spends only): applied to the freshly constructed transaction
	// BEFORE anything is signed or proven (account signature, range proof,
	// pseudo-outs, ring signatures are made over the result and all verify);
	// dests are what the output commitments and the range proof are made from.
	// false = not applicable to this transaction.
	pre func(rs *rigState, tt *kernel.Tape, tx *types.UTXOTransaction, dests []types.DestEntry) bool
	// forge (RingCT stage built by hand, then signed): the per-output and
	// per-input lists do not match the outputs and inputs; see txgen.RctForge.
	forge func(tt *kernel.Tape) txgen.RctForge
	// weak: the shape touches no amount and no proof (the statement does not
	// demand refusal): it must not panic, and if a block carrying it is
	// accepted, committing that block must leave the total supply unchanged.
	weak bool
	// lkcOnly: invalid by construction only when the fee is part of the
	// commitment equation (coin); token transactions pay the fee from an account.
	lkcOnly bool
}

// lkcUnit is the commitment unit of the coin; rs.unit is the unit of the token
// the tampered transaction moves.
var lkcUnit = big.NewInt(types.UTXO_COMMITMENT_CHANGE_RATE)

func ain(utx *types.UTXOTransaction) *types.AccountInput {
	for _, in := range utx.Inputs {
		if a, ok := in.(*types.AccountInput); ok {
			return a
		}
	}
	return nil
}

func aout(utx *types.UTXOTransaction) *types.AccountOutput {
	for _, o := range utx.Outputs {
		if a, ok := o.(*types.AccountOutput); ok {
			return a
		}
	}
	return nil
}

func commitOf(unit, amount *big.Int, cf lktypes.Key) lktypes.Key {
	return types.AmountCommit(new(big.Int).Div(amount, unit), cf)
}

func hCommit(unit, amount *big.Int) lktypes.Key {
	k, err := types.BigInt2Hash(new(big.Int).Div(amount, unit))
	if err != nil {
		return lktypes.Key{}
	}
	return ringct.ScalarmultH(k)
}

var two64 = new(big.Int).Lsh(big.NewInt(1), 64)

var catalogue = []tamper{
	// ---- account -> hidden
	{name: "ain/outputs-inflated-recomputed-commitments", base: "ain", mutate: func(rs *rigState, u, o *types.UTXOTransaction) (bool, bool) {
		// the whole (internally consistent) output side of a richer transaction on top of this input
		if o == nil || ain(o).Amount.Cmp(ain(u).Amount) <= 0 {
			return false, false
		}
		u.Outputs, u.RKey, u.AddKeys = o.Outputs, o.RKey, o.AddKeys
		u.RCTSig.OutPk, u.RCTSig.EcdhInfo, u.RCTSig.P.Bulletproofs = o.RCTSig.OutPk, o.RCTSig.EcdhInfo, o.RCTSig.P.Bulletproofs
		return true, true
	}},
	{name: "ain/outputs-inflated-stale-commitments", base: "ain", mutate: func(rs *rigState, u, o *types.UTXOTransaction) (bool, bool) {
		// range proof and encrypted amounts of other outputs, commitments kept
		if o == nil || len(o.RCTSig.OutPk) != len(u.RCTSig.OutPk) {
			return false, false
		}
		u.RCTSig.EcdhInfo, u.RCTSig.P.Bulletproofs = o.RCTSig.EcdhInfo, o.RCTSig.P.Bulletproofs
		return false, true
	}},
	{name: "ain/range-proof-swapped", base: "ain", mutate: func(rs *rigState, u, o *types.UTXOTransaction) (bool, bool) {
		if o == nil {
			return false, false
		}
		u.RCTSig.P.Bulletproofs = o.RCTSig.P.Bulletproofs
		return false, true
	}},
	{name: "ain/fee-raised", base: "ain", mutate: func(rs *rigState, u, o *types.UTXOTransaction) (bool, bool) {
		u.Fee = new(big.Int).Add(u.Fee, big.NewInt(types.ParGasPrice))
		return true, true
	}, lkcOnly: true},
	{name: "ain/fee-lowered", base: "ain", mutate: func(rs *rigState, u, o *types.UTXOTransaction) (bool, bool) {
		u.Fee = new(big.Int).Sub(u.Fee, big.NewInt(types.ParGasPrice))
		return true, u.Fee.Sign() >= 0
	}, lkcOnly: true},
	{name: "ain/amount-lowered-stale-commitment", base: "ain", mutate: func(rs *rigState, u, o *types.UTXOTransaction) (bool, bool) {
		a := ain(u)
		a.Amount = new(big.Int).Sub(a.Amount, rs.unit)
		return true, a.Amount.Sign() > 0
	}},
	{name: "ain/amount-lowered-recomputed-commitment", base: "ain", mutate: func(rs *rigState, u, o *types.UTXOTransaction) (bool, bool) {
		a := ain(u)
		a.Amount = new(big.Int).Sub(a.Amount, rs.unit)
		a.Commit = commitOf(rs.unit, a.Amount, a.CF)
		return true, a.Amount.Sign() > 0
	}},
	{name: "ain/amount-halved-recomputed-commitment", base: "ain", mutate: func(rs *rigState, u, o *types.UTXOTransaction) (bool, bool) {
		a := ain(u)
		a.Amount = new(big.Int).Mul(new(big.Int).Div(new(big.Int).Div(a.Amount, rs.unit), big.NewInt(2)), rs.unit)
		a.Commit = commitOf(rs.unit, a.Amount, a.CF)
		return true, a.Amount.Sign() > 0
	}},
	{name: "ain/blinding-altered-stale-commitment", base: "ain", mutate: func(rs *rigState, u, o *types.UTXOTransaction) (bool, bool) {
		ain(u).CF[0] ^= 1
		return true, true
	}},
	{name: "ain/blinding-altered-recomputed-commitment", base: "ain", mutate: func(rs *rigState, u, o *types.UTXOTransaction) (bool, bool) {
		a := ain(u)
		a.CF[0] ^= 1
		a.Commit = commitOf(rs.unit, a.Amount, a.CF)
		return true, true
	}},
	{name: "ain/commitment-replaced", base: "ain", mutate: func(rs *rigState, u, o *types.UTXOTransaction) (bool, bool) {
		if o == nil || ain(o).Commit == ain(u).Commit {
			return false, false
		}
		ain(u).Commit = ain(o).Commit
		return true, true
	}},
	{name: "ain/amount-not-a-unit-multiple", base: "ain", mutate: func(rs *rigState, u, o *types.UTXOTransaction) (bool, bool) {
		a := ain(u)
		a.Amount = new(big.Int).Add(a.Amount, big.NewInt(1))
		return true, true
	}},
	{name: "ain/amount-below-one-unit", base: "ain", mutate: func(rs *rigState, u, o *types.UTXOTransaction) (bool, bool) {
		a := ain(u)
		a.Amount = new(big.Int).Sub(rs.unit, big.NewInt(1))
		a.Commit = commitOf(rs.unit, a.Amount, a.CF)
		return true, true
	}},
	{name: "ain/amount-zero", base: "ain", mutate: func(rs *rigState, u, o *types.UTXOTransaction) (bool, bool) {
		a := ain(u)
		a.Amount = new(big.Int)
		a.Commit = commitOf(rs.unit, a.Amount, a.CF)
		return true, true
	}},
	{name: "ain/amount-2^64-units", base: "ain", mutate: func(rs *rigState, u, o *types.UTXOTransaction) (bool, bool) {
		// 2^64 commitment units: does not fit the 8-byte amount of a commitment
		a := ain(u)
		a.Amount = new(big.Int).Mul(two64, rs.unit)
		a.Commit = commitOf(rs.unit, a.Amount, a.CF)
		return true, true
	}},
	{name: "ain/amount-2^64-units-plus-original", base: "ain", mutate: func(rs *rigState, u, o *types.UTXOTransaction) (bool, bool) {
		// wraps to the original amount modulo 2^64 units
		a := ain(u)
		orig := new(big.Int).Set(a.Amount)
		a.Amount = new(big.Int).Add(new(big.Int).Mul(two64, rs.unit), orig)
		a.Commit = commitOf(rs.unit, orig, a.CF)
		return true, true
	}},
	// ---- hidden -> hidden / account
	{name: "uin/inflated-input-mlsag", base: "uin-mlsag", mutate: nil},
	{name: "uin/inflated-input-short-ring", base: "uin-short", mutate: nil},
	{name: "uin/fee-raised", base: "uin-any", mutate: func(rs *rigState, u, o *types.UTXOTransaction) (bool, bool) {
		u.Fee = new(big.Int).Add(u.Fee, big.NewInt(types.ParGasPrice))
		return false, true
	}},
	{name: "uin/fee-lowered", base: "uin-any", mutate: func(rs *rigState, u, o *types.UTXOTransaction) (bool, bool) {
		u.Fee = new(big.Int).Sub(u.Fee, big.NewInt(types.ParGasPrice))
		return false, u.Fee.Sign() >= 0
	}},
	{name: "uin/pseudo-out-replaced", base: "uin-any", mutate: func(rs *rigState, u, o *types.UTXOTransaction) (bool, bool) {
		if o == nil || len(o.RCTSig.P.PseudoOuts) == 0 || len(u.RCTSig.P.PseudoOuts) == 0 {
			return false, false
		}
		u.RCTSig.P.PseudoOuts[0] = o.RCTSig.P.PseudoOuts[0]
		return false, true
	}},
	{name: "uin/output-commitment-replaced", base: "uin-any", mutate: func(rs *rigState, u, o *types.UTXOTransaction) (bool, bool) {
		if o == nil || len(o.RCTSig.OutPk) == 0 || len(u.RCTSig.OutPk) == 0 {
			return false, false
		}
		u.RCTSig.OutPk[0].Mask = o.RCTSig.OutPk[0].Mask
		return false, true
	}},
	{name: "uin/range-proof-swapped", base: "uin-any", mutate: func(rs *rigState, u, o *types.UTXOTransaction) (bool, bool) {
		if o == nil || len(o.RCTSig.P.Bulletproofs) == 0 || len(u.RCTSig.P.Bulletproofs) == 0 {
			return false, false
		}
		u.RCTSig.P.Bulletproofs = o.RCTSig.P.Bulletproofs
		return false, true
	}},
	{name: "uin/account-output-raised-stale-commitment", base: "uin-acc", mutate: func(rs *rigState, u, o *types.UTXOTransaction) (bool, bool) {
		a := aout(u)
		a.Amount = new(big.Int).Add(a.Amount, rs.unit)
		return false, true
	}},
	{name: "uin/account-output-raised-recomputed-commitment", base: "uin-acc", mutate: func(rs *rigState, u, o *types.UTXOTransaction) (bool, bool) {
		a := aout(u)
		a.Amount = new(big.Int).Add(a.Amount, rs.unit)
		a.Commit = hCommit(rs.unit, a.Amount)
		return false, true
	}},
	{name: "uin/account-output-not-a-unit-multiple", base: "uin-acc", mutate: func(rs *rigState, u, o *types.UTXOTransaction) (bool, bool) {
		a := aout(u)
		a.Amount = new(big.Int).Add(a.Amount, big.NewInt(1))
		return false, true
	}},
	{name: "uin/account-output-zero", base: "uin-acc", mutate: func(rs *rigState, u, o *types.UTXOTransaction) (bool, bool) {
		a := aout(u)
		a.Amount = new(big.Int)
		a.Commit = hCommit(rs.unit, a.Amount)
		return false, true
	}},
	{name: "uin/account-output-2^64-units", base: "uin-acc", mutate: func(rs *rigState, u, o *types.UTXOTransaction) (bool, bool) {
		a := aout(u)
		a.Amount = new(big.Int).Mul(two64, rs.unit)
		return false, true
	}},
}

func utxoDest(dests []types.DestEntry) *types.UTXODestEntry {
	for _, d := range dests {
		if u, ok := d.(*types.UTXODestEntry); ok {
			return u
		}
	}
	return nil
}

// fraction draws 0 < r < unit (nil if the unit is 1: every amount is a multiple).
func fraction(tt *kernel.Tape, unit *big.Int) *big.Int {
	if unit.Cmp(big.NewInt(1)) <= 0 {
		return nil
	}
	max := new(big.Int).Sub(unit, big.NewInt(1)) // r in [1, unit-1]
	switch tt.Pick(2, 1, 1, 2) {
	case 0:
		return max
	case 1:
		return big.NewInt(1)
	case 2:
		return new(big.Int).Rsh(unit, 1)
	default:
		r := new(big.Int).SetUint64(tt.Uint64())
		r.Mod(r, max)
		return r.Add(r, big.NewInt(1))
	}
}

// Variants made BEFORE signing: every signature and proof of the resulting
// transaction verifies, only the balance between public amounts and
// commitments is broken. Public amounts meet commitments in whole units
// (amount / unit, integer division): a public amount of k*unit + r is covered
// by a commitment to k units, so r would be created (account output) or
// destroyed (account input, fee) if such a transaction were accepted.
var preCatalogue = []tamper{
	{name: "uin/presigned/account-output-plus-fraction-of-unit", base: "uin-acc", pre: func(rs *rigState, tt *kernel.Tape, tx *types.UTXOTransaction, dests []types.DestEntry) bool {
		// account output k*unit + r, commitment (made by the constructor from k*unit) unchanged
		a, r := aout(tx), fraction(tt, rs.unit)
		if a == nil || r == nil {
			return false
		}
		a.Amount = new(big.Int).Add(a.Amount, r)
		return true
	}},
	{name: "uin/presigned/account-output-plus-fraction-recomputed-commitment", base: "uin-acc", pre: func(rs *rigState, tt *kernel.Tape, tx *types.UTXOTransaction, dests []types.DestEntry) bool {
		a, r := aout(tx), fraction(tt, rs.unit)
		if a == nil || r == nil {
			return false
		}
		a.Amount = new(big.Int).Add(a.Amount, r)
		a.Commit = hCommit(rs.unit, a.Amount) // same point: integer division
		return true
	}},
	{name: "uin/presigned/account-output-raised-stale-commitment", base: "uin-acc", pre: func(rs *rigState, tt *kernel.Tape, tx *types.UTXOTransaction, dests []types.DestEntry) bool {
		a := aout(tx)
		if a == nil {
			return false
		}
		a.Amount = new(big.Int).Add(a.Amount, rs.unit)
		return true
	}},
	{name: "uin/presigned/account-output-raised-recomputed-commitment", base: "uin-acc", pre: func(rs *rigState, tt *kernel.Tape, tx *types.UTXOTransaction, dests []types.DestEntry) bool {
		a := aout(tx)
		if a == nil {
			return false
		}
		a.Amount = new(big.Int).Add(a.Amount, new(big.Int).Mul(rs.unit, big.NewInt(int64(1+tt.Int(1000)))))
		a.Commit = hCommit(rs.unit, a.Amount)
		return true
	}},
	{name: "uin/presigned/account-output-plus-2^64-units", base: "uin-acc", pre: func(rs *rigState, tt *kernel.Tape, tx *types.UTXOTransaction, dests []types.DestEntry) bool {
		// equal to the committed amount modulo 2^64 units
		a := aout(tx)
		if a == nil {
			return false
		}
		a.Amount = new(big.Int).Add(a.Amount, new(big.Int).Mul(two64, rs.unit))
		return true
	}},
	{name: "uin/presigned/hidden-output-raised", base: "uin-any", pre: func(rs *rigState, tt *kernel.Tape, tx *types.UTXOTransaction, dests []types.DestEntry) bool {
		// the output commitment and its range proof are made for more than the inputs and the fee leave
		d := utxoDest(dests)
		if d == nil {
			return false
		}
		d.Amount = new(big.Int).Add(d.Amount, new(big.Int).Mul(rs.unit, big.NewInt(int64(1+tt.Int(1000000)))))
		return true
	}},
	{name: "uin/presigned/fee-raised", base: "uin-any", lkcOnly: true, pre: func(rs *rigState, tt *kernel.Tape, tx *types.UTXOTransaction, dests []types.DestEntry) bool {
		tx.Fee = new(big.Int).Add(tx.Fee, big.NewInt(types.ParGasPrice))
		return true
	}},
	{name: "uin/presigned/fee-lowered", base: "uin-any", lkcOnly: true, pre: func(rs *rigState, tt *kernel.Tape, tx *types.UTXOTransaction, dests []types.DestEntry) bool {
		tx.Fee = new(big.Int).Sub(tx.Fee, big.NewInt(types.ParGasPrice))
		return tx.Fee.Sign() >= 0
	}},
	{name: "uin/presigned/fee-plus-fraction-of-unit", base: "uin-any", lkcOnly: true, pre: func(rs *rigState, tt *kernel.Tape, tx *types.UTXOTransaction, dests []types.DestEntry) bool {
		r := fraction(tt, lkcUnit)
		if r == nil {
			return false
		}
		tx.Fee = new(big.Int).Add(tx.Fee, r)
		return true
	}},
}

// surplusUnits draws X (commitment units): small, medium or close to 2^62.
func surplusUnits(tt *kernel.Tape) *big.Int {
	switch tt.Pick(2, 3, 2) {
	case 0:
		return big.NewInt(int64(1 + tt.Int(1000)))
	case 1:
		return new(big.Int).SetUint64(1 + tt.Uint64()%(1<<40))
	default:
		return new(big.Int).SetUint64(1<<62 - tt.Uint64()%(1<<30))
	}
}

func neg(v *big.Int) *big.Int { return new(big.Int).Neg(v) }

// Variants with a hand-built RingCT stage: the lists that carry the balance
// and its proofs (OutPk, range proof, pseudo-outs) have more or fewer entries
// than there are outputs / inputs. The commitment equation HOLDS in all the
// strong ones (blinding factors are re-derived), and every signature is made
// afterwards; what is wrong is that a commitment taking part in the equation
// belongs to no output or no spent input, or that an output's amount is not
// range-proven: a hidden output worth X more than was paid in appears.
var forgeShapes = []struct {
	name  string
	weak  bool
	forge func(tt *kernel.Tape) txgen.RctForge
}{
	{"surplus-output-commitment-negative", false, func(tt *kernel.Tape) txgen.RctForge {
		x := surplusUnits(tt)
		return txgen.RctForge{InflateUnits: x, SurplusOut: []*big.Int{neg(x)}}
	}},
	{"surplus-output-commitments-split-negative", false, func(tt *kernel.Tape) txgen.RctForge {
		x := surplusUnits(tt)
		a := new(big.Int).Div(x, big.NewInt(int64(2+tt.Int(5))))
		f := txgen.RctForge{InflateUnits: x, SurplusOut: []*big.Int{neg(a), neg(new(big.Int).Sub(x, a))}}
		if tt.Bool(1, 3) {
			f.SurplusOut = append(f.SurplusOut, big.NewInt(0))
		}
		return f
	}},
	{"surplus-pseudo-out", false, func(tt *kernel.Tape) txgen.RctForge {
		x := surplusUnits(tt)
		return txgen.RctForge{InflateUnits: x, SurplusIn: []*big.Int{x}}
	}},
	{"surplus-pseudo-outs-split", false, func(tt *kernel.Tape) txgen.RctForge {
		x := surplusUnits(tt)
		a := new(big.Int).Div(x, big.NewInt(int64(2+tt.Int(5))))
		return txgen.RctForge{InflateUnits: x, SurplusIn: []*big.Int{a, new(big.Int).Sub(x, a)}}
	}},
	{"surplus-pseudo-out-and-output-commitment", false, func(tt *kernel.Tape) txgen.RctForge {
		x, y := surplusUnits(tt), surplusUnits(tt)
		return txgen.RctForge{InflateUnits: x, SurplusIn: []*big.Int{new(big.Int).Add(x, y)}, SurplusOut: []*big.Int{y}}
	}},
	{"last-output-negative-not-range-proven", false, func(tt *kernel.Tape) txgen.RctForge {
		// far above any amount the workload hides: the last output commits to a negative amount
		x := new(big.Int).SetUint64(1<<62 - tt.Uint64()%(1<<30))
		return txgen.RctForge{InflateUnits: x, Unproven: 1, UnprovenDelta: neg(x)}
	}},
	{"last-output-not-range-proven", false, func(tt *kernel.Tape) txgen.RctForge {
		return txgen.RctForge{Unproven: 1} // honest amounts, but the proof stops one output short
	}},
	{"last-output-without-commitment", false, func(tt *kernel.Tape) txgen.RctForge {
		return txgen.RctForge{DropLastOutPk: true}
	}},
	{"second-account-input", false, func(tt *kernel.Tape) txgen.RctForge {
		// account->hidden only (ignored by hidden spends, which then are the
		// honest transaction inflated by X: unbalanced, refused all the same)
		x := surplusUnits(tt)
		return txgen.RctForge{InflateUnits: x, ExtraAccountInput: x}
	}},
	{"encrypted-amounts-surplus", true, func(tt *kernel.Tape) txgen.RctForge { return txgen.RctForge{EcdhDelta: 1 + tt.Int(2)} }},
	{"encrypted-amounts-deficit", true, func(tt *kernel.Tape) txgen.RctForge { return txgen.RctForge{EcdhDelta: -1} }},
	{"additional-keys-surplus", true, func(tt *kernel.Tape) txgen.RctForge { return txgen.RctForge{AddKeysDelta: 1 + tt.Int(2)} }},
	{"additional-keys-deficit", true, func(tt *kernel.Tape) txgen.RctForge { return txgen.RctForge{AddKeysDelta: -1} }},
	{"range-proof-entry-duplicated", true, func(tt *kernel.Tape) txgen.RctForge { return txgen.RctForge{ProofCopies: 1} }},
}

// forgeCatalogue: every shape for account-input and for hidden-input transactions.
var forgeCatalogue = func() []tamper {
	var out []tamper
	for _, sh := range forgeShapes {
		out = append(out, tamper{name: "ain/forged/" + sh.name, base: "ain", forge: sh.forge, weak: sh.weak})
		out = append(out, tamper{name: "uin/forged/" + sh.name, base: "uin-any", forge: sh.forge, weak: sh.weak})
	}
	return out
}()

func (rs *rigState) keyOf(addr common.Address) *txgen.Account {
	for _, a := range rs.gen.Accts {
		if a.Addr == addr {
			return a
		}
	}
	return nil
}

// walletsWith lists the wallets owning an unspent hidden output of token.
func (rs *rigState) walletsWith(token common.Address) []*txgen.Wallet {
	g := rs.gen
	var ws []*txgen.Wallet
	for _, w := range g.Wallets() {
		for _, h := range g.L.Hidden[token] {
			if h.Owner == w.Index && !h.Spent {
				ws = append(ws, w)
				break
			}
		}
	}
	return ws
}

// baseTx builds a valid confidential transaction of the requested shape (not
// committed) moving token; pre, if set, runs between construction and signing.
func (rs *rigState) baseTx(base string, token common.Address, inflate *big.Int, pre func(tx *types.UTXOTransaction, dests []types.DestEntry)) *txgen.Item {
	g := rs.gen
	switch base {
	case "ain":
		if token == txgen.Native {
			return g.AccToUtxo(g.Accts[g.T.Int(len(g.Accts))], txgen.Native)
		}
		for _, h := range g.L.HoldersOf(token) {
			if a := g.Account(h); a != nil && g.Avail(token, h).Cmp(rs.unit) >= 0 {
				return g.AccToUtxo(a, token)
			}
		}
		return nil
	}
	o := rs.spendOpts(base, token, inflate)
	if o == nil {
		return nil
	}
	if pre != nil {
		return g.UtxoSpendPre(*o, pre)
	}
	return g.UtxoSpend(*o)
}

// spendOpts draws the options of a hidden spend of the requested shape (nil: nothing to spend).
func (rs *rigState) spendOpts(base string, token common.Address, inflate *big.Int) *txgen.SpendOpts {
	g := rs.gen
	ws := rs.walletsWith(token)
	if len(ws) == 0 {
		return nil
	}
	o := txgen.SpendOpts{Wallet: ws[g.T.Int(len(ws))], Token: token, Inflate: inflate}
	switch base {
	case "uin-mlsag":
		if len(g.L.Hidden[token]) < 2 {
			return nil
		}
		o.RingSize = 2 + g.T.Int(4)
		o.ToAccount = g.T.Bool(1, 2)
	case "uin-short":
		o.RingSize = 1
		o.ToAccount = g.T.Bool(1, 2)
	case "uin-acc":
		o.ToAccount = true
	default:
		o.ToAccount = g.T.Bool(1, 2)
	}
	return &o
}

// tamperToken picks the token the next tampered transaction moves: the coin,
// or (for variants that are invalid whatever pays the fee) an issued token
// that the needed base transaction can be built from.
func (rs *rigState) tamperToken(tt *kernel.Tape, tm tamper) common.Address {
	g := rs.gen
	if tm.lkcOnly || (tm.pre == nil && tm.forge == nil && tm.base != "ain") || !tt.Bool(1, 3) {
		return txgen.Native
	}
	var cands []common.Address
	for _, tok := range g.L.Tokens() {
		if tok == txgen.Native || g.L.OpaqueTokens[tok] || g.UnitOf(tok) == nil {
			continue
		}
		if tm.base == "ain" {
			for _, h := range g.L.HoldersOf(tok) {
				if g.Account(h) != nil && g.Avail(tok, h).Cmp(g.UnitOf(tok)) >= 0 {
					cands = append(cands, tok)
					break
				}
			}
		} else if len(rs.walletsWith(tok)) > 0 {
			cands = append(cands, tok)
		}
	}
	if len(cands) == 0 {
		return txgen.Native
	}
	return cands[tt.Int(len(cands))]
}

// tamperRound offers a few unbalanced transactions. Pending generator state
// must be empty (it is reset afterwards).
func (rs *rigState) tamperRound() {
	c, g := rs.c, rs.gen
	tt := c.Tape.Fork("tamper")
	n := 1 + tt.Int(3)
	all := append(append(append([]tamper(nil), catalogue...), preCatalogue...), forgeCatalogue...)
	for i := 0; i < n && !c.Failed(); i++ {
		g.Reset()
		// only variants whose base transaction can be built now
		haveHidden := len(rs.walletsWith(txgen.Native)) > 0
		var avail []tamper
		for _, t := range all {
			if t.base == "ain" || haveHidden {
				avail = append(avail, t)
			}
		}
		tm := avail[tt.Int(len(avail))]
		if haveHidden && tt.Bool(1, 2) {
			// hidden spends are rarer: prefer them when possible
			var us []tamper
			for _, t := range avail {
				if t.base != "ain" {
					us = append(us, t)
				}
			}
			tm = us[tt.Int(len(us))]
			if tt.Bool(1, 2) {
				tm = preCatalogue[tt.Int(len(preCatalogue))]
			}
		}
		if tt.Bool(1, 3) {
			// hand-built RingCT stages (account-input ones need no hidden funds)
			tm = forgeCatalogue[tt.Int(len(forgeCatalogue))]
			if !haveHidden && tm.base != "ain" {
				tm = forgeCatalogue[2*tt.Int(len(forgeCatalogue)/2)]
			}
		}
		token := rs.tamperToken(tt, tm)
		rs.unit = g.UnitOf(token)
		if rs.unit == nil {
			token, rs.unit = txgen.Native, lkcUnit
		}
		flavour := ""
		if token != txgen.Native {
			flavour = "token/"
		}
		var bad types.Tx
		var atk *txgen.Item
		var hiddenDelta *big.Int // value model of the offered transaction (nil: not computed)
		ring := ""
		switch {
		case tm.forge != nil:
			f := tm.forge(tt)
			if tm.base == "ain" {
				it := rs.baseTx("ain", token, nil, nil)
				if it == nil {
					c.Probe("tamper-no-base/ain")
					continue
				}
				tx, val, err := g.ForgeAccToUtxo(it, f)
				if err != nil {
					c.Probe("tamper-not-applicable/" + tm.name)
					continue
				}
				bad, hiddenDelta = tx, val.HiddenOut
			} else {
				o := rs.spendOpts(tm.base, token, nil)
				if o == nil {
					c.Probe("tamper-no-base/" + tm.base)
					continue
				}
				// the ring size decides which signature scheme has to hold the lists together
				o.RingSize = []int{1, 2, 3, 5}[tt.Pick(2, 3, 2, 1)]
				if len(g.L.Hidden[token]) < 2 {
					o.RingSize = 1
				}
				ring = "mlsag"
				if o.RingSize == 1 {
					ring = "short-ring"
				}
				it, val := g.UtxoSpendForged(*o, f)
				if it == nil {
					c.Probe("tamper-not-applicable/" + tm.name)
					continue
				}
				bad, hiddenDelta = it.Tx, new(big.Int).Sub(val.HiddenOut, val.HiddenIn)
			}
		case tm.pre != nil:
			applied := false
			it := rs.baseTx(tm.base, token, nil, func(tx *types.UTXOTransaction, dests []types.DestEntry) {
				applied = tm.pre(rs, tt, tx, dests)
			})
			if it == nil {
				if applied {
					// the builder could not finish the tampered transaction (e.g. an amount no commitment can carry)
					c.Probe("tamper-unbuildable/" + tm.name)
				} else {
					c.Probe("tamper-no-base/" + tm.base)
				}
				continue
			}
			if !applied {
				c.Probe("tamper-not-applicable/" + tm.name)
				continue
			}
			bad = it.Tx
			if tm.name == "uin/presigned/hidden-output-raised" {
				hiddenDelta = it.HiddenDelta() // the outputs were scanned back after the change
			}
		case tm.mutate == nil:
			// built as an attack from the start: the input is claimed to hold more than it does
			surplus := new(big.Int).Mul(big.NewInt(int64(1+tt.Int(100000))), txgen.Ether)
			if tt.Bool(1, 4) {
				surplus = new(big.Int).Set(rs.unit)
			}
			atk = rs.baseTx(tm.base, token, surplus, nil)
			if atk == nil {
				c.Probe("tamper-unbuildable/" + tm.name)
				continue
			}
			bad = atk.Tx
		default:
			a, b := rs.baseTx(tm.base, token, nil, nil), rs.baseTx(tm.base, token, nil, nil)
			if a == nil {
				c.Probe("tamper-no-base/" + tm.base)
				continue
			}
			ca, err1 := txgen.CloneTx(a.Tx)
			if err1 != nil {
				c.HarnessTrouble("clone: %v", err1)
				return
			}
			u := ca.(*types.UTXOTransaction)
			var o *types.UTXOTransaction // a second, independent valid transaction (may be missing)
			if b != nil {
				cb, err2 := txgen.CloneTx(b.Tx)
				if err2 != nil {
					c.HarnessTrouble("clone: %v", err2)
					return
				}
				o = cb.(*types.UTXOTransaction)
			}
			if tm.name == "ain/outputs-inflated-recomputed-commitments" && o != nil && ain(o).Amount.Cmp(ain(u).Amount) <= 0 {
				u, o = o, u
				a, b = b, a
			}
			resign, ok := tm.mutate(rs, u, o)
			if !ok {
				c.Probe("tamper-not-applicable/" + tm.name)
				continue
			}
			if resign {
				acct := rs.keyOf(a.From)
				if acct == nil {
					continue
				}
				if err := u.Sign(types.GlobalSTDSigner, acct.Key); err != nil {
					continue
				}
			}
			// a fresh decode: no cached hash/sender/kind
			bad, err1 = txgen.CloneTx(u)
			if err1 != nil {
				c.Probe("tamper-unencodable/" + tm.name)
				continue
			}
		}
		c.Fault("tamper/" + flavour + tm.name)
		c.Evals(2)
		rs.smp.Tamper = append(rs.smp.Tamper, flavour+tm.name)
		// (a) the mempool
		poolTx, _ := txgen.CloneTx(bad)
		errPool := rs.K.Submit(poolTx)
		// (b) inside a block built by a Byzantine proposer
		accepted := false
		blockTx, _ := txgen.CloneTx(bad)
		block, _, perr := rs.T.Propose(txgen.BlockSpec{Explicit: true, Txs: types.Txs{blockTx}, Time: rs.now})
		if perr == nil {
			blk, err := txgen.CloneBlock(block)
			if err != nil {
				c.HarnessTrouble("clone: %v", err)
				return
			}
			ok, err := rs.K.Check(blk)
			if err != nil {
				c.Violate("panic", "panic/CheckBlock/tampered/"+tm.name, "%v", err)
				return
			}
			accepted = ok
		} else if _, isPanic := perr.(*txgen.ProposePanic); !isPanic {
			c.HarnessTrouble("propose tampered: %v", perr)
			return
		} else {
			c.Probe("tamper-refused-by-proposer-stage")
		}
		key := "inflation/" + tm.name
		if tm.name == "uin/inflated-input-short-ring" {
			key = "inflation/short-ring-pseudo-out-unbound"
		}
		if tm.forge != nil && strings.Contains(tm.name, "surplus-pseudo-out") {
			// one root cause (the number of pseudo-outs is never compared with the
			// number of hidden inputs), three paths that could catch it
			key = "inflation/surplus-pseudo-out-counted-as-input/account-input"
			if tm.base != "ain" {
				key = "inflation/surplus-pseudo-out-counted-as-input/hidden-input-" + ring
			}
		}
		if tm.weak {
			// nothing about amounts or proofs is wrong: refusal is not demanded
			if accepted {
				diff, committed, err := rs.supplyEffect(bad, token, hiddenDelta)
				if err != nil {
					c.HarnessTrouble("scratch replica: %v", err)
					return
				}
				if eff, changed := effectString(diff); committed && changed {
					if c.Violate("conservation", "supply/changed-by-misshapen-confidential-transaction/"+tm.name, "a block carrying a confidential transaction with a misshapen list (%s%s) was accepted and committing it on a scratch replica changes the supply: %s", flavour, tm.name, eff) {
						return
					}
				}
				c.Probe("misshapen-accepted-and-conserving/" + tm.name)
			}
			continue
		}
		stop := false
		if errPool == nil || accepted {
			effect := ""
			if hiddenDelta != nil && !c.IsKnown(key) {
				// show what it does to the supply: commit it on a scratch replica
				if diff, committed, err := rs.supplyEffect(bad, token, hiddenDelta); err == nil && committed {
					eff, _ := effectString(diff)
					effect = "; committed on a scratch replica: " + eff
				} else if err == nil {
					effect = "; a scratch replica refused to commit it"
				}
			}
			if errPool == nil {
				stop = c.Violate("inflation", key, "mempool accepted an unbalanced confidential transaction (%s%s): %s%s", flavour, tm.name, describeUtxo(bad, rs.unit), effect) || stop
			}
			if accepted {
				stop = c.Violate("inflation", key, "CheckBlock accepted a block carrying an unbalanced confidential transaction (%s%s): %s%s", flavour, tm.name, describeUtxo(bad, rs.unit), effect) || stop
			}
		}
		if stop {
			return
		}
		if atk != nil && accepted && errPool == nil && tt.Bool(1, 2) {
			// listed known finding: let the forged transaction through to show what it does
			// to the supply (the ledger books the surplus under Forged)
			c.Probe("forged-committed")
			items := []*txgen.Item{atk}
			if !rs.commitItems(items, "forged") {
				return
			}
			continue
		}
	}
	g.Reset()
}

// describeUtxo prints the public numbers of a confidential transaction.
func describeUtxo(tx types.Tx, unit *big.Int) string {
	u, ok := tx.(*types.UTXOTransaction)
	if !ok {
		return ""
	}
	nOut, nIn := 0, 0
	for _, o := range u.Outputs {
		if _, ok := o.(*types.UTXOOutput); ok {
			nOut++
		}
	}
	for _, in := range u.Inputs {
		if _, ok := in.(*types.UTXOInput); ok {
			nIn++
		}
	}
	s := fmt.Sprintf("token %s unit %v fee %v; %d hidden outputs, %d output commitments, %d encrypted amounts, %d range proofs; %d hidden inputs, %d pseudo-outs", tokName(u.TokenID), unit, u.Fee,
		nOut, len(u.RCTSig.OutPk), len(u.RCTSig.EcdhInfo), len(u.RCTSig.P.Bulletproofs), nIn, len(u.RCTSig.P.PseudoOuts))
	if a := ain(u); a != nil {
		s += fmt.Sprintf(" account-input %v", a.Amount)
	}
	if a := aout(u); a != nil {
		s += fmt.Sprintf(" account-output %v (= %v units + %v)", a.Amount, new(big.Int).Div(a.Amount, unit), new(big.Int).Mod(a.Amount, unit))
	}
	return s
}
